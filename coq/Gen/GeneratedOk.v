(* GeneratedOk.v — obligations the facts regenerated from /repo must satisfy.
   Every lemma here is re-checked on every run against the fresh Gen/Generated.v; the property
   theorems depend on them.  A lemma that stops compiling names the fact that moved. *)
From VF Require Import Model.ExprSpec Model.TypeSpec Gen.Generated.
Open Scope string_scope. Open Scope list_scope. Open Scope Z_scope.

Lemma facts_recognised : unrecognised = false.
Proof. reflexivity. Qed.

(* ---- expression.py (C10, C12) ---- *)
(* C operator precedence, loosest first: | ^ & shifts additive multiplicative unary *)
Lemma prec_table_is_c :
  prec_table = [("|", 0); ("^", 1); ("&", 2); ("<<", 3); (">>", 3); ("+", 4); ("-", 4);
                ("*", 5); ("/", 5); ("%", 5); (minus_marker, 6); ("~", 6); ("sizeof", 6)].
Proof. reflexivity. Qed.
Lemma binary_ops_are_c :
  binary_ops = [("|", BOr); ("^", BXor); ("&", BAnd); ("<<", BShl); (">>", BShr);
                ("+", BAdd); ("-", BSub); ("*", BMul); ("/", BDiv); ("%", BMod)].
Proof. reflexivity. Qed.
Lemma unary_ops_are_c : unary_ops = [(minus_marker, UNeg); ("~", UInv)].
Proof. reflexivity. Qed.
(* left associativity: an operator on the stack is applied when its level is >= the incoming one *)
Lemma prec_cmp_is_ge : prec_cmp = CmpGe.
Proof. reflexivity. Qed.

(* the unary-minus marker can never be mistaken for an identifier, a number, "-", a parenthesis or sizeof,
   so no field or constant name can collide with it (this failed when the marker was "u") *)
Lemma marker_facts : is_number minus_marker = false /\ is_ident minus_marker = false /\
  String.eqb minus_marker "-" = false /\ String.eqb minus_marker "(" = false /\ String.eqb minus_marker ")" = false /\
  String.eqb minus_marker "sizeof" = false /\ is_operator minus_marker = true.
Proof. vm_compute. repeat split. Qed.

Definition op_keys : list string := map fst binary_ops ++ map fst unary_ops.
(* every operator key (incl. the marker) is neither a number nor an identifier *)
Lemma op_keys_not_number : forallb (fun t => negb (is_number t) && negb (is_ident t)) op_keys = true.
Proof. vm_compute. reflexivity. Qed.

(* ---- built-in types, aliases, byte orders (C04 C05 C13 C16) ---- *)
Lemma resolve_bound_is_10 : resolve_bound = 10.
Proof. reflexivity. Qed.
(* sizes, signedness, alignment of every built-in; pack characters agree with them; every alias resolves
   (within the bound) to the conventional base type; no unaccounted entries *)
Lemma type_table_ok : check_type_table (Z.to_nat resolve_bound) type_table = true.
Proof. vm_compute. reflexivity. Qed.
Lemma endianness_map_ok :
  endianness_map = [("@", ENative); ("=", ENative); ("<", LE); (">", BE); ("!", BE); ("network", BE)].
Proof. reflexivity. Qed.
Lemma wchar_encoding_map_ok : wchar_encoding_map = [("@", ENative); ("=", ENative); ("<", LE); (">", BE); ("!", BE)].
Proof. reflexivity. Qed.

(* ---- utils (C19) ---- *)
Lemma printable_is_ascii_32_126 : printable_codes = map Z.of_nat (seq 32 95).
Proof. vm_compute. reflexivity. Qed.
Lemma hexdump_constants : hexdump_row_width = 16 /\ hexdump_special_columns = [0; 7; 15].
Proof. split; reflexivity. Qed.
Lemma color_normal_is_escape : exists r, color_normal = String (ascii_of_nat 27) r.
Proof. eexists. reflexivity. Qed.

(* ---- no type-level scratch state on the parse / dump path (C14, C15) ---- *)
(* Expression.evaluate neither assigns attributes of the (shared) Expression object nor mutates containers stored on it *)
Lemma no_expression_scratch : expr_scratch_attrs = [].
Proof. reflexivity. Qed.
(* the readers / writers of the type classes do not store attributes on the class *)
Lemma no_type_level_stores : type_level_stores = [].
Proof. reflexivity. Qed.
Lemma no_global_statements : global_statements = 0.
Proof. reflexivity. Qed.
(* two default constructions share no list and no nested structure (probed on the live library) *)
Lemma defaults_are_fresh : defaults_fresh = true.
Proof. reflexivity. Qed.
