(* Base.v — shared vocabulary of the model: bytes, results, error classes, hex decoding.
   Definitions only (total, computable).  Bytes are Z in [0,256). *)
From Coq Require Export ZArith Bool String Ascii List.
Export ListNotations.
Open Scope Z_scope.

(* Error classes: the implementation's exceptions are canonicalised to these by vf/canon.py. *)
Inductive err :=
| EEof          (* EOFError *)
| ERange        (* struct.error / OverflowError: a number does not fit *)
| EArraySize    (* ArraySizeError *)
| ENullDeref    (* NullPointerDereference *)
| EResolve      (* ResolveError *)
| EParse        (* ParserError *)
| EExpr         (* ExpressionParserError / ExpressionTokenizerError *)
| EUnsupported  (* NotImplementedError *)
| EValue        (* ValueError *)
| EType         (* TypeError *)
| EKey          (* KeyError / IndexError / AttributeError / NameError *)
| EDecode       (* UnicodeDecodeError / UnicodeEncodeError *)
| EZeroDiv      (* ZeroDivisionError *)
| EOutOfFuel.   (* model only: the Python loop does not terminate (or the fuel bound was too small) *)

Inductive result (A : Type) := Ok (a : A) | Err (e : err).
Arguments Ok {A} a. Arguments Err {A} e.

Definition bind {A B} (r : result A) (f : A -> result B) : result B :=
  match r with Ok a => f a | Err e => Err e end.
Notation "'do' x <- r ; k" := (bind r (fun x => k)) (at level 200, x pattern, r at level 100, k at level 200).

Definition err_eqb (a b : err) : bool :=
  match a, b with
  | EEof, EEof | ERange, ERange | EArraySize, EArraySize | ENullDeref, ENullDeref
  | EResolve, EResolve | EParse, EParse | EExpr, EExpr | EUnsupported, EUnsupported
  | EValue, EValue | EType, EType | EKey, EKey | EDecode, EDecode | EZeroDiv, EZeroDiv
  | EOutOfFuel, EOutOfFuel => true
  | _, _ => false
  end.

Definition byte_ok (b : Z) : bool := (0 <=? b) && (b <? 256).
Definition bytes_ok (bs : list Z) : bool := forallb byte_ok bs.

(* hex decoding, used only by the generated correspondence shards *)
Definition hexval (c : ascii) : Z :=
  let n := Z.of_nat (nat_of_ascii c) in
  if (48 <=? n) && (n <=? 57) then n - 48
  else if (97 <=? n) && (n <=? 102) then n - 87
  else if (65 <=? n) && (n <=? 70) then n - 55 else 0.
Fixpoint hex (s : string) : list Z :=
  match s with
  | String a (String b r) => (16 * hexval a + hexval b) :: hex r
  | _ => []
  end.

Fixpoint list_eqb {A} (eqb : A -> A -> bool) (l1 l2 : list A) : bool :=
  match l1, l2 with
  | [], [] => true
  | a :: r1, b :: r2 => eqb a b && list_eqb eqb r1 r2
  | _, _ => false
  end.

Definition option_eqb {A} (eqb : A -> A -> bool) (a b : option A) : bool :=
  match a, b with Some x, Some y => eqb x y | None, None => true | _, _ => false end.

Definition result_eqb {A} (eqb : A -> A -> bool) (a b : result A) : bool :=
  match a, b with Ok x, Ok y => eqb x y | Err e, Err f => err_eqb e f | _, _ => false end.

(* coarse comparison: any error equals any error *)
Definition result_eqb_coarse {A} (eqb : A -> A -> bool) (a b : result A) : bool :=
  match a, b with Ok x, Ok y => eqb x y | Err _, Err _ => true | _, _ => false end.

(* indices of failed checks; every shard ends with  Eval vm_compute in (failed checks). *)
Fixpoint failed_from (i : nat) (l : list bool) : list nat :=
  match l with [] => [] | b :: r => if b then failed_from (S i) r else i :: failed_from (S i) r end.
Definition failed (l : list bool) : list nat := failed_from 0 l.

Fixpoint lookup {A} (k : string) (l : list (string * A)) : option A :=
  match l with [] => None | (k', v) :: r => if String.eqb k k' then Some v else lookup k r end.
