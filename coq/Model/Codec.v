(* Codec.v — scalar codecs: the CPython primitives the library leans on, with their documented
   meaning written out (int.from_bytes / int.to_bytes / struct integer codes, IEEE-754 fields, UTF-16),
   and the library's own LEB128 loops (types/leb128.py) and utils.pack/unpack/swap.
   Definitions only. Bytes are Z in [0,256). *)
From VF Require Export Model.TypeFacts.
Open Scope list_scope. Open Scope Z_scope.

(* ---------- fixed-width integers ---------- *)
Fixpoint le_decode (bs : list Z) : Z :=
  match bs with [] => 0 | b :: r => b + 256 * le_decode r end.
Fixpoint le_encode (n : nat) (v : Z) : list Z :=
  match n with O => [] | S k => v mod 256 :: le_encode k (v / 256) end.

Definition order (e : endian) (bs : list Z) : list Z :=
  match e with BE => rev bs | _ => bs end.           (* ENative is outside the claimed domain *)

Definition wrap_signed (n : nat) (u : Z) : Z :=      (* two's complement reading of an n-byte unsigned *)
  if u <? 2 ^ (8 * Z.of_nat n - 1) then u else u - 2 ^ (8 * Z.of_nat n).

(* int.from_bytes(bs, order, signed=...) *)
Definition int_from_bytes (e : endian) (signed : bool) (bs : list Z) : Z :=
  let u := le_decode (order e bs) in
  if signed then (match bs with [] => 0 | _ => wrap_signed (length bs) u end) else u.

Definition fits (n : nat) (signed : bool) (v : Z) : bool :=
  match n with O => v =? 0 | _ =>     (* (0).to_bytes(0, ...) == b"" for either signedness *)
  if signed then (- 2 ^ (8 * Z.of_nat n - 1) <=? v) && (v <? 2 ^ (8 * Z.of_nat n - 1))
  else (0 <=? v) && (v <? 2 ^ (8 * Z.of_nat n)) end.

(* v.to_bytes(n, order, signed=...): OverflowError when v does not fit; struct.pack raises struct.error *)
Definition int_to_bytes (e : endian) (n : nat) (signed : bool) (v : Z) : result (list Z) :=
  if fits n signed v then Ok (order e (le_encode n (v mod 2 ^ (8 * Z.of_nat n)))) else Err ERange.

(* ---------- LEB128 (types/leb128.py) ---------- *)
(* LEB128._read: structural on the remaining input; returns value and rest.
   `result |= (b & 0x7f) << shift` is written as its arithmetic meaning (the bit ranges are disjoint);
   `result |= ~0 << shift` as `result - 2^shift` (0 <= result < 2^shift). *)
Fixpoint leb_read_go (signed : bool) (bs : list Z) (acc shift : Z) : result (Z * list Z) :=
  match bs with
  | [] => Err EEof
  | b :: rest =>
    let acc' := acc + (b mod 128) * 2 ^ shift in
    let shift' := shift + 7 in
    if b <? 128
    then Ok ((if signed && (64 <=? b mod 128) then acc' - 2 ^ shift' else acc'), rest)
    else leb_read_go signed rest acc' shift'
  end.
Definition leb_read (signed : bool) (bs : list Z) : result (Z * list Z) := leb_read_go signed bs 0 0.

(* LEB128._write: fuel bounds the number of 7-bit groups *)
Fixpoint leb_write_go (fuel : nat) (signed : bool) (data : Z) : result (list Z) :=
  match fuel with
  | O => Err EOutOfFuel
  | S f =>
    let byte := data mod 128 in            (* data & 0x7f, also for negative data *)
    let data' := data / 128 in             (* data >> 7 : floor *)
    let b6 := 64 <=? byte in
    if (signed && (data' =? 0) && negb b6) || ((data' =? -1) && b6) || (negb signed && (data' =? 0))
    then Ok [byte]
    else do r <- leb_write_go f signed data'; Ok ((128 + byte) :: r)
  end.
Definition leb_fuel (v : Z) : nat := S (S (Z.to_nat (Z.log2 (Z.abs v) / 7))).
Definition leb_write (signed : bool) (v : Z) : result (list Z) :=
  if negb signed && (v <? 0) then Err EValue else leb_write_go (leb_fuel v) signed v.

(* ---------- UTF-16 (str.encode / bytes.decode with 'utf-16-le' / 'utf-16-be') ---------- *)
Fixpoint units_of_bytes (e : endian) (bs : list Z) : option (list Z) :=
  match bs with
  | [] => Some []
  | a :: b :: r => match units_of_bytes e r with
                   | Some us => Some ((match e with BE => 256 * a + b | _ => a + 256 * b end) :: us)
                   | None => None
                   end
  | [_] => None    (* truncated data *)
  end.
Fixpoint bytes_of_units (e : endian) (us : list Z) : list Z :=
  match us with
  | [] => []
  | u :: r => (match e with BE => [u / 256; u mod 256] | _ => [u mod 256; u / 256] end) ++ bytes_of_units e r
  end.
Definition is_high (u : Z) := (55296 <=? u) && (u <=? 56319).   (* D800..DBFF *)
Definition is_low (u : Z) := (56320 <=? u) && (u <=? 57343).    (* DC00..DFFF *)
(* structural decoder: `hi` is a pending high surrogate *)
Fixpoint utf16_dec (hi : option Z) (us : list Z) : option (list Z) :=
  match us with
  | [] => match hi with None => Some [] | Some _ => None end
  | u :: r =>
    match hi with
    | Some h => if is_low u then option_map (cons (65536 + (h - 55296) * 1024 + (u - 56320))) (utf16_dec None r) else None
    | None => if is_high u then utf16_dec (Some u) r
              else if is_low u then None
              else option_map (cons u) (utf16_dec None r)
    end
  end.
Definition utf16_decode (e : endian) (bs : list Z) : result (list Z) :=
  match units_of_bytes e bs with
  | Some us => match utf16_dec None us with Some cps => Ok cps | None => Err EDecode end
  | None => Err EDecode
  end.
Definition cp_units (c : Z) : option (list Z) :=
  if (c <? 0) || (1114111 <? c) then None
  else if is_high c || is_low c then None            (* lone surrogates are not encodable *)
  else if c <? 65536 then Some [c]
  else Some [55296 + (c - 65536) / 1024; 56320 + (c - 65536) mod 1024].
Fixpoint utf16_units (cps : list Z) : option (list Z) :=
  match cps with
  | [] => Some []
  | c :: r => match cp_units c, utf16_units r with Some a, Some b => Some (a ++ b) | _, _ => None end
  end.
Definition utf16_encode (e : endian) (cps : list Z) : result (list Z) :=
  match utf16_units cps with Some us => Ok (bytes_of_units e us) | None => Err EDecode end.

(* ---------- IEEE-754 binary16/32/64: meaning of a bit pattern ---------- *)
Inductive fclass := FNan | FInf (neg : bool) | FFin (neg : bool) (m e : Z).   (* value = (-1)^neg * m * 2^e *)
Definition ieee_decode (ebits mbits : Z) (bits : Z) : fclass :=
  let m := bits mod 2 ^ mbits in
  let ex := (bits / 2 ^ mbits) mod 2 ^ ebits in
  let neg := 1 <=? bits / 2 ^ (mbits + ebits) in
  let bias := 2 ^ (ebits - 1) - 1 in
  if ex =? 2 ^ ebits - 1 then (if m =? 0 then FInf neg else FNan)
  else if ex =? 0 then FFin neg m (1 - bias - mbits)
  else FFin neg (m + 2 ^ mbits) (ex - bias - mbits).
Definition float_params (size : Z) : Z * Z :=
  if size =? 2 then (5, 10) else if size =? 4 then (8, 23) else (11, 52).
(* does the exact rational num/den (den > 0), with the given sign of zero, equal the decoded value? *)
Definition fin_matches (neg : bool) (m e : Z) (num den : Z) (zero_neg : bool) : bool :=
  if m =? 0 then (num =? 0) && Bool.eqb neg zero_neg
  else let s := if neg then -1 else 1 in
       if 0 <=? e then num =? s * m * 2 ^ e * den else num * 2 ^ (- e) =? s * m * den.

(* ---------- utils.pack / unpack / swap ---------- *)
Definition bit_length (v : Z) : Z := if v =? 0 then 0 else Z.log2 (Z.abs v) + 1.
(* pack(value, size=None, endian): size in BITS; None (or 0) means value.bit_length() *)
Definition u_pack (value : Z) (size : option Z) (e : endian) : result (list Z) :=
  let bits := match size with Some s => if s =? 0 then bit_length value else s | None => bit_length value end in
  let n := Z.to_nat ((bits + 7) / 8) in
  int_to_bytes e n (value <? 0) value.
(* unpack(value, size=None, endian, sign) *)
Definition u_unpack (bs : list Z) (size : option Z) (e : endian) (sign : bool) : result Z :=
  match size with
  | Some s => if negb (s =? 0) && negb (Z.of_nat (length bs) =? s / 8) then Err EValue
              else Ok (int_from_bytes e sign bs)
  | None => Ok (int_from_bytes e sign bs)
  end.
Definition u_swap (value size : Z) : result Z :=
  do bs <- u_pack value (Some size) BE; u_unpack bs (Some size) LE false.
