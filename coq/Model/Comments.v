(* Comments.v — TokenParser._remove_comments: the regex
       ("(.*?)"|'(.*?)')|(/\*.*?\*/|//[^\r\n]* )      (MULTILINE | DOTALL; written here with a blank before the last parenthesis)
   applied left to right; a comment is replaced by the newlines it contains - by one blank when it contains none -, a quoted string is kept.
   Characters are Z code points. *)
From VF Require Export Model.Base.
Open Scope list_scope. Open Scope Z_scope.

Definition cDQ := 34. Definition cSQ := 39. Definition cSL := 47. Definition cST := 42. Definition cNL := 10. Definition cCR := 13.

(* text up to the first occurrence of `q` *)
Fixpoint until_char (q : Z) (l : list Z) : option (list Z * list Z) :=
  match l with
  | [] => None
  | c :: r => if c =? q then Some ([], r) else option_map (fun p => (c :: fst p, snd p)) (until_char q r)
  end.
(* text up to the first "*/" *)
Fixpoint until_close (l : list Z) : option (list Z * list Z) :=
  match l with
  | a :: ((b :: r) as t) => if (a =? cST) && (b =? cSL) then Some ([], r) else option_map (fun p => (a :: fst p, snd p)) (until_close t)
  | _ => None
  end.
Fixpoint line_rest (l : list Z) : list Z * list Z :=
  match l with
  | c :: r => if (c =? cNL) || (c =? cCR) then ([], l) else let (a, b) := line_rest r in (c :: a, b)
  | [] => ([], [])
  end.
Definition newlines_of (l : list Z) : list Z := filter (fun c => c =? cNL) l.
(* what a comment with text `body` is replaced by: "\n" * count or " " *)
Definition comment_repl (body : list Z) : list Z := match newlines_of body with [] => [32] | nl => nl end.

Fixpoint strip_go (fuel : nat) (l : list Z) : list Z :=
  match fuel with
  | O => l
  | S f =>
    match l with
    | [] => []
    | c :: r =>
      if (c =? cDQ) || (c =? cSQ) then
        match until_char c r with
        | Some (body, rest) => c :: body ++ c :: strip_go f rest
        | None => c :: strip_go f r
        end
      else if c =? cSL then
        match r with
        | d :: r' =>
          if d =? cST then
            match until_close r' with
            | Some (body, rest) => comment_repl body ++ strip_go f rest
            | None => c :: strip_go f r
            end
          else if d =? cSL then
            (* a line comment ends in front of the first carriage return or line feed (or at the end of the text) *)
            let (_, rest) := line_rest r' in 32 :: strip_go f rest
          else c :: strip_go f r
        | [] => [c]
        end
      else c :: strip_go f r
    end
  end.
Definition strip_comments (l : list Z) : list Z := strip_go (length l) l.
