(* Compiler.v — the source generator of compiler.py, as a PLAN (a list of instructions, one per statement group the generator emits)
   and the meaning of a plan:
     _ReadSourceGenerator._generate_fields   -> plan_fields   (block merging, seeks, bit-field bookkeeping, position_known)
     _generate_struct_info                   -> struct_info   (padding inside a block: set offsets, alignment)
     _optimize_struct_fmt                    -> optimize_fmt  (run-length merging of equal format characters)
     _generate_packed                        -> block_items   (buf[a:b] / data[i] / data[i:j] getters, recorded sizes)
     _generate_structure / _array / _bits    -> ISub / IBits
     Compiler.compile                        -> compile_plan  (unions are not compiled; any exception = fall back)
   `skel` is the plan with names instead of fields: what vf/props/C03.py parses out of the generated source (T._read.__func__.__source__)
   and compares with on every run.  `run_plan` is what the generated statements do.  Definitions only. *)
From VF Require Export Model.Reader.
Open Scope string_scope. Open Scope list_scope. Open Scope Z_scope.

(* a struct format character: a pad byte `x` or the pack character of a Packed type *)
Inductive fc := FX | FP (p : prim).
Definition fc_eqb (a b : fc) : bool := match a, b with FX, FX => true | FP p, FP q => prim_eqb p q | _, _ => false end.
Definition fc_char (a : fc) : string :=
  match a with
  | FX => "x"
  | FP (PInt 1 true _) => "b" | FP (PInt 1 false _) => "B" | FP (PInt 2 true _) => "h" | FP (PInt 2 false _) => "H"
  | FP (PInt 4 true _) => "i" | FP (PInt 4 false _) => "I" | FP (PInt 8 true _) => "q" | FP (PInt 8 false _) => "Q"
  | FP (PFloat 2) => "e" | FP (PFloat 4) => "f" | FP (PFloat 8) => "d"
  | FP _ => "?"
  end.

Inductive getter := GBuf (a b : Z) | GData (i : Z) | GDataN (i j : Z).
Definition getter_eqb (x y : getter) : bool :=
  match x, y with
  | GBuf a b, GBuf a' b' => (a =? a') && (b =? b')
  | GData i, GData i' => i =? i'
  | GDataN i j, GDataN i' j' => (i =? i') && (j =? j')
  | _, _ => false
  end.

Inductive instr :=
| ISeek (off : Z)                 (* stream.seek(o + off) *)
| IAlignTo (a : Z)                (* stream.seek(-stream.tell() & (a - 1), SEEK_CUR) *)
| IAlignTail                      (* stream.seek(-stream.tell() & ((cls.alignment or 1) - 1), SEEK_CUR) *)
| IReset                          (* bit_reader.reset() *)
| ISub (f : field)                (* r[name] = T._read(stream, context=r); s[name] = bytes consumed *)
| IBits (f : field) (bits : Z)    (* r[name] = bit_reader.read(T or T.type, bits) *)
| IBlock (size : Z) (fmt : list (Z * fc)) (unpack : bool) (items : list (field * getter * Z)).
      (* buf = stream.read(size) or EOFError; [data = unpack(fmt, buf)]; r[name] = <getter>; s[name] = size *)

(* the same with names: the form the generated source is parsed into *)
Inductive sinstr :=
| SSeek (off : Z) | SAlignTo (a : Z) | SAlignTail | SReset | SSub (n : string)
| SBits (n : string) (bits : Z) (via_base as_u8 : bool)
| SBlock (size : Z) (fmt : list (Z * string)) (unpack : bool) (items : list (string * getter * Z)).
Definition is_enum (t : ty) : bool := match t with TEnum _ _ _ _ => true | _ => false end.
Definition skel1 (i : instr) : sinstr :=
  match i with
  | ISeek o => SSeek o | IAlignTo a => SAlignTo a | IAlignTail => SAlignTail | IReset => SReset
  | ISub f => SSub (f_name f)
  | IBits f b => SBits (f_name f) b (is_enum (f_ty f))
                       (match bit_storage (f_ty f) with Some (PChar, _) => true | _ => false end)
  | IBlock sz fmt u items => SBlock sz (if u then map (fun x => (fst x, fc_char (snd x))) fmt else []) u      (* no unpack line, no format in the source *)
                                    (map (fun x => (f_name (fst (fst x)), snd (fst x), snd x)) items)
  end.
Definition skel (p : list instr) : list sinstr := map skel1 p.
Definition sinstr_eqb (a b : sinstr) : bool :=
  match a, b with
  | SSeek x, SSeek y => x =? y | SAlignTo x, SAlignTo y => x =? y | SAlignTail, SAlignTail => true | SReset, SReset => true
  | SSub n, SSub m => String.eqb n m
  | SBits n b v u, SBits n' b' v' u' => String.eqb n n' && (b =? b') && Bool.eqb v v' && Bool.eqb u u'
  | SBlock s f u it, SBlock s' f' u' it' =>
    (s =? s') && list_eqb (fun x y => (fst x =? fst y) && String.eqb (snd x) (snd y)) f f' && Bool.eqb u u'
    && list_eqb (fun x y => String.eqb (fst (fst x)) (fst (fst y)) && getter_eqb (snd (fst x)) (snd (fst y)) && (snd x =? snd y)) it it'
  | _, _ => false
  end.
Definition plan_eqb (a b : result (list sinstr)) : bool := result_eqb_coarse (list_eqb sinstr_eqb) a b.

Definition is_packed (p : prim) : bool := match p with PInt _ _ true | PFloat _ => true | _ => false end.
Definition is_bytebased (p : prim) : bool := match p with PChar | PWchar | PInt _ _ false => true | _ => false end.
Definition is_none {A} (o : option A) : bool := match o with None => true | Some _ => false end.
Definition bits_on (f : field) : option Z := match f_bits f with Some b => if b =? 0 then None else Some b | None => None end.   (* `if field.bits:` *)

Section Compiler.
  Variable c : cfg.
  Let e := c_endian c.

  (* _get_read_type for a non-array type: enums read through their base, pointers through cs.pointer *)
  Definition read_prim (t : ty) : option prim :=
    match t with TPrim p _ => Some p | TEnum b _ _ _ => Some b | TPtr _ => Some (c_ptr c) | _ => None end.
  (* the read type and element count of a block member: (prim, None) for a scalar, (element prim, Some n) for an array *)
  Definition member_read (t : ty) : result (prim * option Z) :=
    match t with
    | TArr el (LFixed n) => match read_prim el with Some p => Ok (p, Some n) | None => Err EType end
    | TArr _ _ => Err EType
    | _ => match read_prim t with Some p => Ok (p, None) | None => Err EType end
    end.

  (* _generate_struct_info *)
  Fixpoint struct_info (align : bool) (fs : list field) (cur : option Z) (imag : Z) : result (list (option field * Z * fc)) :=
    match fs with
    | [] => Ok []
    | f :: r =>
      do drift1 <- match f_off f, cur with
                   | Some o, Some cu => Ok (Z.max 0 (o - cu))
                   | Some _, None => Err EType            (* field.offset - None *)
                   | None, _ => Ok 0
                   end;
      let cur1 := option_map (Z.add drift1) cur in
      let drift2 := if align && is_none (f_off f) then pad_to imag (field_align c f) else 0 in
      let imag1 := imag + (if 0 <? drift2 then drift2 else 0) in
      let pads := (if 0 <? drift1 then [(None, drift1, FX)] else []) ++ (if 0 <? drift2 then [(None, drift2, FX)] else []) in
      do m <- member_read (f_ty f);
      let '(p, cnt) := m in
      match cnt, p with
      | None, PVoid => do rest <- struct_info align r cur1 imag1; Ok (pads ++ rest)      (* `continue` *)
      | _, _ =>
        let n := match cnt with Some k => k | None => 1 end in
        match prim_size_z p with
        | None => Err EType
        | Some sz =>
          let own := if is_packed p then [(Some f, n, FP p)] else if is_bytebased p then [(Some f, n * sz, FX)] else [] in
          do rest <- struct_info align r (option_map (Z.add (n * sz)) cur1) (imag1 + n * sz);
          Ok (pads ++ own ++ rest)
        end
      end
    end.

  (* _optimize_struct_fmt: run-length merging; runs of count 0 are dropped *)
  Fixpoint optimize_go (info : list (Z * fc)) (cur : Z * fc) : list (Z * fc) :=
    match info with
    | [] => if fst cur =? 0 then [] else [cur]
    | (n, ch) :: r =>
      if fc_eqb ch (snd cur) then optimize_go r (fst cur + n, snd cur)
      else (if fst cur =? 0 then [] else [cur]) ++ optimize_go r (n, ch)
    end.
  Definition optimize_fmt (info : list (Z * fc)) : list (Z * fc) :=
    match info with [] => [] | x :: r => optimize_go r x end.

  (* _generate_packed: the getters and recorded sizes of the members of a block *)
  Fixpoint block_items (info : list (option field * Z * fc)) (size slice : Z) (uses : bool)
    : result (list (field * getter * Z) * Z * bool) :=
    match info with
    | [] => Ok ([], size, uses)
    | (None, n, _) :: r => block_items r (size + n) slice uses
    | (Some f, _, _) :: r =>
      do m <- member_read (f_ty f);
      let '(p, cnt) := m in
      match prim_size_z p, ty_size c (f_ty f) with
      | Some sz, Some fsz =>
        let '(g, slice', uses') :=
          match cnt with
          | Some n => if is_bytebased p then (GBuf size (size + n * sz), slice, uses) else (GDataN slice (slice + n), slice + n, true)
          | None => if is_bytebased p then (GBuf size (size + sz), slice, uses) else (GData slice, slice + 1, true)
          end in
        do rest <- block_items r (size + fsz) slice' uses';
        let '(its, size', u) := rest in
        Ok ((f, g, fsz) :: its, size', u)
      | _, _ => Err EType
      end
    end.
  Definition gen_block (align : bool) (fs : list field) : result instr :=
    do info <- struct_info align fs (match fs with f :: _ => f_off f | [] => None end) 0;
    do bi <- block_items info 0 0 false;
    let '(items, size, uses) := bi in
    let fmt := optimize_fmt (map (fun x => (snd (fst x), snd x)) info) in
    (* the unpack line is left out when nothing is taken from the tuple and the format is "x" or "<d>x" *)
    let only_pad := match fmt with [(n, FX)] => (1 <=? n) && (n <=? 9) | _ => false end in
    Ok (IBlock size fmt (negb (negb uses && only_pad)) items).

  (* the loop of _generate_fields *)
  Record gstate := mkGS {
    g_off : Z;                        (* current_offset *)
    g_block : list field;             (* current_block *)
    g_pbits : bool;                   (* prev_was_bits *)
    g_btype : option (prim * Z);      (* prev_bits_type *)
    g_brem : Z;                       (* bits_remaining *)
    g_roll : bool;                    (* bits_rollover *)
    g_known : bool                    (* position_known *)
  }.
  Definition unwrap (t : ty) : ty := match t with TEnum b al _ _ => TPrim b al | _ => t end.
  Definition supported (t : ty) : bool := match t with TPrim (PLeb _) _ => false | _ => true end.
  Definition flush (align : bool) (st : gstate) : result (list instr * gstate) :=
    match g_block st with
    | [] => Ok ([], st)
    | b => do i <- gen_block align b; Ok ([i], mkGS (g_off st) [] (g_pbits st) (g_btype st) (g_brem st) (g_roll st) (g_known st))
    end.
  Definition align_to_field (align : bool) (f : field) (st : gstate) : list instr * gstate :=
    let '(i1, st1) :=
      match f_off f with
      | Some o => if negb (o =? g_off st) || negb (g_known st)
                  then ([ISeek o], mkGS o (g_block st) (g_pbits st) (g_btype st) (g_brem st) (g_roll st) true)
                  else ([], st)
      | None => ([], st)
      end in
    (* the run-time alignment leaves the stream where the start of the structure decides: the position is not known afterwards *)
    if align && is_none (f_off f)
    then (i1 ++ [IAlignTo (field_align c f)], mkGS (g_off st1) (g_block st1) (g_pbits st1) (g_btype st1) (g_brem st1) (g_roll st1) false)
    else (i1, st1).
  Definition has_block (st : gstate) : bool := match g_block st with [] => false | _ => true end.
  Definition set_known (st : gstate) (k : bool) : gstate := mkGS (g_off st) (g_block st) (g_pbits st) (g_btype st) (g_brem st) (g_roll st) k.

  Definition plan_step (align : bool) (f : field) (st : gstate) : result (list instr * gstate) :=
    let ft := unwrap (f_ty f) in
    if negb (supported ft) then Err EType else
    (* leaving a run of bit fields *)
    let '(i0, st0) := if g_pbits st && is_none (bits_on f)
                      then ([IReset], mkGS (g_off st) (g_block st) false (g_btype st) 0 (g_roll st) (g_known st)) else ([], st) in
    let size := ty_size c ft in
    if (match size with Some n => n <? 0 | None => false end) then Err EValue else      (* len() of a negative size *)
    do body <-
      match ft with
      | TStruct _ _ _ | TUnion _ _ _ =>
        do fl <- flush align st0; let '(ia, st1) := align_to_field align f (snd fl) in
        Ok (fst fl ++ ia ++ [ISub f], set_known st1 false)
      | _ =>
        let complex_array := match ft with
                             | TArr (TStruct _ _ _) _ | TArr (TUnion _ _ _) _ | TArr (TArr _ _) _ => true
                             | TArr _ _ => is_none size
                             | _ => false
                             end in
        if complex_array then
          do fl <- flush align st0; let '(ia, st1) := align_to_field align f (snd fl) in
          Ok (fst fl ++ ia ++ [ISub f], set_known st1 false)
        else match bits_on f with
        | Some nb =>
          match size with
          | None => Err EType
          | Some sz =>
            let storage := bit_storage ft in
            let new_unit := negb (g_pbits st0) || (g_brem st0 =? 0) || negb (storage_eqb (g_btype st0) storage) in
            let st1 := if new_unit then mkGS (g_off st0) (g_block st0) (g_pbits st0) storage (sz * 8) true (g_known st0) else st0 in
            let st2 := mkGS (g_off st1) (g_block st1) true (g_btype st1) (g_brem st1 - nb) (g_roll st1) (g_known st1) in
            do fl <- flush align st2; let '(ia, st3) := align_to_field align f (snd fl) in
            Ok (fst fl ++ ia ++ [IBits f nb], st3)
          end
        | None =>
          do fl1 <- (if has_block st0 && align && is_none (f_off f) then flush align st0 else Ok ([], st0));
          let st1 := snd fl1 in
          (* a set offset inside a block: backwards = new block (seek), forwards = padding, the tracked offset follows *)
          do fl2 <- (match g_block st1, f_off f with
                     | _ :: _, Some o => if o <? g_off st1 then flush align st1
                                         else Ok ([], mkGS o (g_block st1) (g_pbits st1) (g_btype st1) (g_brem st1) (g_roll st1) (g_known st1))
                     | _, _ => Ok ([], st1)
                     end);
          let st2 := snd fl2 in
          let '(ia, st3) := match g_block st2 with [] => align_to_field align f st2 | _ => ([], st2) end in
          Ok (fst fl1 ++ fst fl2 ++ ia,
              mkGS (g_off st3) (g_block st3 ++ [f]) (g_pbits st3) (g_btype st3) (g_brem st3) (g_roll st3) (g_known st3))
        end
      end;
    let '(ib, stb) := body in
    let stf := match size with
               | Some n => if is_none (bits_on f) || g_roll stb
                           then mkGS (g_off stb + n) (g_block stb) (g_pbits stb) (g_btype stb) (g_brem stb) false (g_known stb) else stb
               | None => stb
               end in
    Ok (i0 ++ ib, stf).

  Fixpoint plan_go (align : bool) (fs : list field) (st : gstate) : result (list instr * gstate) :=
    match fs with
    | [] => Ok ([], st)
    | f :: r => do x <- plan_step align f st; do y <- plan_go align r (snd x); Ok (fst x ++ fst y, snd y)
    end.
  (* _generate_fields over the fields as the class holds them (offsets written back by the layout) *)
  Definition plan_fields (align : bool) (fs : list field) : result (list instr) :=
    do x <- plan_go align fs (mkGS 0 [] false None 0 false true);
    do fl <- flush align (snd x);
    Ok (fst x ++ fst fl ++ (if align then [IAlignTail] else [])).
  (* Compiler.compile on a structure class: Err = not compiled (the interpreted reader stays) *)
  Definition compile_plan (align : bool) (fs : list field) : result (list instr) :=
    do lay <- layout_struct c align fs; plan_fields align (set_offsets fs (l_offs lay)).

  (* ---------- what the generated statements do ---------- *)
  (* struct.unpack over the expanded format; pad bytes are skipped *)
  Fixpoint unpack_fc (chars : list fc) (bs : list Z) : result (list value) :=
    match chars with
    | [] => Ok []
    | FX :: r => unpack_fc r (skipn 1 bs)
    | FP p :: r => do x <- prim_read e p bs; do vs <- unpack_fc r (snd x); Ok (fst x :: vs)
    end.
  Definition expand (fmt : list (Z * fc)) : list fc := flat_map (fun x => repeat (snd x) (Z.to_nat (fst x))) fmt.

  Record pstate := mkPS { p_pos : Z; p_bb : bitbuf; p_vals : list (string * value); p_sizes : list (string * Z); p_ctx : list (string * Z) }.

  Section Run.
    Variable rd : field -> rfn.      (* the member types' own readers *)
    Variable s : list Z.
    Variable o : Z.                  (* o = stream.tell() on entry *)
    Variable cls_align : Z.

    (* r[name] = <getter>: byte-sliced members are parsed from their slice by their own type, the others taken from the tuple *)
    Definition item_value (buf : list Z) (data : list value) (ctx : list (string * Z)) (it : field * getter * Z) : result value :=
      let '(f, g, _) := it in
      match g with
      | GBuf a b => do x <- rd f (firstn (Z.to_nat b) buf) a ctx; Ok (fst x)
      | GData i => match nth_error data (Z.to_nat i) with Some v => Ok v | None => Err EKey end
      | GDataN i j => Ok (VList (firstn (Z.to_nat (j - i)) (skipn (Z.to_nat i) data)))
      end.
    Fixpoint run_items (buf : list Z) (data : list value) (items : list (field * getter * Z)) (st : pstate) : result pstate :=
      match items with
      | [] => Ok st
      | it :: r =>
        do v <- item_value buf data (p_ctx st) it;
        let n := f_name (fst (fst it)) in
        run_items buf data r (mkPS (p_pos st) (p_bb st) ((n, v) :: p_vals st) ((n, snd it) :: p_sizes st) (int_ctx n v (p_ctx st)))
      end.
    Definition run_instr (i : instr) (st : pstate) : result pstate :=
      match i with
      | ISeek off => Ok (mkPS (o + off) (p_bb st) (p_vals st) (p_sizes st) (p_ctx st))
      | IAlignTo a => Ok (mkPS (p_pos st + pad_to (p_pos st) a) (p_bb st) (p_vals st) (p_sizes st) (p_ctx st))
      | IAlignTail => Ok (mkPS (p_pos st + pad_to (p_pos st) (eff_align cls_align)) (p_bb st) (p_vals st) (p_sizes st) (p_ctx st))
      | IReset => Ok (mkPS (p_pos st) bb_empty (p_vals st) (p_sizes st) (p_ctx st))
      | ISub f =>
        do x <- rd f s (p_pos st) (p_ctx st);
        let n := f_name f in
        Ok (mkPS (snd x) (p_bb st) ((n, fst x) :: p_vals st) ((n, snd x - p_pos st) :: p_sizes st) (int_ctx n (fst x) (p_ctx st)))
      | IBits f nb =>
        do x <- bb_read e s (p_pos st) (p_bb st) (bit_storage (f_ty f)) nb;
        let '(v, bb', pos') := x in
        Ok (mkPS pos' bb' ((f_name f, VInt v) :: p_vals st) (p_sizes st) ((f_name f, v) :: p_ctx st))
      | IBlock size fmt unpack items =>
        do buf <- sread_exact s (p_pos st) size;
        do data <- (if unpack then unpack_fc (expand fmt) buf else Ok []);
        do st' <- run_items buf data items st;
        Ok (mkPS (p_pos st + size) (p_bb st') (p_vals st') (p_sizes st') (p_ctx st'))
      end.
    Fixpoint run_instrs (p : list instr) (st : pstate) : result pstate :=
      match p with [] => Ok st | i :: r => do st' <- run_instr i st; run_instrs r st' end.
  End Run.

  (* members the block reader leaves out of `r` (void, arrays of void) are default-initialised by type.__call__(cls, **r) *)
  Definition default_missing (t : ty) : value :=
    match t with TArr (TPrim PVoid _) (LFixed n) => VList (repeat VVoid (Z.to_nat n)) | _ => VVoid end.
  Definition assemble (fs : list field) (vals : list (string * value)) : list (string * value) :=
    map (fun f => (f_name f, match lookup (f_name f) vals with Some v => v | None => default_missing (f_ty f) end)) fs.

  (* the compiled _read of a structure class; the members' own readers are the interpreted ones of the model *)
  Definition read_compiled (fuel : nat) (align : bool) (fs : list field) (s : list Z) (pos : Z) : result (value * Z) :=
    do lay <- layout_struct c align fs;
    do p <- plan_fields align (set_offsets fs (l_offs lay));
    do st <- run_instrs (fun f => read_ty c fuel (f_ty f)) s pos (l_align lay) p (mkPS pos bb_empty [] [] []);
    Ok (VStruct (assemble fs (p_vals st)) (rev (p_sizes st)), p_pos st).
End Compiler.

(* entry points used by the correspondence: the plan of a structure type, and its compiled reader (the interpreted one when not compiled) *)
Definition compile_ty (c : cfg) (t : ty) : result (list sinstr) :=
  match t with TStruct _ fs al => do p <- compile_plan c al fs; Ok (skel p) | _ => Err EType end.
Definition read_compiled_top (c : cfg) (t : ty) (s : list Z) (pos : Z) : result (value * Z) :=
  match t with
  | TStruct _ fs al => match compile_plan c al fs with
                       | Ok _ => read_compiled c (S (S (length s))) al fs s pos
                       | Err _ => read_top c t s pos
                       end
  | _ => read_top c t s pos
  end.
