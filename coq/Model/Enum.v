(* Enum.v — TokenParser._enum's numbering loop and the identity of enum/flag values.
   A member declaration is a name with an optional value expression (its tokens); values so far are the context. *)
From VF Require Export Model.Reader.
Open Scope string_scope. Open Scope list_scope. Open Scope Z_scope.

Definition bit_length (v : Z) : Z := if v =? 0 then 0 else Z.log2 (Z.abs v) + 1.

(* nextval after a member with value v *)
Definition next_value (flag : bool) (v : Z) : Z := if flag then 2 ^ bit_length v else v + 1.

Fixpoint number_go (flag : bool) (consts : list (string * Z)) (decls : list (string * option (list string)))
         (values : list (string * Z)) (nextval : Z) : option (list (string * Z)) :=
  match decls with
  | [] => Some (rev values)
  | (name, ex) :: r =>
    let v := match ex with
             | None => Some nextval
             | Some toks => evaluate values consts (fun _ => None) toks
             end in
    match v with
    | Some z => number_go flag consts r ((name, z) :: values) (next_value flag z)
    | None => None
    end
  end.
(* the dict `values` as the parser leaves it: a re-declared name overwrites (keeps its first position) *)
Fixpoint dict_set (k : string) (v : Z) (d : list (string * Z)) : list (string * Z) :=
  match d with
  | [] => [(k, v)]
  | (k', v') :: r => if String.eqb k k' then (k, v) :: r else (k', v') :: dict_set k v r
  end.
Definition number_members (flag : bool) (consts : list (string * Z)) (decls : list (string * option (list string))) : option (list (string * Z)) :=
  option_map (fun l => fold_left (fun d kv => dict_set (fst kv) (snd kv) d) l []) (number_go flag consts decls [] (if flag then 1 else 0)).

(* ---- identity of parsed values: (class, name, value) with name a function of the value ---- *)
(* _value2member_map_: the LAST member declared with a value owns it (see _fix_alias_members) *)
Definition name_of (members : list (string * Z)) (v : Z) : option string :=
  fold_left (fun acc kv => if snd kv =? v then Some (fst kv) else acc) members None.
Record evalue := mkEV { ev_class : string; ev_name : option string; ev_value : Z }.
Definition parse_enum (cls : string) (members : list (string * Z)) (v : Z) : evalue := mkEV cls (name_of members v) v.
(* Enum.__eq__ / Flag.__eq__ between two enum values; and against a plain integer *)
Definition enum_eq (a b : evalue) : bool := String.eqb (ev_class a) (ev_class b) && (ev_value a =? ev_value b).
Definition enum_eq_int (a : evalue) (z : Z) : bool := ev_value a =? z.
(* hash((cls, name, value)) : equal iff the triples are equal (up to hash collisions, outside the model) *)
Definition enum_hash_key (a : evalue) : string * option string * Z := (ev_class a, ev_name a, ev_value a).
