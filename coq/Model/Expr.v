(* Expr.v — model of dissect/cstruct/expression.py
     ExpressionTokenizer.tokenize      -> tokenize
     Expression.is_number / int(t, 0)  -> is_number / parse_int
     the unary-minus rewriting pass    -> rewrite_minus  (mutates self.tokens in place: the
                                          rewritten list is part of the result, see [eval_obj])
     Expression.evaluate / evaluate_exp-> evaluate / apply_op
   Tokens are strings, exactly as in the code, so an identifier can collide with the
   unary-minus marker if the marker is a legal identifier.  The operator tables, the marker and
   the precedence comparison come from Gen/Generated.v (regenerated from /repo on every run).
   Definitions only.  Domain: ASCII expressions. *)
From VF Require Export Model.ExprOps.
From VF Require Import Gen.Generated.
Open Scope string_scope. Open Scope list_scope. Open Scope Z_scope.

(* ---------- characters ---------- *)
Definition cz (c : ascii) : Z := Z.of_nat (nat_of_ascii c).
Definition is_digit (c : ascii) : bool := (48 <=? cz c) && (cz c <=? 57).
Definition is_alpha (c : ascii) : bool :=
  ((65 <=? cz c) && (cz c <=? 90)) || ((97 <=? cz c) && (cz c <=? 122)).
Definition is_alnum (c : ascii) : bool := is_digit c || is_alpha c.
Definition is_hexdigit (c : ascii) : bool :=
  is_digit c || ((65 <=? cz c) && (cz c <=? 70)) || ((97 <=? cz c) && (cz c <=? 102)).
Definition ch (s : string) : ascii := match s with String c _ => c | EmptyString => "000"%char end.
Definition is_in (c : ascii) (l : list ascii) : bool := existsb (Ascii.eqb c) l.
Definition op_chars : list ascii := map ch ["*"; "/"; "+"; "-"; "%"; "&"; "^"; "|"; "("; ")"; "~"].
Definition hexbin : list ascii := map ch ["x"; "X"; "b"; "B"].
Definition uU : list ascii := map ch ["u"; "U"].
Definition lL : list ascii := map ch ["l"; "L"].
Definition blank : list ascii := [" "%char; "009"%char].
Definition underscore : ascii := "_"%char.

Fixpoint str_of (l : list ascii) : string := match l with [] => "" | c :: r => String c (str_of r) end.
Fixpoint chars_of (s : string) : list ascii := match s with "" => [] | String c r => c :: chars_of r end.

(* ---------- tokenizer ---------- *)
(* take the longest prefix satisfying p *)
Fixpoint span (p : ascii -> bool) (l : list ascii) : list ascii * list ascii :=
  match l with
  | c :: r => if p c then let (a, b) := span p r in (c :: a, b) else ([], l)
  | [] => ([], [])
  end.
(* one optional character from a set; consumed, never appended *)
Definition opt (set : list ascii) (l : list ascii) : list ascii :=
  match l with c :: r => if is_in c set then r else l | [] => [] end.
Definition starts (set : list ascii) (l : list ascii) : bool :=
  match l with c :: _ => is_in c set | [] => false end.

(* the number branch: first digit d already seen (not consumed) *)
Definition lex_number (l : list ascii) : option (string * list ascii) :=
  match l with
  | d :: r0 =>
    let (pfx, r1) := match r0 with
                     | c :: r' => if is_in c hexbin then ([d; c], r') else ([d], r0)
                     | [] => ([d], [])
                     end in
    let (hx, r2) := span is_hexdigit r1 in
    let tok := pfx ++ hx in
    let r3 := if starts uU r2 then opt lL (opt lL (opt uU r2))
              else if starts lL r2 then opt uU (opt lL (opt lL r2))
              else r2 in
    match tok with
    | [_; c] => if is_in c hexbin then None
                else if Ascii.eqb d "0"%char then Some (str_of (d :: ch "o" :: [c]), r3) else Some (str_of tok, r3)
    | a :: c :: rest => if Ascii.eqb a "0"%char && negb (is_in c hexbin)
                        then Some (str_of (a :: ch "o" :: c :: rest), r3) else Some (str_of tok, r3)
    | _ => Some (str_of tok, r3)
    end
  | [] => None
  end.

(* fuel = length of the input; every iteration consumes at least one character *)
Fixpoint tokenize_go (fuel : nat) (l : list ascii) (acc : list string) : option (list string) :=
  match fuel with
  | O => match l with [] => Some (rev acc) | _ => None end
  | S f =>
    match l with
    | [] => Some (rev acc)
    | c :: r =>
      if is_in c op_chars then tokenize_go f r (str_of [c] :: acc)
      else if is_digit c then
        match lex_number l with
        | Some (t, r') => tokenize_go f r' (t :: acc)
        | None => None
        end
      else if is_alpha c || Ascii.eqb c underscore then
        let (id, r') := span (fun x => is_alnum x || Ascii.eqb x underscore) l in
        tokenize_go f r' (str_of id :: acc)
      else if Ascii.eqb c ">"%char then
        (* match('>') consumes; if the second '>' is missing the remaining elifs look at the NEXT char *)
        match r with
        | c2 :: r2 =>
          if Ascii.eqb c2 ">"%char then tokenize_go f r2 (">>" :: acc)
          else if Ascii.eqb c2 "<"%char then
            match r2 with
            | c3 :: r3 => if Ascii.eqb c3 "<"%char then tokenize_go f r3 ("<<" :: acc)
                          else if is_in c3 blank then tokenize_go f r3 acc else None
            | [] => None  (* else-branch: expression[pos] out of range -> IndexError *)
            end
          else if is_in c2 blank then tokenize_go f r2 acc
          else None
        | [] => None
        end
      else if Ascii.eqb c "<"%char then
        match r with
        | c2 :: r2 =>
          if Ascii.eqb c2 "<"%char then tokenize_go f r2 ("<<" :: acc)
          else if is_in c2 blank then tokenize_go f r2 acc
          else None
        | [] => None
        end
      else if is_in c blank then tokenize_go f r acc
      else None
    end
  end.
Definition tokenize (s : string) : option (list string) :=
  let l := chars_of s in tokenize_go (List.length l) l [].

(* ---------- literals: Expression.is_number and int(token, 0) ---------- *)
Definition all_digits (l : list ascii) : bool := match l with [] => false | _ => forallb is_digit l end.
Definition is_number (t : string) : bool :=
  let l := chars_of t in
  all_digits l ||
  match l with
  | a :: b :: _ :: _ => Ascii.eqb a "0"%char && is_in b (map ch ["x"; "X"; "b"; "B"; "o"; "O"])
  | _ => false
  end.
Definition digit_val (c : ascii) : Z :=
  if is_digit c then cz c - 48
  else if (97 <=? cz c) && (cz c <=? 102) then cz c - 87
  else if (65 <=? cz c) && (cz c <=? 70) then cz c - 55 else 99.
Fixpoint parse_base (base : Z) (l : list ascii) (acc : Z) : option Z :=
  match l with
  | [] => Some acc
  | c :: r => if digit_val c <? base then parse_base base r (acc * base + digit_val c) else None
  end.
(* int(t, 0) for the token shapes the tokenizer produces (no sign, no underscores) *)
Definition parse_int (t : string) : option Z :=
  match chars_of t with
  | a :: b :: (_ :: _) as r =>
    if Ascii.eqb a "0"%char then
      if is_in b (map ch ["x"; "X"]) then parse_base 16 r 0
      else if is_in b (map ch ["b"; "B"]) then parse_base 2 r 0
      else if is_in b (map ch ["o"; "O"]) then parse_base 8 r 0
      else if forallb (Ascii.eqb "0"%char) (b :: r) then Some 0 else None
    else parse_base 10 (a :: b :: r) 0
  | [a; b] => if Ascii.eqb a "0"%char then (if Ascii.eqb b "0"%char then Some 0 else None)
              else parse_base 10 [a; b] 0
  | l => match l with [] => None | _ => parse_base 10 l 0 end
  end.

(* ---------- evaluation ---------- *)
Definition mem (k : string) {A} (l : list (string * A)) : bool :=
  match lookup k l with Some _ => true | None => false end.
Definition is_operator (t : string) : bool := mem t binary_ops || mem t unary_ops.

(* the in-place rewriting loop: tokens[i-1] is the ALREADY rewritten previous token *)
Fixpoint rewrite_go (prev : option string) (l : list string) : list string :=
  match l with
  | [] => []
  | t :: r =>
    let t' := if String.eqb t "-" then
                match prev with
                | None => minus_marker
                | Some p => if is_operator p || String.eqb p minus_marker || String.eqb p "(" then minus_marker else t
                end
              else t in
    t' :: rewrite_go (Some t') r
  end.
Definition rewrite_minus (l : list string) : list string := rewrite_go None l.

Section Eval.
  Variable ctx consts : list (string * Z).       (* context is consulted first *)
  Variable sizeof_of : string -> option Z.       (* len(cs.resolve(name)); None = raises *)

  Definition prec (t : string) : option Z := lookup t prec_table.

  (* evaluate_exp, with the operator already popped *)
  Definition apply_op (o : string) (q : list Z) : option (list Z) :=
    match q with
    | [] => None
    | rgt :: q1 =>
      match lookup o unary_ops with
      | Some u => match uapply u rgt with Some v => Some (v :: q1) | None => None end
      | None =>
        match q1 with
        | [] => None
        | lft :: q2 =>
          match lookup o binary_ops with
          | Some b => match bapply b lft rgt with Some v => Some (v :: q2) | None => None end
          | None => None
          end
        end
      end
    end.

  (* while stack and stack[-1] != "(" and precedence(stack[-1], tok): evaluate_exp() *)
  Fixpoint reduce_for (tok : string) (s : list string) (q : list Z) : option (list string * list Z) :=
    match s with
    | [] => Some ([], q)
    | top :: s' =>
      if String.eqb top "(" then Some (s, q)
      else match prec top, prec tok with
           | Some a, Some b =>
             if cmp_apply prec_cmp a b
             then match apply_op top q with Some q' => reduce_for tok s' q' | None => None end
             else Some (s, q)
           | _, _ => None
           end
    end.
  (* while self.stack[-1] != "(": evaluate_exp()   (IndexError when the stack runs empty) *)
  Fixpoint reduce_paren (s : list string) (q : list Z) : option (list string * list Z) :=
    match s with
    | [] => None
    | top :: s' =>
      if String.eqb top "(" then Some (s', q)
      else match apply_op top q with Some q' => reduce_paren s' q' | None => None end
    end.
  (* final loop *)
  Fixpoint reduce_all (s : list string) (q : list Z) : option (list Z) :=
    match s with
    | [] => Some q
    | top :: s' =>
      if String.eqb top "(" then None
      else match apply_op top q with Some q' => reduce_all s' q' | None => None end
    end.

  Fixpoint run (prev : option string) (l : list string) (s : list string) (q : list Z) : option (list string * list Z) :=
    match l with
    | [] => Some (s, q)
    | t :: r =>
      if is_number t then
        match parse_int t with Some v => run (Some t) r s (v :: q) | None => None end
      else match lookup t ctx with
      | Some v => run (Some t) r s (v :: q)
      | None =>
      match lookup t consts with
      | Some v => run (Some t) r s (v :: q)
      | None =>
      if mem t unary_ops then run (Some t) r (t :: s) q
      else if String.eqb t "sizeof" then
        match r with
        | a :: n :: c :: r' =>
          if String.eqb a "(" && String.eqb c ")"
          then match sizeof_of n with Some v => run (Some c) r' s (v :: q) | None => None end
          else None
        | _ => None
        end
      else if is_operator t then
        match reduce_for t s q with Some (s', q') => run (Some t) r (t :: s') q' | None => None end
      else if String.eqb t "(" then
        match prev with
        | Some p => if is_number p then None else run (Some t) r (t :: s) q
        | None => run (Some t) r (t :: s) q
        end
      else if String.eqb t ")" then
        match prev with
        | Some p => if String.eqb p "(" then None
                    else match s with
                         | [] => None
                         | _ => match reduce_paren s q with Some (s', q') => run (Some t) r s' q' | None => None end
                         end
        | None => match s with [] => None | _ => match reduce_paren s q with Some (s', q') => run (Some t) r s' q' | None => None end end
        end
      else None
      end end
    end.

  (* evaluate on an already rewritten token list *)
  Definition evaluate_tokens (l : list string) : option Z :=
    match run None l [] [] with
    | Some (s, q) => match reduce_all s q with Some [v] => Some v | _ => None end
    | None => None
    end.
  (* Expression.evaluate: returns the value and the new content of self.tokens *)
  Definition eval_obj (tokens : list string) : option Z * list string :=
    let t' := rewrite_minus tokens in (evaluate_tokens t', t').
  Definition evaluate (tokens : list string) : option Z := fst (eval_obj tokens).
End Eval.

(* An Expression object evaluated repeatedly with different contexts: the history semantics. *)
Fixpoint eval_history (consts : list (string * Z)) (sz : string -> option Z) (tokens : list string)
         (ctxs : list (list (string * Z))) : list (option Z) :=
  match ctxs with
  | [] => []
  | c :: r => let (v, t') := eval_obj c consts sz tokens in v :: eval_history consts sz t' r
  end.

(* whole pipeline from text, as Expression(cs, text).evaluate(ctx) *)
Definition eval_string (ctx consts : list (string * Z)) (sz : string -> option Z) (s : string) : option Z :=
  match tokenize s with Some toks => evaluate ctx consts sz toks | None => None end.
