(* ExprOps.v — the vocabulary the regenerated facts (Gen/Generated.v) are expressed in.
   vf/facts.py maps the AST of each `lambda a, b: a OP b` in Expression.binary_operators /
   unary_operators to one of these constructors (anything else becomes BUnknown/UUnknown,
   which falsifies an obligation in Gen/GeneratedOk.v). *)
From VF Require Export Model.Base.

Inductive bop := BOr | BXor | BAnd | BShl | BShr | BAdd | BSub | BMul | BDiv | BMod | BUnknown.
Inductive uop := UNeg | UInv | UUnknown.
Inductive cmp := CmpGe | CmpGt | CmpLe | CmpLt | CmpOther.

(* Python semantics of the operators on unbounded ints; None = the operation raises *)
Definition bapply (b : bop) (x y : Z) : option Z :=
  match b with
  | BOr => Some (Z.lor x y) | BXor => Some (Z.lxor x y) | BAnd => Some (Z.land x y)
  | BShl => if y <? 0 then None else Some (Z.shiftl x y)
  | BShr => if y <? 0 then None else Some (Z.shiftr x y)
  | BAdd => Some (x + y) | BSub => Some (x - y) | BMul => Some (x * y)
  | BDiv => if y =? 0 then None else Some (x / y)          (* Python // : floor, like Z.div *)
  | BMod => if y =? 0 then None else Some (x mod y)        (* Python %  : sign of divisor, like Z.modulo *)
  | BUnknown => None
  end.
Definition uapply (u : uop) (x : Z) : option Z :=
  match u with UNeg => Some (- x) | UInv => Some (Z.lnot x) | UUnknown => None end.
Definition cmp_apply (c : cmp) (a b : Z) : bool :=
  match c with CmpGe => a >=? b | CmpGt => a >? b | CmpLe => a <=? b | CmpLt => a <? b | CmpOther => false end.
