(* ExprSpec.v — the specification side of C10: parse trees of the stratified C expression grammar and
   their denotation over unbounded integers.  Independent of the shunting-yard machine in Expr.v. *)
From VF Require Export Model.Expr.
From VF Require Import Gen.Generated.
Open Scope string_scope. Open Scope list_scope. Open Scope Z_scope.

Inductive expr :=
| ELit (s : string)            (* an integer literal token as the tokenizer emits it *)
| EId (s : string)             (* an identifier, resolved in the context first, then in the constants *)
| ESizeof (n : string)         (* sizeof(n) *)
| EPar (e : expr)
| EUn (u : uop) (e : expr)
| EBin (b : bop) (l r : expr).

Definition bstr (b : bop) : string :=
  match b with BOr => "|" | BXor => "^" | BAnd => "&" | BShl => "<<" | BShr => ">>" | BAdd => "+" | BSub => "-"
             | BMul => "*" | BDiv => "/" | BMod => "%" | BUnknown => "?" end.
(* C precedence levels, loosest first *)
Definition bprec (b : bop) : Z :=
  match b with BOr => 0 | BXor => 1 | BAnd => 2 | BShl | BShr => 3 | BAdd | BSub => 4 | BMul | BDiv | BMod => 5 | BUnknown => 0 end.
Definition ustr (u : uop) : string := match u with UNeg => "-" | UInv => "~" | UUnknown => "?" end.
Definition bknown (b : bop) : bool := match b with BUnknown => false | _ => true end.
Definition uknown (u : uop) : bool := match u with UUnknown => false | _ => true end.

(* a C identifier (ASCII) other than the keyword sizeof *)
Definition is_ident (s : string) : bool :=
  match chars_of s with
  | c :: r => (is_alpha c || Ascii.eqb c underscore) && forallb (fun x => is_alnum x || Ascii.eqb x underscore) r
  | [] => false
  end.
Definition is_name (s : string) : bool := is_ident s && negb (String.eqb s "sizeof").

(* well-formed at level p: left operand at the operator's level (left associativity), right operand one
   higher, unary operators bind tighter than every binary one *)
Fixpoint wf (p : Z) (e : expr) : bool :=
  match e with
  | ELit s => is_number s
  | EId s => is_name s
  | ESizeof n => is_ident n
  | EPar e => wf 0 e
  | EUn u e => uknown u && (p <=? 6) && wf 6 e
  | EBin b l r => bknown b && (p <=? bprec b) && wf (bprec b) l && wf (bprec b + 1) r
  end.

(* the token sequence of a tree, as the tokenizer delivers it (unary and binary minus are both "-") *)
Fixpoint flat (e : expr) : list string :=
  match e with
  | ELit s => [s] | EId s => [s]
  | ESizeof n => ["sizeof"; "("; n; ")"]
  | EPar e => "(" :: flat e ++ [")"]
  | EUn u e => ustr u :: flat e
  | EBin b l r => flat l ++ bstr b :: flat r
  end.

Section Denote.
  Variable ctx consts : list (string * Z).
  Variable sizeof_of : string -> option Z.
  Fixpoint denote (e : expr) : option Z :=
    match e with
    | ELit s => parse_int s
    | EId s => match lookup s ctx with Some v => Some v | None => lookup s consts end
    | ESizeof n => sizeof_of n
    | EPar e => denote e
    | EUn u e => match denote e with Some v => uapply u v | None => None end
    | EBin b l r => match denote l, denote r with Some x, Some y => bapply b x y | _, _ => None end
    end.
End Denote.

(* field and constant names are identifiers other than sizeof *)
Definition names_ok (env : list (string * Z)) : bool := forallb (fun kv => is_name (fst kv)) env.
