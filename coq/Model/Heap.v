(* Heap.v — instances as trees over a store of mutable cells, for the sharing property (C14).
   The type skeleton of a structure decides the tree; default construction allocates FRESH cells for everything
   (the regenerated fact `defaults_fresh` says the library does so); mutation writes one cell. *)
From VF Require Export Model.Base.
Open Scope list_scope. Open Scope nat_scope.

Inductive shape := SAtom | SNode (children : list shape).          (* scalar field | array / nested structure *)
Inductive tree := TAtom (loc : nat) | TNode (children : list tree). (* an instance: cells and containers with identity *)

(* default construction: cells numbered consecutively from `next` *)
Fixpoint alloc (s : shape) (next : nat) : tree * nat :=
  match s with
  | SAtom => (TAtom next, S next)
  | SNode cs =>
    let '(ts, n) := (fix go (cs : list shape) (next : nat) : list tree * nat :=
                       match cs with
                       | [] => ([], next)
                       | c :: r => let '(t, n1) := alloc c next in let '(ts, n2) := go r n1 in (t :: ts, n2)
                       end) cs next in
    (TNode ts, n)
  end.

Fixpoint locs (t : tree) : list nat :=
  match t with
  | TAtom l => [l]
  | TNode ts => (fix go (ts : list tree) : list nat := match ts with [] => [] | x :: r => locs x ++ go r end) ts
  end.

Definition store := nat -> Z.                                      (* cell contents; 0 = the zero value *)
Definition upd (h : store) (l : nat) (v : Z) : store := fun k => if Nat.eqb k l then v else h k.

(* the observable value of an instance: its tree with the cell contents *)
Inductive obs := OAtom (v : Z) | ONode (children : list obs).
Fixpoint observe (h : store) (t : tree) : obs :=
  match t with
  | TAtom l => OAtom (h l)
  | TNode ts => ONode ((fix go (ts : list tree) : list obs := match ts with [] => [] | x :: r => observe h x :: go r end) ts)
  end.

Record world := mkW { w_store : store; w_next : nat; w_insts : list tree }.
Inductive hop := HNew (s : shape) | HSet (l : nat) (v : Z).
Definition hstep (w : world) (o : hop) : world :=
  match o with
  | HNew s => let '(t, n) := alloc s (w_next w) in
              (* the new instance's cells hold the zero value *)
              mkW (fun k => if Nat.leb (w_next w) k then 0%Z else w_store w k) n (w_insts w ++ [t])
  | HSet l v => mkW (upd (w_store w) l v) (w_next w) (w_insts w)
  end.
Definition hrun (ops : list hop) (w : world) : world := fold_left hstep ops w.
Definition w0 : world := mkW (fun _ => 0%Z) 0 [].
