(* Hexdump.v — model of utils._hexdump (the row/cell loop with its palette state machine).
   Output is a list of pieces so that "colour is cosmetic" can be stated: T = text, C = an inserted
   colour string (a palette entry or COLOR_NORMAL).  [render] concatenates them into the real string. *)
From VF Require Export Model.Base.
Open Scope string_scope. Open Scope list_scope. Open Scope Z_scope.

Inductive piece := T (s : string) | C (s : string).
Definition piece_str (p : piece) : string := match p with T s => s | C s => s end.
Fixpoint render (ps : list piece) : string :=
  match ps with [] => "" | p :: r => piece_str p ++ render r end.
Definition is_text (p : piece) : bool := match p with T _ => true | C _ => false end.
Definition text_only (ps : list piece) : list piece := filter is_text ps.

Definition hexdigit (d : Z) : ascii :=
  ascii_of_nat (Z.to_nat (if d <? 10 then 48 + d else 87 + d)).
Definition hex2 (b : Z) : string := String (hexdigit (b / 16)) (String (hexdigit (b mod 16)) "").
(* format(n, "08x") for n >= 0 *)
Fixpoint hexdigits_go (fuel : nat) (n : Z) (acc : string) : string :=
  match fuel with
  | O => acc
  | S f => if n <? 16 then String (hexdigit n) acc else hexdigits_go f (n / 16) (String (hexdigit (n mod 16)) acc)
  end.
Definition hexn (n : Z) : string := hexdigits_go (S (Z.to_nat (Z.log2 n))) n "".
Fixpoint zeros (k : nat) : string := match k with O => "" | S k' => String "0" (zeros k') end.
Definition hex08 (n : Z) : string := let s := hexn n in zeros (8 - String.length s) ++ s.

(* PRINTABLE = digits + ascii_letters + punctuation + " "  = the ASCII range 32..126 *)
Definition printable (b : Z) : bool := (32 <=? b) && (b <=? 126).
Definition print_char (b : Z) : string :=
  String (if printable b then ascii_of_nat (Z.to_nat b) else "."%char) "".

Record pstate := mkP {
  remaining : Z;
  active : option string;               (* None or a colour; Some "" is falsy like None *)
  palette : list (Z * string)           (* next entry to pop is the head *)
}.
Definition truthy (a : option string) : bool :=
  match a with Some s => negb (String.eqb s "") | None => false end.

(* `while remaining == 0: ...pop...` after one pop *)
Fixpoint pop_zeroes (rem : Z) (act : string) (pal : list (Z * string)) : Z * string * list (Z * string) :=
  if rem =? 0 then
    match pal with
    | [] => (rem, "", [])
    | (r, a) :: pal' => pop_zeroes r a pal'
    end
  else (rem, act, pal).

Section Row.
  Variable pal_given : bool.            (* `palette is not None` *)
  Variable normal : string.             (* COLOR_NORMAL *)

  (* one cell; returns (values pieces, chars pieces, state) *)
  Definition cell (st : pstate) (j : Z) (b : option Z) : list piece * list piece * pstate :=
    let '(pre, st1) :=
      if negb (truthy (active st)) && (match palette st with [] => false | _ => true end) then
        match palette st with
        | (r, a) :: pal' =>
          let '(r', a', pal'') := pop_zeroes r a pal' in
          ([C a'], mkP r' (Some a') pal'')
        | [] => ([], st)
        end
      else if truthy (active st) && (j =? 0) then
        ([C (match active st with Some a => a | None => "" end)], st)
      else ([], st) in
    match b with
    | None => (pre ++ [T "  "; T " "] ++ (if j =? 7 then [T " "] else []), [], st1)
    | Some v =>
      let act := truthy (active st1) in
      let a := match active st1 with Some a => a | None => "" end in
      let chars := if act then [C a; T (print_char v); C normal] else [T (print_char v)] in
      let rem := remaining st1 - 1 in
      let hit := rem =? 0 in
      let st2 := mkP rem (if hit then None else active st1) (palette st1) in
      let vals := pre ++ [T (hex2 v)]
                  ++ (if hit && pal_given then [C normal] else [])
                  ++ (if (j =? 15) && pal_given then [C normal] else [])
                  ++ [T " "] ++ (if j =? 7 then [T " "] else []) in
      (vals, chars, st2)
    end.

  Fixpoint cells (st : pstate) (j : Z) (bs : list (option Z)) : list piece * list piece * pstate :=
    match bs with
    | [] => ([], [], st)
    | b :: r => let '(v1, c1, st1) := cell st j b in
                let '(v2, c2, st2) := cells st1 (j + 1) r in
                (v1 ++ v2, c1 ++ c2, st2)
    end.
End Row.

Fixpoint take16 (n : nat) (data : list Z) : list (option Z) :=
  match n with
  | O => []
  | S k => match data with b :: r => Some b :: take16 k r | [] => None :: take16 k [] end
  end.

(* rows: fuel = number of rows *)
Fixpoint rows (pal_given : bool) (normal prefix : string) (fuel : nat) (st : pstate) (off : Z) (data : list Z)
  : list (list piece) :=
  match fuel with
  | O => []
  | S f =>
    match data with
    | [] => []
    | _ => let '(v, c, st') := cells pal_given normal st 0 (take16 16 data) in
           ([T prefix; T (hex08 off); T "  "] ++ v ++ [T "  "] ++ c) :: rows pal_given normal prefix f st' (off + 16) (skipn 16 data)
    end
  end.

(* _hexdump(data, palette, offset, prefix): palette None / a list; a non-empty list is consumed in order *)
Definition hexdump_rows (normal : string) (data : list Z) (pal : option (list (Z * string))) (off : Z) (prefix : string)
  : list (list piece) :=
  rows (match pal with Some _ => true | None => false end) normal prefix (S (length data / 16))
       (mkP 0 None (match pal with Some p => p | None => [] end)) off data.
Definition hexdump_lines normal data pal off prefix : list string :=
  map render (hexdump_rows normal data pal off prefix).

Fixpoint join_lines (ls : list string) : string :=
  match ls with [] => "" | [l] => l | l :: r => l ++ String (ascii_of_nat 10) (join_lines r) end.
(* hexdump(..., output="string") *)
Definition hexdump_string normal data pal off prefix : string := join_lines (hexdump_lines normal data pal off prefix).
