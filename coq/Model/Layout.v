(* Layout.v — sizes, alignments and field offsets:
     cstruct._make_array / _make_pointer (size, alignment of arrays and pointers)
     Field.alignment  (type.alignment or 1)
     StructureMetaType._calculate_size_and_offsets,  UnionMetaType._calculate_size_and_offsets
   Faithful transcription, including the treatment of already-present offsets as leading. *)
From VF Require Export Model.Types.
Open Scope string_scope. Open Scope list_scope. Open Scope Z_scope.

(* -x & (a - 1): the padding needed to round x up to a multiple of a (a power of two) *)
Definition pad_to (x a : Z) : Z := Z.land (- x) (a - 1).

(* `cls.alignment or 1`: a structure without members has alignment 0 *)
Definition eff_align (a : Z) : Z := if a =? 0 then 1 else a.

Definition prim_size_z (p : prim) : option Z := option_map Z.of_nat (prim_size p).

(* result of laying out a field list *)
Record lay := mkLay { l_offs : list (option Z); l_size : option Z; l_align : Z }.

Definition bit_storage (t : ty) : option (prim * Z) :=      (* the type a bit field is read through *)
  match t with
  | TPrim p al => Some (p, al)
  | TEnum base al _ _ => Some (base, al)
  | _ => None
  end.
Definition prim_eqb (a b : prim) : bool :=
  match a, b with
  | PInt n s k, PInt n' s' k' => Nat.eqb n n' && Bool.eqb s s' && Bool.eqb k k'
  | PFloat n, PFloat n' => Nat.eqb n n'
  | PChar, PChar | PWchar, PWchar | PVoid, PVoid => true
  | PLeb s, PLeb s' => Bool.eqb s s'
  | _, _ => false
  end.
Definition storage_eqb (a b : option (prim * Z)) : bool :=
  match a, b with
  | Some (p, al), Some (q, al') => prim_eqb p q && (al =? al')
  | None, None => true
  | _, _ => false
  end.

Section Layout.
  Variable c : cfg.

  (* state of the loop in StructureMetaType._calculate_size_and_offsets *)
  Record lstate := mkLS {
    ls_off : option Z; ls_align : Z;
    ls_btype : option (prim * Z);      (* bits_type *)
    ls_boff : option Z;                (* bits_field_offset *)
    ls_brem : Z                        (* bits_remaining *)
  }.

  (* one field; `fsize` = len(field.type) (None = TypeError: dynamic), `falign` = field.alignment,
     `cur` = the offset the Field object carries when the loop reaches it. Returns the new state and
     the offset the Field object carries afterwards. *)
  Definition layout_step (aligned : bool) (st : lstate) (cur : option Z) (bits : option Z)
             (storage : option (prim * Z)) (fsize : option Z) (falign : Z) : result (lstate * option Z) :=
    let off0 := match cur with Some o => Some o | None => ls_off st end in
    let off1 := match off0 with Some o => if aligned then Some (o + pad_to o falign) else Some o | None => None end in
    let al := Z.max (ls_align st) falign in
    match bits with
    | Some nb =>
      if nb =? 0 then   (* `if field.bits:` is false for 0: treated as a normal field *)
        match off1 with
        | Some o => match fsize with
                    | Some n => Ok (mkLS (Some (o + n)) al None (Some 0) 0, Some o)
                    | None => Ok (mkLS None al None (Some 0) 0, Some o)
                    end
        | None => Ok (mkLS None al None (Some 0) 0, None)
        end
      else
      let new_unit_test : result bool :=
        if ls_brem st =? 0 then Ok true
        else if negb (storage_eqb storage (ls_btype st)) then Ok true
        else match ls_btype st with
             | None => Ok false
             | Some (bp, _) =>
               (* offset is not None and offset > bits_field_offset + bits_type.size *)
               match off1 with
               | None => Ok false
               | Some o => match ls_boff st, prim_size_z bp with
                           | Some bo, Some bs => Ok (bo + bs <? o)
                           | _, _ => Err EType
                           end
               end
             end in
      do nu <- new_unit_test;
      do st1cur <-
        (if nu then
           match storage with
           | Some (sp, _) =>
             match prim_size_z sp with
             | Some ssz =>
               Ok (mkLS (match off1 with Some o => Some (o + ssz) | None => None end) al storage off1 (ssz * 8), off1)
             | None => Err EType          (* bits_type.size * 8 with size None *)
             end
           | None => Err EType
           end
         else Ok (mkLS off1 al (ls_btype st) (ls_boff st) (ls_brem st), cur));
      let '(st1, cur') := st1cur in
      let rem := ls_brem st1 - nb in
      if rem <? 0 then Err EValue           (* "Straddled bit fields are unsupported" *)
      else Ok (mkLS (ls_off st1) (ls_align st1) (ls_btype st1) (ls_boff st1) rem, cur')
    | None =>
      match off1 with
      | Some o => match fsize with
                  | Some n => Ok (mkLS (Some (o + n)) al None (Some 0) 0, Some o)
                  | None => Ok (mkLS None al None (Some 0) 0, Some o)
                  end
      | None => Ok (mkLS None al None (Some 0) 0, None)
      end
    end.

  (* size / alignment of types (cls.size, cls.alignment) and the layout of field lists *)
  Fixpoint ty_size (t : ty) : option Z :=
    match t with
    | TPrim p _ => prim_size_z p
    | TEnum b _ _ _ => prim_size_z b
    | TPtr _ => prim_size_z (c_ptr c)
    | TArr e len =>
      match len with
      | LFixed n => match ty_size e with Some s => Some (n * s) | None => None end
      | _ => None
      end
    | TStruct _ fs al =>
      match (fix go (fs : list field) (st : lstate) : result lstate :=
               match fs with
               | [] => Ok st
               | Fld _ _ ft fb fo :: r =>
                 do x <- layout_step al st fo fb (bit_storage ft) (ty_size ft)
                                     (let a := ty_align ft in if a =? 0 then 1 else a);
                 go r (fst x)
               end) fs (mkLS (Some 0) 0 None (Some 0) 0) with
      | Ok st => match ls_off st with
                 | Some o => if al then Some (o + pad_to o (ls_align st)) else Some o
                 | None => None
                 end
      | Err _ => None
      end
    | TUnion _ fs al =>
      let '(sz, algn) :=
        (fix go (fs : list field) (acc : option Z * Z) : option Z * Z :=
           match fs with
           | [] => acc
           | Fld _ _ ft _ _ :: r =>
             let a := ty_align ft in
             go r (match fst acc, ty_size ft with Some s, Some n => Some (Z.max n s) | _, _ => None end,
                   Z.max (if a =? 0 then 1 else a) (snd acc))
           end) fs (Some 0, 0) in
      match sz with Some s => if al then Some (s + pad_to s algn) else Some s | None => None end
    end
  with ty_align (t : ty) : Z :=
    match t with
    | TPrim _ al => al
    | TEnum _ al _ _ => al
    | TPtr _ => c_ptr_al c
    | TArr e _ => ty_align e
    | TStruct _ fs al =>
      (fix go (fs : list field) (acc : Z) : Z :=
         match fs with
         | [] => acc
         | Fld _ _ ft _ _ :: r => let a := ty_align ft in go r (Z.max acc (if a =? 0 then 1 else a))
         end) fs 0
    | TUnion _ fs al =>
      (fix go (fs : list field) (acc : Z) : Z :=
         match fs with
         | [] => acc
         | Fld _ _ ft _ _ :: r => let a := ty_align ft in go r (Z.max (if a =? 0 then 1 else a) acc)
         end) fs 0
    end.

  Definition field_align (f : field) : Z := let a := ty_align (f_ty f) in if a =? 0 then 1 else a.

  (* the whole loop, returning the offsets written back into the Field objects *)
  Fixpoint layout_go (aligned : bool) (fs : list field) (st : lstate) : result (list (option Z) * lstate) :=
    match fs with
    | [] => Ok ([], st)
    | f :: r =>
      do x <- layout_step aligned st (f_off f) (f_bits f) (bit_storage (f_ty f)) (ty_size (f_ty f)) (field_align f);
      do y <- layout_go aligned r (fst x);
      Ok (snd x :: fst y, snd y)
    end.
  Definition layout_struct (aligned : bool) (fs : list field) : result lay :=
    do x <- layout_go aligned fs (mkLS (Some 0) 0 None (Some 0) 0);
    let st := snd x in
    Ok (mkLay (fst x)
              (match ls_off st with Some o => if aligned then Some (o + pad_to o (ls_align st)) else Some o | None => None end)
              (ls_align st)).

  Definition layout_union (aligned : bool) (fs : list field) : lay :=
    let sz := fold_left (fun acc f => match acc, ty_size (f_ty f) with Some s, Some n => Some (Z.max n s) | _, _ => None end) fs (Some 0) in
    let al := fold_left (fun acc f => Z.max (field_align f) acc) fs 0 in
    mkLay (map f_off fs) (match sz with Some s => if aligned then Some (s + pad_to s al) else Some s | None => None end) al.

  (* the fields as the class holds them after _update_fields: offsets written back *)
  Fixpoint set_offsets (fs : list field) (offs : list (option Z)) : list field :=
    match fs, offs with
    | Fld n a t b _ :: r, o :: ro => Fld n a t b o :: set_offsets r ro
    | _, _ => fs
    end.
End Layout.
