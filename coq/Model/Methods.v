(* Methods.v — the methods a structure class gets from dissect/cstruct/types/structure.py: __eq__, __bool__, __hash__ and __init__
   are compiled ONCE per field count from a source template over the placeholder names _0 .. _{n-1} (`_codegen`, lru-cached) and then
   PATCHED for the class at hand by replacing the code object's name / constant / variable tuples (`_patch_attributes`,
   `_generate_structure__init__`).  The model keeps that two-stage shape: a `code` holds the tuples and a body that refers to them BY
   INDEX, as the byte code does; `make_*` transcribe the templates, `patch_attributes` / `generate_*` the patching; `run_*` give the
   meaning of a code object on instances.  vf/methodsrc.py parses the byte code of the real generated functions (dis) into the same
   `code` terms; C17 compares them with `generate_*` of the class's field names on every run and runs both on the same instances.
   Definitions only.  Values are abstract: V with Python's `is-or-==` (veqb), truth value (truthy) and hash (vhash, which may raise). *)
From VF Require Export Model.Base.
From Coq Require Import DecimalString.
Open Scope string_scope. Open Scope list_scope. Open Scope nat_scope.

Definition ph (i : nat) : string := "_" ++ NilZero.string_of_uint (Nat.to_uint i).
Definition placeholders (n : nat) : list string := map ph (seq 0 n).

Fixpoint mapM {A B} (f : A -> result B) (l : list A) : result (list B) :=
  match l with [] => Ok [] | a :: r => do b <- f a; do bs <- mapM f r; Ok (b :: bs) end.

Inductive body :=
| BEq (cls : nat) (selfs others : list nat)   (* if self.<cls> is other.<cls>: return (self.<i>, ...) == (other.<j>, ...)   return False *)
| BAny (glob : nat) (attrs : list nat)        (* return <glob>([self.<i>, ...]) *)
| BHash (glob : nat) (tup : bool) (attrs : list nat)   (* return <glob>((self.<i>, ...)); with ONE field the template's "((self._0))" is no
                                                         tuple but the field itself (tup = false): such a structure hashes like its field *)
| BInit (stores : list (nat * nat * nat))     (* self.<name> = <var> if <var> is not None else <const>, in this order: (var, const, name) *)
| BInitU (obj sa : nat) (stores : list (nat * nat * nat)).
                                              (* unions: <obj>.<sa>(self, <const naming the member>, <var> if <var> is not None else <const>):
                                                 (var, name const, default const); obj / sa index the names `object` / `__setattr__` *)

Section Methods.
Variable V : Type.
Variable veqb : V -> V -> bool.       (* element comparison of tuple ==: identity or == *)
Variable truthy : V -> bool.
Variable vhash : V -> result Z.       (* hash(x); Err EType for unhashable values (lists) *)
Variable thash : list Z -> Z.         (* the tuple hash, a function of the elements' hashes *)

Inductive cst := CNone | CInt (i : nat) | CVal (v : V) | CStr (s : string).
Record code := mkCode { co_names : list string; co_consts : list cst; co_varnames : list string; co_body : body }.

(* ---- the templates (the strings the decorated functions return, read as code objects) ---- *)
Definition make_eq (names : list string) : code :=
  let n := length names in mkCode ("__class__" :: names) [] ["self"; "other"] (BEq 0 (seq 1 n) (seq 1 n)).
Definition make_bool (names : list string) : code :=
  mkCode ("any" :: names) [] ["self"] (BAny 0 (seq 1 (length names))).
Definition make_hash (names : list string) : code :=
  mkCode ("hash" :: names) [] ["self"] (BHash 0 (negb (Nat.eqb (length names) 1)) (seq 1 (length names))).
Definition make_init (names : list string) : code :=
  let n := length names in
  mkCode names (CNone :: map CInt (seq 0 n)) ("self" :: names) (BInit (map (fun i => (S i, S i, i)) (seq 0 n))).

Definition make_union_init (names : list string) : code :=
  let n := length names in
  mkCode ["object"; "__setattr__"] (CNone :: flat_map (fun '(i, nm) => [CStr nm; CInt i]) (combine (seq 0 n) names)) ("self" :: names)
         (BInitU 0 1 (map (fun i => (S i, S (2 * i), S (S (2 * i)))) (seq 0 n))).

(* _codegen: the template for a field count *)
Definition template (mk : list string -> code) (n : nat) : code := mk (placeholders n).

(* ---- patching ---- *)
Definition patch_attributes (c : code) (fields : list string) (start : nat) : code :=
  mkCode (firstn start (co_names c) ++ fields) (co_consts c) (co_varnames c) (co_body c).
Definition generate_eq (fields : list string) : code := patch_attributes (template make_eq (length fields)) fields 1.
Definition generate_bool (fields : list string) : code := patch_attributes (template make_bool (length fields)) fields 1.
Definition generate_hash (fields : list string) : code := patch_attributes (template make_hash (length fields)) fields 1.
Definition generate_init (fields : list (string * V)) : code :=
  let t := template make_init (length fields) in
  mkCode (map fst fields) (CNone :: map (fun f => CVal (snd f)) fields) ("self" :: map fst fields) (co_body t).

(* _generate_union__init__: the member names live in the CONSTANTS here (they are string arguments of object.__setattr__) *)
Definition generate_union_init (fields : list (string * V)) : code :=
  let t := template make_union_init (length fields) in
  mkCode (co_names t) (CNone :: flat_map (fun f => [CStr (fst f); CVal (snd f)]) fields) ("self" :: map fst fields) (co_body t).

(* ---- instances and the meaning of a code object ---- *)
Record inst := mkInst { i_cls : nat; i_attrs : list (string * V) }.
Definition getattr (o : inst) (nm : string) : result V :=
  match lookup nm (i_attrs o) with Some v => Ok v | None => Err EKey end.
Fixpoint set_attr (l : list (string * V)) (nm : string) (v : V) : list (string * V) :=
  match l with
  | [] => [(nm, v)]
  | (k, w) :: r => if String.eqb nm k then (k, v) :: r else (k, w) :: set_attr r nm v
  end.
Definition name_at (c : code) (k : nat) : result string :=
  match nth_error (co_names c) k with Some s => Ok s | None => Err EValue end.
Definition attrs_of (c : code) (o : inst) (ks : list nat) : result (list V) :=
  mapM (fun k => do nm <- name_at c k; getattr o nm) ks.

Definition run_eq (c : code) (self other : inst) : result bool :=
  match co_body c with
  | BEq k ss os =>
    do cn <- name_at c k;
    if negb (String.eqb cn "__class__") then Err EUnsupported
    else if Nat.eqb (i_cls self) (i_cls other) then
      do a <- attrs_of c self ss; do b <- attrs_of c other os; Ok (list_eqb veqb a b)
    else Ok false
  | _ => Err EUnsupported
  end.
Definition run_bool (c : code) (self : inst) : result bool :=
  match co_body c with
  | BAny g ks => do gn <- name_at c g; if negb (String.eqb gn "any") then Err EUnsupported
                 else do vs <- attrs_of c self ks; Ok (existsb truthy vs)
  | _ => Err EUnsupported
  end.
Definition run_hash (c : code) (self : inst) : result Z :=
  match co_body c with
  | BHash g tup ks => do gn <- name_at c g; if negb (String.eqb gn "hash") then Err EUnsupported
                  else do vs <- attrs_of c self ks; do hs <- mapM vhash vs; Ok (if tup then thash hs else hd 0%Z hs)
  | _ => Err EUnsupported
  end.

(* argument binding of a call T with positional and keyword arguments: co_varnames[1:] are the parameters, every default is None *)
Fixpoint index_of (nm : string) (l : list string) : option nat :=
  match l with [] => None | x :: r => if String.eqb nm x then Some 0 else option_map S (index_of nm r) end.
Fixpoint set_nth {A} (l : list A) (i : nat) (x : A) : list A :=
  match l, i with [] , _ => [] | _ :: r, 0 => x :: r | y :: r, S j => y :: set_nth r j x end.
Definition bind_args (c : code) (pos : list (option V)) (kw : list (string * option V)) : result (list (option V)) :=
  let params := tl (co_varnames c) in
  if length params <? length pos then Err EType else
  let slots := map Some pos ++ repeat None (length params - length pos) in
  do slots' <- fold_left (fun acc '(k, v) => do sl <- acc;
                 match index_of k params with
                 | None => Err EType
                 | Some i => match nth i sl None with Some _ => Err EType | None => Ok (set_nth sl i (Some v)) end
                 end) kw (Ok slots);
  Ok (map (fun s => match s with Some a => a | None => None end) slots').

Definition run_init (c : code) (args : list (option V)) : result (list (string * V)) :=
  match co_body c with
  | BInit stores =>
    fold_left (fun acc '(vi, ci, ni) => do at_ <- acc;
      match vi with 0 => Err EUnsupported | S ai =>
      do nm <- name_at c ni;
      match nth ai args None with
      | Some v => Ok (set_attr at_ nm v)
      | None => match nth_error (co_consts c) ci with Some (CVal d) => Ok (set_attr at_ nm d) | _ => Err EUnsupported end
      end end) stores (Ok [])
  | BInitU o sa stores =>
    do on <- name_at c o; do san <- name_at c sa;
    if negb (String.eqb on "object" && String.eqb san "__setattr__") then Err EUnsupported else
    fold_left (fun acc '(vi, ki, ci) => do at_ <- acc;
      match vi with 0 => Err EUnsupported | S ai =>
      match nth_error (co_consts c) ki with
      | Some (CStr nm) =>
        match nth ai args None with
        | Some v => Ok (set_attr at_ nm v)
        | None => match nth_error (co_consts c) ci with Some (CVal d) => Ok (set_attr at_ nm d) | _ => Err EUnsupported end
        end
      | _ => Err EUnsupported
      end end) stores (Ok [])
  | _ => Err EUnsupported
  end.

(* comparison of code objects for the tie to the real generated functions *)
Definition triple_eqb (a b : nat * nat * nat) : bool :=
  let '(x, y, z) := a in let '(x', y', z') := b in Nat.eqb x x' && Nat.eqb y y' && Nat.eqb z z'.
Definition body_eqb (a b : body) : bool :=
  match a, b with
  | BEq k s o, BEq k' s' o' => Nat.eqb k k' && list_eqb Nat.eqb s s' && list_eqb Nat.eqb o o'
  | BAny g k, BAny g' k' => Nat.eqb g g' && list_eqb Nat.eqb k k'
  | BHash g t k, BHash g' t' k' => Nat.eqb g g' && Bool.eqb t t' && list_eqb Nat.eqb k k'
  | BInit s, BInit s' => list_eqb triple_eqb s s'
  | BInitU o a s, BInitU o' a' s' => Nat.eqb o o' && Nat.eqb a a' && list_eqb triple_eqb s s'
  | _, _ => false
  end.
Definition cst_eqb (a b : cst) : bool :=
  match a, b with CNone, CNone => true | CInt i, CInt j => Nat.eqb i j | CVal v, CVal w => veqb v w | CStr s, CStr t => String.eqb s t | _, _ => false end.
Definition code_eqb (a b : code) : bool :=
  list_eqb String.eqb (co_names a) (co_names b) && list_eqb cst_eqb (co_consts a) (co_consts b)
  && list_eqb String.eqb (co_varnames a) (co_varnames b) && body_eqb (co_body a) (co_body b).
End Methods.

Arguments mkCode {V}. Arguments co_names {V}. Arguments co_consts {V}. Arguments co_varnames {V}. Arguments co_body {V}.
Arguments CNone {V}. Arguments CInt {V}. Arguments CVal {V}. Arguments CStr {V}.
Arguments mkInst {V}. Arguments i_cls {V}. Arguments i_attrs {V}.

(* the instance used by the correspondence: integers (and byte strings / floats mapped to integers injectively by the harness) *)
Definition zt (v : Z) : bool := negb (Z.eqb v 0).
Definition zh (v : Z) : result Z := Ok v.
Definition zth (l : list Z) : Z := fold_left (fun a x => Z.add (Z.mul a 1000003) x) l 0%Z.
