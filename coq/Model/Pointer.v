(* Pointer.v — Pointer.dereference, pointer arithmetic and dumping (types/pointer.py). *)
From VF Require Export Model.Writer.
Open Scope string_scope. Open Scope list_scope. Open Scope Z_scope.

(* a parsed pointer: its address, whether it is bound to a stream, and the bytes of that stream *)
Record pointer := mkPtr { p_addr : Z; p_bound : bool }.

(* dereference(): None for void targets; a NUL-terminated string for char targets; otherwise the target parsed at the absolute
   address.  The stream position is saved and restored, so the result does not depend on it and it is unchanged afterwards. *)
Definition deref (c : cfg) (target : ty) (s : list Z) (p : pointer) : result (option value) :=
  if (p_addr p =? 0) || negb (p_bound p) then Err ENullDeref
  else match target with
       | TPrim PVoid _ => Ok None
       | TPrim PChar al => do x <- read_top c (TArr (TPrim PChar al) LNull) s (p_addr p); Ok (Some (fst x))
       | _ => do x <- read_top c target s (p_addr p); Ok (Some (fst x))
       end.

(* p + n, p - n, ...: a pointer of the same type on the same stream with the computed address *)
Definition ptr_arith (f : Z -> Z -> option Z) (p : pointer) (n : Z) : option pointer :=
  option_map (fun a => mkPtr a (p_bound p)) (f (p_addr p) n).

Definition ptr_dump (c : cfg) (p : pointer) : result (list Z) := prim_write (c_endian c) (c_ptr c) (VInt (p_addr p)).

Definition rov_eqb (a b : result (option value)) : bool := result_eqb (option_eqb value_eqb) a b.
