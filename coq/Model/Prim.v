(* Prim.v — scalar types of the library and their readers/writers on byte lists:
     Packed._read/_write (struct codes), Int._read/_write, Char, Wchar, LEB128, Void.
   The byte order is looked up from the cstruct's endian CHARACTER at call time, through the maps the
   code uses (regenerated in Gen/Generated.v) — so a changed map changes the model. *)
From VF Require Export Model.Codec Model.Value Model.TypeSpec.
From VF Require Import Gen.Generated.
Open Scope string_scope. Open Scope list_scope. Open Scope Z_scope.

Inductive prim :=
| PInt (size : nat) (signed : bool) (packed : bool)   (* packed: goes through struct.pack/unpack; else int.from_bytes *)
| PFloat (size : nat)
| PChar | PWchar
| PLeb (signed : bool)
| PVoid.

(* CPython's struct module: byte order of the standard-size prefixes *)
Definition struct_endian_map : list (string * endian) := [("<", LE); (">", BE); ("!", BE); ("@", ENative); ("=", ENative)].
Definition endian_via (m : list (string * endian)) (c : string) : endian :=
  match lookup c m with Some e => e | None => EUnknownEndian end.
Definition prim_endian (p : prim) (c : string) : endian :=
  match p with
  | PInt _ _ true | PFloat _ => endian_via struct_endian_map c
  | PInt _ _ false => endian_via endianness_map c
  | PWchar => endian_via wchar_encoding_map c
  | _ => LE
  end.

Definition prim_size (p : prim) : option nat :=
  match p with
  | PInt n _ _ => Some n | PFloat n => Some n | PChar => Some 1%nat | PWchar => Some 2%nat
  | PLeb _ => None | PVoid => Some 0%nat
  end.

Definition split_at (n : nat) (s : list Z) : result (list Z * list Z) :=
  if Nat.leb n (length s) then Ok (firstn n s, skipn n s) else Err EEof.

(* read one value from the front of s; returns the value and the rest *)
Definition prim_read (c : string) (p : prim) (s : list Z) : result (value * list Z) :=
  match p with
  | PInt n sg _ => do (bs, r) <- split_at n s; Ok (VInt (int_from_bytes (prim_endian p c) sg bs), r)
  | PFloat n => do (bs, r) <- split_at n s; Ok (VFloat (int_from_bytes (prim_endian p c) false bs), r)
  | PChar => do (bs, r) <- split_at 1 s; Ok (VBytes bs, r)
  | PWchar => do (bs, r) <- split_at 2 s; do cps <- utf16_decode (prim_endian p c) bs; Ok (VWstr cps, r)
  | PLeb sg => do (v, r) <- leb_read sg s; Ok (VInt v, r)
  | PVoid => Ok (VVoid, s)
  end.

Definition is_nan_bits (n : nat) (bits : Z) : bool :=
  let '(eb, mb) := float_params (Z.of_nat n) in
  match ieee_decode eb mb bits with FNan => true | _ => false end.

Definition prim_write (c : string) (p : prim) (v : value) : result (list Z) :=
  match p, v with
  | PInt n sg _, VInt z => int_to_bytes (prim_endian p c) n sg z
  | PFloat n, VFloat bits => int_to_bytes (prim_endian p c) n false bits
  | PChar, VBytes bs => Ok bs
  | PWchar, VWstr cps => utf16_encode (prim_endian p c) cps
  | PLeb sg, VInt z => leb_write sg z
  | PVoid, _ => Ok []
  | _, _ => Err EType
  end.

Definition prim_of_entry (e : tentry) : option prim :=
  match te_kind e, te_size e with
  | KPackedInt sg, Some n => Some (PInt (Z.to_nat n) sg true)
  | KPackedFloat, Some n => Some (PFloat (Z.to_nat n))
  | KInt sg, Some n => Some (PInt (Z.to_nat n) sg false)
  | KChar, _ => Some PChar
  | KWchar, _ => Some PWchar
  | KLeb sg, _ => Some (PLeb sg)
  | KVoid, _ => Some PVoid
  | _, _ => None
  end.
(* cs.resolve(name) for a built-in name, as a prim *)
Definition prim_named (name : string) : result prim :=
  do e <- resolve_go (Z.to_nat resolve_bound) type_table name;
  match prim_of_entry e with Some p => Ok p | None => Err EType end.

(* a history of scalar operations on ONE cstruct object whose endianness may be switched in between *)
Inductive sop := SRead (name : string) (bs : list Z) | SWrite (name : string) (v : value) | SSetEndian (c : string).
Inductive sout := ORead (r : result (value * Z)) | OWrite (r : result (list Z)) | ONone.
Fixpoint run_sops (c : string) (ops : list sop) : list sout :=
  match ops with
  | [] => []
  | SRead n bs :: r =>
    ORead (do p <- prim_named n; do (v, rest) <- prim_read c p bs; Ok (v, Z.of_nat (length bs - length rest))) :: run_sops c r
  | SWrite n v :: r => OWrite (do p <- prim_named n; prim_write c p v) :: run_sops c r
  | SSetEndian c' :: r => ONone :: run_sops c' r
  end.

Definition rv_eqb (a b : result (value * Z)) : bool :=
  result_eqb (fun x y => value_eqb (fst x) (fst y) && (snd x =? snd y)) a b.
Definition rb_eqb (a b : result (list Z)) : bool := result_eqb (list_eqb Z.eqb) a b.
Definition sout_eqb (a b : sout) : bool :=
  match a, b with
  | ORead x, ORead y => rv_eqb x y
  | OWrite x, OWrite y => rb_eqb x y
  | ONone, ONone => true
  | _, _ => false
  end.

(* does a float bit pattern denote the exact rational num/den (or the given special)? used by the shards *)
Inductive fobs := FoNan | FoInf (neg : bool) | FoRat (num den : Z) (zero_neg : bool).
Definition float_matches (n : nat) (bits : Z) (o : fobs) : bool :=
  let '(eb, mb) := float_params (Z.of_nat n) in
  match ieee_decode eb mb bits, o with
  | FNan, FoNan => true
  | FInf a, FoInf b => Bool.eqb a b
  | FFin neg m e, FoRat num den zn => fin_matches neg m e num den zn
  | _, _ => false
  end.

(* what the harness observed for one operation *)
Inductive expect :=
| XRead (r : result (value * Z))
| XFloat (size : nat) (o : fobs) (consumed : Z)     (* a float was read: its exact value *)
| XWrite (r : result (list Z))
| XNone.
Definition expect_ok (o : sout) (x : expect) : bool :=
  match o, x with
  | ORead a, XRead b => rv_eqb a b
  | ORead (Ok (VFloat bits, n)), XFloat sz ob k => float_matches sz bits ob && (n =? k)
  | OWrite a, XWrite b => rb_eqb a b
  | ONone, XNone => true
  | _, _ => false
  end.
Fixpoint all2 {A B} (f : A -> B -> bool) (l1 : list A) (l2 : list B) : bool :=
  match l1, l2 with
  | [], [] => true
  | a :: r1, b :: r2 => f a b && all2 f r1 r2
  | _, _ => false
  end.
Definition sops_check (c : string) (ops : list sop) (xs : list expect) : bool := all2 expect_ok (run_sops c ops) xs.
