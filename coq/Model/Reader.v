(* Reader.v — the interpreted readers:
     BitBuffer.read/reset                         -> bb_read
     StructureMetaType._read / _read_0            -> read_ty (TStruct), read_0
     UnionMetaType._read / _read_fields           -> read_ty (TUnion)
     BaseArray._read, MetaType._read_array        -> read_array, read_n, read_eof
     Packed/Char/Wchar/Int/LEB128/Enum/Void _read_array, _read_0 (per-type fast paths, kept separate)
     Pointer._read, EnumMetaType._read
   A stream is the whole byte list plus an absolute position (io.BytesIO: reads may come back short,
   seeking past the end is allowed).  Loops that run on data take fuel; exhaustion is Err EOutOfFuel. *)
From VF Require Export Model.Layout Model.Expr.
Open Scope string_scope. Open Scope list_scope. Open Scope Z_scope.

(* ---------- streams ---------- *)
Definition sread (s : list Z) (pos n : Z) : list Z := firstn (Z.to_nat n) (skipn (Z.to_nat pos) s).
Definition srest (s : list Z) (pos : Z) : list Z := skipn (Z.to_nat pos) s.
Definition zlen (l : list Z) : Z := Z.of_nat (length l).
(* read exactly n bytes or EOFError *)
Definition sread_exact (s : list Z) (pos n : Z) : result (list Z) :=
  if 9223372036854775807 <? n then Err ERange     (* stream.read(n): OverflowError beyond an index-sized integer *)
  else if n <=? zlen (srest s pos) then Ok (sread s pos n) else Err EEof.   (* compared in Z first: n may be astronomically large *)

(* one scalar at an absolute position: value and new position *)
Definition prim_read_at (e : string) (p : prim) (s : list Z) (pos : Z) : result (value * Z) :=
  let r := srest s pos in
  do x <- prim_read e p r; Ok (fst x, pos + (zlen r - zlen (snd x))).

(* ---------- bit buffer ---------- *)
Record bitbuf := mkBB { bb_type : option (prim * Z); bb_buf : Z; bb_rem : Z }.
Definition bb_empty : bitbuf := mkBB None 0 0.

Definition value_as_unit (le : bool) (v : value) : result Z :=
  match v with
  | VInt z => Ok z
  | VBytes bs => Ok (int_from_bytes (if le then LE else BE) false bs)   (* char storage *)
  | _ => Err EType                                                     (* float / wchar & int -> TypeError *)
  end.

Definition bb_read (e : string) (s : list Z) (pos : Z) (bb : bitbuf) (storage : option (prim * Z)) (bits : Z)
  : result (Z * bitbuf * Z) :=
  let le := String.eqb e "<" in
  do st <-
    (if (bb_rem bb =? 0) || negb (storage_eqb (bb_type bb) storage) then
       match storage with
       | Some (p, _) =>
         match prim_size_z p with
         | None => Err EValue             (* "Reading variable-length fields is unsupported" *)
         | Some sz =>
           do x <- prim_read_at e p s pos;
           do u <- value_as_unit le (fst x);
           Ok (mkBB storage u (sz * 8), snd x)
         end
       | None => Err EType
       end
     else Ok (bb, pos));
  let '(b, pos') := st in
  if bb_rem b <? bits then Err EValue      (* "Reading straddled bits is unsupported" *)
  else if le then
    Ok (Z.land (bb_buf b) (2 ^ bits - 1), mkBB (bb_type b) (Z.shiftr (bb_buf b) bits) (bb_rem b - bits), pos')
  else
    let m := Z.lxor (2 ^ (bb_rem b - bits) - 1) (2 ^ (bb_rem b) - 1) in
    Ok (Z.shiftr (Z.land (bb_buf b) m) (bb_rem b - bits), mkBB (bb_type b) (bb_buf b) (bb_rem b - bits), pos').

(* ---------- element classes for the per-type array fast paths ---------- *)
Definition elem_base (t : ty) : option prim :=
  match t with TPrim p _ => Some p | TEnum b _ _ _ => Some b | _ => None end.

(* `value == 0` in the element's _read_0 loop; for floats both +0.0 and -0.0 compare equal to 0 *)
Definition is_zero_for (el : ty) (v : value) : bool :=
  match v, el with
  | VInt 0, _ => true
  | VFloat bits, TPrim (PFloat n) _ => bits mod 2 ^ (8 * Z.of_nat n - 1) =? 0
  | _, _ => false
  end.

(* bool(value) as Python sees the parsed object *)
Fixpoint truthy_value (v : value) : bool :=
  match v with
  | VInt z => negb (z =? 0)
  | VFloat bits => negb (bits =? 0)              (* -0.0 is falsy too in Python; not distinguishable here without the width:
                                                    generators keep float fields out of null-terminated struct arrays *)
  | VBytes bs => match bs with [] => false | _ => true end
  | VWstr cps => match cps with [] => false | _ => true end
  | VVoid => false
  | VList vs => match vs with [] => false | _ => true end
  | VStruct fs _ => existsb (fun kv => truthy_value (snd kv)) fs
  | VUnion _ fs => existsb (fun kv => truthy_value (snd kv)) fs
  end.

Definition int_ctx (n : string) (v : value) (ctx : list (string * Z)) : list (string * Z) :=
  match v with VInt z => (n, z) :: ctx | _ => ctx end.

(* ---------- loops, as combinators over an element reader ---------- *)
(* an element reader: stream bytes, position, expression context -> value and new position *)
Definition rfn := list Z -> Z -> list (string * Z) -> result (value * Z).

(* [cls._read(stream, context) for _ in range(k)] *)
Fixpoint seq_n (rd : rfn) (k : nat) (s : list Z) (pos : Z) (ctx : list (string * Z)) : result (list value * Z) :=
  match k with
  | O => Ok ([], pos)
  | S k' => do x <- rd s pos ctx; do r <- seq_n rd k' s (snd x) ctx; Ok (fst x :: fst r, snd r)
  end.
(* while not _is_eof(stream): append(_read) *)
Fixpoint seq_eof (rd : rfn) (f : nat) (s : list Z) (pos : Z) (ctx : list (string * Z)) : result (list value * Z) :=
  match f with
  | O => Err EOutOfFuel
  | S f' => if zlen s <=? pos then Ok ([], pos)
            else do x <- rd s pos ctx; do r <- seq_eof rd f' s (snd x) ctx; Ok (fst x :: fst r, snd r)
  end.
(* _read_0 of Int / LEB128 / Packed: element by element until a zero, which is consumed *)
Fixpoint zero_term (isz : value -> bool) (rd : rfn) (f : nat) (s : list Z) (pos : Z) (ctx : list (string * Z)) : result (list value * Z) :=
  match f with
  | O => Err EOutOfFuel
  | S f' => do x <- rd s pos ctx;
            if isz (fst x) then Ok ([], snd x)
            else do r <- zero_term isz rd f' s (snd x) ctx; Ok (fst x :: fst r, snd r)
  end.
(* Structure._read_0: while obj := cls._read(...) *)
Fixpoint falsy_term (rd : rfn) (f : nat) (s : list Z) (pos : Z) (ctx : list (string * Z)) : result (list value * Z) :=
  match f with
  | O => Err EOutOfFuel
  | S f' => do x <- rd s pos ctx;
            if truthy_value (fst x) then do r <- falsy_term rd f' s (snd x) ctx; Ok (fst x :: fst r, snd r)
            else Ok ([], snd x)
  end.
(* Char._read_0: byte by byte until \x00 *)
Fixpoint char_term (f : nat) (s : list Z) (pos : Z) (acc : list Z) : result (value * Z) :=
  match f with
  | O => Err EOutOfFuel
  | S f' => match sread s pos 1 with
            | [b] => if b =? 0 then Ok (VBytes (rev acc), pos + 1) else char_term f' s (pos + 1) (b :: acc)
            | _ => Err EEof
            end
  end.
Fixpoint wchar_term (en : endian) (f : nat) (s : list Z) (pos : Z) (acc : list Z) : result (value * Z) :=
  match f with
  | O => Err EOutOfFuel
  | S f' => match sread s pos 2 with
            | [a; b] => if (a =? 0) && (b =? 0)
                        then do cps <- utf16_decode en (rev acc); Ok (VWstr cps, pos + 2)
                        else wchar_term en f' s (pos + 2) (b :: a :: acc)
            | _ => Err EEof
            end
  end.

(* what the structure loop needs to know about a field *)
Record fmeta := mkFM { fm_name : string; fm_bits : option Z; fm_storage : option (prim * Z); fm_align : Z }.

(* StructureMetaType._read's loop over the fields (each with its reader), with the offsets the layout computed *)
Fixpoint struct_loop (e : string) (aligned : bool) (start : Z) (items : list (fmeta * rfn)) (offs : list (option Z))
         (s : list Z) (pos : Z) (bb : bitbuf) (vals : list (string * value)) (sizes : list (string * Z)) (lctx : list (string * Z))
  : result (list (string * value) * list (string * Z) * Z) :=
  match items, offs with
  | [], _ => Ok (rev vals, rev sizes, pos)
  | (m, rd) :: r, o :: ro =>
    let n := fm_name m in
    let off1 := match o with Some fo => start + fo | None => pos end in
    let off2 := if aligned then (match o with None => off1 + pad_to off1 (fm_align m) | Some _ => off1 end) else off1 in
    let plain := (* a field that is not a bit field (bits None or 0) *)
      do x <- rd s off2 lctx;
      struct_loop e aligned start r ro s (snd x) bb_empty ((n, fst x) :: vals) ((n, snd x - off2) :: sizes) (int_ctx n (fst x) lctx) in
    match fm_bits m with
    | Some nb =>
      if nb =? 0 then plain
      else
        do x <- bb_read e s off2 bb (fm_storage m) nb;
        let '(v, bb', pos') := x in
        struct_loop e aligned start r ro s pos' bb' ((n, VInt v) :: vals) sizes ((n, v) :: lctx)
    | None => plain
    end
  | _ :: _, [] => Err EType
  end.

(* UnionMetaType._read_fields over a buffer `buf` with base offset `base`; returns members and the furthest position any member reached
   (`last` starts at the union's own position): a dynamically sized union extends to the end of the member that reaches furthest *)
Fixpoint union_loop (items : list (string * option Z * rfn)) (buf : list Z) (base : Z) (last : Z)
         (vals : list (string * value)) (lctx : list (string * Z)) : result (list (string * value) * Z) :=
  match items with
  | [] => Ok (rev vals, last)
  | (n, fo, rd) :: r =>
    let st := match fo with Some o => o | None => 0 end in
    do x <- rd buf (base + st) lctx;
    union_loop r buf base (Z.max last (snd x)) ((n, fst x) :: vals) (int_ctx n (fst x) lctx)
  end.

Section Reader.
  Variable c : cfg.
  Let e := c_endian c.

  Definition sizeof_fn (n : string) : option Z := lookup n (c_sizeof c).
  Definition eval_len (ctx : list (string * Z)) (toks : list string) : option Z :=
    evaluate ctx (c_consts c) sizeof_fn toks.

  (* Packed._read_array for a count: one read of n elements, struct.unpack *)
  Fixpoint unpack_n (p : prim) (k : nat) (bs : list Z) : result (list value) :=
    match k with
    | O => Ok []
    | S k' => do x <- prim_read e p bs; do r <- unpack_n p k' (snd x); Ok (fst x :: r)
    end.
  Definition packed_read_n (p : prim) (n : Z) (s : list Z) (pos : Z) : result (list value * Z) :=
    match prim_size_z p with
    | Some sz => do bs <- sread_exact s pos (sz * n); do vs <- unpack_n p (Z.to_nat n) bs; Ok (vs, pos + sz * n)
    | None => Err EType
    end.
  (* Packed._read_array(EOF): all remaining whole elements; a partial tail makes struct.unpack raise *)
  Definition packed_read_eof (p : prim) (s : list Z) (pos : Z) : result (list value * Z) :=
    match prim_size_z p with
    | Some sz =>
      let data := srest s pos in
      if sz =? 0 then Err EZeroDiv else
      let n := zlen data / sz in
      if zlen data =? n * sz then
        do r <- packed_read_n p n s pos; Ok (fst r, pos + zlen data)
      else Err ERange
    | None => Err EType
    end.

  Definition wrap_list (r : result (list value * Z)) : result (value * Z) := do x <- r; Ok (VList (fst x), snd x).

  (* cls.type._read_array(stream, n, context) by element class *)
  Definition read_count (fuel : nat) (el : ty) (rd : rfn) (n : Z) (s : list Z) (pos : Z) (ctx : list (string * Z)) : result (value * Z) :=
    match el with
    | TPrim PChar _ =>
      if n =? 0 then Ok (VBytes [], pos) else do bs <- sread_exact s pos n; Ok (VBytes bs, pos + n)
    | TPrim PWchar _ =>
      if n =? 0 then Ok (VWstr [], pos)
      else do bs <- sread_exact s pos (2 * n); do cps <- utf16_decode (prim_endian PWchar e) bs; Ok (VWstr cps, pos + 2 * n)
    | TPrim (PInt _ _ true as p) _ | TPrim (PFloat _ as p) _ => wrap_list (packed_read_n p n s pos)
    | TEnum (PInt _ _ true as p) _ _ _ => wrap_list (packed_read_n p n s pos)
    | _ =>
      (* [cls._read(stream) for _ in range(n)]: each non-empty element consumes input, so more than len+65 iterations
         can only complete for zero-size elements (reported as out of fuel); len = the bytes left from pos *)
      let cap := zlen (srest s pos) + 65 in
      do r <- seq_n rd (Z.to_nat (Z.min n cap)) s pos ctx;
      if cap <? n then Err EOutOfFuel else Ok (VList (fst r), snd r)
    end.
  Definition read_eof_mode (fuel : nat) (el : ty) (rd : rfn) (s : list Z) (pos : Z) (ctx : list (string * Z)) : result (value * Z) :=
    match el with
    | TPrim PChar _ => let d := srest s pos in Ok (VBytes d, pos + zlen d)
    | TPrim PWchar _ => let d := srest s pos in do cps <- utf16_decode (prim_endian PWchar e) d; Ok (VWstr cps, pos + zlen d)
    | TPrim (PInt _ _ true as p) _ | TPrim (PFloat _ as p) _ => wrap_list (packed_read_eof p s pos)
    | TEnum (PInt _ _ true as p) _ _ _ => wrap_list (packed_read_eof p s pos)
    | _ => wrap_list (seq_eof rd fuel s pos ctx)
    end.
  Definition read_null (fuel : nat) (el : ty) (rd : rfn) (s : list Z) (pos : Z) (ctx : list (string * Z)) : result (value * Z) :=
    match el with
    | TPrim PChar _ => char_term fuel s pos []
    | TPrim PWchar _ => wchar_term (prim_endian PWchar e) fuel s pos []
    | TPrim PVoid _ => Ok (VList [VVoid], pos)                     (* Void._read_0 *)
    | TPrim _ _ | TEnum _ _ _ _ => wrap_list (zero_term (is_zero_for el) rd fuel s pos ctx)
    | TStruct _ _ _ | TUnion _ _ _ => wrap_list (falsy_term rd fuel s pos ctx)
    | TPtr _ | TArr _ _ => Err EUnsupported                        (* MetaType._read_0: NotImplementedError *)
    end.
  (* BaseArray._read *)
  Definition read_array (fuel : nat) (el : ty) (rd : rfn) (len : alen) (s : list Z) (pos : Z) (ctx : list (string * Z)) : result (value * Z) :=
    match len with
    | LNull => read_null fuel el rd s pos ctx
    | LFixed n => read_count fuel el rd (Z.max 0 n) s pos ctx
    | LExpr toks is_eof =>
      match eval_len ctx toks with
      | Some v => read_count fuel el rd (Z.max 0 v) s pos ctx
      | None => if is_eof then read_eof_mode fuel el rd s pos ctx else Err EExpr
      end
    end.

  Definition meta_of (f : field) : fmeta :=
    mkFM (f_name f) (f_bits f) (bit_storage (f_ty f)) (let a := ty_align c (f_ty f) in if a =? 0 then 1 else a).

  (* the generic reader, by structural recursion on the type; `fuel` bounds data-driven loops *)
  Fixpoint read_ty (fuel : nat) (t : ty) (s : list Z) (pos : Z) (ctx : list (string * Z)) {struct t} : result (value * Z) :=
    match t with
    | TPrim p _ => prim_read_at e p s pos
    | TEnum b _ _ _ => prim_read_at e b s pos                      (* cls(cls.type._read(stream)): value preserved *)
    | TPtr _ => prim_read_at e (c_ptr c) s pos                     (* the address *)
    | TArr el len => read_array fuel el (read_ty fuel el) len s pos ctx
    | TStruct _ fs aligned =>
      match layout_struct c aligned fs with
      | Err er => Err er
      | Ok lay =>
        do r <- struct_loop e aligned pos (map (fun f => (meta_of f, read_ty fuel (f_ty f))) fs) (l_offs lay) s pos bb_empty [] [] [];
        let '(vals, sizes, pos') := r in
        Ok (VStruct vals sizes, if aligned then pos' + pad_to pos' (eff_align (l_align lay)) else pos')
      end
    | TUnion _ fs aligned =>
      let lay := layout_union c aligned fs in
      let items := map (fun f => (f_name f, f_off f, read_ty fuel (f_ty f))) fs in
      match l_size lay with
      | Some sz =>
        let buf := sread s pos sz in           (* stream.read(cls.size): may be short; the members then hit EOF *)
        do m <- union_loop items buf 0 0 [] [];
        Ok (VUnion buf (fst m), pos + zlen buf)
      | None =>
        do m <- union_loop items s pos pos [] [];
        let size := snd m - pos in
        do buf <- sread_exact s pos size;          (* the re-read of the union's bytes; EOFError when short *)
        Ok (VUnion buf (fst m), pos + size)
      end
    end.

  Definition read_top (t : ty) (s : list Z) (pos : Z) : result (value * Z) :=
    read_ty (S (S (length s))) t s pos [].
End Reader.

(* the tokens of an Expression object as ExpressionTokenizer delivers them (definition time) *)
Definition toks_of (s : string) : list string := match tokenize s with Some t => t | None => [] end.
Definition rvz_eqb (a b : result (value * Z)) : bool :=
  result_eqb (fun x y => value_eqb (fst x) (fst y) && (snd x =? snd y)) a b.
