(* Reader.v — the interpreted readers:
     BitBuffer.read/reset                         -> bb_read
     StructureMetaType._read / _read_0            -> read_ty (TStruct), read_0
     UnionMetaType._read / _read_fields           -> read_ty (TUnion)
     BaseArray._read, MetaType._read_array        -> read_array, read_n, read_eof
     Packed/Char/Wchar/Int/LEB128/Enum/Void _read_array, _read_0 (per-type fast paths, kept separate)
     Pointer._read, EnumMetaType._read
   A stream is the whole byte list plus an absolute position (io.BytesIO: reads may come back short,
   seeking past the end is allowed).  Loops that run on data take fuel; exhaustion is Err EOutOfFuel. *)
From VF Require Export Model.Layout Model.Expr.
Open Scope string_scope. Open Scope list_scope. Open Scope Z_scope.

(* ---------- streams ---------- *)
Definition sread (s : list Z) (pos n : Z) : list Z := firstn (Z.to_nat n) (skipn (Z.to_nat pos) s).
Definition srest (s : list Z) (pos : Z) : list Z := skipn (Z.to_nat pos) s.
Definition zlen (l : list Z) : Z := Z.of_nat (length l).
(* read exactly n bytes or EOFError *)
Definition sread_exact (s : list Z) (pos n : Z) : result (list Z) :=
  if 9223372036854775807 <? n then Err ERange     (* stream.read(n): OverflowError beyond an index-sized integer *)
  else if n <=? zlen (srest s pos) then Ok (sread s pos n) else Err EEof.   (* compared in Z first: n may be astronomically large *)

(* one scalar at an absolute position: value and new position *)
Definition prim_read_at (e : string) (p : prim) (s : list Z) (pos : Z) : result (value * Z) :=
  let r := srest s pos in
  do x <- prim_read e p r; Ok (fst x, pos + (zlen r - zlen (snd x))).

(* ---------- bit buffer ---------- *)
Record bitbuf := mkBB { bb_type : option (prim * Z); bb_buf : Z; bb_rem : Z }.
Definition bb_empty : bitbuf := mkBB None 0 0.

Definition value_as_unit (le : bool) (v : value) : result Z :=
  match v with
  | VInt z => Ok z
  | VBytes bs => Ok (int_from_bytes (if le then LE else BE) false bs)   (* char storage *)
  | _ => Err EType                                                     (* float / wchar & int -> TypeError *)
  end.

Definition bb_read (e : string) (s : list Z) (pos : Z) (bb : bitbuf) (storage : option (prim * Z)) (bits : Z)
  : result (Z * bitbuf * Z) :=
  let le := String.eqb e "<" in
  do st <-
    (if (bb_rem bb =? 0) || negb (storage_eqb (bb_type bb) storage) then
       match storage with
       | Some (p, _) =>
         match prim_size_z p with
         | None => Err EValue             (* "Reading variable-length fields is unsupported" *)
         | Some sz =>
           do x <- prim_read_at e p s pos;
           do u <- value_as_unit le (fst x);
           Ok (mkBB storage u (sz * 8), snd x)
         end
       | None => Err EType
       end
     else Ok (bb, pos));
  let '(b, pos') := st in
  if bb_rem b <? bits then Err EValue      (* "Reading straddled bits is unsupported" *)
  else if le then
    Ok (Z.land (bb_buf b) (2 ^ bits - 1), mkBB (bb_type b) (Z.shiftr (bb_buf b) bits) (bb_rem b - bits), pos')
  else
    let m := Z.lxor (2 ^ (bb_rem b - bits) - 1) (2 ^ (bb_rem b) - 1) in
    Ok (Z.shiftr (Z.land (bb_buf b) m) (bb_rem b - bits), mkBB (bb_type b) (bb_buf b) (bb_rem b - bits), pos').

(* ---------- element classes for the per-type array fast paths ---------- *)
Definition elem_base (t : ty) : option prim :=
  match t with TPrim p _ => Some p | TEnum b _ _ _ => Some b | _ => None end.

(* `value == 0` in the element's _read_0 loop; for floats both +0.0 and -0.0 compare equal to 0 *)
Definition is_zero_for (el : ty) (v : value) : bool :=
  match v, el with
  | VInt 0, _ => true
  | VFloat bits, TPrim (PFloat n) _ => bits mod 2 ^ (8 * Z.of_nat n - 1) =? 0
  | _, _ => false
  end.

(* bool(value) as Python sees the parsed object *)
Fixpoint truthy_value (v : value) : bool :=
  match v with
  | VInt z => negb (z =? 0)
  | VFloat bits => negb (bits =? 0)              (* -0.0 is falsy too in Python; not distinguishable here without the width:
                                                    generators keep float fields out of null-terminated struct arrays *)
  | VBytes bs => match bs with [] => false | _ => true end
  | VWstr cps => match cps with [] => false | _ => true end
  | VVoid => false
  | VList vs => match vs with [] => false | _ => true end
  | VStruct fs _ => existsb (fun kv => truthy_value (snd kv)) fs
  | VUnion _ fs => existsb (fun kv => truthy_value (snd kv)) fs
  end.

Definition int_ctx (n : string) (v : value) (ctx : list (string * Z)) : list (string * Z) :=
  match v with VInt z => (n, z) :: ctx | _ => ctx end.

Section Reader.
  Variable c : cfg.
  Let e := c_endian c.

  Definition sizeof_fn (n : string) : option Z := lookup n (c_sizeof c).
  Definition eval_len (ctx : list (string * Z)) (toks : list string) : option Z :=
    evaluate ctx (c_consts c) sizeof_fn toks.

  (* Packed._read_array for a count *)
  Definition packed_read_n (p : prim) (n : Z) (s : list Z) (pos : Z) : result (list value * Z) :=
    match prim_size_z p with
    | Some sz =>
      do bs <- sread_exact s pos (sz * n);
      (* struct.unpack of n items *)
      (fix go (k : nat) (bs : list Z) : result (list value * Z) :=
         match k with
         | O => Ok ([], pos + sz * n)
         | S k' => do x <- prim_read e p bs; do r <- go k' (snd x); Ok (fst x :: fst r, snd r)
         end) (Z.to_nat n) bs
    | None => Err EType
    end.
  (* Packed._read_array(EOF): all remaining whole elements; a partial tail makes struct.unpack raise *)
  Definition packed_read_eof (p : prim) (s : list Z) (pos : Z) : result (list value * Z) :=
    match prim_size_z p with
    | Some sz =>
      let data := srest s pos in
      if sz =? 0 then Err EZeroDiv else
      let n := zlen data / sz in
      if zlen data =? n * sz then
        do r <- packed_read_n p n s pos; Ok (fst r, pos + zlen data)
      else Err ERange
    | None => Err EType
    end.

  (* the generic readers, by structural recursion on the type; `fuel` bounds data-driven loops *)
  Fixpoint read_ty (fuel : nat) (t : ty) (s : list Z) (pos : Z) (ctx : list (string * Z)) {struct t} : result (value * Z) :=
    match t with
    | TPrim p _ => prim_read_at e p s pos
    | TEnum b _ _ _ => prim_read_at e b s pos                      (* cls(cls.type._read(stream)): value preserved *)
    | TPtr _ => prim_read_at e (c_ptr c) s pos                     (* the address *)
    | TArr el len =>
      let seq_n := (fix go (k : nat) (pos : Z) : result (list value * Z) :=
                      match k with
                      | O => Ok ([], pos)
                      | S k' => do x <- read_ty fuel el s pos ctx; do r <- go k' (snd x); Ok (fst x :: fst r, snd r)
                      end) in
      (* while not _is_eof(stream): append(_read) *)
      let seq_eof := (fix go (f : nat) (pos : Z) : result (list value * Z) :=
                        match f with
                        | O => Err EOutOfFuel
                        | S f' => if zlen s <=? pos then Ok ([], pos)
                                  else do x <- read_ty fuel el s pos ctx; do r <- go f' (snd x); Ok (fst x :: fst r, snd r)
                        end) in
      (* _read_0 of Int / LEB128 / Packed (element by element until a zero) *)
      let zero_term := (fix go (f : nat) (pos : Z) : result (list value * Z) :=
                          match f with
                          | O => Err EOutOfFuel
                          | S f' => do x <- read_ty fuel el s pos ctx;
                                    if is_zero_for el (fst x) then Ok ([], snd x)
                                    else do r <- go f' (snd x); Ok (fst x :: fst r, snd r)
                          end) in
      (* Structure._read_0: while obj := cls._read(...) *)
      let falsy_term := (fix go (f : nat) (pos : Z) : result (list value * Z) :=
                           match f with
                           | O => Err EOutOfFuel
                           | S f' => do x <- read_ty fuel el s pos ctx;
                                     if truthy_value (fst x) then do r <- go f' (snd x); Ok (fst x :: fst r, snd r)
                                     else Ok ([], snd x)
                           end) in
      let wrap (r : result (list value * Z)) : result (value * Z) := do x <- r; Ok (VList (fst x), snd x) in
      let read_count (n : Z) : result (value * Z) :=
        match el with
        | TPrim PChar _ =>
          if n =? 0 then Ok (VBytes [], pos) else do bs <- sread_exact s pos n; Ok (VBytes bs, pos + n)
        | TPrim PWchar _ =>
          if n =? 0 then Ok (VWstr [], pos)
          else do bs <- sread_exact s pos (2 * n); do cps <- utf16_decode (prim_endian PWchar e) bs; Ok (VWstr cps, pos + 2 * n)
        | TPrim (PInt _ _ true as p) _ | TPrim (PFloat _ as p) _ => wrap (packed_read_n p n s pos)
        | TEnum (PInt _ _ true as p) _ _ _ => wrap (packed_read_n p n s pos)
        | _ =>
          (* [cls._read(stream) for _ in range(n)]: each non-empty element consumes input, so more than
             len+65 iterations can only complete for zero-size elements (reported as out of fuel) *)
          let cap := zlen s + 65 in
          do r <- seq_n (Z.to_nat (Z.min n cap)) pos;
          if cap <? n then Err EOutOfFuel else Ok (VList (fst r), snd r)
        end in
      let read_eof_mode : result (value * Z) :=
        match el with
        | TPrim PChar _ => let d := srest s pos in Ok (VBytes d, pos + zlen d)
        | TPrim PWchar _ => let d := srest s pos in do cps <- utf16_decode (prim_endian PWchar e) d; Ok (VWstr cps, pos + zlen d)
        | TPrim (PInt _ _ true as p) _ | TPrim (PFloat _ as p) _ => wrap (packed_read_eof p s pos)
        | TEnum (PInt _ _ true as p) _ _ _ => wrap (packed_read_eof p s pos)
        | _ => wrap (seq_eof fuel pos)
        end in
      match len with
      | LNull =>
        match el with
        | TPrim PChar _ =>
          (* byte by byte until \x00 *)
          (fix go (f : nat) (pos : Z) (acc : list Z) : result (value * Z) :=
             match f with
             | O => Err EOutOfFuel
             | S f' => match sread s pos 1 with
                       | [b] => if b =? 0 then Ok (VBytes (rev acc), pos + 1) else go f' (pos + 1) (b :: acc)
                       | _ => Err EEof
                       end
             end) fuel pos []
        | TPrim PWchar _ =>
          (fix go (f : nat) (pos : Z) (acc : list Z) : result (value * Z) :=
             match f with
             | O => Err EOutOfFuel
             | S f' => match sread s pos 2 with
                       | [a; b] => if (a =? 0) && (b =? 0)
                                   then do cps <- utf16_decode (prim_endian PWchar e) (rev acc); Ok (VWstr cps, pos + 2)
                                   else go f' (pos + 2) (b :: a :: acc)
                       | _ => Err EEof
                       end
             end) fuel pos []
        | TPrim PVoid _ => Ok (VList [VVoid], pos)                     (* Void._read_0 *)
        | TPrim (PFloat _) _ => wrap (zero_term fuel pos)              (* Packed._read_0: value == 0 (exact bits handled by caller domain) *)
        | TPrim _ _ | TEnum _ _ _ _ => wrap (zero_term fuel pos)
        | TStruct _ _ _ | TUnion _ _ _ => wrap (falsy_term fuel pos)
        | TPtr _ | TArr _ _ => Err EUnsupported                        (* MetaType._read_0: NotImplementedError *)
        end
      | LFixed n => read_count (Z.max 0 n)
      | LExpr toks is_eof =>
        match eval_len ctx toks with
        | Some v => read_count (Z.max 0 v)
        | None => if is_eof then read_eof_mode else Err EExpr
        end
      end
    | TStruct _ fs aligned =>
      match layout_struct c aligned fs with
      | Err er => Err er
      | Ok lay =>
        let start := pos in
        do r <-
          (fix go (fs : list field) (offs : list (option Z)) (pos : Z) (bb : bitbuf)
                  (vals : list (string * value)) (sizes : list (string * Z)) (lctx : list (string * Z))
             : result (list (string * value) * list (string * Z) * Z) :=
             match fs, offs with
             | [], _ => Ok (rev vals, rev sizes, pos)
             | Fld n _ ft fb _ :: r, o :: ro =>
               let fa := (let a := ty_align c ft in if a =? 0 then 1 else a) in
               let off1 := match o with Some fo => start + fo | None => pos end in
               let off2 := if aligned then (match o with None => off1 + pad_to off1 fa | Some _ => off1 end) else off1 in
               match fb with
               | Some nb =>
                 if nb =? 0 then
                   do x <- read_ty fuel ft s off2 lctx;
                   go r ro (snd x) bb_empty ((n, fst x) :: vals) ((n, snd x - off2) :: sizes) (int_ctx n (fst x) lctx)
                 else
                   do x <- bb_read e s off2 bb (bit_storage ft) nb;
                   let '(v, bb', pos') := x in
                   go r ro pos' bb' ((n, VInt v) :: vals) sizes ((n, v) :: lctx)
               | None =>
                 do x <- read_ty fuel ft s off2 lctx;
                 go r ro (snd x) bb_empty ((n, fst x) :: vals) ((n, snd x - off2) :: sizes) (int_ctx n (fst x) lctx)
               end
             | _ :: _, [] => Err EType
             end) fs (l_offs lay) pos bb_empty [] [] [];
        let '(vals, sizes, pos') := r in
        let pos'' := if aligned then pos' + pad_to pos' (l_align lay) else pos' in
        Ok (VStruct vals sizes, pos'')
      end
    | TUnion _ fs aligned =>
      let lay := layout_union c aligned fs in
      (* _read_fields over a buffer `buf` with base offset `base`; returns members and the position after the LAST member *)
      let members := (fix go (fs : list field) (buf : list Z) (base : Z) (last : Z)
                              (vals : list (string * value)) (lctx : list (string * Z))
                        : result (list (string * value) * Z) :=
                        match fs with
                        | [] => Ok (rev vals, last)
                        | Fld n _ ft _ fo :: r =>
                          let st := match fo with Some o => o | None => 0 end in
                          do x <- read_ty fuel ft buf (base + st) lctx;
                          go r buf base (snd x) ((n, fst x) :: vals) (int_ctx n (fst x) lctx)
                        end) in
      match l_size lay with
      | Some sz =>
        let buf := sread s pos sz in           (* stream.read(cls.size): may be short; the members then hit EOF *)
        do m <- members fs buf 0 0 [] [];
        Ok (VUnion buf (fst m), pos + zlen buf)
      | None =>
        do m <- members fs s pos pos [] [];
        let size := snd m - pos in
        do buf <- sread_exact s pos size;          (* the re-read of the union's bytes; EOFError when short *)
        Ok (VUnion buf (fst m), pos + size)
      end
    end.

  Definition read_top (t : ty) (s : list Z) (pos : Z) : result (value * Z) :=
    read_ty (S (S (length s))) t s pos [].
End Reader.

(* the tokens of an Expression object as ExpressionTokenizer delivers them (definition time) *)
Definition toks_of (s : string) : list string := match tokenize s with Some t => t | None => [] end.
Definition rvz_eqb (a b : result (value * Z)) : bool :=
  result_eqb (fun x y => value_eqb (fst x) (fst y) && (snd x =? snd y)) a b.
