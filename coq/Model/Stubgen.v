(* Stubgen.v — the declaration skeleton generate_cstruct_stub emits for the typedef table (tools/stubgen.py):
   per user typedef, in table order: an alias to a built-in class, an alias to a class already emitted, an alias for an
   array/pointer typedef, or a class declaration named after the class (__name__). *)
From VF Require Export Model.Base.
Open Scope string_scope. Open Scope list_scope.

Inductive tdkind := KdEnum | KdStruct | KdArrayOrPointer | KdGeneric.
Record tdef := mkTD { td_key : string; td_cls : string; td_kind : tdkind }.     (* typedefs[key] = class named cls *)
Inductive decl := DAlias (name target : string) | DClass (name : string) (k : tdkind).
Definition decl_name (d : decl) : string := match d with DAlias n _ => n | DClass n _ => n end.

Definition mem_str (s : string) (l : list string) : bool := existsb (String.eqb s) l.

Fixpoint stub_go (builtin : list string) (seen : list string) (tds : list tdef) : list decl :=
  match tds with
  | [] => []
  | t :: r =>
    let d := if mem_str (td_cls t) builtin then DAlias (td_key t) (td_cls t)
             else if mem_str (td_cls t) seen then DAlias (td_key t) (td_cls t)
             else match td_kind t with
                  | KdArrayOrPointer => DAlias (td_key t) (td_cls t)
                  | k => DClass (td_cls t) k
                  end in
    d :: stub_go builtin (td_cls t :: seen) r
  end.
Definition stub_decls (builtin : list string) (tds : list tdef) : list decl := stub_go builtin [] tds.

(* the first typedef of every user class is registered under the class's own name (true for everything the parser produces) *)
Fixpoint first_named_by_class (builtin seen : list string) (tds : list tdef) : bool :=
  match tds with
  | [] => true
  | t :: r =>
    (if mem_str (td_cls t) builtin || mem_str (td_cls t) seen then true
     else match td_kind t with KdArrayOrPointer => true | _ => String.eqb (td_cls t) (td_key t) end)
    && first_named_by_class builtin (td_cls t :: seen) r
  end.
