(* Threads.v — interleaving semantics for threads that each own a local state.
   A thread is a local state and a step function on it (one source line); a schedule is a list of thread indices. *)
From VF Require Export Model.Base.
Open Scope list_scope.

Section Threads.
  Variable L : Type.                       (* per-thread local state: stream position, result dict, bit buffer, work stacks ... *)
  Variable step : L -> L.                  (* one line of the reader; depends only on the thread's own state *)

  Fixpoint update (i : nat) (f : L -> L) (ls : list L) : list L :=
    match ls, i with
    | [], _ => []
    | x :: r, O => f x :: r
    | x :: r, S k => x :: update k f r
    end.
  (* the global machine: the scheduled thread takes one step *)
  Fixpoint run (schedule : list nat) (ls : list L) : list L :=
    match schedule with [] => ls | i :: r => run r (update i step ls) end.
  Fixpoint iter (n : nat) (x : L) : L := match n with O => x | S k => iter k (step x) end.
  Definition count (i : nat) (schedule : list nat) : nat := length (filter (Nat.eqb i) schedule).
End Threads.
