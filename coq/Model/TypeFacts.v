(* TypeFacts.v — vocabulary of the regenerated type table and other live facts (see vf/facts.py). *)
From VF Require Export Model.Base.

Inductive tkind :=
| KPackedInt (signed : bool)      (* Packed with an integer pack char: b B h H i I q Q *)
| KPackedFloat                    (* Packed with e f d *)
| KInt (signed : bool)            (* Int: arbitrary width through int.from_bytes *)
| KChar | KWchar
| KLeb (signed : bool)
| KVoid
| KAlias (target : string)        (* typedefs entry that is a string *)
| KOther.

Record tentry := mkT {
  te_name : string;               (* key in cstruct().typedefs *)
  te_kind : tkind;
  te_size : option Z;             (* cls.size *)
  te_align : option Z;            (* cls.alignment *)
  te_packchar : string;           (* Packed only *)
  te_clsname : string             (* cls.__name__ *)
}.

Inductive endian := LE | BE | ENative | EUnknownEndian.
