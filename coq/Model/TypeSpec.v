(* TypeSpec.v — the expected built-in scalar types (an oracle written from the C / Windows / GNU
   conventions, independent of the code) and the model of cstruct.resolve over the regenerated table. *)
From VF Require Export Model.TypeFacts.
Open Scope string_scope. Open Scope list_scope. Open Scope Z_scope.

Definition kind_eqb (a b : tkind) : bool :=
  match a, b with
  | KPackedInt x, KPackedInt y | KInt x, KInt y | KLeb x, KLeb y => Bool.eqb x y
  | KPackedFloat, KPackedFloat | KChar, KChar | KWchar, KWchar | KVoid, KVoid | KOther, KOther => true
  | KAlias x, KAlias y => String.eqb x y
  | _, _ => false
  end.

Fixpoint find_entry (name : string) (tbl : list tentry) : option tentry :=
  match tbl with [] => None | e :: r => if String.eqb name (te_name e) then Some e else find_entry name r end.

(* cstruct.resolve(name) for a string name: at most `bound` look-ups *)
Fixpoint resolve_go (fuel : nat) (tbl : list tentry) (name : string) : result tentry :=
  match fuel with
  | O => Err EResolve                      (* "Recursion limit exceeded" *)
  | S f => match find_entry name tbl with
           | None => Err EResolve          (* "Unknown type" *)
           | Some e => match te_kind e with KAlias t => resolve_go f tbl t | _ => Ok e end
           end
  end.

(* (name, kind, size, alignment) of the non-alias built-ins *)
Definition base_spec : list (string * tkind * option Z * option Z) :=
  [("int8", KPackedInt true, Some 1, Some 1); ("uint8", KPackedInt false, Some 1, Some 1);
   ("int16", KPackedInt true, Some 2, Some 2); ("uint16", KPackedInt false, Some 2, Some 2);
   ("int32", KPackedInt true, Some 4, Some 4); ("uint32", KPackedInt false, Some 4, Some 4);
   ("int64", KPackedInt true, Some 8, Some 8); ("uint64", KPackedInt false, Some 8, Some 8);
   ("float16", KPackedFloat, Some 2, Some 2); ("float", KPackedFloat, Some 4, Some 4); ("double", KPackedFloat, Some 8, Some 8);
   ("char", KChar, Some 1, Some 1); ("wchar", KWchar, Some 2, Some 2);
   ("int24", KInt true, Some 3, Some 4); ("uint24", KInt false, Some 3, Some 4);
   ("int48", KInt true, Some 6, Some 8); ("uint48", KInt false, Some 6, Some 8);
   ("int128", KInt true, Some 16, Some 16); ("uint128", KInt false, Some 16, Some 16);
   ("uleb128", KLeb false, None, None); ("ileb128", KLeb true, None, None);
   ("void", KVoid, Some 0, Some 0)].

(* struct pack characters: size and signedness they denote in standard mode (<, >, !) *)
Definition packchar_spec : list (string * (Z * bool)) :=
  [("b", (1, true)); ("B", (1, false)); ("h", (2, true)); ("H", (2, false)); ("i", (4, true)); ("I", (4, false));
   ("q", (8, true)); ("Q", (8, false))].

(* alias -> the base type it must resolve to (32-bit long as in LLP64/ILP32, Windows/GNU/IDA names) *)
Definition alias_spec : list (string * string) :=
  [("signed char", "int8"); ("unsigned char", "char"); ("short", "int16"); ("signed short", "int16");
   ("unsigned short", "uint16"); ("int", "int32"); ("signed int", "int32"); ("unsigned int", "uint32");
   ("long", "int32"); ("signed long", "int32"); ("unsigned long", "uint32"); ("long long", "int64");
   ("signed long long", "int64"); ("unsigned long long", "uint64");
   ("BYTE", "uint8"); ("CHAR", "char"); ("SHORT", "int16"); ("WORD", "uint16"); ("DWORD", "uint32");
   ("LONG", "int32"); ("LONG32", "int32"); ("LONG64", "int64"); ("LONGLONG", "int64"); ("QWORD", "uint64");
   ("OWORD", "uint128"); ("WCHAR", "wchar"); ("UCHAR", "uint8"); ("USHORT", "uint16"); ("ULONG", "uint32");
   ("ULONG64", "uint64"); ("ULONGLONG", "uint64");
   ("INT", "int32"); ("INT8", "int8"); ("INT16", "int16"); ("INT32", "int32"); ("INT64", "int64"); ("INT128", "int128");
   ("UINT", "uint32"); ("UINT8", "uint8"); ("UINT16", "uint16"); ("UINT32", "uint32"); ("UINT64", "uint64"); ("UINT128", "uint128");
   ("__int8", "int8"); ("__int16", "int16"); ("__int32", "int32"); ("__int64", "int64"); ("__int128", "int128");
   ("unsigned __int8", "uint8"); ("unsigned __int16", "uint16"); ("unsigned __int32", "uint32");
   ("unsigned __int64", "uint64"); ("unsigned __int128", "uint128"); ("wchar_t", "wchar");
   ("int8_t", "int8"); ("int16_t", "int16"); ("int32_t", "int32"); ("int64_t", "int64"); ("int128_t", "int128");
   ("uint8_t", "uint8"); ("uint16_t", "uint16"); ("uint32_t", "uint32"); ("uint64_t", "uint64"); ("uint128_t", "uint128");
   ("_BYTE", "uint8"); ("_WORD", "uint16"); ("_DWORD", "uint32"); ("_QWORD", "uint64"); ("_OWORD", "uint128");
   ("u1", "uint8"); ("u2", "uint16"); ("u4", "uint32"); ("u8", "uint64"); ("u16", "uint128");
   ("__u8", "uint8"); ("__u16", "uint16"); ("__u32", "uint32"); ("__u64", "uint64");
   ("uchar", "uint8"); ("ushort", "uint16"); ("uint", "uint32"); ("ulong", "uint32")].

Definition opt_eqb (a b : option Z) : bool := option_eqb Z.eqb a b.

Definition base_ok (tbl : list tentry) (s : string * tkind * option Z * option Z) : bool :=
  let '(n, k, sz, al) := s in
  match find_entry n tbl with
  | Some e => kind_eqb (te_kind e) k && opt_eqb (te_size e) sz && opt_eqb (te_align e) al
  | None => false
  end.
Definition packchar_ok (e : tentry) : bool :=
  match te_kind e with
  | KPackedInt sg => match lookup (te_packchar e) packchar_spec with
                     | Some (sz, sg') => Bool.eqb sg sg' && opt_eqb (te_size e) (Some sz)
                     | None => false
                     end
  | KPackedFloat => (String.eqb (te_packchar e) "e" && opt_eqb (te_size e) (Some 2))
                    || (String.eqb (te_packchar e) "f" && opt_eqb (te_size e) (Some 4))
                    || (String.eqb (te_packchar e) "d" && opt_eqb (te_size e) (Some 8))
  | _ => true
  end.
Definition alias_ok (bound : nat) (tbl : list tentry) (s : string * string) : bool :=
  let '(a, b) := s in
  match resolve_go bound tbl a with Ok e => String.eqb (te_name e) b | Err _ => false end.
(* every entry of the live table is one the spec knows (nothing unaccounted for) *)
Definition known_name (n : string) : bool :=
  existsb (fun s => String.eqb n (fst (fst (fst s)))) base_spec || existsb (fun s => String.eqb n (fst s)) alias_spec.

Definition check_type_table (bound : nat) (tbl : list tentry) : bool :=
  forallb (base_ok tbl) base_spec && forallb packchar_ok tbl && forallb (alias_ok bound tbl) alias_spec
  && forallb (fun e => known_name (te_name e)) tbl.

(* class __name__ equals the key for every non-alias entry (stub hints print __name__) *)
Definition class_names_match (tbl : list tentry) : bool :=
  forallb (fun e => match te_kind e with KAlias _ => true | _ => String.eqb (te_name e) (te_clsname e) end) tbl.
