(* Types.v — the type universe of the model, mirroring the classes the library builds:
     TPrim   built-in scalar classes (with the class's `alignment` attribute)
     TEnum   Enum/Flag over an integer base type
     TPtr    Pointer (size/alignment from cs.pointer)
     TArr    Array / CharArray / WcharArray (num_entries: int | Expression | None)
     TStruct / TUnion with their __fields__ and __align__
   and the per-cstruct configuration.  Definitions only. *)
From VF Require Export Model.Prim.
Open Scope string_scope. Open Scope list_scope. Open Scope Z_scope.

Inductive alen :=
| LFixed (n : Z)                          (* x[3]: the count expression evaluated at definition time *)
| LExpr (toks : list string) (is_eof_text : bool)   (* x[expr]: an Expression object (tokens as tokenized); x[EOF] *)
| LNull.                                  (* x[] *)

Inductive ty :=
| TPrim (p : prim) (al : Z)
| TEnum (base : prim) (al : Z) (flag : bool) (members : list (string * Z))
| TPtr (target : ty)
| TArr (elem : ty) (len : alen)
| TStruct (name : string) (fs : list field) (aligned : bool)
| TUnion (name : string) (fs : list field) (aligned : bool)
with field :=
| Fld (name : string)                     (* field._name: the field's name, or the type's name when anonymous *)
      (anon : bool)                       (* field.name is None *)
      (t : ty) (bits : option Z)
      (given_off : option Z).             (* offset passed to add_field / Field(); the parser never sets one *)

Definition f_name (f : field) := match f with Fld n _ _ _ _ => n end.
Definition f_anon (f : field) := match f with Fld _ a _ _ _ => a end.
Definition f_ty (f : field) := match f with Fld _ _ t _ _ => t end.
Definition f_bits (f : field) := match f with Fld _ _ _ b _ => b end.
Definition f_off (f : field) := match f with Fld _ _ _ _ o => o end.

Record cfg := mkCfg {
  c_endian : string;                      (* cs.endian *)
  c_ptr : prim;                           (* cs.pointer *)
  c_ptr_al : Z;
  c_consts : list (string * Z);           (* cs.consts (integer-valued ones) *)
  c_sizeof : list (string * Z)            (* len(cs.resolve(name)) for the names used in sizeof() *)
}.
Definition with_endian (c : cfg) (e : string) : cfg := mkCfg e (c_ptr c) (c_ptr_al c) (c_consts c) (c_sizeof c).
