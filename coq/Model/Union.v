(* Union.v — Union.__setattr__ / _rebuild / _update and UnionProxy.__setattr__ (types/structure.py):
   assigning a member rewrites that member's bytes inside the union's buffer and re-reads every member from the buffer. *)
From VF Require Export Model.Writer.
Open Scope string_scope. Open Scope list_scope. Open Scope Z_scope.

(* io.BytesIO(buf); seek(off); write(bs); getvalue() : overwrite in place, zero-fill a gap, extend at the end *)
Definition overwrite (buf : list Z) (off : Z) (bs : list Z) : list Z :=
  let o := Z.to_nat off in
  let head := firstn o buf ++ repeat 0 (o - length buf) in
  head ++ bs ++ skipn (o + length bs) buf.

Fixpoint find_field (n : string) (fs : list field) : option field :=
  match fs with [] => None | f :: r => if String.eqb n (f_name f) then Some f else find_field n r end.

Fixpoint set_field (n : string) (v : value) (fs : list (string * value)) : list (string * value) :=
  match fs with
  | [] => []
  | (k, x) :: r => if String.eqb n k then (k, v) :: r else (k, x) :: set_field n v r
  end.

Section Union.
  Variable c : cfg.

  (* _update(): every member re-read from the buffer *)
  Definition union_members (fs : list field) (buf : list Z) : result (list (string * value)) :=
    (fix go (fs : list field) (vals : list (string * value)) (lctx : list (string * Z)) : result (list (string * value)) :=
       match fs with
       | [] => Ok (rev vals)
       | Fld n _ ft _ fo :: r =>
         do x <- read_top c ft buf (match fo with Some o => o | None => 0 end);
         go r ((n, fst x) :: vals) (int_ctx n (fst x) lctx)
       end) fs [] [].

  (* u.name = v  (name is a raw member of the union: lookup[attr]) *)
  Definition union_assign (fs : list field) (aligned : bool) (u : value) (name : string) (v : value) : result value :=
    match u with
    | VUnion buf _ =>
      match l_size (layout_union c aligned fs) with
      | None => Err EUnsupported                           (* "Modifying a dynamic union is not yet supported" *)
      | Some sz =>
        match find_field name fs with
        | None => Err EKey                                 (* self.__class__.lookup[attr] *)
        | Some f =>
          let off := match f_off f with Some o => o | None => 0 end in
          let cur := match buf with [] => repeat 0 (Z.to_nat sz) | _ => buf end in
          do bs <- write_ty c (f_ty f) v off;
          let buf' := overwrite cur off bs in
          do ms <- union_members fs buf';
          Ok (VUnion buf' ms)
        end
      end
    | _ => Err EType
    end.

  (* u.member.field = v through the UnionProxy: mutate the nested structure value, then rebuild that member *)
  Definition union_assign_nested (fs : list field) (aligned : bool) (u : value) (member fieldname : string) (v : value) : result value :=
    match u with
    | VUnion _ ms =>
      match lookup_field member ms with
      | Some (VStruct vals sizes) => union_assign fs aligned u member (VStruct (set_field fieldname v vals) sizes)
      | _ => Err EKey
      end
    | _ => Err EType
    end.
End Union.

Inductive uop := UAssign (name : string) (v : value) | UAssignNested (member field : string) (v : value).
Fixpoint union_run (c : cfg) (fs : list field) (aligned : bool) (u : value) (ops : list uop) : list (result (value * list Z)) :=
  match ops with
  | [] => []
  | o :: r =>
    let res := match o with
               | UAssign n v => union_assign c fs aligned u n v
               | UAssignNested m f v => union_assign_nested c fs aligned u m f v
               end in
    match res with
    | Ok u' => (do d <- dumps c (TUnion "" fs aligned) u'; Ok (u', d)) :: union_run c fs aligned u' r
    | Err e => [Err e]
    end
  end.
Definition ures_eqb (a b : result (value * list Z)) : bool :=
  result_eqb (fun x y => value_eqb (fst x) (fst y) && list_eqb Z.eqb (snd x) (snd y)) a b.
