(* Value.v — the value universe of the model (what parsing returns, what dumping takes) and its
   decidable equality, used by the correspondence shards. *)
From VF Require Export Model.Base.
Open Scope list_scope. Open Scope Z_scope.

Inductive value :=
| VInt (z : Z)                               (* integers, enum/flag values (the underlying integer), pointers' addresses *)
| VFloat (bits : Z)                          (* a float, as the bit pattern of its own format *)
| VBytes (bs : list Z)                       (* char / char[] *)
| VWstr (cps : list Z)                       (* wchar / wchar[] : code points *)
| VVoid
| VList (vs : list value)                    (* arrays *)
| VStruct (fs : list (string * value)) (sizes : list (string * Z))   (* structures: ordered fields; recorded sizes *)
| VUnion (buf : list Z) (fs : list (string * value)).   (* unions: the byte buffer and the member views *)

Fixpoint value_eqb (a b : value) {struct a} : bool :=
  match a, b with
  | VInt x, VInt y => x =? y
  | VFloat x, VFloat y => x =? y
  | VBytes x, VBytes y => list_eqb Z.eqb x y
  | VWstr x, VWstr y => list_eqb Z.eqb x y
  | VVoid, VVoid => true
  | VList x, VList y =>
    (fix go (l1 l2 : list value) : bool :=
       match l1, l2 with
       | [], [] => true
       | u :: r1, v :: r2 => value_eqb u v && go r1 r2
       | _, _ => false
       end) x y
  | VStruct x sx, VStruct y sy =>
    (* recorded sizes are compared for the fields that occupy bytes (zero-size entries may be absent) *)
    list_eqb (fun a b => String.eqb (fst a) (fst b) && (snd a =? snd b))
             (filter (fun p => negb (snd p =? 0)) sx) (filter (fun p => negb (snd p =? 0)) sy) &&
    (fix go (l1 l2 : list (string * value)) : bool :=
       match l1, l2 with
       | [], [] => true
       | (n1, u) :: r1, (n2, v) :: r2 => String.eqb n1 n2 && value_eqb u v && go r1 r2
       | _, _ => false
       end) x y
  | VUnion bx x, VUnion by_ y =>
    list_eqb Z.eqb bx by_ &&
    (fix go (l1 l2 : list (string * value)) : bool :=
       match l1, l2 with
       | [], [] => true
       | (n1, u) :: r1, (n2, v) :: r2 => String.eqb n1 n2 && value_eqb u v && go r1 r2
       | _, _ => false
       end) x y
  | _, _ => false
  end.
