(* Writer.v — the writers and default values:
     BitBuffer.write/flush                          -> bbw_write / bbw_flush
     StructureMetaType._write, UnionMetaType._write -> write_ty
     BaseArray._write, CharArray/WcharArray._write, MetaType._write_array/_write_0,
     Packed._write_array, EnumMetaType._write/_write_array/_write_0, Pointer._write
     __default__ of every type                      -> default_value
   A writer returns the bytes it appends, given the absolute position at which it starts
   (alignment padding depends on it).  dumps() starts at position 0. *)
From VF Require Export Model.Reader.
Open Scope string_scope. Open Scope list_scope. Open Scope Z_scope.

Definition zeros (n : Z) : list Z := repeat 0 (Z.to_nat n).      (* b"\x00" * n  (empty for n <= 0) *)

Record wbuf := mkWB { wb_type : option (prim * Z); wb_buf : Z; wb_rem : Z }.
Definition wb_empty : wbuf := mkWB None 0 0.

Fixpoint lookup_field (n : string) (fs : list (string * value)) : option value :=
  match fs with [] => None | (k, v) :: r => if String.eqb n k then Some v else lookup_field n r end.

Section Writer.
  Variable c : cfg.
  Let e := c_endian c.

  (* type._write(stream, buffer) of a flushed unit: an int through the storage type *)
  Definition unit_write (p : prim) (u : Z) : result (list Z) :=
    match p with
    | PChar => if (0 <=? u) && (u <? 256) then Ok [u] else if (0 <=? u) && (u <? 1114112) then Err EDecode else Err EValue
                                                   (* chr(u).encode("latin-1") *)
    | _ => prim_write e p (VInt u)
    end.
  (* BitBuffer.flush: the unit, accumulated as an unsigned number, is converted to two's complement for a
     signed storage type when its top bit is set, then written through the storage type *)
  Definition flush_value (p : prim) (u : Z) : Z :=
    match p with
    | PInt n true _ => let bits := 8 * Z.of_nat n in if Z.shiftr u (bits - 1) =? 1 then u - 2 ^ bits else u
    | _ => u
    end.
  Definition wb_flush (wb : wbuf) : result (list Z) :=
    match wb_type wb with
    | Some (p, _) => unit_write p (flush_value p (wb_buf wb))
    | None => Ok []
    end.
  (* BitBuffer.write: returns bytes flushed by this call and the new buffer *)
  Definition wb_write (wb : wbuf) (storage : option (prim * Z)) (data bits : Z) : result (list Z * wbuf) :=
    let le := String.eqb e "<" in
    do st <-
      (if (wb_rem wb =? 0) || negb (storage_eqb (wb_type wb) storage) then
         do out <- (match wb_type wb with Some _ => wb_flush wb | None => Ok [] end);
         match storage with
         | Some (p, _) => match prim_size_z p with
                          | Some sz => Ok (out, mkWB storage 0 (sz * 8))
                          | None => Err EValue
                          end
         | None => Err EType
         end
       else Ok ([], wb));
    let '(out, b) := st in
    match (match wb_type b with Some (p, _) => prim_size_z p | None => None end) with
    | None => Err EValue
    | Some sz =>
      let sh := if le then sz * 8 - wb_rem b else wb_rem b - bits in
      if (data <? 0) || negb (Z.shiftr data bits =? 0) then Err ERange      (* a value that does not fit the bit field: OverflowError *)
      else if sh <? 0 then Err EValue                                    (* negative shift count *)
      else
        let buf := Z.lor (wb_buf b) (Z.shiftl data sh) in
        let rem := wb_rem b - bits in
        if rem =? 0 then
          do fl <- wb_flush (mkWB (wb_type b) buf rem); Ok (out ++ fl, wb_empty)
        else Ok (out, mkWB (wb_type b) buf rem)
    end.

  (* ---------- defaults ---------- *)
  Fixpoint default_value (t : ty) : value :=
    match t with
    | TPrim (PInt _ _ _) _ => VInt 0
    | TPrim (PFloat _) _ => VFloat 0
    | TPrim PChar _ => VBytes [0]
    | TPrim PWchar _ => VWstr [0]
    | TPrim (PLeb _) _ => VInt 0
    | TPrim PVoid _ => VVoid
    | TEnum _ _ _ _ => VInt 0
    | TPtr _ => VInt 0
    | TArr el len =>
      let n := match len with LFixed k => Z.to_nat k | _ => O end in
      match el with
      | TPrim PChar _ => VBytes (repeat 0 n)
      | TPrim PWchar _ => VWstr (repeat 0 n)
      | _ => VList (repeat (default_value el) n)
      end
    | TStruct _ fs _ =>
      VStruct ((fix go (fs : list field) : list (string * value) :=
                  match fs with [] => [] | Fld n _ ft _ _ :: r => (n, default_value ft) :: go r end) fs) []
    | TUnion _ fs _ =>
      VUnion [] ((fix go (fs : list field) : list (string * value) :=
                    match fs with [] => [] | Fld n _ ft _ _ :: r => (n, default_value ft) :: go r end) fs)
    end.

  Definition enum_int (v : value) : result Z := match v with VInt z => Ok z | _ => Err EType end.

  (* Packed._write_array: struct.pack of all items at once (all-or-nothing, like a sequence of single writes) *)
  Fixpoint prim_write_all (p : prim) (vs : list value) : result (list Z) :=
    match vs with
    | [] => Ok []
    | v :: r => do a <- prim_write e p v; do b <- prim_write_all p r; Ok (a ++ b)
    end.

  (* ---------- loops, as combinators over an element writer ---------- *)
  (* an element writer: the value and the absolute position at which it starts -> the bytes it appends *)
  Definition wfn := value -> Z -> result (list Z).

  (* sum(cls._write(stream, entry) for entry in array) *)
  Fixpoint wseq (wr : wfn) (vs : list value) (pos : Z) : result (list Z) :=
    match vs with
    | [] => Ok []
    | x :: r => do a <- wr x pos; do b <- wseq wr r (pos + zlen a); Ok (a ++ b)
    end.
  (* cls.type._write_array by element class: bulk pack for packed scalars, else element by element *)
  Definition write_list (el : ty) (wr : wfn) (vs : list value) (pos : Z) : result (list Z) :=
    match el with
    | TPrim (PInt _ _ true as p) _ | TPrim (PFloat _ as p) _ => prim_write_all p vs
    | TEnum (PInt _ _ true as p) _ _ _ => prim_write_all p vs
    | _ => wseq wr vs pos
    end.
  (* BaseArray._write, CharArray._write, WcharArray._write *)
  Definition write_array (el : ty) (wr : wfn) (len : alen) (v : value) (pos : Z) : result (list Z) :=
    match el, v with
    | TPrim PChar _, VBytes bs =>
      (* CharArray._write: no size check; null-terminated appends \x00 *)
      match len with LNull => Ok (bs ++ [0]) | _ => Ok bs end
    | TPrim PWchar _, VWstr cps =>
      match len with LNull => utf16_encode (prim_endian PWchar e) (cps ++ [0]) | _ => utf16_encode (prim_endian PWchar e) cps end
    | TPrim PChar _, _ | TPrim PWchar _, _ => Err EType
    | _, VList vs =>
      match len with
      | LNull =>
        (* _write_0: [*array, default] through _write_array *)
        write_list el wr (vs ++ [default_value el]) pos
      | LFixed n =>
        (* `not cls.dynamic and num_entries != len(data)`: dynamic when the element type is dynamic *)
        match ty_size c el with
        | Some _ => if n =? Z.of_nat (length vs) then write_list el wr vs pos else Err EArraySize
        | None => write_list el wr vs pos
        end
      | LExpr _ _ => write_list el wr vs pos
      end
    | _, _ => Err EType
    end.

  (* what the structure write loop needs to know about a field *)
  Record wmeta := mkWM { wm_name : string; wm_bits : option Z; wm_storage : option (prim * Z); wm_align : Z;
                         wm_isprim : bool;            (* the field type is a scalar class (is_bitbuffer_boundary compares classes) *)
                         wm_default : value }.
  (* StructureMetaType._write's loop over the fields (each with its writer), with the offsets the layout computed *)
  Fixpoint wstruct_loop (aligned : bool) (start : Z) (vals : list (string * value)) (items : list (wmeta * wfn)) (offs : list (option Z))
           (out : list Z) (wb : wbuf) {struct items} : result (list Z * wbuf) :=
    match items, offs with
    | [], _ => Ok (out, wb)
    | (m, wr) :: r, o :: ro =>
      let fa := wm_align m in
      let isbits := match wm_bits m with Some nb => negb (nb =? 0) | None => false end in
      let storage := wm_storage m in
      (* flush when leaving a bit unit or moving to another storage type *)
      do fl <- (match wb_type wb with
                | Some _ => if negb isbits || negb (storage_eqb (wb_type wb) storage)
                            then do x <- wb_flush wb; Ok (x, wb_empty) else Ok ([], wb)
                | None => Ok ([], wb)
                end);
      let '(flushed, wb1) := fl in
      let out1 := out ++ flushed in
      let cur := start + zlen out1 in
      let pad1 := match o with Some fo => if cur <? start + fo then zeros (start + fo - cur) else [] | None => [] end in
      let cur1 := cur + zlen pad1 in
      let pad2 :=
        match o with
        | None =>
          if aligned then
            (* is_bitbuffer_boundary compares bb._type with field_type (the enum class itself for enum fields) *)
            let same_as_field := if wm_isprim m then storage_eqb (wb_type wb1) storage else false in
            match wb_type wb1 with
            | None => zeros (pad_to cur1 fa)
            | Some _ => if (wb_rem wb1 =? 0) || negb same_as_field then zeros (pad_to cur1 fa) else []
            end
          else []
        | Some _ => []
        end in
      let out2 := out1 ++ pad1 ++ pad2 in
      let fv := match lookup_field (wm_name m) vals with Some x => x | None => wm_default m end in
      if isbits then
        do z <- enum_int fv;
        do w <- wb_write wb1 storage z (match wm_bits m with Some nb => nb | None => 0 end);
        wstruct_loop aligned start vals r ro (out2 ++ fst w) (snd w)
      else
        do bs <- wr fv (start + zlen out2);
        wstruct_loop aligned start vals r ro (out2 ++ bs) wb1
    | _ :: _, [] => Err EType
    end.

  (* UnionMetaType._write: which member is written. Fields sorted by size, largest first (stable); anonymous structures are
     skipped in the first pass and the LAST one met in sorted order (the smallest; ties: last in order) is the fallback *)
  Fixpoint union_pick (fs : list field) (best : option (field * Z)) (anon : option field) : option (field * Z) * option field :=
    match fs with
    | [] => (best, anon)
    | (Fld _ a ft _ _ as f) :: r =>
      let s := match ty_size c ft with Some k => k | None => 0 end in
      let is_anon_struct := a && match ft with TStruct _ _ _ | TUnion _ _ _ => true | _ => false end in
      union_pick r (if is_anon_struct then best
                    else match best with Some (_, bs) => if bs <? s then Some (f, s) else best | None => Some (f, s) end)
                   (if is_anon_struct
                    then match anon with
                         | Some af =>
                           let asz := match ty_size c (f_ty af) with Some k => k | None => 0 end in
                           if asz <? s then anon else Some f
                         | None => Some f
                         end
                    else anon)
    end.
  (* the writer of the first member called n *)
  Fixpoint writer_of (n : string) (items : list (string * wfn)) : wfn :=
    match items with
    | [] => fun _ _ => Err EType
    | (n0, wr) :: r => if String.eqb n0 n then wr else writer_of n r
    end.

  Definition wmeta_of (f : field) : wmeta :=
    mkWM (f_name f) (f_bits f) (bit_storage (f_ty f)) (let a := ty_align c (f_ty f) in if a =? 0 then 1 else a)
         (match f_ty f with TPrim _ _ => true | _ => false end) (default_value (f_ty f)).

  Fixpoint write_ty (t : ty) (v : value) (pos : Z) {struct t} : result (list Z) :=
    match t with
    | TPrim p _ => prim_write e p v
    | TEnum b _ _ _ => prim_write e b v                     (* cls.type._write(stream, data.value) *)
    | TPtr _ => prim_write e (c_ptr c) v
    | TArr el len => write_array el (write_ty el) len v pos
    | TStruct _ fs aligned =>
      match layout_struct c aligned fs, v with
      | Err er, _ => Err er
      | Ok lay, VStruct vals _ =>
        do r <- wstruct_loop aligned pos vals (map (fun f => (wmeta_of f, write_ty (f_ty f))) fs) (l_offs lay) [] wb_empty;
        let '(out, wb) := r in
        do fl <- wb_flush wb;
        let out' := out ++ fl in
        if aligned then Ok (out' ++ zeros (pad_to (pos + zlen out') (l_align lay))) else Ok out'
      | Ok _, _ => Err EType
      end
    | TUnion _ fs aligned =>
      let lay := layout_union c aligned fs in
      let items := map (fun f => (f_name f, write_ty (f_ty f))) fs in
      match l_size lay, v with
      | None, _ => Err EUnsupported                          (* "Writing dynamic unions is not yet supported" *)
      | Some sz, VUnion _ vals =>
        let '(best, anon) := union_pick fs None None in
        do first <-
          (match best with
           | Some (Fld n _ _ _ _, _) =>
             match lookup_field n vals with
             | Some x => writer_of n items x pos
             | None => Err EKey                              (* getattr(data, name) *)
             end
           | None => Ok []
           end);
        do body <-
          (match first, anon with
           | [], Some (Fld n _ _ _ _) =>
             match lookup_field n vals with
             | Some x => writer_of n items x pos
             | None => Err EKey
             end
           | _, _ => Ok first
           end);
        Ok (body ++ zeros (sz - zlen body))
      | Some _, _ => Err EType
      end
    end.

  Definition dumps (t : ty) (v : value) : result (list Z) := write_ty t v 0.
End Writer.

(* the class attributes a structure/union definition ends up with: size, alignment, field offsets *)
Definition type_layout (c : cfg) (t : ty) : result lay :=
  match t with
  | TStruct _ fs al => layout_struct c al fs
  | TUnion _ fs al => Ok (layout_union c al fs)
  | _ => Ok (mkLay [] (ty_size c t) (ty_align c t))
  end.
Definition lay_eqb (a b : result lay) : bool :=
  result_eqb (fun x y => list_eqb (option_eqb Z.eqb) (l_offs x) (l_offs y) && option_eqb Z.eqb (l_size x) (l_size y)
                         && (l_align x =? l_align y)) a b.
(* comparison used for the COMPILED reader: which error is raised first on malformed input may differ between the readers *)
Definition rvz_eqb_coarse (a b : result (value * Z)) : bool :=
  result_eqb_coarse (fun x y => value_eqb (fst x) (fst y) && (snd x =? snd y)) a b.
(* The compiled reader reads a block of fields at once: on an input too short for the structure it may raise EOFError where
   the interpreted reader still returns a value whose extent reaches beyond the input (zero-length members / padding past the end).
   C03 allows that; everything else must agree. *)
Definition rvz_eqb_compiled (len : Z) (model impl : result (value * Z)) : bool :=
  match impl, model with
  | Err EEof, Ok (_, p) => len <? p
  | _, _ => rvz_eqb_coarse model impl
  end.
