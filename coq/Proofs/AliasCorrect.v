(* AliasCorrect.v — cstruct.resolve over the typedef table; the comment stripper on plain text and block comments. *)
From Coq Require Import Lia.
From VF Require Import Model.TypeSpec Model.Comments.
Open Scope string_scope. Open Scope list_scope. Open Scope Z_scope.

Definition is_alias (e : tentry) : bool := match te_kind e with KAlias _ => true | _ => false end.

(* resolve never loops (it is a total function of a bounded loop) and can only fail with a resolve error *)
Lemma resolve_err_is_resolve f : forall tbl n x, resolve_go f tbl n = Err x -> x = EResolve.
Proof.
  induction f as [|f IH]; intros tbl n x H; cbn [resolve_go] in H; [congruence|].
  destruct (find_entry n tbl) as [e|]; [|congruence]. destruct (te_kind e); try discriminate. eauto.
Qed.
(* what it returns is an entry of the table that is not itself an alias *)
Lemma find_entry_in n tbl e : find_entry n tbl = Some e -> In e tbl /\ te_name e = n.
Proof.
  induction tbl as [|x r IH]; cbn [find_entry]; [discriminate|]. destruct (String.eqb_spec n (te_name x)) as [->|].
  - intros H. injection H as <-. split; [now left|reflexivity].
  - intros H. destruct (IH H). split; [now right|assumption].
Qed.
Lemma resolve_ok_entry f : forall tbl n e, resolve_go f tbl n = Ok e -> In e tbl /\ is_alias e = false.
Proof.
  induction f as [|f IH]; intros tbl n e H; cbn [resolve_go] in H; [discriminate|].
  destruct (find_entry n tbl) as [x|] eqn:E; [|discriminate]. unfold is_alias.
  destruct (te_kind x) eqn:K; try (injection H as <-; split; [apply (find_entry_in _ _ _ E)|now rewrite K]).
  eauto.
Qed.
(* an alias resolves to the very entry its target resolves to: every alias of a type names the same type *)
Lemma resolve_alias_step f tbl a x t : find_entry a tbl = Some x -> te_kind x = KAlias t ->
  resolve_go (S f) tbl a = resolve_go f tbl t.
Proof. intros H K. cbn [resolve_go]. now rewrite H, K. Qed.
Lemma resolve_unknown f tbl n : find_entry n tbl = None -> resolve_go (S f) tbl n = Err EResolve.
Proof. intros H. cbn [resolve_go]. now rewrite H. Qed.
(* a cycle of aliases is a resolve error for every bound: no divergence, no foreign binding *)
Lemma resolve_cycle2 tbl a b xa xb : find_entry a tbl = Some xa -> te_kind xa = KAlias b -> find_entry b tbl = Some xb -> te_kind xb = KAlias a ->
  forall f, resolve_go f tbl a = Err EResolve /\ resolve_go f tbl b = Err EResolve.
Proof.
  intros Ha Ka Hb Kb. induction f as [|f [IH1 IH2]]; [split; reflexivity|].
  split; cbn [resolve_go]; [rewrite Ha, Ka|rewrite Hb, Kb]; assumption.
Qed.

(* ---- comment stripper ---- *)
Definition plain (c : Z) : bool := negb ((c =? cDQ) || (c =? cSQ) || (c =? cSL)).

(* text without quotes and slashes is copied unchanged *)
Lemma strip_go_plain l : forallb plain l = true -> forall f r, strip_go (length l + f) (l ++ r) = l ++ strip_go f r.
Proof.
  induction l as [|c l IH]; intros H f r; [reflexivity|].
  cbn [forallb] in H. apply andb_prop in H as [Hc Hl]. unfold plain in Hc.
  cbn [length plus app strip_go].
  destruct (c =? cDQ) eqn:E1, (c =? cSQ) eqn:E2, (c =? cSL) eqn:E3; try discriminate. cbn [orb]. now rewrite IH.
Qed.

Fixpoint no_close (l : list Z) : bool :=
  match l with
  | a :: ((b :: _) as t) => negb ((a =? cST) && (b =? cSL)) && no_close t
  | _ => true
  end.
Lemma until_close_cons a b t : until_close (a :: b :: t) =
  if (a =? cST) && (b =? cSL) then Some ([], t) else option_map (fun p => (a :: fst p, snd p)) (until_close (b :: t)).
Proof. reflexivity. Qed.
Lemma until_close_body body rest : no_close (body ++ [cST]) = true -> until_close (body ++ cST :: cSL :: rest) = Some (body, rest).
Proof.
  induction body as [|a body IH]; intros H; [reflexivity|].
  cbn [app]. destruct (body ++ cST :: cSL :: rest) as [|b t] eqn:E; [destruct body; discriminate|].
  assert (Hb : (a =? cST) && (b =? cSL) = false /\ no_close (body ++ [cST]) = true).
  { cbn [app no_close] in H. destruct (body ++ [cST]) as [|b' t'] eqn:E'; [destruct body; discriminate|].
    apply andb_prop in H as [H1 H2]. split; [|exact H2].
    assert (b = b') by (destruct body; cbn in E, E'; congruence). subst b'. now destruct ((a =? cST) && (b =? cSL)). }
  destruct Hb as [Hb1 Hb2]. rewrite until_close_cons, Hb1. specialize (IH Hb2). cbn [app] in IH. rewrite IH. reflexivity.
Qed.
(* a block comment is replaced by exactly the newlines it contains, by one blank when it contains none *)
Lemma strip_block_comment body rest f : no_close (body ++ [cST]) = true ->
  strip_go (S f) (cSL :: cST :: body ++ cST :: cSL :: rest) = comment_repl body ++ strip_go f rest.
Proof.
  intros H. cbn [strip_go]. change (cSL =? cDQ) with false. change (cSL =? cSQ) with false. change (cSL =? cSL) with true.
  change (cST =? cST) with true. cbn [orb]. now rewrite until_close_body.
Qed.

(* a line comment is replaced by one blank and ends in front of the first CARRIAGE RETURN or line feed: texts with CRLF line ends lose their comments too *)
Definition no_eol (l : list Z) : bool := forallb (fun c => negb ((c =? cNL) || (c =? cCR))) l.
Lemma line_rest_body body rest : no_eol body = true -> (match rest with [] => True | e :: _ => (e =? cNL) || (e =? cCR) = true end) -> line_rest (body ++ rest) = (body, rest).
Proof.
  induction body as [|c body IH]; intros H Hr.
  - cbn [app]. destruct rest as [|e r]; [reflexivity|]. cbn [line_rest]. now rewrite Hr.
  - cbn [no_eol forallb] in H. apply andb_prop in H as [Hc Hb]. cbn [app line_rest]. apply Bool.negb_true_iff in Hc. rewrite Hc. now rewrite (IH Hb Hr).
Qed.
Lemma strip_line_comment body rest f : no_eol body = true -> (match rest with [] => True | e :: _ => (e =? cNL) || (e =? cCR) = true end) ->
  strip_go (S f) (cSL :: cSL :: body ++ rest) = 32 :: strip_go f rest.
Proof.
  intros H Hr. cbn [strip_go]. change (cSL =? cDQ) with false. change (cSL =? cSQ) with false. change (cSL =? cSL) with true.
  change (cSL =? cST) with false. cbn [orb]. now rewrite (line_rest_body body rest H Hr).
Qed.
