(* AlignedRoundTrip.v — value round trip (C01) in ALIGNED mode: for aligned structures of plain fields laid out by the C rule (power-of-two
   alignments), dumped at an aligned position and parsed at an aligned position, parsing the dump gives the value back: the padding the writer
   inserts between members and at the tail is exactly what the reader skips. *)
From Coq Require Import Lia Znumtheory.
From VF Require Import Model.Writer Proofs.TyInd Proofs.CodecCorrect Proofs.LayoutCorrect Proofs.ReaderProps Proofs.ArrayProps Proofs.SizeProps Proofs.AlignedSize Proofs.RoundTrip Proofs.ValueRoundTrip.
Open Scope string_scope. Open Scope list_scope. Open Scope Z_scope.

Lemma zlen_zeros n : zlen (zeros n) = Z.max 0 n.
Proof. unfold zlen, zeros. rewrite repeat_length. lia. Qed.
Lemma zlen_app' (a b : list Z) : zlen (a ++ b) = zlen a + zlen b.
Proof. unfold zlen. rewrite app_length. lia. Qed.

(* round trip of a reader/writer pair when both the output position and the input position are multiples of a *)
Definition rt_al (rd : rfn) (wr : wfn) (T : value -> Prop) (a : Z) : Prop :=
  forall v wpos bs, T v -> (a | wpos) -> wr v wpos = Ok bs ->
    forall pre rest ctx, (a | zlen pre) -> exists v', rd (pre ++ bs ++ rest) (zlen pre) ctx = Ok (v', zlen pre + zlen bs) /\ strip v' = strip v.
Lemma rt_rt_al rd wr T a : rt rd wr T -> rt_al rd wr T a.
Proof. intros H v wpos bs Hv _ Hw pre rest ctx _. exact (H v wpos bs Hv Hw pre rest ctx). Qed.

(* what is written for a typed value has the declared size *)
Lemma sized_from_rt rd wr T a n : rt_al rd wr T a -> consumes_at rd n a -> forall v wpos bs, T v -> (a | wpos) -> wr v wpos = Ok bs -> zlen bs = n.
Proof.
  intros Hrt Hc v wpos bs Hv Ha Hw. destruct (Hrt v wpos bs Hv Ha Hw [] [] [] (Z.divide_0_r a)) as [v' [R _]].
  apply (Hc _ _ _ _ _ (Z.divide_0_r a)) in R. unfold zlen in *. cbn [length] in R. lia.
Qed.

Lemma seq_n_rt_al rd wr T a n : rt_al rd wr T a -> consumes_at rd n a -> (a | n) -> forall vs wpos bs, Forall T vs -> (a | wpos) -> wseq wr vs wpos = Ok bs ->
  forall pre rest ctx, (a | zlen pre) ->
    exists vs', seq_n rd (length vs) (pre ++ bs ++ rest) (zlen pre) ctx = Ok (vs', zlen pre + zlen bs) /\ map strip vs' = map strip vs.
Proof.
  intros Hrt Hc Hn. induction vs as [|v vs IH]; intros wpos bs HT Ha Hw pre rest ctx Hp; cbn [wseq] in Hw.
  - injection Hw as <-. exists []. cbn [length seq_n]. split; [|reflexivity]. f_equal. f_equal. unfold zlen. cbn [length]. lia.
  - inversion HT as [|? ? Hv HTs]; subst. destruct (wr v wpos) as [x|] eqn:Ea; [|discriminate]. cbn [bind] in Hw.
    destruct (wseq wr vs (wpos + zlen x)) as [y|] eqn:Eb; [|discriminate]. cbn [bind] in Hw. injection Hw as <-.
    pose proof (sized_from_rt rd wr T a n Hrt Hc v wpos x Hv Ha Ea) as Hx.
    destruct (Hrt v wpos x Hv Ha Ea pre (y ++ rest) ctx Hp) as [v' [R1 S1]].
    assert (Ha' : (a | wpos + zlen x)) by (rewrite Hx; now apply Z.divide_add_r).
    assert (Hp' : (a | zlen (pre ++ x))) by (rewrite zlen_app', Hx; now apply Z.divide_add_r).
    destruct (IH _ _ HTs Ha' Eb (pre ++ x) rest ctx Hp') as [vs' [R2 S2]].
    exists (v' :: vs'). cbn [length seq_n]. rewrite <- app_assoc. rewrite R1. cbn [bind fst snd].
    replace (zlen pre + zlen x) with (zlen (pre ++ x)) by apply zlen_app'.
    replace (pre ++ x ++ y ++ rest) with ((pre ++ x) ++ y ++ rest) by now rewrite <- app_assoc.
    rewrite R2. cbn [bind fst snd]. split; [|cbn [map]; now rewrite S1, S2]. f_equal. f_equal. rewrite !zlen_app'. lia.
Qed.

Section ART.
  Variable c : cfg.
  Hypothesis He : endian_ok (c_endian c).

  (* fixed arrays of non-text elements whose element round-trips at aligned positions *)
  Lemma array_rt_al fuel el n m a : rt_al (read_ty c fuel el) (write_ty c el) (has_ty c el) a -> consumes_at (read_ty c fuel el) m a -> (a | m) ->
    ty_size c el = Some m -> not_text el = true -> 0 <= n -> count_ok c el n = true ->
    rt_al (read_array c fuel el (read_ty c fuel el) (LFixed n)) (write_array c el (write_ty c el) (LFixed n))
          (fun v => exists vs, v = VList vs /\ Z.of_nat (length vs) = n /\ Forall (has_ty c el) vs) a.
  Proof.
    intros Hel Hc Hd Hm Ent Hn Hcnt v wpos bs [vs [-> [Hl HT]]] Ha Hwr pre rest ctx Hp. unfold read_array. replace (Z.max 0 n) with n by lia.
    pose proof (zlen_nonneg pre) as Hpre.
    pose proof (write_array_list c el n vs wpos bs Ent Hwr) as Hwl.
    destruct (seq_n_rt_al _ _ _ a m Hel Hc Hd vs wpos bs HT Ha Hwl pre rest ctx Hp) as [vs' [Sq St]].
    exists (VList vs'). split; [|now apply map_strip_VList].
    assert (Hk : Z.to_nat n = length vs) by lia.
    pose proof (count_ok_list c el n Ent Hcnt) as Hc'. rewrite Hm in Hc'.
    apply read_count_of_seq; [exact Ent|lia|exact Hn| | |now rewrite Hk].
    - intros sz Hsz. rewrite Hm in Hsz. injection Hsz as <-. lia.
    - rewrite srest_mid. unfold zlen at 1. rewrite app_length. destruct Hc' as [_ [Hc'|Hc']]; [lia|].
      pose proof (seq_n_consumes_at _ m a Hd Hc _ _ _ _ _ _ Hp Sq) as Hq. rewrite Hl in Hq. assert (Hb : zlen bs = n * m) by lia.
      unfold zlen in Hb. rewrite Nat2Z.inj_add, Hb. pose proof (Zle_0_nat (length rest)). nia.
  Qed.

  Lemma pad1_is_zeros x y : x <= y -> (if x <? y then zeros (y - x) else []) = zeros (y - x).
  Proof. intros H. destruct (Z.ltb_spec x y); [reflexivity|]. replace (y - x) with 0 by lia. reflexivity. Qed.

  (* ---------- aligned structures of plain fields ---------- *)
  Lemma struct_rt_loop_al (R : field -> rfn) (W : field -> wfn) (T : field -> value -> Prop) : forall fs,
    Forall (fun f => f_bits f = None /\ pow2 (field_align c f) /\
                     exists n, ty_size c (f_ty f) = Some n /\ rt_al (R f) (W f) (T f) (req c (f_ty f)) /\ consumes_at (R f) n (req c (f_ty f))) fs ->
    forall off al0 offs en al', c_rule true off al0 (map (member c) fs) = (offs, en, al') ->
    forall vals_all wstart out out' wb',
      Forall (fun f => exists x, lookup_field (f_name f) vals_all = Some x /\ T f x) fs ->
      zlen out = off -> (forall f, In f fs -> (field_align c f | wstart)) ->
      wstruct_loop c true wstart vals_all (map (fun f => (wmeta_of c f, W f)) fs) (map Some offs) out wb_empty = Ok (out', wb') ->
      exists chunk, out' = out ++ chunk /\ wb' = wb_empty /\ zlen out' = en /\
        forall pre rest start bb vals sizes lctx, zlen pre = start + off -> (forall f, In f fs -> (field_align c f | start)) ->
          exists news sz', struct_loop (c_endian c) true start (map (fun f => (meta_of c f, R f)) fs) (map Some offs) (pre ++ chunk ++ rest) (zlen pre) bb vals sizes lctx
                            = Ok (rev vals ++ news, sz', zlen pre + zlen chunk)
                          /\ strip_fields news = map (fun f => (f_name f, strip (expect vals_all f))) fs.
  Proof.
    induction 1 as [|f r [Hb [Hp2 [n [Hn [Hrt Hc]]]]] Hr IH]; intros off al0 offs en al' HC vals_all wstart out out' wb' HT Hout Hws Hw.
    - cbn in HC. injection HC as E1 E2 E3. subst offs en al'. cbn [map wstruct_loop] in Hw. injection Hw as <- <-. exists []. rewrite app_nil_r. split; [reflexivity|]. split; [reflexivity|]. split; [exact Hout|].
      intros pre rest start bb vals sizes lctx _ _. exists [], (rev sizes). cbn [map struct_loop app]. rewrite app_nil_r. split; [|reflexivity].
      f_equal. f_equal. unfold zlen. cbn [length]. lia.
    - cbn [map c_rule] in HC. unfold member at 1 in HC. rewrite Hn in HC.
      set (fo := off + pad_to off (field_align c f)) in *.
      destruct (c_rule true (fo + n) (Z.max al0 (field_align c f)) (map (member c) r)) as [[offs' e'] al''] eqn:E. injection HC as <- <- <-.
      apply Forall_cons_iff in HT as [[x [Hlk Hx]] HTr].
      pose proof (pad_nonneg off _ Hp2) as Hpad. assert (Hfo : off <= fo) by (unfold fo; lia).
      assert (Hdfo : (field_align c f | fo)) by (unfold fo; now apply pad_mod0).
      cbn [map wstruct_loop] in Hw. cbn [wmeta_of wm_bits wm_name wm_storage wm_align wm_isprim wm_default wb_type wb_empty bind] in Hw.
      rewrite Hb, Hlk in Hw. cbn [app] in Hw. rewrite !app_nil_r in Hw. rewrite Hout in Hw.
      rewrite (pad1_is_zeros (wstart + off) (wstart + fo) ltac:(lia)) in Hw. replace (wstart + fo - (wstart + off)) with (fo - off) in Hw by lia.
      set (pad := zeros (fo - off)) in *. assert (Hzp : zlen pad = fo - off) by (unfold pad; rewrite zlen_zeros; lia).
      assert (Ho2 : zlen (out ++ pad) = fo) by (rewrite zlen_app'; lia). rewrite Ho2 in Hw.
      destruct (W f x (wstart + fo)) as [bs|] eqn:Ew; [|discriminate]. cbn [bind] in Hw.
      assert (Hreq : forall s0, (field_align c f | s0) -> (req c (f_ty f) | s0 + fo)).
      { intros s0 Hs0. apply Z.divide_trans with (field_align c f); [apply req_divides_align|]. now apply Z.divide_add_r. }
      assert (Hwa : (field_align c f | wstart)) by (apply Hws; now left).
      pose proof (sized_from_rt _ _ _ _ n Hrt Hc x _ bs Hx (Hreq _ Hwa) Ew) as Hbs.
      destruct (IH _ _ _ _ _ E vals_all wstart ((out ++ pad) ++ bs) out' wb' HTr) as [chunk [-> [-> [Hlen Rd]]]]; [rewrite zlen_app'; lia|intros g Hg; apply Hws; now right|exact Hw|].
      exists (pad ++ bs ++ chunk). split; [now rewrite <- !app_assoc|]. split; [reflexivity|]. split; [exact Hlen|].
      intros pre rest start bb vals sizes lctx Hpre Hss. cbn [map struct_loop]. cbn [meta_of fm_bits fm_name]. rewrite Hb.
      assert (Hsa : (field_align c f | start)) by (apply Hss; now left).
      replace (pre ++ (pad ++ bs ++ chunk) ++ rest) with ((pre ++ pad) ++ bs ++ (chunk ++ rest)) by (now rewrite <- !app_assoc).
      assert (Hpp : zlen (pre ++ pad) = start + fo) by (rewrite zlen_app'; lia).
      rewrite <- Hpp. destruct (Hrt x _ bs Hx (Hreq _ Hwa) Ew (pre ++ pad) (chunk ++ rest) lctx ltac:(rewrite Hpp; now apply Hreq)) as [v' [Rf Sf]]. rewrite Rf. cbn [bind fst snd].
      replace (zlen (pre ++ pad) + zlen bs) with (zlen ((pre ++ pad) ++ bs)) by (now rewrite zlen_app').
      replace ((pre ++ pad) ++ bs ++ chunk ++ rest) with (((pre ++ pad) ++ bs) ++ chunk ++ rest) by now rewrite <- app_assoc.
      destruct (Rd ((pre ++ pad) ++ bs) rest start bb_empty ((f_name f, v') :: vals) ((f_name f, zlen ((pre ++ pad) ++ bs) - zlen (pre ++ pad)) :: sizes) (int_ctx (f_name f) v' lctx)) as [news [sz' [Rl Sl]]];
        [rewrite zlen_app'; lia|intros g Hg; apply Hss; now right|].
      rewrite Rl. exists ((f_name f, v') :: news), sz'. cbn [rev]. rewrite <- app_assoc. split.
      + f_equal. f_equal. rewrite !zlen_app'. lia.
      + cbn [strip_fields map fst snd]. fold (strip_fields news). rewrite Sl. unfold expect at 2. rewrite Hlk, Sf. reflexivity.
  Qed.

  (* structures have at least one member (an empty structure has alignment 0: see the repaired defect f1d0fb0) *)
  Fixpoint nonempty_structs (t : ty) : bool :=
    match t with
    | TPrim _ _ | TEnum _ _ _ _ | TPtr _ => true
    | TArr el _ => nonempty_structs el
    | TStruct _ fs _ => match fs with [] => false | _ => true end
                        && (fix go (fs : list field) : bool := match fs with [] => true | Fld _ _ t _ _ :: r => nonempty_structs t && go r end) fs
    | TUnion _ _ _ => false
    end.
  Lemma ne_go fs : (fix go (fs : list field) : bool := match fs with [] => true | Fld _ _ t _ _ :: r => nonempty_structs t && go r end) fs = true ->
    Forall (fun f => nonempty_structs (f_ty f) = true) fs.
  Proof. induction fs as [|[nm an t b o] r IH]; intros H; [constructor|]. apply andb_prop in H as [H1 H2]. constructor; [exact H1|now apply IH]. Qed.

  Theorem parse_dump_identity_aligned fuel : forall t, aflat c t = true -> rt_ty c t = true -> nonempty_structs t = true ->
    forall n, ty_size c t = Some n -> rt_al (read_ty c fuel t) (write_ty c t) (has_ty c t) (req c t).
  Proof.
    induction t as [p al|b al fl ms|t IH|el len IH|nm fs al IH|nm fs al IH] using ty_ind'; intros Hfl Hrt Hne n Hn; try discriminate.
    - cbn [read_ty write_ty has_ty]. apply rt_rt_al. exact (prim_rt _ p He).
    - cbn [read_ty write_ty has_ty]. apply rt_rt_al. exact (prim_rt _ b He).
    - cbn [read_ty write_ty has_ty]. apply rt_rt_al. exact (prim_rt _ (c_ptr c) He).
    - cbn [aflat] in Hfl. cbn [ty_size] in Hn. destruct len as [k|toks ise|]; try discriminate. apply andb_prop in Hfl as [Hfl Hk].
      cbn [rt_ty] in Hrt. apply andb_prop in Hrt as [Hrt Hw]. apply andb_prop in Hrt as [Hrt Hcnt]. cbn [nonempty_structs] in Hne.
      destruct (ty_size c el) as [m|] eqn:Em; [|discriminate]. cbn [req]. cbn [read_ty write_ty].
      destruct (not_text el) eqn:Ent.
      + destruct (read_consumes_aligned c fuel el Hfl m Em) as [Hd Hc].
        pose proof (array_rt_al fuel el k m (req c el) (IH Hfl Hrt Hne m eq_refl) Hc Hd Em Ent ltac:(lia) Hcnt) as A.
        intros v wpos bs Hv. apply has_ty_arr in Hv. apply A.
        destruct el as [[sz sg pk|sz| | |sg|] al|b al ms fl|t0|t0 l0|nm fs al|nm fs al]; try exact Hv; discriminate.
      + destruct el as [[sz sg pk|sz| | |sg|] al|b al ms fl|t0|t0 l0|nm fs al|nm fs al]; try discriminate.
        apply rt_rt_al. intros v wpos bs Hv. apply has_ty_arr in Hv. apply (array_rt_char c fuel al k ltac:(lia)); [|exact Hv]. unfold count_ok in Hcnt. lia.
    - apply aflat_struct in Hfl as [-> Hfs]. cbn [rt_ty] in Hrt. apply andb_prop in Hrt as [Hgo Hnd]. apply rt_go in Hgo. apply nodupb_NoDup in Hnd.
      cbn [nonempty_structs] in Hne. apply andb_prop in Hne as [Hne0 Hne]. apply ne_go in Hne.
      rewrite ty_size_struct in Hn.
      assert (Hplain : forallb (plain_field c) fs = true).
      { unfold layout_struct in Hn. destruct (layout_go c true fs _) as [[offs st']|] eqn:E; [|discriminate]. cbn [bind fst snd l_size] in Hn.
        destruct (ls_off st') as [o|] eqn:Eo; [|discriminate].
        refine (proj1 (layout_go_sized_al c fs _ _ _ _ _ E Eo)). rewrite Forall_forall in *. intros f Hin. destruct (Hfs f Hin) as [_ [A [B _]]]. now split. }
      pose proof (layout_is_c_rule c true fs Hplain) as EL. unfold c_struct in EL.
      destruct (c_rule true 0 0 (map (member c) fs)) as [[offs e] al'] eqn:EC.
      assert (Hal : ty_align c (TStruct nm fs true) = al') by (rewrite ty_align_struct, EC; reflexivity).
      destruct (c_rule_align _ _ _ _ _ _ EC) as [_ [Fle Dal]].
      assert (Pal : pow2 al').
      { destruct fs as [|f0 r0]; [discriminate|]. destruct Dal as [->|Hin].
        - exfalso. inversion Fle as [|? ? L _]; subst. cbn [member snd] in L. inversion Hfs as [|? ? [_ [_ [_ P]]] _]; subst. apply pow2_pos in P. lia.
        - rewrite map_map in Hin. apply in_map_iff in Hin as [f [<- Hin]]. cbn [member snd]. rewrite Forall_forall in Hfs. exact (proj2 (proj2 (proj2 (Hfs f Hin)))). }
      assert (Fdiv : forall f, In f fs -> (field_align c f | al')).
      { intros f Hin. apply pow2_divide; [rewrite Forall_forall in Hfs; exact (proj2 (proj2 (proj2 (Hfs f Hin))))|exact Pal|]. rewrite Forall_forall in Fle. apply (Fle (member c f)). now apply in_map. }
      assert (Eeff : eff_align al' = al') by (unfold eff_align; destruct (Z.eqb_spec al' 0) as [Z0|_]; [apply pow2_pos in Pal; lia|reflexivity]).
      cbn [req]. rewrite Hal, Eeff.
      intros v wpos bs Hv Ha Hw pre rest ctx Hp. cbn [has_ty] in Hv. destruct Hv as [vals [sizes [-> [Hnames Hvals]]]]. apply has_go in Hvals.
      cbn [write_ty] in Hw. cbn [read_ty]. rewrite EL in *. cbn [l_offs l_align] in *.
      assert (Hitems : Forall (fun f => f_bits f = None /\ pow2 (field_align c f) /\
                 exists m, ty_size c (f_ty f) = Some m /\ rt_al (read_ty c fuel (f_ty f)) (write_ty c (f_ty f)) (has_ty c (f_ty f)) (req c (f_ty f)) /\ consumes_at (read_ty c fuel (f_ty f)) m (req c (f_ty f))) fs).
      { rewrite Forall_forall in *. intros f Hin. destruct (Hfs f Hin) as [Hff [Hb [_ Pf]]]. split; [exact Hb|]. split; [exact Pf|].
        rewrite forallb_forall in Hplain. specialize (Hplain f Hin). unfold plain_field in Hplain. rewrite Hb in Hplain.
        destruct (f_off f); [discriminate|]. destruct (ty_size c (f_ty f)) as [m|] eqn:Em; [|discriminate].
        exists m. split; [reflexivity|]. split; [exact (IH f Hin Hff (Hgo f Hin) (Hne f Hin) m Em)|exact (proj2 (read_consumes_aligned c fuel (f_ty f) Hff m Em))]. }
      destruct (wstruct_loop c true wpos vals _ (map Some offs) [] wb_empty) as [[out wb]|] eqn:EW; [|discriminate]. cbn [bind] in Hw.
      destruct (struct_rt_loop_al (fun f => read_ty c fuel (f_ty f)) (fun f => write_ty c (f_ty f)) (fun f => has_ty c (f_ty f)) fs Hitems _ _ _ _ _ EC vals wpos [] out wb Hvals eq_refl
                  ltac:(intros f Hin; apply Z.divide_trans with al'; [now apply Fdiv|exact Ha]) EW) as [chunk [-> [-> [Hlen Rd]]]].
      cbn [wb_flush wb_type wb_empty bind app] in Hw. rewrite app_nil_r in Hw. injection Hw as <-.
      cbn [app] in Hlen. rewrite Hlen. rewrite (pad_same wpos e al' Pal Ha).
      set (tail := zeros (pad_to e al')). assert (Htl : zlen tail = pad_to e al') by (unfold tail; rewrite zlen_zeros; pose proof (pad_nonneg e al' Pal); lia).
      destruct (Rd pre (tail ++ rest) (zlen pre) bb_empty [] [] [] ltac:(lia) ltac:(intros f Hin; apply Z.divide_trans with al'; [now apply Fdiv|exact Hp])) as [news [sz' [Rl Sl]]].
      replace (pre ++ (chunk ++ tail) ++ rest) with (pre ++ chunk ++ tail ++ rest) by (now rewrite <- !app_assoc).
      unfold rfn in *. rewrite Rl. cbn [bind rev app]. rewrite Hlen, Eeff. rewrite (pad_same (zlen pre) e al' Pal Hp).
      exists (VStruct news sz'). split; [f_equal; f_equal; rewrite zlen_app'; lia|].
      rewrite !strip_struct. f_equal. rewrite Sl. rewrite <- Hnames in Hnd. exact (expect_all strip fs vals Hnames Hnd).
  Qed.
End ART.
