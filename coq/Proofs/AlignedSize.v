(* AlignedSize.v — sizes agree in ALIGNED mode (C04): for structures laid out by the C rule with power-of-two alignments, parsed at a
   position that is a multiple of the structure's alignment, a successful parse consumes exactly the declared size. *)
From Coq Require Import Lia Znumtheory.
From VF Require Import Model.Reader Proofs.TyInd Proofs.LayoutCorrect Proofs.ReaderProps Proofs.ArrayProps Proofs.SizeProps.
Open Scope string_scope. Open Scope list_scope. Open Scope Z_scope.

(* ---------- powers of two and padding ---------- *)
Definition is_pow2 (a : Z) : bool := (0 <? a) && (a =? 2 ^ Z.log2 a).
Lemma is_pow2_ok a : is_pow2 a = true -> pow2 a.
Proof. unfold is_pow2. intros H. apply andb_prop in H as [H1 H2]. exists (Z.log2 a). split; [apply Z.log2_nonneg|lia]. Qed.
Lemma pow2_pos a : pow2 a -> 0 < a.
Proof. intros [k [Hk ->]]. apply Z.pow_pos_nonneg; lia. Qed.
Lemma pow2_divide a b : pow2 a -> pow2 b -> a <= b -> (a | b).
Proof.
  intros [i [Hi ->]] [j [Hj ->]] H. assert (i <= j) by (apply (Z.pow_le_mono_r_iff 2); lia).
  exists (2 ^ (j - i)). rewrite <- Z.pow_add_r by lia. f_equal. lia.
Qed.
Lemma pad_mod0 x a : pow2 a -> (a | x + pad_to x a).
Proof.
  intros [k [Hk ->]]. rewrite (pad_to_mod x k Hk). assert (0 < 2 ^ k) by (apply Z.pow_pos_nonneg; lia).
  apply Z.mod_divide; [lia|]. rewrite Zplus_mod_idemp_r. replace (x + - x) with 0 by lia. reflexivity.
Qed.
Lemma pad_same d x a : pow2 a -> (a | d) -> pad_to (d + x) a = pad_to x a.
Proof.
  intros [k [Hk ->]] [q ->]. rewrite !pad_to_mod by exact Hk. replace (- (q * 2 ^ k + x)) with (- x + (- q) * 2 ^ k) by ring. apply Z_mod_plus_full.
Qed.
Lemma pad_zero x a : pow2 a -> (a | x) -> pad_to x a = 0.
Proof.
  intros Ha [q ->]. pose proof Ha as [k [Hk E]]. subst a. rewrite pad_to_mod by exact Hk. replace (- (q * 2 ^ k)) with (0 + (- q) * 2 ^ k) by ring.
  rewrite Z_mod_plus_full. apply Z.mod_0_l. assert (0 < 2 ^ k) by (apply Z.pow_pos_nonneg; lia). lia.
Qed.
Lemma pad_nonneg x a : pow2 a -> 0 <= pad_to x a.
Proof. intros [k [Hk ->]]. rewrite pad_to_mod by exact Hk. apply Z.mod_pos_bound. apply Z.pow_pos_nonneg; lia. Qed.

(* the C rule's alignment is the maximum of the members' alignments *)
Lemma c_rule_align : forall ms off al offs e al', c_rule true off al ms = (offs, e, al') ->
  al <= al' /\ Forall (fun m => snd m <= al') ms /\ (al' = al \/ In al' (map snd ms)).
Proof.
  induction ms as [|[sz a] r IH]; intros off al offs e al' H; cbn [c_rule] in H.
  - injection H as _ _ <-. split; [lia|]. split; [constructor|now left].
  - destruct (c_rule true _ (Z.max al a) r) as [[offs0 e0] al0] eqn:E. injection H as _ _ <-. destruct (IH _ _ _ _ _ E) as [L [F D]].
    split; [lia|]. split; [constructor; [cbn; lia|exact F]|]. cbn [map snd In]. destruct D as [->|D]; [|right; now right].
    destruct (Z.max_spec al a) as [[_ ->]|[_ ->]]; [right; now left|now left].
Qed.

Section Aligned.
  Variable c : cfg.

  (* aligned fixed-size types: scalars, enums, pointers, fixed arrays, ALIGNED structures of plain fields with power-of-two alignments *)
  Fixpoint aflat (t : ty) : bool :=
    match t with
    | TPrim _ _ | TEnum _ _ _ _ | TPtr _ => true
    | TArr el (LFixed n) => aflat el && (0 <=? n)
    | TArr _ _ => false
    | TStruct _ fs al =>
      al && (fix go (fs : list field) : bool :=
               match fs with
               | [] => true
               | Fld _ _ t b o :: r => aflat t && match b, o with None, None => true | _, _ => false end && is_pow2 (eff_align (ty_align c t)) && go r
               end) fs
    | TUnion _ _ _ => false
    end.
  Lemma aflat_struct nm fs al : aflat (TStruct nm fs al) = true ->
    al = true /\ Forall (fun f => aflat (f_ty f) = true /\ f_bits f = None /\ f_off f = None /\ pow2 (field_align c f)) fs.
  Proof.
    cbn [aflat]. intros H. apply andb_prop in H as [Ha H]. split; [exact Ha|].
    induction fs as [|[n a t b o] r IH]; [constructor|]. apply andb_prop in H as [H Hr]. apply andb_prop in H as [H Hp]. apply andb_prop in H as [Ht Hb].
    constructor; [|now apply IH]. cbn. destruct b; [discriminate|]. destruct o; [discriminate|]. repeat split; try assumption. apply is_pow2_ok. exact Hp.
  Qed.

  (* what the start position must be a multiple of *)
  Fixpoint req (t : ty) : Z :=
    match t with TStruct _ _ _ => eff_align (ty_align c t) | TArr el _ => req el | _ => 1 end.
  Lemma req_divides_align t : (req t | eff_align (ty_align c t)).
  Proof. induction t as [p al|b al fl ms|t IHt|el IH len|nm fs al|nm fs al]; cbn [req ty_align]; try apply Z.divide_1_l; [exact IH|apply Z.divide_refl]. Qed.

  Definition consumes_at (rd : rfn) (n a : Z) : Prop := forall s pos ctx v p, (a | pos) -> rd s pos ctx = Ok (v, p) -> p = pos + n.

  Lemma seq_n_consumes_at rd n a : (a | n) -> consumes_at rd n a -> forall k s pos ctx l p, (a | pos) -> seq_n rd k s pos ctx = Ok (l, p) -> p = pos + Z.of_nat k * n.
  Proof.
    intros Hn Hrd. induction k as [|k IH]; intros s pos ctx l p Hp H; cbn [seq_n] in H; [injection H as _ <-; lia|].
    destruct (rd s pos ctx) as [[x p1]|] eqn:E; [|discriminate]. cbn [bind fst snd] in H.
    destruct (seq_n rd k s p1 ctx) as [[l' p']|] eqn:E2; [|discriminate]. cbn [bind fst snd] in H. injection H as _ <-.
    apply (Hrd _ _ _ _ _ Hp) in E. subst p1. apply IH in E2; [lia|]. now apply Z.divide_add_r.
  Qed.

  Lemma read_count_consumes_at fuel el rd n k a : ty_size c el = Some n -> (a | n) -> consumes_at rd n a -> 0 <= k -> consumes_at (read_count c fuel el rd k) (k * n) a.
  Proof.
    intros Hs Hd Hrd Hk s pos ctx v p Hpos H.
    assert (Gen : (do r <- seq_n rd (Z.to_nat (Z.min k (zlen (srest s pos) + 65))) s pos ctx; if zlen (srest s pos) + 65 <? k then Err EOutOfFuel else Ok (VList (fst r), snd r)) = Ok (v, p) -> p = pos + k * n).
    { intros G. destruct (seq_n rd _ s pos ctx) as [[l q]|] eqn:E; [|discriminate]. cbn [bind fst snd] in G.
      destruct (Z.ltb_spec (zlen (srest s pos) + 65) k); [discriminate|]. injection G as _ <-. apply (seq_n_consumes_at rd n a Hd Hrd _ _ _ _ _ _ Hpos) in E.
      replace (Z.min k (zlen (srest s pos) + 65)) with k in E by lia. rewrite Z2Nat.id in E by lia. exact E. }
    (* the bulk paths do not depend on alignment: reuse the packed-mode lemma *)
    destruct (generic_elem el) eqn:Eg.
    - apply Gen. destruct el as [[sz sg [|]|sz| | |sg|] al|[sz sg [|]|sz| | |sg|] al ms fl|t0|t0 l0|nm fs al|nm fs al]; cbn [generic_elem] in Eg; try discriminate; exact H.
    - assert (Hc : consumes (fun s pos _ => prim_read_at (c_endian c) PVoid s pos) 0) by (intros s0 p0 c0 v0 q0 E0; unfold prim_read_at in E0; cbn in E0; injection E0 as _ <-; lia).
      refine (read_count_consumes c fuel el (fun _ _ _ => Err EType) n k Hs _ Hk s pos ctx v p _).
      + intros s0 p0 c0 v0 q0 E0. discriminate.
      + destruct el as [[sz sg [|]|sz| | |sg|] al|[sz sg [|]|sz| | |sg|] al ms fl|t0|t0 l0|nm fs al|nm fs al]; cbn [generic_elem] in Eg; try discriminate; exact H.
  Qed.

  (* an aligned field list without bit fields and pre-set offsets has a size only when every member has one *)
  Lemma layout_go_sized_al : forall fs, Forall (fun f => f_bits f = None /\ f_off f = None) fs ->
    forall st offs st' o, layout_go c true fs st = Ok (offs, st') -> ls_off st' = Some o ->
    forallb (plain_field c) fs = true /\ ls_off st <> None.
  Proof.
    induction 1 as [|f r [Hb Ho] Hr IH]; intros st offs st' o H Hs.
    - cbn in H. injection H as _ <-. split; [reflexivity|congruence].
    - cbn [layout_go] in H. rewrite Hb, Ho in H. unfold layout_step in H.
      destruct (ls_off st) as [o0|] eqn:E0.
      + destruct (ty_size c (f_ty f)) as [m|] eqn:Em; cbn [bind fst snd] in H.
        * destruct (layout_go c true r _) as [[offs' st'']|] eqn:E; [|discriminate]. cbn [bind fst snd] in H. injection H as _ <-.
          destruct (IH _ _ _ _ E Hs) as [P _]. split; [|congruence]. cbn [forallb]. unfold plain_field at 1. now rewrite Hb, Ho, Em.
        * destruct (layout_go c true r _) as [[offs' st'']|] eqn:E; [|discriminate]. cbn [bind fst snd] in H. injection H as _ <-.
          destruct (IH _ _ _ _ E Hs) as [_ P]. now cbn in P.
      + cbn [bind fst snd] in H. destruct (layout_go c true r _) as [[offs' st'']|] eqn:E; [|discriminate]. cbn [bind fst snd] in H. injection H as _ <-.
        destruct (IH _ _ _ _ E Hs) as [_ P]. now cbn in P.
  Qed.

  (* cls.alignment of a structure is the alignment the C rule computes *)
  Lemma ty_align_struct nm fs al : ty_align c (TStruct nm fs al) = snd (c_rule true 0 0 (map (member c) fs)).
  Proof.
    cbn [ty_align].
    match goal with |- ?F fs 0 = _ => assert (G : forall fs0 off acc, F fs0 acc = snd (c_rule true off acc (map (member c) fs0))) end.
    { induction fs0 as [|[n a t b o] r IH]; intros off acc; [reflexivity|]. cbn [map c_rule]. unfold member at 1. cbn [f_ty snd]. unfold field_align. cbn [f_ty].
      rewrite (IH (off + pad_to off (if ty_align c t =? 0 then 1 else ty_align c t) + match ty_size c t with Some n0 => n0 | None => 0 end)).
      destruct (c_rule true _ _ (map (member c) r)) as [[offs e] al']. reflexivity. }
    apply G.
  Qed.

  (* the structure loop over plain fields in aligned mode, against the C rule *)
  Lemma struct_loop_consumes_al e start : forall fs (rdf : field -> rfn),
    Forall (fun f => f_bits f = None /\ pow2 (field_align c f) /\ (field_align c f | start) /\
                     exists n, ty_size c (f_ty f) = Some n /\ consumes_at (rdf f) n (req (f_ty f))) fs ->
    forall off al offs en al', c_rule true off al (map (member c) fs) = (offs, en, al') ->
    forall s bb vals sizes lctx v sz p,
    struct_loop e true start (map (fun f => (meta_of c f, rdf f)) fs) (map Some offs) s (start + off) bb vals sizes lctx = Ok (v, sz, p) ->
    p = start + en.
  Proof.
    intros fs rdf. induction 1 as [|f r [Hb [Hp [Hd [n [Hn Hc]]]]] Hr IH]; intros off al offs en al' HC s bb vals sizes lctx v sz p H.
    - cbn in HC. injection HC as _ <- _. cbn [map struct_loop] in H. injection H as _ _ <-. reflexivity.
    - cbn [map c_rule] in HC. unfold member at 1 in HC. rewrite Hn in HC.
      set (o := off + pad_to off (field_align c f)) in *.
      destruct (c_rule true (o + n) (Z.max al (field_align c f)) (map (member c) r)) as [[offs' e'] al''] eqn:E. injection HC as <- <- <-.
      cbn [map struct_loop] in H. cbn [meta_of fm_bits fm_name] in H. rewrite Hb in H.
      destruct (rdf f s (start + o) lctx) as [[x p1]|] eqn:Er; [|discriminate]. cbn [bind fst snd] in H.
      assert (Hdiv : (req (f_ty f) | start + o)).
      { apply Z.divide_trans with (field_align c f); [apply req_divides_align|]. apply Z.divide_add_r; [exact Hd|apply pad_mod0; exact Hp]. }
      apply (Hc _ _ _ _ _ Hdiv) in Er. subst p1. replace (start + o + n) with (start + (o + n)) in H by lia.
      exact (IH _ _ _ _ _ E _ _ _ _ _ _ _ _ H).
  Qed.

  Theorem read_consumes_aligned fuel : forall t, aflat t = true -> forall n, ty_size c t = Some n ->
    (req t | n) /\ consumes_at (read_ty c fuel t) n (req t).
  Proof.
    induction t as [p al|b al fl ms|t IH|el len IH|nm fs al IH|nm fs al IH] using ty_ind'; intros Hf n Hn; try discriminate.
    - split; [apply Z.divide_1_l|]. cbn [read_ty]. cbn [ty_size] in Hn. intros s pos ctx v q _ H. exact (prim_consumes c p n Hn s pos ctx v q H).
    - split; [apply Z.divide_1_l|]. cbn [read_ty]. cbn [ty_size] in Hn. intros s pos ctx v q _ H. exact (prim_consumes c b n Hn s pos ctx v q H).
    - split; [apply Z.divide_1_l|]. cbn [read_ty]. cbn [ty_size] in Hn. intros s pos ctx v q _ H. exact (prim_consumes c (c_ptr c) n Hn s pos ctx v q H).
    - cbn [aflat] in Hf. cbn [ty_size] in Hn. destruct len as [k|toks ise|]; try discriminate. apply andb_prop in Hf as [Hel Hk].
      destruct (ty_size c el) as [m|] eqn:Em; [|discriminate]. injection Hn as <-. destruct (IH Hel m eq_refl) as [Hd Hc]. cbn [req].
      split; [now apply Z.divide_mul_r|]. cbn [read_ty read_array]. replace (Z.max 0 k) with k by lia. apply read_count_consumes_at; [exact Em|exact Hd|exact Hc|lia].
    - apply aflat_struct in Hf as [-> Hfs]. rewrite ty_size_struct in Hn.
      assert (Hplain : forallb (plain_field c) fs = true).
      { unfold layout_struct in Hn. destruct (layout_go c true fs _) as [[offs st']|] eqn:E; [|discriminate]. cbn [bind fst snd l_size] in Hn.
        destruct (ls_off st') as [o|] eqn:Eo; [|discriminate].
        refine (proj1 (layout_go_sized_al fs _ _ _ _ _ E Eo)). rewrite Forall_forall in *. intros f Hin. destruct (Hfs f Hin) as [_ [A [B _]]]. now split. }
      rewrite (layout_is_c_rule c true fs Hplain) in Hn. unfold c_struct in Hn.
      destruct (c_rule true 0 0 (map (member c) fs)) as [[offs e] al'] eqn:EC. cbn [l_size] in Hn. injection Hn as <-.
      assert (Hal : ty_align c (TStruct nm fs true) = al').
      { rewrite ty_align_struct, EC. reflexivity. }
      cbn [req]. rewrite Hal.
      destruct (c_rule_align _ _ _ _ _ _ EC) as [_ [Fle Dal]].
      (* either there are no fields (alignment 0) or the alignment is one of the members' *)
      assert (Hcase : (fs = [] /\ al' = 0 /\ e = 0) \/ (pow2 al' /\ Forall (fun f => (field_align c f | al')) fs)).
      { destruct fs as [|f0 r0]; [left; cbn in EC; injection EC as _ <- <-; auto|right].
        assert (Pal : pow2 al').
        { destruct Dal as [->|Hin].
          - exfalso. inversion Fle as [|? ? L _]; subst. cbn [member snd] in L. inversion Hfs as [|? ? [_ [_ [_ P]]] _]; subst. apply pow2_pos in P. lia.
          - rewrite map_map in Hin. apply in_map_iff in Hin as [f [<- Hin]]. cbn [member snd]. rewrite Forall_forall in Hfs. exact (proj2 (proj2 (proj2 (Hfs f Hin)))). }
        split; [exact Pal|]. rewrite Forall_forall in *. intros f Hin. apply pow2_divide; [exact (proj2 (proj2 (proj2 (Hfs f Hin))))|exact Pal|].
        apply (Fle (member c f)). now apply in_map. }
      split.
      + destruct Hcase as [[-> [-> ->]]|[Pal _]]; [cbn; apply Z.divide_0_r|]. unfold eff_align. destruct (Z.eqb_spec al' 0) as [Z0|_]; [apply pow2_pos in Pal; lia|]. now apply pad_mod0.
      + intros s pos ctx v p Hpos H. cbn [read_ty] in H. rewrite (layout_is_c_rule c true fs Hplain) in H. unfold c_struct in H. rewrite EC in H. cbn [l_offs l_align] in H.
        destruct (struct_loop _ true pos _ _ s pos bb_empty [] [] []) as [[[vals sizes] p']|] eqn:EL; [|discriminate]. cbn [bind] in H. injection H as _ <-.
        destruct Hcase as [[-> [-> ->]]|[Pal Fdiv]].
        * cbn [map struct_loop] in EL. injection EL as _ _ <-. cbn [eff_align Z.eqb]. rewrite (pad_zero pos 1); [cbn; lia|exists 0; split; [lia|reflexivity]|apply Z.divide_1_l].
        * assert (Eeff : eff_align al' = al') by (unfold eff_align; destruct (Z.eqb_spec al' 0) as [Z0|_]; [apply pow2_pos in Pal; lia|reflexivity]).
          rewrite Eeff in *. replace pos with (pos + 0) in EL at 2 by lia.
          assert (Hp' : p' = pos + e).
          { refine (struct_loop_consumes_al _ pos fs (fun f => read_ty c fuel (f_ty f)) _ _ _ _ _ _ EC _ _ _ _ _ _ _ _ EL).
            rewrite Forall_forall in *. intros f Hin. destruct (Hfs f Hin) as [Hfl [Hb [_ Pf]]]. split; [exact Hb|]. split; [exact Pf|].
            split; [apply Z.divide_trans with al'; [exact (Fdiv f Hin)|exact Hpos]|].
            rewrite forallb_forall in Hplain. specialize (Hplain f Hin). unfold plain_field in Hplain. rewrite Hb in Hplain.
            destruct (f_off f); [discriminate|]. destruct (ty_size c (f_ty f)) as [m|] eqn:Em; [|discriminate].
            exists m. split; [reflexivity|]. exact (proj2 (IH f Hin Hfl m Em)). }
          subst p'. rewrite (pad_same pos e al' Pal Hpos). lia.
  Qed.
End Aligned.
