(* ArrayProps.v — the array length forms (C07): counts, terminators, to-end-of-stream, and the per-type bulk paths against the
   element-by-element reading they stand for. *)
From Coq Require Import Lia.
From VF Require Import Model.Reader Proofs.ReaderProps Proofs.ShiftProps.
Open Scope string_scope. Open Scope list_scope. Open Scope Z_scope.

(* ---------- x[n]: exactly n elements, read one after the other ---------- *)
Lemma seq_n_length rd : forall k s pos ctx l p, seq_n rd k s pos ctx = Ok (l, p) -> length l = k.
Proof.
  induction k as [|k IH]; intros s pos ctx l p H; cbn [seq_n] in H; [now injection H as <- _|].
  destruct (rd s pos ctx) as [x|]; [|discriminate]. cbn [bind] in H.
  destruct (seq_n rd k s (snd x) ctx) as [[l' p']|] eqn:E; [|discriminate]. cbn [bind fst snd] in H. injection H as <- _.
  cbn [length]. f_equal. exact (IH _ _ _ _ _ E).
Qed.

(* ---------- x[]: stops at and consumes the first zero element ---------- *)
Lemma zero_term_spec isz rd : forall f s pos ctx l p, zero_term isz rd f s pos ctx = Ok (l, p) ->
  Forall (fun v => isz v = false) l /\
  exists p0 z, seq_n rd (length l) s pos ctx = Ok (l, p0) /\ rd s p0 ctx = Ok (z, p) /\ isz z = true.
Proof.
  induction f as [|f IH]; intros s pos ctx l p H; cbn [zero_term] in H; [discriminate|].
  destruct (rd s pos ctx) as [[x p1]|] eqn:E; [|discriminate]. cbn [bind fst snd] in H.
  destruct (isz x) eqn:Ez.
  - injection H as <- <-. split; [constructor|]. exists pos, x. cbn [length seq_n]. now rewrite E.
  - destruct (zero_term isz rd f s p1 ctx) as [[l' p']|] eqn:E2; [|discriminate]. cbn [bind fst snd] in H. injection H as <- <-.
    destruct (IH _ _ _ _ _ E2) as [HF [p0 [z [S1 [S2 S3]]]]]. split; [constructor; assumption|].
    exists p0, z. cbn [length seq_n]. rewrite E. cbn [bind fst snd]. rewrite S1. cbn [bind fst snd]. now repeat split.
Qed.
Lemma falsy_term_spec rd : forall f s pos ctx l p, falsy_term rd f s pos ctx = Ok (l, p) ->
  Forall (fun v => truthy_value v = true) l /\
  exists p0 z, seq_n rd (length l) s pos ctx = Ok (l, p0) /\ rd s p0 ctx = Ok (z, p) /\ truthy_value z = false.
Proof.
  induction f as [|f IH]; intros s pos ctx l p H; cbn [falsy_term] in H; [discriminate|].
  destruct (rd s pos ctx) as [[x p1]|] eqn:E; [|discriminate]. cbn [bind fst snd] in H.
  destruct (truthy_value x) eqn:Ez.
  - destruct (falsy_term rd f s p1 ctx) as [[l' p']|] eqn:E2; [|discriminate]. cbn [bind fst snd] in H. injection H as <- <-.
    destruct (IH _ _ _ _ _ E2) as [HF [p0 [z [S1 [S2 S3]]]]]. split; [constructor; assumption|].
    exists p0, z. cbn [length seq_n]. rewrite E. cbn [bind fst snd]. rewrite S1. cbn [bind fst snd]. now repeat split.
  - injection H as <- <-. split; [constructor|]. exists pos, x. cbn [length seq_n]. now rewrite E.
Qed.
Lemma skipn_S_cons {A} : forall n (s : list A) h r, skipn n s = h :: r -> skipn (S n) s = r.
Proof. induction n as [|n IH]; intros s h r H; destruct s as [|a s]; cbn in *; try discriminate; [now injection H as _ <-|]. destruct n; [cbn in H; now subst|exact (IH _ _ _ H)]. Qed.
(* char[]: the bytes before the first NUL, the NUL consumed *)
Lemma char_term_spec : forall f s pos acc bs p, 0 <= pos -> char_term f s pos acc = Ok (VBytes bs, p) ->
  exists body, bs = rev acc ++ body /\ Forall (fun b => b <> 0) body /\ sread s pos (zlen body + 1) = body ++ [0] /\ p = pos + zlen body + 1.
Proof.
  induction f as [|f IH]; intros s pos acc bs p Hp H; cbn [char_term] in H; [discriminate|].
  destruct (sread s pos 1) as [|b [|b2 t]] eqn:E; try discriminate.
  destruct (Z.eqb_spec b 0) as [->|Hb].
  - injection H as <- <-. exists []. rewrite app_nil_r. unfold zlen. cbn [length Z.of_nat Z.add]. split; [reflexivity|]. split; [constructor|]. split; [exact E|lia].
  - apply IH in H; [|lia]. destruct H as [body [-> [HF [HS ->]]]]. exists (b :: body). cbn [rev]. rewrite <- app_assoc. cbn [app].
    split; [reflexivity|]. split; [constructor; assumption|].
    unfold sread in *. unfold zlen in *. cbn [length].
    replace (Z.to_nat (pos + 1)) with (S (Z.to_nat pos)) in HS by lia.
    replace (Z.to_nat (Z.of_nat (S (length body)) + 1)) with (S (Z.to_nat (Z.of_nat (length body) + 1))) by lia.
    replace (Z.to_nat 1) with 1%nat in E by reflexivity.
    destruct (skipn (Z.to_nat pos) s) as [|h r] eqn:Es; [discriminate|]. cbn [firstn] in E. injection E as ->.
    assert (skipn (S (Z.to_nat pos)) s = r) as Er by (exact (skipn_S_cons _ _ _ _ Es)).
    rewrite Er in HS. cbn [firstn app]. rewrite HS. split; [reflexivity|lia].
Qed.

(* ---------- x[EOF]: elements one after the other until the position reaches the end ---------- *)
Lemma seq_eof_spec rd : forall f s pos ctx l p, seq_eof rd f s pos ctx = Ok (l, p) ->
  seq_n rd (length l) s pos ctx = Ok (l, p) /\ zlen s <= p /\ (l <> [] -> pos < zlen s).
Proof.
  induction f as [|f IH]; intros s pos ctx l p H; cbn [seq_eof] in H; [discriminate|].
  destruct (Z.leb_spec (zlen s) pos) as [L|L].
  - injection H as <- <-. cbn. split; [reflexivity|]. split; [exact L|]. intros C; now destruct C.
  - destruct (rd s pos ctx) as [[x p1]|] eqn:E; [|discriminate]. cbn [bind fst snd] in H.
    destruct (seq_eof rd f s p1 ctx) as [[l' p']|] eqn:E2; [|discriminate]. cbn [bind fst snd] in H. injection H as <- <-.
    destruct (IH _ _ _ _ _ E2) as [S1 [S2 _]]. cbn [length seq_n]. rewrite E. cbn [bind fst snd]. rewrite S1. cbn [bind fst snd].
    split; [reflexivity|]. split; [exact S2|]. intros _. exact L.
Qed.

(* ---------- the bulk path of packed scalars (one read, struct.unpack) against element-by-element reading ---------- *)
Definition fixed_scalar (p : prim) : option nat := match p with PInt n _ _ => Some n | PFloat n => Some n | _ => None end.
Lemma fixed_scalar_size p sz : fixed_scalar p = Some sz -> prim_size p = Some sz.
Proof. destruct p; cbn; congruence. Qed.
(* a fixed-size scalar is decoded from exactly its first sz bytes *)
Lemma fixed_read e p sz : fixed_scalar p = Some sz -> exists f, forall a, prim_read e p a = do x <- split_at sz a; Ok (f (fst x), snd x).
Proof.
  destruct p as [n sg pk|n| | |sg|]; cbn [fixed_scalar]; intros H; try discriminate; injection H as <-.
  - exists (fun bs => VInt (int_from_bytes (prim_endian (PInt n sg pk) e) sg bs)). intros a. cbn [prim_read]. destruct (split_at n a) as [[x r]|]; reflexivity.
  - exists (fun bs => VFloat (int_from_bytes (prim_endian (PFloat n) e) false bs)). intros a. cbn [prim_read]. destruct (split_at n a) as [[x r]|]; reflexivity.
Qed.

Section Bulk.
  Variable c : cfg.
  Variable p : prim.
  Variable sz : nat.
  Hypothesis Hp : fixed_scalar p = Some sz.

  Lemma unpack_n_short : forall k a, (length a < k * sz)%nat -> unpack_n c p k a = Err EEof.
  Proof.
    destruct (fixed_read (c_endian c) p sz Hp) as [f Hf].
    induction k as [|k IH]; intros a H; [cbn in H; lia|]. cbn [unpack_n]. rewrite Hf. unfold split_at.
    destruct (Nat.leb_spec sz (length a)) as [L|L]; [|reflexivity]. cbn [bind fst snd].
    rewrite IH; [reflexivity|]. rewrite skipn_length. cbn in H. lia.
  Qed.
  Lemma unpack_n_firstn : forall k a, (k * sz <= length a)%nat -> unpack_n c p k (firstn (k * sz) a) = unpack_n c p k a.
  Proof.
    destruct (fixed_read (c_endian c) p sz Hp) as [f Hf].
    induction k as [|k IH]; intros a H; [reflexivity|]. cbn [unpack_n]. rewrite !Hf. unfold split_at. cbn in H.
    rewrite firstn_length. replace (Nat.min (S k * sz) (length a)) with (S k * sz)%nat by (cbn; lia).
    assert (Nat.leb sz (S k * sz) = true) as -> by (apply Nat.leb_le; cbn; lia).
    assert (Nat.leb sz (length a) = true) as -> by (apply Nat.leb_le; lia). cbn [bind fst snd].
    rewrite firstn_firstn. replace (Nat.min sz (S k * sz)) with sz by (cbn; lia).
    replace (skipn sz (firstn (S k * sz) a)) with (firstn (k * sz) (skipn sz a)).
    - rewrite IH; [reflexivity|]. rewrite skipn_length. lia.
    - rewrite skipn_firstn_comm. f_equal. cbn. lia.
  Qed.

  Lemma srest_add s pos n : 0 <= pos -> 0 <= n -> srest s (pos + n) = skipn (Z.to_nat n) (srest s pos).
  Proof.
    intros H1 H2. unfold srest. replace (Z.to_nat (pos + n)) with (Z.to_nat pos + Z.to_nat n)%nat by lia.
    generalize (Z.to_nat pos) as a. intros a. revert s. induction a as [|a IH]; intros s0; [reflexivity|]. destruct s0; [now rewrite !skipn_nil|]. cbn [Nat.add skipn]. apply IH.
  Qed.

  Lemma seq_n_scalar : forall k s pos ctx, 0 <= pos ->
    seq_n (fun s pos _ => prim_read_at (c_endian c) p s pos) k s pos ctx
    = do vs <- unpack_n c p k (srest s pos); Ok (vs, pos + Z.of_nat k * Z.of_nat sz).
  Proof.
    destruct (fixed_read (c_endian c) p sz Hp) as [f Hf].
    induction k as [|k IH]; intros s pos ctx H; cbn [seq_n unpack_n bind]; [f_equal; f_equal; lia|].
    unfold prim_read_at. rewrite Hf. unfold split_at.
    destruct (Nat.leb_spec sz (length (srest s pos))) as [L|L]; [|reflexivity]. cbn [bind fst snd].
    assert (E : pos + (zlen (srest s pos) - zlen (skipn sz (srest s pos))) = pos + Z.of_nat sz) by (unfold zlen; rewrite skipn_length; lia).
    rewrite E. rewrite IH by lia. rewrite srest_add by lia. rewrite Nat2Z.id.
    destruct (unpack_n c p k (skipn sz (srest s pos))); cbn [bind fst snd]; [f_equal; f_equal; lia|reflexivity].
  Qed.

  (* the whole statement: same values, same end position, same error *)
  Theorem bulk_is_sequential n s pos ctx : 0 <= pos -> 0 <= n -> Z.of_nat sz * n <= 9223372036854775807 ->
    packed_read_n c p n s pos = seq_n (fun s pos _ => prim_read_at (c_endian c) p s pos) (Z.to_nat n) s pos ctx.
  Proof.
    intros H0 Hn Hb. rewrite seq_n_scalar by exact H0. unfold packed_read_n, prim_size_z. rewrite (fixed_scalar_size _ _ Hp). cbn [option_map].
    unfold sread_exact. destruct (Z.ltb_spec 9223372036854775807 (Z.of_nat sz * n)) as [L|_]; [lia|].
    destruct (Z.leb_spec (Z.of_nat sz * n) (zlen (srest s pos))) as [L|L]; cbn [bind].
    - unfold sread. fold (srest s pos). replace (Z.to_nat (Z.of_nat sz * n)) with (Z.to_nat n * sz)%nat by nia.
      rewrite unpack_n_firstn by (unfold zlen in L; nia).
      destruct (unpack_n c p (Z.to_nat n) (srest s pos)); cbn [bind]; [f_equal; f_equal; nia|reflexivity].
    - rewrite unpack_n_short; [reflexivity|]. unfold zlen in L. nia.
  Qed.
End Bulk.

(* char[n] is the n single characters joined; wchar[n] decodes exactly 2n bytes *)
Lemma read_count_char c fuel al rd n s pos ctx : 0 < n <= 9223372036854775807 ->
  read_count c fuel (TPrim PChar al) rd n s pos ctx = do bs <- sread_exact s pos n; Ok (VBytes bs, pos + n).
Proof. intros H. cbn [read_count]. destruct (Z.eqb_spec n 0); [lia|reflexivity]. Qed.

(* generic elements: exactly n of them, each read where the previous one ended *)
Definition generic_elem (el : ty) : bool :=
  match el with
  | TPrim PChar _ | TPrim PWchar _ | TPrim (PInt _ _ true) _ | TPrim (PFloat _) _ | TEnum (PInt _ _ true) _ _ _ => false
  | _ => true
  end.
Lemma read_count_generic c fuel el rd n s pos ctx l p : generic_elem el = true -> 0 <= n ->
  read_count c fuel el rd n s pos ctx = Ok (VList l, p) -> seq_n rd (Z.to_nat n) s pos ctx = Ok (l, p) /\ Z.of_nat (length l) = n.
Proof.
  intros Hg Hn H.
  assert (G : (do r <- seq_n rd (Z.to_nat (Z.min n (zlen (srest s pos) + 65))) s pos ctx; if zlen (srest s pos) + 65 <? n then Err EOutOfFuel else Ok (VList (fst r), snd r)) = Ok (VList l, p)).
  { destruct el as [[sz sg [|]|sz| | |sg|] al|[sz sg [|]|sz| | |sg|] al ms fl|t0|t0 l0|nm fs al|nm fs al]; cbn [generic_elem] in Hg; try discriminate; exact H. }
  clear H. destruct (seq_n rd _ s pos ctx) as [[l' p']|] eqn:E; [|discriminate]. cbn [bind fst snd] in G.
  destruct (Z.ltb_spec (zlen (srest s pos) + 65) n) as [L|L]; [discriminate|]. injection G as -> ->.
  replace (Z.min n (zlen (srest s pos) + 65)) with n in E by lia. split; [exact E|]. apply seq_n_length in E. lia.
Qed.

(* ---------- the write side ---------- *)
From VF Require Import Model.Writer.
(* a fixed-size array of non-character elements with a different number of elements is refused *)
Lemma fixed_count_enforced c el wr n vs pos sz : ty_size c el = Some sz ->
  (match el with TPrim PChar _ | TPrim PWchar _ => false | _ => true end) = true ->
  n <> Z.of_nat (length vs) -> write_array c el wr (LFixed n) (VList vs) pos = Err EArraySize.
Proof.
  intros Hs Ht Hn. unfold write_array. rewrite Hs. destruct (Z.eqb_spec n (Z.of_nat (length vs))) as [E|_]; [contradiction|].
  destruct el as [[k sg pk|k| | |sg|] al|b al ms fl|t0|t0 l0|nm fs al|nm fs al]; try reflexivity; discriminate.
Qed.
(* dumping a null-terminated array writes the elements followed by the element type's zero value *)
Lemma null_terminated_dump c el wr vs pos :
  (match el with TPrim PChar _ | TPrim PWchar _ => false | _ => true end) = true ->
  write_array c el wr LNull (VList vs) pos = write_list c el wr (vs ++ [default_value el]) pos.
Proof. intros Ht. unfold write_array. destruct el as [[k sg pk|k| | |sg|] al|b al ms fl|t0|t0 l0|nm fs al|nm fs al]; try reflexivity; discriminate. Qed.
Lemma null_terminated_dump_chars c al wr bs pos : write_array c (TPrim PChar al) wr LNull (VBytes bs) pos = Ok (bs ++ [0]).
Proof. reflexivity. Qed.
