(* AssignProps.v — local assignment (C17): assigning one field of a fixed-size structure changes, in the dumped bytes, exactly the
   bytes of that field.  For packed structures of plain fields. *)
From Coq Require Import Lia.
From VF Require Import Model.Writer Proofs.TyInd Proofs.CodecCorrect Proofs.LayoutCorrect Proofs.ReaderProps Proofs.ArrayProps Proofs.SizeProps Proofs.RoundTrip Proofs.ValueRoundTrip.
Open Scope string_scope. Open Scope list_scope. Open Scope Z_scope.

Section Assign.
  Variable c : cfg.

  (* the value the writer takes for a field: the instance's, or the type's default *)
  Definition fieldval (vals : list (string * value)) (f : field) : value :=
    match lookup_field (f_name f) vals with Some x => x | None => default_value (f_ty f) end.
  (* the bytes of each field, in order; base = bytes written before *)
  Fixpoint chunks_of (W : field -> wfn) (vals : list (string * value)) (wstart : Z) (fs : list field) (base : Z) : result (list (list Z)) :=
    match fs with
    | [] => Ok []
    | f :: r => do b <- W f (fieldval vals f) (wstart + base); do rest <- chunks_of W vals wstart r (base + zlen b); Ok (b :: rest)
    end.
  (* a field's bytes have its declared size *)
  Definition sized (W : field -> wfn) (vals : list (string * value)) (f : field) : Prop :=
    forall pos b n, W f (fieldval vals f) pos = Ok b -> ty_size c (f_ty f) = Some n -> zlen b = n.

  (* the write loop of a packed structure of plain fields is the concatenation of the fields' bytes *)
  Lemma wloop_is_chunks (W : field -> wfn) vals wstart : forall fs, Forall (fun f => f_bits f = None /\ sized W vals f) fs ->
    forall off offs, offs_agree c off fs offs -> forall out, (forall x, off = Some x -> zlen out = x) ->
    wstruct_loop c false wstart vals (map (fun f => (wmeta_of c f, W f)) fs) offs out wb_empty
    = do chs <- chunks_of W vals wstart fs (zlen out); Ok (out ++ List.concat chs, wb_empty).
  Proof.
    induction 1 as [|f r [Hb Hs] Hr IH]; intros off offs Ha out Hout.
    - destruct offs; [|destruct Ha]. cbn [map wstruct_loop chunks_of bind List.concat]. now rewrite app_nil_r.
    - destruct offs as [|o ro]; [destruct Ha|]. destruct Ha as [-> Ha].
      cbn [map wstruct_loop chunks_of]. cbn [wmeta_of wm_bits wm_name wm_storage wm_align wm_isprim wm_default wb_type wb_empty bind]. rewrite Hb.
      assert (P1 : match off with Some fo => if wstart + zlen (out ++ []) <? wstart + fo then zeros (wstart + fo - (wstart + zlen (out ++ []))) else [] | None => [] end = []).
      { destruct off as [x0|]; [|reflexivity]. rewrite app_nil_r, (Hout x0 eq_refl). now rewrite Z.ltb_irrefl. }
      rewrite P1. assert (P2 : match off with None => [] | Some _ => [] end = (@nil Z)) by now destruct off. rewrite P2. cbn [app]. rewrite !app_nil_r.
      fold (fieldval vals f). destruct (W f (fieldval vals f) (wstart + zlen out)) as [b|] eqn:Ew; cbn [bind]; [|reflexivity].
      rewrite (IH _ _ Ha (out ++ b)).
      + replace (zlen (out ++ b)) with (zlen out + zlen b) by (unfold zlen; rewrite app_length; lia).
        destruct (chunks_of W vals wstart r (zlen out + zlen b)) as [chs|]; cbn [bind List.concat]; [|reflexivity]. now rewrite app_assoc.
      + intros y Ey. destruct off as [x0|]; [|discriminate]. destruct (ty_size c (f_ty f)) as [n|] eqn:En; [|discriminate]. injection Ey as <-.
        unfold zlen in *. rewrite app_length, Nat2Z.inj_add, (Hout x0 eq_refl). f_equal. exact (Hs _ _ _ Ew En).
  Qed.

  (* assignment *)
  Definition set_field (k : string) (x : value) (vals : list (string * value)) : list (string * value) :=
    map (fun kv => if String.eqb (fst kv) k then (fst kv, x) else kv) vals.
  Lemma lookup_set_other k x : forall vals n, n <> k -> lookup_field n (set_field k x vals) = lookup_field n vals.
  Proof.
    induction vals as [|[m v] r IH]; intros n Hn; [reflexivity|]. cbn [set_field map fst]. fold (set_field k x r).
    destruct (String.eqb_spec m k) as [->|Hm]; cbn [lookup_field].
    - destruct (String.eqb_spec n k); [contradiction|]. now apply IH.
    - destruct (String.eqb n m); [reflexivity|now apply IH].
  Qed.

  Lemma fieldval_set_other k x vals f : f_name f <> k -> fieldval (set_field k x vals) f = fieldval vals f.
  Proof. intros H. unfold fieldval. now rewrite lookup_set_other. Qed.
  Lemma chunks_same (W : field -> wfn) vals wstart k x : forall fs base, ~ In k (map f_name fs) ->
    chunks_of W (set_field k x vals) wstart fs base = chunks_of W vals wstart fs base.
  Proof.
    induction fs as [|f r IH]; intros base Hk; [reflexivity|]. cbn [chunks_of]. cbn [map In] in Hk.
    rewrite fieldval_set_other by tauto. destruct (W f (fieldval vals f) (wstart + base)) as [b|]; cbn [bind]; [|reflexivity].
    rewrite IH by tauto. reflexivity.
  Qed.
  Lemma chunks_app (W : field -> wfn) vals wstart : forall a b base,
    chunks_of W vals wstart (a ++ b) base
    = do ca <- chunks_of W vals wstart a base; do cb <- chunks_of W vals wstart b (base + zlen (List.concat ca)); Ok (ca ++ cb).
  Proof.
    induction a as [|f r IH]; intros b base; cbn [app chunks_of bind List.concat].
    - unfold zlen. cbn [length]. rewrite Z.add_0_r. destruct (chunks_of W vals wstart b base); reflexivity.
    - destruct (W f (fieldval vals f) (wstart + base)) as [x|]; cbn [bind]; [|reflexivity]. rewrite IH.
      destruct (chunks_of W vals wstart r (base + zlen x)) as [ca|]; cbn [bind List.concat]; [|reflexivity].
      replace (base + zlen (x ++ List.concat ca)) with (base + zlen x + zlen (List.concat ca)) by (unfold zlen; rewrite app_length; lia).
      destruct (chunks_of W vals wstart b _); reflexivity.
  Qed.

  (* the byte strings before and after assigning field k: identical before it, identical after it, and the field's own bytes keep their length *)
  Lemma chunks_assign (W : field -> wfn) vals wstart k x fs1 f fs2 n : f_name f = k ->
    ~ In k (map f_name fs1) -> ~ In k (map f_name fs2) ->
    ty_size c (f_ty f) = Some n -> sized W vals f -> sized W (set_field k x vals) f ->
    forall base chs chs', chunks_of W vals wstart (fs1 ++ f :: fs2) base = Ok chs ->
      chunks_of W (set_field k x vals) wstart (fs1 ++ f :: fs2) base = Ok chs' ->
      exists a old new b, chs = a ++ old :: b /\ chs' = a ++ new :: b /\ zlen old = n /\ zlen new = n /\ length a = length fs1.
  Proof.
    intros Hk H1 H2 Hn Hs Hs' base chs chs' E E'. rewrite chunks_app in E, E'. rewrite (chunks_same W vals wstart k x fs1 base H1) in E'.
    destruct (chunks_of W vals wstart fs1 base) as [ca|] eqn:Ea; [|discriminate]. cbn [bind] in E, E'. cbn [chunks_of] in E, E'.
    destruct (W f (fieldval vals f) _) as [old|] eqn:Eo; [|discriminate]. destruct (W f (fieldval (set_field k x vals) f) _) as [new|] eqn:En; [|discriminate].
    cbn [bind] in E, E'. pose proof (Hs _ _ _ Eo Hn) as Lo. pose proof (Hs' _ _ _ En Hn) as Ln.
    rewrite (chunks_same W vals wstart k x fs2 _ H2) in E'. rewrite Lo in E. rewrite Ln in E'.
    destruct (chunks_of W vals wstart fs2 _) as [cb|]; [|discriminate]. cbn [bind] in E, E'. injection E as <-. injection E' as <-.
    exists ca, old, new, cb. repeat split; try assumption.
    clear -Ea. revert base ca Ea. induction fs1 as [|g r IH]; intros base ca Ea; cbn [chunks_of] in Ea; [now injection Ea as <-|].
    destruct (W g _ _) as [y|]; [|discriminate]. cbn [bind] in Ea. destruct (chunks_of W vals wstart r _) as [cr|] eqn:Er; [|discriminate]. cbn [bind] in Ea. injection Ea as <-.
    cbn [length]. f_equal. exact (IH _ _ Er).
  Qed.
End Assign.

Lemma concat_mid {A} (a : list (list A)) x b : List.concat (a ++ x :: b) = List.concat a ++ x ++ List.concat b.
Proof. rewrite concat_app. cbn [List.concat]. reflexivity. Qed.

(* assigning field f of a packed structure of plain fields *)
Theorem assign_is_local c nm fs1 f fs2 vals sz sz' x wpos bs bs' n :
  let fs := fs1 ++ f :: fs2 in
  let vals' := set_field (f_name f) x vals in
  Forall (fun g => f_bits g = None /\ f_off g = None) fs -> NoDup (map f_name fs) ->
  Forall (fun g => sized c (fun g => write_ty c (f_ty g)) vals g /\ sized c (fun g => write_ty c (f_ty g)) vals' g) fs ->
  ty_size c (f_ty f) = Some n ->
  write_ty c (TStruct nm fs false) (VStruct vals sz) wpos = Ok bs ->
  write_ty c (TStruct nm fs false) (VStruct vals' sz') wpos = Ok bs' ->
  exists a old new b, bs = a ++ old ++ b /\ bs' = a ++ new ++ b /\ zlen old = n /\ zlen new = n.
Proof.
  intros fs vals' Hpl Hnd Hsz Hn H H'. cbn [write_ty] in H, H'.
  destruct (layout_struct c false fs) as [lay|] eqn:EL; [|discriminate].
  assert (Hag : offs_agree c (Some 0) fs (l_offs lay)).
  { unfold layout_struct in EL. destruct (layout_go c false fs _) as [[offs st']|] eqn:EG; [|discriminate]. cbn [bind fst snd] in EL. injection EL as <-. cbn [l_offs].
    exact (layout_go_agree c fs Hpl _ _ _ EG). }
  assert (Hout : forall y, Some 0 = Some y -> zlen (@nil Z) = y) by (intros y E; injection E as <-; reflexivity).
  assert (F1 : Forall (fun g => f_bits g = None /\ sized c (fun g => write_ty c (f_ty g)) vals g) fs).
  { rewrite Forall_forall in *. intros g Hg. split; [exact (proj1 (Hpl g Hg))|exact (proj1 (Hsz g Hg))]. }
  assert (F2 : Forall (fun g => f_bits g = None /\ sized c (fun g => write_ty c (f_ty g)) vals' g) fs).
  { rewrite Forall_forall in *. intros g Hg. split; [exact (proj1 (Hpl g Hg))|exact (proj2 (Hsz g Hg))]. }
  pose proof (wloop_is_chunks c (fun g => write_ty c (f_ty g)) vals wpos fs F1 _ _ Hag [] Hout) as W1.
  pose proof (wloop_is_chunks c (fun g => write_ty c (f_ty g)) vals' wpos fs F2 _ _ Hag [] Hout) as W2.
  unfold wfn in *. rewrite W1 in H. rewrite W2 in H'. clear W1 W2.
  destruct (chunks_of _ vals wpos fs (zlen [])) as [chs|] eqn:E1; [|discriminate].
  destruct (chunks_of _ vals' wpos fs (zlen [])) as [chs'|] eqn:E2; [|discriminate].
  cbn [bind app wb_flush wb_type wb_empty] in H, H'. rewrite app_nil_r in H, H'. injection H as <-. injection H' as <-.
  unfold fs in Hnd. rewrite map_app in Hnd. cbn [map] in Hnd. pose proof (NoDup_remove_2 _ _ _ Hnd) as Hni. rewrite in_app_iff in Hni.
  assert (Hf : In f fs) by (unfold fs; rewrite in_app_iff; right; now left).
  rewrite Forall_forall in Hsz. destruct (Hsz f Hf) as [S1 S2].
  destruct (chunks_assign c _ vals wpos (f_name f) x fs1 f fs2 n eq_refl ltac:(tauto) ltac:(tauto) Hn S1 S2 _ _ _ E1 E2) as [a [old [new [b [-> [-> [Lo [Ln _]]]]]]]].
  exists (List.concat a), old, new, (List.concat b). rewrite !concat_mid. repeat split; assumption.
Qed.

(* typed values have their declared size when dumped *)
Lemma typed_write_has_size c : endian_ok (c_endian c) -> forall t, flat t = true -> rt_ty c t = true ->
  forall v wpos bs n, has_ty c t v -> write_ty c t v wpos = Ok bs -> ty_size c t = Some n -> zlen bs = n.
Proof.
  intros He t Hfl Hrt v wpos bs n Hv Hw Hn.
  destruct (parse_dump_identity c He 0%nat t Hfl Hrt v wpos bs Hv Hw [] [] []) as [v' [Rd _]].
  pose proof (read_consumes_size c 0%nat t Hfl n Hn _ _ _ _ _ Rd) as E. unfold zlen in *. cbn [length] in E. lia.
Qed.
