(* BitFidelity.v — byte fidelity for bit-field structures (C02's clause on unassigned bits): dumping what was parsed reproduces the unit
   on every bit that belongs to a field and writes the unassigned bits as zero. *)
From Coq Require Import Lia.
From VF Require Import Model.Writer Proofs.BitsCorrect Proofs.BitRun Proofs.BitStruct Proofs.CodecCorrect Proofs.ReaderProps Proofs.RoundTrip Proofs.ValueRoundTrip.
Open Scope string_scope. Open Scope list_scope. Open Scope Z_scope.

Lemma le_read_length u : forall ws, length (le_read_seq u ws) = length ws.
Proof. intros ws. revert u. induction ws as [|w r IH]; intros u; cbn [le_read_seq length]; [reflexivity|]. now rewrite IH. Qed.
Lemma be_read_length u : forall ws R, length (be_read_seq u R ws) = length ws.
Proof. induction ws as [|w r IH]; intros R; cbn [be_read_seq length]; [reflexivity|]. now rewrite IH. Qed.

Lemma Forall2_weaken {A B} (P Q : A -> B -> Prop) l1 l2 : (forall a b, P a b -> Q a b) -> Forall2 P l1 l2 -> Forall2 Q l1 l2.
Proof. intros H F. induction F; constructor; auto. Qed.

(* the parsed values are found under the field names, when the names are distinct *)
Lemma named_names : forall run vs, length vs = length run -> map fst (as_values (named run vs)) = map fst run.
Proof.
  unfold as_values, named. induction run as [|[n w] run IH]; intros vs Hl; destruct vs as [|v vs]; try discriminate; [reflexivity|].
  cbn [map fst combine snd]. f_equal. apply IH. cbn [length] in Hl. lia.
Qed.
Lemma named_members : forall run vs, length vs = length run -> Forall2 (fun nw v => In (fst nw, VInt v) (as_values (named run vs))) run vs.
Proof.
  unfold as_values, named. induction run as [|[n w] run IH]; intros vs Hl; destruct vs as [|v vs]; try discriminate; [constructor|].
  cbn [map fst combine snd]. constructor; [now left|]. cbn [length] in Hl. assert (Hl' : length vs = length run) by lia.
  specialize (IH vs Hl'). eapply Forall2_weaken; [|exact IH]. intros a b H. now right.
Qed.
Lemma looked_up_named run vs : NoDup (map fst run) -> length vs = length run -> looked_up (as_values (named run vs)) run vs.
Proof.
  intros Hnd Hl. unfold looked_up. pose proof (named_members run vs Hl) as M. rewrite <- (named_names run vs Hl) in Hnd.
  eapply Forall2_weaken; [|exact M]. intros a b Hin. now apply lookup_nodup.
Qed.

Lemma map_snd_named_le u (run : list (string * Z)) : length (le_read_seq u (map snd run)) = length run.
Proof. now rewrite le_read_length, map_length. Qed.

(* little endian: dump(parse) is the unit with everything above the fields' bits cleared *)
Theorem bit_struct_fidelity_le c k pk al nm n w run fuel s pos ctx v q wpos :
  String.eqb (c_endian c) "<" = true -> endian_ok (c_endian c) -> (0 < k)%nat -> NoDup (map fst ((n, w) :: run)) ->
  widths_ok (w :: map snd run) -> w + total (map snd run) <= Z.of_nat k * 8 ->
  read_ty c fuel (TStruct nm (run_fields (PInt k false pk) al ((n, w) :: run)) false) s pos ctx = Ok (v, q) ->
  exists u, prim_read_at (c_endian c) (PInt k false pk) s pos = Ok (VInt u, q) /\
    write_ty c (TStruct nm (run_fields (PInt k false pk) al ((n, w) :: run)) false) v wpos
    = int_to_bytes (prim_endian (PInt k false pk) (c_endian c)) k false (u mod 2 ^ (w + total (map snd run))).
Proof.
  intros Hle He Hk Hnd Hw Ht Hr. set (p := PInt k false pk) in *. assert (Hsz : prim_size_z p = Some (Z.of_nat k)) by reflexivity.
  (* the first scalar read must have succeeded *)
  destruct (prim_read_at (c_endian c) p s pos) as [[x p']|] eqn:Ep.
  2:{ exfalso. cbn [read_ty] in Hr. rewrite (layout_run c p al (Z.of_nat k) Hsz n w run Hw Ht) in Hr. cbn [l_offs] in Hr.
      cbn [run_fields map struct_loop meta_of fm_bits fm_name fm_storage f_bits f_name f_ty bit_storage fst snd] in Hr.
      inversion Hw as [|? ? Hw0 _]; subst. assert (w =? 0 = false) as E0 by lia. rewrite E0 in Hr.
      unfold bb_read in Hr. cbn [bb_rem bb_empty Z.eqb orb] in Hr. cbn [prim_size_z prim_size option_map] in Hr. fold p in Hr. rewrite Z.add_0_r in Hr. rewrite Ep in Hr. discriminate. }
  assert (Hx : exists u, x = VInt u).
  { unfold prim_read_at in Ep. cbn [p prim_read] in Ep. destruct (split_at k (srest s pos)) as [[a b]|]; [|discriminate]. cbn [bind fst snd] in Ep. injection Ep as <- _. eauto. }
  destruct Hx as [u ->].
  rewrite (read_bit_struct c p al (Z.of_nat k) Hsz fuel nm n w run s pos ctx u p' Hw Ht Ep) in Hr. rewrite Hle in Hr.
  assert (Hv : v = VStruct (as_values (named ((n, w) :: run) (le_read_seq u (w :: map snd run)))) [] /\ q = p') by (split; congruence). destruct Hv as [-> ->]. clear Hr.
  exists u. split; [reflexivity|].
  assert (Hlen : length (le_read_seq u (w :: map snd run)) = length ((n, w) :: run)) by (rewrite le_read_length; cbn [length]; now rewrite map_length).
  rewrite (write_bit_struct c p al (Z.of_nat k) Hsz Hle nm n w run _ [] _ wpos ltac:(lia) (looked_up_named _ _ Hnd Hlen) Hw (le_read_range u _ Hw) Ht).
  change (w :: map snd run) with (map snd ((n, w) :: run)) at 1. cbn [map snd].
  rewrite (le_pack_read u (w :: map snd run) Hw). cbn [total fold_right]. fold (total (map snd run)).
  unfold wb_flush. cbn [wb_type wb_buf]. unfold unit_write, flush_value. cbn [p prim_write]. reflexivity.
Qed.

(* big endian: the fields tile the top of the unit; the low unassigned bits come back as zero *)
Theorem bit_struct_fidelity_be c k pk al nm n w run fuel s pos ctx v q wpos :
  String.eqb (c_endian c) "<" = false -> endian_ok (c_endian c) -> (0 < k)%nat -> NoDup (map fst ((n, w) :: run)) ->
  widths_ok (w :: map snd run) -> w + total (map snd run) <= Z.of_nat k * 8 ->
  read_ty c fuel (TStruct nm (run_fields (PInt k false pk) al ((n, w) :: run)) false) s pos ctx = Ok (v, q) ->
  exists u, prim_read_at (c_endian c) (PInt k false pk) s pos = Ok (VInt u, q) /\
    write_ty c (TStruct nm (run_fields (PInt k false pk) al ((n, w) :: run)) false) v wpos
    = int_to_bytes (prim_endian (PInt k false pk) (c_endian c)) k false
        (u mod 2 ^ (Z.of_nat k * 8) - u mod 2 ^ (Z.of_nat k * 8 - (w + total (map snd run)))).
Proof.
  intros Hbe He Hk Hnd Hw Ht Hr. set (p := PInt k false pk) in *. assert (Hsz : prim_size_z p = Some (Z.of_nat k)) by reflexivity.
  destruct (prim_read_at (c_endian c) p s pos) as [[x p']|] eqn:Ep.
  2:{ exfalso. cbn [read_ty] in Hr. rewrite (layout_run c p al (Z.of_nat k) Hsz n w run Hw Ht) in Hr. cbn [l_offs] in Hr.
      cbn [run_fields map struct_loop meta_of fm_bits fm_name fm_storage f_bits f_name f_ty bit_storage fst snd] in Hr.
      inversion Hw as [|? ? Hw0 _]; subst. assert (w =? 0 = false) as E0 by lia. rewrite E0 in Hr.
      unfold bb_read in Hr. cbn [bb_rem bb_empty Z.eqb orb] in Hr. cbn [prim_size_z prim_size option_map] in Hr. fold p in Hr. rewrite Z.add_0_r in Hr. rewrite Ep in Hr. discriminate. }
  assert (Hx : exists u, x = VInt u).
  { unfold prim_read_at in Ep. cbn [p prim_read] in Ep. destruct (split_at k (srest s pos)) as [[a b]|]; [|discriminate]. cbn [bind fst snd] in Ep. injection Ep as <- _. eauto. }
  destruct Hx as [u ->].
  rewrite (read_bit_struct c p al (Z.of_nat k) Hsz fuel nm n w run s pos ctx u p' Hw Ht Ep) in Hr. rewrite Hbe in Hr.
  assert (Hv : v = VStruct (as_values (named ((n, w) :: run) (be_read_seq u (Z.of_nat k * 8) (w :: map snd run)))) [] /\ q = p') by (split; congruence). destruct Hv as [-> ->]. clear Hr.
  exists u. split; [reflexivity|].
  assert (Hlen : length (be_read_seq u (Z.of_nat k * 8) (w :: map snd run)) = length ((n, w) :: run)) by (rewrite be_read_length; cbn [length]; now rewrite map_length).
  assert (Ht' : total (w :: map snd run) <= Z.of_nat k * 8) by (cbn [total fold_right]; exact Ht).
  rewrite (write_bit_struct_be c p al (Z.of_nat k) Hsz Hbe nm n w run _ [] _ wpos ltac:(lia) (looked_up_named _ _ Hnd Hlen) Hw (be_read_range u _ _ Hw Ht') Ht).
  rewrite (be_pack_read u (Z.of_nat k * 8) (w :: map snd run) Hw Ht'). cbn [total fold_right]. fold (total (map snd run)).
  unfold wb_flush. cbn [wb_type wb_buf]. unfold unit_write, flush_value. cbn [p prim_write]. reflexivity.
Qed.
