(* BitLayout.v — when the layout opens a new storage unit for a bit field, when it continues the open one, and that a field which would straddle
   the unit is rejected (StructureMetaType._calculate_size_and_offsets, transcribed as Model.Layout.layout_step). *)
From Coq Require Import Lia.
From VF Require Import Model.Base Model.Layout.
Open Scope string_scope. Open Scope list_scope. Open Scope Z_scope.

Section BitLayout.
  Variable c : cfg.

  (* the unit is exhausted, or the storage type differs: a NEW unit of the field's storage type at the running offset; the field gets that offset,
     and nb of the unit's bits are taken - unless the field is wider than the unit, which is rejected *)
  Theorem new_unit_on_exhausted_or_other_type (al : bool) (st : lstate) (cur : option Z) (nb : Z) (sp : prim) (sal ssz : Z) (fsize : option Z) (falign : Z) :
    nb <> 0 -> prim_size_z sp = Some ssz ->
    ls_brem st = 0 \/ storage_eqb (Some (sp, sal)) (ls_btype st) = false ->
    let off0 := match cur with Some o => Some o | None => ls_off st end in
    let off1 := match off0 with Some o => if al then Some (o + pad_to o falign) else Some o | None => None end in
    layout_step al st cur (Some nb) (Some (sp, sal)) fsize falign =
      if ssz * 8 - nb <? 0 then Err EValue
      else Ok (mkLS (match off1 with Some o => Some (o + ssz) | None => None end) (Z.max (ls_align st) falign) (Some (sp, sal)) off1 (ssz * 8 - nb), off1).
  Proof.
    intros Hnb Hsz Hnew. cbv zeta. unfold layout_step. assert (nb =? 0 = false) as -> by now apply Z.eqb_neq.
    assert (Hnu : (if ls_brem st =? 0 then Ok true else if negb (storage_eqb (Some (sp, sal)) (ls_btype st)) then Ok true else
              match ls_btype st with None => Ok false | Some (bp, _) =>
                match match match cur with Some o => Some o | None => ls_off st end with Some o => if al then Some (o + pad_to o falign) else Some o | None => None end with
                | None => Ok false
                | Some o => match ls_boff st, prim_size_z bp with Some bo, Some bs => Ok (bo + bs <? o) | _, _ => Err EType end
                end end) = Ok true).
    { destruct Hnew as [H0|Hd]; [rewrite H0; reflexivity|]. destruct (ls_brem st =? 0); [reflexivity|]. now rewrite Hd. }
    rewrite Hnu. cbn [bind]. rewrite Hsz. cbn [bind ls_brem ls_off ls_align ls_btype ls_boff]. reflexivity.
  Qed.

  (* the open unit has the field's storage type, bits are left and the field does not lie beyond the unit: the field CONTINUES the unit - it gets no
     offset of its own (it keeps the one it was given), the unit stays where it is and loses nb bits; a field that needs more bits than are left
     would straddle the unit and is REJECTED *)
  Theorem same_unit_continues_or_straddle_is_rejected (al : bool) (st : lstate) (cur : option Z) (nb : Z) (sp : prim) (sal bs bo : Z) (fsize : option Z) (falign : Z) :
    nb <> 0 -> ls_brem st <> 0 -> ls_btype st = Some (sp, sal) -> prim_size_z sp = Some bs -> ls_boff st = Some bo ->
    let off0 := match cur with Some o => Some o | None => ls_off st end in
    let off1 := match off0 with Some o => if al then Some (o + pad_to o falign) else Some o | None => None end in
    (forall o, off1 = Some o -> o <= bo + bs) ->
    layout_step al st cur (Some nb) (Some (sp, sal)) fsize falign =
      if ls_brem st - nb <? 0 then Err EValue
      else Ok (mkLS off1 (Z.max (ls_align st) falign) (Some (sp, sal)) (Some bo) (ls_brem st - nb), cur).
  Proof.
    intros Hnb Hbr Hbt Hsz Hbo. cbv zeta. intros Hin. unfold layout_step. assert (nb =? 0 = false) as -> by now apply Z.eqb_neq.
    assert (ls_brem st =? 0 = false) as -> by now apply Z.eqb_neq. rewrite Hbt.
    assert (Hse : storage_eqb (Some (sp, sal)) (Some (sp, sal)) = true) by (cbn; rewrite Z.eqb_refl, Bool.andb_true_r; destruct sp; cbn; rewrite ?Nat.eqb_refl, ?Bool.eqb_reflx; reflexivity).
    rewrite Hse. cbn [negb]. rewrite Hbo, Hsz.
    destruct (match match cur with Some o => Some o | None => ls_off st end with Some o => if al then Some (o + pad_to o falign) else Some o | None => None end) as [o|] eqn:Eo.
    - assert (bo + bs <? o = false) as -> by (apply Z.ltb_ge; now apply Hin). cbn [bind ls_brem ls_off ls_align ls_btype ls_boff]. reflexivity.
    - cbn [bind ls_brem ls_off ls_align ls_btype ls_boff]. reflexivity.
  Qed.

  (* a member that is not a bit field closes the unit: afterwards no unit is open (a following bit field starts a new one, by the first theorem) *)
  Theorem plain_member_closes_the_unit (al : bool) (st : lstate) (cur : option Z) (fsize : option Z) (falign : Z) lst' o' :
    layout_step al st cur None None fsize falign = Ok (lst', o') -> ls_brem lst' = 0 /\ ls_btype lst' = None.
  Proof.
    unfold layout_step. destruct (match match cur with Some o => Some o | None => ls_off st end with Some o => if al then Some (o + pad_to o falign) else Some o | None => None end) as [o|];
      [destruct fsize|]; intros H; injection H as <- _; split; reflexivity.
  Qed.
End BitLayout.

(* BitBuffer.write never accepts a value that does not fit the width of the bit field: whatever the state of the buffer, the write fails
   (OverflowError once the unit is set up) and so cannot change the bits of a neighbouring field *)
From VF Require Import Model.Writer.
Lemma bit_field_overflow_rejected c wb storage data bits :
  (data < 0 \/ 2 ^ bits <= data) -> 0 <= bits -> exists er, wb_write c wb storage data bits = Err er.
Proof.
  intros Hbad Hb. unfold wb_write.
  assert (Hchk : (data <? 0) || negb (Z.shiftr data bits =? 0) = true).
  { destruct Hbad as [Hn|Hbig]; [assert (data <? 0 = true) as -> by lia; reflexivity|].
    assert (Hp : 0 < 2 ^ bits) by (apply Z.pow_pos_nonneg; lia).
    apply Bool.orb_true_iff. right. apply Bool.negb_true_iff, Z.eqb_neq. rewrite Z.shiftr_div_pow2 by lia.
    assert (1 <= data / 2 ^ bits) by (apply Z.div_le_lower_bound; lia). lia. }
  destruct ((wb_rem wb =? 0) || negb (storage_eqb (wb_type wb) storage)).
  - destruct (match wb_type wb with Some _ => wb_flush c wb | None => Ok [] end) as [out|er]; cbn [bind]; [|eexists; reflexivity].
    destruct storage as [[p al]|]; cbn [bind]; [|eexists; reflexivity]. destruct (prim_size_z p) as [sz|] eqn:Es; cbn [bind wb_type wb_rem wb_buf]; [|eexists; reflexivity].
    rewrite ?Es, ?Hchk. eexists; reflexivity.
  - cbn [bind]. destruct (match wb_type wb with Some (p, _) => prim_size_z p | None => None end); [|eexists; reflexivity]. rewrite Hchk. eexists; reflexivity.
Qed.
