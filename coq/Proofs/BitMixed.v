(* BitMixed.v — value round trip (C01) for packed structures that MIX plain members (scalars, arrays with fixed or expression counts,
   nested structures) with runs of bit fields over unsigned storage units, in both byte orders. *)
From Coq Require Import Lia.
From VF Require Import Model.Writer Proofs.TyInd Proofs.CodecCorrect Proofs.LayoutCorrect Proofs.ReaderProps Proofs.ArrayProps Proofs.SizeProps
     Proofs.RoundTrip Proofs.ValueRoundTrip Proofs.ValueRoundTripDyn Proofs.BitsCorrect Proofs.BitRun Proofs.BitStruct Proofs.BitSeg Proofs.CommitProps.
Open Scope string_scope. Open Scope list_scope. Open Scope Z_scope.

(* a structure body as segments: a plain member, or a run of bit fields over one unsigned unit of k bytes *)
Inductive seg := SPlain (f : field) | SRun (k : nat) (pk : bool) (al : Z) (run : list (string * Z)).
Definition seg_fields (sg : seg) : list field :=
  match sg with SPlain f => [f] | SRun k pk al run => run_fields (PInt k false pk) al run end.
Definition fields_of (segs : list seg) : list field := List.concat (map seg_fields segs).

Section Mixed.
  Variable c : cfg.

  Definition next_off (off : option Z) (f : field) : option Z :=
    match off, ty_size c (f_ty f) with Some x, Some n => Some (x + n) | _, _ => None end.
  (* well-formed bodies: plain members carry no bits / pre-set offsets; a run is non-empty, fits its unit, starts at a static offset and is
     not directly followed by another run *)
  Fixpoint segs_ok (off : option Z) (segs : list seg) : Prop :=
    match segs with
    | [] => True
    | SPlain f :: r => f_bits f = None /\ f_off f = None /\ segs_ok (next_off off f) r
    | SRun k pk al run :: r =>
      run <> [] /\ widths_ok (map snd run) /\ total (map snd run) <= Z.of_nat k * 8 /\ (0 < k)%nat /\
      (exists x, off = Some x /\ segs_ok (Some (x + Z.of_nat k)) r) /\ match r with SRun _ _ _ _ :: _ => False | _ => True end
    end.
  (* the offsets the layout assigns: a plain member and the first field of a run get the running offset, the other fields of a run none *)
  Fixpoint segs_agree (off : option Z) (segs : list seg) (offs : list (option Z)) : Prop :=
    match segs with
    | [] => offs = []
    | SPlain f :: r => exists ro, offs = off :: ro /\ segs_agree (next_off off f) r ro
    | SRun k pk al run :: r => exists x ro, off = Some x /\ offs = (Some x :: nones (tl run)) ++ ro /\ segs_agree (Some (x + Z.of_nat k)) r ro
    end.

  Lemma layout_run_mid k pk al n w run st off : ls_off st = Some off -> ls_brem st = 0 -> widths_ok (w :: map snd run) -> w + total (map snd run) <= Z.of_nat k * 8 ->
    exists a', layout_go c false (run_fields (PInt k false pk) al ((n, w) :: run)) st
    = Ok (Some off :: nones run, mkLS (Some (off + Z.of_nat k)) a' (Some (PInt k false pk, al)) (Some off) (Z.of_nat k * 8 - w - total (map snd run))).
  Proof.
    intros Ho Hb Hw Ht. inversion Hw as [|? ? Hw0 Hw']; subst. set (p := PInt k false pk). assert (Hsz : prim_size_z p = Some (Z.of_nat k)) by reflexivity.
    assert (Hr : 0 <= total (map snd run)) by now apply total_nonneg.
    cbn [run_fields map layout_go f_off f_bits f_ty bit_storage fst snd]. unfold field_align. cbn [f_ty ty_align ty_size].
    unfold layout_step at 1. rewrite Ho, Hb. assert (w =? 0 = false) as -> by lia. cbn [Z.eqb bind]. fold p. rewrite Hsz. cbn [bind fst snd ls_off ls_align ls_btype ls_boff ls_brem].
    assert (Z.of_nat k * 8 - w <? 0 = false) as -> by lia. cbn [bind fst snd].
    fold (run_fields p al run). rewrite (layout_run_tail c p al (Z.of_nat k) Hsz run off _ (Z.of_nat k * 8 - w) Hw' ltac:(lia)). cbn [bind fst snd].
    eexists. reflexivity.
  Qed.

  Lemma layout_segs_agree : forall segs off st offs st', segs_ok off segs -> ls_off st = off ->
    (match segs with SRun _ _ _ _ :: _ => ls_brem st = 0 | _ => True end) ->
    layout_go c false (fields_of segs) st = Ok (offs, st') -> segs_agree off segs offs.
  Proof.
    induction segs as [|[f|k pk al run] r IH]; intros off st offs st' Hok Hoff Hbr H.
    - cbn in H. injection H as <- _. reflexivity.
    - destruct Hok as [Hb [Ho Hok]]. unfold fields_of in H. cbn [map seg_fields List.concat app layout_go] in H. fold (fields_of r) in H.
      rewrite Hb, Ho in H. unfold layout_step in H. rewrite Hoff in H.
      assert (G : forall st1 o1, ls_off st1 = next_off off f -> ls_brem st1 = 0 -> o1 = off ->
                  (do y <- layout_go c false (fields_of r) st1; Ok (o1 :: fst y, snd y)) = Ok (offs, st') -> segs_agree off (SPlain f :: r) offs).
      { intros st1 o1 E1 E2 -> G. destruct (layout_go c false (fields_of r) st1) as [[offs' st'']|] eqn:E; [|discriminate]. cbn [bind fst snd] in G. injection G as <- _.
        cbn [segs_agree]. exists offs'. split; [reflexivity|]. apply (IH _ st1 offs' st'' Hok E1); [|exact E]. destruct r as [|[g|k2 pk2 al2 run2] r2]; auto. }
      unfold next_off in *. destruct off as [o0|]; [destruct (ty_size c (f_ty f)) as [m|]|]; cbn [bind fst snd] in H; (eapply G; [| |reflexivity|exact H]); reflexivity.
    - destruct Hok as [Hne [Hw [Ht [Hk [[x [-> Hok]] Hnr]]]]]. destruct run as [|[n w] run]; [contradiction|].
      unfold fields_of in H. cbn [map seg_fields List.concat] in H. fold (fields_of r) in H. rewrite (layout_go_app c false) in H.
      destruct (layout_run_mid k pk al n w run st x Hoff Hbr Hw ltac:(cbn [map snd total fold_right] in Ht; exact Ht)) as [a' E]. rewrite E in H. cbn [bind fst snd] in H.
      destruct (layout_go c false (fields_of r) _) as [[offs' st'']|] eqn:E2; [|discriminate]. cbn [bind fst snd] in H. injection H as <- _.
      cbn [segs_agree tl]. exists x, offs'. split; [reflexivity|]. split; [reflexivity|].
      refine (IH _ _ offs' st'' Hok _ _ E2); [reflexivity|]. destruct r as [|[g|k2 pk2 al2 run2] r2]; [exact I|exact I|destruct Hnr].
  Qed.

  Hypothesis He : endian_ok (c_endian c).
  Local Notation MW W := (fun f : field => (wmeta_of c f, W f)).
  Local Notation MR R := (fun f : field => (meta_of c f, R f)).

  (* typing of the values of a body, the expression context threaded as the reader does *)
  Fixpoint typed_segs (T : field -> ctxt -> value -> Prop) (vals : list (string * value)) (segs : list seg) (cx : ctxt) : Prop :=
    match segs with
    | [] => True
    | SPlain f :: r => match lookup_field (f_name f) vals with Some x => T f cx x /\ typed_segs T vals r (int_ctx (f_name f) x cx) | None => False end
    | SRun k pk al run :: r => exists vs, looked_up vals run vs /\ fits_widths (map snd run) vs /\ typed_segs T vals r (rev (named run vs) ++ cx)
    end.
  Definition plain_ok (R : field -> rfn) (W : field -> wfn) (T : field -> ctxt -> value -> Prop) (sg : seg) : Prop :=
    match sg with
    | SPlain f => rtc (R f) (W f) (T f) /\ (forall n, ty_size c (f_ty f) = Some n -> consumes (R f) n)
    | SRun _ _ _ _ => True
    end.
  (* a bit buffer as the write loop leaves it between members: empty, or an open unit *)
  Definition wb_wf (wb : wbuf) : Prop := wb_type wb = None -> wb = wb_empty.

  (* one unit: its bytes decode to the packed integer *)
  Lemma unit_bytes_decode k pk al B fl pre rest : (0 < k)%nat ->
    wb_flush c (mkWB (Some (PInt k false pk, al)) B 0) = Ok fl ->
    prim_read_at (c_endian c) (PInt k false pk) (pre ++ fl ++ rest) (zlen pre) = Ok (VInt B, zlen pre + zlen fl) /\ zlen fl = Z.of_nat k.
  Proof.
    intros Hk Hf. unfold wb_flush in Hf. cbn [wb_type wb_buf] in Hf. unfold unit_write, flush_value in Hf. cbn [prim_write] in Hf.
    destruct (int_roundtrip _ _ _ _ _ (He (PInt k false pk)) Hf) as [Hlen [_ Hdec]].
    assert (Hsp : split_at k (fl ++ rest) = Ok (fl, rest)) by (rewrite <- Hlen; apply split_at_app_exact).
    split; [|unfold zlen; lia]. unfold prim_read_at. rewrite srest_mid. cbn [prim_read]. rewrite Hsp. cbn [bind fst snd]. rewrite Hdec.
    f_equal. f_equal. unfold zlen. rewrite app_length. lia.
  Qed.
  Lemma wb_flush_rem st B r1 r2 : wb_flush c (mkWB st B r1) = wb_flush c (mkWB st B r2).
  Proof. reflexivity. Qed.

  (* the readers attached to bit-field members are never called *)
  Lemma run_readers_irrelevant e start st a (g : string * Z -> rfn) rd0 : forall run rest ro s pos bb vals sizes lctx, widths_ok (map snd run) ->
    struct_loop e false start (map (fun nw => (mkFM (fst nw) (Some (snd nw)) st a, g nw)) run ++ rest) (nones run ++ ro) s pos bb vals sizes lctx
    = struct_loop e false start (run_items st a rd0 run ++ rest) (nones run ++ ro) s pos bb vals sizes lctx.
  Proof.
    induction run as [|[n w] run IH]; intros rest ro s pos bb vals sizes lctx Hw; [reflexivity|].
    inversion Hw as [|? ? Hw0 Hw']; subst. cbn [snd] in Hw0. cbn [run_items nones map app struct_loop fm_bits fm_name fm_storage fst snd].
    assert (w =? 0 = false) as -> by lia.
    destruct (bb_read e s pos bb st w) as [[[v bb'] pos']|]; cbn [bind]; [|reflexivity].
    fold (run_items st a rd0 run). fold (nones run). apply IH. exact Hw'.
  Qed.

  Lemma strip_named vals_all p al : forall run vs, looked_up vals_all run vs ->
    strip_fields (as_values (named run vs)) = map (fun f => (f_name f, strip (expect vals_all f))) (run_fields p al run).
  Proof.
    unfold looked_up, as_values, named. induction run as [|[n w] run IH]; intros vs Hl; inversion Hl as [|? v ? vs' H0 Hl']; subst; [reflexivity|].
    cbn [map fst snd combine run_fields strip_fields f_name]. unfold expect at 1. cbn [f_name fst] in *. rewrite H0. cbn [strip]. f_equal. exact (IH vs' Hl').
  Qed.

  Lemma strip_fields_app a b : strip_fields (a ++ b) = strip_fields a ++ strip_fields b.
  Proof. unfold strip_fields. apply map_app. Qed.
  Lemma pending_empty : pending c wb_empty = Ok [].
  Proof. reflexivity. Qed.

  Lemma segs_rt_loop (R : field -> rfn) (W : field -> wfn) (T : field -> ctxt -> value -> Prop) : forall segs,
    Forall (plain_ok R W T) segs ->
    forall off offs, segs_ok off segs -> segs_agree off segs offs ->
    forall vals_all wstart out wb out' wb' xf cx,
      typed_segs T vals_all segs cx -> wb_wf wb ->
      (match segs with SRun _ _ _ _ :: _ => wb = wb_empty | _ => True end) ->
      (forall x o, pending c wb = Ok x -> off = Some o -> zlen (out ++ x) = o) ->
      wstruct_loop c false wstart vals_all (map (MW W) (fields_of segs)) offs out wb = Ok (out', wb') ->
      pending c wb' = Ok xf ->
      exists x chunk, pending c wb = Ok x /\ out' ++ xf = (out ++ x) ++ chunk /\
        forall pre rest start bb vals sizes,
          (forall o, off = Some o -> zlen pre = start + o) ->
          (match segs with SRun _ _ _ _ :: _ => bb_rem bb = 0 | _ => True end) ->
          exists news sz', struct_loop (c_endian c) false start (map (MR R) (fields_of segs)) offs (pre ++ chunk ++ rest) (zlen pre) bb vals sizes cx
                            = Ok (rev vals ++ news, sz', zlen pre + zlen chunk)
                          /\ strip_fields news = map (fun f => (f_name f, strip (expect vals_all f))) (fields_of segs).
  Proof.
    induction segs as [|[f|k pk al run] r IH]; intros Hpl off offs Hok Hag vals_all wstart out wb out' wb' xf cx HT Hwf Hfirst Hoff Hw Hfin.
    - cbn [segs_agree] in Hag. subst offs. unfold fields_of in *. cbn [map List.concat wstruct_loop] in Hw. injection Hw as <- <-.
      exists xf, []. split; [exact Hfin|]. split; [now rewrite app_nil_r|].
      intros pre rest start bb vals sizes _ _. exists [], (rev sizes). cbn [map List.concat struct_loop app]. rewrite app_nil_r. split; [|reflexivity].
      f_equal. f_equal. unfold zlen. cbn [length]. lia.
    - (* a plain member *)
      inversion Hpl as [|? ? Hp0 Hpl']; subst. cbn [plain_ok] in Hp0. destruct Hp0 as [Hrt Hc]. destruct Hok as [Hb [Ho Hok]]. destruct Hag as [ro [-> Hag]].
      change (fields_of (SPlain f :: r)) with (f :: fields_of r) in *.
      cbn [typed_segs] in HT. destruct (lookup_field (f_name f) vals_all) as [xv|] eqn:Hlk; [|destruct HT]. destruct HT as [Hx HTr].
      rewrite (plain_settles c W vals_all wstart f (fields_of r) off ro out wb Hb Hwf) in Hw.
      destruct (pending c wb) as [x|] eqn:Ep; [|discriminate]. cbn [bind] in Hw.
      set (out0 := out ++ x) in *.
      cbn [map wstruct_loop] in Hw. cbn [wmeta_of wm_bits wm_name wm_storage wm_align wm_isprim wm_default wb_type wb_empty bind] in Hw.
      rewrite Hb, Hlk in Hw.
      assert (P1 : match off with Some fo => if wstart + zlen (out0 ++ []) <? wstart + fo then zeros (wstart + fo - (wstart + zlen (out0 ++ []))) else [] | None => [] end = []).
      { destruct off as [x0|]; [|reflexivity]. rewrite app_nil_r. unfold out0. rewrite (Hoff x x0 eq_refl eq_refl). now rewrite Z.ltb_irrefl. }
      rewrite P1 in Hw. assert (P2 : match off with None => [] | Some _ => [] end = (@nil Z)) by now destruct off. rewrite P2 in Hw. cbn [app] in Hw. rewrite !app_nil_r in Hw.
      destruct (W f xv (wstart + zlen out0)) as [bs|] eqn:Ew; [|discriminate]. cbn [bind] in Hw.
      assert (Hsz : forall n, ty_size c (f_ty f) = Some n -> zlen bs = n).
      { intros n Hn. destruct (Hrt cx xv _ bs Hx Ew [] []) as [v' [Rd _]]. apply (Hc n Hn) in Rd. unfold zlen in *. cbn [length] in Rd. lia. }
      destruct (IH Hpl' _ _ Hok Hag vals_all wstart (out0 ++ bs) wb_empty out' wb' xf _ HTr) as [x1 [chunk [Ep1 [Eout Rd]]]];
        [intros E; reflexivity|destruct r as [|[g|k2 pk2 al2 run2] r2]; auto| |exact Hw|exact Hfin|].
      { intros x1 o1 Ex1 Eo1. rewrite pending_empty in Ex1. injection Ex1 as <-. rewrite app_nil_r. unfold next_off in Eo1.
        destruct off as [x0|]; [|discriminate]. destruct (ty_size c (f_ty f)) as [n|] eqn:En; [|discriminate]. injection Eo1 as <-.
        unfold zlen in *. rewrite app_length, Nat2Z.inj_add. unfold out0 in *. rewrite (Hoff x x0 eq_refl eq_refl). f_equal. exact (Hsz n eq_refl). }
      rewrite pending_empty in Ep1. injection Ep1 as <-. rewrite app_nil_r in Eout.
      exists x, (bs ++ chunk). split; [reflexivity|]. split; [rewrite Eout; unfold out0; now rewrite <- !app_assoc|].
      intros pre rest start bb vals sizes Hpre _. cbn [map struct_loop]. cbn [meta_of fm_bits fm_name]. rewrite Hb.
      assert (E1 : match off with Some fo => start + fo | None => zlen pre end = zlen pre) by (destruct off as [x0|]; [symmetry; now apply Hpre|reflexivity]).
      rewrite E1. rewrite <- app_assoc. destruct (Hrt cx xv _ bs Hx Ew pre (chunk ++ rest)) as [v' [Rf Sf]]. rewrite Rf. cbn [bind fst snd].
      rewrite (int_ctx_strip (f_name f) v' xv cx Sf).
      replace (zlen pre + zlen bs) with (zlen (pre ++ bs)) by (unfold zlen; rewrite app_length; lia).
      replace (pre ++ bs ++ chunk ++ rest) with ((pre ++ bs) ++ chunk ++ rest) by now rewrite <- app_assoc.
      destruct (Rd (pre ++ bs) rest start bb_empty ((f_name f, v') :: vals) ((f_name f, zlen (pre ++ bs) - zlen pre) :: sizes)) as [news [sz' [Rl Sl]]].
      { intros o1 Eo1. unfold next_off in Eo1. destruct off as [x0|]; [|discriminate]. destruct (ty_size c (f_ty f)) as [n|] eqn:En; [|discriminate]. injection Eo1 as <-.
        unfold zlen in *. rewrite app_length, Nat2Z.inj_add, (Hpre x0 eq_refl). rewrite <- (Hsz n eq_refl). lia. }
      { destruct r as [|[g|k2 pk2 al2 run2] r2]; auto. }
      rewrite Rl. exists ((f_name f, v') :: news), sz'. cbn [rev]. rewrite <- app_assoc. split.
      + f_equal. f_equal. unfold zlen. rewrite !app_length. lia.
      + cbn [strip_fields map fst snd]. fold (strip_fields news). rewrite Sl. unfold expect at 2. rewrite Hlk, Sf. reflexivity.
    - (* a run of bit fields *)
      inversion Hpl as [|? ? _ Hpl']; subst.
      destruct Hok as [Hne [Hw0 [Ht [Hk [[o [-> Hok]] Hnr]]]]]. destruct run as [|[n w] run]; [contradiction|].
      destruct Hag as [o' [ro [Eo [-> Hag]]]]. injection Eo as <-.
      cbn [typed_segs] in HT. destruct HT as [vs [Hl [Hf HTr]]].
      set (p := PInt k false pk) in *. assert (Hsz : prim_size_z p = Some (Z.of_nat k)) by reflexivity. assert (Hpos : 0 < Z.of_nat k) by lia.
      change (fields_of (SRun k pk al ((n, w) :: run) :: r)) with (run_fields p al ((n, w) :: run) ++ fields_of r) in *.
      cbn [tl app] in *. cbn [map snd total fold_right] in Ht. fold (total (map snd run)) in Ht.
      assert (Ho : zlen out = o) by (rewrite <- (app_nil_r out); exact (Hoff [] o pending_empty eq_refl)).
      rewrite (wrun_from_empty c p al (Z.of_nat k) Hsz Hpos W vals_all wstart (fields_of r) ro n w run vs (Some o) out Hl Hw0 Hf Ht Ho) in Hw.
      set (B := packv c (Z.of_nat k) (w :: map snd run) vs) in *.
      assert (Hr_not_run : match r with SRun _ _ _ _ :: _ => False | _ => True end) by exact Hnr.
      assert (Common : exists fl chunk1, wb_flush c (mkWB (Some (p, al)) B 0) = Ok fl /\ out' ++ xf = (out ++ fl) ++ chunk1 /\
                forall pre rest start bb vals sizes, (forall o1, Some (o + Z.of_nat k) = Some o1 -> zlen pre = start + o1) ->
                  exists news sz', struct_loop (c_endian c) false start (map (MR R) (fields_of r)) ro (pre ++ chunk1 ++ rest) (zlen pre) bb vals sizes (rev (named ((n, w) :: run) vs) ++ cx)
                                    = Ok (rev vals ++ news, sz', zlen pre + zlen chunk1)
                                  /\ strip_fields news = map (fun f => (f_name f, strip (expect vals_all f))) (fields_of r)).
      { unfold wrun_result, continue_with in Hw. destruct (Z.eqb_spec (Z.of_nat k * 8 - (w + total (map snd run))) 0) as [E0|E0].
        - (* the run fills its unit: flushed by its last field *)
          destruct (wb_flush c (mkWB (Some (p, al)) B 0)) as [fl|] eqn:Efl; [|discriminate]. cbn [bind] in Hw.
          destruct (IH Hpl' _ _ Hok Hag vals_all wstart (out ++ fl) wb_empty out' wb' xf _ HTr) as [x1 [chunk1 [Ep1 [Eout Rd]]]];
            [intros E; reflexivity|destruct r as [|[g|k2 pk2 al2 run2] r2]; auto| |exact Hw|exact Hfin|].
          { intros x1 o1 Ex1 Eo1. rewrite pending_empty in Ex1. injection Ex1 as <-. injection Eo1 as <-. rewrite app_nil_r.
            destruct (unit_bytes_decode k pk al B fl [] [] Hk Efl) as [_ Hfl]. unfold zlen in *. rewrite app_length, Nat2Z.inj_add. lia. }
          rewrite pending_empty in Ep1. injection Ep1 as <-. rewrite app_nil_r in Eout.
          exists fl, chunk1. split; [reflexivity|]. split; [exact Eout|].
          intros pre rest start bb vals sizes Hpre. apply Rd; [exact Hpre|]. destruct r as [|[g|k2 pk2 al2 run2] r2]; [exact I|exact I|destruct Hr_not_run].
        - (* the unit stays open: flushed by the next (plain) member or at the end of the structure *)
          set (wbP := mkWB (Some (p, al)) B (Z.of_nat k * 8 - (w + total (map snd run)))) in *.
          destruct (IH Hpl' _ _ Hok Hag vals_all wstart out wbP out' wb' xf _ HTr) as [x1 [chunk1 [Ep1 [Eout Rd]]]];
            [intros E; discriminate|destruct r as [|[g|k2 pk2 al2 run2] r2]; [exact I|exact I|destruct Hr_not_run]| |exact Hw|exact Hfin|].
          { intros x1 o1 Ex1 Eo1. injection Eo1 as <-. unfold pending, wbP in Ex1. cbn [wb_type] in Ex1. rewrite (wb_flush_rem _ B _ 0) in Ex1.
            destruct (unit_bytes_decode k pk al B x1 [] [] Hk Ex1) as [_ Hfl]. unfold zlen in *. rewrite app_length, Nat2Z.inj_add. lia. }
          unfold pending, wbP in Ep1. cbn [wb_type] in Ep1. rewrite (wb_flush_rem _ B _ 0) in Ep1.
          exists x1, chunk1. split; [exact Ep1|]. split; [exact Eout|].
          intros pre rest start bb vals sizes Hpre. apply Rd; [exact Hpre|]. destruct r as [|[g|k2 pk2 al2 run2] r2]; [exact I|exact I|destruct Hr_not_run]. }
      destruct Common as [fl [chunk1 [Efl [Eout Rd]]]].
      exists [], (fl ++ chunk1). split; [reflexivity|]. split; [rewrite app_nil_r, Eout; now rewrite <- !app_assoc|].
      intros pre rest start bb vals sizes Hpre Hbb.
      replace (pre ++ (fl ++ chunk1) ++ rest) with (pre ++ fl ++ (chunk1 ++ rest)) by (now rewrite <- !app_assoc).
      destruct (unit_bytes_decode k pk al B fl pre (chunk1 ++ rest) Hk Efl) as [Hp Hfl].
      (* the items of the run, with the readers normalised *)
      rewrite map_app.
      assert (Eitems : map (MR R) (run_fields p al ((n, w) :: run)) = map (fun nw => (mkFM (fst nw) (Some (snd nw)) (Some (p, al)) (if al =? 0 then 1 else al), R (Fld (fst nw) false (TPrim p al) (Some (snd nw)) None))) ((n, w) :: run)).
      { unfold run_fields. rewrite map_map. apply map_ext. intros [n0 w0]. reflexivity. }
      rewrite Eitems. change (Some o :: nones run ++ ro) with ((Some o :: nones run) ++ ro).
      cbn [map app]. rewrite (first_offset_here _ start _ _ _ _ _ (zlen pre) _ _ _ _ o ltac:(rewrite (Hpre o eq_refl); lia)).
      change (None :: nones run ++ ro) with (nones ((n, w) :: run) ++ ro).
      match goal with |- context [struct_loop _ false start (?x :: ?xs ++ ?ys) _ _ _ _ _ _ _] =>
        change (x :: xs ++ ys) with (map (fun nw => (mkFM (fst nw) (Some (snd nw)) (Some (p, al)) (if al =? 0 then 1 else al), R (Fld (fst nw) false (TPrim p al) (Some (snd nw)) None))) ((n, w) :: run) ++ ys) end.
      rewrite (run_readers_irrelevant _ start (Some (p, al)) _ _ (fun _ _ _ => Err EType) ((n, w) :: run) _ ro _ _ _ _ _ _ Hw0).
      assert (Hread : readv c (Z.of_nat k) B (w :: map snd run) = vs) by (apply (readv_packv c (Z.of_nat k)); [exact Hw0|exact Hf|cbn [total fold_right]; exact Ht]).
      unfold readv, le in Hread.
      destruct (String.eqb (c_endian c) "<") eqn:Ele.
      + rewrite (bit_unit_le (c_endian c) start p al _ _ Ele ((n, w) :: run) _ ro _ (zlen pre) bb B _ (Z.of_nat k) vals sizes cx ltac:(discriminate) Hw0 Hsz ltac:(cbn [map snd total fold_right]; exact Ht) Hbb Hp).
        change (map snd ((n, w) :: run)) with (w :: map snd run). rewrite Hread.
        replace (zlen pre + zlen fl) with (zlen (pre ++ fl)) by (unfold zlen; rewrite app_length; lia).
        replace (pre ++ fl ++ chunk1 ++ rest) with ((pre ++ fl) ++ chunk1 ++ rest) by now rewrite <- app_assoc.
        match goal with |- context [struct_loop _ false start _ ro _ _ ?b _ _ _] => destruct (Rd (pre ++ fl) rest start b (rev (as_values (named ((n, w) :: run) vs)) ++ vals) sizes) as [news [sz' [Rl Sl]]] end.
        { intros o1 Eo1. injection Eo1 as <-. unfold zlen in *. rewrite app_length, Nat2Z.inj_add, (Hpre o eq_refl). lia. }
        rewrite Rl. exists (as_values (named ((n, w) :: run) vs) ++ news), sz'. split.
        * rewrite rev_app_distr, rev_involutive, <- app_assoc. f_equal. f_equal. unfold zlen. rewrite !app_length. lia.
        * rewrite strip_fields_app, Sl, (strip_named vals_all p al _ _ Hl). now rewrite map_app.
      + rewrite (bit_unit_be (c_endian c) start p al _ _ Ele ((n, w) :: run) _ ro _ (zlen pre) bb B _ (Z.of_nat k) vals sizes cx ltac:(discriminate) Hw0 Hsz ltac:(cbn [map snd total fold_right]; exact Ht) Hbb Hp).
        change (map snd ((n, w) :: run)) with (w :: map snd run). rewrite Hread.
        replace (zlen pre + zlen fl) with (zlen (pre ++ fl)) by (unfold zlen; rewrite app_length; lia).
        replace (pre ++ fl ++ chunk1 ++ rest) with ((pre ++ fl) ++ chunk1 ++ rest) by now rewrite <- app_assoc.
        match goal with |- context [struct_loop _ false start _ ro _ _ ?b _ _ _] => destruct (Rd (pre ++ fl) rest start b (rev (as_values (named ((n, w) :: run) vs)) ++ vals) sizes) as [news [sz' [Rl Sl]]] end.
        { intros o1 Eo1. injection Eo1 as <-. unfold zlen in *. rewrite app_length, Nat2Z.inj_add, (Hpre o eq_refl). lia. }
        rewrite Rl. exists (as_values (named ((n, w) :: run) vs) ++ news), sz'. split.
        * rewrite rev_app_distr, rev_involutive, <- app_assoc. f_equal. f_equal. unfold zlen. rewrite !app_length. lia.
        * rewrite strip_fields_app, Sl, (strip_named vals_all p al _ _ Hl). now rewrite map_app.
  Qed.

  Lemma pending_is_flush wb : pending c wb = wb_flush c wb.
  Proof. unfold pending, wb_flush. destruct (wb_type wb) as [[p0 a0]|]; reflexivity. Qed.

  (* the structure-level statement *)
  Theorem mixed_struct_round_trip fuel nm segs :
    segs_ok (Some 0) segs -> NoDup (map f_name (fields_of segs)) ->
    Forall (plain_ok (fun f => read_ty c fuel (f_ty f)) (fun f => write_ty c (f_ty f)) (fun f => has_tyc c (f_ty f))) segs ->
    forall vals sizes wpos bs,
      typed_segs (fun f => has_tyc c (f_ty f)) vals segs [] -> map fst vals = map f_name (fields_of segs) ->
      write_ty c (TStruct nm (fields_of segs) false) (VStruct vals sizes) wpos = Ok bs ->
      forall pre rest ctx, exists v',
        read_ty c fuel (TStruct nm (fields_of segs) false) (pre ++ bs ++ rest) (zlen pre) ctx = Ok (v', zlen pre + zlen bs) /\ strip v' = strip (VStruct vals sizes).
  Proof.
    intros Hok Hnd Hpl vals sizes wpos bs HT Hnames Hw pre rest ctx.
    destruct (layout_struct c false (fields_of segs)) as [lay|] eqn:EL; [|cbn [write_ty] in Hw; rewrite EL in Hw; discriminate].
    assert (Hag : segs_agree (Some 0) segs (l_offs lay)).
    { unfold layout_struct in EL. destruct (layout_go c false (fields_of segs) _) as [[offs st']|] eqn:EG; [|discriminate]. cbn [bind fst snd] in EL. injection EL as <-. cbn [l_offs].
      refine (layout_segs_agree segs (Some 0) _ offs st' Hok _ _ EG); [reflexivity|]. destruct segs as [|[g|k pk al run] r]; cbn; auto. }
    rewrite (write_ty_struct c nm _ vals sizes wpos lay EL) in Hw.
    destruct (wstruct_loop c false wpos vals _ (l_offs lay) [] wb_empty) as [[out wb]|] eqn:EW; [|discriminate]. cbn [bind] in Hw.
    destruct (wb_flush c wb) as [fl|] eqn:Efl; [|discriminate]. cbn [bind] in Hw. injection Hw as <-.
    destruct (segs_rt_loop _ _ _ segs Hpl (Some 0) (l_offs lay) Hok Hag vals wpos [] wb_empty out wb fl [] HT ltac:(intros _; reflexivity)
                ltac:(destruct segs as [|[g|k pk al run] r]; auto)
                ltac:(intros x o Ex Eo; rewrite pending_empty in Ex; injection Ex as <-; injection Eo as <-; reflexivity) EW ltac:(rewrite pending_is_flush; exact Efl))
      as [x [chunk [Ep [Eout Rd]]]].
    rewrite pending_empty in Ep. injection Ep as <-. cbn [app] in Eout. subst chunk.
    destruct (Rd pre rest (zlen pre) bb_empty [] [] ltac:(intros o Eo; injection Eo as <-; lia) ltac:(destruct segs as [|[g|k pk al run] r]; cbn; auto)) as [news [sz' [Rl Sl]]].
    cbn [read_ty]. rewrite EL. unfold rfn in *. rewrite Rl. cbn [bind rev app]. exists (VStruct news sz'). split; [reflexivity|].
    rewrite !strip_struct. f_equal. rewrite Sl. rewrite <- Hnames in Hnd. exact (expect_all strip (fields_of segs) vals Hnames Hnd).
  Qed.

  (* plain members of the classes the earlier theorems cover satisfy the segment hypothesis *)
  Lemma plain_ok_of_class fuel f : flat (f_ty f) = true -> dyn_ty c (f_ty f) = true ->
    plain_ok (fun f => read_ty c fuel (f_ty f)) (fun f => write_ty c (f_ty f)) (fun f => has_tyc c (f_ty f)) (SPlain f).
  Proof.
    intros Hfl Hd. cbn [plain_ok]. split; [exact (parse_dump_identity_dyn c He fuel (f_ty f) Hfl Hd)|].
    intros n Hn. exact (read_consumes_size c fuel (f_ty f) Hfl n Hn).
  Qed.
End Mixed.
