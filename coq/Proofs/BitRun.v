(* BitRun.v — bit fields at the level of the structure loop (C06): a run of bit fields over one storage unit, read by
   StructureMetaType._read through the BitBuffer, yields exactly the slices of the unit's integer — first field lowest in little endian,
   highest in big endian — consumes the unit once, and leaves the remaining bits for the fields that follow. *)
From Coq Require Import Lia.
From VF Require Import Model.Reader Proofs.BitsCorrect.
Open Scope string_scope. Open Scope list_scope. Open Scope Z_scope.

Definition run_items (st : option (prim * Z)) (al : Z) (rd : rfn) (run : list (string * Z)) : list (fmeta * rfn) :=
  map (fun nw => (mkFM (fst nw) (Some (snd nw)) st al, rd)) run.
Definition nones {A} (run : list A) : list (option Z) := map (fun _ => None) run.
Definition named (run : list (string * Z)) (vs : list Z) : list (string * Z) := combine (map fst run) vs.
Definition as_values (l : list (string * Z)) : list (string * value) := map (fun nv => (fst nv, VInt (snd nv))) l.

(* inside a loaded unit, little endian *)
Lemma bit_run_le e start st al rd : String.eqb e "<" = true -> forall run rest ro s pos u R vals sizes lctx,
  widths_ok (map snd run) -> total (map snd run) <= R ->
  struct_loop e false start (run_items st al rd run ++ rest) (nones run ++ ro) s pos (mkBB st u R) vals sizes lctx
  = struct_loop e false start rest ro s pos (mkBB st (u / 2 ^ total (map snd run)) (R - total (map snd run)))
      (rev (as_values (named run (le_read_seq u (map snd run)))) ++ vals) sizes (rev (named run (le_read_seq u (map snd run))) ++ lctx).
Proof.
  intros He. induction run as [|[n w] run IH]; intros rest ro s pos u R vals sizes lctx Hw Ht.
  - cbn [map total fold_right le_read_seq named combine as_values rev app run_items nones]. rewrite Z.pow_0_r, Z.div_1_r, Z.sub_0_r. reflexivity.
  - cbn [map snd fst total fold_right] in *. inversion Hw as [|? ? Hw0 Hw']; subst.
    assert (Hr : 0 <= total (map snd run)) by now apply total_nonneg. fold (total (map snd run)) in *.
    cbn [run_items nones map app struct_loop fm_bits fm_name fm_storage fst snd].
    assert (w =? 0 = false) as -> by lia.
    rewrite (bb_read_step_le e s pos st u R w He ltac:(lia)). cbn [bind].
    fold (run_items st al rd run). fold (nones run).
    rewrite (IH rest ro s pos (u / 2 ^ w) (R - w) _ sizes _ Hw' ltac:(lia)).
    cbn [le_read_seq named map fst combine as_values rev]. fold (named run (le_read_seq (u / 2 ^ w) (map snd run))).
    rewrite Z.pow_add_r by lia. rewrite Z.div_div by (try apply Z.pow_pos_nonneg; lia).
    replace (R - w - total (map snd run)) with (R - (w + total (map snd run))) by lia.
    unfold as_values, named. cbn [map fst snd combine rev]. rewrite <- !app_assoc. reflexivity.
Qed.

(* inside a loaded unit, big endian: the buffer is kept, the fields come from the top of the remaining bits *)
Lemma bit_run_be e start st al rd : String.eqb e "<" = false -> forall run rest ro s pos u R vals sizes lctx,
  widths_ok (map snd run) -> total (map snd run) <= R ->
  struct_loop e false start (run_items st al rd run ++ rest) (nones run ++ ro) s pos (mkBB st u R) vals sizes lctx
  = struct_loop e false start rest ro s pos (mkBB st u (R - total (map snd run)))
      (rev (as_values (named run (be_read_seq u R (map snd run)))) ++ vals) sizes (rev (named run (be_read_seq u R (map snd run))) ++ lctx).
Proof.
  intros He. induction run as [|[n w] run IH]; intros rest ro s pos u R vals sizes lctx Hw Ht.
  - cbn [map total fold_right be_read_seq named combine as_values rev app run_items nones]. rewrite Z.sub_0_r. reflexivity.
  - cbn [map snd fst total fold_right] in *. inversion Hw as [|? ? Hw0 Hw']; subst.
    assert (Hr : 0 <= total (map snd run)) by now apply total_nonneg. fold (total (map snd run)) in *.
    cbn [run_items nones map app struct_loop fm_bits fm_name fm_storage fst snd].
    assert (w =? 0 = false) as -> by lia.
    rewrite (bb_read_step_be e s pos st u R w He ltac:(lia)). cbn [bind].
    fold (run_items st al rd run). fold (nones run).
    rewrite (IH rest ro s pos u (R - w) _ sizes _ Hw' ltac:(lia)).
    cbn [be_read_seq named map fst combine as_values rev]. fold (named run (be_read_seq u (R - w) (map snd run))).
    replace (R - w - total (map snd run)) with (R - (w + total (map snd run))) by lia.
    unfold as_values, named. cbn [map fst snd combine rev]. rewrite <- !app_assoc. reflexivity.
Qed.

(* the first bit field of a unit loads it: one scalar read through the storage type at the field's position *)
Lemma bb_read_loads e s pos bb p al w sz u p' : bb_rem bb = 0 -> prim_size_z p = Some sz ->
  prim_read_at e p s pos = Ok (VInt u, p') ->
  bb_read e s pos bb (Some (p, al)) w = bb_read e s p' (mkBB (Some (p, al)) u (sz * 8)) (Some (p, al)) w \/ sz = 0.
Proof.
  intros Hr Hs Hp. destruct (Z.eqb_spec sz 0) as [->|Hz]; [now right|left].
  unfold bb_read. rewrite Hr. cbn [Z.eqb orb]. rewrite Hs, Hp. cbn [bind fst snd value_as_unit bb_rem bb_type bb_buf].
  assert (sz * 8 =? 0 = false) as -> by lia.
  assert (storage_eqb (Some (p, al)) (Some (p, al)) = true) as ->.
  { cbn. rewrite Z.eqb_refl, andb_true_r. destruct p; cbn; rewrite ?Nat.eqb_refl, ?eqb_reflx; reflexivity. }
  reflexivity.
Qed.

(* a whole unit: the first field loads it, the run slices it *)
Lemma first_field_loads e start m rd items offs s pos bb vals sizes lctx p al w sz u p' :
  fm_bits m = Some w -> w <> 0 -> fm_storage m = Some (p, al) -> bb_rem bb = 0 -> prim_size_z p = Some sz -> sz <> 0 ->
  prim_read_at e p s pos = Ok (VInt u, p') ->
  struct_loop e false start ((m, rd) :: items) (None :: offs) s pos bb vals sizes lctx
  = struct_loop e false start ((m, rd) :: items) (None :: offs) s p' (mkBB (Some (p, al)) u (sz * 8)) vals sizes lctx.
Proof.
  intros Hb Hw Hst Hr Hs Hz Hp. cbn [struct_loop]. rewrite Hb, Hst. assert (w =? 0 = false) as -> by lia.
  destruct (bb_read_loads e s pos bb p al w sz u p' Hr Hs Hp) as [->|E]; [reflexivity|contradiction].
Qed.

Theorem bit_unit_le e start p al a rd : String.eqb e "<" = true -> forall run rest ro s pos bb u p' sz vals sizes lctx,
  run <> [] -> widths_ok (map snd run) -> prim_size_z p = Some sz -> total (map snd run) <= sz * 8 -> bb_rem bb = 0 ->
  prim_read_at e p s pos = Ok (VInt u, p') ->
  struct_loop e false start (run_items (Some (p, al)) a rd run ++ rest) (nones run ++ ro) s pos bb vals sizes lctx
  = struct_loop e false start rest ro s p' (mkBB (Some (p, al)) (u / 2 ^ total (map snd run)) (sz * 8 - total (map snd run)))
      (rev (as_values (named run (le_read_seq u (map snd run)))) ++ vals) sizes (rev (named run (le_read_seq u (map snd run))) ++ lctx).
Proof.
  intros He run rest ro s pos bb u p' sz vals sizes lctx Hne Hw Hs Ht Hr Hp.
  destruct run as [|[n w] run]; [contradiction|]. inversion Hw as [|? ? Hw0 _]; subst. cbn [snd] in Hw0.
  assert (Hsz : sz <> 0). { pose proof (total_nonneg _ Hw). cbn [map snd total fold_right] in *. intros ->. fold (total (map snd run)) in *.
    assert (0 <= total (map snd run)) by (apply total_nonneg; now inversion Hw). lia. }
  cbn [run_items nones map app].
  rewrite (first_field_loads e start (mkFM n (Some w) (Some (p, al)) a) rd _ _ s pos bb vals sizes lctx p al w sz u p' eq_refl ltac:(lia) eq_refl Hr Hs Hsz Hp).
  exact (bit_run_le e start (Some (p, al)) a rd He ((n, w) :: run) rest ro s p' u (sz * 8) vals sizes lctx Hw Ht).
Qed.
Theorem bit_unit_be e start p al a rd : String.eqb e "<" = false -> forall run rest ro s pos bb u p' sz vals sizes lctx,
  run <> [] -> widths_ok (map snd run) -> prim_size_z p = Some sz -> total (map snd run) <= sz * 8 -> bb_rem bb = 0 ->
  prim_read_at e p s pos = Ok (VInt u, p') ->
  struct_loop e false start (run_items (Some (p, al)) a rd run ++ rest) (nones run ++ ro) s pos bb vals sizes lctx
  = struct_loop e false start rest ro s p' (mkBB (Some (p, al)) u (sz * 8 - total (map snd run)))
      (rev (as_values (named run (be_read_seq u (sz * 8) (map snd run)))) ++ vals) sizes (rev (named run (be_read_seq u (sz * 8) (map snd run))) ++ lctx).
Proof.
  intros He run rest ro s pos bb u p' sz vals sizes lctx Hne Hw Hs Ht Hr Hp.
  destruct run as [|[n w] run]; [contradiction|]. inversion Hw as [|? ? Hw0 _]; subst. cbn [snd] in Hw0.
  assert (Hsz : sz <> 0). { cbn [map snd total fold_right] in *. intros ->. fold (total (map snd run)) in *.
    assert (0 <= total (map snd run)) by (apply total_nonneg; now inversion Hw). lia. }
  cbn [run_items nones map app].
  rewrite (first_field_loads e start (mkFM n (Some w) (Some (p, al)) a) rd _ _ s pos bb vals sizes lctx p al w sz u p' eq_refl ltac:(lia) eq_refl Hr Hs Hsz Hp).
  exact (bit_run_be e start (Some (p, al)) a rd He ((n, w) :: run) rest ro s p' u (sz * 8) vals sizes lctx Hw Ht).
Qed.
