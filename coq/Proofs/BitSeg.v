(* BitSeg.v — runs of bit fields INSIDE larger structures: the write loop over a run followed by further members, for both byte orders,
   stated with the rest of the loop as a continuation. *)
From Coq Require Import Lia.
From VF Require Import Model.Writer Proofs.BitsCorrect Proofs.BitRun Proofs.BitStruct.
Open Scope string_scope. Open Scope list_scope. Open Scope Z_scope.

Section BitSeg.
  Variable c : cfg.
  Variable p : prim.
  Variable al ssz : Z.
  Hypothesis Hsz : prim_size_z p = Some ssz.
  Hypothesis Hpos : 0 < ssz.

  Definition le : bool := String.eqb (c_endian c) "<".
  (* the integer a run of values occupies in its unit, and the values a unit holds for a run *)
  Definition packv (ws vs : list Z) : Z := if le then le_pack ws vs else be_pack (ssz * 8) ws vs.
  Definition readv (u : Z) (ws : list Z) : list Z := if le then le_read_seq u ws else be_read_seq u (ssz * 8) ws.
  Lemma readv_packv ws vs : widths_ok ws -> fits_widths ws vs -> total ws <= ssz * 8 -> readv (packv ws vs) ws = vs.
  Proof.
    intros Hw Hf Ht. unfold readv, packv. destruct le.
    - pose proof (le_read_pack ws vs Hw Hf 0) as R. now rewrite Z.mul_0_r, Z.add_0_r in R.
    - pose proof (be_read_pack (ssz * 8) ws vs Hw Hf Ht 0) as R. rewrite Z.add_0_r in R. apply R. split; [lia|]. apply Z.pow_pos_nonneg; [lia|]. pose proof (total_nonneg ws Hw). lia.
  Qed.

  Local Notation M W := (fun f : field => (wmeta_of c f, W f)).
  Definition continue_with (W : field -> wfn) vals wstart restf ro (r : result (list Z * wbuf)) : result (list Z * wbuf) :=
    match r with Ok (o, w) => wstruct_loop c false wstart vals (map (M W) restf) ro o w | Err e => Err e end.

  (* little endian, inside an open unit *)
  Lemma wrun_cont_le W vals wstart restf ro : le = true -> forall run vs, looked_up vals run vs -> widths_ok (map snd run) -> fits_widths (map snd run) vs ->
    forall out used buf, 0 <= used < ssz * 8 -> 0 <= buf < 2 ^ used -> used + total (map snd run) <= ssz * 8 ->
    wstruct_loop c false wstart vals (map (M W) (run_fields p al run ++ restf)) (nones run ++ ro) out (mkWB (Some (p, al)) buf (ssz * 8 - used))
    = continue_with W vals wstart restf ro (wrun_result c p al out (buf + 2 ^ used * le_pack (map snd run) vs) (ssz * 8 - used - total (map snd run))).
  Proof.
    intros Hle. unfold le in Hle.
    induction run as [|[n w] run IH]; intros vs Hl Hw Hf out used buf Hu Hb Ht.
    - inversion Hl; subst. cbn [map run_fields nones app le_pack total fold_right]. rewrite Z.mul_0_r, Z.add_0_r, Z.sub_0_r.
      unfold wrun_result. assert (ssz * 8 - used =? 0 = false) as -> by lia. reflexivity.
    - inversion Hl as [|? v0 ? vs' Hl0 Hl']; subst. cbn [map snd fst total fold_right] in *. fold (total (map snd run)) in *.
      inversion Hw as [|? ? Hw0 Hw']; subst. inversion Hf as [|? ? ? ? Hv Hf']; subst.
      assert (Hr : 0 <= total (map snd run)) by now apply total_nonneg.
      cbn [run_fields nones map app wstruct_loop]. cbn [wmeta_of wm_bits wm_name wm_storage wm_align wm_isprim wm_default f_name f_bits f_ty bit_storage wb_type wb_rem wb_buf fst snd].
      assert (w =? 0 = false) as -> by lia. cbn [negb orb]. rewrite (storage_refl p al ssz Hsz). cbn [negb bind app]. rewrite !app_nil_r.
      cbn [fst] in Hl0. rewrite Hl0. cbn [enum_int bind].
      unfold wb_write. cbn [wb_rem wb_type wb_buf]. assert (ssz * 8 - used =? 0 = false) as -> by lia. rewrite (storage_refl p al ssz Hsz). cbn [negb orb bind wb_type wb_rem wb_buf]. rewrite Hsz, Hle. rewrite (fits_in_field v0 w ltac:(lia) Hv).
      assert (ssz * 8 - (ssz * 8 - used) <? 0 = false) as -> by lia. replace (ssz * 8 - (ssz * 8 - used)) with used by lia.
      rewrite (lor_disjoint buf v0 used ltac:(lia) Hb ltac:(lia)).
      assert (EB : buf + v0 * 2 ^ used + 2 ^ (used + w) * le_pack (map snd run) vs' = buf + 2 ^ used * le_pack (w :: map snd run) (v0 :: vs')).
      { cbn [le_pack]. rewrite Z.pow_add_r by lia. ring. }
      destruct (Z.eqb_spec (ssz * 8 - used - w) 0) as [E0|E0].
      + assert (run = []) as ->.
        { destruct run as [|[n1 w1] run1]; [reflexivity|]. exfalso. cbn [map snd total fold_right] in *. inversion Hw' as [|? ? Hw1 _]; subst.
          assert (0 <= total (map snd run1)) by (apply total_nonneg; now inversion Hw'). fold (total (map snd run1)) in *. lia. }
        inversion Hl'; subst. cbn [map total fold_right le_pack run_fields nones app] in *. unfold wrun_result. replace (ssz * 8 - used - (w + 0)) with 0 by lia. cbn [Z.eqb].
        replace (buf + 2 ^ used * (v0 + 2 ^ w * 0)) with (buf + v0 * 2 ^ used) by ring.
        destruct (wb_flush c _) as [fl|]; cbn [bind fst snd continue_with]; [reflexivity|reflexivity].
      + cbn [bind fst snd]. rewrite app_nil_r. fold (run_fields p al run). fold (nones run).
        replace (ssz * 8 - used - w) with (ssz * 8 - (used + w)) by lia.
        rewrite (IH vs' Hl' Hw' Hf' out (used + w) (buf + v0 * 2 ^ used)); [| lia | | lia].
        * rewrite EB. f_equal. f_equal. lia.
        * rewrite Z.pow_add_r by lia. set (A := 2 ^ used) in *. set (B := 2 ^ w) in *. assert (0 < A) by (apply Z.pow_pos_nonneg; lia). clearbody A B. nia.
  Qed.

  (* big endian, inside an open unit: the buffer is a multiple of 2^rem *)
  Lemma wrun_cont_be W vals wstart restf ro : le = false -> forall run vs, looked_up vals run vs -> widths_ok (map snd run) -> fits_widths (map snd run) vs ->
    forall out rem q, 0 < rem <= ssz * 8 -> 0 <= q -> total (map snd run) <= rem ->
    wstruct_loop c false wstart vals (map (M W) (run_fields p al run ++ restf)) (nones run ++ ro) out (mkWB (Some (p, al)) (q * 2 ^ rem) rem)
    = continue_with W vals wstart restf ro (wrun_result c p al out (q * 2 ^ rem + be_pack rem (map snd run) vs) (rem - total (map snd run))).
  Proof.
    intros Hbe. unfold le in Hbe.
    induction run as [|[n w] run IH]; intros vs Hl Hw Hf out rem q Hrem Hq Ht.
    - inversion Hl; subst. cbn [map run_fields nones app be_pack total fold_right]. rewrite Z.add_0_r, Z.sub_0_r.
      unfold wrun_result. assert (rem =? 0 = false) as -> by lia. reflexivity.
    - inversion Hl as [|? v0 ? vs' Hl0 Hl']; subst. cbn [map snd fst total fold_right] in *. fold (total (map snd run)) in *.
      inversion Hw as [|? ? Hw0 Hw']; subst. inversion Hf as [|? ? ? ? Hv Hf']; subst.
      assert (Hr : 0 <= total (map snd run)) by now apply total_nonneg.
      cbn [run_fields nones map app wstruct_loop]. cbn [wmeta_of wm_bits wm_name wm_storage wm_align wm_isprim wm_default f_name f_bits f_ty bit_storage wb_type wb_rem wb_buf fst snd].
      assert (w =? 0 = false) as -> by lia. cbn [negb orb]. rewrite (storage_refl p al ssz Hsz). cbn [negb bind app]. rewrite !app_nil_r.
      cbn [fst] in Hl0. rewrite Hl0. cbn [enum_int bind].
      unfold wb_write. cbn [wb_rem wb_type wb_buf]. assert (rem =? 0 = false) as -> by lia. rewrite (storage_refl p al ssz Hsz). cbn [negb orb bind wb_type wb_rem wb_buf]. rewrite Hsz, Hbe. rewrite (fits_in_field v0 w ltac:(lia) Hv).
      assert (rem - w <? 0 = false) as -> by lia.
      assert (Hlor : Z.lor (q * 2 ^ rem) (Z.shiftl v0 (rem - w)) = q * 2 ^ rem + v0 * 2 ^ (rem - w)).
      { rewrite Z.shiftl_mul_pow2 by lia. apply lor_above; [lia|exact Hq|]. split; [apply Z.mul_nonneg_nonneg; [lia|apply Z.pow_nonneg; lia]|].
        replace rem with (w + (rem - w)) at 2 by lia. rewrite Z.pow_add_r by lia. assert (0 < 2 ^ (rem - w)) by (apply Z.pow_pos_nonneg; lia). nia. }
      rewrite Hlor.
      destruct (Z.eqb_spec (rem - w) 0) as [E0|E0].
      + assert (run = []) as ->.
        { destruct run as [|[n1 w1] run1]; [reflexivity|]. exfalso. cbn [map snd total fold_right] in *. inversion Hw' as [|? ? Hw1 _]; subst.
          assert (0 <= total (map snd run1)) by (apply total_nonneg; now inversion Hw'). fold (total (map snd run1)) in *. lia. }
        inversion Hl'; subst. cbn [map total fold_right be_pack run_fields nones app] in *. unfold wrun_result. replace (rem - (w + 0)) with 0 by lia. cbn [Z.eqb]. rewrite Z.add_0_r.
        destruct (wb_flush c _) as [fl|]; cbn [bind fst snd continue_with]; reflexivity.
      + cbn [bind fst snd]. rewrite app_nil_r. fold (run_fields p al run). fold (nones run).
        replace (q * 2 ^ rem + v0 * 2 ^ (rem - w)) with ((q * 2 ^ w + v0) * 2 ^ (rem - w)).
        2:{ replace rem with (w + (rem - w)) at 2 by lia. rewrite Z.pow_add_r by lia. ring. }
        rewrite (IH vs' Hl' Hw' Hf' out (rem - w) (q * 2 ^ w + v0)); [| lia | | lia].
        * cbn [be_pack]. f_equal. f_equal; [|lia]. replace rem with (w + (rem - w)) at 3 by lia. rewrite Z.pow_add_r by lia. ring.
        * assert (0 < 2 ^ w) by (apply Z.pow_pos_nonneg; lia). nia.
  Qed.

  (* a run that starts with an empty bit buffer, anywhere in the structure: the first field opens a fresh unit (no padding in packed mode) *)
  Lemma wrun_from_empty W vals wstart restf ro n w run vs o out :
    looked_up vals ((n, w) :: run) vs -> widths_ok (w :: map snd run) -> fits_widths (w :: map snd run) vs -> w + total (map snd run) <= ssz * 8 ->
    (match o with Some fo => zlen out = fo | None => True end) ->
    wstruct_loop c false wstart vals (map (M W) (run_fields p al ((n, w) :: run) ++ restf)) (o :: nones run ++ ro) out wb_empty
    = continue_with W vals wstart restf ro (wrun_result c p al out (packv (w :: map snd run) vs) (ssz * 8 - (w + total (map snd run)))).
  Proof.
    intros Hl Hw Hf Ht Ho. inversion Hw as [|? ? Hw0 _]; subst.
    (* the first field: from the empty buffer = from a fresh unit; its offset (if any) is the current position *)
    assert (E : wstruct_loop c false wstart vals (map (M W) (run_fields p al ((n, w) :: run) ++ restf)) (o :: nones run ++ ro) out wb_empty
              = wstruct_loop c false wstart vals (map (M W) (run_fields p al ((n, w) :: run) ++ restf)) (nones ((n, w) :: run) ++ ro) out (mkWB (Some (p, al)) 0 (ssz * 8))).
    { cbn [run_fields nones map app wstruct_loop]. cbn [wmeta_of wm_bits wm_name wm_storage wm_align wm_isprim wm_default f_name f_bits f_ty bit_storage wb_type wb_rem wb_buf wb_empty fst snd].
      assert (w =? 0 = false) as -> by lia. cbn [negb orb]. rewrite (storage_refl p al ssz Hsz). cbn [negb bind app]. rewrite !app_nil_r.
      assert (P : match o with Some fo => if wstart + zlen out <? wstart + fo then zeros (wstart + fo - (wstart + zlen out)) else [] | None => [] end = (@nil Z)).
      { destruct o as [fo|]; [|reflexivity]. rewrite Ho. now rewrite Z.ltb_irrefl. }
      rewrite P. assert (P2 : match o with None => [] | Some _ => [] end = (@nil Z)) by now destruct o. rewrite P2. cbn [app]. rewrite !app_nil_r.
      destruct (enum_int _) as [z|]; cbn [bind]; [|reflexivity]. rewrite (wb_write_opens c p al ssz Hsz z w Hpos). reflexivity. }
    rewrite E. unfold packv. destruct le eqn:Ele.
    - replace (ssz * 8) with (ssz * 8 - 0) at 1 by lia.
      rewrite (wrun_cont_le W vals wstart restf ro Ele ((n, w) :: run) vs Hl Hw Hf out 0 0 ltac:(lia) ltac:(cbn; lia) Ht).
      cbn [map snd total fold_right]. fold (total (map snd run)). rewrite Z.pow_0_r, Z.mul_1_l, Z.add_0_l, Z.sub_0_r. reflexivity.
    - pose proof (wrun_cont_be W vals wstart restf ro Ele ((n, w) :: run) vs Hl Hw Hf out (ssz * 8) 0 ltac:(lia) ltac:(lia) Ht) as R.
      rewrite Z.mul_0_l in R. rewrite R. cbn [map snd total fold_right]. fold (total (map snd run)). rewrite Z.add_0_l. reflexivity.
  Qed.

  (* what is still in the bit buffer *)
  Definition pending (wb : wbuf) : result (list Z) := match wb_type wb with Some _ => wb_flush c wb | None => Ok [] end.
  (* a plain member first flushes what is pending *)
  Lemma plain_settles W vals wstart f rest o offs out wb : f_bits f = None -> (wb_type wb = None -> wb = wb_empty) ->
    wstruct_loop c false wstart vals (map (M W) (f :: rest)) (o :: offs) out wb
    = do x <- pending wb; wstruct_loop c false wstart vals (map (M W) (f :: rest)) (o :: offs) (out ++ x) wb_empty.
  Proof.
    intros Hb Hwe. unfold pending. cbn [map wstruct_loop]. cbn [wmeta_of wm_bits wm_name wm_storage wm_align wm_isprim wm_default]. rewrite Hb. cbn [negb orb].
    destruct (wb_type wb) as [st|] eqn:Et.
    - destruct (wb_flush c wb) as [x|]; cbn [bind wb_type wb_empty app]; [|reflexivity]. rewrite !app_nil_r. reflexivity.
    - rewrite (Hwe eq_refl). cbn [bind wb_type wb_empty app]. rewrite !app_nil_r. reflexivity.
  Qed.
End BitSeg.
