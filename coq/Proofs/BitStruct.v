(* BitStruct.v — a structure whose members are one run of bit fields over a single storage unit (C06 / C01 at structure level):
   its layout, what the write loop produces, and the round trip through the real structure reader and writer of the model. *)
From Coq Require Import Lia.
From VF Require Import Model.Writer Proofs.BitsCorrect Proofs.BitRun Proofs.CodecCorrect.
Open Scope string_scope. Open Scope list_scope. Open Scope Z_scope.

Definition run_fields (p : prim) (al : Z) (run : list (string * Z)) : list field :=
  map (fun nw => Fld (fst nw) false (TPrim p al) (Some (snd nw)) None) run.

Section BitStruct.
  Variable c : cfg.
  Variable p : prim.
  Variable al ssz : Z.
  Hypothesis Hsz : prim_size_z p = Some ssz.

  Lemma storage_refl : storage_eqb (Some (p, al)) (Some (p, al)) = true.
  Proof. cbn. rewrite Z.eqb_refl, andb_true_r. destruct p; cbn; rewrite ?Nat.eqb_refl, ?eqb_reflx; reflexivity. Qed.

  (* fields that continue a unit: no offset of their own, the state only loses bits *)
  Lemma layout_run_tail : forall run off a r, widths_ok (map snd run) -> total (map snd run) <= r ->
    layout_go c false (run_fields p al run) (mkLS (Some (off + ssz)) a (Some (p, al)) (Some off) r)
    = Ok (nones run, mkLS (Some (off + ssz)) (fold_left (fun acc _ => Z.max acc (if al =? 0 then 1 else al)) run a) (Some (p, al)) (Some off) (r - total (map snd run))).
  Proof.
    induction run as [|[n w] run IH]; intros off a r Hw Ht; [cbn; now rewrite Z.sub_0_r|].
    cbn [map snd fst total fold_right] in *. inversion Hw as [|? ? Hw0 Hw']; subst. fold (total (map snd run)) in *.
    assert (Hr : 0 <= total (map snd run)) by now apply total_nonneg.
    cbn [run_fields map layout_go f_off f_bits f_ty bit_storage fst snd]. unfold field_align. cbn [f_ty ty_align ty_size].
    unfold layout_step. cbn [ls_off ls_align ls_btype ls_boff ls_brem].
    assert (w =? 0 = false) as -> by lia. assert (r =? 0 = false) as -> by lia. rewrite storage_refl. cbn [negb]. rewrite Hsz.
    assert (off + ssz <? off + ssz = false) as -> by lia. cbn [bind fst snd ls_off ls_align ls_btype ls_boff ls_brem].
    assert (r - w <? 0 = false) as -> by lia. cbn [bind fst snd].
    fold (run_fields p al run). rewrite (IH off _ (r - w) Hw' ltac:(lia)). cbn [bind fst snd nones map fold_left].
    f_equal. f_equal. f_equal. lia.
  Qed.

  (* the whole run: the first field opens the unit at the running offset, the others have none *)
  Lemma layout_run : forall n w run, widths_ok (w :: map snd run) -> w + total (map snd run) <= ssz * 8 ->
    layout_struct c false (run_fields p al ((n, w) :: run))
    = Ok (mkLay (Some 0 :: nones run) (Some ssz) (fold_left (fun acc _ => Z.max acc (if al =? 0 then 1 else al)) ((n, w) :: run) 0)).
  Proof.
    intros n w run Hw Ht. inversion Hw as [|? ? Hw0 Hw']; subst.
    unfold layout_struct. cbn [run_fields map layout_go f_off f_bits f_ty bit_storage fst snd]. unfold field_align. cbn [f_ty ty_align ty_size].
    unfold layout_step at 1. cbn [ls_off ls_align ls_btype ls_boff ls_brem]. assert (w =? 0 = false) as -> by lia. cbn [Z.eqb bind]. rewrite Hsz. cbn [bind fst snd ls_off ls_align ls_btype ls_boff ls_brem].
    assert (Hr : 0 <= total (map snd run)) by now apply total_nonneg.
    assert (ssz * 8 - w <? 0 = false) as -> by lia. cbn [bind fst snd].
    fold (run_fields p al run). replace (0 + ssz) with (0 + ssz) by reflexivity.
    rewrite (layout_run_tail run 0 _ (ssz * 8 - w) Hw' ltac:(lia)). cbn [bind fst snd ls_off ls_align fold_left]. reflexivity.
  Qed.

  (* an offset equal to the current position is no seek *)
  Lemma first_offset_here e start m rd items offs s pos bb vals sizes lctx fo : start + fo = pos ->
    struct_loop e false start ((m, rd) :: items) (Some fo :: offs) s pos bb vals sizes lctx
    = struct_loop e false start ((m, rd) :: items) (None :: offs) s pos bb vals sizes lctx.
  Proof. intros E. cbn [struct_loop]. rewrite E. reflexivity. Qed.

  (* reading such a structure: one scalar read, then the slices *)
  Lemma items_are_run fuel run :
    map (fun f => (meta_of c f, read_ty c fuel (f_ty f))) (run_fields p al run)
    = run_items (Some (p, al)) (if al =? 0 then 1 else al) (read_ty c fuel (TPrim p al)) run.
  Proof. unfold run_fields, run_items. rewrite map_map. apply map_ext. intros [n w]. reflexivity. Qed.

  Theorem read_bit_struct fuel nm n w run s pos ctx u p' : widths_ok (w :: map snd run) -> w + total (map snd run) <= ssz * 8 ->
    prim_read_at (c_endian c) p s pos = Ok (VInt u, p') ->
    read_ty c fuel (TStruct nm (run_fields p al ((n, w) :: run)) false) s pos ctx
    = Ok (VStruct (as_values (named ((n, w) :: run)
            (if String.eqb (c_endian c) "<" then le_read_seq u (w :: map snd run) else be_read_seq u (ssz * 8) (w :: map snd run)))) [], p').
  Proof.
    intros Hw Ht Hp. cbn [read_ty]. rewrite (layout_run n w run Hw Ht). cbn [l_offs]. rewrite items_are_run.
    cbn [run_items map]. rewrite (first_offset_here _ pos _ _ _ _ s pos _ _ _ _ 0 ltac:(lia)).
    change (None :: nones run) with (nones ((n, w) :: run)).
    match goal with |- context [struct_loop _ false pos (?x :: ?xs) _ _ _ _ _ _ _] => change (x :: xs) with (run_items (Some (p, al)) (if al =? 0 then 1 else al) (read_ty c fuel (TPrim p al)) ((n, w) :: run)) end.
    rewrite <- (app_nil_r (run_items _ _ _ ((n, w) :: run))). rewrite <- (app_nil_r (nones ((n, w) :: run))).
    destruct (String.eqb (c_endian c) "<") eqn:He.
    - rewrite (bit_unit_le (c_endian c) pos p al _ _ He ((n, w) :: run) [] [] s pos bb_empty u p' ssz [] [] [] ltac:(discriminate) Hw Hsz Ht eq_refl Hp).
      cbn [struct_loop bind]. rewrite !app_nil_r, rev_involutive. reflexivity.
    - rewrite (bit_unit_be (c_endian c) pos p al _ _ He ((n, w) :: run) [] [] s pos bb_empty u p' ssz [] [] [] ltac:(discriminate) Hw Hsz Ht eq_refl Hp).
      cbn [struct_loop bind]. rewrite !app_nil_r, rev_involutive. reflexivity.
  Qed.

  (* ---------- the write loop over the run (little endian, unsigned storage) ---------- *)
  Hypothesis Hle : String.eqb (c_endian c) "<" = true.

  Definition looked_up (vals : list (string * value)) (run : list (string * Z)) (vs : list Z) : Prop :=
    Forall2 (fun nw v => lookup_field (fst nw) vals = Some (VInt v)) run vs.

  (* writing the fields of a run into an open unit accumulates the packed values above the used bits; the field that takes the last bit
     of the unit flushes it *)
  Definition wrun_result (out : list Z) (B rem : Z) : result (list Z * wbuf) :=
    if rem =? 0 then do fl <- wb_flush c (mkWB (Some (p, al)) B 0); Ok (out ++ fl, wb_empty)
    else Ok (out, mkWB (Some (p, al)) B rem).

  Lemma wrun_le W vals wstart : forall run vs, looked_up vals run vs -> widths_ok (map snd run) -> fits_widths (map snd run) vs ->
    forall out used buf, 0 <= used < ssz * 8 -> 0 <= buf < 2 ^ used -> used + total (map snd run) <= ssz * 8 ->
    wstruct_loop c false wstart vals (map (fun f => (wmeta_of c f, W f)) (run_fields p al run)) (nones run) out (mkWB (Some (p, al)) buf (ssz * 8 - used))
    = wrun_result out (buf + 2 ^ used * le_pack (map snd run) vs) (ssz * 8 - used - total (map snd run)).
  Proof.
    induction run as [|[n w] run IH]; intros vs Hl Hw Hf out used buf Hu Hb Ht.
    - inversion Hl; subst. cbn [map run_fields nones wstruct_loop le_pack total fold_right]. rewrite Z.mul_0_r, Z.add_0_r, Z.sub_0_r.
      unfold wrun_result. assert (ssz * 8 - used =? 0 = false) as -> by lia. reflexivity.
    - inversion Hl as [|? v0 ? vs' Hl0 Hl']; subst. cbn [map snd fst total fold_right] in *. fold (total (map snd run)) in *.
      inversion Hw as [|? ? Hw0 Hw']; subst. inversion Hf as [|? ? ? ? Hv Hf']; subst.
      assert (Hr : 0 <= total (map snd run)) by now apply total_nonneg.
      cbn [run_fields nones map wstruct_loop]. cbn [wmeta_of wm_bits wm_name wm_storage wm_align wm_isprim wm_default f_name f_bits f_ty bit_storage wb_type wb_rem wb_buf].
      cbn [fst snd]. assert (w =? 0 = false) as -> by lia. cbn [negb orb]. rewrite storage_refl. cbn [negb bind app]. rewrite !app_nil_r.
      cbn [fst] in Hl0. rewrite Hl0. cbn [enum_int bind].
      unfold wb_write. cbn [wb_rem wb_type wb_buf]. assert (ssz * 8 - used =? 0 = false) as -> by lia. rewrite storage_refl. cbn [negb orb bind wb_type wb_rem wb_buf]. rewrite Hsz, Hle. rewrite (fits_in_field v0 w ltac:(lia) Hv).
      assert (ssz * 8 - (ssz * 8 - used) <? 0 = false) as -> by lia. replace (ssz * 8 - (ssz * 8 - used)) with used by lia.
      rewrite (lor_disjoint buf v0 used ltac:(lia) Hb ltac:(lia)).
      assert (EB : buf + v0 * 2 ^ used + 2 ^ (used + w) * le_pack (map snd run) vs' = buf + 2 ^ used * le_pack (w :: map snd run) (v0 :: vs')).
      { cbn [le_pack]. rewrite Z.pow_add_r by lia. ring. }
      destruct (Z.eqb_spec (ssz * 8 - used - w) 0) as [E0|E0].
      + (* this field takes the last bit of the unit: it is the last of the run *)
        assert (run = []) as ->.
        { destruct run as [|[n1 w1] run1]; [reflexivity|]. exfalso. cbn [map snd total fold_right] in *. inversion Hw' as [|? ? Hw1 _]; subst.
          assert (0 <= total (map snd run1)) by (apply total_nonneg; now inversion Hw'). fold (total (map snd run1)) in *. lia. }
        inversion Hl'; subst. cbn [map total fold_right le_pack] in *. unfold wrun_result. replace (ssz * 8 - used - (w + 0)) with 0 by lia. cbn [Z.eqb].
        replace (buf + 2 ^ used * (v0 + 2 ^ w * 0)) with (buf + v0 * 2 ^ used) by ring.
        destruct (wb_flush c _) as [fl|]; cbn [bind fst snd run_fields nones map wstruct_loop]; [rewrite app_nil_l; reflexivity|reflexivity].
      + cbn [bind fst snd]. rewrite app_nil_r. fold (run_fields p al run). fold (nones run).
        replace (ssz * 8 - used - w) with (ssz * 8 - (used + w)) by lia.
        rewrite (IH vs' Hl' Hw' Hf' out (used + w) (buf + v0 * 2 ^ used)); [| lia | | lia].
        * rewrite EB. f_equal. lia.
        * rewrite Z.pow_add_r by lia. set (A := 2 ^ used) in *. set (B := 2 ^ w) in *. assert (0 < A) by (apply Z.pow_pos_nonneg; lia). clearbody A B. nia.
  Qed.

  (* the first bit field of the structure opens the unit: writing it into an empty buffer is writing it into a fresh, zeroed unit *)
  Lemma wb_write_opens z w : 0 < ssz -> wb_write c wb_empty (Some (p, al)) z w = wb_write c (mkWB (Some (p, al)) 0 (ssz * 8)) (Some (p, al)) z w.
  Proof.
    intros H. unfold wb_write. cbn [wb_rem wb_type wb_buf wb_empty]. cbn [Z.eqb orb bind]. rewrite Hsz. cbn [bind].
    assert (ssz * 8 =? 0 = false) as -> by lia. rewrite storage_refl. cbn [negb orb bind]. reflexivity.
  Qed.
  Lemma first_write_opens W vals wstart f fs o offs w : 0 < ssz -> f_bits f = Some w -> w <> 0 -> bit_storage (f_ty f) = Some (p, al) ->
    wstruct_loop c false wstart vals (map (fun f => (wmeta_of c f, W f)) (f :: fs)) (o :: offs) [] wb_empty
    = wstruct_loop c false wstart vals (map (fun f => (wmeta_of c f, W f)) (f :: fs)) (o :: offs) [] (mkWB (Some (p, al)) 0 (ssz * 8)).
  Proof.
    intros H0 Hb Hw Hst. cbn [map wstruct_loop]. cbn [wmeta_of wm_bits wm_name wm_storage wm_align wm_isprim wm_default wb_type wb_empty wb_rem wb_buf]. rewrite Hb, Hst.
    assert (w =? 0 = false) as -> by lia. cbn [negb orb]. rewrite storage_refl. cbn [negb bind app].
    destruct (enum_int _) as [z|]; cbn [bind]; [|reflexivity]. rewrite (wb_write_opens z w H0). reflexivity.
  Qed.

  Lemma write_ty_struct nm fs vals sz pos lay : layout_struct c false fs = Ok lay ->
    write_ty c (TStruct nm fs false) (VStruct vals sz) pos
    = do r <- wstruct_loop c false pos vals (map (fun f => (wmeta_of c f, write_ty c (f_ty f))) fs) (l_offs lay) [] wb_empty;
      let '(out, wb) := r in do fl <- wb_flush c wb; Ok (out ++ fl).
  Proof. intros H. cbn [write_ty]. rewrite H. reflexivity. Qed.

  (* dumping the structure: the packed integer, written once through the storage type *)
  Theorem write_bit_struct nm n w run vals sz vs wpos : 0 < ssz -> looked_up vals ((n, w) :: run) vs ->
    widths_ok (w :: map snd run) -> fits_widths (w :: map snd run) vs -> w + total (map snd run) <= ssz * 8 ->
    write_ty c (TStruct nm (run_fields p al ((n, w) :: run)) false) (VStruct vals sz) wpos
    = wb_flush c (mkWB (Some (p, al)) (le_pack (w :: map snd run) vs) 0).
  Proof.
    intros H0 Hl Hw Hf Ht. rewrite (write_ty_struct nm _ vals sz wpos _ (layout_run n w run Hw Ht)). cbn [l_offs l_align].
    assert (Hfirst : f_bits (Fld n false (TPrim p al) (Some w) None) = Some w) by reflexivity.
    inversion Hw as [|? ? Hw0 _]; subst.
    change (run_fields p al ((n, w) :: run)) with (Fld n false (TPrim p al) (Some w) None :: run_fields p al run).
    rewrite (first_write_opens (fun f => write_ty c (f_ty f)) vals wpos _ _ (Some 0) (nones run) w H0 Hfirst ltac:(lia) eq_refl).
    change (Fld n false (TPrim p al) (Some w) None :: run_fields p al run) with (run_fields p al ((n, w) :: run)).
    change (Some 0 :: nones run) with (Some 0 :: nones run).
    (* the first offset Some 0 is no padding either *)
    assert (E : wstruct_loop c false wpos vals (map (fun f => (wmeta_of c f, write_ty c (f_ty f))) (run_fields p al ((n, w) :: run))) (Some 0 :: nones run) [] (mkWB (Some (p, al)) 0 (ssz * 8))
                = wstruct_loop c false wpos vals (map (fun f => (wmeta_of c f, write_ty c (f_ty f))) (run_fields p al ((n, w) :: run))) (nones ((n, w) :: run)) [] (mkWB (Some (p, al)) 0 (ssz * 8))).
    { cbn [run_fields nones map wstruct_loop]. cbn [wmeta_of wm_bits wm_name wm_storage wm_align wm_isprim wm_default f_name f_bits f_ty bit_storage wb_type wb_rem wb_buf fst snd].
      assert (w =? 0 = false) as -> by lia. cbn [negb orb]. rewrite storage_refl. cbn [negb bind app]. unfold zlen. cbn [length]. rewrite !Z.add_0_r, Z.ltb_irrefl. reflexivity. }
    unfold wfn in *. rewrite E.
    pose proof (wrun_le (fun f => write_ty c (f_ty f)) vals wpos ((n, w) :: run) vs Hl Hw Hf [] 0 0 ltac:(lia) ltac:(cbn; lia) Ht) as R.
    rewrite Z.sub_0_r in R. unfold wfn in *. rewrite R. clear R E.
    cbn [map snd total fold_right]. fold (total (map snd run)). rewrite Z.pow_0_r, Z.mul_1_l, Z.add_0_l.
    unfold wrun_result. destruct (Z.eqb_spec (ssz * 8 - (w + total (map snd run))) 0) as [E0|E0].
    - destruct (wb_flush c _) as [fl|]; cbn [bind app wb_flush wb_type wb_empty]; [now rewrite app_nil_r|reflexivity].
    - cbn [bind app]. unfold wb_flush. cbn [wb_type wb_buf]. destruct (unit_write c p _); reflexivity.
  Qed.
End BitStruct.

(* ---------- big endian: fields are placed from the top of the unit downwards ---------- *)
Lemma lor_above q b k : 0 <= k -> 0 <= q -> 0 <= b < 2 ^ k -> Z.lor (q * 2 ^ k) b = q * 2 ^ k + b.
Proof. intros Hk Hq Hb. rewrite Z.lor_comm. pose proof (lor_disjoint b q k Hk Hb Hq) as E. rewrite Z.shiftl_mul_pow2 in E by lia. rewrite E. lia. Qed.

Section BitStructBE.
  Variable c : cfg.
  Variable p : prim.
  Variable al ssz : Z.
  Hypothesis Hsz : prim_size_z p = Some ssz.
  Hypothesis Hbe : String.eqb (c_endian c) "<" = false.

  Lemma wrun_be W vals wstart : forall run vs, looked_up vals run vs -> widths_ok (map snd run) -> fits_widths (map snd run) vs ->
    forall out rem q, 0 < rem <= ssz * 8 -> 0 <= q -> total (map snd run) <= rem ->
    wstruct_loop c false wstart vals (map (fun f => (wmeta_of c f, W f)) (run_fields p al run)) (nones run) out (mkWB (Some (p, al)) (q * 2 ^ rem) rem)
    = wrun_result c p al out (q * 2 ^ rem + be_pack rem (map snd run) vs) (rem - total (map snd run)).
  Proof.
    induction run as [|[n w] run IH]; intros vs Hl Hw Hf out rem q Hrem Hq Ht.
    - inversion Hl; subst. cbn [map run_fields nones wstruct_loop be_pack total fold_right]. rewrite Z.add_0_r, Z.sub_0_r.
      unfold wrun_result. assert (rem =? 0 = false) as -> by lia. reflexivity.
    - inversion Hl as [|? v0 ? vs' Hl0 Hl']; subst. cbn [map snd fst total fold_right] in *. fold (total (map snd run)) in *.
      inversion Hw as [|? ? Hw0 Hw']; subst. inversion Hf as [|? ? ? ? Hv Hf']; subst.
      assert (Hr : 0 <= total (map snd run)) by now apply total_nonneg.
      cbn [run_fields nones map wstruct_loop]. cbn [wmeta_of wm_bits wm_name wm_storage wm_align wm_isprim wm_default f_name f_bits f_ty bit_storage wb_type wb_rem wb_buf].
      cbn [fst snd]. assert (w =? 0 = false) as -> by lia. cbn [negb orb]. rewrite (storage_refl p al ssz Hsz). cbn [negb bind app]. rewrite !app_nil_r.
      cbn [fst] in Hl0. rewrite Hl0. cbn [enum_int bind].
      unfold wb_write. cbn [wb_rem wb_type wb_buf]. assert (rem =? 0 = false) as -> by lia. rewrite (storage_refl p al ssz Hsz). cbn [negb orb bind wb_type wb_rem wb_buf]. rewrite Hsz, Hbe. rewrite (fits_in_field v0 w ltac:(lia) Hv).
      assert (rem - w <? 0 = false) as -> by lia.
      assert (Hlor : Z.lor (q * 2 ^ rem) (Z.shiftl v0 (rem - w)) = q * 2 ^ rem + v0 * 2 ^ (rem - w)).
      { rewrite Z.shiftl_mul_pow2 by lia. apply lor_above; [lia|exact Hq|]. split; [apply Z.mul_nonneg_nonneg; [lia|apply Z.pow_nonneg; lia]|].
        replace rem with (w + (rem - w)) at 2 by lia. rewrite Z.pow_add_r by lia. assert (0 < 2 ^ (rem - w)) by (apply Z.pow_pos_nonneg; lia). nia. }
      rewrite Hlor.
      destruct (Z.eqb_spec (rem - w) 0) as [E0|E0].
      + assert (run = []) as ->.
        { destruct run as [|[n1 w1] run1]; [reflexivity|]. exfalso. cbn [map snd total fold_right] in *. inversion Hw' as [|? ? Hw1 _]; subst.
          assert (0 <= total (map snd run1)) by (apply total_nonneg; now inversion Hw'). fold (total (map snd run1)) in *. lia. }
        inversion Hl'; subst. cbn [map total fold_right be_pack] in *. unfold wrun_result. replace (rem - (w + 0)) with 0 by lia. cbn [Z.eqb]. rewrite Z.add_0_r.
        destruct (wb_flush c _) as [fl|]; cbn [bind fst snd run_fields nones map wstruct_loop]; [rewrite app_nil_l; reflexivity|reflexivity].
      + cbn [bind fst snd]. rewrite app_nil_r. fold (run_fields p al run). fold (nones run).
        (* the new buffer is again a multiple of 2^(rem - w) *)
        replace (q * 2 ^ rem + v0 * 2 ^ (rem - w)) with ((q * 2 ^ w + v0) * 2 ^ (rem - w)).
        2:{ replace rem with (w + (rem - w)) at 2 by lia. rewrite Z.pow_add_r by lia. ring. }
        rewrite (IH vs' Hl' Hw' Hf' out (rem - w) (q * 2 ^ w + v0)); [| lia | | lia].
        * cbn [be_pack]. f_equal; [|lia]. replace rem with (w + (rem - w)) at 3 by lia. rewrite Z.pow_add_r by lia. ring.
        * assert (0 < 2 ^ w) by (apply Z.pow_pos_nonneg; lia). nia.
  Qed.

  Theorem write_bit_struct_be nm n w run vals sz vs wpos : 0 < ssz -> looked_up vals ((n, w) :: run) vs ->
    widths_ok (w :: map snd run) -> fits_widths (w :: map snd run) vs -> w + total (map snd run) <= ssz * 8 ->
    write_ty c (TStruct nm (run_fields p al ((n, w) :: run)) false) (VStruct vals sz) wpos
    = wb_flush c (mkWB (Some (p, al)) (be_pack (ssz * 8) (w :: map snd run) vs) 0).
  Proof.
    intros H0 Hl Hw Hf Ht. rewrite (write_ty_struct c nm _ vals sz wpos _ (layout_run c p al ssz Hsz n w run Hw Ht)). cbn [l_offs l_align].
    assert (Hfirst : f_bits (Fld n false (TPrim p al) (Some w) None) = Some w) by reflexivity.
    inversion Hw as [|? ? Hw0 _]; subst.
    change (run_fields p al ((n, w) :: run)) with (Fld n false (TPrim p al) (Some w) None :: run_fields p al run).
    rewrite (first_write_opens c p al ssz Hsz (fun f => write_ty c (f_ty f)) vals wpos _ _ (Some 0) (nones run) w H0 Hfirst ltac:(lia) eq_refl).
    change (Fld n false (TPrim p al) (Some w) None :: run_fields p al run) with (run_fields p al ((n, w) :: run)).
    assert (E : wstruct_loop c false wpos vals (map (fun f => (wmeta_of c f, write_ty c (f_ty f))) (run_fields p al ((n, w) :: run))) (Some 0 :: nones run) [] (mkWB (Some (p, al)) 0 (ssz * 8))
                = wstruct_loop c false wpos vals (map (fun f => (wmeta_of c f, write_ty c (f_ty f))) (run_fields p al ((n, w) :: run))) (nones ((n, w) :: run)) [] (mkWB (Some (p, al)) 0 (ssz * 8))).
    { cbn [run_fields nones map wstruct_loop]. cbn [wmeta_of wm_bits wm_name wm_storage wm_align wm_isprim wm_default f_name f_bits f_ty bit_storage wb_type wb_rem wb_buf fst snd].
      assert (w =? 0 = false) as -> by lia. cbn [negb orb]. rewrite (storage_refl p al ssz Hsz). cbn [negb bind app]. unfold zlen. cbn [length]. rewrite !Z.add_0_r, Z.ltb_irrefl. reflexivity. }
    unfold wfn in *. rewrite E.
    pose proof (wrun_be (fun f => write_ty c (f_ty f)) vals wpos ((n, w) :: run) vs Hl Hw Hf [] (ssz * 8) 0 ltac:(lia) ltac:(lia) Ht) as R.
    rewrite Z.mul_0_l in R. unfold wfn in *. rewrite R. clear R E.
    cbn [map snd total fold_right]. fold (total (map snd run)). rewrite Z.add_0_l.
    unfold wrun_result. destruct (Z.eqb_spec (ssz * 8 - (w + total (map snd run))) 0) as [E0|E0].
    - destruct (wb_flush c _) as [fl|]; cbn [bind app wb_flush wb_type wb_empty]; [now rewrite app_nil_r|reflexivity].
    - cbn [bind app]. unfold wb_flush. cbn [wb_type wb_buf]. destruct (unit_write c p _); reflexivity.
  Qed.
End BitStructBE.

(* ---------- the round trip of a bit-field structure through the structure writer and reader (little endian, unsigned storage) ---------- *)
From VF Require Import Proofs.ReaderProps Proofs.ValueRoundTrip Proofs.RoundTrip.

Theorem bit_struct_round_trip c k pk al nm n w run vals sz vs wpos bs fuel pre rest ctx :
  String.eqb (c_endian c) "<" = true -> endian_ok (c_endian c) -> (0 < k)%nat ->
  looked_up vals ((n, w) :: run) vs -> widths_ok (w :: map snd run) -> fits_widths (w :: map snd run) vs ->
  w + total (map snd run) <= Z.of_nat k * 8 ->
  write_ty c (TStruct nm (run_fields (PInt k false pk) al ((n, w) :: run)) false) (VStruct vals sz) wpos = Ok bs ->
  read_ty c fuel (TStruct nm (run_fields (PInt k false pk) al ((n, w) :: run)) false) (pre ++ bs ++ rest) (zlen pre) ctx
  = Ok (VStruct (as_values (named ((n, w) :: run) vs)) [], zlen pre + zlen bs).
Proof.
  intros Hle He Hk Hl Hw Hf Ht Hwr.
  set (p := PInt k false pk) in *. assert (Hsz : prim_size_z p = Some (Z.of_nat k)) by reflexivity.
  rewrite (write_bit_struct c p al (Z.of_nat k) Hsz Hle nm n w run vals sz vs wpos ltac:(lia) Hl Hw Hf Ht) in Hwr.
  unfold wb_flush in Hwr. cbn [wb_type wb_buf] in Hwr. unfold unit_write, flush_value in Hwr. cbn [p prim_write] in Hwr.
  destruct (int_roundtrip _ _ _ _ _ (He (PInt k false pk)) Hwr) as [Hlen [_ Hdec]].
  assert (Hp : prim_read_at (c_endian c) p (pre ++ bs ++ rest) (zlen pre) = Ok (VInt (le_pack (w :: map snd run) vs), zlen pre + zlen bs)).
  { assert (Hsp : split_at k (bs ++ rest) = Ok (bs, rest)) by (rewrite <- Hlen; apply split_at_app_exact).
    unfold prim_read_at. rewrite srest_mid. cbn [p prim_read]. rewrite Hsp. cbn [bind fst snd]. fold p in Hdec. rewrite Hdec.
    f_equal. f_equal. unfold zlen. rewrite app_length. lia. }
  rewrite (read_bit_struct c p al (Z.of_nat k) Hsz fuel nm n w run _ _ ctx _ _ Hw Ht Hp). rewrite Hle.
  pose proof (le_read_pack (w :: map snd run) vs Hw Hf 0) as R. rewrite Z.mul_0_r, Z.add_0_r in R. rewrite R. reflexivity.
Qed.

Theorem bit_struct_round_trip_be c k pk al nm n w run vals sz vs wpos bs fuel pre rest ctx :
  String.eqb (c_endian c) "<" = false -> endian_ok (c_endian c) -> (0 < k)%nat ->
  looked_up vals ((n, w) :: run) vs -> widths_ok (w :: map snd run) -> fits_widths (w :: map snd run) vs ->
  w + total (map snd run) <= Z.of_nat k * 8 ->
  write_ty c (TStruct nm (run_fields (PInt k false pk) al ((n, w) :: run)) false) (VStruct vals sz) wpos = Ok bs ->
  read_ty c fuel (TStruct nm (run_fields (PInt k false pk) al ((n, w) :: run)) false) (pre ++ bs ++ rest) (zlen pre) ctx
  = Ok (VStruct (as_values (named ((n, w) :: run) vs)) [], zlen pre + zlen bs).
Proof.
  intros Hbe He Hk Hl Hw Hf Ht Hwr.
  set (p := PInt k false pk) in *. assert (Hsz : prim_size_z p = Some (Z.of_nat k)) by reflexivity.
  rewrite (write_bit_struct_be c p al (Z.of_nat k) Hsz Hbe nm n w run vals sz vs wpos ltac:(lia) Hl Hw Hf Ht) in Hwr.
  unfold wb_flush in Hwr. cbn [wb_type wb_buf] in Hwr. unfold unit_write, flush_value in Hwr. cbn [p prim_write] in Hwr.
  destruct (int_roundtrip _ _ _ _ _ (He (PInt k false pk)) Hwr) as [Hlen [_ Hdec]].
  assert (Hp : prim_read_at (c_endian c) p (pre ++ bs ++ rest) (zlen pre) = Ok (VInt (be_pack (Z.of_nat k * 8) (w :: map snd run) vs), zlen pre + zlen bs)).
  { assert (Hsp : split_at k (bs ++ rest) = Ok (bs, rest)) by (rewrite <- Hlen; apply split_at_app_exact).
    unfold prim_read_at. rewrite srest_mid. cbn [p prim_read]. rewrite Hsp. cbn [bind fst snd]. fold p in Hdec. rewrite Hdec.
    f_equal. f_equal. unfold zlen. rewrite app_length. lia. }
  rewrite (read_bit_struct c p al (Z.of_nat k) Hsz fuel nm n w run _ _ ctx _ _ Hw Ht Hp). rewrite Hbe.
  assert (Ht' : total (w :: map snd run) <= Z.of_nat k * 8) by (cbn [total fold_right]; exact Ht).
  pose proof (be_read_pack (Z.of_nat k * 8) (w :: map snd run) vs Hw Hf Ht' 0) as R. rewrite Z.add_0_r in R. rewrite R; [reflexivity|].
  split; [lia|]. apply Z.pow_pos_nonneg; lia.
Qed.
