(* BitsCorrect.v — bit fields partition their storage unit; writing is the inverse of reading.
   Unit-level arithmetic specifications (le_read_seq / be_read_seq / packers), their algebra, and the
   lemmas tying BitBuffer.read / BitBuffer.write steps of the model to them. *)
From Coq Require Import Lia ZifyBool Znumtheory.
From VF Require Import Model.Writer.
Ltac Zify.zify_post_hook ::= Z.to_euclidean_division_equations.
Open Scope list_scope. Open Scope Z_scope.

Definition widths_ok (ws : list Z) : Prop := Forall (fun w => 0 < w) ws.
Definition total (ws : list Z) : Z := fold_right Z.add 0 ws.
Lemma total_nonneg ws : widths_ok ws -> 0 <= total ws.
Proof. induction 1; simpl; lia. Qed.

Lemma pow2_pos k : 0 <= k -> 0 < 2 ^ k.
Proof. intros. apply Z.pow_pos_nonneg; lia. Qed.

Lemma mod_pow2_nest u a b : 0 <= a <= b -> (u mod 2 ^ b) mod 2 ^ a = u mod 2 ^ a.
Proof.
  intros H. symmetry. apply Zmod_div_mod; try (apply pow2_pos; lia).
  exists (2 ^ (b - a)). rewrite <- Z.pow_add_r by lia. f_equal. lia.
Qed.

(* ---------- little endian: first field in the least significant bits ---------- *)
Fixpoint le_read_seq (u : Z) (ws : list Z) : list Z :=
  match ws with [] => [] | w :: r => u mod 2 ^ w :: le_read_seq (u / 2 ^ w) r end.
Fixpoint le_pack (ws vs : list Z) : Z :=
  match ws, vs with w :: r, v :: rv => v + 2 ^ w * le_pack r rv | _, _ => 0 end.

Definition fits_widths (ws vs : list Z) : Prop := Forall2 (fun w v => 0 <= v < 2 ^ w) ws vs.

(* a value that fits the width passes the range check of BitBuffer.write *)
Lemma fits_in_field v w : 0 <= w -> 0 <= v < 2 ^ w -> (v <? 0) || negb (Z.shiftr v w =? 0) = false.
Proof. intros Hw [H0 H1]. rewrite Z.shiftr_div_pow2 by lia. rewrite Z.div_small by lia. assert (v <? 0 = false) as -> by lia. reflexivity. Qed.

(* each value lies in [0, 2^w) *)
Lemma le_read_range u ws : widths_ok ws -> fits_widths ws (le_read_seq u ws).
Proof.
  intros H. revert u. induction H as [|w r Hw Hr IH]; intros u; cbn [le_read_seq]; constructor.
  - apply Z.mod_pos_bound. apply pow2_pos. lia.
  - apply IH.
Qed.

(* nothing lost, no overlap: recombining the fields gives back the unit's low bits *)
Lemma le_pack_read u ws : widths_ok ws -> le_pack ws (le_read_seq u ws) = u mod 2 ^ total ws.
Proof.
  intros H. revert u. induction H as [|w r Hw Hr IH]; intros u; cbn [le_read_seq le_pack total fold_right].
  - now rewrite Z.mod_1_r.
  - rewrite IH. fold (total r). pose proof (total_nonneg r Hr) as Ht.
    rewrite Z.pow_add_r by lia. pose proof (pow2_pos w ltac:(lia)). pose proof (pow2_pos (total r) Ht).
    rewrite Z.rem_mul_r by lia. lia.
Qed.

Lemma le_pack_range ws vs : widths_ok ws -> fits_widths ws vs -> 0 <= le_pack ws vs < 2 ^ total ws.
Proof.
  intros H F. revert H. induction F as [|w v r rv Hv F IH]; intros H; cbn [le_pack total fold_right]; [simpl; lia|].
  inversion H as [|? ? Hw Hr]; subst. specialize (IH Hr). fold (total r).
  rewrite Z.pow_add_r by (pose proof (total_nonneg r Hr); lia).
  set (A := 2 ^ w) in *. set (B := 2 ^ total r) in *. clearbody A B. nia.
Qed.

(* reading what was packed gives the values back *)
Lemma le_read_pack ws vs : widths_ok ws -> fits_widths ws vs -> forall hi, le_read_seq (le_pack ws vs + 2 ^ total ws * hi) ws = vs.
Proof.
  intros H F. revert H. induction F as [|w v r rv Hv F IH]; intros H hi; cbn [le_pack le_read_seq total fold_right]; [reflexivity|].
  inversion H as [|? ? Hw Hr]; subst. fold (total r).
  pose proof (total_nonneg r Hr) as Ht. rewrite Z.pow_add_r by lia.
  pose proof (pow2_pos w ltac:(lia)) as PA. set (A := 2 ^ w) in *. set (B := 2 ^ total r) in *.
  assert (E : v + A * le_pack r rv + A * B * hi = v + A * (le_pack r rv + B * hi)) by ring.
  rewrite E.
  assert ((v + A * (le_pack r rv + B * hi)) mod A = v) as ->.
  { replace (v + A * (le_pack r rv + B * hi)) with (v + (le_pack r rv + B * hi) * A) by ring.
    rewrite Z.mod_add by lia. apply Z.mod_small. lia. }
  assert ((v + A * (le_pack r rv + B * hi)) / A = le_pack r rv + B * hi) as ->.
  { replace (v + A * (le_pack r rv + B * hi)) with (v + (le_pack r rv + B * hi) * A) by ring.
    rewrite Z.div_add by lia. rewrite Z.div_small by lia. lia. }
  f_equal. apply IH. exact Hr.
Qed.

(* ---------- big endian: first field in the most significant bits of the R remaining bits ---------- *)
Fixpoint be_read_seq (u R : Z) (ws : list Z) : list Z :=
  match ws with [] => [] | w :: r => (u mod 2 ^ R) / 2 ^ (R - w) :: be_read_seq u (R - w) r end.
(* value of the fields placed from bit R downwards *)
Fixpoint be_pack (R : Z) (ws vs : list Z) : Z :=
  match ws, vs with w :: r, v :: rv => v * 2 ^ (R - w) + be_pack (R - w) r rv | _, _ => 0 end.

Lemma be_read_range u R ws : widths_ok ws -> total ws <= R -> fits_widths ws (be_read_seq u R ws).
Proof.
  intros H. revert R. induction H as [|w r Hw Hr IH]; intros R Ht; cbn [be_read_seq]; constructor.
  - cbn [total fold_right] in Ht. fold (total r) in Ht. pose proof (total_nonneg r Hr).
    pose proof (pow2_pos (R - w) ltac:(lia)). pose proof (pow2_pos w ltac:(lia)).
    assert (E : 2 ^ R = 2 ^ w * 2 ^ (R - w)) by (rewrite <- Z.pow_add_r by lia; f_equal; lia).
    pose proof (Z.mod_pos_bound u (2 ^ R) ltac:(rewrite E; nia)).
    split; [apply Z.div_pos; lia|]. apply Z.div_lt_upper_bound; lia.
  - apply IH. cbn [total fold_right] in Ht. fold (total r) in Ht. lia.
Qed.

(* the fields tile the top of the R bits: nothing lost, no overlap *)
Lemma be_pack_read u R ws : widths_ok ws -> total ws <= R ->
  be_pack R ws (be_read_seq u R ws) = u mod 2 ^ R - u mod 2 ^ (R - total ws).
Proof.
  intros H. revert R. induction H as [|w r Hw Hr IH]; intros R Ht; cbn [be_read_seq be_pack total fold_right] in *.
  - rewrite Z.sub_0_r. lia.
  - fold (total r) in *. pose proof (total_nonneg r Hr).
    rewrite IH by lia. replace (R - w - total r) with (R - (w + total r)) by lia.
    pose proof (pow2_pos (R - w) ltac:(lia)) as PB. pose proof (pow2_pos w ltac:(lia)) as PA.
    assert (E : 2 ^ R = 2 ^ w * 2 ^ (R - w)) by (rewrite <- Z.pow_add_r by lia; f_equal; lia).
    assert (M : (u mod 2 ^ R) mod 2 ^ (R - w) = u mod 2 ^ (R - w)).
    { apply mod_pow2_nest. lia. }
    pose proof (Z.div_mod (u mod 2 ^ R) (2 ^ (R - w)) ltac:(lia)) as D. rewrite M in D. lia.
Qed.

Lemma be_read_pack R ws vs : widths_ok ws -> fits_widths ws vs -> total ws <= R -> forall lo, 0 <= lo < 2 ^ (R - total ws) ->
  be_read_seq (be_pack R ws vs + lo) R ws = vs.
Proof.
  intros H F. revert H R. induction F as [|w v r rv Hv F IH]; intros H R Ht lo Hlo; cbn [be_pack be_read_seq total fold_right] in *; [reflexivity|].
  inversion H as [|? ? Hw Hr]; subst. fold (total r) in *. pose proof (total_nonneg r Hr) as Htr.
  pose proof (pow2_pos (R - w) ltac:(lia)) as PB. pose proof (pow2_pos w ltac:(lia)) as PA.
  assert (E : 2 ^ R = 2 ^ w * 2 ^ (R - w)) by (rewrite <- Z.pow_add_r by lia; f_equal; lia).
  (* the tail (fields after the first, plus lo) is below 2^(R-w) *)
  assert (Tl : 0 <= be_pack (R - w) r rv + lo < 2 ^ (R - w)).
  { clear IH. revert Hlo. replace (R - (w + total r)) with ((R - w) - total r) by lia.
    assert (G : forall R', total r <= R' -> 0 <= lo < 2 ^ (R' - total r) -> 0 <= be_pack R' r rv + lo < 2 ^ R').
    { clear -F Hr. revert Hr. induction F as [|w' v' r' rv' Hv' F' IH']; intros Hr R' Ht' Hl; cbn [be_pack total fold_right] in *.
      - rewrite Z.sub_0_r in Hl. lia.
      - inversion Hr as [|? ? Hw' Hr']; subst. fold (total r') in *. pose proof (total_nonneg r' Hr').
        replace (R' - (w' + total r')) with ((R' - w') - total r') in Hl by lia.
        specialize (IH' Hr' (R' - w') ltac:(lia) Hl).
        assert (E' : 2 ^ R' = 2 ^ w' * 2 ^ (R' - w')) by (rewrite <- Z.pow_add_r by lia; f_equal; lia).
        rewrite E'. pose proof (pow2_pos (R' - w') ltac:(lia)). set (A := 2 ^ w') in *. set (B := 2 ^ (R' - w')) in *. clearbody A B. nia. }
    intros Hl. apply G; lia. }
  set (T := be_pack (R - w) r rv + lo) in *.
  assert (Val : v * 2 ^ (R - w) + be_pack (R - w) r rv + lo = v * 2 ^ (R - w) + T) by (subst T; ring).
  rewrite Val.
  assert (Small : 0 <= v * 2 ^ (R - w) + T < 2 ^ R).
  { rewrite E. set (A := 2 ^ w) in *. set (B := 2 ^ (R - w)) in *. clearbody A B. nia. }
  rewrite (Z.mod_small _ _ Small).
  assert ((v * 2 ^ (R - w) + T) / 2 ^ (R - w) = v) as ->.
  { rewrite Z.div_add_l by lia. rewrite Z.div_small by lia. lia. }
  f_equal.
  (* the remaining fields read from the same unit at R - w *)
  assert (Hrec : forall u1 u2 R' ws', u1 mod 2 ^ R' = u2 mod 2 ^ R' -> widths_ok ws' -> total ws' <= R' ->
                 be_read_seq u1 R' ws' = be_read_seq u2 R' ws').
  { clear. intros u1 u2 R' ws'. revert R'. induction ws' as [|w' r' IHr]; intros R' Hm Hw Ht; [reflexivity|].
    cbn [be_read_seq]. rewrite Hm. f_equal. inversion Hw as [|? ? Hw' Hr']; subst.
    cbn [total fold_right] in Ht. fold (total r') in Ht. pose proof (total_nonneg r' Hr').
    apply IHr; [|exact Hr'|lia].
    assert (E2 : 2 ^ R' = 2 ^ w' * 2 ^ (R' - w')) by (rewrite <- Z.pow_add_r by lia; f_equal; lia).
    pose proof (pow2_pos (R' - w') ltac:(lia)). pose proof (pow2_pos w' ltac:(lia)).
    assert (forall x, x mod 2 ^ (R' - w') = (x mod 2 ^ R') mod 2 ^ (R' - w')) as Q.
    { intros x. symmetry. apply mod_pow2_nest. lia. }
    rewrite (Q u1), (Q u2), Hm. reflexivity. }
  rewrite (Hrec _ T (R - w) r); [apply IH; auto; try lia|..].
  - replace (R - w - total r) with (R - (w + total r)) by lia. exact Hlo.
  - rewrite Z.add_comm, Z.mod_add by lia. reflexivity.
  - exact Hr.
  - lia.
Qed.

(* ---------- the model's BitBuffer steps are these specifications ---------- *)
Lemma land_ones_mod u w : 0 <= w -> Z.land u (2 ^ w - 1) = u mod 2 ^ w.
Proof. intros H. replace (2 ^ w - 1) with (Z.ones w) by (rewrite Z.ones_equiv; lia). now apply Z.land_ones. Qed.

(* mask of bits [lo, hi) *)
Lemma be_mask u hi lo : 0 <= lo <= hi ->
  Z.shiftr (Z.land u (Z.lxor (2 ^ lo - 1) (2 ^ hi - 1))) lo = (u mod 2 ^ hi) / 2 ^ lo.
Proof.
  intros H. replace (2 ^ lo - 1) with (Z.ones lo) by (rewrite Z.ones_equiv; lia).
  replace (2 ^ hi - 1) with (Z.ones hi) by (rewrite Z.ones_equiv; lia).
  rewrite <- (Z.shiftr_div_pow2 _ lo) by lia. rewrite <- (Z.land_ones u hi) by lia.
  apply Z.bits_inj'. intros n Hn.
  rewrite !Z.shiftr_spec, !Z.land_spec, Z.lxor_spec by lia.
  rewrite !Z.testbit_ones_nonneg by lia.
  destruct (Z.ltb_spec (n + lo) lo); [lia|].
  destruct (Z.ltb_spec (n + lo) hi); cbn; now rewrite ?andb_true_r, ?andb_false_r.
Qed.

(* one read step inside a unit (same storage type, enough bits left) *)
Lemma bb_read_step_le e s pos st u R w : String.eqb e "<" = true -> 0 < w <= R ->
  bb_read e s pos (mkBB st u R) st w = Ok (u mod 2 ^ w, mkBB st (u / 2 ^ w) (R - w), pos).
Proof.
  intros He Hw. unfold bb_read. cbn [bb_rem bb_type bb_buf].
  assert (R =? 0 = false) as -> by lia.
  assert (storage_eqb st st = true) as ->.
  { destruct st as [[p a]|]; cbn; [|reflexivity]. rewrite Z.eqb_refl, andb_true_r.
    destruct p; cbn; rewrite ?Nat.eqb_refl, ?eqb_reflx; reflexivity. }
  cbn [negb orb bind bb_rem bb_type bb_buf]. rewrite He. assert (R <? w = false) as -> by lia.
  rewrite land_ones_mod by lia. rewrite Z.shiftr_div_pow2 by lia. reflexivity.
Qed.

Lemma bb_read_step_be e s pos st u R w : String.eqb e "<" = false -> 0 < w <= R ->
  bb_read e s pos (mkBB st u R) st w = Ok ((u mod 2 ^ R) / 2 ^ (R - w), mkBB st u (R - w), pos).
Proof.
  intros He Hw. unfold bb_read. cbn [bb_rem bb_type bb_buf].
  assert (R =? 0 = false) as -> by lia.
  assert (storage_eqb st st = true) as ->.
  { destruct st as [[p a]|]; cbn; [|reflexivity]. rewrite Z.eqb_refl, andb_true_r.
    destruct p; cbn; rewrite ?Nat.eqb_refl, ?eqb_reflx; reflexivity. }
  cbn [negb orb bind bb_rem bb_type bb_buf]. rewrite He. assert (R <? w = false) as -> by lia.
  rewrite be_mask by lia. reflexivity.
Qed.

(* OR-ing a field into still-empty bits is addition *)
Lemma lor_disjoint a b k : 0 <= k -> 0 <= a < 2 ^ k -> 0 <= b -> Z.lor a (Z.shiftl b k) = a + b * 2 ^ k.
Proof.
  intros Hk Ha Hb. rewrite Z.shiftl_mul_pow2 by lia.
  assert (L : Z.land a (b * 2 ^ k) = 0).
  { apply Z.bits_inj'. intros n Hn. rewrite Z.land_spec, Z.bits_0.
    destruct (Z.ltb_spec n k).
    - rewrite Z.mul_pow2_bits_low by lia. apply andb_false_r.
    - destruct (Z.eqb_spec a 0) as [->|Hne]; [now rewrite Z.bits_0|].
      rewrite (Z.bits_above_log2 a n); [reflexivity|lia|].
      apply Z.log2_lt_pow2; [lia|]. eapply Z.lt_le_trans; [apply Ha|]. apply Z.pow_le_mono_r; lia. }
  rewrite <- Z.lxor_lor by exact L. symmetry. apply Z.add_nocarry_lxor. exact L.
Qed.
