(* BlockProps.v — the strategy of the compiled reader (C03): a run of fixed-size scalars is read with ONE stream read and ONE
   struct.unpack of the concatenated format.  That is field-by-field reading: same values, same end position, same error. *)
From Coq Require Import Lia.
From VF Require Import Model.Reader Proofs.ReaderProps Proofs.ShiftProps Proofs.ArrayProps.
Open Scope string_scope. Open Scope list_scope. Open Scope Z_scope.

(* struct.unpack(fmt, data) for a format of one scalar per member *)
Fixpoint unpack_fmt (e : string) (ps : list prim) (bs : list Z) : result (list value) :=
  match ps with
  | [] => Ok []
  | p :: r => do x <- prim_read e p bs; do vs <- unpack_fmt e r (snd x); Ok (fst x :: vs)
  end.
Fixpoint fmt_size (ps : list prim) : nat := match ps with [] => O | p :: r => (match fixed_scalar p with Some n => n | None => O end + fmt_size r)%nat end.
(* the compiled block: data = stream.read(size) (EOFError when short); values = unpack(data) *)
Definition block_read (e : string) (ps : list prim) (s : list Z) (pos : Z) : result (list value * Z) :=
  do bs <- sread_exact s pos (Z.of_nat (fmt_size ps)); do vs <- unpack_fmt e ps bs; Ok (vs, pos + Z.of_nat (fmt_size ps)).
(* the interpreted structure loop over the same members *)
Fixpoint fieldwise (e : string) (ps : list prim) (s : list Z) (pos : Z) : result (list value * Z) :=
  match ps with
  | [] => Ok ([], pos)
  | p :: r => do x <- prim_read_at e p s pos; do y <- fieldwise e r s (snd x); Ok (fst x :: fst y, snd y)
  end.

Lemma unpack_fmt_short e : forall ps a, Forall (fun p => fixed_scalar p <> None) ps -> (length a < fmt_size ps)%nat -> unpack_fmt e ps a = Err EEof.
Proof.
  induction ps as [|p r IH]; intros a Hf H; [cbn in H; lia|]. inversion Hf as [|? ? Hp Hr]; subst. cbn [unpack_fmt fmt_size] in *.
  destruct (fixed_scalar p) as [sz|] eqn:Ep; [|contradiction]. destruct (fixed_read e p sz Ep) as [f Hrd]. rewrite Hrd. unfold split_at.
  destruct (Nat.leb_spec sz (length a)) as [L|L]; [|reflexivity]. cbn [bind fst snd]. rewrite IH; [reflexivity|exact Hr|]. rewrite skipn_length. lia.
Qed.
Lemma unpack_fmt_firstn e : forall ps a, Forall (fun p => fixed_scalar p <> None) ps -> (fmt_size ps <= length a)%nat ->
  unpack_fmt e ps (firstn (fmt_size ps) a) = unpack_fmt e ps a.
Proof.
  induction ps as [|p r IH]; intros a Hf H; [reflexivity|]. inversion Hf as [|? ? Hp Hr]; subst. cbn [unpack_fmt fmt_size] in *.
  destruct (fixed_scalar p) as [sz|] eqn:Ep; [|contradiction]. destruct (fixed_read e p sz Ep) as [f Hrd]. rewrite !Hrd. unfold split_at.
  rewrite firstn_length. replace (Nat.min (sz + fmt_size r) (length a)) with (sz + fmt_size r)%nat by lia.
  assert (Nat.leb sz (sz + fmt_size r) = true) as -> by (apply Nat.leb_le; lia).
  assert (Nat.leb sz (length a) = true) as -> by (apply Nat.leb_le; lia). cbn [bind fst snd].
  rewrite firstn_firstn. replace (Nat.min sz (sz + fmt_size r)) with sz by lia.
  replace (skipn sz (firstn (sz + fmt_size r) a)) with (firstn (fmt_size r) (skipn sz a)).
  - rewrite IH; [reflexivity|exact Hr|]. rewrite skipn_length. lia.
  - rewrite skipn_firstn_comm. f_equal. lia.
Qed.
Lemma fieldwise_spec e : forall ps s pos, Forall (fun p => fixed_scalar p <> None) ps -> 0 <= pos ->
  fieldwise e ps s pos = do vs <- unpack_fmt e ps (srest s pos); Ok (vs, pos + Z.of_nat (fmt_size ps)).
Proof.
  induction ps as [|p r IH]; intros s pos Hf H0; cbn [fieldwise unpack_fmt fmt_size bind]; [f_equal; f_equal; lia|].
  inversion Hf as [|? ? Hp Hr]; subst. destruct (fixed_scalar p) as [sz|] eqn:Ep; [|contradiction]. destruct (fixed_read e p sz Ep) as [f Hrd].
  unfold prim_read_at. rewrite Hrd. unfold split_at.
  destruct (Nat.leb_spec sz (length (srest s pos))) as [L|L]; [|reflexivity]. cbn [bind fst snd].
  assert (E : pos + (zlen (srest s pos) - zlen (skipn sz (srest s pos))) = pos + Z.of_nat sz) by (unfold zlen; rewrite skipn_length; lia).
  rewrite E. rewrite IH by (try exact Hr; lia). rewrite (srest_add s pos (Z.of_nat sz)) by lia. rewrite Nat2Z.id.
  destruct (unpack_fmt e r (skipn sz (srest s pos))); cbn [bind fst snd]; [f_equal; f_equal; lia|reflexivity].
Qed.

Theorem block_is_fieldwise e ps s pos : Forall (fun p => fixed_scalar p <> None) ps -> 0 <= pos ->
  Z.of_nat (fmt_size ps) <= 9223372036854775807 -> block_read e ps s pos = fieldwise e ps s pos.
Proof.
  intros Hf H0 Hb. rewrite fieldwise_spec by assumption. unfold block_read, sread_exact.
  destruct (Z.ltb_spec 9223372036854775807 (Z.of_nat (fmt_size ps))) as [L|_]; [lia|].
  destruct (Z.leb_spec (Z.of_nat (fmt_size ps)) (zlen (srest s pos))) as [L|L]; cbn [bind].
  - unfold sread. fold (srest s pos). rewrite Nat2Z.id. rewrite unpack_fmt_firstn; [reflexivity|exact Hf|unfold zlen in L; lia].
  - rewrite unpack_fmt_short; [reflexivity|exact Hf|unfold zlen in L; lia].
Qed.

(* `fieldwise` IS the interpreted structure loop over plain scalar members (values and end position) *)
Definition loop_obs (r : result (list (string * value) * list (string * Z) * Z)) : result (list value * Z) :=
  match r with Ok (v, _, p) => Ok (map snd v, p) | Err e => Err e end.
Lemma struct_loop_scalars e start : forall (fs : list (string * prim)) s pos bb vals sizes lctx,
  loop_obs (struct_loop e false start
              (map (fun np => (mkFM (fst np) None (Some (snd np, 1)) 1, (fun s pos _ => prim_read_at e (snd np) s pos) : rfn)) fs)
              (map (fun _ => None) fs) s pos bb vals sizes lctx)
  = do r <- fieldwise e (map snd fs) s pos; Ok (map snd (rev vals) ++ fst r, snd r).
Proof.
  induction fs as [|[n p] r IH]; intros s pos bb vals sizes lctx; cbn [map struct_loop fieldwise fst snd fm_bits fm_name bind loop_obs].
  - now rewrite app_nil_r.
  - destruct (prim_read_at e p s pos) as [[x p1]|]; cbn [bind fst snd loop_obs]; [|reflexivity].
    rewrite IH. destruct (fieldwise e (map snd r) s p1) as [[vs p2]|]; cbn [bind fst snd]; [|reflexivity].
    cbn [rev]. rewrite map_app. cbn [map snd]. now rewrite <- app_assoc.
Qed.

(* ---------- however the members are grouped into blocks ---------- *)
Lemma fieldwise_app e : forall a b s pos,
  fieldwise e (a ++ b) s pos = do r1 <- fieldwise e a s pos; do r2 <- fieldwise e b s (snd r1); Ok (fst r1 ++ fst r2, snd r2).
Proof.
  induction a as [|p a IH]; intros b s pos; cbn [app fieldwise bind fst snd].
  - destruct (fieldwise e b s pos) as [[v q]|]; reflexivity.
  - destruct (prim_read_at e p s pos) as [[x p1]|]; cbn [bind fst snd]; [|reflexivity]. rewrite IH.
    destruct (fieldwise e a s p1) as [[va qa]|]; cbn [bind fst snd]; [|reflexivity].
    destruct (fieldwise e b s qa) as [[vb qb]|]; reflexivity.
Qed.
(* reading block after block, each with one stream read and one unpack *)
Fixpoint blocks_read (e : string) (blocks : list (list prim)) (s : list Z) (pos : Z) : result (list value * Z) :=
  match blocks with
  | [] => Ok ([], pos)
  | b :: r => do x <- block_read e b s pos; do y <- blocks_read e r s (snd x); Ok (fst x ++ fst y, snd y)
  end.
Lemma fieldwise_nonneg e : forall ps s pos vs q, 0 <= pos -> fieldwise e ps s pos = Ok (vs, q) -> 0 <= q.
Proof.
  induction ps as [|p ps IH]; intros s pos vs q H0 H; cbn [fieldwise] in H; [injection H as _ <-; exact H0|].
  destruct (prim_read_at e p s pos) as [[x p1]|] eqn:E; [|discriminate]. cbn [bind fst snd] in H.
  destruct (fieldwise e ps s p1) as [[v2 q2]|] eqn:E2; [|discriminate]. cbn [bind fst snd] in H. injection H as _ <-.
  destruct (prim_read_at_shift [] e p s pos [] H0) as [_ P]. cbn beta in P. exact (IH _ _ _ _ (P _ _ E) E2).
Qed.
Theorem any_blocking_is_fieldwise e : forall blocks s pos,
  Forall (fun b => Forall (fun p => fixed_scalar p <> None) b /\ Z.of_nat (fmt_size b) <= 9223372036854775807) blocks -> 0 <= pos ->
  blocks_read e blocks s pos = fieldwise e (List.concat blocks) s pos.
Proof.
  induction blocks as [|b r IH]; intros s pos Hb H0; [reflexivity|]. inversion Hb as [|? ? [Hf Hs] Hr]; subst.
  cbn [blocks_read List.concat]. rewrite fieldwise_app, (block_is_fieldwise e b s pos Hf H0 Hs).
  destruct (fieldwise e b s pos) as [[v q]|] eqn:E; cbn [bind fst snd]; [|reflexivity].
  rewrite (IH s q Hr (fieldwise_nonneg e b s pos v q H0 E)). reflexivity.
Qed.
