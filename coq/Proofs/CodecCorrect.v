(* CodecCorrect.v — integer codecs are two's complement in the stated byte order and exact inverses;
   LEB128 and UTF-16 round-trip; pack/unpack/swap laws. *)
From Coq Require Import Lia ZifyBool.
From VF Require Import Model.Codec.
Ltac Zify.zify_post_hook ::= Z.to_euclidean_division_equations.
Arguments Z.mul : simpl never. Arguments Z.pow : simpl never. Arguments Z.of_nat : simpl never. Arguments Z.modulo : simpl never. Arguments Z.div : simpl never. Arguments Z.add : simpl never. Arguments Z.sub : simpl never.
Open Scope list_scope. Open Scope Z_scope.

Lemma pow256 n : 2 ^ (8 * Z.of_nat n) = 256 ^ Z.of_nat n.
Proof. rewrite Z.pow_mul_r by lia. reflexivity. Qed.
Lemma pow256_S n : 256 ^ Z.of_nat (S n) = 256 * 256 ^ Z.of_nat n.
Proof. rewrite Nat2Z.inj_succ, Z.pow_succ_r by lia. reflexivity. Qed.
Lemma pow256_pos n : 0 < 256 ^ Z.of_nat n.
Proof. apply Z.pow_pos_nonneg; lia. Qed.

Definition Bytes (bs : list Z) : Prop := Forall (fun b => 0 <= b < 256) bs.
Lemma bytes_ok_Bytes bs : bytes_ok bs = true <-> Bytes bs.
Proof.
  unfold bytes_ok, Bytes. rewrite forallb_forall, Forall_forall. unfold byte_ok.
  split; intros H x Hx; specialize (H x Hx); lia.
Qed.

(* ---------- little-endian positional value ---------- *)
Lemma le_encode_length n : forall v, length (le_encode n v) = n.
Proof. induction n; intros v; simpl; auto. Qed.

Lemma le_encode_bytes n : forall v, Bytes (le_encode n v).
Proof.
  induction n as [|n IH]; intros v; simpl; constructor; [apply Z.mod_pos_bound; lia|apply IH].
Qed.

Lemma le_decode_range bs : Bytes bs -> 0 <= le_decode bs < 256 ^ Z.of_nat (length bs).
Proof.
  induction 1 as [|b bs Hb Hbs IH]; [simpl; lia|].
  cbn [le_decode length]. rewrite pow256_S.
  set (X := 256 ^ Z.of_nat (length bs)) in *. clearbody X.
  set (L := le_decode bs) in *. clearbody L. lia.
Qed.

Lemma le_decode_encode n : forall v, le_decode (le_encode n v) = v mod 256 ^ Z.of_nat n.
Proof.
  induction n as [|n IH]; intros v.
  - simpl. now rewrite Z.mod_1_r.
  - cbn [le_encode le_decode]. rewrite IH, pow256_S.
    pose proof (pow256_pos n) as P.
    rewrite Z.rem_mul_r by lia. lia.
Qed.

Lemma le_encode_decode bs : Bytes bs -> le_encode (length bs) (le_decode bs) = bs.
Proof.
  induction 1 as [|b bs Hb Hbs IH]; [reflexivity|].
  cbn [length le_encode le_decode].
  assert ((b + 256 * le_decode bs) mod 256 = b) as -> by lia.
  assert ((b + 256 * le_decode bs) / 256 = le_decode bs) as -> by lia.
  now rewrite IH.
Qed.

Lemma order_length e bs : length (order e bs) = length bs.
Proof. destruct e; simpl; auto using rev_length. Qed.
Lemma order_invol e bs : order e (order e bs) = bs.
Proof. destruct e; simpl; auto using rev_involutive. Qed.
Lemma order_bytes e bs : Bytes bs -> Bytes (order e bs).
Proof. destruct e; simpl; auto. unfold Bytes. intros H. now apply Forall_rev. Qed.

(* big endian is little endian on the reversed bytes — by definition of [order] *)
Lemma be_is_rev_le signed bs : int_from_bytes BE signed bs = int_from_bytes LE signed (rev bs).
Proof. unfold int_from_bytes. simpl. rewrite rev_length. destruct bs; [reflexivity|].
  destruct (rev (z :: bs)) eqn:E; [|reflexivity].
  apply (f_equal (@length Z)) in E. rewrite rev_length in E. discriminate. Qed.

(* ---------- two's complement ---------- *)
Lemma fits_spec n signed v : (0 < n)%nat -> (fits n signed v = true <->
  (if signed then - 2 ^ (8 * Z.of_nat n - 1) <= v < 2 ^ (8 * Z.of_nat n - 1) else 0 <= v < 2 ^ (8 * Z.of_nat n))).
Proof. intros Hn. unfold fits. destruct n; [lia|]. destruct signed; lia. Qed.
Lemma fits_0 signed v : fits 0 signed v = true <-> v = 0.
Proof. unfold fits. lia. Qed.

Lemma half_pow n : (0 < n)%nat -> 2 * 2 ^ (8 * Z.of_nat n - 1) = 2 ^ (8 * Z.of_nat n).
Proof. intros H. rewrite <- Z.pow_succ_r by lia. f_equal. lia. Qed.

(* decoding what was encoded gives the number back: no truncation, no wrap *)
Theorem int_roundtrip e n signed v bs : (e = LE \/ e = BE) ->
  int_to_bytes e n signed v = Ok bs -> length bs = n /\ Bytes bs /\ int_from_bytes e signed bs = v.
Proof.
  intros He H. unfold int_to_bytes in H. destruct (fits n signed v) eqn:F; [|discriminate].
  injection H as <-.
  split; [now rewrite order_length, le_encode_length|].
  split; [apply order_bytes, le_encode_bytes|].
  destruct n as [|n].
  { apply fits_0 in F. subst v. destruct e, signed; reflexivity. }
  assert (Hn : (0 < S n)%nat) by lia. apply (fits_spec _ _ _ Hn) in F.
  unfold int_from_bytes. rewrite order_invol, le_decode_encode, order_length, le_encode_length.
  rewrite <- pow256. rewrite Z.mod_mod by (apply Z.pow_nonzero; lia).
  destruct signed.
  - pose proof (half_pow (S n) Hn) as HP.
    set (P := 2 ^ (8 * Z.of_nat (S n))) in *. set (Hf := 2 ^ (8 * Z.of_nat (S n) - 1)) in *.
    assert (0 < Hf) by (apply Z.pow_pos_nonneg; lia).
    destruct (order e (le_encode (S n) (v mod P))) eqn:E.
    { apply (f_equal (@length Z)) in E. rewrite order_length, le_encode_length in E. discriminate. }
    unfold wrap_signed. fold P Hf. clearbody P Hf.
    destruct (Z.ltb_spec v 0).
    + assert (v mod P = v + P) as ->.
      { symmetry. apply (Z.mod_unique _ _ (-1)); lia. }
      destruct (Z.ltb_spec (v + P) Hf); lia.
    + rewrite Z.mod_small by lia. destruct (Z.ltb_spec v Hf); lia.
  - apply Z.mod_small. lia.
Qed.

(* encoding what was decoded gives the bytes back *)
Theorem int_bytes_roundtrip e signed bs : (e = LE \/ e = BE) -> Bytes bs ->
  int_to_bytes e (length bs) signed (int_from_bytes e signed bs) = Ok bs.
Proof.
  intros He Hb. destruct bs as [|b0 bs'].
  { destruct e, signed; reflexivity. }
  unfold int_to_bytes, int_from_bytes.
  pose proof (le_decode_range (order e (b0 :: bs')) (order_bytes e _ Hb)) as R. rewrite order_length in R.
  rewrite <- pow256 in R.
  set (n := length (b0 :: bs')) in *. set (u := le_decode (order e (b0 :: bs'))) in *.
  assert (Hn : (0 < n)%nat) by (subst n; simpl; lia).
  assert (Enc : order e (le_encode n (u mod 2 ^ (8 * Z.of_nat n))) = b0 :: bs').
  { rewrite Z.mod_small by lia. subst u n. rewrite <- (order_length e (b0 :: bs')).
    rewrite le_encode_decode by (now apply order_bytes). apply order_invol. }
  destruct signed.
  - pose proof (half_pow n Hn) as HP.
    unfold wrap_signed. fold n.
    set (P := 2 ^ (8 * Z.of_nat n)) in *. set (Hf := 2 ^ (8 * Z.of_nat n - 1)) in *.
    destruct (Z.ltb_spec u Hf).
    + assert (fits n true u = true) as -> by (apply (fits_spec _ _ _ Hn); fold Hf; clearbody P Hf u; lia). now rewrite Enc.
    + assert (fits n true (u - P) = true) as -> by (apply (fits_spec _ _ _ Hn); fold Hf; clearbody P Hf u; lia).
      assert ((u - P) mod P = u mod P) as ->.
      { replace (u - P) with (u + (-1) * P) by lia. apply Z.mod_add. subst P. apply Z.pow_nonzero; lia. }
      now rewrite Enc.
  - assert (fits n false u = true) as -> by (apply (fits_spec _ _ _ Hn); clearbody u; lia). now rewrite Enc.
Qed.

(* the decoded value always lies in the type's range *)
Theorem int_decode_range e signed bs : Bytes bs -> fits (length bs) signed (int_from_bytes e signed bs) = true.
Proof.
  intros Hb. destruct bs as [|b0 bs']; [destruct e, signed; reflexivity|].
  unfold int_from_bytes.
  pose proof (le_decode_range (order e (b0 :: bs')) (order_bytes e _ Hb)) as R. rewrite order_length, <- pow256 in R.
  set (n := length (b0 :: bs')) in *. assert (Hn : (0 < n)%nat) by (subst n; simpl; lia).
  apply (fits_spec _ _ _ Hn). destruct signed; [|lia].
  pose proof (half_pow n Hn). unfold wrap_signed. fold n.
  set (u := le_decode (order e (b0 :: bs'))) in *. clearbody u.
  set (P := 2 ^ (8 * Z.of_nat n)) in *. set (Hf := 2 ^ (8 * Z.of_nat n - 1)) in *. clearbody P Hf.
  destruct (Z.ltb_spec u Hf); lia.
Qed.

(* an integer that does not fit is rejected, never truncated or wrapped *)
Theorem int_reject e n signed v : fits n signed v = false -> int_to_bytes e n signed v = Err ERange.
Proof. intros H. unfold int_to_bytes. now rewrite H. Qed.

(* unsigned decode is the positional sum; explicit little-endian form *)
Theorem int_decode_le_unsigned bs : int_from_bytes LE false bs = le_decode bs.
Proof. reflexivity. Qed.
Theorem int_decode_signed_fold bs : bs <> [] -> Bytes bs ->
  int_from_bytes LE true bs =
  (if le_decode bs <? 2 ^ (8 * Z.of_nat (length bs) - 1) then le_decode bs else le_decode bs - 2 ^ (8 * Z.of_nat (length bs))).
Proof. intros H _. unfold int_from_bytes, wrap_signed. destruct bs; [congruence|reflexivity]. Qed.

(* ---------- LEB128 ---------- *)
Definition leb_stop (signed : bool) (d byte : Z) : bool :=
  (signed && (d =? 0) && negb (64 <=? byte)) || ((d =? -1) && (64 <=? byte)) || (negb signed && (d =? 0)).
Lemma leb_write_go_S f signed data : leb_write_go (S f) signed data =
  if leb_stop signed (data / 128) (data mod 128) then Ok [data mod 128]
  else do r <- leb_write_go f signed (data / 128); Ok ((128 + data mod 128) :: r).
Proof. reflexivity. Qed.
Lemma leb_stop_unsigned d byte : 0 <= d -> leb_stop false d byte = (d =? 0).
Proof. intros H. unfold leb_stop. destruct (64 <=? byte); simpl; lia. Qed.
Lemma leb_stop_signed d byte : leb_stop true d byte = ((d =? 0) && negb (64 <=? byte) || (d =? -1) && (64 <=? byte))%bool.
Proof. unfold leb_stop. destruct (64 <=? byte), (d =? 0), (d =? -1); reflexivity. Qed.

Lemma leb_read_go_app_unsigned : forall fuel n bs rest acc shift, 0 <= n -> 0 <= shift ->
  leb_write_go fuel false n = Ok bs ->
  leb_read_go false (bs ++ rest) acc shift = Ok (acc + n * 2 ^ shift, rest).
Proof.
  induction fuel as [|f IH]; intros n bs rest acc shift Hn Hs H; [discriminate|].
  rewrite leb_write_go_S, leb_stop_unsigned in H by lia.
  destruct (n / 128 =? 0) eqn:E.
  - injection H as <-. cbn [app leb_read_go andb].
    assert (n mod 128 <? 128 = true) as -> by lia.
    assert (n mod 128 mod 128 = n) as -> by lia. reflexivity.
  - destruct (leb_write_go f false (n / 128)) as [bs'|] eqn:E'; [|discriminate]. cbn [bind] in H.
    injection H as <-. cbn [app leb_read_go].
    assert (128 + n mod 128 <? 128 = false) as -> by lia.
    rewrite (IH (n / 128) bs' rest _ (shift + 7)); try lia; [|exact E'].
    f_equal. f_equal.
    assert ((128 + n mod 128) mod 128 = n mod 128) as -> by lia.
    rewrite Z.pow_add_r by lia. change (2 ^ 7) with 128.
    set (X := 2 ^ shift). clearbody X. lia.
Qed.

Theorem uleb_roundtrip n bs rest : leb_write false n = Ok bs -> leb_read false (bs ++ rest) = Ok (n, rest).
Proof.
  unfold leb_write, leb_read. cbn [negb andb]. destruct (Z.ltb_spec n 0); [discriminate|].
  intros Hw. rewrite (leb_read_go_app_unsigned _ n bs rest 0 0 ltac:(lia) ltac:(lia) Hw).
  f_equal. f_equal. rewrite Z.pow_0_r. lia.
Qed.

(* signed *)
Lemma leb_read_go_app_signed : forall fuel n bs rest acc shift, 0 <= shift ->
  leb_write_go fuel true n = Ok bs ->
  leb_read_go true (bs ++ rest) acc shift = Ok (acc + n * 2 ^ shift, rest).
Proof.
  induction fuel as [|f IH]; intros n bs rest acc shift Hs H; [discriminate|].
  rewrite leb_write_go_S, leb_stop_signed in H.
  set (byte := n mod 128) in *. set (d := n / 128) in *.
  assert (Hb : 0 <= byte < 128) by (subst byte; lia).
  assert (Hn : n = 128 * d + byte) by (subst byte d; lia).
  clearbody byte d.
  destruct ((d =? 0) && negb (64 <=? byte) || (d =? -1) && (64 <=? byte))%bool eqn:C.
  - injection H as <-. cbn [app leb_read_go andb].
    assert (byte <? 128 = true) as -> by lia.
    assert (byte mod 128 = byte) as -> by lia.
    f_equal. f_equal. rewrite Z.pow_add_r by lia. change (2 ^ 7) with 128.
    set (X := 2 ^ shift). clearbody X.
    destruct (64 <=? byte) eqn:B6.
    + assert (d = -1) by lia. lia.
    + assert (d = 0) by lia. lia.
  - destruct (leb_write_go f true d) as [bs'|] eqn:E'; [|discriminate]. cbn [bind] in H.
    injection H as <-. cbn [app leb_read_go].
    assert (128 + byte <? 128 = false) as -> by lia.
    rewrite (IH d bs' rest _ (shift + 7)); try lia; [|exact E'].
    f_equal. f_equal.
    assert ((128 + byte) mod 128 = byte) as -> by lia.
    rewrite Z.pow_add_r by lia. change (2 ^ 7) with 128. set (X := 2 ^ shift). clearbody X. lia.
Qed.

Theorem ileb_roundtrip n bs rest : leb_write true n = Ok bs -> leb_read true (bs ++ rest) = Ok (n, rest).
Proof.
  unfold leb_write, leb_read. cbn [negb andb]. intros H.
  rewrite (leb_read_go_app_signed _ n bs rest 0 0 ltac:(lia) H). f_equal. f_equal. rewrite Z.pow_0_r. lia.
Qed.

(* the writer always terminates within its fuel *)
Lemma leb_write_go_total_unsigned : forall fuel n, 0 <= n -> n < 128 ^ Z.of_nat fuel ->
  exists bs, leb_write_go (S fuel) false n = Ok bs.
Proof.
  induction fuel as [|f IH]; intros n Hn Hlt; rewrite leb_write_go_S, leb_stop_unsigned by lia.
  - change (128 ^ Z.of_nat 0) with 1 in Hlt. assert (n / 128 =? 0 = true) as -> by lia. eauto.
  - rewrite Nat2Z.inj_succ, Z.pow_succ_r in Hlt by lia.
    destruct (n / 128 =? 0) eqn:E; [eauto|].
    destruct (IH (n / 128)) as [bs Hbs]; [lia| |].
    + set (X := 128 ^ Z.of_nat f) in *. clearbody X. lia.
    + rewrite Hbs. cbn [bind]. eauto.
Qed.

(* ---------- UTF-16 ---------- *)
Definition Unit16 (u : Z) : Prop := 0 <= u < 65536.
Lemma units_bytes_roundtrip e us : (e = LE \/ e = BE) -> Forall Unit16 us -> units_of_bytes e (bytes_of_units e us) = Some us.
Proof.
  intros He. induction 1 as [|u us Hu Hus IH]; [reflexivity|].
  unfold Unit16 in Hu.
  destruct He as [-> | ->]; cbn [bytes_of_units app units_of_bytes]; rewrite IH.
  - assert (u mod 256 + 256 * (u / 256) = u) as -> by lia. reflexivity.
  - assert (256 * (u / 256) + u mod 256 = u) as -> by lia. reflexivity.
Qed.

Lemma cp_units_range c us : cp_units c = Some us -> Forall Unit16 us.
Proof.
  unfold cp_units, is_high, is_low, Unit16. intros H.
  destruct ((c <? 0) || (1114111 <? c)) eqn:E1; [discriminate|].
  destruct ((55296 <=? c) && (c <=? 56319) || (56320 <=? c) && (c <=? 57343)) eqn:E2; [discriminate|].
  destruct (c <? 65536) eqn:E3; injection H as <-; repeat constructor; lia.
Qed.

Lemma utf16_dec_cp c us rest : cp_units c = Some us ->
  utf16_dec None (us ++ rest) = option_map (cons c) (utf16_dec None rest).
Proof.
  unfold cp_units. intros H.
  destruct ((c <? 0) || (1114111 <? c)) eqn:E1; [discriminate|].
  destruct (is_high c || is_low c) eqn:E2; [discriminate|].
  apply orb_false_elim in E2 as [Eh El].
  destruct (c <? 65536) eqn:E3; injection H as <-.
  - cbn [app utf16_dec]. now rewrite Eh, El.
  - cbn [app utf16_dec]. unfold is_high, is_low in *.
    assert ((55296 <=? 55296 + (c - 65536) / 1024) && (55296 + (c - 65536) / 1024 <=? 56319) = true) as -> by lia.
    assert ((56320 <=? 56320 + (c - 65536) mod 1024) && (56320 + (c - 65536) mod 1024 <=? 57343) = true) as -> by lia.
    f_equal. f_equal. lia.
Qed.

Lemma utf16_dec_units cps : forall us rest, utf16_units cps = Some us ->
  utf16_dec None (us ++ rest) = option_map (app cps) (utf16_dec None rest).
Proof.
  induction cps as [|c cps IH]; intros us rest H; cbn [utf16_units] in H.
  - injection H as <-. simpl. now destruct (utf16_dec None rest).
  - destruct (cp_units c) as [a|] eqn:Ea; [|discriminate].
    destruct (utf16_units cps) as [b|] eqn:Eb; [|discriminate]. injection H as <-.
    rewrite <- app_assoc, (utf16_dec_cp c a _ Ea), (IH b rest eq_refl).
    now destruct (utf16_dec None rest).
Qed.

Lemma utf16_units_range cps : forall us, utf16_units cps = Some us -> Forall Unit16 us.
Proof.
  induction cps as [|c cps IH]; intros us H; cbn [utf16_units] in H.
  - injection H as <-. constructor.
  - destruct (cp_units c) as [a|] eqn:Ea; [|discriminate].
    destruct (utf16_units cps) as [b|] eqn:Eb; [|discriminate]. injection H as <-.
    apply Forall_app. split; [eapply cp_units_range; eauto|auto].
Qed.

(* every encodable string (code points 0..10FFFF without lone surrogates) decodes to itself, per byte order *)
Theorem utf16_roundtrip e cps bs : (e = LE \/ e = BE) -> utf16_encode e cps = Ok bs -> utf16_decode e bs = Ok cps.
Proof.
  intros He H. unfold utf16_encode in H. destruct (utf16_units cps) as [us|] eqn:E; [|discriminate].
  injection H as <-. unfold utf16_decode.
  rewrite (units_bytes_roundtrip e us He (utf16_units_range cps us E)).
  rewrite <- (app_nil_r us), (utf16_dec_units cps us [] E). cbn [utf16_dec option_map]. now rewrite app_nil_r.
Qed.

(* ---------- utils.pack / unpack / swap ---------- *)
Theorem pack_unpack v s e bs : (e = LE \/ e = BE) -> 0 < s -> s mod 8 = 0 ->
  u_pack v (Some s) e = Ok bs -> u_unpack bs (Some s) e (v <? 0) = Ok v.
Proof.
  intros He Hs Hm H. unfold u_pack in H. assert (s =? 0 = false) as E0 by lia. rewrite E0 in H.
  destruct (int_roundtrip e _ _ v bs He H) as (Hl & _ & Hv).
  unfold u_unpack. rewrite E0, Hl, Z2Nat.id by lia.
  assert ((s + 7) / 8 =? s / 8 = true) as -> by lia. cbn [negb andb]. now rewrite Hv.
Qed.

Theorem unpack_pack bs e sign : (e = LE \/ e = BE) -> Bytes bs -> bs <> [] ->
  let v := int_from_bytes e sign bs in
  (sign = true \/ True) ->
  int_to_bytes e (length bs) sign v = Ok bs.
Proof. intros He Hb _ v _. now apply int_bytes_roundtrip. Qed.

Theorem swap_involutive v s w : 0 <= v -> 0 < s -> s mod 8 = 0 -> u_swap v s = Ok w -> u_swap w s = Ok v.
Proof.
  intros Hv0 Hs Hm H. unfold u_swap, u_pack in *. assert (s =? 0 = false) as E0 by lia. rewrite E0 in *.
  set (n := Z.to_nat ((s + 7) / 8)) in *.
  destruct (int_to_bytes BE n (v <? 0) v) as [bs|] eqn:E; [|discriminate]. cbn [bind] in H.
  destruct (int_roundtrip BE n _ v bs (or_intror eq_refl) E) as (Hl & Hb & Hv).
  unfold u_unpack in H. rewrite E0 in H.
  destruct (negb false && negb (Z.of_nat (length bs) =? s / 8)) eqn:C; [discriminate|]. injection H as <-.
  (* w is the little-endian reading of the big-endian bytes; it is non-negative *)
  change (int_from_bytes LE false bs) with (le_decode bs).
  pose proof (le_decode_range bs Hb) as R.
  assert (Hw : le_decode bs <? 0 = false) by lia.
  rewrite Hw.
  pose proof (int_bytes_roundtrip LE false bs (or_introl eq_refl) Hb) as Enc. rewrite Hl in Enc.
  change (int_from_bytes LE false bs) with (le_decode bs) in Enc.
  assert (EncBE : int_to_bytes BE n false (le_decode bs) = Ok (rev bs)).
  { unfold int_to_bytes in Enc |- *. destruct (fits n false (le_decode bs)); [|discriminate].
    injection Enc as Enc. simpl in Enc |- *. now rewrite Enc. }
  rewrite EncBE. cbn [bind]. unfold u_unpack. rewrite E0, rev_length. rewrite C.
  f_equal. unfold int_from_bytes in Hv |- *. simpl order in *.
  assert (v <? 0 = false) as Ev by lia. rewrite Ev in Hv. exact Hv.
Qed.
