(* CommitCompiled.v — C18 for the COMPILED reader: the reader generated at the last commit of an incrementally built structure (from fields that
   carry the offsets of earlier commits) is the reader generated for the one-shot definition - the same plan, hence the same results. *)
From Coq Require Import Lia.
From VF Require Import Model.Writer Model.Compiler Proofs.LayoutCorrect Proofs.CommitProps.
Open Scope string_scope. Open Scope list_scope. Open Scope Z_scope.

Section CommitCompiled.
  Variable c : cfg.

  Lemma set_offsets_twice : forall fs o1 o2, length o1 = length fs -> length o2 = length fs -> set_offsets (set_offsets fs o1) o2 = set_offsets fs o2.
  Proof.
    induction fs as [|[n an t bt o] r IH]; intros o1 o2 H H2; destruct o1 as [|x o1]; try discriminate; [reflexivity|].
    destruct o2 as [|y o2]; [discriminate|]. cbn [set_offsets]. f_equal. apply IH; cbn in H, H2; lia.
  Qed.
  Lemma layout_struct_idem al fs lay : fresh fs -> aligns_ok c al fs -> layout_struct c al fs = Ok lay ->
    layout_struct c al (set_offsets fs (l_offs lay)) = Ok lay.
  Proof.
    intros Hf Ha H. unfold layout_struct in *. destruct (layout_go c al fs _) as [[offs st1]|] eqn:E; [|discriminate]. cbn [bind fst snd] in H. injection H as <-. cbn [l_offs].
    rewrite (layout_go_idem c al fs Hf Ha _ offs st1 E). reflexivity.
  Qed.
  Lemma assemble_set_offsets : forall fs offs vals, length offs = length fs -> assemble (set_offsets fs offs) vals = assemble fs vals.
  Proof.
    unfold assemble. induction fs as [|[n an t bt o] r IH]; intros offs vals H; destruct offs as [|x offs]; try discriminate; [reflexivity|].
    cbn [set_offsets map f_name f_ty]. f_equal. apply IH. cbn in H. lia.
  Qed.

  (* the class as it stands after ANY sequence of add_field / commit steps compiles to the plan of the one-shot definition ... *)
  Theorem plan_after_commits_is_oneshot_plan al chunks F : chunks <> [] -> fresh (List.concat chunks) -> aligns_ok c al (List.concat chunks) ->
    build c al [] chunks = Ok F -> compile_plan c al F = compile_plan c al (List.concat chunks).
  Proof.
    intros Hne Hf Ha Hb. rewrite (incremental_is_oneshot c al chunks Hne Hf Ha) in Hb. unfold oneshot in Hb.
    destruct (layout_struct c al (List.concat chunks)) as [lay|] eqn:EL; [|discriminate]. cbn [bind] in Hb. injection Hb as <-.
    unfold compile_plan. rewrite (layout_struct_idem al _ lay Hf Ha EL), EL. cbn [bind].
    pose proof (layout_struct_length c al _ lay EL) as Hlen. rewrite set_offsets_twice by exact Hlen. reflexivity.
  Qed.
  (* ... and its compiled reader returns what the one-shot class's compiled reader returns, on every stream and position *)
  Theorem compiled_reader_after_commits_is_oneshot fuel al chunks F : chunks <> [] -> fresh (List.concat chunks) -> aligns_ok c al (List.concat chunks) ->
    build c al [] chunks = Ok F -> forall s pos, read_compiled c fuel al F s pos = read_compiled c fuel al (List.concat chunks) s pos.
  Proof.
    intros Hne Hf Ha Hb s pos. rewrite (incremental_is_oneshot c al chunks Hne Hf Ha) in Hb. unfold oneshot in Hb.
    destruct (layout_struct c al (List.concat chunks)) as [lay|] eqn:EL; [|discriminate]. cbn [bind] in Hb. injection Hb as <-.
    pose proof (layout_struct_length c al _ lay EL) as Hlen.
    unfold read_compiled. rewrite (layout_struct_idem al _ lay Hf Ha EL), EL. cbn [bind].
    rewrite set_offsets_twice by exact Hlen.
    destruct (plan_fields c al (set_offsets (List.concat chunks) (l_offs lay))) as [p|]; cbn [bind]; [|reflexivity].
    destruct (run_instrs c _ s pos (l_align lay) p _) as [st|]; cbn [bind]; [|reflexivity].
    now rewrite assemble_set_offsets by exact Hlen.
  Qed.
End CommitCompiled.
