(* CommitProps.v — incremental construction (C18): the layout loop is a function of the field list alone.
   Re-running it over fields that already carry the offsets it computed changes nothing, so committing after every field, after a
   batch, or once at the end all give the layout of the whole list. *)
From Coq Require Import Lia.
From VF Require Import Model.Layout Proofs.LayoutCorrect.
Open Scope string_scope. Open Scope list_scope. Open Scope Z_scope.

Lemma pad_to_idem x a : pow2 a -> pad_to (x + pad_to x a) a = 0.
Proof.
  intros [k [Hk ->]]. rewrite (pad_to_mod (x + pad_to x (2 ^ k)) k Hk), (pad_to_mod x k Hk).
  assert (0 < 2 ^ k) by (apply Z.pow_pos_nonneg; lia).
  replace (- (x + (- x) mod 2 ^ k)) with (- x - (- x) mod 2 ^ k) by lia.
  rewrite Zminus_mod, Zmod_mod, Z.sub_diag. reflexivity.
Qed.

Section Commit.
  Variable c : cfg.

  (* one field: feeding the offset the step computed back in as the field's pre-set offset reproduces the step *)
  Lemma step_idem al st bits storage fsize falign st' o' : (al = true -> pow2 falign) ->
    layout_step al st None bits storage fsize falign = Ok (st', o') ->
    layout_step al st o' bits storage fsize falign = Ok (st', o').
  Proof.
    intros Hp H. destruct o' as [x|]; [|exact H].
    (* the step returned Some x: x is the (aligned) running offset *)
    assert (Hx : match ls_off st with Some o => (if al then Some (o + pad_to o falign) else Some o) = Some x | None => False end).
    { unfold layout_step in H. destruct (ls_off st) as [o|] eqn:E0.
      - destruct bits as [nb|].
        + destruct (nb =? 0).
          * destruct al; (destruct fsize; injection H as _ <-; reflexivity).
          * cbn zeta in H.
            match type of H with (do nu <- ?T; _) = _ => destruct T as [[|]|]; cbn [bind] in H; try discriminate end.
            -- destruct storage as [[sp sal]|]; [|discriminate]. destruct (prim_size_z sp); [|discriminate]. cbn [bind] in H.
               match type of H with (if ?b then _ else _) = _ => destruct b; [discriminate|] end. injection H as _ <-. destruct al; reflexivity.
            -- cbn [bind] in H. match type of H with (if ?b then _ else _) = _ => destruct b; [discriminate|] end. injection H as _ E. discriminate.
        + destruct al; (destruct fsize; injection H as _ <-; reflexivity).
      - destruct bits as [nb|].
        + destruct (nb =? 0); [injection H as _ E; discriminate|]. cbn zeta in H.
          match type of H with (do nu <- ?T; _) = _ => destruct T as [[|]|]; cbn [bind] in H; try discriminate end.
          * destruct storage as [[sp sal]|]; [|discriminate]. destruct (prim_size_z sp); [|discriminate]. cbn [bind] in H.
            match type of H with (if ?b then _ else _) = _ => destruct b; [discriminate|] end. injection H as _ E. discriminate.
          * match type of H with (if ?b then _ else _) = _ => destruct b; [discriminate|] end. injection H as _ E. discriminate.
        + injection H as _ E. discriminate. }
    destruct (ls_off st) as [o|] eqn:E0; [|destruct Hx].
    assert (E1 : (if al then Some (x + pad_to x falign) else Some x) = (if al then Some (o + pad_to o falign) else Some o)).
    { destruct al; [|exact (eq_sym Hx)]. injection Hx as <-. now rewrite (pad_to_idem o falign (Hp eq_refl)), Z.add_0_r. }
    unfold layout_step in *. rewrite E0 in H. cbn [fst snd] in *. rewrite E1. 
    destruct bits as [nb|]; [|exact H]. destruct (nb =? 0); [exact H|]. cbn zeta in *.
    match type of H with (do nu <- ?T; _) = _ => destruct T as [[|]|] eqn:ET; cbn [bind] in H; try discriminate end.
    - cbn [bind]. exact H.
    - (* not a new unit: the step returned the pre-set offset None, contradiction with Some x *)
      cbn [bind] in H. match type of H with (if ?b then _ else _) = _ => destruct b; [discriminate|] end. injection H as _ E. discriminate.
  Qed.

  Definition fresh (fs : list field) : Prop := Forall (fun f => f_off f = None) fs.
  Definition aligns_ok (al : bool) (fs : list field) : Prop := al = true -> Forall (fun f => pow2 (field_align c f)) fs.

  Lemma layout_go_length al : forall fs st offs st', layout_go c al fs st = Ok (offs, st') -> length offs = length fs.
  Proof.
    induction fs as [|f r IH]; intros st offs st' H; cbn [layout_go] in H; [now injection H as <- _|].
    destruct (layout_step _ _ _ _ _ _ _) as [x|]; [|discriminate]. cbn [bind] in H.
    destruct (layout_go c al r (fst x)) as [[o2 s2]|] eqn:E; [|discriminate]. cbn [bind fst snd] in H. injection H as <- _. cbn [length]. f_equal. exact (IH _ _ _ E).
  Qed.

  (* the whole loop: re-running it over the fields with their computed offsets written back reproduces offsets and final state *)
  Lemma layout_go_idem al : forall fs, fresh fs -> aligns_ok al fs ->
    forall st offs st', layout_go c al fs st = Ok (offs, st') -> layout_go c al (set_offsets fs offs) st = Ok (offs, st').
  Proof.
    induction fs as [|f r IH]; intros Hf Ha st offs st' H; [destruct offs; exact H|].
    inversion Hf as [|? ? Ho Hr]; subst. cbn [layout_go] in H. rewrite Ho in H.
    destruct (layout_step al st None (f_bits f) (bit_storage (f_ty f)) (ty_size c (f_ty f)) (field_align c f)) as [[st1 o1]|] eqn:E1; [|discriminate]. cbn [bind fst snd] in H.
    destruct (layout_go c al r st1) as [[o2 s2]|] eqn:E2; [|discriminate]. cbn [bind fst snd] in H. injection H as <- <-.
    assert (Ha' : aligns_ok al r) by (intros e; specialize (Ha e); now inversion Ha).
    assert (Hp : al = true -> pow2 (field_align c f)) by (intros e; specialize (Ha e); now inversion Ha).
    destruct f as [n an t b o]. cbn [set_offsets layout_go f_off f_bits f_ty] in *. unfold field_align in *. cbn [f_ty] in *.
    rewrite (step_idem al st b (bit_storage t) (ty_size c t) _ st1 o1 Hp E1). cbn [bind fst snd].
    rewrite (IH Hr Ha' st1 o2 s2 E2). reflexivity.
  Qed.

  Lemma layout_go_app al : forall a b st,
    layout_go c al (a ++ b) st = do x <- layout_go c al a st; do y <- layout_go c al b (snd x); Ok (fst x ++ fst y, snd y).
  Proof.
    induction a as [|f r IH]; intros b st; cbn [app layout_go bind fst snd].
    - destruct (layout_go c al b st) as [[o s]|]; reflexivity.
    - destruct (layout_step _ _ _ _ _ _ _) as [x|]; cbn [bind]; [|reflexivity]. rewrite IH.
      destruct (layout_go c al r (fst x)) as [[o1 s1]|]; cbn [bind fst snd]; [|reflexivity].
      destruct (layout_go c al b s1) as [[o2 s2]|]; reflexivity.
  Qed.

  Definition st0 : lstate := mkLS (Some 0) 0 None (Some 0) 0.

  (* committing a prefix and then laying out prefix-with-offsets ++ new fields = laying out the whole list at once *)
  Theorem commit_then_extend al a b la : fresh a -> aligns_ok al a ->
    layout_struct c al a = Ok la -> layout_struct c al (set_offsets a (l_offs la) ++ b) = layout_struct c al (a ++ b).
  Proof.
    intros Hf Ha H. unfold layout_struct in *. fold st0 in *.
    destruct (layout_go c al a st0) as [[offs st1]|] eqn:E; [|discriminate]. cbn [bind fst snd] in H. injection H as <-. cbn [l_offs].
    rewrite !layout_go_app, (layout_go_idem al a Hf Ha st0 offs st1 E), E. reflexivity.
  Qed.

  Lemma set_offsets_override : forall a o1 b o2, length o1 = length a -> length o2 = length (a ++ b) ->
    set_offsets (set_offsets a o1 ++ b) o2 = set_offsets (a ++ b) o2.
  Proof.
    induction a as [|[n an t bt o] r IH]; intros o1 b o2 Hl H2; destruct o1 as [|x o1]; try discriminate; [reflexivity|].
    destruct o2 as [|y o2]; [discriminate|]. cbn [set_offsets app]. f_equal. cbn [length app] in Hl, H2. apply IH; lia.
  Qed.
  Lemma set_offsets_fresh_data : forall fs offs, length offs = length fs ->
    map (fun f => (f_name f, f_anon f, f_ty f, f_bits f)) (set_offsets fs offs) = map (fun f => (f_name f, f_anon f, f_ty f, f_bits f)) fs.
  Proof. induction fs as [|[n an t bt o] r IH]; intros offs Hl; destruct offs; try discriminate; [reflexivity|]. cbn [set_offsets map]. f_equal. cbn [length] in Hl. apply IH. lia. Qed.

  (* any way of splitting a field list into add_field/commit steps: each commit lays out all fields so far (those of earlier commits
     carry their offsets) and writes the offsets back *)
  Fixpoint build (al : bool) (cur : list field) (chunks : list (list field)) : result (list field) :=
    match chunks with
    | [] => Ok cur
    | ch :: r => do lay <- layout_struct c al (cur ++ ch); build al (set_offsets (cur ++ ch) (l_offs lay)) r
    end.
  Definition oneshot (al : bool) (fs : list field) : result (list field) :=
    do lay <- layout_struct c al fs; Ok (set_offsets fs (l_offs lay)).

  Lemma layout_struct_length al fs lay : layout_struct c al fs = Ok lay -> length (l_offs lay) = length fs.
  Proof.
    unfold layout_struct. destruct (layout_go c al fs _) as [[offs st1]|] eqn:E; [|discriminate]. cbn [bind fst snd]. intros H. injection H as <-. cbn [l_offs].
    exact (layout_go_length _ _ _ _ _ E).
  Qed.

  Lemma build_from_committed al : forall chunks cur0 la, fresh (cur0 ++ List.concat chunks) -> aligns_ok al (cur0 ++ List.concat chunks) ->
    layout_struct c al cur0 = Ok la ->
    build al (set_offsets cur0 (l_offs la)) chunks =
      match chunks with [] => Ok (set_offsets cur0 (l_offs la)) | _ => oneshot al (cur0 ++ List.concat chunks) end.
  Proof.
    induction chunks as [|ch r IH]; intros cur0 la Hf Ha Hl; [reflexivity|]. cbn [build List.concat].
    assert (Hf0 : fresh cur0) by (unfold fresh in *; rewrite Forall_app in Hf; tauto).
    assert (Ha0 : aligns_ok al cur0) by (intros e; specialize (Ha e); rewrite Forall_app in Ha; tauto).
    rewrite (commit_then_extend al cur0 ch la Hf0 Ha0 Hl).
    destruct (layout_struct c al (cur0 ++ ch)) as [l1|] eqn:E1; cbn [bind].
    - rewrite (set_offsets_override cur0 (l_offs la) ch (l_offs l1) (layout_struct_length _ _ _ Hl) (layout_struct_length _ _ _ E1)).
      cbn [List.concat] in Hf, Ha. rewrite app_assoc in Hf, Ha.
      rewrite (IH (cur0 ++ ch) l1 Hf Ha E1). destruct r as [|ch2 r2].
      + cbn [List.concat]. rewrite app_nil_r. unfold oneshot. now rewrite E1.
      + now rewrite <- app_assoc.
    - (* the layout of a prefix fails: so does the layout of the whole list *)
      unfold oneshot. unfold layout_struct in *. fold st0 in *. rewrite app_assoc, layout_go_app.
      destruct (layout_go c al (cur0 ++ ch) st0) as [[o s]|e1]; [discriminate|]. cbn [bind] in *. injection E1 as ->. reflexivity.
  Qed.

  (* every splitting of a field list into commit steps gives the fields, with the offsets, of the one-shot definition *)
  Theorem incremental_is_oneshot al chunks : chunks <> [] -> fresh (List.concat chunks) -> aligns_ok al (List.concat chunks) ->
    build al [] chunks = oneshot al (List.concat chunks).
  Proof.
    intros Hne Hf Ha. pose proof (build_from_committed al chunks [] (mkLay [] (Some 0) 0) Hf Ha) as H.
    cbn [set_offsets app l_offs] in H. rewrite H; [destruct chunks; [contradiction|reflexivity]|].
    unfold layout_struct. cbn. destruct al; reflexivity.
  Qed.
End Commit.
