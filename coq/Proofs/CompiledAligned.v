(* CompiledAligned.v — the theorems about ALIGNED structures (C01 round trip, C04 declared size, C08 extension stability, C09 position
   independence) carried over to the COMPILED reader through C03's theorem for structures with a static layout (Proofs/CompilerStatic.v: scalars in padded blocks, nested structures, unions and arrays of them behind seeks). *)
From Coq Require Import Lia.
From VF Require Import Model.Writer Model.Compiler Proofs.CodecCorrect Proofs.ReaderProps Proofs.SizeProps Proofs.RoundTrip Proofs.ValueRoundTrip.
From VF Require Proofs.AlignedSize Proofs.AlignedRoundTrip Proofs.ShiftProps.
From VF Require Import Proofs.CompilerProps Proofs.CompilerGaps Proofs.CompilerStatic.
Open Scope string_scope. Open Scope list_scope. Open Scope Z_scope.

Definition size_fits (c : cfg) (fs : list field) : Prop :=
  forall lay n, layout_struct c true fs = Ok lay -> l_size lay = Some n -> n <= 9223372036854775807.

(* whatever the interpreted reader returns, the compiled one returns, and the other way round *)
Lemma aligned_same_ok c fuel nm fs p : Forall (stcls c fuel true) fs -> NoDup (map f_name fs) -> size_fits c fs -> compile_plan c true fs = Ok p ->
  forall s pos ctx r, 0 <= pos -> (read_compiled c fuel true fs s pos = Ok r <-> read_ty c fuel (TStruct nm fs true) s pos ctx = Ok r).
Proof.
  intros Hcl Hnd Hb Hp s pos ctx r H0. pose proof (compiled_static_is_interpreted c fuel true nm fs p Hcl Hnd Hb Hp s pos ctx H0) as R.
  destruct (read_compiled c fuel true fs s pos), (read_ty c fuel (TStruct nm fs true) s pos ctx); cbn in R; try contradiction; [subst; tauto|].
  split; discriminate.
Qed.

(* C04: started at a multiple of its alignment, the compiled reader of an aligned structure consumes the declared size (tail padding included) *)
Theorem compiled_aligned_consumes_size c fuel nm fs p n :
  Forall (stcls c fuel true) fs -> NoDup (map f_name fs) -> size_fits c fs -> compile_plan c true fs = Ok p ->
  AlignedSize.aflat c (TStruct nm fs true) = true -> ty_size c (TStruct nm fs true) = Some n ->
  forall s pos v q, 0 <= pos -> (AlignedSize.req c (TStruct nm fs true) | pos) -> read_compiled c fuel true fs s pos = Ok (v, q) -> q = pos + n.
Proof.
  intros Hcl Hnd Hb Hp Hfl Hn s pos v q H0 Hd Hr. apply (aligned_same_ok c fuel nm fs p Hcl Hnd Hb Hp s pos [] _ H0) in Hr.
  exact (proj2 (AlignedSize.read_consumes_aligned c fuel _ Hfl n Hn) s pos [] v q Hd Hr).
Qed.

(* C01: dump a typed value of an aligned structure, parse it with the COMPILED reader: the value comes back and exactly the dump is consumed *)
Theorem compiled_aligned_round_trip c : endian_ok (c_endian c) -> forall fuel nm fs p n,
  Forall (stcls c fuel true) fs -> NoDup (map f_name fs) -> size_fits c fs -> compile_plan c true fs = Ok p ->
  AlignedSize.aflat c (TStruct nm fs true) = true -> rt_ty c (TStruct nm fs true) = true -> AlignedRoundTrip.nonempty_structs (TStruct nm fs true) = true ->
  ty_size c (TStruct nm fs true) = Some n ->
  forall v wpos bs, has_ty c (TStruct nm fs true) v -> (AlignedSize.req c (TStruct nm fs true) | wpos) -> write_ty c (TStruct nm fs true) v wpos = Ok bs ->
    forall pre rest, (AlignedSize.req c (TStruct nm fs true) | zlen pre) ->
      exists v', read_compiled c fuel true fs (pre ++ bs ++ rest) (zlen pre) = Ok (v', zlen pre + zlen bs) /\ strip v' = strip v.
Proof.
  intros He fuel nm fs p n Hcl Hnd Hb Hp Hfl Hrt Hne Hn v wpos bs Hty Hdw Hw pre rest Hdp.
  destruct (AlignedRoundTrip.parse_dump_identity_aligned c He fuel _ Hfl Hrt Hne n Hn v wpos bs Hty Hdw Hw pre rest [] Hdp) as [v' [Hr Hs]].
  exists v'. split; [|exact Hs]. apply (aligned_same_ok c fuel nm fs p Hcl Hnd Hb Hp _ _ [] _ (zlen_nonneg pre)). exact Hr.
Qed.

(* C08: what the compiled reader of an aligned structure returns from a stream it returns from every extension of it *)
Theorem compiled_aligned_extension_stable c fuel nm fs p :
  Forall (stcls c fuel true) fs -> NoDup (map f_name fs) -> size_fits c fs -> compile_plan c true fs = Ok p -> simple (TStruct nm fs true) = true ->
  forall s1 s2 pos r, 0 <= pos -> read_compiled c fuel true fs s1 pos = Ok r -> read_compiled c fuel true fs (s1 ++ s2) pos = Ok r.
Proof.
  intros Hcl Hnd Hb Hp Hsi s1 s2 pos r H0 H. apply (aligned_same_ok c fuel nm fs p Hcl Hnd Hb Hp _ _ [] _ H0) in H.
  apply (aligned_same_ok c fuel nm fs p Hcl Hnd Hb Hp _ _ [] _ H0). exact (read_ty_ext c fuel _ Hsi s1 s2 pos [] r H).
Qed.

(* C09: the compiled reader of an aligned structure does not depend on what precedes the position it starts at *)
Theorem compiled_aligned_position_independent pre c fuel nm fs p :
  Forall (stcls c fuel true) fs -> NoDup (map f_name fs) -> size_fits c fs -> compile_plan c true fs = Ok p -> ShiftProps.shift_ok pre c (TStruct nm fs true) = true ->
  forall s pos, 0 <= pos -> req (read_compiled c fuel true fs (pre ++ s) (zlen pre + pos)) (ShiftProps.shift (zlen pre) (read_compiled c fuel true fs s pos)).
Proof.
  intros Hcl Hnd Hb Hp Hsh s pos H0.
  pose proof (compiled_static_is_interpreted c fuel true nm fs p Hcl Hnd Hb Hp (pre ++ s) (zlen pre + pos) [] ltac:(pose proof (zlen_nonneg pre); lia)) as R1.
  pose proof (compiled_static_is_interpreted c fuel true nm fs p Hcl Hnd Hb Hp s pos [] H0) as R2.
  rewrite (proj1 (ShiftProps.read_ty_shift pre c fuel _ Hsh s pos [] H0)) in R1.
  refine (req_trans _ _ _ R1 _). apply req_sym.
  destruct (read_compiled c fuel true fs s pos) as [[v q]|], (read_ty c fuel (TStruct nm fs true) s pos []) as [[v' q']|]; cbn in R2 |- *; try contradiction; auto.
  injection R2 as -> ->. reflexivity.
Qed.

(* ---------- aligned structures with dynamically sized members (Proofs/CompilerAligned.v) ---------- *)
From VF Require Import Proofs.CompilerAligned.
Definition layout_fits (c : cfg) (fs : list field) : Prop :=
  forall lay, layout_struct c true fs = Ok lay -> agaps c 9223372036854775807 0 (set_offsets fs (l_offs lay)).
(* C08: a value the generated reader of an aligned structure with dynamic members returns from a stream is the value it returns from every extension *)
Theorem compiled_aligned_dynamic_extension_stable c fuel nm fs p :
  Forall (adcls c fuel) fs -> NoDup (map f_name fs) -> layout_fits c fs -> compile_plan c true fs = Ok p -> simple (TStruct nm fs true) = true ->
  forall s1 s2 pos r, 0 <= pos -> read_compiled c fuel true fs s1 pos = Ok r -> read_compiled c fuel true fs (s1 ++ s2) pos = Ok r.
Proof.
  intros Hcl Hnd Hb Hp Hsi s1 s2 pos r H0 H.
  pose proof (compiled_aligned_dynamic_is_interpreted c fuel nm fs p Hcl Hnd Hb Hp s1 pos [] H0) as R1. rewrite H in R1.
  destruct (read_ty c fuel (TStruct nm fs true) s1 pos []) as [r1|] eqn:E1; cbn in R1; [|contradiction]. subst r1.
  pose proof (read_ty_ext c fuel _ Hsi s1 s2 pos [] r E1) as E2.
  pose proof (compiled_aligned_dynamic_is_interpreted c fuel nm fs p Hcl Hnd Hb Hp (s1 ++ s2) pos [] H0) as R2. rewrite E2 in R2.
  destruct (read_compiled c fuel true fs (s1 ++ s2) pos) as [r2|]; cbn in R2; [now subst|contradiction].
Qed.
(* C09: ... and does not depend on what precedes the position it starts at (prefixes that respect the alignments) *)
Theorem compiled_aligned_dynamic_position_independent pre c fuel nm fs p :
  Forall (adcls c fuel) fs -> NoDup (map f_name fs) -> layout_fits c fs -> compile_plan c true fs = Ok p -> ShiftProps.shift_ok pre c (TStruct nm fs true) = true ->
  forall s pos, 0 <= pos -> req (read_compiled c fuel true fs (pre ++ s) (zlen pre + pos)) (ShiftProps.shift (zlen pre) (read_compiled c fuel true fs s pos)).
Proof.
  intros Hcl Hnd Hb Hp Hsh s pos H0.
  pose proof (compiled_aligned_dynamic_is_interpreted c fuel nm fs p Hcl Hnd Hb Hp (pre ++ s) (zlen pre + pos) [] ltac:(pose proof (zlen_nonneg pre); lia)) as R1.
  pose proof (compiled_aligned_dynamic_is_interpreted c fuel nm fs p Hcl Hnd Hb Hp s pos [] H0) as R2.
  rewrite (proj1 (ShiftProps.read_ty_shift pre c fuel _ Hsh s pos [] H0)) in R1.
  refine (req_trans _ _ _ R1 _). apply req_sym.
  destruct (read_compiled c fuel true fs s pos) as [[v q]|], (read_ty c fuel (TStruct nm fs true) s pos []) as [[v' q']|]; cbn in R2 |- *; try contradiction; auto.
  injection R2 as -> ->. reflexivity.
Qed.
