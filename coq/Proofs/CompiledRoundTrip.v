(* CompiledRoundTrip.v — the round-trip theorems of C01 carried over to the COMPILED reader through C03's theorem. *)
From Coq Require Import Lia.
From VF Require Import Model.Writer Model.Compiler Proofs.CodecCorrect Proofs.ReaderProps Proofs.SizeProps Proofs.RoundTrip Proofs.ValueRoundTrip Proofs.ValueRoundTripDyn
  Proofs.CompilerProps.
Open Scope string_scope. Open Scope list_scope. Open Scope Z_scope.

(* dump, then parse with the compiled reader: the value comes back and exactly the dump is consumed *)
Theorem compiled_parse_dump_identity c : endian_ok (c_endian c) -> forall fuel nm fs p,
  Forall (fun f => f_off f = None /\ cls' c fuel f) fs -> NoDup (map f_name fs) -> bsize c fs <= 9223372036854775807 -> compile_plan c false fs = Ok p ->
  flat (TStruct nm fs false) = true -> dyn_ty c (TStruct nm fs false) = true ->
  forall v wpos bs, has_tyc c (TStruct nm fs false) [] v -> write_ty c (TStruct nm fs false) v wpos = Ok bs ->
    forall pre rest, exists v', read_compiled c fuel false fs (pre ++ bs ++ rest) (zlen pre) = Ok (v', zlen pre + zlen bs) /\ strip v' = strip v.
Proof.
  intros He fuel nm fs p Hcl Hnd Hb Hp Hfl Hdy v wpos bs Hty Hw pre rest.
  destruct (parse_dump_identity_dyn c He fuel (TStruct nm fs false) Hfl Hdy [] v wpos bs Hty Hw pre rest) as [v' [Hr Hs]].
  pose proof (compiled_is_interpreted c fuel nm fs p Hcl Hnd Hb Hp (pre ++ bs ++ rest) (zlen pre) [] (zlen_nonneg pre)) as R.
  rewrite Hr in R. destruct (read_compiled c fuel false fs (pre ++ bs ++ rest) (zlen pre)) as [[v2 p2]|]; cbn in R; [|contradiction].
  injection R as -> ->. eauto.
Qed.

(* parse with the compiled reader, then dump: exactly the bytes it consumed *)
Theorem compiled_dump_parse_identity c : endian_ok (c_endian c) -> forall fuel nm fs p,
  Forall (fun f => f_off f = None /\ cls' c fuel f) fs -> NoDup (map f_name fs) -> bsize c fs <= 9223372036854775807 -> compile_plan c false fs = Ok p ->
  flat (TStruct nm fs false) = true -> fid_ty c (TStruct nm fs false) = true ->
  forall s pos v q, Bytes s -> 0 <= pos -> read_compiled c fuel false fs s pos = Ok (v, q) ->
    (pos <= q /\ zlen (sread s pos (q - pos)) = q - pos) /\ forall wpos, write_ty c (TStruct nm fs false) v wpos = Ok (sread s pos (q - pos)).
Proof.
  intros He fuel nm fs p Hcl Hnd Hb Hp Hfl Hfi s pos v q Hs H0 Hr.
  pose proof (compiled_is_interpreted c fuel nm fs p Hcl Hnd Hb Hp s pos [] H0) as R. rewrite Hr in R.
  destruct (read_ty c fuel (TStruct nm fs false) s pos []) as [[v2 p2]|] eqn:E; cbn in R; [|contradiction]. injection R as <- <-.
  exact (dump_parse_identity c He fuel (TStruct nm fs false) Hfl Hfi s pos [] v q Hs H0 E).
Qed.
(* ... and consumes the declared size *)
Theorem compiled_consumes_size c fuel nm fs p n : 
  Forall (fun f => f_off f = None /\ cls' c fuel f) fs -> NoDup (map f_name fs) -> bsize c fs <= 9223372036854775807 -> compile_plan c false fs = Ok p ->
  flat (TStruct nm fs false) = true -> ty_size c (TStruct nm fs false) = Some n ->
  forall s pos v q, 0 <= pos -> read_compiled c fuel false fs s pos = Ok (v, q) -> q = pos + n.
Proof.
  intros Hcl Hnd Hb Hp Hfl Hn s pos v q H0 Hr.
  pose proof (compiled_is_interpreted c fuel nm fs p Hcl Hnd Hb Hp s pos [] H0) as R. rewrite Hr in R.
  destruct (read_ty c fuel (TStruct nm fs false) s pos []) as [[v2 p2]|] eqn:E; cbn in R; [|contradiction]. injection R as <- <-.
  exact (read_consumes_size c fuel (TStruct nm fs false) Hfl n Hn s pos [] v q E).
Qed.

(* structures that mix plain members with runs of bit fields (Proofs/BitMixed.v), through the COMPILED reader *)
From VF Require Import Proofs.BitsCorrect Proofs.BitRun Proofs.BitStruct Proofs.BitMixed.
Theorem compiled_mixed_round_trip c : endian_ok (c_endian c) -> forall fuel nm segs p,
  segs_ok c (Some 0) segs -> NoDup (map f_name (fields_of segs)) ->
  Forall (plain_ok c (fun f => read_ty c fuel (f_ty f)) (fun f => write_ty c (f_ty f)) (fun f => has_tyc c (f_ty f))) segs ->
  Forall (fun f => f_off f = None /\ cls' c fuel f) (fields_of segs) -> bsize c (fields_of segs) <= 9223372036854775807 ->
  compile_plan c false (fields_of segs) = Ok p ->
  forall vals sizes wpos bs,
    typed_segs (fun f => has_tyc c (f_ty f)) vals segs [] -> map fst vals = map f_name (fields_of segs) ->
    write_ty c (TStruct nm (fields_of segs) false) (VStruct vals sizes) wpos = Ok bs ->
    forall pre rest, exists v',
      read_compiled c fuel false (fields_of segs) (pre ++ bs ++ rest) (zlen pre) = Ok (v', zlen pre + zlen bs) /\ strip v' = strip (VStruct vals sizes).
Proof.
  intros He fuel nm segs p Hok Hnd Hpl Hcl Hb Hp vals sizes wpos bs HT Hn Hw pre rest.
  destruct (mixed_struct_round_trip c He fuel nm segs Hok Hnd Hpl vals sizes wpos bs HT Hn Hw pre rest []) as [v' [Hr Hs]].
  pose proof (compiled_is_interpreted c fuel nm (fields_of segs) p Hcl Hnd Hb Hp (pre ++ bs ++ rest) (zlen pre) [] (zlen_nonneg pre)) as R.
  rewrite Hr in R. destruct (read_compiled c fuel false (fields_of segs) (pre ++ bs ++ rest) (zlen pre)) as [[v2 p2]|]; cbn in R; [|contradiction].
  injection R as -> ->. eauto.
Qed.

(* ---------- C08 / C09 through the compiled reader ---------- *)
From VF Require Import Proofs.ShiftProps.
(* a value the generated statements return from a stream is the value they return from any extension of that stream: cutting the input can only
   make the compiled reader fail, never return something else *)
Theorem compiled_extension_stable c fuel nm fs p :
  Forall (fun f => f_off f = None /\ cls' c fuel f) fs -> NoDup (map f_name fs) -> bsize c fs <= 9223372036854775807 -> compile_plan c false fs = Ok p ->
  simple (TStruct nm fs false) = true ->
  forall s1 s2 pos r, 0 <= pos -> read_compiled c fuel false fs s1 pos = Ok r -> read_compiled c fuel false fs (s1 ++ s2) pos = Ok r.
Proof.
  intros Hcl Hnd Hb Hp Hsi s1 s2 pos r H0 H.
  pose proof (compiled_is_interpreted c fuel nm fs p Hcl Hnd Hb Hp s1 pos [] H0) as R1. rewrite H in R1.
  destruct (read_ty c fuel (TStruct nm fs false) s1 pos []) as [r1|] eqn:E1; cbn in R1; [|contradiction]. subst r1.
  pose proof (read_ty_ext c fuel (TStruct nm fs false) Hsi s1 s2 pos [] r E1) as E2.
  pose proof (compiled_is_interpreted c fuel nm fs p Hcl Hnd Hb Hp (s1 ++ s2) pos [] H0) as R2. rewrite E2 in R2.
  destruct (read_compiled c fuel false fs (s1 ++ s2) pos) as [r2|]; cbn in R2; [now subst|contradiction].
Qed.
(* the compiled reader does not depend on what precedes the position it starts at *)
Theorem compiled_position_independent pre c fuel nm fs p :
  Forall (fun f => f_off f = None /\ cls' c fuel f) fs -> NoDup (map f_name fs) -> bsize c fs <= 9223372036854775807 -> compile_plan c false fs = Ok p ->
  shift_ok pre c (TStruct nm fs false) = true ->
  forall s pos, 0 <= pos -> req (read_compiled c fuel false fs (pre ++ s) (zlen pre + pos)) (shift (zlen pre) (read_compiled c fuel false fs s pos)).
Proof.
  intros Hcl Hnd Hb Hp Hsh s pos H0.
  pose proof (compiled_is_interpreted c fuel nm fs p Hcl Hnd Hb Hp (pre ++ s) (zlen pre + pos) [] ltac:(pose proof (zlen_nonneg pre); lia)) as R1.
  pose proof (compiled_is_interpreted c fuel nm fs p Hcl Hnd Hb Hp s pos [] H0) as R2.
  rewrite (proj1 (read_ty_shift pre c fuel (TStruct nm fs false) Hsh s pos [] H0)) in R1.
  refine (req_trans _ _ _ R1 _). apply req_sym.
  destruct (read_compiled c fuel false fs s pos) as [[v q]|], (read_ty c fuel (TStruct nm fs false) s pos []) as [[v' q']|]; cbn in R2 |- *; try contradiction; auto.
  injection R2 as -> ->. reflexivity.
Qed.
