(* CompilerAligned.v — the compiled reader of ALIGNED structures with dynamically sized members (no bit fields): a static prefix read in padded
   blocks and through sub-readers behind seeks (Proofs/CompilerStatic.v), then - once a member's size is only known at run time - members without
   offsets: the generator aligns the stream in front of each of them at run time, reads scalars in blocks of one, and calls the readers of the
   others; the interpreted reader aligns the same way. *)
From Coq Require Import Lia.
From VF Require Import Model.Reader Model.Writer Model.Compiler Proofs.ReaderProps Proofs.ShiftProps Proofs.ArrayProps Proofs.BlockProps Proofs.CodecCorrect Proofs.RoundTrip
  Proofs.CompilerProps Proofs.CompilerGaps Proofs.CompilerStatic.
Open Scope string_scope. Open Scope list_scope. Open Scope Z_scope.

Section AlignedDyn.
  Variable c : cfg.
  Variable fuel : nat.
  Let e := c_endian c.
  Let rd := fun f : field => read_ty c fuel (f_ty f).
  Variable s : list Z.
  Variable start : Z.
  Variable cal : Z.

  (* one member that is not a bit field, as the interpreted loop reads it in ALIGNED mode *)
  Definition read_member_a (f : field) (st : pstate) : result pstate :=
    let q := match f_off f with Some fo => start + fo | None => p_pos st + pad_to (p_pos st) (field_align c f) end in
    do x <- rd f s q (p_ctx st);
    Ok (mkPS (snd x) bb_empty ((f_name f, fst x) :: p_vals st) ((f_name f, snd x - q) :: p_sizes st) (int_ctx (f_name f) (fst x) (p_ctx st))).
  Fixpoint seq_loop_a (fs : list field) (st : pstate) : result pstate :=
    match fs with [] => Ok st | f :: r => do st' <- read_member_a f st; seq_loop_a r st' end.

  Lemma read_member_a_some f o st : f_bits f = None -> f_off f = Some o -> read_member_a f st = read_member c fuel s start f st.
  Proof. intros Hb Ho. unfold read_member_a, read_member. now rewrite (bits_on_none f Hb), Ho. Qed.
  Lemma seq_loop_a_some : forall fs st, Forall (fun f => f_bits f = None /\ f_off f <> None) fs -> seq_loop_a fs st = seq_loop c fuel s start fs st.
  Proof.
    induction fs as [|f r IH]; intros st H; [reflexivity|]. inversion H as [|? ? [Hb Ho] Hr]; subst. destruct (f_off f) as [o|] eqn:Eo; [|contradiction].
    cbn [seq_loop_a seq_loop]. rewrite (read_member_a_some f o st Hb Eo). destruct (read_member c fuel s start f st); cbn [bind]; [now apply IH|reflexivity].
  Qed.

  Lemma struct_loop_seq_a : forall fs offs pos bb vals sizes lctx, length offs = length fs -> Forall (fun f => f_bits f = None) fs ->
    struct_loop e true start (map (fun f => (meta_of c f, rd f)) fs) offs s pos bb vals sizes lctx =
    do st <- seq_loop_a (set_offsets fs offs) (mkPS pos bb vals sizes lctx); Ok (rev (p_vals st), rev (p_sizes st), p_pos st).
  Proof.
    induction fs as [|f r IH]; intros offs pos bb vals sizes lctx Hlen Hb.
    - destruct offs; reflexivity.
    - destruct offs as [|o ro]; [discriminate|]. destruct f as [n a t b o0]. inversion Hb as [|? ? Hb1 Hbr]; subst. cbn [f_bits] in Hb1. subst b.
      cbn [map struct_loop set_offsets seq_loop_a meta_of fm_bits fm_name fm_align f_bits f_name f_ty]. unfold read_member_a. cbn [f_off f_name f_ty p_pos p_ctx p_vals p_sizes].
      assert (Hl : length ro = length r) by (cbn in Hlen; lia).
      unfold field_align. cbn [f_ty]. unfold rd. cbn [f_ty].
      destruct o as [fo|].
      + destruct (read_ty c fuel t s (start + fo) lctx) as [[v p]|]; cbn [bind fst snd]; [|reflexivity]. fold rd. now apply IH.
      + destruct (read_ty c fuel t s (pos + pad_to pos (if ty_align c t =? 0 then 1 else ty_align c t)) lctx) as [[v p]|]; cbn [bind fst snd]; [|reflexivity]. fold rd. now apply IH.
  Qed.
  Lemma seq_loop_a_names : forall fs st st', seq_loop_a fs st = Ok st' -> map fst (rev (p_vals st')) = map fst (rev (p_vals st)) ++ map f_name fs.
  Proof.
    induction fs as [|f r IH]; intros st st' H; cbn [seq_loop_a] in H.
    - injection H as <-. now rewrite app_nil_r.
    - destruct (read_member_a f st) as [st1|] eqn:E; [|discriminate]. cbn [bind] in H. rewrite (IH _ _ H).
      unfold read_member_a in E. destruct (rd f s _ (p_ctx st)) as [[v p]|]; [|discriminate]. cbn [bind] in E. injection E as <-.
      cbn [p_vals rev map]. rewrite map_app. cbn [map fst]. now rewrite <- app_assoc.
  Qed.

  (* a block of ONE scalar member without an offset is generated alike in both modes *)
  Lemma gen_block_single_none f : f_off f = None -> gen_block c true [f] = gen_block c false [f].
  Proof.
    intros Ho. unfold gen_block. cbn [struct_info]. rewrite Ho. cbn [is_none andb bind option_map]. unfold pad_to. rewrite Z.land_0_l. cbn [Z.ltb Z.compare app Z.add]. reflexivity.
  Qed.

  Definition dcls (f : field) : Prop :=
    f_bits f = None /\
    ((bmem c (f_ty f) <> None /\ 0 < msize c (f_ty f) <= 9223372036854775807) \/
     (bmem c (f_ty f) = None /\ is_sub c (f_ty f) = true /\ sub_ok c fuel f)).

  (* the pending block: empty; ONE scalar member without an offset (read where the stream stands); or members with offsets (a chain of runs with gaps) *)
  Definition pend_a (gst : gstate) (st : pstate) : result pstate :=
    match g_block gst with
    | [] => Ok st
    | f0 :: _ => match f_off f0 with Some h => seq_gS c fuel s h (g_block gst) st | None => seq_blockS c fuel s (g_block gst) st end
    end.
  Definition INV_a (gst : gstate) (st : pstate) : Prop :=
    g_pbits gst = false /\ p_bb st = bb_empty /\ 0 <= g_off gst /\ 0 <= p_pos st /\
    ((g_block gst = [] /\ (g_known gst = true -> p_pos st = start + g_off gst)) \/
     (exists f, g_block gst = [f] /\ f_off f = None /\ mcls c f) \/
     (g_block gst <> [] /\ Forall (mcls c) (g_block gst) /\ g_off gst <= 9223372036854775807 /\
      exists h, hoff (g_block gst) = Some h /\ 0 <= h /\ gaps_ok c h (g_block gst) /\ p_pos st = start + h /\ g_off gst = h + gsize c (segs c h (g_block gst)))).

  Lemma INV_of_static gst st : INV c start gst st -> INV_a gst st.
  Proof.
    intros [Hpb [Hbb [Hpp [Hcl [[Hg0 Hmax] [He Hne]]]]]]. unfold INV_a. split; [exact Hpb|]. split; [exact Hbb|]. split; [exact Hg0|]. split; [exact Hpp|].
    destruct (g_block gst) as [|f0 B] eqn:EB.
    - left. split; [reflexivity|]. intros Hk. now apply He.
    - destruct (Hne ltac:(discriminate)) as [h [Hh [Hh0 [Hg [Hp Hoff]]]]]. right. right. split; [discriminate|]. split; [exact Hcl|]. split; [exact Hmax|].
      exists h. repeat split; assumption.
  Qed.

  Lemma run_app_a p1 p2 st : run_instrs c rd s start cal (p1 ++ p2) st = do st' <- run_instrs c rd s start cal p1 st; run_instrs c rd s start cal p2 st'.
  Proof. unfold rd. apply run_instrs_app. Qed.

  (* flushing the pending block is reading it *)
  Lemma flush_a gst Pf gst2 st : INV_a gst st -> 0 <= start -> flush c true gst = Ok (Pf, gst2) ->
    req (run_instrs c rd s start cal Pf st) (pend_a gst st) /\
    gst2 = mkGS (g_off gst) [] (g_pbits gst) (g_btype gst) (g_brem gst) (g_roll gst) (g_known gst) /\
    (forall st1, pend_a gst st = Ok st1 -> p_bb st1 = bb_empty /\ 0 <= p_pos st1 /\
        (g_block gst = [] -> st1 = st) /\ ((exists h, hoff (g_block gst) = Some h) -> p_pos st1 = start + g_off gst)).
  Proof.
    intros [Hpb [Hbb [Hg0 [Hpp Hblk]]]] Hst H. destruct Hblk as [[EB Hk]|[[f [EB [Ho Hm]]]|[Hne [Hcl [Hmax [h [Hh [Hh0 [Hg [Hp Hoff]]]]]]]]]].
    - unfold flush in H. unfold pend_a. rewrite EB in *. injection H as <- <-. split; [cbn; reflexivity|]. split; [destruct gst; cbn in *; now subst|].
      intros st1 E. injection E as <-. split; [exact Hbb|]. split; [exact Hpp|]. split; [reflexivity|]. intros [h Hh]. discriminate Hh.
    - unfold flush in H. unfold pend_a. rewrite EB in *. cbn [hoff]. rewrite Ho.
      destruct (gen_block c true [f]) as [i|] eqn:Eg; [|discriminate]. cbn [bind] in H. injection H as <- <-.
      rewrite (gen_block_single_none f Ho) in Eg. destruct Hm as [Hb [Hbm Hms]].
      assert (Hcl : inclass c [f]) by (constructor; [exact Hbm|constructor]).
      assert (Hbig : bsize c [f] <= 9223372036854775807) by (cbn [bsize fold_right]; lia).
      assert (Hc : contig c (match [f] with f0 :: _ => f_off f0 | [] => None end) [f]) by (cbn [contig]; rewrite Ho; split; exact I).
      pose proof (block_sound c fuel [f] i Hcl Hc Eg Hbig s start cal st Hpp) as R. fold rd in R.
      split; [|split; [reflexivity|]].
      + cbn [run_instrs]. unfold seq_blockS. destruct (run_instr c rd s start cal i st); cbn [bind]; exact R.
      + intros st1 E. unfold seq_blockS in E. destruct (seq_block c fuel [f] s (p_pos st) st) as [[sx qx]|] eqn:Eq; [|discriminate]. cbn [bind fst snd] in E. injection E as <-.
        pose proof (seq_block_end c fuel [f] s _ _ _ _ Hpp Hcl Hbig Eq) as Hq. destruct (seq_block_pos c fuel s [f] _ _ _ _ Eq) as [_ Hb1].
        cbn [set_pos p_bb p_pos]. pose proof (bsize_nonneg c fuel [f]). split; [congruence|]. split; [lia|]. split; [discriminate|]. intros [h Hh]. cbn [hoff] in Hh. congruence.
    - assert (Hinv : INV c start gst st).
      { unfold INV. split; [exact Hpb|]. split; [exact Hbb|]. split; [exact Hpp|]. split; [exact Hcl|]. split; [lia|]. split; [intros X; now contradiction Hne|].
        intros _. exists h. repeat split; assumption. }
      destruct (flush_g c fuel s start cal true gst Pf gst2 st Hinv Hst H) as [R [Hg2 Hafter]].
      assert (Hpe : pend_a gst st = pend c fuel s gst st).
      { unfold pend_a, pend. destruct (g_block gst) as [|f0 B]; [reflexivity|]. cbn [hoff] in Hh. now rewrite Hh. }
      rewrite Hpe. split; [exact R|]. split; [exact Hg2|]. intros st1 E. destruct (Hafter st1 E) as [A1 [A2 A3]].
      split; [exact A1|]. split; [rewrite (A2 Hne); lia|]. split; [intros X; now contradiction Hne|]. intros _. now apply A2.
  Qed.

  (* the generator on a scalar member WITHOUT an offset, aligned mode: the pending block is flushed, the stream aligned at run time, a block of one started *)
  Lemma plan_step_plain_none f st p cnt : bmem c (f_ty f) = Some (p, cnt) -> msize c (f_ty f) <= 9223372036854775807 -> f_bits f = None -> g_pbits st = false -> f_off f = None ->
    plan_step c true f st =
      do fl <- flush c true st;
      Ok (fst fl ++ [IAlignTo (field_align c f)], mkGS (g_off st + msize c (f_ty f)) [f] false (g_btype st) (g_brem st) false false).
  Proof.
    intros Hp Hbig Hb Hpb Eo. destruct (bmem_facts c fuel _ _ _ Hp Hbig) as [sz [hp [hm [_ [_ [_ [_ [_ [_ [_ [_ [_ [_ [Hsup [Hsz Hshape]]]]]]]]]]]]]]].
    pose proof (msize_nonneg c (f_ty f)) as Hnn.
    unfold plan_step. rewrite Hsup, Hpb, Hsz. cbn [negb andb]. assert (msize c (f_ty f) <? 0 = false) as -> by (apply Z.ltb_ge; lia).
    unfold bits_on. rewrite Hb, Eo.
    destruct st as [go gb gp gt gr gl gk]; cbn [g_block g_off g_pbits g_btype g_brem g_roll g_known has_block] in *. subst gp.
    destruct gb as [|g0 gb].
    - destruct (unwrap (f_ty f)) as [q al'|b al' fl ms|tg|el len|nm fs al'|nm fs al']; try contradiction; try (destruct el; try contradiction); cbn [is_none has_block g_block andb bind fst snd app flush];
        unfold align_to_field; rewrite Eo; cbn [g_off g_known g_block andb is_none app bind fst snd g_pbits g_btype g_brem g_roll orb]; reflexivity.
    - unfold flush at 1 2. cbn [g_block].
      destruct (unwrap (f_ty f)) as [q al'|b al' fl ms|tg|el len|nm fs al'|nm fs al']; try contradiction; try (destruct el; try contradiction); cbn [is_none has_block g_block andb];
        unfold flush; cbn [g_block]; destruct (gen_block c true (g0 :: gb)) as [i|]; cbn [bind fst snd g_block g_off g_pbits g_btype g_brem g_roll g_known app]; try reflexivity;
        unfold align_to_field; rewrite Eo; cbn [g_off g_known g_block andb is_none app bind fst snd g_pbits g_btype g_brem g_roll orb]; reflexivity.
  Qed.

  (* the members after a dynamically sized one: no offsets, every one aligned at run time *)
  Lemma dyn_loop : forall fs gst st P gst' Pf gst'', Forall (fun f => f_off f = None /\ dcls f /\ 1 <= field_align c f) fs -> INV_a gst st -> 0 <= start ->
    plan_go c true fs gst = Ok (P, gst') -> flush c true gst' = Ok (Pf, gst'') ->
    req (run_instrs c rd s start cal (P ++ Pf) st) (do st1 <- pend_a gst st; seq_loop_a fs st1).
  Proof.
    induction fs as [|f r IH]; intros gst st P gst' Pf gst'' Hcls Hinv Hst HP HF.
    - cbn [plan_go] in HP. injection HP as <- <-. cbn [app seq_loop_a]. destruct (flush_a gst Pf gst'' st Hinv Hst HF) as [R _].
      destruct (pend_a gst st); cbn [bind]; exact R.
    - inversion Hcls as [|? ? [Ho [[Hb Hkind] Ha]] Hcr]; subst.
      cbn [plan_go] in HP. destruct (plan_step c true f gst) as [[P1 gst1]|] eqn:E1; [|discriminate]. cbn [bind fst snd] in HP.
      destruct (plan_go c true r gst1) as [[P2 gst2]|] eqn:E2; [|discriminate]. cbn [bind fst snd] in HP. injection HP as <- <-.
      pose proof Hinv as [Hpb [Hbb [Hg0 [Hpp Hblk]]]]. pose proof (bits_on_none f Hb) as Hbo.
      set (a := field_align c f) in *.
      destruct Hkind as [[Hm Hms]|[Hm [Hsub Hsok]]].
      + destruct (bmem c (f_ty f)) as [[p cnt]|] eqn:Ep; [|contradiction].
        rewrite (plan_step_plain_none f gst p cnt Ep ltac:(lia) Hb Hpb Ho) in E1.
        destruct (flush c true gst) as [[Pb stb]|] eqn:Hfl; [|discriminate]. cbn [bind fst snd] in E1. injection E1 as <- <-.
        destruct (flush_a gst Pb stb st Hinv Hst Hfl) as [RB [_ Hafter]].
        rewrite <- !app_assoc, run_app_a. cbn [seq_loop_a].
        apply req_bind'; [exact RB|]. intros st1 Est1. destruct (Hafter st1 Est1) as [Hbb1 [Hpp1 _]].
        cbn [app run_instrs run_instr bind].
        set (st1' := mkPS (p_pos st1 + pad_to (p_pos st1) a) (p_bb st1) (p_vals st1) (p_sizes st1) (p_ctx st1)).
        pose proof (pad_to_nonneg (p_pos st1) a Ha) as Hpad.
        assert (Hmc : mcls c f) by (split; [exact Hb|]; split; [congruence|exact Hms]).
        refine (req_trans _ _ _ (IH _ st1' _ _ _ _ Hcr _ Hst E2 HF) _).
        * unfold INV_a. cbn [g_pbits g_block g_off g_known st1' p_bb p_pos]. split; [reflexivity|]. split; [exact Hbb1|]. pose proof (msize_nonneg c (f_ty f)). split; [lia|]. split; [lia|].
          right. left. exists f. split; [reflexivity|]. split; [exact Ho|exact Hmc].
        * unfold pend_a. cbn [g_block]. rewrite Ho. unfold seq_blockS, read_member_a. cbn [seq_block bind fst snd]. rewrite Ho. cbn [st1' p_pos p_ctx]. fold a.
          unfold rd. destruct (read_ty c fuel (f_ty f) s (p_pos st1 + pad_to (p_pos st1) a) (p_ctx st1)) as [[v p']|]; cbn [bind fst snd]; [|apply req_refl].
          unfold push, set_pos. cbn [p_bb p_vals p_sizes p_ctx p_pos st1']. rewrite Hbb1. apply req_refl.
      + destruct (plan_step_sub_al c true f gst P1 gst1 Hsub Hb Hpb E1) as [Pb [stb [Hfl [-> ->]]]].
        destruct (flush_a gst Pb stb st Hinv Hst Hfl) as [RB [-> Hafter]].
        rewrite <- !app_assoc, run_app_a. cbn [seq_loop_a].
        apply req_bind'; [exact RB|]. intros st1 Est1. destruct (Hafter st1 Est1) as [Hbb1 [Hpp1 _]].
        assert (Hat : align_to_field c true f (mkGS (g_off gst) [] (g_pbits gst) (g_btype gst) (g_brem gst) (g_roll gst) (g_known gst)) =
                      ([IAlignTo a], mkGS (g_off gst) [] (g_pbits gst) (g_btype gst) (g_brem gst) (g_roll gst) false)).
        { unfold align_to_field. rewrite Ho. reflexivity. }
        rewrite Hat in E2 |- *. cbn [fst snd] in E2 |- *.
        cbn [app run_instrs run_instr bind p_pos p_bb p_vals p_sizes p_ctx]. unfold read_member_a. rewrite Ho. fold a.
        pose proof (pad_to_nonneg (p_pos st1) a Ha) as Hpad.
        unfold rd. destruct (read_ty c fuel (f_ty f) s (p_pos st1 + pad_to (p_pos st1) a) (p_ctx st1)) as [[v p']|] eqn:Erd; cbn [bind fst snd]; [|exact I].
        rewrite Hbb1.
        refine (req_trans _ _ _ (IH _ _ _ _ _ _ Hcr _ Hst E2 HF) _).
        * unfold INV_a, after_sub. cbn [g_pbits g_block g_off g_known p_bb p_pos]. split; [exact Hpb|]. split; [reflexivity|].
          destruct Hsok as [Hsz Hnn]. split; [destruct (ty_size c (f_ty f)) as [n|] eqn:En; [pose proof (Hsz n eq_refl); lia|lia]|].
          split; [apply (Hnn s (p_pos st1 + pad_to (p_pos st1) a) (p_ctx st1) v p'); [lia|exact Erd]|]. left. split; [reflexivity|]. discriminate.
        * unfold pend_a, after_sub. cbn [g_block bind]. apply req_refl.
  Qed.

  (* the offsets the aligned layout gives: members with offsets, each at or after the end of the one before, up to (and including) the first member whose
     size is only known at run time; no offsets after it *)
  Fixpoint agaps (M cur : Z) (fs : list field) : Prop :=
    match fs with
    | [] => True
    | f :: r =>
      match f_off f with
      | Some o => cur <= o /\ match ty_size c (f_ty f) with
                              | Some n => 0 <= n /\ o + n <= M /\ agaps M (o + n) r
                              | None => o <= M /\ Forall (fun g => f_off g = None) r
                              end
      | None => Forall (fun g => f_off g = None) r
      end
    end.
  Lemma agaps_none M cur fs : Forall (fun g => f_off g = None) fs -> agaps M cur fs.
  Proof. destruct fs as [|f r]; intros H; [exact I|]. inversion H as [|? ? Hf Hr]; subst. cbn [agaps]. now rewrite Hf. Qed.
  Lemma pend_a_static gst st : INV c start gst st -> pend_a gst st = pend c fuel s gst st.
  Proof.
    intros [_ [_ [_ [_ [_ [_ Hne]]]]]]. unfold pend_a, pend. destruct (g_block gst) as [|f0 B] eqn:EB; [reflexivity|].
    destruct (Hne ltac:(discriminate)) as [h [Hh _]]. cbn [hoff] in Hh. now rewrite Hh.
  Qed.

  Lemma mixed_loop : forall fs gst st P gst' Pf gst'', Forall (fun f => dcls f /\ 1 <= field_align c f) fs -> agaps 9223372036854775807 (g_off gst) fs -> INV c start gst st -> 0 <= start ->
    plan_go c true fs gst = Ok (P, gst') -> flush c true gst' = Ok (Pf, gst'') ->
    req (run_instrs c rd s start cal (P ++ Pf) st) (do st1 <- pend c fuel s gst st; seq_loop_a fs st1).
  Proof.
    induction fs as [|f r IH]; intros gst st P gst' Pf gst'' Hcls Hog Hinv Hst HP HF.
    - cbn [plan_go] in HP. injection HP as <- <-. cbn [app seq_loop_a]. destruct (flush_g c fuel s start cal true gst Pf gst'' st Hinv Hst HF) as [R _]. fold rd in R.
      destruct (pend c fuel s gst st); cbn [bind]; exact R.
    - cbn [agaps] in Hog. destruct (f_off f) as [o|] eqn:Ho.
      2:{ (* no offset: the rest is read with run-time alignment *)
        rewrite <- (pend_a_static gst st Hinv). apply (dyn_loop (f :: r) gst st P gst' Pf gst''); [|apply INV_of_static; exact Hinv|exact Hst|exact HP|exact HF].
        rewrite Forall_forall in *. intros g Hin. destruct (Hcls g Hin) as [A B]. split; [|split; assumption]. destruct Hin as [<-|Hin]; [exact Ho|now apply Hog]. }
      inversion Hcls as [|? ? [[Hb Hkind] Ha] Hcr]; subst. destruct Hog as [Hle Hog].
      assert (Hrm : forall x, read_member_a f x = read_member c fuel s start f x) by (intros x; exact (read_member_a_some f o x Hb Ho)).
      cbn [plan_go] in HP. destruct (plan_step c true f gst) as [[P1 gst1]|] eqn:E1; [|discriminate]. cbn [bind fst snd] in HP.
      destruct (plan_go c true r gst1) as [[P2 gst2]|] eqn:E2; [|discriminate]. cbn [bind fst snd] in HP. injection HP as <- <-.
      pose proof Hinv as [Hpb [Hbb [Hpp [Hcl [[Hg0 Hmax] [He Hne]]]]]].
      pose proof (bits_on_none f Hb) as Hbo.
      destruct Hkind as [[Hm Hms]|[Hm [Hsub Hsok]]].
      + (* a scalar member: it joins (or starts) a block *)
        destruct (bmem c (f_ty f)) as [[p cnt]|] eqn:Ep; [|contradiction].
        destruct (bmem_facts c fuel _ _ _ Ep ltac:(lia)) as [sz [hp [hm [_ [_ [_ [_ [Hts _]]]]]]]].
        rewrite Hts in Hog. destruct Hog as [_ [HoM Hog]].
        assert (Hmc : mcls c f) by (split; [exact Hb|]; split; [congruence|exact Hms]).
        destruct (g_block gst) as [|f0 B] eqn:EB.
        * rewrite (plan_step_plain_e c fuel s true f gst p cnt o Ep ltac:(lia) Hb Hpb Ho EB) in E1. injection E1 as <- <-.
          set (st1 := mkPS (start + o) (p_bb st) (p_vals st) (p_sizes st) (p_ctx st)).
          assert (Hrun : run_instrs c rd s start cal (if negb (o =? g_off gst) || negb (g_known gst) then [ISeek o] else []) st = Ok st1).
          { destruct (Z.eqb_spec o (g_off gst)) as [->|Hneq]; [destruct (g_known gst) eqn:Ek|]; cbn [negb orb run_instrs run_instr bind]; try reflexivity.
            f_equal. unfold st1. rewrite <- (He eq_refl eq_refl). now destruct st. }
          rewrite <- app_assoc, run_app_a, Hrun. cbn [bind]. unfold pend at 1. rewrite EB. cbn [bind seq_loop_a]. rewrite Hrm.
          refine (req_trans _ _ _ (IH _ st1 _ _ _ _ Hcr _ _ Hst E2 HF) _); cbn [g_off g_block g_pbits g_known].
          -- exact Hog.
          -- unfold INV. cbn [g_pbits g_block g_off g_known st1 p_bb p_pos hoff]. split; [reflexivity|]. split; [exact Hbb|]. split; [lia|]. split; [constructor; [exact Hmc|constructor]|].
             split; [lia|]. split; [discriminate|]. intros _. exists o. split; [exact Ho|]. split; [lia|]. split; [exists o; split; [exact Ho|split; [lia|exact I]]|].
             split; [reflexivity|]. cbn [segs gsize fold_right fst snd bsize]. rewrite Ho. cbn [fst snd bsize fold_right]. lia.
          -- unfold pend. cbn [g_block]. rewrite Ho. rewrite (seq_gS_single c fuel s start f o st1 Hb Ho eq_refl Hbb).
             rewrite (read_member_pos c fuel s start f st1 st Hbo eq_refl eq_refl eq_refl) by (intros X; congruence). apply req_refl.
        * destruct (Hne ltac:(discriminate)) as [h [Hh [Hh0 [Hg [Hp Hoff]]]]].
          assert (Hnb : g_block gst <> []) by (rewrite EB; discriminate).
          rewrite (plan_step_plain_g c fuel f gst p cnt true o Ep ltac:(lia) Hb Hpb Ho) in E1; [|intros _; exact Hle|intros X; now contradiction Hnb].
          injection E1 as <- <-. cbn [app]. rewrite EB in E2.
          pose proof (gok_segs c fuel _ h Hcl Hg) as Hok. pose proof (gsize_nonneg c fuel _ Hok) as Hgn.
          refine (req_trans _ _ _ (IH _ st _ _ _ _ Hcr _ _ Hst E2 HF) _); cbn [g_off g_block g_pbits g_known].
          -- exact Hog.
          -- unfold INV. cbn [g_pbits g_block g_off g_known]. split; [exact Hpb|]. split; [exact Hbb|]. split; [exact Hpp|]. split; [apply Forall_app; split; [exact Hcl|constructor; [exact Hmc|constructor]]|].
             split; [lia|]. split; [intros X; destruct B; discriminate X|]. intros _. exists h. split; [exact Hh|]. split; [exact Hh0|].
             split; [apply (gaps_ok_snoc c fuel s _ h f o Hg Ho); lia|]. split; [exact Hp|].
             rewrite (segs_snoc c fuel s (f0 :: B) h f o Hg Ho), (gsize_app c fuel s start). cbn [gsize fold_right fst snd bsize]. lia.
          -- unfold pend. rewrite EB. cbn [g_block app]. cbn [hoff] in Hh. rewrite Hh. change (f0 :: B ++ [f]) with ((f0 :: B) ++ [f]).
             rewrite (seq_gS_snoc c fuel s start h (f0 :: B) f o st Hh0 Hcl Hg ltac:(lia) Hbb Hp ltac:(lia) Hb Ho ltac:(lia)).
             destruct (seq_gS c fuel s h (f0 :: B) st); cbn [bind seq_loop_a]; [rewrite Hrm|]; apply req_refl.
      + (* a member with a reader of its own: flush, seek, call it *)
        destruct (plan_step_sub_al c true f gst P1 gst1 Hsub Hb Hpb E1) as [Pb [stb [Hfl [-> ->]]]].
        destruct (flush_g c fuel s start cal true gst Pb stb st Hinv Hst Hfl) as [RB [-> Hafter]]. fold rd in RB.
        rewrite <- !app_assoc, run_app_a. cbn [seq_loop_a].
        apply req_bind'; [exact RB|]. intros st1 Est1. destruct (Hafter st1 Est1) as [Hbb1 [Hpne Hpe]]. rewrite Hrm.
        set (stb := mkGS (g_off gst) [] (g_pbits gst) (g_btype gst) (g_brem gst) (g_roll gst) (g_known gst)) in *.
        assert (Hrun : exists stc, snd (align_to_field c true f stb) = stc /\ g_block stc = [] /\ g_pbits stc = false /\ g_off stc = o /\
                   forall rest, run_instrs c rd s start cal (fst (align_to_field c true f stb) ++ ISub f :: rest) st1 =
                     do st2 <- read_member c fuel s start f st1; run_instrs c rd s start cal rest st2).
        { unfold align_to_field, read_member. rewrite Hbo, Ho. cbn [is_none andb]. cbn [g_off g_known stb].
          destruct (Z.eqb_spec o (g_off gst)) as [Eo|Hneq]; [destruct (g_known gst) eqn:Ek|]; cbn [negb orb fst snd].
          - exists stb. split; [reflexivity|]. cbn [stb g_block g_pbits g_off]. split; [reflexivity|]. split; [exact Hpb|]. split; [now symmetry|].
            intros rest. cbn [app run_instrs run_instr].
            assert (Hq : p_pos st1 = start + o).
            { destruct (g_block gst) eqn:EB; [rewrite (Hpe eq_refl), (He eq_refl eq_refl); lia|rewrite Hpne by discriminate; lia]. }
            rewrite Hq, Hbb1. unfold rd. cbn beta. destruct (read_ty c fuel (f_ty f) s (start + o) (p_ctx st1)) as [[v p']|]; reflexivity.
          - eexists. split; [reflexivity|]. cbn [g_block g_pbits g_off]. split; [reflexivity|]. split; [exact Hpb|]. split; [reflexivity|].
            intros rest. cbn [app run_instrs run_instr bind p_pos p_ctx p_bb p_vals p_sizes]. rewrite Hbb1.
            unfold rd. cbn beta. destruct (read_ty c fuel (f_ty f) s (start + o) (p_ctx st1)) as [[v p']|]; reflexivity.
          - eexists. split; [reflexivity|]. cbn [g_block g_pbits g_off]. split; [reflexivity|]. split; [exact Hpb|]. split; [reflexivity|].
            intros rest. cbn [app run_instrs run_instr bind p_pos p_ctx p_bb p_vals p_sizes]. rewrite Hbb1.
            unfold rd. cbn beta. destruct (read_ty c fuel (f_ty f) s (start + o) (p_ctx st1)) as [[v p']|]; reflexivity. }
        destruct Hrun as [stc [Hstc [Hblk [Hpbc [Hoffc Hrun]]]]]. rewrite Hstc in *.
        change ([ISub f] ++ P2 ++ Pf) with (ISub f :: (P2 ++ Pf)). rewrite Hrun.
        destruct (read_member c fuel s start f st1) as [st2|] eqn:Erm; cbn [bind]; [|exact I].
        assert (Hbb2 : p_bb st2 = bb_empty /\ 0 <= p_pos st2).
        { unfold read_member in Erm. rewrite Hbo, Ho in Erm. cbn beta in Erm. destruct (read_ty c fuel (f_ty f) s (start + o) (p_ctx st1)) as [[v p']|] eqn:Erd; [|discriminate]. cbn [bind] in Erm. injection Erm as <-.
          split; [reflexivity|]. cbn [p_pos snd]. destruct Hsok as [_ Hnn]. apply (Hnn s (start + o) (p_ctx st1) v p'); [lia|exact Erd]. }
        destruct Hbb2 as [Hbb2 Hpp2]. destruct Hsok as [Hsz0 _].
        refine (req_trans _ _ _ (IH _ st2 _ _ _ _ Hcr _ _ Hst E2 HF) _); unfold after_sub; destruct (ty_size c (f_ty f)) as [n|] eqn:Hn; cbn [g_off g_block g_pbits g_known]; rewrite ?Hoffc, ?Hblk, ?Hpbc.
        -- destruct Hog as [_ [_ Hog]]. exact Hog.
        -- destruct Hog as [_ Hog]. apply agaps_none. exact Hog.
        -- destruct Hog as [Hn0 [HoM _]]. unfold INV. cbn [g_pbits g_block g_off g_known]. rewrite ?Hblk, ?Hpbc, ?Hoffc. split; [reflexivity|]. split; [exact Hbb2|]. split; [exact Hpp2|]. split; [constructor|]. split; [lia|].
           split; [intros _ X; discriminate X|intros X; now contradiction X].
        -- destruct Hog as [HoM _]. unfold INV. cbn [g_pbits g_block g_off g_known]. rewrite ?Hblk, ?Hpbc, ?Hoffc. split; [reflexivity|]. split; [exact Hbb2|]. split; [exact Hpp2|]. split; [constructor|]. split; [lia|].
           split; [intros _ X; discriminate X|intros X; now contradiction X].
        -- unfold pend. cbn [g_block]. rewrite ?Hblk. cbn [bind]. apply req_refl.
        -- unfold pend. cbn [g_block]. rewrite ?Hblk. cbn [bind]. apply req_refl.
  Qed.
End AlignedDyn.

Section AlignedDynTheorem.
  Variable c : cfg.
  Variable fuel : nat.

  Definition adcls (f : field) : Prop := f_off f = None /\ dcls c fuel f /\ 1 <= field_align c f.

  Lemma adcls_set_offsets : forall fs offs, Forall adcls fs -> Forall (fun f => dcls c fuel f /\ 1 <= field_align c f) (set_offsets fs offs).
  Proof.
    induction fs as [|[n a t b o] r IH]; intros offs Hc; [constructor|]. inversion Hc as [|? ? [_ Hf] Hr]; subst.
    destruct offs as [|o' ro]; cbn [set_offsets].
    - constructor; [exact Hf|]. specialize (IH [] Hr). destruct r as [|[? ? ? ? ?] ?]; exact IH.
    - constructor; [exact Hf|apply IH; exact Hr].
  Qed.
  Lemma layout_go_len : forall fs st offs st', layout_go c true fs st = Ok (offs, st') -> length offs = length fs.
  Proof.
    induction fs as [|f r IH]; intros st offs st' H; cbn [layout_go] in H; [now injection H as <- _|].
    destruct (layout_step _ _ _ _ _ _ _) as [x|]; [|discriminate]. cbn [bind] in H.
    destruct (layout_go c true r (fst x)) as [[o2 s2]|] eqn:E; [|discriminate]. cbn [bind fst snd] in H. injection H as <- _. cbn [length]. f_equal. exact (IH _ _ _ E).
  Qed.

  (* C03 for ALIGNED structures with dynamically sized members, no bit fields (`adcls`: scalars and fixed arrays of scalars of positive size; members with
     a reader of their own of ANY size - nested structures and unions, arrays of them, expression-counted, null-terminated and to-end arrays; alignments
     of at least 1): the static part as padded blocks and sub-readers behind seeks, the members after the first dynamically sized one with the stream
     aligned at run time in front of each - running the generated statements is running the interpreted reader.  `agaps` says what the layout's offsets
     look like (increasing up to the first dynamic member, none afterwards) and that the static part ends below 2^63. *)
  Theorem compiled_aligned_dynamic_is_interpreted nm fs p :
    Forall adcls fs -> NoDup (map f_name fs) ->
    (forall lay, layout_struct c true fs = Ok lay -> agaps c 9223372036854775807 0 (set_offsets fs (l_offs lay))) ->
    compile_plan c true fs = Ok p ->
    forall s pos ctx, 0 <= pos -> req (read_compiled c fuel true fs s pos) (read_ty c fuel (TStruct nm fs true) s pos ctx).
  Proof.
    intros Hcl Hnd Hbound Hplan s pos ctx Hpos. unfold read_compiled. unfold compile_plan in Hplan. cbn [read_ty].
    destruct (layout_struct c true fs) as [lay|] eqn:EL; [|discriminate]. cbn [bind] in Hplan |- *. rewrite Hplan. cbn [bind].
    pose proof (Hbound lay eq_refl) as Hg. clear Hbound.
    assert (Hlen : length (l_offs lay) = length fs).
    { unfold layout_struct in EL. destruct (layout_go c true fs _) as [[offs lst']|] eqn:EG; [|discriminate]. cbn [bind fst snd] in EL. injection EL as <-. cbn [l_offs]. exact (layout_go_len _ _ _ _ EG). }
    set (F := set_offsets fs (l_offs lay)) in *.
    pose proof (adcls_set_offsets fs (l_offs lay) Hcl) as HclF. fold F in HclF.
    assert (Hbits : Forall (fun f => f_bits f = None) fs) by (rewrite Forall_forall in *; intros f Hin; destruct (Hcl f Hin) as [_ [[Hb _] _]]; exact Hb).
    set (st0 := mkPS pos bb_empty [] [] []).
    rewrite (struct_loop_seq_a c fuel s pos fs (l_offs lay) pos bb_empty [] [] [] Hlen Hbits). fold F. fold st0.
    unfold plan_fields in Hplan. destruct (plan_go c true F _) as [[P gst']|] eqn:EP; [|discriminate]. cbn [bind fst snd] in Hplan.
    destruct (flush c true gst') as [[Pf gst'']|] eqn:EF; [|discriminate]. cbn [bind fst snd] in Hplan. injection Hplan as <-.
    assert (Hinv0 : INV c pos (mkGS 0 [] false None 0 false true) st0).
    { unfold INV. cbn [g_pbits g_block g_off g_known st0 p_bb p_pos]. split; [reflexivity|]. split; [reflexivity|]. split; [exact Hpos|]. split; [constructor|]. split; [lia|].
      split; [intros _ _; lia|intros X; now contradiction X]. }
    pose proof (mixed_loop c fuel s pos (l_align lay) F (mkGS 0 [] false None 0 false true) st0 P gst' Pf gst'' HclF Hg Hinv0 Hpos EP EF) as PL.
    unfold pend in PL. cbn [g_block bind] in PL.
    rewrite app_assoc, run_instrs_app.
    destruct (run_instrs c _ s pos (l_align lay) (P ++ Pf) st0) as [st|er] eqn:ER; destruct (seq_loop_a c fuel s pos F st0) as [st'|er'] eqn:ES;
      cbn [req bind] in PL |- *; try contradiction; [|exact I]. subst st'.
    pose proof (seq_loop_a_names c fuel s pos _ _ _ ES) as Hn. assert (Hn2 : map fst (rev (p_vals st)) = map f_name F) by exact Hn. clear Hn.
    destruct (set_offsets_same fs (l_offs lay) Hlen) as [Hnm _]. unfold F in Hn2. rewrite Hnm in Hn2.
    cbn [run_instrs run_instr bind p_pos p_vals p_sizes req]. now rewrite (assemble_rev fs (p_vals st) Hn2 Hnd).
  Qed.
End AlignedDynTheorem.
