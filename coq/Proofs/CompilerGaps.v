(* CompilerGaps.v — blocks WITH PADDING: the compiled reader of structures whose members all carry an offset (aligned structures of static members,
   members added with set offsets that leave gaps).  Built on Proofs/CompilerProps.v: a padded block is a chain of contiguous runs. *)
From Coq Require Import Lia.
From VF Require Import Model.Reader Model.Writer Model.Compiler Proofs.ReaderProps Proofs.ShiftProps Proofs.ArrayProps Proofs.BlockProps Proofs.CodecCorrect Proofs.RoundTrip
  Proofs.CompilerProps.
Open Scope string_scope. Open Scope list_scope. Open Scope Z_scope.

Section Gaps.
  Variable c : cfg.
  Variable fuel : nat.
  Let e := c_endian c.
  Let rd := fun f : field => read_ty c fuel (f_ty f).

  (* ---------- generic: lists of info entries, items, format characters ---------- *)
  (* how many values of the unpacked tuple the entries use *)
  Fixpoint nvals (l : list (option field * Z * fc)) : Z :=
    match l with
    | [] => 0
    | (None, _, _) :: r => nvals r
    | (Some f, _, _) :: r =>
      match member_read c (f_ty f) with
      | Ok (p, cnt) => (if is_bytebased p then 0 else match cnt with Some n => n | None => 1 end) + nvals r
      | Err _ => nvals r
      end
    end.
  Lemma block_items_app : forall l1 l2 size slice uses,
    block_items c (l1 ++ l2) size slice uses =
    do r1 <- block_items c l1 size slice uses; let '(it1, s1, u1) := r1 in
    do r2 <- block_items c l2 s1 (slice + nvals l1) u1; let '(it2, s2, u2) := r2 in Ok (it1 ++ it2, s2, u2).
  Proof.
    induction l1 as [|[[[f|] n] ch] r IH]; intros l2 size slice uses; cbn [app block_items nvals bind].
    - rewrite Z.add_0_r. destruct (block_items c l2 size slice uses) as [[[i s] u]|]; reflexivity.
    - destruct (member_read c (f_ty f)) as [[p cnt]|]; cbn [bind]; [|reflexivity].
      destruct (prim_size_z p) as [sz|]; [|reflexivity]. destruct (ty_size c (f_ty f)) as [fsz|]; [|reflexivity].
      destruct cnt as [k|]; destruct (is_bytebased p); rewrite IH;
        match goal with |- context [block_items c r ?a ?b ?u] => destruct (block_items c r a b u) as [[[i1 s1] u1]|] end; cbn [bind]; try reflexivity;
        rewrite ?Z.add_0_l, ?Z.add_assoc;
        match goal with |- context [block_items c l2 ?a ?b ?u] => destruct (block_items c l2 a b u) as [[[i2 s2] u2]|] end; reflexivity.
    - apply IH.
  Qed.
  Lemma run_items_app rdx buf data : forall i1 i2 st, run_items rdx buf data (i1 ++ i2) st = do st1 <- run_items rdx buf data i1 st; run_items rdx buf data i2 st1.
  Proof. induction i1 as [|it r IH]; intros i2 st; cbn [app run_items bind]; [reflexivity|]. destruct (item_value rdx buf data (p_ctx st) it); cbn [bind]; [apply IH|reflexivity]. Qed.

  (* ---------- a block with padding: contiguous runs of members with a gap before each ---------- *)
  Definition gseg := (Z * list field)%type.
  Definition padi (g : Z) : list (option field * Z * fc) := if 0 <? g then [(None, g, FX)] else [].
  Definition info_g (GB : list gseg) : list (option field * Z * fc) := flat_map (fun gb => padi (fst gb) ++ map (own c) (snd gb)) GB.
  Definition chars_g (GB : list gseg) : list fc := flat_map (fun gb => repeat FX (Z.to_nat (fst gb)) ++ bchars c (snd gb)) GB.
  Fixpoint seq_g (GB : list gseg) (s : list Z) (q : Z) (st : pstate) : result (pstate * Z) :=
    match GB with
    | [] => Ok (st, q)
    | gb :: r => do x <- seq_block c fuel (snd gb) s (q + fst gb) st; seq_g r s (snd x) (fst x)
    end.
  Definition gsize (GB : list gseg) : Z := fold_right (fun gb acc => fst gb + bsize c (snd gb) + acc) 0 GB.
  Definition gok (GB : list gseg) : Prop := Forall (fun gb => 0 <= fst gb /\ inclass c (snd gb) /\ (fst gb = 0 \/ 0 < bsize c (snd gb))) GB.
  Lemma gsize_nonneg GB : gok GB -> 0 <= gsize GB.
  Proof. induction 1 as [|gb r [Hg _] _ IH]; cbn [gsize fold_right]; [lia|]. fold (gsize r). pose proof (bsize_nonneg c fuel (snd gb)). lia. Qed.

  Lemma expand_app a b : expand (a ++ b) = expand a ++ expand b.
  Proof. unfold expand. now rewrite flat_map_app. Qed.
  Lemma chars_info GB : expand (map (fun x => (snd (fst x), snd x)) (info_g GB)) = chars_g GB.
  Proof.
    induction GB as [|[g B] r IH]; [reflexivity|]. cbn [info_g chars_g flat_map fst snd]. fold (info_g r). fold (chars_g r).
    rewrite !map_app, !expand_app, IH. f_equal. f_equal. unfold padi. destruct (Z.ltb_spec 0 g) as [L|L]; cbn; [now rewrite app_nil_r|].
    replace (Z.to_nat g) with 0%nat by lia. reflexivity.
  Qed.

  (* the unpacked tuple of a run followed by anything: the run's values, then the rest's *)
  Lemma nvals_app l1 l2 : nvals (l1 ++ l2) = nvals l1 + nvals l2.
  Proof. induction l1 as [|[[[f|] n] ch] r IH]; cbn [app nvals]; [lia| |exact IH]. destruct (member_read c (f_ty f)) as [[p cnt]|]; lia. Qed.
  Lemma unpack_run : forall B l bs, inclass c B -> bsize c B <= 9223372036854775807 -> bsize c B <= zlen bs ->
    unpack_fc c (bchars c B ++ l) bs =
    do d1 <- unpack_fc c (bchars c B) bs; do d2 <- unpack_fc c l (skipn (Z.to_nat (bsize c B)) bs); Ok (d1 ++ d2).
  Proof.
    induction B as [|f r IH]; intros l bs Hcl Hbig Hlen.
    - cbn. destruct (unpack_fc c l bs); reflexivity.
    - inversion Hcl as [|? ? Hf Hr]; subst. cbn [bsize fold_right] in Hbig, Hlen |- *. fold (bsize c r) in Hbig, Hlen |- *.
      pose proof (bsize_nonneg c fuel r) as Hbn. pose proof (msize_nonneg c (f_ty f)) as Hmn.
      destruct (bmem c (f_ty f)) as [[p cnt]|] eqn:Ep; [|contradiction].
      destruct (bmem_facts c fuel _ _ _ Ep ltac:(lia)) as [sz [hp [hm [Hm [Hsz [Hms [Hcnt [Hts [Hk [Hh _]]]]]]]]]].
      assert (Hpz : psz p = Z.of_nat sz) by (unfold psz; now rewrite Hsz).
      set (n' := match cnt with Some k => k | None => 1 end) in *. assert (Hn' : 0 <= n') by (unfold n'; destruct cnt; lia).
      rewrite bchars_cons. unfold own. rewrite Ep. fold n'. destruct (is_packed p) eqn:Epk; cbn [fst snd]; rewrite <- !app_assoc.
      + assert (Hfit : (Z.to_nat n' * sz <= length bs)%nat) by (unfold zlen in Hlen; nia).
        fold e. rewrite !(unpack_fc_repeat c fuel p sz hp Hh _ _ _ Hfit).
        destruct (hn hp sz (Z.to_nat n') bs) as [vs|]; cbn [bind]; [|reflexivity].
        rewrite (IH l (skipn (Z.to_nat n' * sz) bs) Hr ltac:(lia)) by (unfold zlen in *; rewrite skipn_length; nia).
        destruct (unpack_fc c (bchars c r) (skipn (Z.to_nat n' * sz) bs)) as [d1|]; cbn [bind]; [|reflexivity].
        rewrite skipn_skipn'. replace (Z.to_nat n' * sz + Z.to_nat (bsize c r))%nat with (Z.to_nat (msize c (f_ty f) + bsize c r)) by nia.
        destruct (unpack_fc c l _) as [d2|]; cbn [bind]; [now rewrite app_assoc|reflexivity].
      + rewrite Hpz, <- Hms, !unpack_skip. rewrite (IH l (skipn (Z.to_nat (msize c (f_ty f))) bs) Hr ltac:(lia)) by (unfold zlen in *; rewrite skipn_length; lia).
        rewrite skipn_skipn'. replace (Z.to_nat (msize c (f_ty f)) + Z.to_nat (bsize c r))%nat with (Z.to_nat (msize c (f_ty f) + bsize c r)) by lia. reflexivity.
  Qed.
  Lemma unpack_run_len : forall B bs d, inclass c B -> bsize c B <= 9223372036854775807 -> bsize c B <= zlen bs -> unpack_fc c (bchars c B) bs = Ok d ->
    Z.of_nat (length d) = nvals (map (own c) B).
  Proof.
    induction B as [|f r IH]; intros bs d Hcl Hbig Hlen H.
    - cbn in H. now injection H as <-.
    - inversion Hcl as [|? ? Hf Hr]; subst. cbn [bsize fold_right] in Hbig, Hlen. fold (bsize c r) in Hbig, Hlen.
      pose proof (bsize_nonneg c fuel r) as Hbn. pose proof (msize_nonneg c (f_ty f)) as Hmn.
      destruct (bmem c (f_ty f)) as [[p cnt]|] eqn:Ep; [|contradiction].
      destruct (bmem_facts c fuel _ _ _ Ep ltac:(lia)) as [sz [hp [hm [Hm [Hsz [Hms [Hcnt [Hts [Hk [Hh _]]]]]]]]]].
      assert (Hpz : psz p = Z.of_nat sz) by (unfold psz; now rewrite Hsz).
      set (n' := match cnt with Some k => k | None => 1 end) in *. assert (Hn' : 0 <= n') by (unfold n'; destruct cnt; lia).
      rewrite bchars_cons in H. cbn [map nvals]. unfold own in H. unfold own at 1. rewrite Ep in H |- *. fold n' in H |- *.
      destruct (is_packed p) eqn:Epk; cbn [fst snd] in H; rewrite Hm.
      + assert (Eb : is_bytebased p = false) by (destruct p as [? ? []| | | | |]; cbn in *; congruence). rewrite Eb.
        assert (Hfit : (Z.to_nat n' * sz <= length bs)%nat) by (unfold zlen in Hlen; nia).
        fold e in H. rewrite (unpack_fc_repeat c fuel p sz hp Hh _ _ _ Hfit) in H.
        destruct (hn hp sz (Z.to_nat n') bs) as [vs|] eqn:Ehn; [|discriminate]. cbn [bind] in H.
        destruct (unpack_fc c (bchars c r) (skipn (Z.to_nat n' * sz) bs)) as [d1|] eqn:E1; [|discriminate]. cbn [bind] in H. injection H as <-.
        rewrite app_length, (hn_length _ _ _ _ _ Ehn). rewrite Nat2Z.inj_add, (IH (skipn (Z.to_nat n' * sz) bs) d1 Hr ltac:(lia) ltac:(unfold zlen in *; rewrite skipn_length; nia) E1). subst n'. destruct cnt; lia.
      + assert (Eb : is_bytebased p = true) by (destruct Hk; congruence). rewrite Eb.
        rewrite Hpz, <- Hms, unpack_skip in H. rewrite (IH (skipn (Z.to_nat (msize c (f_ty f))) bs) d Hr ltac:(lia) ltac:(unfold zlen in *; rewrite skipn_length; lia) H). lia.
  Qed.

  Lemma nvals_own_nonneg : forall B, inclass c B -> bsize c B <= 9223372036854775807 -> 0 <= nvals (map (own c) B).
  Proof.
    induction B as [|f r IH]; intros Hcl Hbig; cbn [map nvals]; [lia|]. inversion Hcl as [|? ? Hf Hr]; subst.
    cbn [bsize fold_right] in Hbig. fold (bsize c r) in Hbig. pose proof (bsize_nonneg c fuel r) as Hbn. pose proof (msize_nonneg c (f_ty f)) as Hmn.
    destruct (bmem c (f_ty f)) as [[p cnt]|] eqn:Ep; [|contradiction].
    destruct (bmem_facts c fuel _ _ _ Ep ltac:(lia)) as [sz [hp [hm [Hm [Hsz [Hms [Hcnt _]]]]]]].
    unfold own at 1. rewrite Ep. assert (Hr' : 0 <= nvals (map (own c) r)) by (apply IH; [exact Hr|lia]).
    destruct (is_packed p); rewrite Hm; destruct (is_bytebased p), cnt; lia.
  Qed.
  Lemma block_items_pad g l size slice uses : 0 <= g -> block_items c (padi g ++ l) size slice uses = block_items c l (size + g) slice uses.
  Proof. intros Hg. unfold padi. destruct (Z.ltb_spec 0 g) as [L|L]; cbn [app block_items]; [reflexivity|]. now replace g with 0 by lia; rewrite Z.add_0_r. Qed.
  Lemma chars_g_cons g B r : chars_g ((g, B) :: r) = repeat FX (Z.to_nat g) ++ bchars c B ++ chars_g r.
  Proof. cbn [chars_g flat_map fst snd]. now rewrite <- app_assoc. Qed.

  Lemma items_run_g : forall GB size slice uses items size' u,
    gok GB -> gsize GB <= 9223372036854775807 -> 0 <= size -> 0 <= slice ->
    block_items c (info_g GB) size slice uses = Ok (items, size', u) ->
    size' = size + gsize GB /\
    (u = false -> forall bs, gsize GB <= zlen bs -> unpack_fc c (chars_g GB) bs = Ok []) /\
    forall buf dpre drest dpost st, size' <= zlen buf -> length dpre = Z.to_nat slice ->
      unpack_fc c (chars_g GB) (skipn (Z.to_nat size) buf) = Ok drest ->
      run_items rd buf (dpre ++ drest ++ dpost) items st = do r <- seq_g GB buf size st; Ok (fst r).
  Proof.
    unfold rd. induction GB as [|[g B] r IH]; intros size slice uses items size' u Hok Hbig Hs Hsl H.
    - cbn in H. injection H as <- <- <-. cbn [gsize fold_right]. split; [lia|]. split; [reflexivity|]. intros. reflexivity.
    - inversion Hok as [|? ? [Hg [Hcl Hz]] Hr]; subst. cbn [fst snd] in Hg, Hcl, Hz.
      cbn [gsize fold_right fst snd] in Hbig |- *. fold (gsize r) in Hbig |- *.
      pose proof (gsize_nonneg r Hr) as Hgn. pose proof (bsize_nonneg c fuel B) as Hbn.
      cbn [info_g flat_map fst snd] in H. fold (info_g r) in H. rewrite <- app_assoc, block_items_pad, block_items_app in H by exact Hg.
      destruct (block_items c (map (own c) B) (size + g) slice uses) as [[[it1 s1] u1]|] eqn:E1; [|discriminate]. cbn [bind] in H.
      destruct (block_items c (info_g r) s1 (slice + nvals (map (own c) B)) u1) as [[[it2 s2] u2]|] eqn:E2; [|discriminate]. cbn [bind] in H.
      injection H as <- <- <-.
      assert (HbB : bsize c B <= 9223372036854775807) by lia. assert (Hsg : 0 <= size + g) by lia.
      destruct (items_run_x c fuel B (size + g) slice uses it1 s1 u1 Hcl HbB Hsg Hsl E1) as [Hs1 [Hu1 Hrun1]]. subst s1.
      pose proof (nvals_own_nonneg B Hcl HbB) as Hnv.
      assert (Hbr : gsize r <= 9223372036854775807) by lia. assert (Hs3 : 0 <= size + g + bsize c B) by lia. assert (Hsl3 : 0 <= slice + nvals (map (own c) B)) by lia.
      destruct (IH (size + g + bsize c B) (slice + nvals (map (own c) B)) u1 it2 s2 u2 Hr Hbr Hs3 Hsl3 E2) as [Hs2 [Hu2 Hrun2]]. subst s2.
      split; [lia|]. split.
      + intros Hu bs Hlen. assert (u1 = false) as Hu1f.
        { destruct u1; [|reflexivity]. pose proof (block_items_uses c _ _ _ _ _ _ E2). congruence. }
        rewrite chars_g_cons, unpack_skip. rewrite unpack_run by (try assumption; unfold zlen in *; rewrite skipn_length; lia).
        rewrite (Hu1 Hu1f). cbn [bind]. rewrite skipn_skipn'. rewrite (Hu2 Hu) by (unfold zlen in *; rewrite skipn_length; lia). reflexivity.
      + intros buf dpre drest dpost st Hlen Hpre Hd. rewrite chars_g_cons, unpack_skip, skipn_skipn' in Hd.
        replace (Z.to_nat size + Z.to_nat g)%nat with (Z.to_nat (size + g)) in Hd by lia.
        rewrite unpack_run in Hd by (try assumption; unfold zlen in *; rewrite skipn_length; lia).
        destruct (unpack_fc c (bchars c B) (skipn (Z.to_nat (size + g)) buf)) as [d1|] eqn:Ed1; [|discriminate]. cbn [bind] in Hd.
        rewrite skipn_skipn' in Hd. replace (Z.to_nat (size + g) + Z.to_nat (bsize c B))%nat with (Z.to_nat (size + g + bsize c B)) in Hd by lia.
        destruct (unpack_fc c (chars_g r) (skipn (Z.to_nat (size + g + bsize c B)) buf)) as [d2|] eqn:Ed2; [|discriminate]. cbn [bind] in Hd. injection Hd as <-.
        rewrite run_items_app.
        replace (dpre ++ (d1 ++ d2) ++ dpost) with (dpre ++ d1 ++ (d2 ++ dpost)) by (now rewrite <- !app_assoc).
        rewrite (Hrun1 buf dpre d1 (d2 ++ dpost) st ltac:(lia) Hpre Ed1).
        cbn [seq_g fst snd]. destruct (seq_block c fuel B buf (size + g) st) as [[st1 q1]|] eqn:Es; cbn [bind fst snd]; [|reflexivity].
        pose proof (seq_block_end c fuel B buf _ _ _ _ Hsg Hcl HbB Es) as ->.
        replace (dpre ++ d1 ++ d2 ++ dpost) with ((dpre ++ d1) ++ d2 ++ dpost) by (now rewrite <- !app_assoc).
        apply Hrun2; [lia| |exact Ed2].
        rewrite app_length, Hpre. assert (Hl1 : Z.of_nat (length d1) = nvals (map (own c) B)).
        { apply (unpack_run_len B (skipn (Z.to_nat (size + g)) buf) d1 Hcl HbB); [|exact Ed1]. unfold zlen in *. rewrite skipn_length. lia. }
        lia.
  Qed.

  Lemma seq_g_end : forall GB s q st st' q', 0 <= q -> gok GB -> gsize GB <= 9223372036854775807 -> seq_g GB s q st = Ok (st', q') -> q' = q + gsize GB.
  Proof.
    induction GB as [|[g B] r IH]; intros s q st st' q' Hq Hok Hbig H; cbn [seq_g fst snd] in H.
    - injection H as _ <-. cbn. lia.
    - inversion Hok as [|? ? [Hg [Hcl Hz]] Hr]; subst. cbn [fst snd] in Hg, Hcl, Hz. cbn [gsize fold_right fst snd] in Hbig |- *. fold (gsize r) in Hbig |- *.
      pose proof (gsize_nonneg r Hr) as Hgn. pose proof (bsize_nonneg c fuel B) as Hbn.
      destruct (seq_block c fuel B s (q + g) st) as [[st1 q1]|] eqn:Es; [|discriminate]. cbn [bind fst snd] in H.
      assert (Hqg : 0 <= q + g) by lia. assert (HbB : bsize c B <= 9223372036854775807) by lia. pose proof (seq_block_end c fuel B s _ _ _ _ Hqg Hcl HbB Es) as ->. apply IH in H; [lia|lia|exact Hr|lia].
  Qed.
  Lemma seq_g_short : forall GB s q st, 0 <= q -> gok GB -> gsize GB <= 9223372036854775807 -> zlen (srest s q) < gsize GB -> exists er, seq_g GB s q st = Err er.
  Proof.
    induction GB as [|[g B] r IH]; intros s q st Hq Hok Hbig H; cbn [gsize fold_right fst snd] in H, Hbig.
    - pose proof (zlen_nonneg (srest s q)). lia.
    - fold (gsize r) in H, Hbig. inversion Hok as [|? ? [Hg [Hcl Hz]] Hr]; subst. cbn [fst snd] in Hg, Hcl, Hz.
      pose proof (gsize_nonneg r Hr) as Hgn. pose proof (bsize_nonneg c fuel B) as Hbn. cbn [seq_g fst snd].
      destruct (seq_block c fuel B s (q + g) st) as [[st1 q1]|] eqn:Es; cbn [bind fst snd]; [|eauto].
      assert (Hqg : 0 <= q + g) by lia. assert (HbB : bsize c B <= 9223372036854775807) by lia. pose proof (seq_block_end c fuel B s _ _ _ _ Hqg Hcl HbB Es) as ->.
      destruct (Z.lt_ge_cases (zlen (srest s (q + g))) (bsize c B)) as [L|L].
      + destruct (seq_block_short c fuel B s (q + g) st Hqg Hcl HbB L) as [er Her]. congruence.
      + apply IH; [lia|exact Hr|lia|]. rewrite zlen_srest in * by lia. lia.
  Qed.
  Lemma seq_g_buf : forall GB s pos n a st, 0 <= pos -> 0 <= a -> n <= zlen (srest s pos) -> a + gsize GB <= n -> gok GB -> gsize GB <= 9223372036854775807 ->
    seq_g GB s (pos + a) st = do r <- seq_g GB (sread s pos n) a st; Ok (fst r, pos + snd r).
  Proof.
    induction GB as [|[g B] r IH]; intros s pos n a st Hp Ha Hn Hfit Hok Hbig; cbn [seq_g bind fst snd]; [reflexivity|].
    inversion Hok as [|? ? [Hg [Hcl Hz]] Hr]; subst. cbn [fst snd] in Hg, Hcl, Hz. cbn [gsize fold_right fst snd] in Hfit, Hbig. fold (gsize r) in Hfit, Hbig.
    pose proof (gsize_nonneg r Hr) as Hgn. pose proof (bsize_nonneg c fuel B) as Hbn.
    replace (pos + a + g) with (pos + (a + g)) by lia.
    rewrite (seq_block_buf c fuel B s pos n (a + g) st) by (try assumption; lia).
    destruct (seq_block c fuel B (sread s pos n) (a + g) st) as [[st1 q1]|] eqn:Es; cbn [bind fst snd]; [|reflexivity].
    assert (Hag : 0 <= a + g) by lia. assert (HbB : bsize c B <= 9223372036854775807) by lia. pose proof (seq_block_end c fuel B _ _ _ _ _ Hag Hcl HbB Es) as ->.
    apply IH; try assumption; lia.
  Qed.

  Lemma unpack_total_g : forall GB bs, gok GB -> gsize GB <= 9223372036854775807 -> gsize GB <= zlen bs -> exists d, unpack_fc c (chars_g GB) bs = Ok d.
  Proof.
    induction GB as [|[g B] r IH]; intros bs Hok Hbig Hlen; [now exists []|].
    inversion Hok as [|? ? [Hg [Hcl Hz]] Hr]; subst. cbn [fst snd] in Hg, Hcl, Hz. cbn [gsize fold_right fst snd] in Hlen, Hbig. fold (gsize r) in Hlen, Hbig.
    pose proof (gsize_nonneg r Hr) as Hgn. pose proof (bsize_nonneg c fuel B) as Hbn.
    assert (HbB : bsize c B <= 9223372036854775807) by lia.
    assert (Hl1 : bsize c B <= zlen (skipn (Z.to_nat g) bs)) by (unfold zlen in *; rewrite skipn_length; lia).
    rewrite chars_g_cons, unpack_skip, (unpack_run B _ _ Hcl HbB Hl1).
    destruct (unpack_total c fuel B _ Hcl HbB Hl1) as [d1 ->]. cbn [bind]. rewrite skipn_skipn'.
    destruct (IH (skipn (Z.to_nat g + Z.to_nat (bsize c B)) bs) Hr ltac:(lia)) as [d2 ->]; [unfold zlen in *; rewrite skipn_length; lia|]. cbn [bind]. eauto.
  Qed.
  Lemma info_g_counts : forall GB, gok GB -> gsize GB <= 9223372036854775807 -> Forall (fun x : Z * fc => 0 <= fst x) (map (fun x => (snd (fst x), snd x)) (info_g GB)).
  Proof.
    induction GB as [|[g B] r IH]; intros Hok Hbig; [constructor|].
    inversion Hok as [|? ? [Hg [Hcl Hz]] Hr]; subst. cbn [fst snd] in Hg, Hcl, Hz. cbn [gsize fold_right fst snd] in Hbig. fold (gsize r) in Hbig.
    pose proof (gsize_nonneg r Hr) as Hgn. pose proof (bsize_nonneg c fuel B) as Hbn.
    cbn [info_g flat_map fst snd]. fold (info_g r). rewrite !map_app. apply Forall_app. split; [apply Forall_app; split|].
    - unfold padi. destruct (0 <? g); constructor; [cbn; lia|constructor].
    - apply (own_counts c fuel B Hcl). lia.
    - apply IH; [exact Hr|lia].
  Qed.

  (* a block with padding: ONE read of the whole extent (gaps included), ONE unpack with pad bytes, and the getters - exactly the members read one
     after the other, each at its own place; a short stream fails both *)
  Theorem block_sound_g GB al B i : gok GB -> gsize GB <= 9223372036854775807 ->
    struct_info c al B (match B with f :: _ => f_off f | [] => None end) 0 = Ok (info_g GB) -> gen_block c al B = Ok i ->
    forall s o cal st, 0 <= p_pos st ->
      req (run_instr c rd s o cal i st) (do r <- seq_g GB s (p_pos st) st; Ok (set_pos (fst r) (snd r))).
  Proof.
    intros Hok Hbig Hinfo H s o cal st Hp. unfold gen_block in H. rewrite Hinfo in H. cbn [bind] in H.
    destruct (block_items c (info_g GB) 0 0 false) as [[[items size] uses]|] eqn:E; [|discriminate]. cbn [bind] in H. injection H as <-.
    destruct (items_run_g GB 0 0 false items size uses Hok Hbig ltac:(lia) ltac:(lia) E) as [Hsize [Hu Hrun]]. rewrite Z.add_0_l in Hsize. subst size.
    pose proof (gsize_nonneg GB Hok) as Hbn.
    cbn [run_instr]. unfold sread_exact.
    destruct (Z.ltb_spec 9223372036854775807 (gsize GB)) as [L|_]; [lia|].
    destruct (Z.leb_spec (gsize GB) (zlen (srest s (p_pos st)))) as [L|L]; cbn [bind].
    - set (buf := sread s (p_pos st) (gsize GB)).
      assert (Hzb : zlen buf = gsize GB) by (apply zlen_sread; lia).
      rewrite expand_optimize by (apply info_g_counts; assumption). rewrite chars_info.
      destruct (unpack_total_g GB buf Hok Hbig ltac:(lia)) as [d Hd].
      assert (Hdata : exists d', (if negb (negb uses && match optimize_fmt (map (fun x => (snd (fst x), snd x)) (info_g GB)) with [(n, FX)] => (1 <=? n) && (n <=? 9) | _ => false end)
                                  then unpack_fc c (chars_g GB) buf else Ok []) = Ok d' /\ unpack_fc c (chars_g GB) buf = Ok d').
      { destruct (negb _) eqn:En; [eauto|]. exists []. split; [reflexivity|]. apply Hu; [|lia]. apply Bool.negb_false_iff, andb_prop in En as [En _]. now apply Bool.negb_true_iff in En. }
      destruct Hdata as [d' [-> Hd']]. cbn [bind].
      pose proof (Hrun buf [] d' [] st ltac:(lia) eq_refl Hd') as R. cbn [app] in R. rewrite app_nil_r in R. fold rd in R. rewrite R.
      pose proof (seq_g_buf GB s (p_pos st) (gsize GB) 0 st Hp ltac:(lia) L ltac:(lia) Hok Hbig) as SB. rewrite Z.add_0_r in SB. fold buf in SB.
      rewrite SB. destruct (seq_g GB buf 0 st) as [[st' q]|er] eqn:E2; cbn [bind fst snd req]; [|exact I].
      apply seq_g_end in E2; [|lia|exact Hok|exact Hbig]. subst q. unfold set_pos. f_equal; lia.
    - destruct (seq_g_short GB s (p_pos st) st Hp Hok Hbig L) as [er ->]. exact I.
  Qed.
End Gaps.

(* ---------- aligned structures of scalars: ONE padded block and the tail alignment ---------- *)
Section Aligned.
  Variable c : cfg.
  Variable fuel : nat.
  Let e := c_endian c.
  Let rd := fun f : field => read_ty c fuel (f_ty f).

  Lemma pad_to_nonneg x a : 1 <= a -> 0 <= pad_to x a.
  Proof. intros H. unfold pad_to. apply Z.land_nonneg. right. lia. Qed.

  (* the members of a block that carry offsets, each after the end of the one before: the gap before each *)
  Fixpoint segs (cur : Z) (F : list field) : list gseg :=
    match F with
    | [] => []
    | f :: r => let o := match f_off f with Some o => o | None => cur end in (o - cur, [f]) :: segs (o + msize c (f_ty f)) r
    end.
  Fixpoint gaps_ok (cur : Z) (F : list field) : Prop :=
    match F with
    | [] => True
    | f :: r => exists o, f_off f = Some o /\ cur <= o /\ gaps_ok (o + msize c (f_ty f)) r
    end.
  Definition mcls (f : field) : Prop := f_bits f = None /\ bmem c (f_ty f) <> None /\ 0 < msize c (f_ty f) <= 9223372036854775807.

  Lemma gok_segs : forall F cur, Forall mcls F -> gaps_ok cur F -> gok c (segs cur F).
  Proof.
    induction F as [|f r IH]; intros cur Hcl Hg; [constructor|]. inversion Hcl as [|? ? [Hb [Hm Hs]] Hr]; subst. destruct Hg as [o [Ho [Hle Hg]]].
    cbn [segs]. rewrite Ho. constructor; [|now apply IH]. cbn [fst snd]. split; [lia|]. split; [constructor; [exact Hm|constructor]|].
    right. cbn [bsize fold_right]. lia.
  Qed.

  Lemma struct_info_segs : forall F cur imag al, Forall mcls F -> gaps_ok cur F ->
    struct_info c al F (Some cur) imag = Ok (info_g c (segs cur F)).
  Proof.
    induction F as [|f r IH]; intros cur imag al Hcl Hg; [reflexivity|]. inversion Hcl as [|? ? [Hb [Hm Hs]] Hr]; subst. destruct Hg as [o [Ho [Hle Hg]]].
    destruct (bmem c (f_ty f)) as [[p cnt]|] eqn:Ep; [|contradiction].
    destruct (bmem_facts c fuel _ _ _ Ep ltac:(lia)) as [sz [hp [hm [Hmr [Hsz [Hms [Hcnt [Hts [Hk _]]]]]]]]].
    cbn [struct_info segs]. rewrite Ho. cbn [is_none andb]. rewrite Bool.andb_false_r. cbn [Z.ltb Z.compare app bind].
    rewrite Hmr. cbn [bind]. unfold prim_size_z. rewrite Hsz. cbn [option_map]. rewrite Z.add_0_r.
    assert (Hpz : psz p = Z.of_nat sz) by (unfold psz; now rewrite Hsz).
    replace (Z.max 0 (o - cur)) with (o - cur) by lia.
    replace (match cnt with Some k => k | None => 1 end * Z.of_nat sz + (o - cur + cur)) with (o + msize c (f_ty f)) by lia.
    rewrite (IH _ (imag + match cnt with Some k => k | None => 1 end * Z.of_nat sz) al Hr Hg). cbn [bind].
    cbn [info_g flat_map fst snd map]. fold (info_g c (segs (o + msize c (f_ty f)) r)). unfold own. rewrite Ep, Hpz. unfold padi.
    assert (Hnv : match cnt, p with None, PVoid => true | _, _ => false end = false) by (destruct Hk as [Hk|Hk]; destruct cnt, p; cbn in Hk; try discriminate; reflexivity).
    rewrite app_nil_r, <- !app_assoc.
    destruct cnt as [k|]; destruct p as [a sg pk|a| | |sg|]; try discriminate Hnv; cbn [is_packed is_bytebased]; try (destruct pk); cbn [app]; try reflexivity;
      destruct Hk as [Hk|Hk]; discriminate Hk.
  Qed.
End Aligned.

Section Aligned2.
  Variable c : cfg.
  Variable fuel : nat.
  Let e := c_endian c.
  Let rd := fun f : field => read_ty c fuel (f_ty f).

  (* the generator on a scalar member that carries an offset at or after the tracked one: no statement, the member joins the block *)
  Lemma plan_step_plain_g f st p cnt al o : bmem c (f_ty f) = Some (p, cnt) -> msize c (f_ty f) <= 9223372036854775807 -> f_bits f = None -> g_pbits st = false ->
    f_off f = Some o -> (g_block st <> [] -> g_off st <= o) -> (g_block st = [] -> o = g_off st /\ g_known st = true) ->
    plan_step c al f st = Ok ([], mkGS (o + msize c (f_ty f)) (g_block st ++ [f]) (g_pbits st) (g_btype st) (g_brem st) false (g_known st)).
  Proof.
    intros Hp Hbig Hb Hpb Eo Hne He. destruct (bmem_facts c fuel _ _ _ Hp Hbig) as [sz [hp [hm [_ [_ [_ [_ [_ [_ [_ [_ [_ [_ [Hsup [Hsz Hshape]]]]]]]]]]]]]]].
    pose proof (msize_nonneg c (f_ty f)) as Hnn.
    unfold plan_step. rewrite Hsup, Hpb, Hsz. cbn [negb andb]. assert (msize c (f_ty f) <? 0 = false) as -> by (apply Z.ltb_ge; lia).
    unfold bits_on. rewrite Hb, Eo.
    destruct st as [go gb gp gt gr gl gk]; cbn [g_block g_off g_pbits g_btype g_brem g_roll g_known has_block] in *. subst gp.
    destruct gb as [|g0 gb].
    - destruct (He eq_refl) as [-> ->].
      destruct al; destruct (unwrap (f_ty f)) as [q al'|b al' fl ms|tg|el len|nm fs al'|nm fs al']; try contradiction; try (destruct el; try contradiction); cbn [is_none has_block g_block andb bind fst snd app];
        unfold align_to_field; rewrite Eo, Z.eqb_refl; cbn [bind fst snd app negb orb g_off g_block g_pbits g_btype g_brem g_roll g_known is_none andb]; reflexivity.
    - pose proof (Hne ltac:(discriminate)) as Hle. assert (o <? go = false) as Hlt by (apply Z.ltb_ge; lia).
      destruct al; destruct (unwrap (f_ty f)) as [q al'|b al' fl ms|tg|el len|nm fs al'|nm fs al']; try contradiction; try (destruct el; try contradiction);
        cbn [is_none has_block g_block g_off andb bind fst snd app]; rewrite Hlt;
        cbn [bind fst snd app g_off g_block g_pbits g_btype g_brem g_roll g_known is_none orb]; reflexivity.
  Qed.

  Lemma plan_go_g : forall F al st, Forall (mcls c) F -> g_pbits st = false -> gaps_ok c (g_off st) F ->
    (g_block st = [] -> (F = [] \/ hoff F = Some (g_off st)) /\ g_known st = true) ->
    exists st', plan_go c al F st = Ok ([], st') /\ g_block st' = g_block st ++ F.
  Proof.
    induction F as [|f r IH]; intros al st Hcl Hpb Hg He.
    - exists st. split; [reflexivity|now rewrite app_nil_r].
    - inversion Hcl as [|? ? [Hb [Hm Hs]] Hr]; subst. destruct Hg as [o [Ho [Hle Hg]]].
      destruct (bmem c (f_ty f)) as [[p cnt]|] eqn:Ep; [|contradiction].
      cbn [plan_go]. rewrite (plan_step_plain_g f st p cnt al o Ep ltac:(lia) Hb Hpb Ho).
      + cbn [bind fst snd].
        destruct (IH al (mkGS (o + msize c (f_ty f)) (g_block st ++ [f]) (g_pbits st) (g_btype st) (g_brem st) false (g_known st)) Hr Hpb Hg) as [st' [E Hbk]].
        { cbn [g_block]. intros Habs. destruct (g_block st); discriminate Habs. }
        rewrite E. cbn [bind fst snd app]. exists st'. split; [reflexivity|]. rewrite Hbk. cbn [g_block]. now rewrite <- app_assoc.
      + intros _. exact Hle.
      + intros Hemp. destruct (He Hemp) as [[Habs|Hh] Hk]; [discriminate|]. cbn [hoff] in Hh. split; [congruence|exact Hk].
  Qed.
End Aligned2.

Section Aligned3.
  Variable c : cfg.
  Variable fuel : nat.
  Let e := c_endian c.
  Let rd := fun f : field => read_ty c fuel (f_ty f).
  Variable s : list Z.
  Variable start : Z.

  (* the members of the padded block read one after the other, each at its offset: the interpreted loop over fields that carry offsets *)
  Lemma seq_g_loop : forall F cur st st1, 0 <= start -> 0 <= cur -> Forall (mcls c) F -> gaps_ok c cur F ->
    p_vals st = p_vals st1 -> p_sizes st = p_sizes st1 -> p_ctx st = p_ctx st1 ->
    seq_loop c fuel s start F st1 =
      do r <- seq_g c fuel (segs c cur F) s (start + cur) st;
      Ok (match F with [] => st1 | _ => mkPS (snd r) bb_empty (p_vals (fst r)) (p_sizes (fst r)) (p_ctx (fst r)) end).
  Proof.
    induction F as [|f r IH]; intros cur st st1 Hst Hcur Hcl Hg Hv Hz Hc; [reflexivity|].
    inversion Hcl as [|? ? [Hb [Hm Hs]] Hr]; subst. destruct Hg as [o [Ho [Hle Hg]]].
    destruct (bmem c (f_ty f)) as [[p cnt]|] eqn:Ep; [|contradiction].
    destruct (bmem_facts c fuel _ _ _ Ep ltac:(lia)) as [sz [hp [hm [_ [_ [_ [_ [_ [_ [_ [Hslc _]]]]]]]]]]].
    cbn [seq_loop segs seq_g seq_block fst snd]. rewrite Ho. unfold read_member. rewrite (bits_on_none f Hb), Ho, <- Hc.
    replace (start + cur + (o - cur)) with (start + o) by lia.
    destruct (read_ty c fuel (f_ty f) s (start + o) (p_ctx st)) as [[v p']|] eqn:Er; cbn [bind fst snd]; [|reflexivity].
    assert (Hq : 0 <= start + o) by lia. destruct (sliced_ok _ _ _ _ _ _ _ _ Hslc Hq Er) as [-> _].
    replace (start + o + msize c (f_ty f)) with (start + (o + msize c (f_ty f))) by lia.
    rewrite (IH (o + msize c (f_ty f)) (push st (f_name f) v (start + (o + msize c (f_ty f)) - (start + o)))
               (mkPS (start + (o + msize c (f_ty f))) bb_empty ((f_name f, v) :: p_vals st1) ((f_name f, start + (o + msize c (f_ty f)) - (start + o)) :: p_sizes st1) (int_ctx (f_name f) v (p_ctx st))))
      by (try assumption; try lia; unfold push; cbn [p_vals p_sizes p_ctx]; congruence).
    destruct r as [|f2 r2].
    - cbn [segs seq_g bind fst snd]. unfold push. cbn [p_vals p_sizes p_ctx]. now rewrite Hv, Hz.
    - reflexivity.
  Qed.
  Lemma seq_g_pos : forall GB q st st' q', seq_g c fuel GB s q st = Ok (st', q') -> p_pos st' = p_pos st /\ p_bb st' = p_bb st.
  Proof.
    induction GB as [|[g B] r IH]; intros q st st' q' H; cbn [seq_g fst snd] in H; [injection H as <- _; auto|].
    destruct (seq_block c fuel B s (q + g) st) as [[st1 q1]|] eqn:Es; [|discriminate]. cbn [bind fst snd] in H.
    destruct (seq_block_pos c fuel s B _ _ _ _ Es) as [A1 A2]. destruct (IH _ _ _ _ H) as [B1 B2]. split; congruence.
  Qed.
  Lemma struct_loop_all_some : forall fs offs pos bb vals sizes lctx, Forall (fun o => o <> None) offs ->
    struct_loop e true start (map (fun f => (meta_of c f, rd f)) fs) offs s pos bb vals sizes lctx =
    struct_loop e false start (map (fun f => (meta_of c f, rd f)) fs) offs s pos bb vals sizes lctx.
  Proof.
    induction fs as [|f r IH]; intros offs pos bb vals sizes lctx Ho; [destruct offs; reflexivity|].
    destruct offs as [|o ro]; [reflexivity|]. inversion Ho as [|? ? Ho1 Hor]; subst. destruct o as [o|]; [|contradiction].
    cbn [map struct_loop]. destruct (fm_bits (meta_of c f)) as [nb|].
    - destruct (nb =? 0).
      + destruct (rd f s (start + o) lctx) as [[v p]|]; cbn [bind fst snd]; [apply IH; exact Hor|reflexivity].
      + destruct (bb_read e s (start + o) bb (fm_storage (meta_of c f)) nb) as [[[v bb'] pos']|]; cbn [bind]; [apply IH; exact Hor|reflexivity].
    - destruct (rd f s (start + o) lctx) as [[v p]|]; cbn [bind fst snd]; [apply IH; exact Hor|reflexivity].
  Qed.
End Aligned3.

Section AlignedFinal.
  Variable c : cfg.
  Variable fuel : nat.

  Definition acls (f : field) : Prop := f_off f = None /\ mcls c f /\ 1 <= field_align c f.

  Lemma mcls_set_offsets : forall fs offs, Forall acls fs -> Forall (mcls c) (set_offsets fs offs).
  Proof.
    induction fs as [|[n a t b o] r IH]; intros offs Hc; [constructor|]. inversion Hc as [|? ? [_ [Hf _]] Hr]; subst.
    destruct offs as [|o' ro]; cbn [set_offsets].
    - constructor; [exact Hf|]. specialize (IH [] Hr). destruct r as [|[? ? ? ? ?] ?]; exact IH.
    - constructor; [exact Hf|apply IH; exact Hr].
  Qed.

  (* the aligned layout of scalar members: every member gets an offset at or after the end of the one before, the first one 0 *)
  Lemma layout_go_gaps : forall F lst cur offs lst', Forall acls F -> ls_off lst = Some cur -> 0 <= cur -> layout_go c true F lst = Ok (offs, lst') ->
    length offs = length F /\ gaps_ok c cur (set_offsets F offs) /\ Forall (fun o => o <> None) offs /\
    ls_off lst' = Some (cur + gsize c (segs c cur (set_offsets F offs))) /\ ls_align lst <= ls_align lst' /\ (F <> [] -> 1 <= ls_align lst') /\
    (cur = 0 -> F = [] \/ hoff (set_offsets F offs) = Some 0).
  Proof.
    induction F as [|[n a t b o] r IH]; intros lst cur offs lst' Hc Hoff Hcur H; cbn [layout_go] in H.
    - injection H as <- <-. cbn [length set_offsets gaps_ok segs gsize fold_right]. rewrite Z.add_0_r. repeat split; auto; try lia. contradiction.
    - inversion Hc as [|? ? [Ho [[Hb [Hm Hs]] Ha]] Hr]; subst. cbn [f_off f_bits f_ty] in Ho, Hb, Hm, Hs. subst o b. cbn [f_off f_bits f_ty] in H.
      destruct (bmem c t) as [[p cnt]|] eqn:Ep; [|contradiction].
      destruct (bmem_facts c fuel _ _ _ Ep ltac:(lia)) as [sz [hp [hm [_ [_ [_ [_ [Hts _]]]]]]]].
      unfold layout_step in H. rewrite Hoff, Hts in H. cbn [bind fst snd] in H.
      set (al := field_align c (Fld n a t None None)) in *. set (o := cur + pad_to cur al) in *.
      assert (Hpad : 0 <= pad_to cur al) by (apply pad_to_nonneg; exact Ha).
      destruct (layout_go c true r _) as [[offs' lst2]|] eqn:E2; [|discriminate]. cbn [bind fst snd] in H. injection H as <- <-.
      assert (Hcur' : 0 <= o + msize c t) by lia. destruct (IH (mkLS (Some (o + msize c t)) (Z.max (ls_align lst) al) None (Some 0) 0) (o + msize c t) _ _ Hr eq_refl Hcur' E2) as [Hlen [Hg [Hsome [Hend [Hal [Hne H0]]]]]].
      cbn [ls_align] in Hal.
      cbn [length set_offsets gaps_ok segs f_off f_ty gsize fold_right fst snd bsize hoff]. fold (gsize c (segs c (o + msize c t) (set_offsets r offs'))).
      split; [now rewrite Hlen|]. split; [exists o; split; [reflexivity|split; [lia|exact Hg]]|]. split; [constructor; [discriminate|exact Hsome]|].
      split; [rewrite Hend; f_equal; lia|]. split; [lia|]. split.
      + intros _. fold al in Ha. lia.
      + intros ->. right. unfold o, pad_to. now rewrite Z.land_0_l.
  Qed.

  (* C03 for ALIGNED structures of scalars (packed and byte-sliced integers, floats, char, wchar, enums, pointers, fixed arrays of them; every
     member of positive size): the generator lays the whole structure out as ONE block with pad bytes for the alignment gaps and a seek over the tail
     padding; running it gives exactly what the interpreted reader gives - the same object and end position - or both raise. *)
  Theorem compiled_aligned_is_interpreted nm fs p :
    Forall acls fs -> NoDup (map f_name fs) -> (forall lay n, layout_struct c true fs = Ok lay -> l_size lay = Some n -> n <= 9223372036854775807) ->
    compile_plan c true fs = Ok p ->
    forall s pos ctx, 0 <= pos -> req (read_compiled c fuel true fs s pos) (read_ty c fuel (TStruct nm fs true) s pos ctx).
  Proof.
    intros Hcl Hnd Hbound Hplan s pos ctx Hpos. unfold read_compiled. unfold compile_plan in Hplan. cbn [read_ty].
    destruct (layout_struct c true fs) as [lay|] eqn:EL; [|discriminate]. cbn [bind] in Hplan |- *. rewrite Hplan. cbn [bind].
    pose proof (Hbound lay) as Hb. clear Hbound.
    unfold layout_struct in EL. destruct (layout_go c true fs _) as [[offs lst']|] eqn:EG; [|discriminate]. cbn [bind fst snd] in EL. injection EL as <-. cbn [l_offs l_align l_size] in *.
    destruct (layout_go_gaps fs (mkLS (Some 0) 0 None (Some 0) 0) 0 _ _ Hcl eq_refl (Z.le_refl 0) EG) as [Hlen [Hg [Hsome [Hend [Hal [Hne H0]]]]]]. specialize (H0 eq_refl).
    set (F := set_offsets fs offs) in *. rewrite Z.add_0_l in Hend. rewrite Hend in Hb.
    pose proof (mcls_set_offsets fs offs Hcl) as HclF. fold F in HclF.
    pose proof (gok_segs c fuel F 0 HclF Hg) as Hok. pose proof (gsize_nonneg c fuel _ Hok) as Hgn.
    set (st0 := mkPS pos bb_empty [] [] []).
    rewrite (struct_loop_all_some c fuel s pos fs offs pos bb_empty [] [] [] Hsome).
    rewrite (struct_loop_seq c fuel s pos fs offs pos bb_empty [] [] [] Hlen). fold F. fold st0.
    rewrite (seq_g_loop c fuel s pos F 0 st0 st0 Hpos ltac:(lia) HclF Hg eq_refl eq_refl eq_refl). rewrite Z.add_0_r.
    unfold plan_fields in Hplan.
    destruct (plan_go_g c fuel F true (mkGS 0 [] false None 0 false true) HclF eq_refl Hg) as [gst' [EP Hbk]].
    { intros _. cbn [g_off]. split; [|reflexivity]. destruct H0 as [->|H0]; [left; reflexivity|right; exact H0]. }
    rewrite EP in Hplan. cbn [bind fst snd app g_block] in Hplan, Hbk. unfold flush in Hplan. rewrite Hbk in Hplan.
    destruct F as [|f0 F'] eqn:EF.
    - (* no members *)
      injection Hplan as <-. cbn [run_instrs run_instr bind segs seq_g fst snd st0 p_pos p_vals p_sizes p_bb p_ctx rev].
      assert (fs = []) as -> by (destruct fs as [|[? ? ? ? ?] ?]; [reflexivity|]; destruct offs; discriminate EF). reflexivity.
    - destruct (gen_block c true (f0 :: F')) as [i|] eqn:Eg; [|discriminate]. cbn [bind fst snd app] in Hplan. injection Hplan as <-.
      assert (Hne' : 1 <= ls_align lst') by (apply Hne; intros ->; discriminate EF).
      assert (Hbig : gsize c (segs c 0 (f0 :: F')) <= 9223372036854775807).
      { pose proof (pad_to_nonneg (gsize c (segs c 0 (f0 :: F'))) (ls_align lst') Hne'). specialize (Hb _ eq_refl eq_refl). lia. }
      assert (Hinfo : struct_info c true (f0 :: F') (match f0 :: F' with f :: _ => f_off f | [] => None end) 0 = Ok (info_g c (segs c 0 (f0 :: F')))).
      { destruct H0 as [H0|H0]; [subst fs; discriminate EF|]. cbn [hoff] in H0. rewrite H0. apply (struct_info_segs c fuel); assumption. }
      pose proof (block_sound_g c fuel _ true _ i Hok Hbig Hinfo Eg s pos (ls_align lst') st0 Hpos) as R. cbn [p_pos st0] in R. fold st0 in R.
      cbn [run_instrs]. 
      destruct (run_instr c (fun f => read_ty c fuel (f_ty f)) s pos (ls_align lst') i st0) as [st1|er] eqn:ER;
        destruct (seq_g c fuel (segs c 0 (f0 :: F')) s pos st0) as [[st' q']|er'] eqn:ES; cbn [req bind fst snd] in R |- *; try contradiction; [|exact I].
      subst st1. destruct (seq_g_pos c fuel s _ _ _ _ _ ES) as [_ Hbb]. cbn [st0 p_bb] in Hbb.
      cbn [run_instr bind set_pos p_pos p_bb p_vals p_sizes p_ctx req].
      pose proof (seq_loop_names c fuel s pos (f0 :: F') st0) as Hn.
      rewrite (seq_g_loop c fuel s pos (f0 :: F') 0 st0 st0 Hpos ltac:(lia) HclF Hg eq_refl eq_refl eq_refl), Z.add_0_r, ES in Hn. cbn [bind fst snd] in Hn.
      specialize (Hn _ eq_refl). assert (Hn2 : map fst (rev (p_vals st')) = map f_name (f0 :: F')) by exact Hn. clear Hn. rename Hn2 into Hn.
      destruct (set_offsets_same fs offs Hlen) as [Hnm _]. rewrite <- EF in Hn. try unfold F in Hn. rewrite Hnm in Hn.
      now rewrite (assemble_rev fs (p_vals st') Hn Hnd).
  Qed.
End AlignedFinal.
