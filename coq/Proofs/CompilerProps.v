(* CompilerProps.v — the source generator of compiler.py (Model/Compiler.v) against the interpreted structure loop (C03). *)
From Coq Require Import Lia.
From VF Require Import Model.Reader Model.Writer Model.Compiler Proofs.ReaderProps Proofs.ShiftProps Proofs.ArrayProps Proofs.BlockProps Proofs.CodecCorrect Proofs.RoundTrip.
Open Scope string_scope. Open Scope list_scope. Open Scope Z_scope.

(* ---------- A. the format string ---------- *)
Lemma prim_eqb_eq p q : prim_eqb p q = true -> p = q.
Proof.
  destruct p, q; cbn; intros H; try discriminate; try reflexivity.
  - apply andb_prop in H as [H Hk]. apply andb_prop in H as [Hn Hs]. apply Nat.eqb_eq in Hn. apply Bool.eqb_prop in Hs, Hk. congruence.
  - apply Nat.eqb_eq in H. congruence.
  - apply Bool.eqb_prop in H. congruence.
Qed.
Lemma fc_eqb_eq a b : fc_eqb a b = true -> a = b.
Proof. destruct a, b; cbn; intros H; try discriminate; [reflexivity|]. now rewrite (prim_eqb_eq _ _ H). Qed.

Lemma expand_cons n ch r : expand ((n, ch) :: r) = repeat ch (Z.to_nat n) ++ expand r.
Proof. reflexivity. Qed.
Lemma repeat_add {A} (x : A) a b : repeat x (a + b) = repeat x a ++ repeat x b.
Proof. induction a; cbn; [reflexivity|now rewrite IHa]. Qed.
Lemma expand_optimize_go : forall info cur, 0 <= fst cur -> Forall (fun x => 0 <= fst x) info ->
  expand (optimize_go info cur) = repeat (snd cur) (Z.to_nat (fst cur)) ++ expand info.
Proof.
  induction info as [|[n ch] r IH]; intros [m ch'] Hm Hall; cbn [optimize_go fst snd] in *.
  - destruct (Z.eqb_spec m 0) as [->|Hne]; cbn; [reflexivity|]. unfold expand. cbn. now rewrite !app_nil_r.
  - inversion Hall as [|? ? Hn Hr]; subst. cbn [fst] in Hn.
    destruct (fc_eqb ch ch') eqn:E.
    + apply fc_eqb_eq in E. subst ch'. rewrite IH by (cbn; try assumption; lia). cbn [fst snd].
      rewrite expand_cons, Z2Nat.inj_add, repeat_add, app_assoc by lia. reflexivity.
    + assert (P : forall l, expand ((if m =? 0 then [] else [(m, ch')]) ++ l) = repeat ch' (Z.to_nat m) ++ expand l).
      { intros l. destruct (Z.eqb_spec m 0) as [->|Hne]; [reflexivity|]. reflexivity. }
      rewrite P, IH by (cbn; assumption). cbn [fst snd]. now rewrite expand_cons.
Qed.
(* _optimize_struct_fmt changes the spelling of the format, not the format: the same characters in the same order *)
Theorem expand_optimize info : Forall (fun x => 0 <= fst x) info -> expand (optimize_fmt info) = expand info.
Proof.
  destruct info as [|[n ch] r]; intros H; [reflexivity|]. inversion H as [|? ? Hn Hr]; subst. cbn [optimize_fmt].
  rewrite expand_optimize_go by assumption. now rewrite expand_cons.
Qed.

(* ---------- B. scalars are decoded from exactly their bytes ---------- *)
Lemma prim_split e p sz : prim_size p = Some sz -> exists h : list Z -> result value,
  forall a, prim_read e p a = do x <- split_at sz a; do v <- h (fst x); Ok (v, snd x).
Proof.
  destruct p as [n sg pk|n| | |sg|]; cbn [prim_size]; intros H; try discriminate; injection H as <-.
  - exists (fun bs => Ok (VInt (int_from_bytes (prim_endian (PInt n sg pk) e) sg bs))). intros a. cbn [prim_read]. destruct (split_at n a) as [[x r]|]; reflexivity.
  - exists (fun bs => Ok (VFloat (int_from_bytes (prim_endian (PFloat n) e) false bs))). intros a. cbn [prim_read]. destruct (split_at n a) as [[x r]|]; reflexivity.
  - exists (fun bs => Ok (VBytes bs)). intros a. cbn [prim_read]. destruct (split_at 1 a) as [[x r]|]; reflexivity.
  - exists (fun bs => do cps <- utf16_decode (prim_endian PWchar e) bs; Ok (VWstr cps)). intros a. cbn [prim_read]. destruct (split_at 2 a) as [[x r]|]; cbn [bind fst snd]; [|reflexivity].
    destruct (utf16_decode _ x); reflexivity.
  - exists (fun _ => Ok VVoid). intros a. cbn [prim_read]. unfold split_at. cbn. reflexivity.
Qed.

Lemma zlen_srest s pos : 0 <= pos -> zlen (srest s pos) = Z.max 0 (zlen s - pos).
Proof. intros H. unfold zlen, srest. rewrite skipn_length. lia. Qed.
Lemma skipn_skipn' {A} : forall x y (l : list A), skipn x (skipn y l) = skipn (y + x) l.
Proof. intros x y. revert x. induction y as [|y IH]; intros x l; [reflexivity|]. destruct l as [|h t]; [now rewrite !skipn_nil|]. cbn [skipn Nat.add]. apply IH. Qed.
Lemma sread_sread s pos n a m : 0 <= pos -> 0 <= a -> 0 <= m -> a + m <= n -> sread (sread s pos n) a m = sread s (pos + a) m.
Proof.
  intros Hp Ha Hm Hn. unfold sread. rewrite skipn_firstn_comm, firstn_firstn, skipn_skipn'.
  replace (Nat.min (Z.to_nat m) (Z.to_nat n - Z.to_nat a)) with (Z.to_nat m) by lia. f_equal. f_equal. lia.
Qed.
Lemma sread_firstn buf a m b : 0 <= a -> 0 <= m -> a + m <= b -> sread (firstn (Z.to_nat b) buf) a m = sread buf a m.
Proof.
  intros Ha Hm Hb. unfold sread. rewrite skipn_firstn_comm, firstn_firstn. f_equal. lia.
Qed.
Lemma zlen_sread s pos n : 0 <= pos -> 0 <= n -> n <= zlen (srest s pos) -> zlen (sread s pos n) = n.
Proof. intros Hp Hn H. unfold zlen, sread, srest in *. rewrite firstn_length. lia. Qed.

Section Scalars.
  Variable e : string.
  (* one scalar at a position: enough bytes and the decoder of its slice decide everything *)
  Lemma prim_read_at_spec p sz h : prim_size p = Some sz ->
    (forall a, prim_read e p a = do x <- split_at sz a; do v <- h (fst x); Ok (v, snd x)) ->
    forall s pos, 0 <= pos ->
      prim_read_at e p s pos = if Z.of_nat sz <=? zlen (srest s pos) then do v <- h (sread s pos (Z.of_nat sz)); Ok (v, pos + Z.of_nat sz) else Err EEof.
  Proof.
    intros Hsz Hh s pos Hp. unfold prim_read_at. rewrite Hh. unfold split_at.
    destruct (Z.leb_spec (Z.of_nat sz) (zlen (srest s pos))) as [L|L].
    - assert (Nat.leb sz (length (srest s pos)) = true) as -> by (apply Nat.leb_le; unfold zlen in L; lia). cbn [bind fst snd].
      unfold sread. fold (srest s pos). rewrite Nat2Z.id. destruct (h (firstn sz (srest s pos))) as [v|er]; cbn [bind fst snd]; [|reflexivity].
      f_equal. f_equal. unfold zlen in *. rewrite skipn_length. lia.
    - assert (Nat.leb sz (length (srest s pos)) = false) as -> by (apply Nat.leb_gt; unfold zlen in L; lia). reflexivity.
  Qed.
End Scalars.

(* ---------- B2. readers decided by a slice of the stream ---------- *)
(* `rd` needs exactly n bytes: with them it returns the decoding h of those bytes and ends n bytes later; without them it fails *)
Definition sliced (rd : rfn) (n : Z) (h : list Z -> result value) : Prop :=
  0 <= n /\ forall s pos ctx, 0 <= pos ->
    (n <= zlen (srest s pos) -> rd s pos ctx = do v <- h (sread s pos n); Ok (v, pos + n)) /\
    (zlen (srest s pos) < n -> exists er, rd s pos ctx = Err er).
Lemma prim_sliced e p sz h : prim_size p = Some sz -> (forall a, prim_read e p a = do x <- split_at sz a; do v <- h (fst x); Ok (v, snd x)) ->
  sliced (fun s pos _ => prim_read_at e p s pos) (Z.of_nat sz) h.
Proof.
  intros Hsz Hh. split; [lia|]. intros s pos ctx Hp. rewrite (prim_read_at_spec e p sz h Hsz Hh s pos Hp). split; intros L.
  - apply Z.leb_le in L. now rewrite L.
  - apply Z.leb_gt in L. rewrite L. eauto.
Qed.
(* k consecutive elements *)
Fixpoint hn (h : list Z -> result value) (sz k : nat) (bs : list Z) : result (list value) :=
  match k with O => Ok [] | S k' => do v <- h (firstn sz bs); do r <- hn h sz k' (skipn sz bs); Ok (v :: r) end.
Lemma skipn_sread s pos a n : 0 <= pos -> 0 <= a -> 0 <= n -> skipn (Z.to_nat a) (sread s pos (a + n)) = sread s (pos + a) n.
Proof.
  intros Hp Ha Hn. unfold sread. rewrite skipn_firstn_comm, skipn_skipn'. f_equal; [lia|]. f_equal. lia.
Qed.
Lemma firstn_sread s pos a n : 0 <= a -> 0 <= n -> firstn (Z.to_nat a) (sread s pos (a + n)) = sread s pos a.
Proof. intros Ha Hn. unfold sread. rewrite firstn_firstn. f_equal. lia. Qed.
Lemma seq_n_hn rd sz h : sliced rd (Z.of_nat sz) h -> forall k s pos ctx, 0 <= pos ->
  (Z.of_nat (k * sz) <= zlen (srest s pos) -> seq_n rd k s pos ctx = do vs <- hn h sz k (sread s pos (Z.of_nat (k * sz))); Ok (vs, pos + Z.of_nat (k * sz))) /\
  (zlen (srest s pos) < Z.of_nat (k * sz) -> exists er, seq_n rd k s pos ctx = Err er).
Proof.
  intros [_ Hs]. induction k as [|k IH]; intros s pos ctx Hp.
  - cbn [seq_n hn Nat.mul bind]. split; [intros _; f_equal; f_equal; lia|]. pose proof (zlen_nonneg (srest s pos)). cbn. lia.
  - destruct (Hs s pos ctx Hp) as [He Hsh]. cbn [seq_n hn]. replace (Z.of_nat (S k * sz)) with (Z.of_nat sz + Z.of_nat (k * sz)) by lia. split; intros L.
    + rewrite He by lia.
      pose proof (firstn_sread s pos (Z.of_nat sz) (Z.of_nat (k * sz)) ltac:(lia) ltac:(lia)) as F. rewrite Nat2Z.id in F.
      pose proof (skipn_sread s pos (Z.of_nat sz) (Z.of_nat (k * sz)) Hp ltac:(lia) ltac:(lia)) as G. rewrite Nat2Z.id in G. rewrite F, G.
      destruct (h (sread s pos (Z.of_nat sz))) as [v|er]; cbn [bind fst snd]; [|reflexivity].
      destruct (IH s (pos + Z.of_nat sz) ctx ltac:(lia)) as [IHe _]. rewrite IHe by (rewrite zlen_srest in * by lia; lia).
      destruct (hn h sz k _); cbn [bind fst snd]; [f_equal; f_equal; lia|reflexivity].
    + destruct (Z.le_gt_cases (Z.of_nat sz) (zlen (srest s pos))) as [L1|L1].
      * rewrite He by lia. destruct (h _) as [v|er]; cbn [bind fst snd]; [|eauto].
        destruct (IH s (pos + Z.of_nat sz) ctx ltac:(lia)) as [_ IHs]. destruct IHs as [er ->]; [rewrite zlen_srest in * by lia; lia|]. cbn. eauto.
      * destruct (Hsh L1) as [er ->]. cbn. eauto.
Qed.

Section ArraySliced.
  Variable c : cfg.
  Variable fuel : nat.
  Let e := c_endian c.

  (* lists of k scalars read one after the other *)
  Lemma seq_list_sliced p sz h k : prim_size p = Some sz -> (forall a, prim_read e p a = do x <- split_at sz a; do v <- h (fst x); Ok (v, snd x)) ->
    sliced (fun s pos ctx => wrap_list (seq_n (fun s pos _ => prim_read_at e p s pos) k s pos ctx)) (Z.of_nat (k * sz)) (fun bs => do vs <- hn h sz k bs; Ok (VList vs)).
  Proof.
    intros Hsz Hh. split; [lia|]. intros s pos ctx Hp. destruct (seq_n_hn _ sz h (prim_sliced e p sz h Hsz Hh) k s pos ctx Hp) as [He Hs]. unfold wrap_list. split; intros L.
    - rewrite (He L). destruct (hn h sz k _); reflexivity.
    - destruct (Hs L) as [er ->]. cbn. eauto.
  Qed.
  Lemma sliced_ext rd rd' n h : (forall s pos ctx, 0 <= pos -> rd' s pos ctx = rd s pos ctx) -> sliced rd n h -> sliced rd' n h.
  Proof. intros He [H0 H]. split; [exact H0|]. intros s pos ctx Hp. rewrite (He s pos ctx Hp). exact (H s pos ctx Hp). Qed.

  (* the element classes of arrays a block holds *)
  Definition eprim (t : ty) : option prim :=
    match t with
    | TPrim p _ => match p with PInt k _ _ => if (0 <? k)%nat then Some p else None | PFloat k => if (0 <? k)%nat then Some p else None | PChar | PWchar => Some p | _ => None end
    | TEnum b _ _ _ => match b with PInt k _ _ => if (0 <? k)%nat then Some b else None | _ => None end
    | TPtr _ => match c_ptr c with PInt k _ _ => if (0 <? k)%nat then Some (c_ptr c) else None | _ => None end
    | _ => None
    end.
  Lemma eprim_facts el p : eprim el = Some p -> read_prim c el = Some p /\ (exists sz, prim_size p = Some sz /\ (0 < sz)%nat) /\
    (match el with TStruct _ _ _ | TUnion _ _ _ | TArr _ _ => False | _ => True end) /\ ty_size c el = prim_size_z p /\
    (forall s pos ctx, read_ty c fuel el s pos ctx = prim_read_at e p s pos).
  Proof.
    destruct el as [q al|b al fl ms|tg|el' len|nm fs al|nm fs al]; cbn [eprim]; intros H; try discriminate.
    - destruct q as [k sg pk|k| | |sg|]; try discriminate; try (destruct (Nat.ltb_spec 0 k); [|discriminate]); injection H as <-; cbn; repeat split; eauto; eexists; split; eauto; lia.
    - destruct b as [k sg pk|k| | |sg|]; try discriminate; destruct (Nat.ltb_spec 0 k); [|discriminate]; injection H as <-; cbn; repeat split; eauto.
    - destruct (c_ptr c) as [k sg pk|k| | |sg|] eqn:Ep; try discriminate; destruct (Nat.ltb_spec 0 k); [|discriminate]; injection H as <-;
        cbn [read_prim ty_size read_ty]; rewrite ?Ep; repeat split; eauto; exists k; split; [reflexivity|assumption].
  Qed.

  Lemma eprim_kind el p : eprim el = Some p -> is_packed p = true \/ is_bytebased p = true.
  Proof.
    destruct el as [q al|b al fl ms|tg|el' len|nm fs al|nm fs al]; cbn [eprim]; intros H; try discriminate.
    - destruct q as [k sg pk|k| | |sg|]; try discriminate; try (destruct (0 <? k)%nat; [|discriminate]); injection H as <-; cbn; try destruct pk; auto.
    - destruct b as [k sg pk|k| | |sg|]; try discriminate; destruct (0 <? k)%nat; [|discriminate]; injection H as <-; cbn; destruct pk; auto.
    - destruct (c_ptr c) as [k sg pk|k| | |sg|]; try discriminate; destruct (0 <? k)%nat; [|discriminate]; injection H as <-; cbn; destruct pk; auto.
  Qed.

  Lemma array_sliced el p sz h n : eprim el = Some p -> prim_size p = Some sz ->
    (forall a, prim_read e p a = do x <- split_at sz a; do v <- h (fst x); Ok (v, snd x)) -> 0 <= n -> n * Z.of_nat sz <= 9223372036854775807 ->
    exists ha, sliced (read_ty c fuel (TArr el (LFixed n))) (n * Z.of_nat sz) ha /\
      (is_packed p = true -> forall bs, ha bs = do vs <- hn h sz (Z.to_nat n) bs; Ok (VList vs)).
  Proof.
    intros Hel Hsz Hh Hn Hbig. destruct (eprim_facts el p Hel) as [_ [[sz' [Hsz' Hpos]] [_ [_ Hrd]]]]. rewrite Hsz in Hsz'. injection Hsz' as <-.
    assert (Hmax : Z.max 0 n = n) by lia.
    assert (Hgen : sliced (fun s pos ctx => wrap_list (seq_n (fun s pos _ => prim_read_at e p s pos) (Z.to_nat n) s pos ctx)) (n * Z.of_nat sz) (fun bs => do vs <- hn h sz (Z.to_nat n) bs; Ok (VList vs))).
    { pose proof (seq_list_sliced p sz h (Z.to_nat n) Hsz Hh) as S. replace (Z.of_nat (Z.to_nat n * sz)) with (n * Z.of_nat sz) in S by nia. exact S. }
    (* the generic element loop, capped *)
    assert (Hcap : forall rd, (forall s pos ctx, rd s pos ctx = prim_read_at e p s pos) ->
              sliced (fun s pos ctx => let cap := zlen (srest s pos) + 65 in
                                       do r <- seq_n rd (Z.to_nat (Z.min n cap)) s pos ctx; if cap <? n then Err EOutOfFuel else Ok (VList (fst r), snd r))
                     (n * Z.of_nat sz) (fun bs => do vs <- hn h sz (Z.to_nat n) bs; Ok (VList vs))).
    { intros rd Hrd'. destruct Hgen as [H0 Hg]. split; [exact H0|]. intros s pos ctx Hp. destruct (Hg s pos ctx Hp) as [He Hs]. cbv zeta.
      assert (Hseq : forall k, seq_n rd k s pos ctx = seq_n (fun s pos _ => prim_read_at e p s pos) k s pos ctx).
      { intros k. revert pos Hp He Hs. clear -Hrd'. intros pos _ _ _. revert pos. induction k as [|k IH]; intros pos; cbn [seq_n]; [reflexivity|]. rewrite Hrd'.
        destruct (prim_read_at e p s pos) as [[v q]|]; cbn [bind fst snd]; [|reflexivity]. now rewrite IH. }
      rewrite Hseq. pose proof (zlen_nonneg (srest s pos)) as Hz. split; intros L.
      - assert (Z.min n (zlen (srest s pos) + 65) = n) as -> by nia. assert (zlen (srest s pos) + 65 <? n = false) as -> by (apply Z.ltb_ge; nia).
        specialize (He L). unfold wrap_list in He. destruct (seq_n _ (Z.to_nat n) s pos ctx) as [[vs q]|]; cbn [bind fst snd] in *; exact He.
      - destruct (Z.ltb_spec (zlen (srest s pos) + 65) n) as [L2|L2].
        + match goal with |- context [seq_n ?a ?b s pos ctx] => destruct (seq_n a b s pos ctx) end; cbn; eauto.
        + assert (Z.min n (zlen (srest s pos) + 65) = n) as -> by lia. destruct (Hs L) as [er Her]. unfold wrap_list in Her.
          destruct (seq_n _ (Z.to_nat n) s pos ctx) as [[vs q]|]; cbn [bind fst snd] in *; [discriminate|eauto]. }
    (* the bulk path of packed scalars *)
    assert (Hbulk : fixed_scalar p = Some sz -> sliced (fun s pos (_ : list (string * Z)) => wrap_list (packed_read_n c p n s pos)) (n * Z.of_nat sz) (fun bs => do vs <- hn h sz (Z.to_nat n) bs; Ok (VList vs))).
    { intros Hfs. refine (sliced_ext _ _ _ _ _ Hgen). intros s pos ctx Hp. now rewrite (bulk_is_sequential c p sz Hfs n s pos ctx Hp Hn ltac:(lia)). }
    destruct el as [q al|b al fl ms|tg|el' len|nm fs al|nm fs al]; cbn [eprim] in Hel; try discriminate.
    - destruct q as [k sg pk|k| | |sg|]; try discriminate; try (destruct (0 <? k)%nat; [|discriminate]); injection Hel as <-.
      + destruct pk.
        * eexists. split; [|intros _ bs; reflexivity]. cbn [read_ty read_array read_count]. rewrite Hmax. apply (Hbulk Hsz).
        * eexists. split; [|intros Hpk; discriminate]. cbn [read_ty read_array read_count]. rewrite Hmax. apply Hcap. intros; reflexivity.
      + eexists. split; [|intros _ bs; reflexivity]. cbn [read_ty read_array read_count]. rewrite Hmax. apply (Hbulk Hsz).
      + (* char[n] *)
        cbn in Hsz. injection Hsz as <-. exists (fun bs => Ok (VBytes bs)). split; [|intros Hpk; discriminate].
        split; [lia|]. intros s pos ctx Hp. cbn [read_ty read_array read_count]. rewrite Hmax. replace (n * Z.of_nat 1) with n by lia. unfold sread_exact.
        destruct (Z.eqb_spec n 0) as [->|Hne].
        * split; intros L; [|pose proof (zlen_nonneg (srest s pos)); lia]. rewrite sread_nil. cbn [bind]. f_equal. f_equal. lia.
        * destruct (Z.ltb_spec 9223372036854775807 n) as [L0|_]; [lia|]. split; intros L.
          -- apply Z.leb_le in L. now rewrite L.
          -- apply Z.leb_gt in L. rewrite L. cbn. eauto.
      + (* wchar[n] *)
        cbn in Hsz. injection Hsz as <-. exists (fun bs => do cps <- utf16_decode (prim_endian PWchar e) bs; Ok (VWstr cps)). split; [|intros Hpk; discriminate].
        split; [lia|]. intros s pos ctx Hp. cbn [read_ty read_array read_count]. rewrite Hmax. replace (n * Z.of_nat 2) with (2 * n) by lia. unfold sread_exact.
        destruct (Z.eqb_spec n 0) as [->|Hne].
        * split; intros L; [|pose proof (zlen_nonneg (srest s pos)); lia]. cbn [Z.mul]. rewrite sread_nil.
          assert (D : forall en, utf16_decode en [] = Ok []) by (intros en; destruct en; reflexivity). rewrite D. cbn [bind]. f_equal. f_equal. lia.
        * destruct (Z.ltb_spec 9223372036854775807 (2 * n)) as [L0|_]; [lia|]. split; intros L.
          -- apply Z.leb_le in L. fold e. rewrite L. cbn [bind]. destruct (utf16_decode _ _); reflexivity.
          -- apply Z.leb_gt in L. fold e. rewrite L. cbn. eauto.
    - destruct b as [k sg pk|k| | |sg|]; try discriminate; destruct (0 <? k)%nat; [|discriminate]; injection Hel as <-. destruct pk.
      + eexists. split; [|intros _ bs; reflexivity]. cbn [read_ty read_array read_count]. rewrite Hmax. apply (Hbulk Hsz).
      + eexists. split; [|intros Hpk; discriminate]. cbn [read_ty read_array read_count]. rewrite Hmax. apply Hcap. intros; reflexivity.
    - destruct (c_ptr c) as [k sg pk|k| | |sg|] eqn:Ep; try discriminate. destruct (0 <? k)%nat; [|discriminate]. injection Hel as <-.
      eexists. split; [|intros Hpk bs; reflexivity]. cbn [read_ty read_array read_count]. rewrite Hmax. apply Hcap. intros s pos ctx. cbn [read_ty]. now rewrite Ep.
  Qed.
End ArraySliced.

(* ---------- C. a block of scalar members is read member by member ---------- *)
Definition push (st : pstate) (n : string) (v : value) (sz : Z) : pstate :=
  mkPS (p_pos st) (p_bb st) ((n, v) :: p_vals st) ((n, sz) :: p_sizes st) (int_ctx n v (p_ctx st)).
(* results agree: the same state, or both fail (which error is raised first may differ between the readers) *)
Definition req {A} (a b : result A) : Prop := match a, b with Ok x, Ok y => x = y | Err _, Err _ => True | _, _ => False end.
Lemma req_refl {A} (a : result A) : req a a. Proof. destruct a; cbn; auto. Qed.
Lemma req_trans {A} (a b d : result A) : req a b -> req b d -> req a d.
Proof. destruct a, b, d; cbn; intros; subst; auto; contradiction. Qed.
Lemma req_sym {A} (a b : result A) : req a b -> req b a.
Proof. destruct a, b; cbn; intros; subst; auto. Qed.

Section Block.
  Variable c : cfg.
  Variable fuel : nat.
  Let e := c_endian c.
  Let rd := fun f : field => read_ty c fuel (f_ty f).

  (* the scalar member types a block holds: integers of both kinds, floats, char, wchar, enums, pointers *)
  Definition bprim (t : ty) : option prim :=
    match t with
    | TPrim p _ => match p with PInt _ _ _ | PFloat _ | PChar | PWchar => Some p | _ => None end
    | TEnum b _ _ _ => match b with PInt _ _ _ => Some b | _ => None end
    | TPtr _ => match c_ptr c with PInt _ _ _ => Some (c_ptr c) | _ => None end
    | _ => None
    end.
  Definition psz (p : prim) : Z := match prim_size p with Some n => Z.of_nat n | None => 0 end.
  Lemma bprim_facts t p : bprim t = Some p ->
    member_read c t = Ok (p, None) /\ (exists n, prim_size p = Some n) /\ ty_size c t = Some (psz p) /\ p <> PVoid /\ (is_packed p = true \/ is_bytebased p = true) /\
    (forall s pos ctx, read_ty c fuel t s pos ctx = prim_read_at e p s pos).
  Proof.
    unfold psz. destruct t as [q al|b al fl ms|tg|el len|nm fs al|nm fs al]; cbn [bprim]; intros H; try discriminate.
    - destruct q as [n sg pk|n| | |sg|]; try discriminate; injection H as <-; cbn; (repeat split; try (eexists; reflexivity); try discriminate); try (destruct pk; auto); auto.
    - destruct b as [n sg pk|n| | |sg|]; try discriminate; injection H as <-; cbn; (repeat split; try (eexists; reflexivity); try discriminate); destruct pk; auto.
    - destruct (c_ptr c) as [n sg pk|n| | |sg|] eqn:Ep; try discriminate; injection H as <-; cbn [member_read read_prim ty_size read_ty prim_size prim_size_z option_map]; rewrite ?Ep;
        (repeat split; try (eexists; reflexivity); try discriminate); try (destruct pk; auto); unfold prim_size_z; cbn; auto.
  Qed.

  (* members a block holds: the scalars above and fixed-size arrays of scalars (char[n], wchar[n], packed and byte-sliced integers, floats, enums, pointers) *)
  Definition bmem (t : ty) : option (prim * option Z) :=
    match t with
    | TArr el (LFixed n) => match eprim c el with Some p => if 0 <=? n then Some (p, Some n) else None | None => None end
    | TArr _ _ => None
    | _ => match bprim t with Some p => Some (p, None) | None => None end
    end.
  Definition msize (t : ty) : Z := match bmem t with Some (p, None) => psz p | Some (p, Some n) => n * psz p | None => 0 end.
  Lemma psz_nonneg p : 0 <= psz p. Proof. unfold psz. destruct (prim_size p); lia. Qed.
  Lemma msize_nonneg t : 0 <= msize t.
  Proof.
    unfold msize. destruct (bmem t) as [[p [n|]]|] eqn:E; try apply psz_nonneg; [|lia]. pose proof (psz_nonneg p).
    destruct t as [q al|b al fl ms|tg|el len|nm fs al|nm fs al]; cbn [bmem] in E; try (destruct (bprim _); discriminate).
    destruct len as [k| |]; try discriminate. destruct (eprim c el); [|discriminate]. destruct (Z.leb_spec 0 k); [|discriminate]. injection E as _ <-. nia.
  Qed.

  Definition mfacts (t : ty) (p : prim) (cnt : option Z) (sz : nat) (hp hm : list Z -> result value) : Prop :=
      member_read c t = Ok (p, cnt) /\ prim_size p = Some sz /\
      msize t = (match cnt with Some n => n | None => 1 end) * Z.of_nat sz /\ (match cnt with Some n => 0 <= n | None => True end) /\
      ty_size c t = Some (msize t) /\ (is_packed p = true \/ is_bytebased p = true) /\
      (forall a, prim_read e p a = do x <- split_at sz a; do v <- hp (fst x); Ok (v, snd x)) /\
      sliced (read_ty c fuel t) (msize t) hm /\
      (cnt = None -> forall bs, hm bs = hp bs) /\
      (forall n, cnt = Some n -> is_packed p = true -> forall bs, hm bs = do vs <- hn hp sz (Z.to_nat n) bs; Ok (VList vs)) /\
      supported (unwrap t) = true /\ ty_size c (unwrap t) = Some (msize t) /\
      match unwrap t with TStruct _ _ _ | TUnion _ _ _ | TArr (TStruct _ _ _) _ | TArr (TUnion _ _ _) _ | TArr (TArr _ _) _ => False | _ => True end.
  Lemma bmem_scalar t p : bprim t = Some p -> bmem t = Some (p, None) -> exists sz hp hm, mfacts t p None sz hp hm.
  Proof.
    intros Ep Hb. destruct (bprim_facts _ _ Ep) as [Hm [[n Hsz] [Hts [Hnv [Hk Hrd]]]]]. destruct (prim_split e p n Hsz) as [hp Hh].
    assert (Hpz : psz p = Z.of_nat n) by (unfold psz; now rewrite Hsz).
    assert (Hms : msize t = Z.of_nat n) by (unfold msize; now rewrite Hb).
    exists n, hp, hp. unfold mfacts. rewrite Hms.
    split; [exact Hm|]. split; [exact Hsz|]. split; [lia|]. split; [exact I|]. split; [now rewrite Hts, Hpz|]. split; [exact Hk|]. split; [exact Hh|].
    split; [refine (sliced_ext _ _ _ _ _ (prim_sliced e p n hp Hsz Hh)); intros; apply Hrd|]. split; [reflexivity|]. split; [discriminate|].
    destruct t as [q al|b al fl ms|tg|el len|nm fs al|nm fs al]; cbn [bprim] in Ep; try discriminate; cbn [unwrap supported].
    - destruct q; try discriminate; injection Ep as <-; rewrite Hts, Hpz; auto.
    - cbn [ty_size] in *. rewrite Hts, Hpz. destruct b; try discriminate. auto.
    - rewrite Hts, Hpz. auto.
  Qed.
  Lemma bmem_facts t p cnt : bmem t = Some (p, cnt) -> msize t <= 9223372036854775807 -> exists sz hp hm, mfacts t p cnt sz hp hm.
  Proof.
    intros H Hbig.
    destruct t as [q al|b al fl ms|tg|el len|nm fs al|nm fs al]; pose proof H as H'; revert H'; cbn [bmem];
      try (destruct (bprim _) as [p0|] eqn:Ep; [|discriminate]; intros H'; injection H' as <- <-; exact (bmem_scalar _ _ Ep H)).
    destruct len as [k| |]; try (intros X; discriminate X). destruct (eprim c el) as [p0|] eqn:Ee; [|intros X; discriminate X]. destruct (Z.leb_spec 0 k) as [Hk0|]; [|intros X; discriminate X]. intros H'. injection H' as <- <-.
    destruct (eprim_facts c fuel el p0 Ee) as [Hrp [[sz [Hsz Hpos]] [Hshape [Hts Hrd]]]]. destruct (prim_split e p0 sz Hsz) as [hp Hh].
    assert (Hpz : psz p0 = Z.of_nat sz) by (unfold psz; now rewrite Hsz).
    assert (Hms : msize (TArr el (LFixed k)) = k * Z.of_nat sz) by (unfold msize; now rewrite H, Hpz). rewrite Hms in Hbig.
    destruct (array_sliced c fuel el p0 sz hp k Ee Hsz Hh Hk0 Hbig) as [ha [Hsl Hpk]].
    exists sz, hp, ha. unfold mfacts. rewrite Hms. cbn [member_read unwrap supported ty_size]. rewrite Hrp, Hts. unfold prim_size_z. rewrite Hsz. cbn [option_map].
    split; [reflexivity|]. split; [reflexivity|]. split; [reflexivity|]. split; [exact Hk0|]. split; [reflexivity|].
    split; [exact (eprim_kind c el p0 Ee)|].
    split; [exact Hh|]. split; [exact Hsl|]. split; [discriminate|]. split; [intros n Hn; injection Hn as <-; exact Hpk|]. split; [reflexivity|]. split; [reflexivity|].
    destruct el; try contradiction; exact I.
  Qed.

  Fixpoint seq_block (B : list field) (s : list Z) (q : Z) (st : pstate) : result (pstate * Z) :=
    match B with
    | [] => Ok (st, q)
    | f :: r => do x <- rd f s q (p_ctx st); seq_block r s (snd x) (push st (f_name f) (fst x) (snd x - q))
    end.
  Definition bsize (B : list field) : Z := fold_right (fun f acc => msize (f_ty f) + acc) 0 B.
  Lemma bsize_nonneg B : 0 <= bsize B.
  Proof. induction B as [|f r IH]; cbn [bsize fold_right]; [lia|]. fold (bsize r). pose proof (msize_nonneg (f_ty f)). lia. Qed.

  Lemma sliced_ok rd' n h s pos ctx v p' : sliced rd' n h -> 0 <= pos -> rd' s pos ctx = Ok (v, p') -> p' = pos + n /\ n <= zlen (srest s pos) /\ h (sread s pos n) = Ok v.
  Proof.
    intros [H0 H] Hp Hr. destruct (H s pos ctx Hp) as [He Hs]. destruct (Z.le_gt_cases n (zlen (srest s pos))) as [L|L].
    - rewrite (He L) in Hr. destruct (h (sread s pos n)) as [v0|]; [|discriminate]. cbn [bind] in Hr. injection Hr as <- <-. auto.
    - destruct (Hs L) as [er Her]. congruence.
  Qed.

  Definition kind_ok (p : prim) : Prop := is_packed p = true \/ is_bytebased p = true.
  Definition own (f : field) : option field * Z * fc :=
    match bmem (f_ty f) with
    | Some (p, cnt) => let n := match cnt with Some k => k | None => 1 end in if is_packed p then (Some f, n, FP p) else (Some f, n * psz p, FX)
    | None => (Some f, 0, FX)
    end.
  Fixpoint contig (cur : option Z) (B : list field) : Prop :=
    match B with
    | [] => True
    | f :: r => match f_off f with None => True | Some o => cur = Some o end /\ contig (option_map (Z.add (msize (f_ty f))) cur) r
    end.
  Definition inclass (B : list field) : Prop := Forall (fun f => bmem (f_ty f) <> None) B.

  Lemma struct_info_members : forall B cur imag, inclass B -> bsize B <= 9223372036854775807 -> contig cur B ->
    struct_info c false B cur imag = Ok (map own B).
  Proof.
    induction B as [|f r IH]; intros cur imag Hcl Hbig Hc; [reflexivity|]. inversion Hcl as [|? ? Hf Hr]; subst. destruct Hc as [Hn Hc].
    cbn [bsize fold_right] in Hbig. fold (bsize r) in Hbig. pose proof (bsize_nonneg r) as Hbn. pose proof (msize_nonneg (f_ty f)) as Hmn.
    destruct (bmem (f_ty f)) as [[p cnt]|] eqn:Ep; [|contradiction].
    destruct (bmem_facts _ _ _ Ep ltac:(lia)) as [sz [hp [hm [Hm [Hsz [Hms [Hcnt [Hts [Hk _]]]]]]]]].
    cbn [struct_info map]. unfold own at 1. rewrite Ep.
    assert (D : match f_off f, cur with Some o, Some cu => Ok (Z.max 0 (o - cu)) | Some _, None => Err EType | None, _ => Ok 0 end = Ok 0).
    { destruct (f_off f) as [o|]; [|reflexivity]. rewrite Hn. f_equal. lia. }
    rewrite D. cbn [bind andb]. rewrite Hm. cbn [bind]. unfold prim_size_z. rewrite Hsz. cbn [option_map].
    assert (E1 : option_map (Z.add 0) cur = cur) by (destruct cur; cbn; f_equal).
    rewrite E1. cbn [Z.ltb Z.compare app]. rewrite Z.add_0_r.
    assert (Hpz : psz p = Z.of_nat sz) by (unfold psz; now rewrite Hsz).
    rewrite Hms in Hc. rewrite (IH _ (imag + match cnt with Some k => k | None => 1 end * Z.of_nat sz) Hr ltac:(lia) Hc). cbn [bind].
    rewrite Hpz.
    assert (Hnv : match cnt, p with None, PVoid => true | _, _ => false end = false) by (destruct Hk as [Hk|Hk]; destruct cnt, p; cbn in Hk; try discriminate; reflexivity).
    destruct cnt as [k|]; destruct p as [a sg pk|a| | |sg|]; try discriminate Hnv; cbn [is_packed is_bytebased]; try (destruct pk); cbn [app]; try reflexivity;
      destruct Hk as [Hk|Hk]; discriminate Hk.
  Qed.

  Definition bchars (B : list field) : list fc := expand (map (fun x => (snd (fst x), snd x)) (map own B)).
  Lemma bchars_cons f r : bchars (f :: r) = repeat (snd (own f)) (Z.to_nat (snd (fst (own f)))) ++ bchars r.
  Proof. reflexivity. Qed.
  Lemma unpack_skip : forall k l bs, unpack_fc c (repeat FX k ++ l) bs = unpack_fc c l (skipn k bs).
  Proof.
    induction k as [|k IH]; intros l bs; [reflexivity|]. cbn [repeat app unpack_fc]. rewrite IH, skipn_skipn'. reflexivity.
  Qed.
  Lemma hn_length h sz : forall k bs vs, hn h sz k bs = Ok vs -> length vs = k.
  Proof.
    induction k as [|k IH]; intros bs vs H; cbn [hn] in H; [now injection H as <-|]. destruct (h (firstn sz bs)); [|discriminate]. cbn [bind] in H.
    destruct (hn h sz k (skipn sz bs)) as [r|] eqn:E; [|discriminate]. cbn [bind] in H. injection H as <-. cbn. now rewrite (IH _ _ E).
  Qed.
  Lemma hn_firstn h sz : forall k bs, (k * sz <= length bs)%nat -> hn h sz k (firstn (k * sz) bs) = hn h sz k bs.
  Proof.
    induction k as [|k IH]; intros bs H; [reflexivity|]. cbn [hn]. rewrite firstn_firstn. replace (Nat.min sz (S k * sz)) with sz by (cbn; lia).
    destruct (h (firstn sz bs)); cbn [bind]; [|reflexivity]. replace (skipn sz (firstn (S k * sz) bs)) with (firstn (k * sz) (skipn sz bs)).
    - rewrite IH; [reflexivity|]. rewrite skipn_length. cbn in H. lia.
    - rewrite skipn_firstn_comm. f_equal. cbn. lia.
  Qed.
  Lemma unpack_fc_repeat p sz hp : (forall a, prim_read e p a = do x <- split_at sz a; do v <- hp (fst x); Ok (v, snd x)) ->
    forall k l bs, (k * sz <= length bs)%nat ->
      unpack_fc c (repeat (FP p) k ++ l) bs = do vs <- hn hp sz k bs; do rest <- unpack_fc c l (skipn (k * sz) bs); Ok (vs ++ rest).
  Proof.
    intros Hh. induction k as [|k IH]; intros l bs H; cbn [repeat app unpack_fc hn bind].
    - cbn. destruct (unpack_fc c l bs); reflexivity.
    - fold e. rewrite Hh. unfold split_at. assert (Nat.leb sz (length bs) = true) as -> by (apply Nat.leb_le; cbn in H; lia). cbn [bind fst snd].
      destruct (hp (firstn sz bs)) as [v|]; cbn [bind]; [|reflexivity]. assert (Hk : (k * sz <= length (skipn sz bs))%nat) by (rewrite skipn_length; cbn in H; lia). cbn [fst snd]. rewrite (IH l (skipn sz bs) Hk).
      destruct (hn hp sz k (skipn sz bs)) as [vs|]; cbn [bind]; [|reflexivity]. rewrite skipn_skipn'. replace (sz + k * sz)%nat with (S k * sz)%nat by (cbn; lia).
      destruct (unpack_fc c l (skipn (S k * sz) bs)); reflexivity.
  Qed.

  Lemma block_items_uses : forall l a b i sz w, block_items c l a b true = Ok (i, sz, w) -> w = true.
  Proof.
    induction l as [|[[[g|] k] ch'] l IHl]; intros a b i sz w E; cbn [block_items] in E.
    - now injection E as _ _ <-.
    - destruct (member_read c (f_ty g)) as [[q cn]|]; [|discriminate]. cbn [bind] in E. destruct (prim_size_z q), (ty_size c (f_ty g)); try discriminate.
      destruct cn; destruct (is_bytebased q);
        match type of E with context [block_items c l ?x ?y true] => destruct (block_items c l x y true) as [[[i2 s2] w2]|] eqn:E2; [|discriminate] end;
        cbn [bind] in E; injection E as _ _ <-; exact (IHl _ _ _ _ _ E2).
    - exact (IHl _ _ _ _ _ E).
  Qed.

  Lemma items_run_x : forall B size slice uses items size' u,
    inclass B -> bsize B <= 9223372036854775807 -> 0 <= size -> 0 <= slice ->
    block_items c (map own B) size slice uses = Ok (items, size', u) ->
    size' = size + bsize B /\
    (u = false -> forall bs, unpack_fc c (bchars B) bs = Ok []) /\
    forall buf dpre drest dpost st, size' <= zlen buf -> length dpre = Z.to_nat slice ->
      unpack_fc c (bchars B) (skipn (Z.to_nat size) buf) = Ok drest ->
      run_items rd buf (dpre ++ drest ++ dpost) items st = do r <- seq_block B buf size st; Ok (fst r).
  Proof.
    unfold rd. induction B as [|f r IH]; intros size slice uses items size' u Hcl Hbig Hs Hsl H.
    - cbn in H. injection H as <- <- <-. cbn [bsize fold_right]. split; [lia|]. split; [reflexivity|]. intros. reflexivity.
    - inversion Hcl as [|? ? Hf Hr]; subst.
      cbn [bsize fold_right] in Hbig |- *. fold (bsize r) in Hbig |- *. pose proof (bsize_nonneg r) as Hbn. pose proof (msize_nonneg (f_ty f)) as Hmn.
      destruct (bmem (f_ty f)) as [[p cnt]|] eqn:Ep; [|contradiction].
      destruct (bmem_facts _ _ _ Ep ltac:(lia)) as [sz [hp [hm [Hm [Hsz [Hms [Hcnt [Hts [Hk [Hh [Hslc [Hsc [Har _]]]]]]]]]]]]].
      assert (Hpz : psz p = Z.of_nat sz) by (unfold psz; now rewrite Hsz).
      set (n' := match cnt with Some k => k | None => 1 end) in *.
      assert (Hn' : 0 <= n') by (unfold n'; destruct cnt; lia).
      cbn [map] in H. unfold own at 1 in H. rewrite Ep in H. fold n' in H.
      assert (Hown : exists cn ch, (if is_packed p then (Some f, n', FP p) else (Some f, n' * psz p, FX)) = (Some f, cn, ch)) by (destruct (is_packed p); eauto).
      destruct Hown as [cn [ch Hown]]. rewrite Hown in H. cbn [block_items] in H. rewrite Hm in H. cbn [bind] in H.
      unfold prim_size_z in H. rewrite Hsz, Hts in H. cbn [option_map] in H.
      destruct (is_bytebased p) eqn:Eb.
      + (* sliced out of the buffer *)
        assert (Epk : is_packed p = false) by (destruct p as [? ? []| | | | |]; cbn in *; congruence).
        assert (Hg : exists X, (let '(g, slice', uses') := match cnt with
                                 | Some n => (GBuf size (size + n * Z.of_nat sz), slice, uses) | None => (GBuf size (size + Z.of_nat sz), slice, uses) end in
                                 do rest <- block_items c (map own r) (size + msize (f_ty f)) slice' uses'; let '(its, size'0, u0) := rest in Ok ((f, g, msize (f_ty f)) :: its, size'0, u0))
                                = (do rest <- block_items c (map own r) (size + msize (f_ty f)) slice uses; let '(its, size'0, u0) := rest in Ok ((f, GBuf size (size + msize (f_ty f)), msize (f_ty f)) :: its, size'0, u0)) /\ X = 0).
        { exists 0. split; [|reflexivity]. rewrite Hms. unfold n'. destruct cnt; cbv zeta; [reflexivity|]. now rewrite Z.mul_1_l. }
        destruct Hg as [_ [Hg _]]. rewrite Hg in H. clear Hg.
        destruct (block_items c (map own r) (size + msize (f_ty f)) slice uses) as [[[its sz2] u2]|] eqn:E; [|discriminate]. cbn [bind] in H. injection H as <- <- <-.
        assert (Hs2 : 0 <= size + msize (f_ty f)) by lia.
        destruct (IH _ _ _ _ _ _ Hr ltac:(lia) Hs2 Hsl E) as [-> [Hu Hrun]]. split; [lia|].
        assert (Hbc : bchars (f :: r) = repeat FX (Z.to_nat (msize (f_ty f))) ++ bchars r).
        { rewrite bchars_cons. unfold own. rewrite Ep, Epk. cbn [fst snd]. fold n'. now rewrite Hpz, Hms. }
        split.
        * intros Hfalse bs. rewrite Hbc, unpack_skip. now apply Hu.
        * intros buf dpre drest dpost st Hlen Hdp Hun. rewrite Hbc, unpack_skip, skipn_skipn' in Hun.
          replace (Z.to_nat size + Z.to_nat (msize (f_ty f)))%nat with (Z.to_nat (size + msize (f_ty f))) in Hun by lia.
          cbn [run_items item_value seq_block fst snd]. unfold rd.
          destruct Hslc as [_ Hslc].
          destruct (Hslc (firstn (Z.to_nat (size + msize (f_ty f))) buf) size (p_ctx st) Hs) as [He1 _].
          destruct (Hslc buf size (p_ctx st) Hs) as [He2 _].
          rewrite He1 by (rewrite zlen_srest by exact Hs; unfold zlen in *; rewrite firstn_length; lia).
          rewrite He2 by (rewrite zlen_srest by exact Hs; lia). rewrite sread_firstn by lia.
          destruct (hm (sread buf size (msize (f_ty f)))) as [v|er]; cbn [bind fst snd]; [|reflexivity].
          rewrite (Hrun buf dpre drest dpost _ Hlen Hdp Hun). replace (size + msize (f_ty f) - size) with (msize (f_ty f)) by lia. reflexivity.
      + (* taken from the unpacked tuple *)
        assert (Epk : is_packed p = true) by (destruct Hk; congruence).
        assert (Hg : (let '(g, slice', uses') := match cnt with
                                 | Some n => (GDataN slice (slice + n), slice + n, true) | None => (GData slice, slice + 1, true) end in
                                 do rest <- block_items c (map own r) (size + msize (f_ty f)) slice' uses'; let '(its, size'0, u0) := rest in Ok ((f, g, msize (f_ty f)) :: its, size'0, u0))
                      = (do rest <- block_items c (map own r) (size + msize (f_ty f)) (slice + n') true; let '(its, size'0, u0) := rest in
                         Ok ((f, match cnt with Some n => GDataN slice (slice + n) | None => GData slice end, msize (f_ty f)) :: its, size'0, u0))).
        { unfold n'. destruct cnt; reflexivity. }
        rewrite Hg in H. clear Hg.
        destruct (block_items c (map own r) (size + msize (f_ty f)) (slice + n') true) as [[[its sz2] u2]|] eqn:E; [|discriminate]. cbn [bind] in H. injection H as <- <- <-.
        assert (Hs2 : 0 <= size + msize (f_ty f)) by lia. assert (Hsl2 : 0 <= slice + n') by lia.
        destruct (IH _ _ _ _ _ _ Hr ltac:(lia) Hs2 Hsl2 E) as [-> [Hu Hrun]]. split; [lia|].
        assert (Hbc : bchars (f :: r) = repeat (FP p) (Z.to_nat n') ++ bchars r).
        { rewrite bchars_cons. unfold own. rewrite Ep, Epk. reflexivity. }
        assert (Hu2 : u2 = true) by exact (block_items_uses _ _ _ _ _ _ E).
        split; [intros Hfalse; congruence|].
        intros buf dpre drest dpost st Hlen Hdp Hun. rewrite Hbc in Hun.
        assert (Hfit : (Z.to_nat n' * sz <= length (skipn (Z.to_nat size) buf))%nat) by (rewrite skipn_length; unfold zlen in Hlen; nia).
        rewrite (unpack_fc_repeat p sz hp Hh _ _ _ Hfit) in Hun.
        destruct (hn hp sz (Z.to_nat n') (skipn (Z.to_nat size) buf)) as [vs|] eqn:Ehn; [|discriminate]. cbn [bind] in Hun.
        destruct (unpack_fc c (bchars r) (skipn (Z.to_nat n' * sz) (skipn (Z.to_nat size) buf))) as [rest|] eqn:Eu; [|discriminate]. cbn [bind] in Hun. injection Hun as <-.
        pose proof (hn_length _ _ _ _ _ Ehn) as Hvl.
        rewrite skipn_skipn' in Eu. replace (Z.to_nat size + Z.to_nat n' * sz)%nat with (Z.to_nat (size + msize (f_ty f))) in Eu by nia.
        cbn [run_items seq_block fst snd]. unfold rd.
        destruct Hslc as [_ Hslc]. destruct (Hslc buf size (p_ctx st) Hs) as [He2 _]. rewrite He2 by (rewrite zlen_srest by exact Hs; lia).
        assert (Hsr : sread buf size (msize (f_ty f)) = firstn (Z.to_nat n' * sz) (skipn (Z.to_nat size) buf)) by (unfold sread; f_equal; nia).
        assert (Hval : item_value (fun f0 : field => read_ty c fuel (f_ty f0)) buf (dpre ++ (vs ++ rest) ++ dpost) (p_ctx st)
                         (f, match cnt with Some n => GDataN slice (slice + n) | None => GData slice end, msize (f_ty f)) = hm (sread buf size (msize (f_ty f)))).
        { rewrite Hsr. unfold n' in *. destruct cnt as [n|]; cbn [item_value].
          - rewrite (Har n eq_refl Epk), hn_firstn, Ehn by exact Hfit. cbn [bind]. f_equal. f_equal.
            rewrite skipn_app, <- Hdp, skipn_all, Nat.sub_diag. cbn [app skipn]. replace (Z.to_nat (slice + n - slice)) with (length vs) by lia.
            rewrite <- app_assoc, firstn_app, firstn_all, Nat.sub_diag. cbn [firstn]. now rewrite app_nil_r.
          - rewrite (Hsc eq_refl). change (Z.to_nat 1) with 1%nat in *. rewrite Nat.mul_1_l in *. cbn [hn] in Ehn.
            destruct (hp (firstn sz (skipn (Z.to_nat size) buf))) as [v|]; [|discriminate]. cbn [bind] in Ehn. injection Ehn as <-.
            rewrite nth_error_app2 by lia. rewrite Hdp, Nat.sub_diag. reflexivity. }
        rewrite Hval. destruct (hm (sread buf size (msize (f_ty f)))) as [v|er]; cbn [bind fst snd]; [|reflexivity].
        replace (dpre ++ (vs ++ rest) ++ dpost) with ((dpre ++ vs) ++ rest ++ dpost) by (now rewrite <- !app_assoc).
        rewrite (Hrun buf (dpre ++ vs) rest dpost _ Hlen).
        * replace (size + msize (f_ty f) - size) with (msize (f_ty f)) by lia. reflexivity.
        * rewrite app_length. lia.
        * exact Eu.
  Qed.

  Lemma items_run : forall B size slice uses items size' u,
    inclass B -> bsize B <= 9223372036854775807 -> 0 <= size -> 0 <= slice ->
    block_items c (map own B) size slice uses = Ok (items, size', u) ->
    size' = size + bsize B /\
    (u = false -> forall bs, unpack_fc c (bchars B) bs = Ok []) /\
    forall buf dpre drest st, size' <= zlen buf -> length dpre = Z.to_nat slice ->
      unpack_fc c (bchars B) (skipn (Z.to_nat size) buf) = Ok drest ->
      run_items rd buf (dpre ++ drest) items st = do r <- seq_block B buf size st; Ok (fst r).
  Proof.
    intros B size slice uses items size' u Hcl Hbig Hs Hsl H. destruct (items_run_x B size slice uses items size' u Hcl Hbig Hs Hsl H) as [A [Bq Cq]].
    split; [exact A|]. split; [exact Bq|]. intros buf dpre drest st Hlen Hdp Hun. pose proof (Cq buf dpre drest [] st Hlen Hdp Hun) as R. now rewrite app_nil_r in R.
  Qed.
  Lemma unpack_repeat_total p sz : fixed_scalar p = Some sz -> forall k l bs m,
    (forall bs', (m <= length bs')%nat -> exists d, unpack_fc c l bs' = Ok d) -> (k * sz + m <= length bs)%nat -> exists d, unpack_fc c (repeat (FP p) k ++ l) bs = Ok d.
  Proof.
    intros Hfs. destruct (fixed_read e p sz Hfs) as [g Hg]. induction k as [|k IH]; intros l bs m Hl Hlen; cbn [repeat app]; [apply Hl; cbn in Hlen; lia|].
    cbn [unpack_fc]. fold e. rewrite Hg. unfold split_at. assert (Nat.leb sz (length bs) = true) as -> by (apply Nat.leb_le; cbn in Hlen; lia). cbn [bind fst snd].
    destruct (IH l (skipn sz bs) m Hl) as [d Hd]; [rewrite skipn_length; cbn in Hlen; lia|]. rewrite Hd. cbn [bind]. eauto.
  Qed.
  Lemma unpack_total : forall B bs, inclass B -> bsize B <= 9223372036854775807 -> bsize B <= zlen bs -> exists d, unpack_fc c (bchars B) bs = Ok d.
  Proof.
    induction B as [|f r IH]; intros bs Hcl Hbig Hlen; [now exists []|]. inversion Hcl as [|? ? Hf Hr]; subst.
    cbn [bsize fold_right] in Hbig, Hlen. fold (bsize r) in Hbig, Hlen. pose proof (bsize_nonneg r) as Hbn. pose proof (msize_nonneg (f_ty f)) as Hmn.
    destruct (bmem (f_ty f)) as [[p cnt]|] eqn:Ep; [|contradiction].
    destruct (bmem_facts _ _ _ Ep ltac:(lia)) as [sz [hp [hm [Hm [Hsz [Hms [Hcnt [Hts [Hk _]]]]]]]]].
    assert (Hpz : psz p = Z.of_nat sz) by (unfold psz; now rewrite Hsz).
    set (n' := match cnt with Some k => k | None => 1 end) in *. assert (Hn' : 0 <= n') by (unfold n'; destruct cnt; lia).
    rewrite bchars_cons. unfold own. rewrite Ep. fold n'. destruct (is_packed p) eqn:Epk; cbn [fst snd].
    - assert (Hfs : fixed_scalar p = Some sz) by (destruct p as [? ? ?|?| | |?|]; cbn in *; congruence).
      apply (unpack_repeat_total p sz Hfs (Z.to_nat n') (bchars r) bs (Z.to_nat (bsize r))).
      + intros bs' Hb. apply IH; [exact Hr|lia|unfold zlen; lia].
      + unfold zlen in Hlen. nia.
    - rewrite Hpz, <- Hms, unpack_skip. apply IH; [exact Hr|lia|]. unfold zlen in *. rewrite skipn_length. lia.
  Qed.

  Lemma seq_block_end : forall B s q st st' q', 0 <= q -> inclass B -> bsize B <= 9223372036854775807 -> seq_block B s q st = Ok (st', q') -> q' = q + bsize B.
  Proof.
    induction B as [|f r IH]; intros s q st st' q' Hq Hcl Hbig H; cbn [seq_block] in H.
    - injection H as _ <-. cbn. lia.
    - inversion Hcl as [|? ? Hf Hr]; subst. cbn [bsize fold_right] in Hbig |- *. fold (bsize r) in Hbig |- *. pose proof (bsize_nonneg r). pose proof (msize_nonneg (f_ty f)).
      destruct (bmem (f_ty f)) as [[p cnt]|] eqn:Ep; [|contradiction].
      destruct (bmem_facts _ _ _ Ep ltac:(lia)) as [sz [hp [hm [_ [_ [_ [_ [_ [_ [_ [Hslc _]]]]]]]]]]].
      unfold rd in H. destruct (read_ty c fuel (f_ty f) s q (p_ctx st)) as [[v p']|] eqn:Er; [|discriminate]. cbn [bind fst snd] in H.
      destruct (sliced_ok _ _ _ _ _ _ _ _ Hslc Hq Er) as [-> _]. apply IH in H; [lia|lia|exact Hr|lia].
  Qed.
  Lemma seq_block_short : forall B s q st, 0 <= q -> inclass B -> bsize B <= 9223372036854775807 -> zlen (srest s q) < bsize B -> exists er, seq_block B s q st = Err er.
  Proof.
    induction B as [|f r IH]; intros s q st Hq Hcl Hbig H; cbn [bsize fold_right] in H, Hbig.
    - pose proof (zlen_nonneg (srest s q)). lia.
    - fold (bsize r) in H, Hbig. inversion Hcl as [|? ? Hf Hr]; subst. pose proof (bsize_nonneg r). pose proof (msize_nonneg (f_ty f)).
      destruct (bmem (f_ty f)) as [[p cnt]|] eqn:Ep; [|contradiction].
      destruct (bmem_facts _ _ _ Ep ltac:(lia)) as [sz [hp [hm [_ [_ [_ [_ [_ [_ [_ [Hslc _]]]]]]]]]]].
      cbn [seq_block]. unfold rd. destruct (read_ty c fuel (f_ty f) s q (p_ctx st)) as [[v p']|] eqn:Er; cbn [bind fst snd]; [|eauto].
      destruct (sliced_ok _ _ _ _ _ _ _ _ Hslc Hq Er) as [-> [Hen _]]. apply IH; [lia|exact Hr|lia|]. rewrite zlen_srest in * by lia. lia.
  Qed.
  (* reading the members from the block's buffer is reading them from the stream *)
  Lemma seq_block_buf : forall B s pos n a st, 0 <= pos -> 0 <= a -> n <= zlen (srest s pos) -> a + bsize B <= n -> inclass B -> bsize B <= 9223372036854775807 ->
    seq_block B s (pos + a) st = do r <- seq_block B (sread s pos n) a st; Ok (fst r, pos + snd r).
  Proof.
    induction B as [|f r IH]; intros s pos n a st Hp Ha Hn Hfit Hcl Hbig; cbn [seq_block bind fst snd]; [reflexivity|].
    inversion Hcl as [|? ? Hf Hr]; subst. cbn [bsize fold_right] in Hfit, Hbig. fold (bsize r) in Hfit, Hbig. pose proof (bsize_nonneg r) as Hbn. pose proof (msize_nonneg (f_ty f)) as Hmn.
    destruct (bmem (f_ty f)) as [[p cnt]|] eqn:Ep; [|contradiction].
    destruct (bmem_facts _ _ _ Ep ltac:(lia)) as [sz [hp [hm [_ [_ [_ [_ [_ [_ [_ [[_ Hslc] _]]]]]]]]]]].
    unfold rd. assert (Hzb : zlen (sread s pos n) = n) by (apply zlen_sread; lia).
    destruct (Hslc s (pos + a) (p_ctx st) ltac:(lia)) as [He1 _]. destruct (Hslc (sread s pos n) a (p_ctx st) Ha) as [He2 _].
    rewrite He1 by (rewrite zlen_srest in * by lia; lia). rewrite He2 by (rewrite zlen_srest by lia; lia). rewrite sread_sread by lia.
    destruct (hm (sread s (pos + a) (msize (f_ty f)))) as [v|er]; cbn [bind fst snd]; [|reflexivity].
    replace (pos + a + msize (f_ty f)) with (pos + (a + msize (f_ty f))) by lia. rewrite (IH s pos n (a + msize (f_ty f))) by (try assumption; lia).
    replace (pos + (a + msize (f_ty f)) - (pos + a)) with (a + msize (f_ty f) - a) by lia. reflexivity.
  Qed.

  Definition set_pos (st : pstate) (q : Z) : pstate := mkPS q (p_bb st) (p_vals st) (p_sizes st) (p_ctx st).
  Lemma own_counts B : inclass B -> bsize B <= 9223372036854775807 -> Forall (fun x : Z * fc => 0 <= fst x) (map (fun x => (snd (fst x), snd x)) (map own B)).
  Proof.
    induction B as [|f r IH]; intros Hcl Hbig; cbn [map]; constructor.
    - inversion Hcl as [|? ? Hf Hr]; subst. cbn [bsize fold_right] in Hbig. fold (bsize r) in Hbig. pose proof (bsize_nonneg r).
      unfold own. destruct (bmem (f_ty f)) as [[p cnt]|] eqn:Ep; [|contradiction]. destruct (bmem_facts _ _ _ Ep ltac:(pose proof (msize_nonneg (f_ty f)); lia)) as [sz [hp [hm [_ [_ [_ [Hcnt _]]]]]]].
      pose proof (psz_nonneg p). destruct (is_packed p); cbn [fst snd]; destruct cnt; nia.
    - inversion Hcl; subst. cbn [bsize fold_right] in Hbig. fold (bsize r) in Hbig. pose proof (msize_nonneg (f_ty f)). apply IH; [assumption|lia].
  Qed.

  (* ONE stream.read of the block's size, ONE struct.unpack of the optimised format, members taken by index or sliced out of the buffer:
     exactly reading the members one after the other from the stream (same values, recorded sizes, context, end position; fails iff that fails) *)
  Theorem block_sound B i : inclass B ->
    contig (match B with f :: _ => f_off f | [] => None end) B -> gen_block c false B = Ok i -> bsize B <= 9223372036854775807 ->
    forall s o al st, 0 <= p_pos st ->
      req (run_instr c rd s o al i st) (do r <- seq_block B s (p_pos st) st; Ok (set_pos (fst r) (snd r))).
  Proof.
    intros Hcl Hc H Hbig s o al st Hp. unfold gen_block in H. rewrite (struct_info_members B _ 0 Hcl Hbig Hc) in H. cbn [bind] in H.
    destruct (block_items c (map own B) 0 0 false) as [[[items size] uses]|] eqn:E; [|discriminate]. cbn [bind] in H. injection H as <-.
    destruct (items_run B 0 0 false items size uses Hcl Hbig ltac:(lia) ltac:(lia) E) as [Hsize [Hu Hrun]]. rewrite Z.add_0_l in Hsize. subst size.
    pose proof (bsize_nonneg B) as Hbn.
    cbn [run_instr]. unfold sread_exact.
    destruct (Z.ltb_spec 9223372036854775807 (bsize B)) as [L|_]; [lia|].
    destruct (Z.leb_spec (bsize B) (zlen (srest s (p_pos st)))) as [L|L]; cbn [bind].
    - set (buf := sread s (p_pos st) (bsize B)).
      assert (Hzb : zlen buf = bsize B) by (apply zlen_sread; lia).
      rewrite expand_optimize by (apply own_counts; assumption). fold (bchars B).
      destruct (unpack_total B buf Hcl Hbig ltac:(lia)) as [d Hd].
      assert (Hdata : exists d', (if negb (negb uses && match optimize_fmt (map (fun x => (snd (fst x), snd x)) (map own B)) with [(n, FX)] => (1 <=? n) && (n <=? 9) | _ => false end)
                                  then unpack_fc c (bchars B) buf else Ok []) = Ok d' /\ unpack_fc c (bchars B) buf = Ok d').
      { destruct (negb _) eqn:En; [eauto|]. exists []. split; [reflexivity|]. apply Hu. apply Bool.negb_false_iff, andb_prop in En as [En _]. now apply Bool.negb_true_iff in En. }
      destruct Hdata as [d' [-> Hd']]. cbn [bind].
      pose proof (Hrun buf [] d' st ltac:(lia) eq_refl Hd') as R. cbn [app] in R. rewrite R.
      pose proof (seq_block_buf B s (p_pos st) (bsize B) 0 st Hp ltac:(lia) L ltac:(lia) Hcl Hbig) as SB. rewrite Z.add_0_r in SB. fold buf in SB.
      rewrite SB. destruct (seq_block B buf 0 st) as [[st' q]|er] eqn:E2; cbn [bind fst snd req]; [|exact I].
      apply seq_block_end in E2; [|lia|exact Hcl|exact Hbig]. subst q. unfold set_pos. f_equal; lia.
    - destruct (seq_block_short B s (p_pos st) st Hp Hcl Hbig L) as [er ->]. exact I.
  Qed.
End Block.


(* ---------- D. the generated plan against the interpreted structure loop ---------- *)
Lemma req_bind' {A B} (a a' : result A) (f f' : A -> result B) : req a a' -> (forall x, a' = Ok x -> req (f x) (f' x)) -> req (bind a f) (bind a' f').
Proof. destruct a, a'; cbn; intros H Hf; subst; auto; contradiction. Qed.
Lemma req_bind {A B} (a a' : result A) (f f' : A -> result B) : req a a' -> (forall x, req (f x) (f' x)) -> req (bind a f) (bind a' f').
Proof. destruct a, a'; cbn; intros H Hf; subst; auto; contradiction. Qed.

Section Plan.
  Variable c : cfg.
  Variable fuel : nat.
  Let e := c_endian c.
  Let rd := fun f : field => read_ty c fuel (f_ty f).
  Variable s : list Z.
  Variable start : Z.
  Variable cal : Z.

  Lemma run_instrs_app p1 p2 st : run_instrs c rd s start cal (p1 ++ p2) st = do st' <- run_instrs c rd s start cal p1 st; run_instrs c rd s start cal p2 st'.
  Proof. revert st. induction p1 as [|i r IH]; intros st; cbn [app run_instrs bind]; [reflexivity|]. destruct (run_instr c rd s start cal i st); cbn [bind]; [apply IH|reflexivity]. Qed.

  (* one member as the interpreted loop reads it: at its offset from the start of the structure when it has one, else where the stream is;
     a bit field through the bit buffer, any other member with its own reader (after which the bit buffer is empty) *)
  Definition read_member (f : field) (st : pstate) : result pstate :=
    let q := match f_off f with Some fo => start + fo | None => p_pos st end in
    match bits_on f with
    | Some nb =>
      do x <- bb_read e s q (p_bb st) (bit_storage (f_ty f)) nb;
      let '(v, bb', pos') := x in
      Ok (mkPS pos' bb' ((f_name f, VInt v) :: p_vals st) (p_sizes st) ((f_name f, v) :: p_ctx st))
    | None =>
      do x <- rd f s q (p_ctx st);
      Ok (mkPS (snd x) bb_empty ((f_name f, fst x) :: p_vals st) ((f_name f, snd x - q) :: p_sizes st) (int_ctx (f_name f) (fst x) (p_ctx st)))
    end.
  Fixpoint seq_loop (fs : list field) (st : pstate) : result pstate :=
    match fs with [] => Ok st | f :: r => do st' <- read_member f st; seq_loop r st' end.
  Definition seq_blockS (B : list field) (st : pstate) : result pstate :=
    do r <- seq_block c fuel B s (p_pos st) st; Ok (set_pos (fst r) (snd r)).

  Definition is_sub (t : ty) : bool :=
    match t with
    | TStruct _ _ _ | TUnion _ _ _ => true
    | TArr (TStruct _ _ _) _ | TArr (TUnion _ _ _) _ | TArr (TArr _ _) _ => true
    | TArr _ _ => is_none (ty_size c t)
    | _ => false
    end.
  (* the layout loop over the fields as the class holds them afterwards: each step gives the field the offset it carries *)
  Definition lstep (lst : lstate) (f : field) : result (lstate * option Z) :=
    layout_step false lst None (f_bits f) (bit_storage (f_ty f)) (ty_size c (f_ty f)) (field_align c f).
  Fixpoint lay_run (lst : lstate) (fs : list field) : Prop :=
    match fs with
    | [] => True
    | f :: r => exists lst', lstep lst f = Ok (lst', f_off f) /\ lay_run lst' r
    end.
  Lemma lstep_plain lst f : f_bits f = None -> lstep lst f =
    Ok (mkLS (match ls_off lst, ty_size c (f_ty f) with Some o, Some n => Some (o + n) | _, _ => None end) (Z.max (ls_align lst) (field_align c f)) None (Some 0) 0, ls_off lst).
  Proof. intros Hb. unfold lstep, layout_step. rewrite Hb. destruct (ls_off lst) as [o|]; [destruct (ty_size c (f_ty f))|]; reflexivity. Qed.

  Lemma seq_block_app : forall B f q st,
    seq_block c fuel (B ++ [f]) s q st =
    do r <- seq_block c fuel B s q st; do x <- rd f s (snd r) (p_ctx (fst r)); Ok (push (fst r) (f_name f) (fst x) (snd x - snd r), snd x).
  Proof.
    induction B as [|g r IH]; intros f q st; cbn [app seq_block bind fst snd].
    - unfold rd. destruct (read_ty c fuel (f_ty f) s q (p_ctx st)) as [[v p]|]; reflexivity.
    - destruct (read_ty c fuel (f_ty g) s q (p_ctx st)) as [[v p]|]; cbn [bind fst snd]; [apply IH|reflexivity].
  Qed.
  Lemma seq_block_pos : forall B q st st' q', seq_block c fuel B s q st = Ok (st', q') -> p_pos st' = p_pos st /\ p_bb st' = p_bb st.
  Proof.
    induction B as [|g r IH]; intros q st st' q' H; cbn [seq_block] in H; [injection H as <- _; auto|].
    destruct (read_ty c fuel (f_ty g) s q (p_ctx st)) as [[v p]|]; [|discriminate]. cbn [bind fst snd] in H. apply IH in H. cbn in H. exact H.
  Qed.

  Lemma contig_app : forall B cur f, contig c cur B ->
    (match f_off f with None => True | Some o => fold_left (fun cu g => option_map (Z.add (msize c (f_ty g))) cu) B cur = Some o end) ->
    contig c cur (B ++ [f]).
  Proof.
    induction B as [|g r IH]; intros cur f Hc Hf; cbn [app contig fold_left] in *; [split; [exact Hf|exact I]|].
    destruct Hc as [H1 H2]. split; [exact H1|]. apply IH; assumption.
  Qed.
  Lemma plan_step_plain f st p cnt : bmem c (f_ty f) = Some (p, cnt) -> msize c (f_ty f) <= 9223372036854775807 -> f_bits f = None -> g_pbits st = false ->
    (forall o, f_off f = Some o -> g_block st <> [] -> o = g_off st) ->
    plan_step c false f st =
      (let '(ia, stA) := match g_block st with [] => align_to_field c false f st | _ => ([], st) end in
       Ok (ia, mkGS (g_off stA + msize c (f_ty f)) (g_block stA ++ [f]) (g_pbits stA) (g_btype stA) (g_brem stA) false (g_known stA))).
  Proof.
    intros Hp Hbig Hb Hpb Hoff. destruct (bmem_facts c fuel _ _ _ Hp Hbig) as [sz [hp [hm [_ [_ [_ [_ [_ [_ [_ [_ [_ [_ [Hsup [Hsz Hshape]]]]]]]]]]]]]]].
    pose proof (msize_nonneg c (f_ty f)) as Hnn.
    unfold plan_step. rewrite Hsup, Hpb, Hsz. cbn [negb andb]. assert (msize c (f_ty f) <? 0 = false) as -> by (apply Z.ltb_ge; lia).
    unfold bits_on. rewrite Hb.
    destruct st as [go gb gp gt gr gl gk]; cbn [g_block g_off g_pbits g_btype g_brem g_roll g_known has_block] in *.
    destruct (f_off f) as [o|] eqn:Eo.
    - destruct gb as [|g0 gb].
      + destruct (unwrap (f_ty f)) as [q al|b al fl ms|tg|el len|nm fs al|nm fs al]; try contradiction; try (destruct el; try contradiction); cbn [is_none has_block g_block andb bind fst snd app];
          unfold align_to_field; rewrite Eo; cbn [g_off g_known g_block andb is_none app]; destruct (negb (o =? go) || negb gk);
          cbn [bind fst snd app g_off g_block g_pbits g_btype g_brem g_roll g_known is_none orb]; reflexivity.
      + pose proof (Hoff o eq_refl ltac:(discriminate)) as ->.
        destruct (unwrap (f_ty f)) as [q al|b al fl ms|tg|el len|nm fs al|nm fs al]; try contradiction; try (destruct el; try contradiction);
          cbn [is_none has_block g_block g_off andb bind fst snd app]; rewrite Z.ltb_irrefl;
          cbn [bind fst snd app g_off g_block g_pbits g_btype g_brem g_roll g_known is_none orb]; reflexivity.
    - destruct gb as [|g0 gb];
        destruct (unwrap (f_ty f)) as [q al|b al fl ms|tg|el len|nm fs al|nm fs al]; try contradiction; try (destruct el; try contradiction); cbn [is_none has_block g_block andb bind fst snd app];
        unfold align_to_field; rewrite ?Eo; cbn [bind fst snd app g_off g_block g_pbits g_btype g_brem g_roll g_known is_none orb andb]; reflexivity.
  Qed.
  Definition after_sub (f : field) (stc : gstate) : gstate :=
    mkGS (match ty_size c (f_ty f) with Some n => g_off stc + n | None => g_off stc end) (g_block stc) (g_pbits stc) (g_btype stc) (g_brem stc)
         (match ty_size c (f_ty f) with Some _ => false | None => g_roll stc end) false.
  Lemma plan_step_sub f st P st' : is_sub (f_ty f) = true -> f_bits f = None -> g_pbits st = false -> plan_step c false f st = Ok (P, st') ->
    exists Pb stb, flush c false st = Ok (Pb, stb) /\
      P = Pb ++ fst (align_to_field c false f stb) ++ [ISub f] /\ st' = after_sub f (snd (align_to_field c false f stb)).
  Proof.
    intros Hs Hb Hpb H. unfold plan_step in H.
    assert (Hu : unwrap (f_ty f) = f_ty f) by (destruct (f_ty f); try discriminate; reflexivity). rewrite Hu in H.
    assert (Hsup : supported (f_ty f) = true) by (destruct (f_ty f); try discriminate; reflexivity). rewrite Hsup, Hpb in H. cbn [negb andb] in H.
    destruct (match ty_size c (f_ty f) with Some n => n <? 0 | None => false end); [discriminate|].
    assert (K : forall (body : result (list instr * gstate)),
              body = (do fl <- flush c false st; let '(ia, st1) := align_to_field c false f (snd fl) in Ok (fst fl ++ ia ++ [ISub f], set_known st1 false)) ->
              (do body0 <- body; let '(ib, stb) := body0 in
               let stf := match ty_size c (f_ty f) with
                          | Some n => if is_none (bits_on f) || g_roll stb then mkGS (g_off stb + n) (g_block stb) (g_pbits stb) (g_btype stb) (g_brem stb) false (g_known stb) else stb
                          | None => stb end in Ok ([] ++ ib, stf)) = Ok (P, st') ->
              exists Pb stb, flush c false st = Ok (Pb, stb) /\ P = Pb ++ fst (align_to_field c false f stb) ++ [ISub f] /\ st' = after_sub f (snd (align_to_field c false f stb))).
    { intros body -> HH. destruct (flush c false st) as [[Pb stb]|]; [|discriminate]. cbn [bind fst snd] in HH. exists Pb, stb. split; [reflexivity|].
      destruct (align_to_field c false f stb) as [ia stc]. cbn [fst snd app] in *. unfold bits_on in HH. rewrite Hb in HH. cbn [is_none orb] in HH.
      unfold after_sub. destruct (ty_size c (f_ty f)); injection HH as <- <-; split; reflexivity. }
    destruct (f_ty f) as [q al|b al fl ms|tg|el len|nm fs al|nm fs al] eqn:Et; try discriminate.
    - (* arrays *)
      destruct el as [q al|b al fl ms|tg|el2 len2|nm fs al|nm fs al]; cbn [is_sub] in Hs; try rewrite Hs in H; cbn [is_none] in H; apply (K _ eq_refl H).
    - apply (K _ eq_refl H).
    - apply (K _ eq_refl H).
  Qed.
  Definition hoff (B : list field) : option Z := match B with f :: _ => f_off f | [] => None end.
  Definition cend (cur : option Z) (B : list field) : option Z :=
    fold_left (fun cu g => option_map (Z.add (msize c (f_ty g))) cu) B cur.
  Lemma set_pos_id st : set_pos st (p_pos st) = st. Proof. destruct st; reflexivity. Qed.

  Lemma flush_sound gst Pf gst2 st : inclass c (g_block gst) -> contig c (hoff (g_block gst)) (g_block gst) ->
    bsize c (g_block gst) <= 9223372036854775807 -> 0 <= p_pos st -> flush c false gst = Ok (Pf, gst2) ->
    req (run_instrs c rd s start cal Pf st) (seq_blockS (g_block gst) st) /\
    gst2 = mkGS (g_off gst) [] (g_pbits gst) (g_btype gst) (g_brem gst) (g_roll gst) (g_known gst).
  Proof.
    intros Hcl Hc Hb Hp H. unfold flush in H. destruct (g_block gst) as [|f0 B] eqn:EB.
    - injection H as <- <-. split; [|destruct gst; cbn in *; now subst]. cbn [run_instrs]. unfold seq_blockS. cbn [seq_block bind fst snd]. now rewrite set_pos_id.
    - destruct (gen_block c false (f0 :: B)) as [i|] eqn:Eg; [|discriminate]. cbn [bind] in H. injection H as <- <-. split; [|reflexivity].
      cbn [run_instrs]. pose proof (block_sound c fuel (f0 :: B) i Hcl Hc Eg Hb s start cal st Hp) as R. fold rd in R. unfold seq_blockS.
      destruct (run_instr c rd s start cal i st); cbn [bind]; exact R.
  Qed.

  Lemma bits_on_none f : f_bits f = None -> bits_on f = None.
  Proof. unfold bits_on. now intros ->. Qed.
  Lemma read_member_pos f st st' : bits_on f = None -> p_vals st = p_vals st' -> p_sizes st = p_sizes st' -> p_ctx st = p_ctx st' ->
    (f_off f = None -> p_pos st = p_pos st') -> read_member f st = read_member f st'.
  Proof. intros Hb H2 H3 H4 H5. unfold read_member. rewrite Hb, H2, H3, H4. destruct (f_off f); [reflexivity|]. now rewrite H5. Qed.

  Lemma blockS_snoc B f st : inclass c B -> bsize c B <= 9223372036854775807 -> 0 <= p_pos st -> bits_on f = None -> p_bb st = bb_empty ->
    (forall o, f_off f = Some o -> p_pos st + bsize c B = start + o) ->
    seq_blockS (B ++ [f]) st = do st1 <- seq_blockS B st; read_member f st1.
  Proof.
    intros Hcl Hbg Hp Hbn Hbb Ho. unfold seq_blockS. rewrite seq_block_app.
    destruct (seq_block c fuel B s (p_pos st) st) as [[st1 q1]|] eqn:E; cbn [bind fst snd]; [|reflexivity].
    pose proof (seq_block_end c fuel B s _ _ _ _ Hp Hcl Hbg E) as Hq. destruct (seq_block_pos B _ _ _ _ E) as [_ Hbb1].
    unfold read_member. rewrite Hbn. cbn [set_pos p_pos p_ctx p_bb p_vals p_sizes].
    assert (Hq' : (match f_off f with Some fo => start + fo | None => q1 end) = q1) by (destruct (f_off f) as [o|]; [rewrite <- (Ho o eq_refl); lia|reflexivity]).
    rewrite Hq'. destruct (rd f s q1 (p_ctx st1)) as [[v p]|]; [|reflexivity]. cbn [bind fst snd]. unfold push, set_pos. cbn [p_bb p_vals p_sizes p_ctx p_pos]. now rewrite Hbb1, Hbb.
  Qed.

  (* members handled by their own reader: where they leave the stream, and a size that is not negative *)
  Definition sub_ok (f : field) : Prop :=
    (forall n, ty_size c (f_ty f) = Some n -> 0 <= n) /\
    (forall s' pos ctx v p, 0 <= pos -> read_ty c fuel (f_ty f) s' pos ctx = Ok (v, p) -> 0 <= p).
  (* bit fields: an integer (or enum) storage type of known size *)
  Definition bits_ok (f : field) : Prop :=
    exists nb p al sz, f_bits f = Some nb /\ nb <> 0 /\ bit_storage (f_ty f) = Some (p, al) /\ prim_size p = Some sz /\ p <> PVoid /\
                       (match f_ty f with TPrim _ _ | TEnum _ _ _ _ => True | _ => False end).
  Definition cls' (f : field) : Prop :=
    (f_bits f = None /\ (bmem c (f_ty f) <> None \/ (is_sub (f_ty f) = true /\ sub_ok f))) \/ bits_ok f.

  Lemma cend_snoc cur B f : cend cur (B ++ [f]) = option_map (Z.add (msize c (f_ty f))) (cend cur B).
  Proof. unfold cend. now rewrite fold_left_app. Qed.
  Lemma bsize_snoc B f : bsize c (B ++ [f]) = bsize c B + msize c (f_ty f).
  Proof. induction B as [|g r IH]; cbn [app bsize fold_right]; [lia|]. fold (bsize c (r ++ [f])). fold (bsize c r). rewrite IH. lia. Qed.

  (* what one bit-field read does to the buffer and the stream position *)
  Lemma bb_read_shape pos bb p al nb v bb' pos' sz : prim_size p = Some sz -> 0 <= pos ->
    bb_read e s pos bb (Some (p, al)) nb = Ok (v, bb', pos') ->
    let nu := (bb_rem bb =? 0) || negb (storage_eqb (bb_type bb) (Some (p, al))) in
    bb_type bb' = (if nu then Some (p, al) else bb_type bb) /\ bb_rem bb' = (if nu then Z.of_nat sz * 8 else bb_rem bb) - nb /\
    pos' = (if nu then pos + Z.of_nat sz else pos).
  Proof.
    intros Hsz Hp H. cbv zeta. unfold bb_read in H. destruct ((bb_rem bb =? 0) || negb (storage_eqb (bb_type bb) (Some (p, al)))).
    - unfold prim_size_z in H. rewrite Hsz in H. cbn [option_map] in H.
      destruct (prim_read_at e p s pos) as [[x q]|] eqn:Er; [|discriminate]. cbn [bind fst snd] in H.
      destruct (value_as_unit (e =? "<")%string x) as [u|]; [|discriminate]. cbn [bind] in H.
      assert (Hq : q = pos + Z.of_nat sz).
      { destruct (prim_split e p sz Hsz) as [h Hh]. rewrite (prim_read_at_spec e p sz h Hsz Hh s pos Hp) in Er.
        destruct (Z.of_nat sz <=? zlen (srest s pos)); [|discriminate]. destruct (h _); [|discriminate]. cbn in Er. now injection Er as _ <-. }
      cbn [bb_rem bb_type bb_buf] in H. destruct (Z.of_nat sz * 8 <? nb); [discriminate|].
      destruct (e =? "<")%string; injection H as _ <- <-; cbn [bb_type bb_rem]; auto.
    - cbn [bind] in H. destruct (bb_rem bb <? nb); [discriminate|]. destruct (e =? "<")%string; injection H as _ <- <-; cbn [bb_type bb_rem]; auto.
  Qed.
  Definition clear_bits (st : gstate) : gstate := mkGS (g_off st) (g_block st) false (g_btype st) 0 (g_roll st) (g_known st).
  (* a member that is not a bit field after a run of bit fields: bit_reader.reset() first, then as if the run had not been *)
  Lemma plan_step_after_bits f st : g_pbits st = true -> bits_on f = None ->
    plan_step c false f st = do r <- plan_step c false f (clear_bits st); Ok (IReset :: fst r, snd r).
  Proof.
    intros Hpb Hb. destruct st as [go gb gp gt gr gl gk]. cbn [g_pbits] in Hpb. subst gp. unfold clear_bits. cbn [g_off g_block g_pbits g_btype g_brem g_roll g_known].
    unfold plan_step. rewrite Hb. cbn [andb is_none g_pbits g_off g_block g_btype g_brem g_roll g_known].
    set (st0 := mkGS go gb false gt 0 gl gk).
    destruct (negb (supported (unwrap (f_ty f)))); [reflexivity|].
    destruct (match ty_size c (unwrap (f_ty f)) with Some n => n <? 0 | None => false end); [reflexivity|].
    match goal with |- bind ?X _ = _ => destruct X as [[ib stb]|] end; reflexivity.
  Qed.

  Lemma plan_step_bits f st nb p al sz : f_bits f = Some nb -> nb <> 0 -> bit_storage (f_ty f) = Some (p, al) -> prim_size p = Some sz -> p <> PVoid ->
    (match f_ty f with TPrim _ _ | TEnum _ _ _ _ => True | _ => False end) ->
    plan_step c false f st =
      (let new_unit := negb (g_pbits st) || (g_brem st =? 0) || negb (storage_eqb (g_btype st) (Some (p, al))) in
       let st1 := if new_unit then mkGS (g_off st) (g_block st) (g_pbits st) (Some (p, al)) (Z.of_nat sz * 8) true (g_known st) else st in
       let st2 := mkGS (g_off st1) (g_block st1) true (g_btype st1) (g_brem st1 - nb) (g_roll st1) (g_known st1) in
       do fl <- flush c false st2;
       let '(ia, st3) := align_to_field c false f (snd fl) in
       Ok (fst fl ++ ia ++ [IBits f nb],
           if g_roll st3 then mkGS (g_off st3 + Z.of_nat sz) (g_block st3) (g_pbits st3) (g_btype st3) (g_brem st3) false (g_known st3) else st3)).
  Proof.
    intros Hb Hnz Hst Hsz Hnv Hshape. unfold plan_step.
    assert (Hbo : bits_on f = Some nb) by (unfold bits_on; rewrite Hb; destruct (Z.eqb_spec nb 0); [contradiction|reflexivity]).
    rewrite Hbo. cbn [is_none]. rewrite Bool.andb_false_r.
    assert (Hft : unwrap (f_ty f) = TPrim p al) by (destruct (f_ty f); try contradiction; cbn in Hst; injection Hst as <- <-; reflexivity).
    rewrite Hft. cbn [supported ty_size bit_storage].
    assert (Hsup : (match p with PLeb _ => false | _ => true end) = true) by (destruct p; try reflexivity; discriminate).
    rewrite Hsup. cbn [negb]. unfold prim_size_z. rewrite Hsz. cbn [option_map]. assert (Z.of_nat sz <? 0 = false) as -> by (apply Z.ltb_ge; lia).
    cbv zeta. cbn [is_none orb].
    match goal with |- bind (bind ?X _) _ = bind ?Y _ => change Y with X; destruct X as [[Pb stb]|] end; [|reflexivity]. cbn [bind fst snd].
    destruct (align_to_field c false f stb) as [ia st3]. cbn [bind fst snd app]. reflexivity.
  Qed.
  Lemma prim_eqb_sym p q : prim_eqb p q = prim_eqb q p.
  Proof.
    destruct p, q; cbn; try reflexivity.
    - rewrite (Nat.eqb_sym size size0). destruct signed, signed0, packed, packed0; reflexivity.
    - apply Nat.eqb_sym.
    - destruct signed, signed0; reflexivity.
  Qed.
  Lemma storage_eqb_sym a b : storage_eqb a b = storage_eqb b a.
  Proof. destruct a as [[p x]|], b as [[q y]|]; cbn; try reflexivity. now rewrite (Z.eqb_sym x y), (prim_eqb_sym p q). Qed.

  (* what the generator state, the layout state and the reader state know about each other between two members *)
  Definition inv (gst : gstate) (lst : lstate) (st : pstate) : Prop :=
    inclass c (g_block gst) /\ contig c (hoff (g_block gst)) (g_block gst) /\
    (g_block gst <> [] -> cend (hoff (g_block gst)) (g_block gst) = ls_off lst) /\
    (forall x, ls_off lst = Some x -> 0 <= x /\ g_off gst = x /\ (g_block gst <> [] -> g_known gst = true)) /\
    (g_known gst = true -> p_pos st + bsize c (g_block gst) = start + g_off gst) /\
    g_roll gst = false /\
    (g_pbits gst = false -> ls_brem lst = 0 /\ p_bb st = bb_empty) /\
    (g_pbits gst = true -> g_block gst = [] /\ ls_brem lst = g_brem gst /\ ls_btype lst = g_btype gst /\ bb_rem (p_bb st) = g_brem gst /\ bb_type (p_bb st) = g_btype gst /\
       exists bp bal bs, g_btype gst = Some (bp, bal) /\ prim_size bp = Some bs /\ forall x, ls_off lst = Some x -> ls_boff lst = Some (x - Z.of_nat bs)).

  Lemma storage_eqb_eq a b : storage_eqb a b = true -> a = b.
  Proof.
    destruct a as [[p x]|], b as [[q y]|]; cbn; intros H; try discriminate; [|reflexivity]. apply andb_prop in H as [Hp Hx]. apply Z.eqb_eq in Hx. now rewrite (prim_eqb_eq _ _ Hp), Hx.
  Qed.
  Lemma storage_eqb_refl' a : storage_eqb a a = true.
  Proof. destruct a as [[p x]|]; cbn; [|reflexivity]. rewrite Z.eqb_refl, andb_true_r. destruct p; cbn; rewrite ?Nat.eqb_refl, ?Bool.eqb_reflx; reflexivity. Qed.

  (* the layout step of a bit field: it opens a unit (and gets the running offset) or continues the open one (and gets none) *)
  Lemma lstep_bits_new lst f nb p al sz lst' fo : f_bits f = Some nb -> nb <> 0 -> bit_storage (f_ty f) = Some (p, al) -> prim_size p = Some sz ->
    (ls_brem lst = 0 \/ storage_eqb (Some (p, al)) (ls_btype lst) = false) -> lstep lst f = Ok (lst', fo) ->
    fo = ls_off lst /\ nb <= Z.of_nat sz * 8 /\
    lst' = mkLS (match ls_off lst with Some o => Some (o + Z.of_nat sz) | None => None end) (Z.max (ls_align lst) (field_align c f)) (Some (p, al)) (ls_off lst) (Z.of_nat sz * 8 - nb).
  Proof.
    intros Hb Hnz Hst Hsz Hnew H. unfold lstep, layout_step in H. rewrite Hb, Hst in H. assert (nb =? 0 = false) as E0 by now apply Z.eqb_neq. rewrite E0 in H.
    assert (Hnu : (if ls_brem lst =? 0 then Ok true else if negb (storage_eqb (Some (p, al)) (ls_btype lst)) then Ok true else
                    match ls_btype lst with None => Ok false | Some (bp, _) => match match ls_off lst with Some o => Some o | None => None end with None => Ok false | Some o => match ls_boff lst, prim_size_z bp with Some bo, Some bs => Ok (bo + bs <? o) | _, _ => Err EType end end end) = Ok true).
    { destruct Hnew as [-> | ->]; [reflexivity|]. destruct (ls_brem lst =? 0); reflexivity. }
    destruct (ls_off lst) as [o|] eqn:Eo; cbn [bind] in H |- *.
    - rewrite Hnu in H. cbn [bind] in H. unfold prim_size_z in H. rewrite Hsz in H. cbn [option_map bind ls_brem ls_off ls_align ls_btype ls_boff] in H.
      destruct (Z.ltb_spec (Z.of_nat sz * 8 - nb) 0); [discriminate|]. injection H as <- <-. repeat split; lia || reflexivity.
    - rewrite Hnu in H. cbn [bind] in H. unfold prim_size_z in H. rewrite Hsz in H. cbn [option_map bind ls_brem ls_off ls_align ls_btype ls_boff] in H.
      destruct (Z.ltb_spec (Z.of_nat sz * 8 - nb) 0); [discriminate|]. injection H as <- <-. repeat split; lia || reflexivity.
  Qed.
  Lemma lstep_bits_cont lst f nb p al bs lst' fo : f_bits f = Some nb -> nb <> 0 -> bit_storage (f_ty f) = Some (p, al) ->
    ls_brem lst <> 0 -> ls_btype lst = Some (p, al) -> prim_size p = Some bs -> (forall x, ls_off lst = Some x -> ls_boff lst = Some (x - Z.of_nat bs)) ->
    lstep lst f = Ok (lst', fo) ->
    fo = None /\ nb <= ls_brem lst /\ lst' = mkLS (ls_off lst) (Z.max (ls_align lst) (field_align c f)) (ls_btype lst) (ls_boff lst) (ls_brem lst - nb).
  Proof.
    intros Hb Hnz Hst Hbr Hbt Hsz Hbo H. unfold lstep, layout_step in H. rewrite Hb, Hst in H. assert (nb =? 0 = false) as E0 by now apply Z.eqb_neq. rewrite E0 in H.
    assert (ls_brem lst =? 0 = false) as E1 by now apply Z.eqb_neq. rewrite E1, Hbt in H.
    assert (Hse : storage_eqb (Some (p, al)) (Some (p, al)) = true) by (cbn; rewrite Z.eqb_refl, andb_true_r; destruct p; cbn; rewrite ?Nat.eqb_refl, ?Bool.eqb_reflx; reflexivity).
    rewrite Hse in H. cbn [negb] in H. unfold prim_size_z in H. rewrite Hsz in H. cbn [option_map] in H.
    destruct (ls_off lst) as [o|] eqn:Eo.
    - rewrite (Hbo o eq_refl) in H. assert (o - Z.of_nat bs + Z.of_nat bs <? o = false) as E2 by (apply Z.ltb_ge; lia). rewrite E2 in H. cbn [bind ls_brem ls_off ls_align ls_btype ls_boff] in H.
      destruct (Z.ltb_spec (ls_brem lst - nb) 0); [discriminate|]. injection H as <- <-. rewrite Hbt, (Hbo o eq_refl). repeat split; lia || reflexivity.
    - cbn [bind ls_brem ls_off ls_align ls_btype ls_boff] in H. destruct (Z.ltb_spec (ls_brem lst - nb) 0); [discriminate|]. injection H as <- <-. rewrite Hbt. repeat split; lia || reflexivity.
  Qed.

  Lemma plan_loop : forall fs lst gst st P gst' Pf gst'',
    Forall cls' fs -> lay_run lst fs -> inv gst lst st ->
    0 <= p_pos st -> 0 <= start ->
    bsize c (g_block gst) + bsize c fs <= 9223372036854775807 ->
    plan_go c false fs gst = Ok (P, gst') -> flush c false gst' = Ok (Pf, gst'') ->
    req (run_instrs c rd s start cal (P ++ Pf) st) (do st1 <- seq_blockS (g_block gst) st; seq_loop fs st1).
  Proof.
    induction fs as [|f r IH]; intros lst gst st P gst' Pf gst'' Hcls Hlay Hinv Hpos Hstart Hbound HP HF.
    - destruct Hinv as [HB [Hcont _]]. cbn [plan_go] in HP. injection HP as <- <-. cbn [app seq_loop]. cbn [bsize fold_right] in Hbound.
      destruct (flush_sound gst Pf gst'' st HB Hcont ltac:(lia) Hpos HF) as [R _].
      destruct (seq_blockS (g_block gst) st); cbn [bind]; exact R.
    - inversion Hcls as [|? ? Hkind Hcr]; subst. destruct Hlay as [lst' [Hls Hlay]].
      cbn [plan_go] in HP. destruct (plan_step c false f gst) as [[P1 gst1]|] eqn:E1; [|discriminate]. cbn [bind fst snd] in HP.
      destruct (plan_go c false r gst1) as [[P2 gst2]|] eqn:E2; [|discriminate]. cbn [bind fst snd] in HP. injection HP as <- <-.
      pose proof (bsize_nonneg c fuel (g_block gst)) as HbB. pose proof (bsize_nonneg c fuel r) as Hbr.
      cbn [bsize fold_right] in Hbound. fold (bsize c r) in Hbound.
      destruct Hkind as [[Hbits Hkind]|Hbf].
      + (* ---------- a member that is not a bit field ---------- *)
        pose proof (bits_on_none f Hbits) as Hbo.
        rewrite (lstep_plain lst f Hbits) in Hls. injection Hls as <- Hfo. symmetry in Hfo.
        (* leave a run of bit fields first: bit_reader.reset() *)
        assert (Hnorm : exists gstN stN PN P1', g_pbits gstN = false /\ g_off gstN = g_off gst /\ g_block gstN = g_block gst /\ g_known gstN = g_known gst /\ g_roll gstN = false /\
                  p_bb stN = bb_empty /\ p_pos stN = p_pos st /\ p_vals stN = p_vals st /\ p_sizes stN = p_sizes st /\ p_ctx stN = p_ctx st /\
                  plan_step c false f gstN = Ok (P1', gst1) /\ P1 = PN ++ P1' /\ run_instrs c rd s start cal PN st = Ok stN /\ (g_block gst <> [] -> stN = st)).
        { destruct Hinv as [_ [_ [_ [_ [_ [Hroll [Hi1 Hi2]]]]]]]. destruct (g_pbits gst) eqn:Epb.
          - rewrite (plan_step_after_bits f gst Epb Hbo) in E1. destruct (plan_step c false f (clear_bits gst)) as [[P1' g1]|] eqn:E1'; [|discriminate]. cbn [bind fst snd] in E1. injection E1 as <- <-.
            destruct (Hi2 eq_refl) as [Hblk _].
            exists (clear_bits gst), (mkPS (p_pos st) bb_empty (p_vals st) (p_sizes st) (p_ctx st)), [IReset], P1'. cbn [clear_bits g_pbits g_off g_block g_known g_roll p_bb p_pos p_vals p_sizes p_ctx].
            repeat split; try reflexivity; try assumption. intros Hne. now rewrite Hblk in Hne.
          - destruct (Hi1 eq_refl) as [_ Hbb]. exists gst, st, [], P1. repeat split; try reflexivity; try assumption. }
        destruct Hnorm as [gstN [stN [PN [P1' [Hpb [HgoN [HblkN [HknN [Hroll [HbbN [HposN [HvN [HszN [HcxN [E1' [-> [HrunN HsameN]]]]]]]]]]]]]]]]].
        rewrite <- !app_assoc, run_instrs_app, HrunN. cbn [bind].
        destruct Hinv as [HB [Hcont [Hcend [Hoff [Hknown _]]]]]. rewrite <- HblkN in HB, Hcont, Hcend, Hoff, Hknown, Hbound, HbB. rewrite <- HgoN, <- HknN in Hoff. rewrite <- HgoN, <- HknN, <- HposN in Hknown.
        assert (HposN' : 0 <= p_pos stN) by lia.
        (* the interpreted side does not see the difference *)
        assert (HrhsN : (do st1 <- seq_blockS (g_block gst) st; seq_loop (f :: r) st1) = (do st1 <- seq_blockS (g_block gstN) stN; seq_loop (f :: r) st1)).
        { rewrite HblkN. destruct (g_block gst) as [|b0 B0] eqn:EB; [|now rewrite (HsameN ltac:(discriminate))].
          unfold seq_blockS. cbn [seq_block bind fst snd seq_loop]. rewrite !set_pos_id. now rewrite (read_member_pos f st stN Hbo (eq_sym HvN) (eq_sym HszN) (eq_sym HcxN) (fun _ => eq_sym HposN)). }
        rewrite HrhsN. clear HrhsN HrunN HsameN E1. rename E1' into E1.
        set (off := ls_off lst) in *.
        set (lst' := mkLS (match off with Some o => match ty_size c (f_ty f) with Some n => Some (o + n) | None => None end | None => None end) (Z.max (ls_align lst) (field_align c f)) None (Some 0) 0) in *.
        destruct (bmem c (f_ty f)) as [[p cnt]|] eqn:Ep.
        * (* a scalar or an array of scalars: joins the block *)
          clear Hkind. pose proof (msize_nonneg c (f_ty f)) as Hpz. assert (Hmb : msize c (f_ty f) <= 9223372036854775807) by lia.
          destruct (bmem_facts c fuel _ _ _ Ep Hmb) as [sz0 [hp0 [hm0 [_ [_ [_ [_ [Hts _]]]]]]]].
          unfold lst' in *. rewrite Hts in *. clear lst'. set (lst' := mkLS (match off with Some o => Some (o + msize c (f_ty f)) | None => None end) (Z.max (ls_align lst) (field_align c f)) None (Some 0) 0) in *.
          assert (Hcond : forall o, f_off f = Some o -> g_block gstN <> [] -> o = g_off gstN).
          { intros o Ho _. rewrite Hfo in Ho. now destruct (Hoff o Ho) as [_ [-> _]]. }
          rewrite (plan_step_plain f gstN p cnt Ep Hmb Hbits Hpb Hcond) in E1.
          assert (Htail : forall g x, g_roll g = false -> g_pbits g = false -> p_bb x = bb_empty ->
                    g_roll g = false /\ (g_pbits g = false -> ls_brem lst' = 0 /\ p_bb x = bb_empty) /\
                    (g_pbits g = true -> g_block g = [] /\ ls_brem lst' = g_brem g /\ ls_btype lst' = g_btype g /\ bb_rem (p_bb x) = g_brem g /\ bb_type (p_bb x) = g_btype g /\
                       exists bp bal bs, g_btype g = Some (bp, bal) /\ prim_size bp = Some bs /\ forall y, ls_off lst' = Some y -> ls_boff lst' = Some (y - Z.of_nat bs))).
          { intros g x H1 H2 H3. split; [exact H1|]. split; [intros _; split; [reflexivity|exact H3]|]. intros H4. congruence. }
          destruct (g_block gstN) as [|b0 B] eqn:EB.
          -- (* the block starts here *)
             unfold align_to_field in E1. cbn [andb app] in E1.
             destruct (f_off f) as [o|] eqn:Eo.
             ++ destruct (Hoff o (eq_sym Hfo)) as [Ho0 [Hgo _]]. subst o.
                assert (Hsk : (negb (g_off gstN =? g_off gstN) || negb (g_known gstN)) = negb (g_known gstN)) by now rewrite Z.eqb_refl.
                rewrite Hsk in E1.
                destruct (g_known gstN) eqn:Ek; cbn [negb app] in E1; injection E1 as <- <-.
                ** cbn [app]. pose proof (Hknown eq_refl) as Hk. cbn [bsize fold_right] in Hk.
                   refine (req_trans _ _ _ (IH lst' _ stN _ _ _ _ Hcr Hlay _ HposN' Hstart _ E2 HF) _); cbn [g_pbits g_block g_off g_known g_roll app hoff]; rewrite ?EB; cbn [app hoff bsize fold_right].
                   --- unfold inv. cbn [g_pbits g_block g_off g_known g_roll g_btype g_brem]. rewrite ?EB. cbn [app hoff bsize fold_right ls_off lst'].
                       split; [unfold inclass; constructor; [congruence|constructor]|]. split; [cbn [contig]; rewrite Eo; split; [reflexivity|exact I]|].
                       split; [intros _; unfold cend; cbn [fold_left]; rewrite Eo, <- Hfo; cbn [option_map]; f_equal; lia|].
                       split; [intros x Hx; rewrite <- Hfo in Hx; injection Hx as <-; repeat split; try lia; intros _; exact Ek|].
                       split; [intros _; lia|]. (split; [reflexivity|]; split; [intros _; split; [reflexivity|exact HbbN]|]; intros Hx; congruence).
                   --- lia.
                   --- assert (Hs : seq_blockS [f] stN = do st1 <- seq_blockS [] stN; read_member f st1)
                         by (apply (blockS_snoc [] f stN (Forall_nil _) ltac:(cbn [bsize fold_right]; lia) HposN' Hbo HbbN); intros o Ho; rewrite Eo in Ho; injection Ho as <-; cbn [bsize fold_right]; lia).
                       rewrite Hs. apply req_refl.
                ** cbn [app run_instrs run_instr bind].
                   set (st' := mkPS (start + g_off gstN) (p_bb stN) (p_vals stN) (p_sizes stN) (p_ctx stN)).
                   assert (Hpos' : 0 <= p_pos st') by (cbn [p_pos st']; lia).
                   refine (req_trans _ _ _ (IH lst' _ st' _ _ _ _ Hcr Hlay _ Hpos' Hstart _ E2 HF) _); cbn [g_pbits g_block g_off g_known g_roll app hoff p_pos st']; rewrite ?EB; cbn [app hoff bsize fold_right].
                   --- unfold inv. cbn [g_pbits g_block g_off g_known g_roll g_btype g_brem]. rewrite ?EB. cbn [app hoff bsize fold_right ls_off lst' p_pos st'].
                       split; [unfold inclass; constructor; [congruence|constructor]|]. split; [cbn [contig]; rewrite Eo; split; [reflexivity|exact I]|].
                       split; [intros _; unfold cend; cbn [fold_left]; rewrite Eo, <- Hfo; cbn [option_map]; f_equal; lia|].
                       split; [intros x Hx; rewrite <- Hfo in Hx; injection Hx as <-; repeat split; try lia; intros _; reflexivity|].
                       split; [intros _; lia|]. (split; [reflexivity|]; split; [intros _; split; [reflexivity|exact HbbN]|]; intros Hx; congruence).
                   --- lia.
                   --- assert (Hs : seq_blockS [f] st' = do st1 <- seq_blockS [] st'; read_member f st1)
                         by (apply (blockS_snoc [] f st' (Forall_nil _) ltac:(cbn [bsize fold_right]; lia) Hpos' Hbo HbbN); cbn [p_pos st' bsize fold_right]; intros o Ho; rewrite Eo in Ho; injection Ho as <-; lia).
                       rewrite Hs. unfold seq_blockS. cbn [seq_block bind fst snd]. rewrite !set_pos_id.
                       rewrite (read_member_pos f st' stN Hbo) by (try reflexivity; intros Hn; rewrite Eo in Hn; discriminate). apply req_refl.
             ++ cbn [app] in E1. injection E1 as <- <-. cbn [app].
                refine (req_trans _ _ _ (IH lst' _ stN _ _ _ _ Hcr Hlay _ HposN' Hstart _ E2 HF) _); cbn [g_pbits g_block g_off g_known g_roll app hoff]; rewrite ?EB; cbn [app hoff bsize fold_right].
                ** unfold inv. cbn [g_pbits g_block g_off g_known g_roll g_btype g_brem]. rewrite ?EB. cbn [app hoff bsize fold_right ls_off lst'].
                   split; [unfold inclass; constructor; [congruence|constructor]|]. split; [cbn [contig]; rewrite Eo; split; [exact I|exact I]|].
                   split; [intros _; unfold cend; cbn [fold_left]; rewrite Eo, <- Hfo; reflexivity|].
                   split; [intros x Hx; rewrite <- Hfo in Hx; discriminate|].
                   split; [intros Hk; pose proof (Hknown Hk) as Hk'; cbn [bsize fold_right] in Hk'; lia|]. (split; [reflexivity|]; split; [intros _; split; [reflexivity|exact HbbN]|]; intros Hx; congruence).
                ** lia.
                ** assert (Hs : seq_blockS [f] stN = do st1 <- seq_blockS [] stN; read_member f st1)
                     by (apply (blockS_snoc [] f stN (Forall_nil _) ltac:(cbn [bsize fold_right]; lia) HposN' Hbo HbbN); intros o Ho; rewrite Eo in Ho; discriminate).
                   rewrite Hs. apply req_refl.
          -- (* the block goes on *)
             injection E1 as <- <-. cbn [app]. rewrite <- EB in *.
             assert (Hne : g_block gstN <> []) by (rewrite EB; discriminate).
             refine (req_trans _ _ _ (IH lst' _ stN _ _ _ _ Hcr Hlay _ HposN' Hstart _ E2 HF) _); cbn [g_pbits g_block g_off g_known g_roll].
             ++ unfold inv. cbn [g_pbits g_block g_off g_known g_roll g_btype g_brem ls_off lst'].
                split; [unfold inclass in *; apply Forall_app; split; [exact HB|]; constructor; [congruence|constructor]|].
                assert (Hh : hoff (g_block gstN ++ [f]) = hoff (g_block gstN)) by (rewrite EB; reflexivity). rewrite Hh.
                split; [apply contig_app; [exact Hcont|]; destruct (f_off f) as [o|] eqn:Eo; [|exact I]; fold (cend (hoff (g_block gstN)) (g_block gstN)); rewrite (Hcend Hne); now rewrite Hfo|].
                split; [intros _; rewrite cend_snoc, (Hcend Hne); destruct off; cbn [option_map]; [f_equal; lia|reflexivity]|].
                split; [intros x Hx; destruct off as [x0|]; [|discriminate]; injection Hx as <-; destruct (Hoff x0 eq_refl) as [H0 [Hg Hk]]; repeat split; [lia|lia|]; intros _; now apply Hk|].
                split; [intros Hk; rewrite bsize_snoc; pose proof (Hknown Hk); lia|]. (split; [reflexivity|]; split; [intros _; split; [reflexivity|exact HbbN]|]; intros Hx; congruence).
             ++ rewrite bsize_snoc. lia.
             ++ rewrite (blockS_snoc (g_block gstN) f stN HB ltac:(lia) HposN' Hbo HbbN).
                ** destruct (seq_blockS (g_block gstN) stN); cbn [bind seq_loop]; apply req_refl.
                ** intros o Ho. rewrite Hfo in Ho. destruct (Hoff o Ho) as [_ [Hg Hk]]. rewrite <- Hg. apply Hknown. now apply Hk.
        * (* a member with a reader of its own *)
          destruct Hkind as [Hk|[Hsub [Hsz Hnn]]]; [congruence|].
          assert (Hm0 : msize c (f_ty f) = 0) by (unfold msize; now rewrite Ep). rewrite Hm0 in Hbound.
          destruct (plan_step_sub f gstN P1' gst1 Hsub Hbits Hpb E1) as [Pb [stb [Hfl [-> ->]]]].
          destruct (flush_sound gstN Pb stb stN HB Hcont ltac:(lia) HposN' Hfl) as [RB ->].
          rewrite <- !app_assoc, run_instrs_app. cbn [seq_loop].
          apply req_bind'; [exact RB|]. intros st1 Est1.
          assert (Hp1 : p_pos st1 = p_pos stN + bsize c (g_block gstN) /\ p_bb st1 = bb_empty).
          { unfold seq_blockS in Est1. destruct (seq_block c fuel (g_block gstN) s (p_pos stN) stN) as [[sx qx]|] eqn:Eq; [|discriminate]. cbn [bind fst snd] in Est1. injection Est1 as <-.
            cbn [set_pos p_pos p_bb]. split; [exact (seq_block_end c fuel _ _ _ _ _ _ HposN' HB ltac:(lia) Eq)|]. destruct (seq_block_pos _ _ _ _ _ Eq) as [_ ->]. exact HbbN. }
          destruct Hp1 as [Hp1 Hbb1].
          set (stb := mkGS (g_off gstN) [] (g_pbits gstN) (g_btype gstN) (g_brem gstN) (g_roll gstN) (g_known gstN)) in *.
          assert (Hrun : exists stc q, snd (align_to_field c false f stb) = stc /\ g_block stc = [] /\ g_pbits stc = false /\ g_roll stc = false /\
                     (forall x, f_off f = Some x -> g_off stc = x) /\ 0 <= q /\
                     read_member f st1 = (do x <- rd f s q (p_ctx st1);
                                          Ok (mkPS (snd x) bb_empty ((f_name f, fst x) :: p_vals st1) ((f_name f, snd x - q) :: p_sizes st1) (int_ctx (f_name f) (fst x) (p_ctx st1)))) /\
                     forall rest, run_instrs c rd s start cal (fst (align_to_field c false f stb) ++ ISub f :: rest) st1 =
                       do st2 <- read_member f st1; run_instrs c rd s start cal rest st2).
          { unfold align_to_field, read_member. rewrite Hbo. cbn [andb app]. destruct (f_off f) as [o|] eqn:Eo.
            - destruct (Hoff o (eq_sym Hfo)) as [H0 [Hgo Hkn]]. cbn [g_off g_known stb]. rewrite Hgo, Z.eqb_refl. cbn [negb orb].
              destruct (g_known gstN) eqn:Ek; cbn [negb fst snd app].
              + exists stb, (start + o). split; [reflexivity|]. cbn [stb g_block g_pbits g_off g_roll]. split; [reflexivity|]. split; [exact Hpb|]. split; [exact Hroll|]. split; [intros x Hx; congruence|]. split; [lia|]. split; [reflexivity|].
                intros rest. cbn [run_instrs run_instr].
                assert (Hq : p_pos st1 = start + o) by (rewrite Hp1, (Hknown eq_refl); lia). rewrite Hq, Hbb1.
                destruct (rd f s (start + o) (p_ctx st1)) as [[v p']|]; reflexivity.
              + eexists. exists (start + o). split; [reflexivity|]. cbn [g_block g_pbits g_off g_roll]. split; [reflexivity|]. split; [exact Hpb|]. split; [exact Hroll|]. split; [intros x Hx; congruence|]. split; [lia|]. split; [reflexivity|].
                intros rest. cbn [run_instrs run_instr bind p_pos p_ctx p_bb p_vals p_sizes]. rewrite Hbb1.
                destruct (rd f s (start + o) (p_ctx st1)) as [[v p']|]; reflexivity.
            - exists stb, (p_pos st1). split; [reflexivity|]. cbn [stb g_block g_pbits g_off g_roll fst snd app]. split; [reflexivity|]. split; [exact Hpb|]. split; [exact Hroll|]. split; [intros x Hx; discriminate|]. split; [lia|]. split; [reflexivity|].
              intros rest. cbn [run_instrs run_instr]. rewrite Hbb1. destruct (rd f s (p_pos st1) (p_ctx st1)) as [[v p']|]; reflexivity. }
          destruct Hrun as [stc [q [Estc [Hcb [Hcp [Hcr' [Hco [Hq0 [Hrm Hrun]]]]]]]]]. rewrite Estc in *.
          replace (fst (align_to_field c false f stb) ++ [ISub f] ++ P2 ++ Pf) with (fst (align_to_field c false f stb) ++ ISub f :: (P2 ++ Pf)) by reflexivity.
          rewrite Hrun. apply req_bind'; [apply req_refl|]. intros st2 Est2.
          assert (Hp2 : 0 <= p_pos st2 /\ p_bb st2 = bb_empty).
          { rewrite Hrm in Est2. destruct (rd f s q (p_ctx st1)) as [[v p']|] eqn:Er; [|discriminate]. cbn [bind fst snd] in Est2. injection Est2 as <-.
            cbn [p_pos p_bb]. split; [exact (Hnn _ _ _ _ _ Hq0 Er)|reflexivity]. }
          destruct Hp2 as [Hp2 Hbb2].
          refine (req_trans _ _ _ (IH lst' (after_sub f stc) st2 _ _ _ _ Hcr Hlay _ Hp2 Hstart _ E2 HF) _); unfold after_sub; cbn [g_pbits g_block g_off g_known g_roll]; rewrite ?Hcb.
          -- unfold inv, after_sub. cbn [g_pbits g_block g_off g_known g_roll g_btype g_brem ls_off lst']. rewrite ?Hcb.
             split; [constructor|]. split; [exact I|]. split; [intros Hne; now contradiction Hne|].
             split. { intros x Hx. destruct off as [x0|] eqn:Eoff; [|discriminate]. destruct (ty_size c (f_ty f)) as [n|] eqn:En; [|discriminate]. injection Hx as <-.
                      destruct (Hoff x0 eq_refl) as [H0 _]. pose proof (Hsz n eq_refl). rewrite (Hco x0 Hfo). repeat split; try lia. intros Hne. now contradiction Hne. }
             split; [discriminate|]. split; [destruct (ty_size c (f_ty f)); [reflexivity|exact Hcr']|].
             split; [intros _; split; [reflexivity|exact Hbb2]|]. intros Hx. congruence.
          -- cbn [bsize fold_right]. lia.
          -- unfold seq_blockS. cbn [seq_block bind fst snd]. rewrite set_pos_id. apply req_refl.
      + (* ---------- a bit field ---------- *)
        destruct Hbf as [nb [p [al [sz [Hb [Hnz [Hst [Hsz [Hnv Hshape]]]]]]]]].
        assert (Hbo : bits_on f = Some nb) by (unfold bits_on; rewrite Hb; destruct (Z.eqb_spec nb 0); [contradiction|reflexivity]).
        pose proof (msize_nonneg c (f_ty f)) as Hmz.
        rewrite (plan_step_bits f gst nb p al sz Hb Hnz Hst Hsz Hnv Hshape) in E1. cbv zeta in E1.
        destruct Hinv as [HB [Hcont [Hcend [Hoff [Hknown [Hroll [Hi1 Hi2]]]]]]].
        set (nuG := negb (g_pbits gst) || (g_brem gst =? 0) || negb (storage_eqb (g_btype gst) (Some (p, al)))) in *.
        set (st1 := if nuG then mkGS (g_off gst) (g_block gst) (g_pbits gst) (Some (p, al)) (Z.of_nat sz * 8) true (g_known gst) else gst) in *.
        assert (Hst1 : g_off st1 = g_off gst /\ g_block st1 = g_block gst /\ g_known st1 = g_known gst /\ g_roll st1 = nuG /\
                       g_btype st1 = (if nuG then Some (p, al) else g_btype gst) /\ g_brem st1 = (if nuG then Z.of_nat sz * 8 else g_brem gst)).
        { unfold st1. destruct nuG; cbn [g_off g_block g_known g_roll g_btype g_brem]; repeat split; try reflexivity. exact Hroll. }
        destruct Hst1 as [H1o [H1b [H1k [H1r [H1t H1m]]]]].
        set (st2 := mkGS (g_off st1) (g_block st1) true (g_btype st1) (g_brem st1 - nb) (g_roll st1) (g_known st1)) in *.
        destruct (flush c false st2) as [[Pb stb]|] eqn:Hfl; [|discriminate]. cbn [bind fst snd] in E1.
        assert (HB2 : inclass c (g_block st2)) by (cbn [st2 g_block]; now rewrite H1b).
        assert (Hc2 : contig c (hoff (g_block st2)) (g_block st2)) by (cbn [st2 g_block]; now rewrite H1b).
        destruct (flush_sound st2 Pb stb st HB2 Hc2 ltac:(cbn [st2 g_block]; rewrite H1b; lia) Hpos Hfl) as [RB Estb]. cbn [st2 g_off g_pbits g_btype g_brem g_roll g_known g_block] in RB, Estb.
        rewrite H1b in RB. rewrite H1o, H1k, H1r, H1t, H1m in Estb.
        destruct (align_to_field c false f stb) as [ia st3] eqn:Eal. cbn [bind fst snd] in E1. injection E1 as <- <-.
        rewrite <- !app_assoc, run_instrs_app. cbn [seq_loop].
        apply req_bind'; [exact RB|]. intros st1' Est1.
        assert (Hp1 : p_pos st1' = p_pos st + bsize c (g_block gst) /\ p_bb st1' = p_bb st).
        { unfold seq_blockS in Est1. destruct (seq_block c fuel (g_block gst) s (p_pos st) st) as [[sx qx]|] eqn:Eq; [|discriminate]. cbn [bind fst snd] in Est1. injection Est1 as <-.
          cbn [set_pos p_pos p_bb]. split; [exact (seq_block_end c fuel _ _ _ _ _ _ Hpos HB ltac:(lia) Eq)|]. now destruct (seq_block_pos _ _ _ _ _ Eq). }
        destruct Hp1 as [Hp1 Hbb1].
        (* the three decisions - generator, layout, bit buffer - agree *)
        set (nuR := (bb_rem (p_bb st) =? 0) || negb (storage_eqb (bb_type (p_bb st)) (Some (p, al)))).
        assert (Hagree : nuR = nuG /\ (nuG = true -> ls_brem lst = 0 \/ storage_eqb (Some (p, al)) (ls_btype lst) = false) /\
                         (nuG = false -> g_pbits gst = true /\ ls_brem lst <> 0 /\ ls_btype lst = Some (p, al) /\ g_btype gst = Some (p, al) /\ g_block gst = [] /\
                                          bb_rem (p_bb st) = g_brem gst /\ ls_brem lst = g_brem gst /\ forall x, ls_off lst = Some x -> ls_boff lst = Some (x - Z.of_nat sz))).
        { unfold nuR, nuG. destruct (g_pbits gst) eqn:Epb; cbn [negb orb].
          - destruct (Hi2 eq_refl) as [Hblk [Hlb [Hlt [Hrb [Hrt [bp [bal [bs [Hgt [Hbs Hbo']]]]]]]]]]. rewrite Hrb, Hrt.
            split; [reflexivity|]. split.
            + intros Hn. apply Bool.orb_true_iff in Hn as [Hn|Hn]; [left; apply Z.eqb_eq in Hn; lia|right]. rewrite Hlt, storage_eqb_sym. now apply Bool.negb_true_iff in Hn.
            + intros Hn. apply Bool.orb_false_iff in Hn as [Hn1 Hn2]. apply Z.eqb_neq in Hn1. apply Bool.negb_false_iff in Hn2. apply storage_eqb_eq in Hn2.
              rewrite Hn2 in Hgt. injection Hgt as <- <-. rewrite Hsz in Hbs. injection Hbs as <-. rewrite Hlt, Hn2. repeat split; try assumption; try reflexivity; lia.
          - destruct (Hi1 eq_refl) as [Hlb Hbb]. rewrite Hbb. cbn [bb_rem bb_empty Z.eqb orb]. split; [reflexivity|]. split; [intros _; now left|discriminate]. }
        destruct Hagree as [HnuR [Hnew Hcont']].
        assert (Hstq : bit_storage (f_ty f) = Some (p, al)) by exact Hst.
        (* reading the field, in both readers: the same bit-buffer read at the same position *)
        assert (Hrm : forall q, q = (match f_off f with Some fo => start + fo | None => p_pos st1' end) ->
                  read_member f st1' = (do x <- bb_read e s q (p_bb st) (Some (p, al)) nb; let '(v, bb', pos') := x in
                                        Ok (mkPS pos' bb' ((f_name f, VInt v) :: p_vals st1') (p_sizes st1') ((f_name f, v) :: p_ctx st1')))).
        { intros q ->. unfold read_member. now rewrite Hbo, Hstq, Hbb1. }
        destruct nuG eqn:EnuG.
        * (* ----- the field opens a storage unit ----- *)
          destruct (lstep_bits_new lst f nb p al sz lst' (f_off f) Hb Hnz Hst Hsz (Hnew eq_refl) Hls) as [Hfo [Hfit ->]].
          cbn [st2] in Estb. subst stb.
          assert (Hrun : exists st3' q, st3 = st3' /\ g_block st3' = [] /\ g_pbits st3' = true /\ g_roll st3' = true /\ g_btype st3' = Some (p, al) /\ g_brem st3' = Z.of_nat sz * 8 - nb /\
                     (forall x, ls_off lst = Some x -> g_off st3' = x) /\ (ls_off lst = None -> g_off st3' = g_off gst /\ g_known st3' = g_known gst) /\
                     q = (match f_off f with Some fo => start + fo | None => p_pos st1' end) /\ 0 <= q /\ (g_known st3' = true -> q = start + g_off st3') /\
                     forall rest, run_instrs c rd s start cal (ia ++ IBits f nb :: rest) st1' = do st2' <- read_member f st1'; run_instrs c rd s start cal rest st2').
          { unfold align_to_field in Eal. cbn [andb app g_off g_known] in Eal. destruct (f_off f) as [o|] eqn:Eo.
            - destruct (Hoff o (eq_sym Hfo)) as [H0 [Hgo Hkn]]. rewrite Hgo, Z.eqb_refl in Eal. cbn [negb orb] in Eal.
              destruct (g_known gst) eqn:Ek; cbn [negb app] in Eal; injection Eal as <- <-.
              + eexists. exists (start + o). split; [reflexivity|]. cbn [g_block g_pbits g_roll g_btype g_brem g_off g_known].
                split; [reflexivity|]. split; [reflexivity|]. split; [reflexivity|]. split; [reflexivity|]. split; [reflexivity|].
                split; [intros x Hx; rewrite <- Hfo in Hx; injection Hx as <-; first [exact Hgo|reflexivity]|]. split; [intros Hn; rewrite <- Hfo in Hn; discriminate|].
                split; [reflexivity|]. split; [lia|]. split; [intros _; first [now rewrite Hgo|reflexivity]|].
                intros rest. cbn [app run_instrs run_instr]. rewrite (Hrm (start + o) eq_refl), Hstq, Hbb1.
                assert (Hq : p_pos st1' = start + o) by (rewrite Hp1, (Hknown eq_refl); lia). rewrite Hq.
                fold e. destruct (bb_read e s (start + o) (p_bb st) (Some (p, al)) nb) as [[[v bb'] pos']|]; reflexivity.
              + eexists. exists (start + o). split; [reflexivity|]. cbn [g_block g_pbits g_roll g_btype g_brem g_off g_known].
                split; [reflexivity|]. split; [reflexivity|]. split; [reflexivity|]. split; [reflexivity|]. split; [reflexivity|].
                split; [intros x Hx; rewrite <- Hfo in Hx; injection Hx as <-; reflexivity|]. split; [intros Hn; rewrite <- Hfo in Hn; discriminate|].
                split; [reflexivity|]. split; [lia|]. split; [intros _; reflexivity|].
                intros rest. cbn [app run_instrs run_instr bind p_pos p_bb p_vals p_sizes p_ctx]. rewrite (Hrm (start + o) eq_refl), Hstq, Hbb1.
                fold e. destruct (bb_read e s (start + o) (p_bb st) (Some (p, al)) nb) as [[[v bb'] pos']|]; reflexivity.
            - cbn [app] in Eal. injection Eal as <- <-. eexists. exists (p_pos st1'). split; [reflexivity|]. cbn [g_block g_pbits g_roll g_btype g_brem g_off g_known].
              split; [reflexivity|]. split; [reflexivity|]. split; [reflexivity|]. split; [reflexivity|]. split; [reflexivity|].
              split; [intros x Hx; rewrite <- Hfo in Hx; discriminate|]. split; [intros _; split; reflexivity|].
              split; [reflexivity|]. split; [lia|]. split; [intros Hk; rewrite Hp1; apply Hknown; exact Hk|].
              intros rest. cbn [app run_instrs run_instr]. rewrite (Hrm (p_pos st1') eq_refl), Hstq, Hbb1.
              fold e. destruct (bb_read e s (p_pos st1') (p_bb st) (Some (p, al)) nb) as [[[v bb'] pos']|]; reflexivity. }
          destruct Hrun as [st3' [q [-> [H3b [H3p [H3r [H3t [H3m [H3o [H3n [Hq [Hq0 [Hqk Hrun]]]]]]]]]]]]].
          replace (ia ++ [IBits f nb] ++ P2 ++ Pf) with (ia ++ IBits f nb :: (P2 ++ Pf)) by reflexivity.
          rewrite Hrun. apply req_bind'; [apply req_refl|]. intros st2' Est2. rewrite (Hrm q Hq) in Est2.
          destruct (bb_read e s q (p_bb st) (Some (p, al)) nb) as [[[v bb'] pos']|] eqn:Ebr; [|discriminate]. cbn [bind] in Est2. injection Est2 as <-.
          destruct (bb_read_shape q (p_bb st) p al nb v bb' pos' sz Hsz Hq0 Ebr) as [Sbt [Sbr Spos]]. fold nuR in Sbt, Sbr, Spos. rewrite HnuR in Sbt, Sbr, Spos.
          rewrite H3r in E2.
          refine (req_trans _ _ _ (IH _ _ _ _ _ _ _ Hcr Hlay _ _ Hstart _ E2 HF) _); cbn [g_pbits g_block g_off g_known g_roll g_btype g_brem p_pos p_bb]; rewrite ?H3b.
          -- unfold inv. cbn [g_pbits g_block g_off g_known g_roll g_btype g_brem p_pos p_bb ls_off ls_brem ls_btype ls_boff]. rewrite ?H3b, ?H3p, ?H3t, ?H3m.
             split; [constructor|]. split; [exact I|]. split; [intros Hne; now contradiction Hne|].
             split. { intros x Hx. destruct (ls_off lst) as [o|] eqn:Eoff; [|discriminate]. injection Hx as <-. destruct (Hoff o eq_refl) as [H0 _]. rewrite (H3o o eq_refl). repeat split; try lia. intros Hne. now contradiction Hne. }
             split. { intros Hk. cbn [bsize fold_right]. rewrite Spos, (Hqk Hk). lia. }
             split; [reflexivity|]. split; [discriminate|]. intros _.
             split; [reflexivity|]. split; [reflexivity|]. split; [reflexivity|]. split; [exact Sbr|]. split; [exact Sbt|].
             exists p, al, sz. split; [reflexivity|]. split; [exact Hsz|]. intros x Hx. destruct (ls_off lst) as [o|]; [|discriminate]. injection Hx as <-. f_equal. lia.
          -- rewrite Spos. lia.
          -- cbn [bsize fold_right]. lia.
          -- unfold seq_blockS. cbn [seq_block bind fst snd]. rewrite set_pos_id. apply req_refl.
        * (* ----- the field continues the open unit ----- *)
          destruct (Hcont' eq_refl) as [Epb [Hlb0 [Hlt [Hgt [Hblk [Hrb [Hlb Hbo']]]]]]].
          destruct (lstep_bits_cont lst f nb p al sz lst' (f_off f) Hb Hnz Hst Hlb0 Hlt Hsz Hbo' Hls) as [Hfo [Hfit ->]].
          cbn [st2] in Estb. subst stb.
          unfold align_to_field in Eal. rewrite Hfo in Eal. cbn [andb app] in Eal. injection Eal as <- <-.
          cbn [app g_roll]. rewrite Hblk in *. cbn [bsize fold_right] in Hp1. rewrite Z.add_0_r in Hp1.
          assert (Hrun : forall rest, run_instrs c rd s start cal (IBits f nb :: rest) st1' = do st2' <- read_member f st1'; run_instrs c rd s start cal rest st2').
          { intros rest. cbn [run_instrs run_instr]. rewrite (Hrm (p_pos st1')) by now rewrite Hfo. rewrite Hstq, Hbb1.
            fold e. destruct (bb_read e s (p_pos st1') (p_bb st) (Some (p, al)) nb) as [[[v bb'] pos']|]; reflexivity. }
          replace ([IBits f nb] ++ P2 ++ Pf) with (IBits f nb :: (P2 ++ Pf)) by reflexivity.
          rewrite Hrun. apply req_bind'; [apply req_refl|]. intros st2' Est2. rewrite (Hrm (p_pos st1')) in Est2 by now rewrite Hfo.
          destruct (bb_read e s (p_pos st1') (p_bb st) (Some (p, al)) nb) as [[[v bb'] pos']|] eqn:Ebr; [|discriminate]. cbn [bind] in Est2. injection Est2 as <-.
          assert (Hq0 : 0 <= p_pos st1') by lia.
          destruct (bb_read_shape (p_pos st1') (p_bb st) p al nb v bb' pos' sz Hsz Hq0 Ebr) as [Sbt [Sbr Spos]]. fold nuR in Sbt, Sbr, Spos. rewrite HnuR in Sbt, Sbr, Spos.
          refine (req_trans _ _ _ (IH _ _ _ _ _ _ _ Hcr Hlay _ _ Hstart _ E2 HF) _); cbn [g_pbits g_block g_off g_known g_roll g_btype g_brem p_pos p_bb].
          -- unfold inv. cbn [g_pbits g_block g_off g_known g_roll g_btype g_brem p_pos p_bb ls_off ls_brem ls_btype ls_boff].
             split; [constructor|]. split; [exact I|]. split; [intros Hne; now contradiction Hne|].
             split. { intros x Hx. destruct (Hoff x Hx) as [H0 [Hg _]]. repeat split; try assumption. intros Hne. now contradiction Hne. }
             split. { intros Hk. cbn [bsize fold_right]. rewrite Spos, Hp1. pose proof (Hknown Hk) as Hk'. cbn [bsize fold_right] in Hk'. lia. }
             split; [reflexivity|]. split; [discriminate|]. intros _.
             split; [reflexivity|]. split; [lia|]. split; [now rewrite Hlt, Hgt|]. split; [rewrite Sbr; lia|].
             destruct (Hi2 Epb) as [_ [_ [_ [_ [Hrt _]]]]]. split; [now rewrite Sbt|].
             exists p, al, sz. split; [exact Hgt|]. split; [exact Hsz|]. exact Hbo'.
          -- rewrite Spos. lia.
          -- cbn [bsize fold_right]. lia.
          -- unfold seq_blockS. cbn [seq_block bind fst snd]. rewrite set_pos_id. apply req_refl.
  Qed.

  (* the interpreted structure loop, member by member *)
  Lemma struct_loop_seq : forall fs offs pos bb vals sizes lctx, length offs = length fs ->
    struct_loop e false start (map (fun f => (meta_of c f, rd f)) fs) offs s pos bb vals sizes lctx =
    do st <- seq_loop (set_offsets fs offs) (mkPS pos bb vals sizes lctx); Ok (rev (p_vals st), rev (p_sizes st), p_pos st).
  Proof.
    induction fs as [|f r IH]; intros offs pos bb vals sizes lctx Hlen.
    - destruct offs; reflexivity.
    - destruct offs as [|o ro]; [discriminate|]. destruct f as [n a t b o0].
      cbn [map struct_loop set_offsets seq_loop meta_of fm_bits fm_name fm_storage f_bits f_name f_ty]. unfold read_member, bits_on. cbn [f_off f_name f_bits f_ty p_pos p_ctx p_bb p_vals p_sizes].
      assert (Hl : length ro = length r) by (cbn in Hlen; lia).
      destruct b as [nb|].
      + destruct (nb =? 0).
        * unfold rd. cbn [f_ty]. destruct (read_ty c fuel t s match o with Some fo => start + fo | None => pos end lctx) as [[v p]|]; cbn [bind fst snd]; [|reflexivity]. fold rd. now apply IH.
        * fold e. destruct (bb_read e s match o with Some fo => start + fo | None => pos end bb (bit_storage t) nb) as [[[v bb'] pos']|]; cbn [bind]; [|reflexivity]. now apply IH.
      + unfold rd. cbn [f_ty]. destruct (read_ty c fuel t s match o with Some fo => start + fo | None => pos end lctx) as [[v p]|]; cbn [bind fst snd]; [|reflexivity]. fold rd. now apply IH.
  Qed.
End Plan.


(* ---------- E. the compiled reader of a structure is its interpreted reader ---------- *)
Section Final.
  Variable c : cfg.
  Variable fuel : nat.

  Lemma set_offsets_same : forall fs offs, length offs = length fs ->
    map f_name (set_offsets fs offs) = map f_name fs /\ map f_ty (set_offsets fs offs) = map f_ty fs /\ map f_bits (set_offsets fs offs) = map f_bits fs /\
    map f_off (set_offsets fs offs) = offs.
  Proof.
    induction fs as [|[n a t b o] r IH]; intros [|o' ro] H; try discriminate; [repeat split; reflexivity|]. cbn in H. destruct (IH ro ltac:(lia)) as [A [B [C D]]].
    cbn [set_offsets map f_name f_ty f_bits f_off]. now rewrite A, B, C, D.
  Qed.
  Lemma layout_go_lay_run : forall fs lst offs lst', Forall (fun f => f_off f = None) fs -> layout_go c false fs lst = Ok (offs, lst') ->
    lay_run c lst (set_offsets fs offs) /\ length offs = length fs.
  Proof.
    induction fs as [|[n a t b o] r IH]; intros lst offs lst' Hno H; cbn [layout_go] in H.
    - injection H as <- _. split; [exact I|reflexivity].
    - inversion Hno as [|? ? Ho Hr]; subst. cbn [f_off] in Ho. subst o. cbn [f_off f_bits f_ty] in H.
      destruct (layout_step false lst None b (bit_storage t) (ty_size c t) (field_align c (Fld n a t b None))) as [[lst1 o1]|] eqn:E; [|discriminate]. cbn [bind fst snd] in H.
      destruct (layout_go c false r lst1) as [[offs' lst2]|] eqn:E2; [|discriminate]. cbn [bind fst snd] in H. injection H as <- <-.
      destruct (IH _ _ _ Hr E2) as [Hl Hlen]. cbn [set_offsets lay_run length]. split; [|now rewrite Hlen].
      exists lst1. split; [|exact Hl]. unfold lstep. cbn [f_bits f_ty f_off]. unfold field_align in *. cbn [f_ty] in *. exact E.
  Qed.
  Lemma cls_set_offsets : forall fs offs, length offs = length fs -> Forall (cls' c fuel) fs -> Forall (cls' c fuel) (set_offsets fs offs).
  Proof.
    induction fs as [|[n a t b o] r IH]; intros [|o' ro] H Hc; try discriminate; [constructor|]. inversion Hc as [|? ? Hf Hr]; subst.
    cbn [set_offsets]. constructor; [|apply IH; [cbn in H; lia|exact Hr]]. exact Hf.
  Qed.
  Lemma bsize_set_offsets : forall fs offs, length offs = length fs -> bsize c (set_offsets fs offs) = bsize c fs.
  Proof.
    induction fs as [|[n a t b o] r IH]; intros [|o' ro] H; try discriminate; [reflexivity|]. cbn [set_offsets bsize fold_right f_ty].
    fold (bsize c (set_offsets r ro)). fold (bsize c r). rewrite IH by (cbn in H; lia). reflexivity.
  Qed.

  Lemma seq_loop_names s start : forall fs st st', seq_loop c fuel s start fs st = Ok st' -> map fst (rev (p_vals st')) = map fst (rev (p_vals st)) ++ map f_name fs.
  Proof.
    induction fs as [|f r IH]; intros st st' H; cbn [seq_loop] in H.
    - injection H as <-. now rewrite app_nil_r.
    - destruct (read_member c fuel s start f st) as [st1|] eqn:E; [|discriminate]. cbn [bind] in H. rewrite (IH _ _ H).
      unfold read_member in E. destruct (bits_on f).
      + destruct (bb_read _ _ _ _ _ _) as [[[v bb'] pos']|]; [|discriminate]. cbn [bind] in E. injection E as <-.
        cbn [p_vals rev map]. rewrite map_app. cbn [map fst]. now rewrite <- app_assoc.
      + destruct (read_ty c fuel (f_ty f) s _ (p_ctx st)) as [[v p]|]; [|discriminate]. cbn [bind] in E. injection E as <-.
        cbn [p_vals rev map]. rewrite map_app. cbn [map fst]. now rewrite <- app_assoc.
  Qed.
  Lemma lookup_in {A} : forall (l : list (string * A)) n v, NoDup (map fst l) -> In (n, v) l -> lookup n l = Some v.
  Proof.
    induction l as [|[k x] l IH]; intros n v Hnd Hin; [destruct Hin|]. cbn [lookup]. cbn [map fst] in Hnd. inversion Hnd as [|? ? Hk Hnd']; subst.
    destruct Hin as [Heq|Hin].
    - injection Heq as <- <-. now rewrite String.eqb_refl.
    - destruct (String.eqb_spec n k) as [->|Hne]; [|now apply IH]. exfalso. apply Hk. change k with (fst (k, v)). now apply in_map.
  Qed.
  (* type.__call__(cls, **r): with distinct member names the object holds exactly the values read, in declaration order *)
  Lemma assemble_rev fs : forall vals, map fst (rev vals) = map f_name fs -> NoDup (map f_name fs) -> assemble fs vals = rev vals.
  Proof.
    intros vals Hn Hnd. unfold assemble.
    assert (Hl : forall n v, In (n, v) (rev vals) -> lookup n vals = Some v).
    { intros n v Hin. apply lookup_in; [|now apply in_rev]. rewrite <- Hn in Hnd. rewrite map_rev in Hnd. apply NoDup_rev in Hnd. now rewrite rev_involutive in Hnd. }
    revert Hn Hl. generalize (rev vals) as l. clear Hnd. induction fs as [|f r IH]; intros [|[k x] l] Hn Hl; try discriminate; [reflexivity|].
    cbn [map fst] in Hn. injection Hn as -> Hn. cbn [map]. rewrite (Hl (f_name f) x (or_introl eq_refl)). f_equal. apply IH; [exact Hn|]. intros n v Hin. apply Hl. now right.
  Qed.

  (* C03 for the structures the generator handles by blocks of scalars and sub-readers: PACKED structures as the parser makes them (no set offsets,
     any) whose members are scalars of any kind (packed and byte-sliced integers, floats, char, wchar, enums, pointers) or have a reader of
     their own (nested structures and unions, arrays of them, multi-dimensional and dynamically sized arrays).  If the generator produces a plan, then
     running the generated statements gives exactly what the interpreted reader gives: the same object (values in declaration order, recorded
     sizes) and the same end position - or both raise. *)
  Theorem compiled_is_interpreted nm fs p :
    Forall (fun f => f_off f = None /\ cls' c fuel f) fs -> NoDup (map f_name fs) -> bsize c fs <= 9223372036854775807 ->
    compile_plan c false fs = Ok p ->
    forall s pos ctx, 0 <= pos -> req (read_compiled c fuel false fs s pos) (read_ty c fuel (TStruct nm fs false) s pos ctx).
  Proof.
    intros Hcl Hnd Hbound Hplan s pos ctx Hpos. unfold read_compiled. unfold compile_plan in Hplan. cbn [read_ty].
    destruct (layout_struct c false fs) as [lay|] eqn:EL; [|discriminate]. cbn [bind] in Hplan |- *. rewrite Hplan. cbn [bind].
    assert (Hcl1 : Forall (cls' c fuel) fs) by (rewrite Forall_forall in *; intros f Hin; now destruct (Hcl f Hin)).
    assert (Hno : Forall (fun f => f_off f = None) fs) by (rewrite Forall_forall in *; intros f Hin; now destruct (Hcl f Hin)).
    assert (Hlr : lay_run c (mkLS (Some 0) 0 None (Some 0) 0) (set_offsets fs (l_offs lay)) /\ length (l_offs lay) = length fs).
    { unfold layout_struct in EL. destruct (layout_go c false fs _) as [[offs st']|] eqn:EG; [|discriminate]. cbn [bind fst snd] in EL. injection EL as <-. cbn [l_offs].
      exact (layout_go_lay_run fs _ _ _ Hno EG). }
    destruct Hlr as [Hlr Hlen].
    unfold plan_fields in Hplan. destruct (plan_go c false (set_offsets fs (l_offs lay)) _) as [[P gst']|] eqn:EP; [|discriminate]. cbn [bind fst snd] in Hplan.
    destruct (flush c false gst') as [[Pf gst'']|] eqn:EF; [|discriminate]. cbn [bind fst snd] in Hplan. injection Hplan as <-. rewrite app_nil_r.
    set (st0 := mkPS pos bb_empty [] [] []).
    assert (Hinv0 : inv c pos (mkGS 0 [] false None 0 false true) (mkLS (Some 0) 0 None (Some 0) 0) st0).
    { unfold inv. cbn [g_block g_off g_known g_roll g_pbits g_brem g_btype ls_off ls_brem p_pos p_bb st0 hoff]. split; [constructor|]. split; [exact I|].
      split; [intros Hne; now contradiction Hne|]. split; [intros x Hx; injection Hx as <-; repeat split; try lia; intros Hne; now contradiction Hne|].
      split; [intros _; cbn [bsize fold_right]; lia|]. split; [reflexivity|]. split; [intros _; split; reflexivity|discriminate]. }
    pose proof (plan_loop c fuel s pos (l_align lay) (set_offsets fs (l_offs lay)) _ _ st0 P gst' Pf gst''
                 (cls_set_offsets _ _ Hlen Hcl1) Hlr Hinv0 Hpos Hpos) as PL.
    cbn [g_block] in PL.
    specialize (PL ltac:(rewrite bsize_set_offsets by exact Hlen; cbn [bsize fold_right]; lia) EP EF).
    unfold seq_blockS in PL. cbn [seq_block bind fst snd] in PL. rewrite set_pos_id in PL.
    rewrite (struct_loop_seq c fuel s pos fs (l_offs lay) pos bb_empty [] [] [] Hlen). fold st0.
    destruct (run_instrs c _ s pos (l_align lay) (P ++ Pf) st0) as [st|er] eqn:ER; destruct (seq_loop c fuel s pos (set_offsets fs (l_offs lay)) st0) as [st'|er'] eqn:ES;
      cbn [req bind] in PL |- *; try contradiction; [|exact I]. subst st'.
    pose proof (seq_loop_names s pos _ _ _ ES) as Hn. cbn [st0 p_vals rev map app] in Hn. destruct (set_offsets_same fs (l_offs lay) Hlen) as [Hnm _]. rewrite Hnm in Hn.
    now rewrite (assemble_rev fs (p_vals st) Hn Hnd).
  Qed.
End Final.

(* where a sub-reader leaves the stream: not before the start, for every type with sane layouts (the class of the position theorems, C09) *)
Lemma sub_ok_of_shift c fuel f : shift_ok [] c (f_ty f) = true -> (forall n, ty_size c (f_ty f) = Some n -> 0 <= n) -> sub_ok c fuel f.
Proof. intros H Hn. split; [exact Hn|]. intros s' pos ctx v p Hp Hr. exact (proj2 (read_ty_shift [] c fuel (f_ty f) H s' pos ctx Hp) v p Hr). Qed.
