(* CompilerStatic.v — the compiled reader of structures with a STATIC layout, packed or ALIGNED: members that are scalars / fixed arrays of scalars
   (read in padded blocks) or have a reader of their own and a static size (nested structures and unions, arrays of them: read at their offset
   after a seek).  No bit fields, no dynamically sized members: every member carries the offset the layout gave it.  Built on CompilerProps.v
   (the generator's steps) and CompilerGaps.v (padded blocks). *)
From Coq Require Import Lia.
From VF Require Import Model.Reader Model.Writer Model.Compiler Proofs.ReaderProps Proofs.ShiftProps Proofs.ArrayProps Proofs.BlockProps Proofs.CodecCorrect Proofs.RoundTrip
  Proofs.CompilerProps Proofs.CompilerGaps.
Open Scope string_scope. Open Scope list_scope. Open Scope Z_scope.

Section Static.
  Variable c : cfg.
  Variable fuel : nat.
  Let e := c_endian c.
  Let rd := fun f : field => read_ty c fuel (f_ty f).
  Variable s : list Z.
  Variable start : Z.
  Variable cal : Z.
  Variable al : bool.

  Definition fsize (f : field) : Z := match ty_size c (f_ty f) with Some n => n | None => 0 end.
  Definition scls (f : field) : Prop :=
    f_bits f = None /\
    ((bmem c (f_ty f) <> None /\ 0 < msize c (f_ty f) <= 9223372036854775807) \/
     (bmem c (f_ty f) = None /\ is_sub c (f_ty f) = true /\ sub_ok c fuel f /\ exists n, ty_size c (f_ty f) = Some n)).
  (* every member carries an offset at or after the end of the one before, all below M *)
  Fixpoint ogaps (M cur : Z) (fs : list field) : Prop :=
    match fs with
    | [] => True
    | f :: r => exists o, f_off f = Some o /\ cur <= o /\ 0 <= fsize f /\ o + fsize f <= M /\ ogaps M (o + fsize f) r
    end.

  (* the generator on a member with a reader of its own, in either mode *)
  Lemma plan_step_sub_al f st P st' : is_sub c (f_ty f) = true -> f_bits f = None -> g_pbits st = false -> plan_step c al f st = Ok (P, st') ->
    exists Pb stb, flush c al st = Ok (Pb, stb) /\
      P = Pb ++ fst (align_to_field c al f stb) ++ [ISub f] /\ st' = after_sub c f (snd (align_to_field c al f stb)).
  Proof.
    intros Hs Hb Hpb H. unfold plan_step in H.
    assert (Hu : unwrap (f_ty f) = f_ty f) by (destruct (f_ty f); try discriminate; reflexivity). rewrite Hu in H.
    assert (Hsup : supported (f_ty f) = true) by (destruct (f_ty f); try discriminate; reflexivity). rewrite Hsup, Hpb in H. cbn [negb andb] in H.
    destruct (match ty_size c (f_ty f) with Some n => n <? 0 | None => false end); [discriminate|].
    assert (K : forall (body : result (list instr * gstate)),
              body = (do fl <- flush c al st; let '(ia, st1) := align_to_field c al f (snd fl) in Ok (fst fl ++ ia ++ [ISub f], set_known st1 false)) ->
              (do body0 <- body; let '(ib, stb) := body0 in
               let stf := match ty_size c (f_ty f) with
                          | Some n => if is_none (bits_on f) || g_roll stb then mkGS (g_off stb + n) (g_block stb) (g_pbits stb) (g_btype stb) (g_brem stb) false (g_known stb) else stb
                          | None => stb end in Ok ([] ++ ib, stf)) = Ok (P, st') ->
              exists Pb stb, flush c al st = Ok (Pb, stb) /\ P = Pb ++ fst (align_to_field c al f stb) ++ [ISub f] /\ st' = after_sub c f (snd (align_to_field c al f stb))).
    { intros body -> HH. destruct (flush c al st) as [[Pb stb]|]; [|discriminate]. cbn [bind fst snd] in HH. exists Pb, stb. split; [reflexivity|].
      destruct (align_to_field c al f stb) as [ia stc]. cbn [fst snd app] in *. unfold bits_on in HH. rewrite Hb in HH. cbn [is_none orb] in HH.
      unfold after_sub. destruct (ty_size c (f_ty f)); injection HH as <- <-; split; reflexivity. }
    destruct (f_ty f) as [q al'|b al' fl ms|tg|el len|nm fs al'|nm fs al'] eqn:Et; try discriminate.
    - destruct el as [q al'|b al' fl ms|tg|el2 len2|nm fs al'|nm fs al']; cbn [is_sub] in Hs; try rewrite Hs in H; cbn [is_none] in H; apply (K _ eq_refl H).
    - apply (K _ eq_refl H).
    - apply (K _ eq_refl H).
  Qed.

  (* a scalar member that starts a block: a seek unless the stream is known to be there *)
  Lemma plan_step_plain_e f st p cnt o : bmem c (f_ty f) = Some (p, cnt) -> msize c (f_ty f) <= 9223372036854775807 -> f_bits f = None -> g_pbits st = false ->
    f_off f = Some o -> g_block st = [] ->
    plan_step c al f st =
      Ok (if negb (o =? g_off st) || negb (g_known st) then [ISeek o] else [],
          mkGS (o + msize c (f_ty f)) [f] false (g_btype st) (g_brem st) false (if negb (o =? g_off st) || negb (g_known st) then true else g_known st)).
  Proof.
    intros Hp Hbig Hb Hpb Eo He. destruct (bmem_facts c fuel _ _ _ Hp Hbig) as [sz [hp [hm [_ [_ [_ [_ [_ [_ [_ [_ [_ [_ [Hsup [Hsz Hshape]]]]]]]]]]]]]]].
    pose proof (msize_nonneg c (f_ty f)) as Hnn.
    unfold plan_step. rewrite Hsup, Hpb, Hsz. cbn [negb andb]. assert (msize c (f_ty f) <? 0 = false) as -> by (apply Z.ltb_ge; lia).
    unfold bits_on. rewrite Hb, Eo.
    destruct st as [go gb gp gt gr gl gk]; cbn [g_block g_off g_pbits g_btype g_brem g_roll g_known has_block] in *. subst gp gb.
    destruct al; destruct (unwrap (f_ty f)) as [q al'|b al' fl ms|tg|el len|nm fs al'|nm fs al']; try contradiction; try (destruct el; try contradiction); cbn [is_none has_block g_block andb bind fst snd app];
      unfold align_to_field; rewrite Eo; cbn [g_off g_known g_block andb is_none app]; destruct (Z.eqb_spec o go) as [->|Hne]; destruct gk;
      cbn [negb orb bind fst snd app g_off g_block g_pbits g_btype g_brem g_roll g_known is_none]; reflexivity.
  Qed.

  Lemma seq_g_app : forall G1 G2 q st, seq_g c fuel (G1 ++ G2) s q st = do x <- seq_g c fuel G1 s q st; seq_g c fuel G2 s (snd x) (fst x).
  Proof.
    induction G1 as [|[g B] r IH]; intros G2 q st; cbn [app seq_g bind fst snd]; [reflexivity|].
    destruct (seq_block c fuel B s (q + g) st) as [[st1 q1]|]; cbn [bind fst snd]; [apply IH|reflexivity].
  Qed.
  Lemma segs_snoc : forall B h f o, gaps_ok c h B -> f_off f = Some o ->
    segs c h (B ++ [f]) = segs c h B ++ [(o - (h + gsize c (segs c h B)), [f])].
  Proof.
    induction B as [|g r IH]; intros h f o Hg Ho.
    - cbn [app segs gsize fold_right]. rewrite Ho. do 2 f_equal. lia.
    - destruct Hg as [og [Hog [Hle Hg]]]. cbn [app segs]. rewrite Hog. rewrite (IH _ f o Hg Ho). cbn [app]. f_equal. f_equal. f_equal. f_equal.
      cbn [gsize fold_right fst snd bsize]. fold (gsize c (segs c (og + msize c (f_ty g)) r)). lia.
  Qed.
  Lemma gaps_ok_snoc : forall B h f o, gaps_ok c h B -> f_off f = Some o -> h + gsize c (segs c h B) <= o -> gaps_ok c h (B ++ [f]).
  Proof.
    induction B as [|g r IH]; intros h f o Hg Ho Hle.
    - cbn [app gaps_ok]. exists o. cbn [segs gsize fold_right] in Hle. split; [exact Ho|]. split; [lia|exact I].
    - destruct Hg as [og [Hog [Hl Hg]]]. cbn [app gaps_ok]. exists og. split; [exact Hog|]. split; [exact Hl|]. apply (IH _ f o Hg Ho).
      cbn [segs] in Hle. rewrite Hog in Hle. cbn [gsize fold_right fst snd bsize] in Hle. fold (gsize c (segs c (og + msize c (f_ty g)) r)) in Hle. lia.
  Qed.

  (* the pending block: its members read one after the other, each at its offset (the stream is at the first one's) *)
  Definition seq_gS (h : Z) (B : list field) (st : pstate) : result pstate :=
    do r <- seq_g c fuel (segs c h B) s (p_pos st) st; Ok (set_pos (fst r) (snd r)).
  Definition pend (gst : gstate) (st : pstate) : result pstate :=
    match g_block gst with
    | [] => Ok st
    | f0 :: _ => match f_off f0 with Some h => seq_gS h (g_block gst) st | None => Err EType end
    end.
  Definition INV (gst : gstate) (st : pstate) : Prop :=
    g_pbits gst = false /\ p_bb st = bb_empty /\ 0 <= p_pos st /\ Forall (mcls c) (g_block gst) /\ 0 <= g_off gst <= 9223372036854775807 /\
    (g_block gst = [] -> g_known gst = true -> p_pos st = start + g_off gst) /\
    (g_block gst <> [] -> exists h, hoff (g_block gst) = Some h /\ 0 <= h /\ gaps_ok c h (g_block gst) /\ p_pos st = start + h /\
                                    g_off gst = h + gsize c (segs c h (g_block gst))).

  Lemma seq_gS_snoc h B f o st : 0 <= h -> Forall (mcls c) B -> gaps_ok c h B -> 0 <= p_pos st -> p_bb st = bb_empty -> p_pos st = start + h ->
    h + gsize c (segs c h B) <= 9223372036854775807 ->
    f_bits f = None -> f_off f = Some o -> h + gsize c (segs c h B) <= o ->
    seq_gS h (B ++ [f]) st = do st1 <- seq_gS h B st; read_member c fuel s start f st1.
  Proof.
    intros Hh0 Hcl Hg Hp Hbb Hpos Hbig Hb Ho Hle. unfold seq_gS. rewrite (segs_snoc B h f o Hg Ho), seq_g_app.
    pose proof (gok_segs c fuel B h Hcl Hg) as Hok. pose proof (gsize_nonneg c fuel _ Hok) as Hgn.
    destruct (seq_g c fuel (segs c h B) s (p_pos st) st) as [[st1 q1]|] eqn:E; cbn [bind fst snd]; [|reflexivity].
    assert (HbigG : gsize c (segs c h B) <= 9223372036854775807) by lia.
    pose proof (seq_g_end c fuel _ s _ _ _ _ Hp Hok HbigG E) as Hq. destruct (seq_g_pos c fuel s _ _ _ _ _ E) as [_ Hbb1].
    cbn [seq_g seq_block bind fst snd]. unfold read_member. rewrite (bits_on_none f Hb), Ho. cbn [set_pos p_ctx p_pos p_bb p_vals p_sizes].
    replace (q1 + (o - (h + gsize c (segs c h B)))) with (start + o) by lia.
    destruct (read_ty c fuel (f_ty f) s (start + o) (p_ctx st1)) as [[v p']|]; cbn [bind fst snd]; [|reflexivity].
    unfold push, set_pos. cbn [p_bb p_vals p_sizes p_ctx p_pos]. now rewrite Hbb1, Hbb.
  Qed.
  Lemma seq_gS_single f o st : f_bits f = None -> f_off f = Some o -> p_pos st = start + o -> p_bb st = bb_empty ->
    seq_gS o [f] st = read_member c fuel s start f st.
  Proof.
    intros Hb Ho Hp Hbb. unfold seq_gS, read_member. cbn [segs seq_g seq_block bind fst snd]. rewrite Ho, (bits_on_none f Hb). replace (p_pos st + (o - o)) with (start + o) by lia.
    destruct (read_ty c fuel (f_ty f) s (start + o) (p_ctx st)) as [[v p']|]; cbn [bind fst snd]; [|reflexivity].
    unfold push, set_pos. cbn [p_bb p_vals p_sizes p_ctx p_pos]. now rewrite Hbb.
  Qed.

  (* flushing the pending block is reading it *)
  Lemma flush_g gst Pf gst2 st : INV gst st -> 0 <= start -> flush c al gst = Ok (Pf, gst2) ->
    req (run_instrs c rd s start cal Pf st) (pend gst st) /\
    gst2 = mkGS (g_off gst) [] (g_pbits gst) (g_btype gst) (g_brem gst) (g_roll gst) (g_known gst) /\
    (forall st1, pend gst st = Ok st1 -> p_bb st1 = bb_empty /\ (g_block gst <> [] -> p_pos st1 = start + g_off gst) /\ (g_block gst = [] -> st1 = st)).
  Proof.
    intros [Hpb [Hbb [Hpp [Hcl [Hmax [He Hne]]]]]] Hst H. unfold flush in H. unfold pend. destruct (g_block gst) as [|f0 B] eqn:EB.
    - injection H as <- <-. split; [cbn; reflexivity|]. split; [destruct gst; cbn in *; now subst|]. intros st1 E. injection E as <-. split; [exact Hbb|]. split; [intros X; now contradiction X|reflexivity].
    - destruct (Hne ltac:(discriminate)) as [h [Hh [Hh0 [Hg [Hp Hoff]]]]]. cbn [hoff] in Hh. rewrite Hh.
      destruct (gen_block c al (f0 :: B)) as [i|] eqn:Eg; [|discriminate]. cbn [bind] in H. injection H as <- <-.
      pose proof (gok_segs c fuel _ h Hcl Hg) as Hok. pose proof (gsize_nonneg c fuel _ Hok) as Hgn.
      assert (Hbig : gsize c (segs c h (f0 :: B)) <= 9223372036854775807) by lia.
      assert (Hinfo : struct_info c al (f0 :: B) (match f0 :: B with f :: _ => f_off f | [] => None end) 0 = Ok (info_g c (segs c h (f0 :: B)))).
      { rewrite Hh. apply (struct_info_segs c fuel); assumption. }
      assert (Hp0 : 0 <= p_pos st) by lia.
      pose proof (block_sound_g c fuel _ al _ i Hok Hbig Hinfo Eg s start cal st Hp0) as R. fold rd in R.
      split; [|split; [reflexivity|]].
      + cbn [run_instrs]. unfold seq_gS. destruct (run_instr c rd s start cal i st); cbn [bind]; exact R.
      + intros st1 E. unfold seq_gS in E. destruct (seq_g c fuel (segs c h (f0 :: B)) s (p_pos st) st) as [[sx qx]|] eqn:Eq; [|discriminate]. cbn [bind fst snd] in E. injection E as <-.
        destruct (seq_g_pos c fuel s _ _ _ _ _ Eq) as [_ Hb1]. pose proof (seq_g_end c fuel _ s _ _ _ _ Hp0 Hok Hbig Eq) as Hq.
        cbn [set_pos p_bb p_pos]. split; [congruence|]. split; [intros _; lia|discriminate].
  Qed.

  Lemma gsize_app G1 G2 : gsize c (G1 ++ G2) = gsize c G1 + gsize c G2.
  Proof.
    induction G1 as [|[g B] r IH]; [change (gsize c []) with 0; cbn [app]; lia|]. change (gsize c (((g, B) :: r) ++ G2)) with (g + bsize c B + gsize c (r ++ G2)).
    change (gsize c ((g, B) :: r)) with (g + bsize c B + gsize c r). rewrite IH. lia.
  Qed.

  Lemma run_app p1 p2 st : run_instrs c rd s start cal (p1 ++ p2) st = do st' <- run_instrs c rd s start cal p1 st; run_instrs c rd s start cal p2 st'.
  Proof. unfold rd. apply run_instrs_app. Qed.
  (* the generated statements of a static layout against the interpreted loop: blocks with padding, seeks, sub-readers *)
  Lemma static_loop : forall fs gst st P gst' Pf gst'', Forall scls fs -> ogaps 9223372036854775807 (g_off gst) fs -> INV gst st -> 0 <= start ->
    plan_go c al fs gst = Ok (P, gst') -> flush c al gst' = Ok (Pf, gst'') ->
    req (run_instrs c rd s start cal (P ++ Pf) st) (do st1 <- pend gst st; seq_loop c fuel s start fs st1).
  Proof.
    induction fs as [|f r IH]; intros gst st P gst' Pf gst'' Hcls Hog Hinv Hst HP HF.
    - cbn [plan_go] in HP. injection HP as <- <-. cbn [app seq_loop]. destruct (flush_g gst Pf gst'' st Hinv Hst HF) as [R _].
      destruct (pend gst st); cbn [bind]; exact R.
    - inversion Hcls as [|? ? [Hb Hkind] Hcr]; subst. destruct Hog as [o [Ho [Hle [Hfs0 [HoM Hog]]]]].
      cbn [plan_go] in HP. destruct (plan_step c al f gst) as [[P1 gst1]|] eqn:E1; [|discriminate]. cbn [bind fst snd] in HP.
      destruct (plan_go c al r gst1) as [[P2 gst2]|] eqn:E2; [|discriminate]. cbn [bind fst snd] in HP. injection HP as <- <-.
      pose proof Hinv as [Hpb [Hbb [Hpp [Hcl [[Hg0 Hmax] [He Hne]]]]]].
      pose proof (bits_on_none f Hb) as Hbo.
      destruct Hkind as [[Hm Hms]|[Hm [Hsub [Hsok [n Hn]]]]].
      + (* a scalar member: it joins (or starts) a block *)
        destruct (bmem c (f_ty f)) as [[p cnt]|] eqn:Ep; [|contradiction].
        destruct (bmem_facts c fuel _ _ _ Ep ltac:(lia)) as [sz [hp [hm [_ [_ [_ [_ [Hts _]]]]]]]].
        assert (Hfs : fsize f = msize c (f_ty f)) by (unfold fsize; now rewrite Hts). rewrite Hfs in *.
        assert (Hmc : mcls c f) by (split; [exact Hb|]; split; [congruence|exact Hms]).
        destruct (g_block gst) as [|f0 B] eqn:EB.
        * (* a new block, after a seek unless the stream is known to be there *)
          rewrite (plan_step_plain_e f gst p cnt o Ep ltac:(lia) Hb Hpb Ho EB) in E1. injection E1 as <- <-.
          set (st1 := mkPS (start + o) (p_bb st) (p_vals st) (p_sizes st) (p_ctx st)).
          assert (Hrun : run_instrs c rd s start cal (if negb (o =? g_off gst) || negb (g_known gst) then [ISeek o] else []) st = Ok st1).
          { destruct (Z.eqb_spec o (g_off gst)) as [->|Hneq]; [destruct (g_known gst) eqn:Ek|]; cbn [negb orb run_instrs run_instr bind]; try reflexivity.
            f_equal. unfold st1. rewrite <- (He eq_refl eq_refl). now destruct st. }
          rewrite <- app_assoc, run_app, Hrun. cbn [bind]. unfold pend at 1. rewrite EB. cbn [bind seq_loop].
          refine (req_trans _ _ _ (IH _ st1 _ _ _ _ Hcr _ _ Hst E2 HF) _); cbn [g_off g_block g_pbits g_known].
          -- exact Hog.
          -- unfold INV. cbn [g_pbits g_block g_off g_known st1 p_bb p_pos hoff]. split; [reflexivity|]. split; [exact Hbb|]. split; [lia|]. split; [constructor; [exact Hmc|constructor]|].
             split; [lia|]. split; [discriminate|]. intros _. exists o. split; [exact Ho|]. split; [lia|]. split; [exists o; split; [exact Ho|split; [lia|exact I]]|].
             split; [reflexivity|]. cbn [segs gsize fold_right fst snd bsize]. rewrite Ho. cbn [fst snd bsize fold_right]. lia.
          -- unfold pend. cbn [g_block]. rewrite Ho. rewrite (seq_gS_single f o st1 Hb Ho eq_refl Hbb).
             rewrite (read_member_pos c fuel s start f st1 st Hbo eq_refl eq_refl eq_refl) by (intros X; congruence). apply req_refl.
        * (* the block goes on: padding when the offset lies beyond the tracked one *)
          destruct (Hne ltac:(discriminate)) as [h [Hh [Hh0 [Hg [Hp Hoff]]]]].
          assert (Hnb : g_block gst <> []) by (rewrite EB; discriminate).
          rewrite (plan_step_plain_g c fuel f gst p cnt al o Ep ltac:(lia) Hb Hpb Ho) in E1; [|intros _; exact Hle|intros X; now contradiction Hnb].
          injection E1 as <- <-. cbn [app]. rewrite EB in E2.
          pose proof (gok_segs c fuel _ h Hcl Hg) as Hok. pose proof (gsize_nonneg c fuel _ Hok) as Hgn.
          refine (req_trans _ _ _ (IH _ st _ _ _ _ Hcr _ _ Hst E2 HF) _); cbn [g_off g_block g_pbits g_known].
          -- exact Hog.
          -- unfold INV. cbn [g_pbits g_block g_off g_known]. split; [exact Hpb|]. split; [exact Hbb|]. split; [exact Hpp|]. split; [apply Forall_app; split; [exact Hcl|constructor; [exact Hmc|constructor]]|].
             split; [lia|]. split; [intros X; destruct B; discriminate X|]. intros _. exists h. split; [exact Hh|]. split; [exact Hh0|].
             split; [apply (gaps_ok_snoc _ h f o Hg Ho); lia|]. split; [exact Hp|].
             change ((f0 :: B) ++ [f]) with ((f0 :: B) ++ [f]). rewrite (segs_snoc (f0 :: B) h f o Hg Ho), gsize_app. cbn [gsize fold_right fst snd bsize]. lia.
          -- unfold pend. rewrite EB. cbn [g_block app]. cbn [hoff] in Hh. rewrite Hh. change (f0 :: B ++ [f]) with ((f0 :: B) ++ [f]).
             rewrite (seq_gS_snoc h (f0 :: B) f o st Hh0 Hcl Hg ltac:(lia) Hbb Hp ltac:(lia) Hb Ho ltac:(lia)).
             destruct (seq_gS h (f0 :: B) st); cbn [bind seq_loop]; apply req_refl.
      + (* a member with a reader of its own: flush, seek, call it *)
        assert (Hfs : fsize f = n) by (unfold fsize; now rewrite Hn). rewrite Hfs in *.
        destruct (plan_step_sub_al f gst P1 gst1 Hsub Hb Hpb E1) as [Pb [stb [Hfl [-> ->]]]].
        destruct (flush_g gst Pb stb st Hinv Hst Hfl) as [RB [-> Hafter]].
        rewrite <- !app_assoc, run_app. cbn [seq_loop].
        apply req_bind'; [exact RB|]. intros st1 Est1. destruct (Hafter st1 Est1) as [Hbb1 [Hpne Hpe]].
        set (stb := mkGS (g_off gst) [] (g_pbits gst) (g_btype gst) (g_brem gst) (g_roll gst) (g_known gst)) in *.
        assert (Hrun : exists stc, snd (align_to_field c al f stb) = stc /\ g_block stc = [] /\ g_pbits stc = false /\ g_off stc = o /\
                   forall rest, run_instrs c rd s start cal (fst (align_to_field c al f stb) ++ ISub f :: rest) st1 =
                     do st2 <- read_member c fuel s start f st1; run_instrs c rd s start cal rest st2).
        { unfold align_to_field, read_member. rewrite Hbo, Ho. cbn [is_none]. rewrite Bool.andb_false_r. cbn [g_off g_known stb].
          destruct (Z.eqb_spec o (g_off gst)) as [Eo|Hneq]; [destruct (g_known gst) eqn:Ek|]; cbn [negb orb fst snd].
          - exists stb. split; [reflexivity|]. cbn [stb g_block g_pbits g_off]. split; [reflexivity|]. split; [exact Hpb|]. split; [now symmetry|].
            intros rest. cbn [app run_instrs run_instr].
            assert (Hq : p_pos st1 = start + o).
            { destruct (g_block gst) eqn:EB; [rewrite (Hpe eq_refl), (He eq_refl eq_refl); lia|rewrite Hpne by discriminate; lia]. }
            rewrite Hq, Hbb1. unfold rd. cbn beta. destruct (read_ty c fuel (f_ty f) s (start + o) (p_ctx st1)) as [[v p']|]; reflexivity.
          - eexists. split; [reflexivity|]. cbn [g_block g_pbits g_off]. split; [reflexivity|]. split; [exact Hpb|]. split; [reflexivity|].
            intros rest. cbn [app run_instrs run_instr bind p_pos p_ctx p_bb p_vals p_sizes]. rewrite Hbb1.
            unfold rd. cbn beta. destruct (read_ty c fuel (f_ty f) s (start + o) (p_ctx st1)) as [[v p']|]; reflexivity.
          - eexists. split; [reflexivity|]. cbn [g_block g_pbits g_off]. split; [reflexivity|]. split; [exact Hpb|]. split; [reflexivity|].
            intros rest. cbn [app run_instrs run_instr bind p_pos p_ctx p_bb p_vals p_sizes]. rewrite Hbb1.
            unfold rd. cbn beta. destruct (read_ty c fuel (f_ty f) s (start + o) (p_ctx st1)) as [[v p']|]; reflexivity. }
        destruct Hrun as [stc [Hstc [Hblk [Hpbc [Hoffc Hrun]]]]]. rewrite Hstc in *.
        change ([ISub f] ++ P2 ++ Pf) with (ISub f :: (P2 ++ Pf)). rewrite Hrun.
        destruct (read_member c fuel s start f st1) as [st2|] eqn:Erm; cbn [bind]; [|exact I].
        assert (Hbb2 : p_bb st2 = bb_empty /\ 0 <= p_pos st2).
        { unfold read_member in Erm. rewrite Hbo, Ho in Erm. cbn beta in Erm. destruct (read_ty c fuel (f_ty f) s (start + o) (p_ctx st1)) as [[v p']|] eqn:Erd; [|discriminate]. cbn [bind] in Erm. injection Erm as <-.
          split; [reflexivity|]. cbn [p_pos snd]. destruct Hsok as [_ Hnn]. apply (Hnn s (start + o) (p_ctx st1) v p'); [lia|exact Erd]. }
        destruct Hbb2 as [Hbb2 Hpp2].
        refine (req_trans _ _ _ (IH _ st2 _ _ _ _ Hcr _ _ Hst E2 HF) _); unfold after_sub; rewrite Hn; cbn [g_off g_block g_pbits g_known]; rewrite ?Hoffc, ?Hblk, ?Hpbc.
        -- exact Hog.
        -- unfold INV. cbn [g_pbits g_block g_off g_known]. rewrite ?Hblk, ?Hpbc, ?Hoffc. split; [reflexivity|]. split; [exact Hbb2|]. split; [exact Hpp2|]. split; [constructor|]. split; [lia|].
           split; [intros _ X; discriminate X|intros X; now contradiction X].
        -- unfold pend. cbn [g_block]. rewrite ?Hblk. cbn [bind]. apply req_refl.
  Qed.
End Static.

Section StaticFinal.
  Variable c : cfg.
  Variable fuel : nat.
  Variable al : bool.

  Definition stcls (f : field) : Prop := f_off f = None /\ scls c fuel f /\ (al = true -> 1 <= field_align c f).

  Lemma scls_size f : scls c fuel f -> ty_size c (f_ty f) = Some (fsize c f) /\ 0 <= fsize c f.
  Proof.
    intros [Hb [[Hm Hms]|[Hm [Hsub [[Hnn _] [n Hn]]]]]]; unfold fsize.
    - destruct (bmem c (f_ty f)) as [[p cnt]|] eqn:Ep; [|contradiction].
      destruct (bmem_facts c fuel _ _ _ Ep ltac:(lia)) as [sz [hp [hm [_ [_ [_ [_ [Hts _]]]]]]]]. rewrite Hts. split; [reflexivity|lia].
    - rewrite Hn. split; [reflexivity|exact (Hnn n Hn)].
  Qed.
  Lemma scls_set_offsets : forall fs offs, Forall stcls fs -> Forall (scls c fuel) (set_offsets fs offs).
  Proof.
    induction fs as [|[n a t b o] r IH]; intros offs Hc; [constructor|]. inversion Hc as [|? ? [_ [Hf _]] Hr]; subst.
    destruct offs as [|o' ro]; cbn [set_offsets].
    - constructor; [exact Hf|]. specialize (IH [] Hr). destruct r as [|[? ? ? ? ?] ?]; exact IH.
    - constructor; [exact Hf|apply IH; exact Hr].
  Qed.
  Lemma ogaps_mono M M' : M <= M' -> forall fs cur, ogaps c M cur fs -> ogaps c M' cur fs.
  Proof.
    intros HM. induction fs as [|f r IH]; intros cur H; [exact I|]. destruct H as [o [Ho [Hle [H0 [HoM Hr]]]]].
    exists o. split; [exact Ho|]. split; [exact Hle|]. split; [exact H0|]. split; [lia|]. now apply IH.
  Qed.

  (* the layout of members of static size: every member gets an offset at or after the end of the one before, the first one 0 *)
  Lemma layout_go_ogaps : forall F lst cur offs lst', Forall stcls F -> ls_off lst = Some cur -> 0 <= cur -> layout_go c al F lst = Ok (offs, lst') ->
    length offs = length F /\ Forall (fun o => o <> None) offs /\
    exists e', ls_off lst' = Some e' /\ cur <= e' /\ ogaps c e' cur (set_offsets F offs) /\ ls_align lst <= ls_align lst' /\
               (al = true -> F <> [] -> 1 <= ls_align lst') /\ (cur = 0 -> F = [] \/ hoff (set_offsets F offs) = Some 0).
  Proof.
    induction F as [|[n a t b o] r IH]; intros lst cur offs lst' Hc Hoff Hcur H; cbn [layout_go] in H.
    - injection H as <- <-. split; [reflexivity|]. split; [constructor|]. exists cur. split; [exact Hoff|]. split; [lia|]. split; [exact I|]. split; [lia|]. split; [intros _ X; now contradiction X|]. intros _. now left.
    - inversion Hc as [|? ? [Ho [Hs Ha]] Hr]; subst. cbn [f_off] in Ho. subst o. pose proof Hs as [Hb _]. cbn [f_bits] in Hb. subst b.
      destruct (scls_size _ Hs) as [Hts Hn0]. cbn [f_ty] in Hts. set (nn := fsize c (Fld n a t None None)) in *.
      cbn [f_off f_bits f_ty] in H. unfold layout_step in H. rewrite Hoff, Hts in H.
      set (fa := field_align c (Fld n a t None None)) in *.
      set (oo := if al then cur + pad_to cur fa else cur).
      assert (Hoo : cur <= oo) by (unfold oo; destruct al; [pose proof (pad_to_nonneg cur fa (Ha eq_refl)); lia|lia]).
      assert (Hstep : (match (if al then Some (cur + pad_to cur fa) else Some cur) with Some o => Ok (mkLS (Some (o + nn)) (Z.max (ls_align lst) fa) None (Some 0) 0, Some o) | None => Ok (mkLS None (Z.max (ls_align lst) fa) None (Some 0) 0, None) end)
                      = Ok (mkLS (Some (oo + nn)) (Z.max (ls_align lst) fa) None (Some 0) 0, Some oo)) by (unfold oo; destruct al; reflexivity).
      rewrite Hstep in H. cbn [bind fst snd] in H.
      destruct (layout_go c al r _) as [[offs' lst2]|] eqn:E2; [|discriminate]. cbn [bind fst snd] in H. injection H as <- <-.
      assert (Hcur' : 0 <= oo + nn) by lia.
      destruct (IH (mkLS (Some (oo + nn)) (Z.max (ls_align lst) fa) None (Some 0) 0) (oo + nn) _ _ Hr eq_refl Hcur' E2) as [Hlen [Hsome [e' [He' [Hle' [Hg [Hal [Hne H0]]]]]]]].
      cbn [ls_align] in Hal.
      split; [cbn [length]; now rewrite Hlen|]. split; [constructor; [discriminate|exact Hsome]|].
      exists e'. split; [exact He'|]. split; [lia|]. split.
      + cbn [set_offsets ogaps f_off]. exists oo. split; [reflexivity|]. split; [exact Hoo|]. change (fsize c (Fld n a t None (Some oo))) with nn. split; [exact Hn0|]. split; [lia|exact Hg].
      + split; [lia|]. split.
        * intros Hal' _. specialize (Ha Hal'). fold fa in Ha. lia.
        * intros ->. right. cbn [set_offsets hoff f_off]. unfold oo, pad_to. destruct al; [now rewrite Z.land_0_l|reflexivity].
  Qed.

  Lemma struct_loop_some s start : forall fs offs pos bb vals sizes lctx, Forall (fun o => o <> None) offs ->
    struct_loop (c_endian c) al start (map (fun f => (meta_of c f, read_ty c fuel (f_ty f))) fs) offs s pos bb vals sizes lctx =
    struct_loop (c_endian c) false start (map (fun f => (meta_of c f, read_ty c fuel (f_ty f))) fs) offs s pos bb vals sizes lctx.
  Proof. intros. destruct al; [now apply struct_loop_all_some|reflexivity]. Qed.
End StaticFinal.

Section StaticTheorem.
  Variable c : cfg.
  Variable fuel : nat.

  (* C03 for structures with a STATIC layout, PACKED or ALIGNED: members that are scalars / fixed arrays of scalars of positive size, or have a reader
     of their own and a static size (nested structures and unions, arrays of them, multi-dimensional arrays); no bit fields.  The generator lays the
     scalars out in blocks with pad bytes for the alignment gaps, seeks to every member that has its own reader (and to the block after it), and -
     in aligned mode - seeks over the tail padding; running that gives what the interpreted reader gives, or both raise. *)
  Theorem compiled_static_is_interpreted al nm fs p :
    Forall (stcls c fuel al) fs -> NoDup (map f_name fs) -> (forall lay n, layout_struct c al fs = Ok lay -> l_size lay = Some n -> n <= 9223372036854775807) ->
    compile_plan c al fs = Ok p ->
    forall s pos ctx, 0 <= pos -> req (read_compiled c fuel al fs s pos) (read_ty c fuel (TStruct nm fs al) s pos ctx).
  Proof.
    intros Hcl Hnd Hbound Hplan s pos ctx Hpos. unfold read_compiled. unfold compile_plan in Hplan. cbn [read_ty].
    destruct (layout_struct c al fs) as [lay|] eqn:EL; [|discriminate]. cbn [bind] in Hplan |- *. rewrite Hplan. cbn [bind].
    pose proof (Hbound lay) as Hb. clear Hbound.
    unfold layout_struct in EL. destruct (layout_go c al fs _) as [[offs lst']|] eqn:EG; [|discriminate]. cbn [bind fst snd] in EL. injection EL as <-. cbn [l_offs l_align l_size] in *.
    destruct (layout_go_ogaps c fuel al fs (mkLS (Some 0) 0 None (Some 0) 0) 0 _ _ Hcl eq_refl (Z.le_refl 0) EG) as [Hlen [Hsome [e' [He' [Hle' [Hg [Hal [Hne H0]]]]]]]].
    specialize (H0 eq_refl). set (F := set_offsets fs offs) in *. rewrite He' in Hb.
    pose proof (scls_set_offsets c fuel al fs offs Hcl) as HclF. fold F in HclF.
    assert (HeM : e' <= 9223372036854775807).
    { destruct al; [|exact (Hb _ eq_refl eq_refl)]. destruct fs as [|f0 fs'].
      - cbn [layout_go] in EG. injection EG as <- <-. cbn in He'. injection He' as <-. lia.
      - assert (Hne' : 1 <= ls_align lst') by (apply Hne; [reflexivity|discriminate]). pose proof (pad_to_nonneg e' (ls_align lst') Hne'). specialize (Hb _ eq_refl eq_refl). lia. }
    set (st0 := mkPS pos bb_empty [] [] []).
    rewrite (struct_loop_some c fuel al s pos fs offs pos bb_empty [] [] [] Hsome).
    rewrite (struct_loop_seq c fuel s pos fs offs pos bb_empty [] [] [] Hlen). fold F. fold st0.
    unfold plan_fields in Hplan. destruct (plan_go c al F _) as [[P gst']|] eqn:EP; [|discriminate]. cbn [bind fst snd] in Hplan.
    destruct (flush c al gst') as [[Pf gst'']|] eqn:EF; [|discriminate]. cbn [bind fst snd] in Hplan. injection Hplan as <-.
    assert (Hinv0 : INV c pos (mkGS 0 [] false None 0 false true) st0).
    { unfold INV. cbn [g_pbits g_block g_off g_known st0 p_bb p_pos]. split; [reflexivity|]. split; [reflexivity|]. split; [exact Hpos|]. split; [constructor|]. split; [lia|].
      split; [intros _ _; lia|intros X; now contradiction X]. }
    pose proof (static_loop c fuel s pos (ls_align lst') al F (mkGS 0 [] false None 0 false true) st0 P gst' Pf gst'' HclF (ogaps_mono c _ _ HeM _ _ Hg) Hinv0 Hpos EP EF) as PL.
    unfold pend in PL. cbn [g_block bind] in PL.
    rewrite app_assoc, run_instrs_app.
    destruct (run_instrs c _ s pos (ls_align lst') (P ++ Pf) st0) as [st|er] eqn:ER; destruct (seq_loop c fuel s pos F st0) as [st'|er'] eqn:ES;
      cbn [req bind] in PL |- *; try contradiction; [|destruct al; exact I]. subst st'.
    pose proof (seq_loop_names c fuel s pos _ _ _ ES) as Hn. assert (Hn2 : map fst (rev (p_vals st)) = map f_name F) by exact Hn. clear Hn.
    destruct (set_offsets_same fs offs Hlen) as [Hnm _]. unfold F in Hn2. rewrite Hnm in Hn2.
    destruct al; cbn [run_instrs run_instr bind p_pos p_vals p_sizes req]; now rewrite (assemble_rev fs (p_vals st) Hn2 Hnd).
  Qed.
End StaticTheorem.
