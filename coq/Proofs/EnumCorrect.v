From Coq Require Import Lia.
From VF Require Import Model.Enum.
Open Scope string_scope. Open Scope list_scope. Open Scope Z_scope.

(* members without an explicit value continue from the previous one *)
Lemma number_go_auto flag consts name r values nextval :
  number_go flag consts ((name, None) :: r) values nextval =
  number_go flag consts r ((name, nextval) :: values) (next_value flag nextval).
Proof. reflexivity. Qed.
(* an explicit value is the expression evaluated over the members declared so far (then the constants) *)
Lemma number_go_explicit flag consts name toks r values nextval z :
  evaluate values consts (fun _ => None) toks = Some z ->
  number_go flag consts ((name, Some toks) :: r) values nextval =
  number_go flag consts r ((name, z) :: values) (next_value flag z).
Proof. intros H. cbn [number_go]. now rewrite H. Qed.

Lemma next_enum v : next_value false v = v + 1.
Proof. reflexivity. Qed.
(* flag: the next higher power of two, i.e. the least power of two strictly above a positive value *)
Lemma next_flag_pow2 v : 0 < v -> v < next_value true v /\ next_value true v <= 2 * v /\ exists k, 0 <= k /\ next_value true v = 2 ^ k.
Proof.
  intros Hv. unfold next_value, bit_length. assert (v =? 0 = false) as -> by lia.
  rewrite Z.abs_eq by lia. pose proof (Z.log2_spec v Hv) as [L1 L2]. pose proof (Z.log2_nonneg v).
  rewrite Z.pow_succ_r in L2 by lia. replace (Z.log2 v + 1) with (Z.succ (Z.log2 v)) by lia.
  rewrite Z.pow_succ_r by lia. repeat split; try lia.
  exists (Z.succ (Z.log2 v)). split; [lia|]. now rewrite Z.pow_succ_r by lia.
Qed.
Lemma first_values : number_go false [] [] [] 0 = Some [] /\ next_value true 0 = 1.
Proof. split; reflexivity. Qed.

(* a run of n members without values: enum counts up from the start value *)
Lemma auto_enum_run consts : forall names values start,
  number_go false consts (map (fun n => (n, None)) names) values start =
  Some (rev values ++ combine names (map (fun i => start + Z.of_nat i) (seq 0 (length names)))).
Proof.
  induction names as [|n r IH]; intros values start; cbn [map number_go length seq combine].
  - now rewrite app_nil_r.
  - rewrite IH. cbn [rev]. rewrite <- app_assoc. cbn [app next_value]. f_equal. f_equal. f_equal.
    + f_equal. lia.
    + f_equal. rewrite <- seq_shift, map_map. apply map_ext. intros i. lia.
Qed.

(* parsing the same underlying value twice yields equal objects with equal hash keys; different classes never compare equal *)
Lemma parse_twice_equal cls members v : enum_eq (parse_enum cls members v) (parse_enum cls members v) = true
  /\ enum_hash_key (parse_enum cls members v) = enum_hash_key (parse_enum cls members v).
Proof. unfold enum_eq, parse_enum. cbn. rewrite String.eqb_refl, Z.eqb_refl. split; reflexivity. Qed.
Lemma eq_int_iff cls members v z : enum_eq_int (parse_enum cls members v) z = true <-> v = z.
Proof. unfold enum_eq_int, parse_enum. cbn. lia. Qed.
Lemma eq_same_class_iff cls m1 m2 v w : enum_eq (parse_enum cls m1 v) (parse_enum cls m2 w) = true <-> v = w.
Proof. unfold enum_eq, parse_enum. cbn. rewrite String.eqb_refl. cbn. lia. Qed.
Lemma never_equal_across_classes c1 c2 m1 m2 v w : c1 <> c2 -> enum_eq (parse_enum c1 m1 v) (parse_enum c2 m2 w) = false.
Proof. intros H. unfold enum_eq, parse_enum. cbn. destruct (String.eqb_spec c1 c2); [contradiction|reflexivity]. Qed.

(* the value read for an enum/flag field is exactly what the underlying type reads, for every input *)
Lemma enum_reads_base c fuel b al fl ms s pos ctx :
  read_ty c fuel (TEnum b al fl ms) s pos ctx = read_ty c fuel (TPrim b al) s pos ctx.
Proof. reflexivity. Qed.
