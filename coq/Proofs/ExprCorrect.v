(* ExprCorrect.v — the shunting-yard evaluator of Model/Expr.v computes the denotation of every
   well-formed parse tree (C precedence, left associativity), and re-evaluation is repeatable. *)
From Coq Require Import Lia.
From VF Require Import Model.ExprSpec Gen.Generated Gen.GeneratedOk.
Open Scope string_scope. Open Scope list_scope. Open Scope Z_scope.

(* ------------------------------------------------------------------------------------------ *)
(* strings *)
Lemma eqb_neq_of (P : string -> bool) a b : P a = true -> P b = false -> String.eqb a b = false.
Proof. intros Ha Hb. destruct (String.eqb_spec a b) as [->|]; [congruence|reflexivity]. Qed.

Lemma lookup_none_of {A} (P : string -> bool) (l : list (string * A)) k :
  forallb (fun kv => P (fst kv)) l = true -> P k = false -> lookup k l = None.
Proof.
  induction l as [|[k' v] l IH]; simpl; intros H Hk; [reflexivity|].
  apply andb_prop in H as [H1 H2]. rewrite (eqb_neq_of (fun s => negb (P s)) k k'); auto.
  - now rewrite Hk.
  - now rewrite H1.
Qed.

Lemma lookup_in {A} k (l : list (string * A)) v : lookup k l = Some v -> In k (map fst l).
Proof.
  induction l as [|[k' v'] l IH]; simpl; [discriminate|].
  destruct (String.eqb_spec k k') as [->|]; auto.
Qed.

(* ------------------------------------------------------------------------------------------ *)
(* token classes *)

Lemma is_operator_in t : is_operator t = true -> In t op_keys.
Proof.
  unfold is_operator, mem, op_keys. intros H. apply in_or_app.
  destruct (lookup t binary_ops) eqn:E1; [left; eapply lookup_in; eauto|].
  destruct (lookup t unary_ops) eqn:E2; [right; eapply lookup_in; eauto|discriminate].
Qed.

Lemma operator_not_number t : is_operator t = true -> is_number t = false /\ is_ident t = false.
Proof.
  intros H. apply is_operator_in in H.
  pose proof op_keys_not_number as K. rewrite forallb_forall in K. specialize (K t H).
  apply andb_prop in K as [K1 K2]. split; [now destruct (is_number t)|now destruct (is_ident t)].
Qed.

Lemma number_not_ident s : is_number s = true -> is_ident s = false.
Proof.
  unfold is_number, is_ident. destruct (chars_of s) as [|a l]; [reflexivity|].
  intros H. apply orb_prop in H as [H|H].
  - simpl in H. apply andb_prop in H as [H _].
    unfold is_digit, is_alpha, underscore, Ascii.eqb in *.
    destruct a as [[] [] [] [] [] [] [] []]; vm_compute in H |- *; try reflexivity; discriminate.
  - destruct l as [|b [|c l']]; try discriminate. apply andb_prop in H as [H _].
    destruct (Ascii.eqb_spec a "0"%char) as [->|]; [reflexivity|discriminate].
Qed.

(* closing tokens (literal, name, ")") never trigger the unary-minus rewriting of the next token *)
Definition closing (t : string) : Prop :=
  is_operator t = false /\ String.eqb t minus_marker = false /\ String.eqb t "(" = false.
Definition opening (prev : option string) : Prop :=
  match prev with None => True | Some p => is_operator p || String.eqb p minus_marker || String.eqb p "(" = true end.

Lemma closing_number s : is_number s = true -> closing s.
Proof.
  intros H. repeat split.
  - destruct (is_operator s) eqn:E; [|reflexivity]. apply operator_not_number in E as [E _]. congruence.
  - apply (eqb_neq_of is_number); [exact H|apply marker_facts].
  - apply (eqb_neq_of is_number); [exact H|reflexivity].
Qed.
Lemma closing_ident s : is_ident s = true -> closing s.
Proof.
  intros H. repeat split.
  - destruct (is_operator s) eqn:E; [|reflexivity]. apply operator_not_number in E as [_ E]. congruence.
  - apply (eqb_neq_of is_ident); [exact H|apply marker_facts].
  - apply (eqb_neq_of is_ident); [exact H|reflexivity].
Qed.
Lemma closing_rparen : closing ")".
Proof. vm_compute. repeat split. Qed.

Lemma name_ident s : is_name s = true -> is_ident s = true.
Proof. unfold is_name. intros H. now apply andb_prop in H as [H _]. Qed.

(* ------------------------------------------------------------------------------------------ *)
(* the token list after the rewriting pass *)
Definition ustrm (u : uop) : string := match u with UNeg => minus_marker | UInv => "~" | UUnknown => "?" end.
Fixpoint flatm (e : expr) : list string :=
  match e with
  | ELit s => [s] | EId s => [s]
  | ESizeof n => ["sizeof"; "("; n; ")"]
  | EPar e => "(" :: flatm e ++ [")"]
  | EUn u e => ustrm u :: flatm e
  | EBin b l r => flatm l ++ bstr b :: flatm r
  end.
Fixpoint lastm (e : expr) : string :=
  match e with
  | ELit s => s | EId s => s | ESizeof _ => ")" | EPar _ => ")" | EUn _ e => lastm e | EBin _ _ r => lastm r
  end.

Lemma lastm_closing e : forall p, wf p e = true -> closing (lastm e).
Proof.
  induction e as [s|s|n|e IH|u e IH|b l IHl r IHr]; intros p H; simpl in *.
  - now apply closing_number.
  - apply closing_ident. now apply name_ident.
  - apply closing_rparen.
  - apply closing_rparen.
  - apply andb_prop in H as [_ H]. eauto.
  - apply andb_prop in H as [_ H]. eauto.
Qed.

Lemma rewrite_tok_other prev t : String.eqb t "-" = false ->
  forall r, rewrite_go prev (t :: r) = t :: rewrite_go (Some t) r.
Proof. intros H r. simpl. now rewrite H. Qed.

Lemma not_minus_number s : is_number s = true -> String.eqb s "-" = false.
Proof. intros H. apply (eqb_neq_of is_number); [exact H|reflexivity]. Qed.
Lemma not_minus_ident s : is_ident s = true -> String.eqb s "-" = false.
Proof. intros H. apply (eqb_neq_of is_ident); [exact H|reflexivity]. Qed.

Lemma rewrite_flat e : forall p, wf p e = true -> forall prev rest, opening prev ->
  rewrite_go prev (flat e ++ rest) = flatm e ++ rewrite_go (Some (lastm e)) rest.
Proof.
  induction e as [s|s|n|e IH|u e IH|b l IHl r IHr]; intros p H prev rest Ho; simpl in H.
  - simpl. rewrite (not_minus_number s H). reflexivity.
  - simpl. rewrite (not_minus_ident s (name_ident s H)). reflexivity.
  - cbn [flat flatm lastm app]. rewrite rewrite_tok_other by reflexivity.
    rewrite rewrite_tok_other by reflexivity. rewrite rewrite_tok_other by (now apply not_minus_ident).
    rewrite rewrite_tok_other by reflexivity. reflexivity.
  - cbn [flat flatm lastm app]. rewrite rewrite_tok_other by reflexivity.
    rewrite <- app_assoc. rewrite (IH 0 H (Some "(") _) by reflexivity.
    rewrite <- app_assoc. cbn [app]. rewrite rewrite_tok_other by reflexivity. reflexivity.
  - apply andb_prop in H as [H Hw]. apply andb_prop in H as [Hu _].
    destruct u; try discriminate; cbn [flat flatm lastm app ustr ustrm].
    + (* unary minus: rewritten to the marker because prev is opening *)
      assert (R : forall r0, rewrite_go prev ("-" :: r0) = minus_marker :: rewrite_go (Some minus_marker) r0).
      { intros r0. simpl. destruct prev as [p0|]; [|reflexivity]. simpl in Ho. now rewrite Ho. }
      rewrite R. rewrite (IH 6 Hw); [reflexivity|].
      vm_compute. reflexivity.
    + rewrite rewrite_tok_other by reflexivity. rewrite (IH 6 Hw); reflexivity.
  - apply andb_prop in H as [H Hr]. apply andb_prop in H as [H Hl]. apply andb_prop in H as [Hb _].
    cbn [flat flatm lastm]. rewrite <- !app_assoc. rewrite (IHl _ Hl prev _ Ho). f_equal.
    cbn [app].
    assert (R : rewrite_go (Some (lastm l)) (bstr b :: flat r ++ rest) = bstr b :: rewrite_go (Some (bstr b)) (flat r ++ rest)).
    { destruct (lastm_closing l _ Hl) as (C1 & C2 & C3).
      simpl. rewrite C1, C2, C3. simpl. now destruct (String.eqb (bstr b) "-"). }
    rewrite R. f_equal. apply (IHr _ Hr). destruct b; try discriminate; reflexivity.
Qed.

Theorem rewrite_minus_flat e : wf 0 e = true -> rewrite_minus (flat e) = flatm e.
Proof.
  intros H. unfold rewrite_minus. rewrite <- (app_nil_r (flat e)).
  rewrite (rewrite_flat e 0 H None [] I). simpl. now rewrite app_nil_r.
Qed.

(* the rewriting pass is idempotent on every token list *)
Definition rw1 (prev : option string) (t : string) : string :=
  if String.eqb t "-" then
    match prev with
    | None => minus_marker
    | Some p => if is_operator p || String.eqb p minus_marker || String.eqb p "(" then minus_marker else t
    end
  else t.
Lemma rewrite_go_cons prev t r : rewrite_go prev (t :: r) = rw1 prev t :: rewrite_go (Some (rw1 prev t)) r.
Proof. reflexivity. Qed.
Lemma rw1_idem prev t : rw1 prev (rw1 prev t) = rw1 prev t.
Proof.
  destruct marker_facts as (_ & _ & M & _).
  unfold rw1. destruct (String.eqb t "-") eqn:Et.
  - destruct prev as [p0|].
    + destruct (is_operator p0 || String.eqb p0 minus_marker || String.eqb p0 "(") eqn:Ec;
        rewrite ?M, ?Et, ?Ec; reflexivity.
    + rewrite M. reflexivity.
  - rewrite Et. reflexivity.
Qed.
Lemma rewrite_idem l : forall prev, rewrite_go prev (rewrite_go prev l) = rewrite_go prev l.
Proof.
  induction l as [|t r IH]; intros prev; [reflexivity|].
  rewrite !rewrite_go_cons, rw1_idem. f_equal. apply IH.
Qed.

(* ------------------------------------------------------------------------------------------ *)
(* the machine, item by item *)
Section Machine.
  Variable ctx consts : list (string * Z).
  Variable sz : string -> option Z.
  Hypothesis Hctx : names_ok ctx = true.
  Hypothesis Hconsts : names_ok consts = true.

  Notation run := (run ctx consts sz).
  Notation denote := (denote ctx consts sz).

  Lemma env_none t : is_name t = false -> lookup t ctx = None /\ lookup t consts = None.
  Proof. intros H. split; apply (lookup_none_of is_name); auto. Qed.

  Inductive item := ILit (s : string) | IId (s : string) | ISizeof (n : string) | IB (b : bop) | IU (u : uop) | IL | IR.
  Definition istr (i : item) : list string :=
    match i with
    | ILit s => [s] | IId s => [s] | ISizeof n => ["sizeof"; "("; n; ")"]
    | IB b => [bstr b] | IU u => [ustrm u] | IL => ["("] | IR => [")"]
    end.
  Definition ilast (i : item) : string :=
    match i with ILit s => s | IId s => s | ISizeof _ => ")" | IB b => bstr b | IU u => ustrm u | IL => "(" | IR => ")" end.
  Definition item_ok (i : item) : bool :=
    match i with
    | ILit s => is_number s | IId s => is_name s | ISizeof _ => true
    | IB b => bknown b | IU u => uknown u | IL | IR => true
    end.

  Definition istep (prev : option string) (i : item) (s : list string) (q : list Z) : option (list string * list Z) :=
    match i with
    | ILit t => match parse_int t with Some v => Some (s, v :: q) | None => None end
    | IId t => match lookup t ctx with
               | Some v => Some (s, v :: q)
               | None => match lookup t consts with Some v => Some (s, v :: q) | None => None end
               end
    | ISizeof n => match sz n with Some v => Some (s, v :: q) | None => None end
    | IU u => Some (ustrm u :: s, q)
    | IB b => match reduce_for (bstr b) s q with Some (s', q') => Some (bstr b :: s', q') | None => None end
    | IL => match prev with
            | Some p => if is_number p then None else Some ("(" :: s, q)
            | None => Some ("(" :: s, q)
            end
    | IR => match prev with
            | Some p => if String.eqb p "(" then None else reduce_paren s q
            | None => reduce_paren s q
            end
    end.

  Lemma reduce_paren_nil_guard s q :
    match s with [] => None | _ => match reduce_paren s q with Some (s', q') => Some (s', q') | None => None end end = reduce_paren s q.
  Proof. destruct s; [reflexivity|]. destruct (reduce_paren (s :: s0) q) as [[? ?]|]; reflexivity. Qed.

  Lemma run_item i : item_ok i = true -> forall prev rest s q,
    run prev (istr i ++ rest) s q =
    match istep prev i s q with Some (s', q') => run (Some (ilast i)) rest s' q' | None => None end.
  Proof.
    destruct i as [t|t|n|b|u| |]; intros Hok prev rest s q; simpl in Hok.
    - (* literal *) cbn [istr app Expr.run istep]. rewrite Hok. destruct (parse_int t); reflexivity.
    - (* identifier *)
      cbn [istr app Expr.run istep ilast].
      pose proof (name_ident t Hok) as Hid.
      assert (is_number t = false) as ->.
      { destruct (is_number t) eqn:E; [|reflexivity]. apply number_not_ident in E. congruence. }
      destruct (lookup t ctx); [reflexivity|]. destruct (lookup t consts); [reflexivity|].
      destruct (closing_ident t Hid) as (C1 & C2 & C3).
      assert (mem t unary_ops = false) as ->.
      { unfold is_operator in C1. apply orb_false_elim in C1 as [_ C1]. exact C1. }
      assert (String.eqb t "sizeof" = false) as ->.
      { unfold is_name in Hok. apply andb_prop in Hok as [_ Hok]. now destruct (String.eqb t "sizeof"). }
      rewrite C1, C3. rewrite (eqb_neq_of is_ident t ")" Hid eq_refl). reflexivity.
    - (* sizeof *)
      cbn [istr app istep ilast].
      destruct (env_none "sizeof" eq_refl) as [E1 E2].
      cbn [Expr.run]. change (is_number "sizeof") with false. cbv iota. rewrite E1, E2.
      change (mem "sizeof" unary_ops) with false. cbv iota.
      change (String.eqb "sizeof" "sizeof") with true. cbv iota.
      change (String.eqb "(" "(" && String.eqb ")" ")") with true. cbv iota.
      destruct (sz n); reflexivity.
    - (* binary operator *)
      cbn [istr app istep ilast].
      assert (Hn : is_name (bstr b) = false) by (destruct b; reflexivity).
      destruct (env_none _ Hn) as [E1 E2].
      cbn [Expr.run]. rewrite E1, E2.
      assert (is_number (bstr b) = false) as -> by (destruct b; reflexivity).
      assert (mem (bstr b) unary_ops = false) as -> by (destruct b; try discriminate; reflexivity).
      assert (String.eqb (bstr b) "sizeof" = false) as -> by (destruct b; reflexivity).
      assert (is_operator (bstr b) = true) as -> by (destruct b; try discriminate; reflexivity).
      destruct (reduce_for (bstr b) s q) as [[s' q']|]; reflexivity.
    - (* unary operator *)
      cbn [istr app istep ilast].
      assert (Hn : is_name (ustrm u) = false) by (destruct u; reflexivity).
      destruct (env_none _ Hn) as [E1 E2].
      cbn [Expr.run]. rewrite E1, E2.
      assert (is_number (ustrm u) = false) as -> by (destruct u; reflexivity).
      assert (mem (ustrm u) unary_ops = true) as -> by (destruct u; try discriminate; reflexivity).
      reflexivity.
    - (* ( *)
      cbn [istr app istep ilast].
      destruct (env_none "(" eq_refl) as [E1 E2].
      cbn [Expr.run]. change (is_number "(") with false. cbv iota. rewrite E1, E2.
      change (mem "(" unary_ops) with false. change (String.eqb "(" "sizeof") with false.
      change (is_operator "(") with false. change (String.eqb "(" "(") with true. cbv iota.
      destruct prev as [p|]; [destruct (is_number p)|]; reflexivity.
    - (* ) *)
      cbn [istr app istep ilast].
      destruct (env_none ")" eq_refl) as [E1 E2].
      cbn [Expr.run]. change (is_number ")") with false. cbv iota. rewrite E1, E2.
      change (mem ")" unary_ops) with false. change (String.eqb ")" "sizeof") with false.
      change (is_operator ")") with false. change (String.eqb ")" "(") with false. change (String.eqb ")" ")") with true.
      cbv iota.
      destruct prev as [p|]; [destruct (String.eqb p "(")|]; try reflexivity.
      + destruct s as [|a s0]; [reflexivity|]. destruct (reduce_paren (a :: s0) q) as [[? ?]|]; reflexivity.
      + destruct s as [|a s0]; [reflexivity|]. destruct (reduce_paren (a :: s0) q) as [[? ?]|]; reflexivity.
  Qed.

  Fixpoint trun (prev : option string) (l : list item) (s : list string) (q : list Z)
    : option (option string * list string * list Z) :=
    match l with
    | [] => Some (prev, s, q)
    | i :: r => match istep prev i s q with Some (s', q') => trun (Some (ilast i)) r s' q' | None => None end
    end.

  Lemma run_items l : forallb item_ok l = true -> forall prev rest s q,
    run prev (List.concat (map istr l) ++ rest) s q =
    match trun prev l s q with Some (pv, s', q') => run pv rest s' q' | None => None end.
  Proof.
    induction l as [|i l IH]; intros Hok prev rest s q; [reflexivity|].
    simpl in Hok. apply andb_prop in Hok as [Hi Hl].
    cbn [map List.concat trun]. rewrite <- app_assoc. rewrite (run_item i Hi).
    destruct (istep prev i s q) as [[s' q']|]; [|reflexivity]. apply IH; assumption.
  Qed.

  Lemma trun_app l1 l2 prev s q :
    trun prev (l1 ++ l2) s q = match trun prev l1 s q with Some (pv, s', q') => trun pv l2 s' q' | None => None end.
  Proof.
    revert prev s q. induction l1 as [|i l IH]; intros prev s q; [reflexivity|].
    cbn [app trun]. destruct (istep prev i s q) as [[s' q']|]; [apply IH|reflexivity].
  Qed.

  (* ---------------------------------------------------------------------------------------- *)
  (* generic reduction at level r; the three loops of the code are instances *)
  Fixpoint reduce (r : Z) (s : list string) (q : list Z) : option (list string * list Z) :=
    match s with
    | [] => Some ([], q)
    | top :: s' =>
      if String.eqb top "(" then Some (s, q)
      else match prec top with
           | Some a => if a >=? r
                       then match apply_op top q with Some q' => reduce r s' q' | None => None end
                       else Some (s, q)
           | None => None
           end
    end.

  Definition tok_ok (t : string) : Prop := t = "(" \/ exists a, prec t = Some a /\ 0 <= a.
  Definition stack_ok (s : list string) : Prop := Forall tok_ok s.

  Lemma reduce_for_eq t r s q : prec t = Some r -> reduce_for t s q = reduce r s q.
  Proof.
    intros Ht. revert q. induction s as [|top s IH]; intros q; [reflexivity|].
    cbn [reduce_for reduce]. destruct (String.eqb top "("); [reflexivity|].
    rewrite Ht. destruct (prec top) as [a|]; [|reflexivity].
    rewrite prec_cmp_is_ge. cbn [cmp_apply].
    destruct (a >=? r); [|reflexivity]. destruct (apply_op top q); [apply IH|reflexivity].
  Qed.

  Lemma reduce_paren_eq s : stack_ok s -> forall q,
    reduce_paren s q =
    match reduce 0 s q with Some (t :: s', q') => if String.eqb t "(" then Some (s', q') else None | _ => None end.
  Proof.
    induction 1 as [|top s Ht Hs IH]; intros q; [reflexivity|].
    cbn [reduce_paren reduce]. destruct (String.eqb top "(") eqn:E; [now rewrite E|].
    destruct Ht as [->|(a & Ha & Ha0)]; [discriminate|]. rewrite Ha.
    assert (a >=? 0 = true) as -> by lia.
    destruct (apply_op top q); [apply IH|reflexivity].
  Qed.

  Lemma reduce_all_eq s : stack_ok s -> forall q,
    reduce_all s q = match reduce 0 s q with Some ([], q') => Some q' | _ => None end.
  Proof.
    induction 1 as [|top s Ht Hs IH]; intros q; [reflexivity|].
    cbn [reduce_all reduce]. destruct (String.eqb top "(") eqn:E; [reflexivity|].
    destruct Ht as [->|(a & Ha & Ha0)]; [discriminate|]. rewrite Ha.
    assert (a >=? 0 = true) as -> by lia.
    destruct (apply_op top q); [apply IH|reflexivity].
  Qed.

  Lemma reduce_suffix r s : forall q s' q', reduce r s q = Some (s', q') -> exists pre, s = pre ++ s'.
  Proof.
    induction s as [|top s IH]; intros q s' q' H; cbn [reduce] in H.
    - inversion H; subst. now exists [].
    - destruct (String.eqb top "("); [inversion H; subst; now exists []|].
      destruct (prec top) as [a|]; [|discriminate].
      destruct (a >=? r); [|inversion H; subst; now exists []].
      destruct (apply_op top q) as [q1|]; [|discriminate].
      destruct (IH _ _ _ H) as [pre ->]. now exists (top :: pre).
  Qed.

  Lemma stack_ok_suffix pre s : stack_ok (pre ++ s) -> stack_ok s.
  Proof. unfold stack_ok. rewrite Forall_app. tauto. Qed.

  Lemma tok_ok_b b : bknown b = true -> tok_ok (bstr b) /\ prec (bstr b) = Some (bprec b).
  Proof. destruct b; try discriminate; intros _; (split; [right; eexists; split; [reflexivity|simpl; lia]|reflexivity]). Qed.
  Lemma tok_ok_u u : uknown u = true -> tok_ok (ustrm u) /\ prec (ustrm u) = Some 6.
  Proof. destruct u; try discriminate; intros _; (split; [right; eexists; split; [reflexivity|lia]|reflexivity]). Qed.

  Lemma istep_stack_ok prev i s q s' q' : item_ok i = true -> stack_ok s -> istep prev i s q = Some (s', q') -> stack_ok s'.
  Proof.
    intros Hok Hs H. destruct i as [t|t|n|b|u| |]; cbn [istep] in H; simpl in Hok.
    - destruct (parse_int t); inversion H; subst; auto.
    - destruct (lookup t ctx); [inversion H; subst; auto|]. destruct (lookup t consts); inversion H; subst; auto.
    - destruct (sz n); inversion H; subst; auto.
    - destruct (tok_ok_b b Hok) as [T P]. rewrite (reduce_for_eq _ _ _ _ P) in H.
      destruct (reduce (bprec b) s q) as [[s1 q1]|] eqn:E; [|discriminate]. inversion H; subst.
      destruct (reduce_suffix _ _ _ _ _ E) as [pre ->]. constructor; [exact T|eapply stack_ok_suffix; eauto].
    - inversion H; subst. constructor; [apply (tok_ok_u u Hok)|exact Hs].
    - destruct prev as [p|]; [destruct (is_number p); [discriminate|]|]; inversion H; subst; constructor; auto; now left.
    - assert (R : reduce_paren s q = Some (s', q')).
      { destruct prev as [p|]; [destruct (String.eqb p "("); [discriminate|]|]; exact H. }
      rewrite (reduce_paren_eq s Hs) in R.
      destruct (reduce 0 s q) as [[[|t s1] q1]|] eqn:E; try discriminate.
      destruct (String.eqb t "("); [|discriminate]. inversion R; subst.
      destruct (reduce_suffix _ _ _ _ _ E) as [pre ->].
      apply stack_ok_suffix in Hs. now inversion Hs.
  Qed.

  Lemma trun_stack_ok l : forallb item_ok l = true -> forall prev s q pv s' q',
    stack_ok s -> trun prev l s q = Some (pv, s', q') -> stack_ok s'.
  Proof.
    induction l as [|i l IH]; intros Hok prev s q pv s' q' Hs H; cbn [trun] in H.
    - now inversion H; subst.
    - simpl in Hok. apply andb_prop in Hok as [Hi Hl].
      destruct (istep prev i s q) as [[s1 q1]|] eqn:E; [|discriminate].
      eapply (IH Hl _ s1 q1); [|exact H]. eapply istep_stack_ok; eauto.
  Qed.

  (* ---------------------------------------------------------------------------------------- *)
  Fixpoint items (e : expr) : list item :=
    match e with
    | ELit s => [ILit s] | EId s => [IId s] | ESizeof n => [ISizeof n]
    | EPar e => IL :: items e ++ [IR]
    | EUn u e => IU u :: items e
    | EBin b l r => items l ++ IB b :: items r
    end.

  Lemma items_flatm e : List.concat (map istr (items e)) = flatm e.
  Proof.
    induction e as [s|s|n|e IH|u e IH|b l IHl r IHr]; cbn [items map List.concat flatm istr app]; try reflexivity.
    - rewrite map_app, concat_app, IH. simpl. reflexivity.
    - now rewrite IH.
    - rewrite map_app, concat_app. cbn [map List.concat istr app]. now rewrite IHl, IHr.
  Qed.

  Lemma items_ok e : forall p, wf p e = true -> forallb item_ok (items e) = true.
  Proof.
    induction e as [s|s|n|e IH|u e IH|b l IHl r IHr]; intros p H; simpl in H; cbn [items forallb item_ok].
    - now rewrite H.
    - now rewrite H.
    - reflexivity.
    - rewrite forallb_app, (IH 0 H). reflexivity.
    - apply andb_prop in H as [H Hw]. apply andb_prop in H as [Hu _]. now rewrite Hu, (IH 6 Hw).
    - apply andb_prop in H as [H Hr]. apply andb_prop in H as [H Hl]. apply andb_prop in H as [Hb _].
      rewrite forallb_app. cbn [forallb item_ok]. now rewrite (IHl _ Hl), Hb, (IHr _ Hr).
  Qed.

  Lemma trun_prev e : forall prev s q pv s' q', trun prev (items e) s q = Some (pv, s', q') -> pv = Some (lastm e).
  Proof.
    induction e as [t|t|n|e IH|u e IH|b l IHl r IHr]; intros prev s q pv s' q' H; cbn [items] in H.
    - cbn [trun] in H. destruct (istep prev (ILit t) s q) as [[? ?]|]; inversion H; reflexivity.
    - cbn [trun] in H. destruct (istep prev (IId t) s q) as [[? ?]|]; inversion H; reflexivity.
    - cbn [trun] in H. destruct (istep prev (ISizeof n) s q) as [[? ?]|]; inversion H; reflexivity.
    - cbn [trun] in H. destruct (istep prev IL s q) as [[s1 q1]|]; [|discriminate].
      rewrite trun_app in H. destruct (trun (Some (ilast IL)) (items e) s1 q1) as [[[pv1 s2] q2]|]; [|discriminate].
      cbn [trun] in H. destruct (istep pv1 IR s2 q2) as [[? ?]|]; inversion H; reflexivity.
    - cbn [trun] in H. destruct (istep prev (IU u) s q) as [[s1 q1]|]; [|discriminate]. eapply IH; eauto.
    - rewrite trun_app in H. destruct (trun prev (items l) s q) as [[[pv1 s1] q1]|]; [|discriminate].
      cbn [trun] in H. destruct (istep pv1 (IB b) s1 q1) as [[s2 q2]|]; [|discriminate]. eapply IHr; eauto.
  Qed.

  Definition guard (p : Z) (s : list string) : Prop :=
    6 <= p \/ match s with
              | [] => True
              | t :: _ => t = "(" \/ exists a, prec t = Some a /\ a < p
              end.

  Lemma reduce_guard r p s q : guard p s -> p <= r -> r <= 5 -> reduce r s q = Some (s, q).
  Proof.
    intros [H|H] Hpr Hr; [lia|].
    destruct s as [|t s]; [reflexivity|]. cbn [reduce].
    destruct H as [->|(a & Ha & Hlt)]; [reflexivity|].
    destruct (String.eqb t "("); [reflexivity|]. rewrite Ha.
    assert (a >=? r = false) as -> by lia. reflexivity.
  Qed.

  Definition obind {A B} (o : option A) (f : A -> option B) : option B := match o with Some a => f a | None => None end.

  Definition prev_ok (prev : option string) : Prop :=
    match prev with Some p => is_number p = false | None => True end.

  Lemma lastm_not_lparen e p : wf p e = true -> String.eqb (lastm e) "(" = false.
  Proof. intros H. now destruct (lastm_closing e p H) as (_ & _ & C). Qed.

  Lemma main : forall e p, wf p e = true -> forall prev s q r, prev_ok prev -> stack_ok s -> guard p s -> r <= p ->
    obind (trun prev (items e) s q) (fun '(_, s', q') => reduce r s' q') =
    obind (denote e) (fun v => reduce r s (v :: q)).
  Proof.
    induction e as [t|t|n|e IH|u e IH|b l IHl r' IHr]; intros p Hwf prev s q r Hp Hs Hg Hr; simpl in Hwf.
    - cbn [items trun istep denote]. destruct (parse_int t); reflexivity.
    - cbn [items trun istep denote]. destruct (lookup t ctx); [reflexivity|]. destruct (lookup t consts); reflexivity.
    - cbn [items trun istep denote]. destruct (sz n); reflexivity.
    - (* parenthesised *)
      cbn [items trun denote]. unfold istep at 1.
      assert (Hstep : match prev with Some p0 => if is_number p0 then None else Some ("(" :: s, q) | None => Some ("(" :: s, q) end
                      = Some ("(" :: s, q)).
      { destruct prev as [p0|]; [simpl in Hp; now rewrite Hp|reflexivity]. }
      rewrite Hstep. rewrite trun_app.
      assert (Hs1 : stack_ok ("(" :: s)) by (constructor; [now left|exact Hs]).
      assert (G : guard 0 ("(" :: s)) by (right; now left).
      pose proof (IH 0 Hwf (Some (ilast IL)) ("(" :: s) q 0 eq_refl Hs1 G (Z.le_refl _)) as M.
      destruct (trun (Some (ilast IL)) (items e) ("(" :: s) q) as [[[pv1 s1] q1]|] eqn:Et; cbn [obind] in M |- *.
      + pose proof (trun_prev e _ _ _ _ _ _ Et) as ->.
        pose proof (trun_stack_ok _ (items_ok e 0 Hwf) _ _ _ _ _ _ Hs1 Et) as Hs2.
        cbn [trun istep]. rewrite (lastm_not_lparen e 0 Hwf).
        rewrite (reduce_paren_eq s1 Hs2). rewrite M.
        destruct (denote e) as [v|]; cbn [obind]; [|reflexivity].
        cbn [reduce]. change (String.eqb "(" "(") with true. cbv iota. reflexivity.
      + destruct (denote e) as [v|]; cbn [obind] in M |- *; [|reflexivity].
        cbn [reduce] in M. change (String.eqb "(" "(") with true in M. discriminate.
    - (* unary *)
      apply andb_prop in Hwf as [Hwf Hw]. apply andb_prop in Hwf as [Hu Hp6]. apply Z.leb_le in Hp6.
      cbn [items trun istep denote].
      destruct (tok_ok_u u Hu) as [T P].
      assert (Hs1 : stack_ok (ustrm u :: s)) by (constructor; assumption).
      assert (G : guard 6 (ustrm u :: s)) by (left; lia).
      assert (Hpv : prev_ok (Some (ilast (IU u)))) by (destruct u; try discriminate; reflexivity).
      rewrite (IH 6 Hw _ (ustrm u :: s) q r Hpv Hs1 G ltac:(lia)).
      destruct (denote e) as [v|]; cbn [obind]; [|reflexivity].
      cbn [reduce]. assert (String.eqb (ustrm u) "(" = false) as -> by (destruct u; try discriminate; reflexivity).
      rewrite P. assert (6 >=? r = true) as -> by lia.
      unfold apply_op. assert (lookup (ustrm u) unary_ops = Some u) as -> by (destruct u; try discriminate; reflexivity).
      destruct (uapply u v); reflexivity.
    - (* binary *)
      apply andb_prop in Hwf as [Hwf Hwr]. apply andb_prop in Hwf as [Hwf Hwl]. apply andb_prop in Hwf as [Hb Hpb].
      apply Z.leb_le in Hpb.
      destruct (tok_ok_b b Hb) as [T P].
      assert (Hb5 : bprec b <= 5) by (destruct b; simpl; lia).
      cbn [items denote]. rewrite trun_app.
      assert (Gl : guard (bprec b) s).
      { destruct Hg as [Hg|Hg]; [lia|]. right. destruct s as [|t0 s0]; [exact I|].
        destruct Hg as [->|(a & Ha & Hlt)]; [now left|]. right. exists a. split; [exact Ha|lia]. }
      pose proof (IHl (bprec b) Hwl prev s q (bprec b) Hp Hs Gl (Z.le_refl _)) as Ml.
      destruct (trun prev (items l) s q) as [[[pv1 s1] q1]|] eqn:Et; cbn [obind] in Ml |- *.
      + pose proof (trun_stack_ok _ (items_ok l _ Hwl) _ _ _ _ _ _ Hs Et) as Hs1.
        cbn [trun istep]. rewrite (reduce_for_eq _ _ _ _ P). rewrite Ml.
        destruct (denote l) as [vl|]; cbn [obind]; [|reflexivity].
        rewrite (reduce_guard (bprec b) (bprec b) s (vl :: q) Gl (Z.le_refl _) Hb5).
        assert (Hs2 : stack_ok (bstr b :: s)) by (constructor; assumption).
        assert (Gr : guard (bprec b + 1) (bstr b :: s)).
        { right. right. exists (bprec b). split; [exact P|lia]. }
        assert (Hpv : prev_ok (Some (ilast (IB b)))) by (destruct b; try discriminate; reflexivity).
        rewrite (IHr (bprec b + 1) Hwr _ (bstr b :: s) (vl :: q) r Hpv Hs2 Gr ltac:(lia)).
        destruct (denote r') as [vr|]; cbn [obind]; [|reflexivity].
        cbn [reduce]. assert (String.eqb (bstr b) "(" = false) as -> by (destruct b; try discriminate; reflexivity).
        rewrite P. assert (bprec b >=? r = true) as -> by lia.
        unfold apply_op.
        assert (lookup (bstr b) unary_ops = None) as -> by (destruct b; try discriminate; reflexivity).
        assert (lookup (bstr b) binary_ops = Some b) as -> by (destruct b; try discriminate; reflexivity).
        destruct (bapply b vl vr); reflexivity.
      + destruct (denote l) as [vl|]; cbn [obind] in Ml |- *; [|reflexivity].
        rewrite (reduce_guard (bprec b) (bprec b) s (vl :: q) Gl (Z.le_refl _) Hb5) in Ml. discriminate.
  Qed.

  Theorem evaluate_flat e : wf 0 e = true -> evaluate ctx consts sz (flat e) = denote e.
  Proof.
    intros H. unfold evaluate, eval_obj. cbn [fst]. rewrite (rewrite_minus_flat e H).
    unfold evaluate_tokens. rewrite <- (items_flatm e). rewrite <- (app_nil_r (List.concat _)).
    rewrite (run_items _ (items_ok e 0 H)).
    pose proof (main e 0 H None [] [] 0 I (Forall_nil _) (or_intror I) (Z.le_refl _)) as M.
    destruct (trun None (items e) [] []) as [[[pv s1] q1]|] eqn:Et; cbn [obind] in M.
    - pose proof (trun_stack_ok _ (items_ok e 0 H) _ _ _ _ _ _ (Forall_nil _) Et) as Hs1.
      cbn [Expr.run]. rewrite (reduce_all_eq s1 Hs1). rewrite M.
      destruct (denote e) as [v|]; reflexivity.
    - destruct (denote e) as [v|]; [discriminate|reflexivity].
  Qed.
End Machine.

(* re-evaluating one Expression object, with any sequence of contexts, gives what fresh objects give *)
Theorem history_is_fresh consts sz tokens ctxs :
  eval_history consts sz tokens ctxs = map (fun c => evaluate c consts sz tokens) ctxs.
Proof.
  revert tokens. induction ctxs as [|c r IH]; intros tokens; [reflexivity|].
  cbn [eval_history map]. unfold eval_obj at 1. f_equal.
  rewrite IH. apply map_ext. intros c'. unfold evaluate, eval_obj. cbn [fst].
  unfold rewrite_minus. now rewrite rewrite_idem.
Qed.
