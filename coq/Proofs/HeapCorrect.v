From Coq Require Import Lia.
From VF Require Import Model.Heap.
Open Scope list_scope. Open Scope nat_scope.

(* a strong induction principle for the nested types *)
Section Ind.
  Variable P : shape -> Prop.
  Hypothesis Ha : P SAtom.
  Hypothesis Hn : forall cs, Forall P cs -> P (SNode cs).
  Fixpoint shape_ind' (s : shape) : P s :=
    match s with
    | SAtom => Ha
    | SNode cs => Hn cs ((fix go (cs : list shape) : Forall P cs :=
                            match cs with [] => Forall_nil _ | c :: r => Forall_cons c (shape_ind' c) (go r) end) cs)
    end.
End Ind.

(* allocation uses exactly the cells [next, next') *)
Lemma alloc_range : forall s next, let '(t, n) := alloc s next in next <= n /\ forall l, In l (locs t) -> next <= l < n.
Proof.
  induction s as [|cs IH] using shape_ind'; intros next.
  - simpl. split; [lia|]. intros l [<-|[]]. lia.
  - cbn [alloc].
    set (go := fix go (cs : list shape) (next : nat) : list tree * nat := match cs with [] => ([], next) | c :: r => let '(t, n1) := alloc c next in let '(ts, n2) := go r n1 in (t :: ts, n2) end).
    assert (G : forall cs0, Forall (fun s => forall next, let '(t, n) := alloc s next in next <= n /\ forall l, In l (locs t) -> next <= l < n) cs0 ->
                forall nx, let '(ts, n) := go cs0 nx in nx <= n /\ forall l, In l (locs (TNode ts)) -> nx <= l < n).
    { induction 1 as [|c r Hc Hr IHr]; intros nx; cbn [go].
      - split; [lia|]. intros l [].
      - specialize (Hc nx). destruct (alloc c nx) as [t n1]. destruct Hc as [H1 H2].
        specialize (IHr n1). destruct (go r n1) as [ts n2]. destruct IHr as [H3 H4].
        split; [lia|]. intros l Hl. cbn [locs] in Hl. apply in_app_or in Hl as [Hl|Hl].
        + specialize (H2 l Hl). lia.
        + specialize (H4 l Hl). lia. }
    specialize (G cs IH next). destruct (go cs next) as [ts n]. exact G.
Qed.

Lemma observe_ext h1 h2 t : (forall l, In l (locs t) -> h1 l = h2 l) -> observe h1 t = observe h2 t.
Proof.
  revert t. fix IHt 1. intros [l|ts] H.
  - simpl. f_equal. apply H. now left.
  - cbn [observe]. f_equal.
    induction ts as [|x r IHr]; [reflexivity|]. f_equal.
    + apply IHt. intros l Hl. apply H. cbn [locs]. apply in_or_app. now left.
    + apply IHr. intros l Hl. apply H. cbn [locs]. apply in_or_app. now right.
Qed.

(* the invariant over every reachable world: instances use cells below `next`, and pairwise disjoint cells *)
Definition Inv (w : world) : Prop :=
  (forall t l, In t (w_insts w) -> In l (locs t) -> l < w_next w) /\
  (forall i j ti tj, i <> j -> nth_error (w_insts w) i = Some ti -> nth_error (w_insts w) j = Some tj ->
                     forall l, In l (locs ti) -> ~ In l (locs tj)).

Lemma inv_w0 : Inv w0.
Proof. split; [intros t l []|]. intros i j ti tj _ H. destruct i; discriminate. Qed.

Lemma inv_step w o : Inv w -> Inv (hstep w o).
Proof.
  intros [Hb Hd]. destruct o as [s|l v]; cbn [hstep]; [|split; assumption].
  pose proof (alloc_range s (w_next w)) as R. destruct (alloc s (w_next w)) as [t n]. destruct R as [Rn Rl].
  split; cbn [w_insts w_next].
  - intros t0 l Ht Hl. apply in_app_or in Ht as [Ht|[<-|[]]].
    + specialize (Hb t0 l Ht Hl). lia.
    + specialize (Rl l Hl). lia.
  - intros i j ti tj Hij Hi Hj l Hli Hlj.
    assert (Old : forall k tk, nth_error (w_insts w ++ [t]) k = Some tk -> (k < length (w_insts w) /\ nth_error (w_insts w) k = Some tk) \/ (k = length (w_insts w) /\ tk = t)).
    { intros k tk Hk. destruct (Nat.lt_ge_cases k (length (w_insts w))) as [Lt|Ge].
      - left. split; [exact Lt|]. now rewrite nth_error_app1 in Hk.
      - right. rewrite nth_error_app2 in Hk by exact Ge. destruct (k - length (w_insts w)) eqn:E; cbn in Hk.
        + split; [lia|congruence].
        + destruct n0; discriminate. }
    destruct (Old i ti Hi) as [[Li Ei]|[Li ->]], (Old j tj Hj) as [[Lj Ej]|[Lj ->]].
    + exact (Hd i j ti tj Hij Ei Ej l Hli Hlj).
    + specialize (Hb ti l (nth_error_In _ _ Ei) Hli). specialize (Rl l Hlj). lia.
    + specialize (Hb tj l (nth_error_In _ _ Ej) Hlj). specialize (Rl l Hli). lia.
    + lia.
Qed.

Theorem inv_reachable ops : Inv (hrun ops w0).
Proof.
  unfold hrun. generalize inv_w0. generalize w0. induction ops as [|o r IH]; intros w H; [exact H|].
  cbn [fold_left]. apply IH. now apply inv_step.
Qed.

(* mutating a cell of one instance never changes what another instance shows *)
Theorem mutation_is_local ops i j ti tj l v : i <> j ->
  let w := hrun ops w0 in
  nth_error (w_insts w) i = Some ti -> nth_error (w_insts w) j = Some tj -> In l (locs ti) ->
  observe (w_store (hstep w (HSet l v))) tj = observe (w_store w) tj.
Proof.
  intros Hij w Hi Hj Hl. destruct (inv_reachable ops) as [_ Hd]. fold w in Hd.
  apply observe_ext. intros k Hk. cbn [hstep w_store]. unfold upd.
  destruct (Nat.eqb_spec k l) as [->|]; [|reflexivity].
  exfalso. exact (Hd i j ti tj Hij Hi Hj l Hl Hk).
Qed.

(* a default construction always yields the zero value of its shape, whatever happened before, and leaves every existing instance as it was *)
Fixpoint zero_obs (s : shape) : obs :=
  match s with
  | SAtom => OAtom 0%Z
  | SNode cs => ONode ((fix go (cs : list shape) : list obs := match cs with [] => [] | c :: r => zero_obs c :: go r end) cs)
  end.

Lemma observe_alloc_zero : forall s next h, (forall k, next <= k -> h k = 0%Z) -> observe h (fst (alloc s next)) = zero_obs s.
Proof.
  induction s as [|cs IH] using shape_ind'; intros next h Hz.
  - simpl. f_equal. apply Hz. lia.
  - cbn [alloc zero_obs].
    set (go := fix go (cs : list shape) (next : nat) : list tree * nat := match cs with [] => ([], next) | c :: r => let '(t, n1) := alloc c next in let '(ts, n2) := go r n1 in (t :: ts, n2) end).
    assert (G : forall cs0, Forall (fun s => forall next h, (forall k, next <= k -> h k = 0%Z) -> observe h (fst (alloc s next)) = zero_obs s) cs0 ->
                forall nx, (forall k, nx <= k -> h k = 0%Z) ->
                (fix ob (ts : list tree) : list obs := match ts with [] => [] | x :: r => observe h x :: ob r end) (fst (go cs0 nx)) =
                (fix zo (cs : list shape) : list obs := match cs with [] => [] | c :: r => zero_obs c :: zo r end) cs0).
    { induction 1 as [|c r Hc Hr IHr]; intros nx Hnx; cbn [go]; [reflexivity|].
      pose proof (alloc_range c nx) as R. specialize (Hc nx h Hnx). destruct (alloc c nx) as [t n1]. cbn [fst] in Hc. destruct R as [R1 _].
      specialize (IHr n1 ltac:(intros k Hk; apply Hnx; lia)). destruct (go r n1) as [ts n2]. cbn [fst] in *. now rewrite Hc, IHr. }
    specialize (G cs IH next Hz). destruct (go cs next) as [ts n]. cbn [fst] in *. cbn [observe]. now rewrite G.
Qed.

Theorem default_is_stable ops s :
  let w := hrun ops w0 in let w' := hstep w (HNew s) in
  (exists t, nth_error (w_insts w') (length (w_insts w)) = Some t /\ observe (w_store w') t = zero_obs s) /\
  (forall j tj, nth_error (w_insts w) j = Some tj -> observe (w_store w') tj = observe (w_store w) tj).
Proof.
  intros w w'. subst w'. cbn [hstep]. destruct (inv_reachable ops) as [Hb _]. fold w in Hb.
  pose proof (observe_alloc_zero s (w_next w) (fun k => if Nat.leb (w_next w) k then 0%Z else w_store w k)) as Z0.
  destruct (alloc s (w_next w)) as [t n] eqn:E. cbn [w_insts w_store fst] in *. split.
  - exists t. split.
    + rewrite nth_error_app2 by lia. now rewrite Nat.sub_diag.
    + apply Z0. intros k Hk. apply Nat.leb_le in Hk. now rewrite Hk.
  - intros j tj Hj. apply observe_ext. intros l Hl.
    specialize (Hb tj l (nth_error_In _ _ Hj) Hl).
    destruct (Nat.leb_spec (w_next w) l); [lia|reflexivity].
Qed.
