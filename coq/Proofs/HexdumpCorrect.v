(* HexdumpCorrect.v — the hex dump lists every byte once, in order, sixteen per row, with the running
   offset; a palette only inserts colour pieces. *)
From Coq Require Import Lia.
From VF Require Import Model.Hexdump.
Open Scope string_scope. Open Scope list_scope. Open Scope Z_scope.

(* ---- specification of a row, independent of the palette machinery ---- *)
Definition cell_text (j : Z) (b : option Z) : list piece :=
  match b with
  | None => [T "  "; T " "]
  | Some v => [T (hex2 v); T " "]
  end ++ (if j =? 7 then [T " "] else []).
Definition cell_char (b : option Z) : list piece :=
  match b with None => [] | Some v => [T (print_char v)] end.
Fixpoint cells_text (j : Z) (bs : list (option Z)) : list piece :=
  match bs with [] => [] | b :: r => cell_text j b ++ cells_text (j + 1) r end.
Fixpoint cells_chars (bs : list (option Z)) : list piece :=
  match bs with [] => [] | b :: r => cell_char b ++ cells_chars r end.
Definition spec_row (prefix : string) (off : Z) (data : list Z) : list piece :=
  [T prefix; T (hex08 off); T "  "] ++ cells_text 0 (take16 16 data) ++ [T "  "] ++ cells_chars (take16 16 data).
Fixpoint spec_rows (fuel : nat) (prefix : string) (off : Z) (data : list Z) : list (list piece) :=
  match fuel with
  | O => []
  | S f => match data with
           | [] => []
           | _ => spec_row prefix off data :: spec_rows f prefix (off + 16) (skipn 16 data)
           end
  end.

Lemma text_only_app a b : text_only (a ++ b) = text_only a ++ text_only b.
Proof. apply filter_app. Qed.

Lemma cell_spec pg normal st j b :
  let '(v, c, _) := cell pg normal st j b in text_only v = cell_text j b /\ text_only c = cell_char b.
Proof.
  unfold cell.
  set (pre_st := if negb (truthy (active st)) && _ then _ else _).
  assert (Hpre : text_only (fst pre_st) = []).
  { subst pre_st. destruct (negb (truthy (active st)) && match palette st with [] => false | _ :: _ => true end).
    - destruct (palette st) as [|[r a] pal']; [reflexivity|]. destruct (pop_zeroes r a pal') as [[r' a'] pal'']. reflexivity.
    - destruct (truthy (active st) && (j =? 0)); reflexivity. }
  destruct pre_st as [pre st1]. cbn [fst] in Hpre.
  destruct b as [v|].
  - split.
    + rewrite !text_only_app, Hpre. unfold cell_text.
      destruct ((remaining st1 - 1 =? 0) && pg), ((j =? 15) && pg), (j =? 7); reflexivity.
    + destruct (truthy (active st1)); reflexivity.
  - split; [|reflexivity]. rewrite !text_only_app, Hpre. unfold cell_text. destruct (j =? 7); reflexivity.
Qed.

Lemma cells_spec pg normal bs : forall st j,
  let '(v, c, _) := cells pg normal st j bs in text_only v = cells_text j bs /\ text_only c = cells_chars bs.
Proof.
  induction bs as [|b r IH]; intros st j; cbn [cells cells_text cells_chars]; [split; reflexivity|].
  pose proof (cell_spec pg normal st j b) as H1.
  destruct (cell pg normal st j b) as [[v1 c1] st1]. destruct H1 as [Hv1 Hc1].
  specialize (IH st1 (j + 1)). destruct (cells pg normal st1 (j + 1) r) as [[v2 c2] st2]. destruct IH as [Hv2 Hc2].
  rewrite !text_only_app, Hv1, Hc1, Hv2, Hc2. split; reflexivity.
Qed.

Lemma rows_spec pg normal prefix fuel : forall st off data,
  map text_only (rows pg normal prefix fuel st off data) = spec_rows fuel prefix off data.
Proof.
  induction fuel as [|f IH]; intros st off data; [reflexivity|].
  cbn [rows spec_rows]. destruct data as [|b0 d]; [reflexivity|].
  pose proof (cells_spec pg normal (take16 16 (b0 :: d)) st 0) as H.
  destruct (cells pg normal st 0 (take16 16 (b0 :: d))) as [[v c] st']. destruct H as [Hv Hc].
  cbn [map]. rewrite IH. f_equal. unfold spec_row.
  rewrite !text_only_app, Hv, Hc. reflexivity.
Qed.

(* the text of the dump is the specification, whatever the palette *)
Theorem hexdump_text normal data pal off prefix :
  map text_only (hexdump_rows normal data pal off prefix) = spec_rows (S (length data / 16)) prefix off data.
Proof. unfold hexdump_rows. apply rows_spec. Qed.

(* a palette changes nothing but the inserted colour pieces *)
Theorem palette_only_colours normal data pal off prefix :
  map text_only (hexdump_rows normal data (Some pal) off prefix) = map text_only (hexdump_rows normal data None off prefix).
Proof. now rewrite !hexdump_text. Qed.

(* without a palette there are no colour pieces at all *)
Lemma cell_plain normal j b rem : rem <= 0 ->
  let '(v, c, st') := cell false normal (mkP rem None []) j b in
  text_only v = v /\ text_only c = c /\ exists rem', rem' <= 0 /\ st' = mkP rem' None [].
Proof.
  intros Hr. unfold cell. cbn [active palette truthy negb andb remaining].
  destruct b as [v|]; cbn [app].
  - assert (rem - 1 =? 0 = false) as -> by lia. cbn [andb].
    rewrite andb_false_r. destruct (j =? 7); (split; [reflexivity|split; [reflexivity|exists (rem - 1); split; [lia|reflexivity]]]).
  - destruct (j =? 7); (split; [reflexivity|split; [reflexivity|exists rem; split; [lia|reflexivity]]]).
Qed.

(* ---- the rows partition the data: 16 per row, in order, offsets off + 16k ---- *)
Fixpoint row_data (cs : list (option Z)) : list Z :=
  match cs with Some b :: r => b :: row_data r | _ => [] end.
Lemma row_data_take16 n : forall data, row_data (take16 n data) = firstn n data.
Proof.
  induction n as [|n IH]; intros data; [reflexivity|].
  destruct data as [|b r]; cbn [take16 row_data firstn]; [reflexivity|]. now rewrite IH.
Qed.

Fixpoint spec_chunks (fuel : nat) (off : Z) (data : list Z) : list (Z * list Z) :=
  match fuel with
  | O => []
  | S f => match data with [] => [] | _ => (off, firstn 16 data) :: spec_chunks f (off + 16) (skipn 16 data) end
  end.

Lemma spec_rows_chunks fuel prefix : forall off data,
  spec_rows fuel prefix off data =
  map (fun '(o, chunk) => [T prefix; T (hex08 o); T "  "] ++ cells_text 0 (take16 16 chunk) ++ [T "  "] ++ cells_chars (take16 16 chunk))
      (spec_chunks fuel off data).
Proof.
  induction fuel as [|f IH]; intros off data; [reflexivity|].
  cbn [spec_rows spec_chunks]. destruct data as [|b0 d]; [reflexivity|].
  cbn [map]. rewrite IH. f_equal. unfold spec_row.
  assert (E : take16 16 (firstn 16 (b0 :: d)) = take16 16 (b0 :: d)).
  { generalize (b0 :: d). generalize 16%nat. induction n as [|n IHn]; intros l; [reflexivity|].
    destruct l as [|x l]; cbn [firstn take16]; [reflexivity|]. now rewrite IHn. }
  now rewrite E.
Qed.

Lemma skipn_length_lt (l : list Z) : l <> [] -> (length (skipn 16 l) < length l)%nat.
Proof. intros H. rewrite skipn_length. destruct l; [congruence|simpl; lia]. Qed.

(* concatenating the chunks gives the data back: nothing lost, duplicated or reordered *)
Lemma chunks_concat fuel : forall off data, (length data <= 16 * fuel)%nat ->
  concat (map snd (spec_chunks fuel off data)) = data.
Proof.
  induction fuel as [|f IH]; intros off data Hl; [destruct data; [reflexivity|simpl in Hl; lia]|].
  cbn [spec_chunks]. destruct data as [|b0 d]; [reflexivity|].
  cbn [map snd concat]. rewrite IH.
  - apply firstn_skipn.
  - rewrite skipn_length. remember (b0 :: d) as l eqn:El. assert (0 < length l)%nat by (subst l; simpl; lia).
    clear El. lia.
Qed.

Lemma skipn_add {A} a : forall b (l : list A), skipn (a + b) l = skipn b (skipn a l).
Proof. induction a as [|a IH]; intros b l; [reflexivity|]. destruct l; [now rewrite !skipn_nil|apply IH]. Qed.

Lemma chunks_offsets fuel : forall off data k o c,
  nth_error (spec_chunks fuel off data) k = Some (o, c) -> o = off + 16 * Z.of_nat k /\ c = firstn 16 (skipn (16 * k) data) /\ c <> [].
Proof.
  induction fuel as [|f IH]; intros off data k o c H; [destruct k; discriminate|].
  cbn [spec_chunks] in H. destruct data as [|b0 d]; [destruct k; discriminate|].
  destruct k as [|k].
  - injection H as <- <-. split; [lia|]. split; [reflexivity|discriminate].
  - cbn [nth_error] in H. apply IH in H as (-> & -> & Hne). split; [lia|]. split; [|exact Hne].
    f_equal. replace (16 * S k)%nat with (16 + 16 * k)%nat by lia. now rewrite skipn_add.
Qed.

Theorem hexdump_partition data off :
  let chunks := spec_chunks (S (length data / 16)) off data in
  concat (map snd chunks) = data /\
  forall k o c, nth_error chunks k = Some (o, c) -> o = off + 16 * Z.of_nat k /\ c = firstn 16 (skipn (16 * k) data) /\ c <> [].
Proof.
  split.
  - apply chunks_concat. pose proof (Nat.div_mod (length data) 16 ltac:(lia)). pose proof (Nat.mod_upper_bound (length data) 16 ltac:(lia)). lia.
  - apply chunks_offsets.
Qed.

(* two hex digits determine the byte *)
Definition unhexdigit (c : ascii) : Z :=
  let n := Z.of_nat (nat_of_ascii c) in if n <? 58 then n - 48 else n - 87.
Definition unhex2 (s : string) : Z :=
  match s with String a (String b _) => 16 * unhexdigit a + unhexdigit b | _ => -1 end.
Lemma unhex2_hex2_all : forallb (fun n => unhex2 (hex2 (Z.of_nat n)) =? Z.of_nat n) (seq 0 256) = true.
Proof. vm_compute. reflexivity. Qed.
Theorem hex2_injective a b : 0 <= a < 256 -> 0 <= b < 256 -> hex2 a = hex2 b -> a = b.
Proof.
  intros Ha Hb H.
  pose proof unhex2_hex2_all as K. rewrite forallb_forall in K.
  assert (Ka : unhex2 (hex2 a) = a).
  { specialize (K (Z.to_nat a)). rewrite Z2Nat.id in K by lia. apply Z.eqb_eq, K, in_seq. lia. }
  assert (Kb : unhex2 (hex2 b) = b).
  { specialize (K (Z.to_nat b)). rewrite Z2Nat.id in K by lia. apply Z.eqb_eq, K, in_seq. lia. }
  congruence.
Qed.
