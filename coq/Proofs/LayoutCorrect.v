(* LayoutCorrect.v — the layout loop of structure.py computes the C layout rule. *)
From Coq Require Import Lia ZifyBool.
From VF Require Import Model.Layout.
Ltac Zify.zify_post_hook ::= Z.to_euclidean_division_equations.
Open Scope list_scope. Open Scope Z_scope.

(* ---- the padding bit trick ---- *)
Definition roundup (x a : Z) : Z := ((x + a - 1) / a) * a.

Lemma pad_to_mod x k : 0 <= k -> pad_to x (2 ^ k) = (- x) mod 2 ^ k.
Proof.
  intros Hk. unfold pad_to. replace (2 ^ k - 1) with (Z.ones k).
  - apply Z.land_ones. exact Hk.
  - rewrite Z.ones_equiv. lia.
Qed.

Lemma pad_to_roundup x k : 0 <= k -> 0 <= x ->
  x + pad_to x (2 ^ k) = roundup x (2 ^ k) /\ 0 <= pad_to x (2 ^ k) < 2 ^ k /\ (x + pad_to x (2 ^ k)) mod 2 ^ k = 0.
Proof.
  intros Hk Hx. rewrite pad_to_mod by exact Hk. unfold roundup.
  assert (Ha : 0 < 2 ^ k) by (apply Z.pow_pos_nonneg; lia).
  set (a := 2 ^ k) in *. clearbody a. clear Hk k.
  pose proof (Z.div_mod (- x) a ltac:(lia)) as D. pose proof (Z.mod_pos_bound (- x) a Ha) as B.
  set (r := (- x) mod a) in *. set (q := (- x) / a) in *. clearbody r q.
  assert (E : x + r = (- q) * a) by lia.
  split; [|split; [lia|]].
  - assert ((x + a - 1) / a = - q) as -> by (symmetry; apply (Z.div_unique _ _ _ (a - 1 - r)); lia). lia.
  - rewrite E. apply Z.mod_mul. lia.
Qed.

(* no smaller padding reaches a multiple of the alignment: the rounded offset is the NEXT multiple *)
Lemma pad_to_minimal x k p : 0 <= k -> 0 <= x -> 0 <= p -> (x + p) mod 2 ^ k = 0 -> pad_to x (2 ^ k) <= p.
Proof.
  intros Hk Hx Hp Hm. rewrite pad_to_mod by exact Hk.
  assert (Ha : 0 < 2 ^ k) by (apply Z.pow_pos_nonneg; lia).
  set (a := 2 ^ k) in *. clearbody a. clear Hk k.
  pose proof (Z.div_mod (- x) a ltac:(lia)) as D. pose proof (Z.mod_pos_bound (- x) a Ha) as B.
  pose proof (Z.div_mod (x + p) a ltac:(lia)) as D2. rewrite Hm in D2.
  set (r := (- x) mod a) in *. set (q := (- x) / a) in *. set (q2 := (x + p) / a) in *. clearbody r q q2.
  (* p = a*q2 - x = a*(q2 + q) + r, and 0 <= p, 0 <= r < a  ==> q2 + q >= 0 ==> p >= r *)
  assert (Ep : p = a * (q2 + q) + r) by lia.
  destruct (Z_lt_le_dec (q2 + q) 0) as [Hn|Hn]; [|nia].
  assert (a * (q2 + q) <= - a) by nia. lia.
Qed.

(* ---- the C rule, written independently: sizes and alignments of the members are given ---- *)
(* returns the member offsets, the end offset and the largest alignment *)
Fixpoint c_rule (aligned : bool) (off al : Z) (ms : list (Z * Z)) : list Z * Z * Z :=
  match ms with
  | [] => ([], off, al)
  | (sz, a) :: r =>
    let o := if aligned then off + pad_to off a else off in
    let '(offs, e, al') := c_rule aligned (o + sz) (Z.max al a) r in
    (o :: offs, e, al')
  end.
Definition c_struct (aligned : bool) (ms : list (Z * Z)) : list Z * Z * Z :=
  let '(offs, e, al) := c_rule aligned 0 0 ms in
  (offs, (if aligned then e + pad_to e al else e), al).

Section Proofs.
  Variable c : cfg.

  (* a field list with no bit fields, no pre-set offsets and only statically sized members *)
  Definition plain_field (f : field) : bool :=
    match f_bits f, f_off f, ty_size c (f_ty f) with None, None, Some _ => true | _, _, _ => false end.
  Definition member (f : field) : Z * Z :=
    (match ty_size c (f_ty f) with Some n => n | None => 0 end, field_align c f).

  Lemma layout_go_plain aligned fs : forallb plain_field fs = true -> forall off al,
    layout_go c aligned fs (mkLS (Some off) al None (Some 0) 0) =
    let '(offs, e, al') := c_rule aligned off al (map member fs) in
    Ok (map Some offs, mkLS (Some e) al' None (Some 0) 0).
  Proof.
    induction fs as [|f r IH]; intros H off al; [reflexivity|].
    cbn [forallb] in H. apply andb_prop in H as [Hf Hr].
    unfold plain_field in Hf. cbn [layout_go map c_rule].
    destruct (f_bits f) eqn:Eb; [discriminate|]. destruct (f_off f) eqn:Eo; [discriminate|].
    destruct (ty_size c (f_ty f)) as [n|] eqn:Es; [|discriminate].
    unfold member at 1. rewrite Es.
    unfold layout_step. cbn [ls_off ls_align].
    destruct aligned; cbn [bind fst snd].
    - rewrite (IH Hr). destruct (c_rule true (off + pad_to off (field_align c f) + n) (Z.max al (field_align c f)) (map member r)) as [[offs e] al'].
      reflexivity.
    - rewrite (IH Hr). destruct (c_rule false (off + n) (Z.max al (field_align c f)) (map member r)) as [[offs e] al'].
      reflexivity.
  Qed.

  (* the structure layout computed by the library IS the C rule on the members' sizes and alignments *)
  Theorem layout_is_c_rule aligned fs : forallb plain_field fs = true ->
    layout_struct c aligned fs =
    let '(offs, size, al) := c_struct aligned (map member fs) in Ok (mkLay (map Some offs) (Some size) al).
  Proof.
    intros H. unfold layout_struct, c_struct. rewrite (layout_go_plain aligned fs H 0 0).
    destruct (c_rule aligned 0 0 (map member fs)) as [[offs e] al]. cbn [bind fst snd ls_off ls_align].
    destruct aligned; reflexivity.
  Qed.

  (* packed mode: members back to back *)
  Lemma c_rule_packed ms : forall off al,
    let '(offs, e, _) := c_rule false off al ms in
    e = off + fold_right (fun m acc => fst m + acc) 0 ms /\
    forall k o, nth_error offs k = Some o -> o = off + fold_right (fun m acc => fst m + acc) 0 (firstn k ms).
  Proof.
    induction ms as [|[sz a] r IH]; intros off al; cbn [c_rule].
    - split; [simpl; lia|]. intros k o H. destruct k; discriminate.
    - specialize (IH (off + sz) (Z.max al a)).
      destruct (c_rule false (off + sz) (Z.max al a) r) as [[offs e] al']. destruct IH as [He Hk].
      split; [cbn [fold_right fst]; lia|].
      intros k o H. destruct k as [|k]; cbn [nth_error] in H.
      + injection H as <-. simpl. lia.
      + apply Hk in H. cbn [firstn fold_right fst]. lia.
  Qed.

  (* aligned mode: every member starts at the next multiple of its alignment, alignments being powers of two *)
  Definition pow2 (a : Z) : Prop := exists k, 0 <= k /\ a = 2 ^ k.
  Lemma c_rule_aligned ms : Forall (fun m => 0 <= fst m /\ pow2 (snd m)) ms -> forall off al, 0 <= off ->
    let '(offs, e, al') := c_rule true off al ms in
    off <= e /\
    forall k o, nth_error offs k = Some o ->
      exists m prev_end, nth_error ms k = Some m /\ o = roundup prev_end (snd m) /\ o mod snd m = 0 /\ prev_end <= o < prev_end + snd m.
  Proof.
    induction 1 as [|[sz a] r [Hsz [k0 [Hk0 Ea]]] Hr IH]; intros off al Hoff; cbn [c_rule].
    - split; [lia|]. intros k o H. destruct k; discriminate.
    - cbn [fst snd] in *. subst a.
      destruct (pad_to_roundup off k0 Hk0 Hoff) as (E1 & E2 & E3).
      specialize (IH (off + pad_to off (2 ^ k0) + sz) (Z.max al (2 ^ k0)) ltac:(lia)).
      destruct (c_rule true (off + pad_to off (2 ^ k0) + sz) (Z.max al (2 ^ k0)) r) as [[offs e] al']. destruct IH as [He Hk].
      split; [lia|].
      intros k o H. destruct k as [|k]; cbn [nth_error] in H.
      + injection H as <-. exists (sz, 2 ^ k0), off. cbn [nth_error fst snd]. repeat split; try lia; try exact E3.
      + cbn [nth_error]. apply Hk. exact H.
  Qed.
End Proofs.

(* tail padding of an aligned structure brings the size to a multiple of the largest member alignment *)
Lemma tail_padding e k : 0 <= k -> 0 <= e ->
  (e + pad_to e (2 ^ k)) mod 2 ^ k = 0 /\ e <= e + pad_to e (2 ^ k) < e + 2 ^ k.
Proof. intros Hk He. destruct (pad_to_roundup e k Hk He) as (_ & H2 & H3). split; [exact H3|lia]. Qed.

(* arrays and pointers: size and alignment as the library's _make_array / _make_pointer define them *)
Lemma array_size_align c el n : ty_size c (TArr el (LFixed n)) = option_map (Z.mul n) (ty_size c el) /\ ty_align c (TArr el (LFixed n)) = ty_align c el.
Proof. cbn [ty_size ty_align]. destruct (ty_size c el); split; reflexivity. Qed.
Lemma pointer_size_align c t : ty_size c (TPtr t) = prim_size_z (c_ptr c) /\ ty_align c (TPtr t) = c_ptr_al c.
Proof. split; reflexivity. Qed.
(* a union is as large as its largest member, rounded up to its alignment in aligned mode *)
Lemma union_layout c aligned fs :
  l_size (layout_union c aligned fs) =
  (let m := fold_left (fun acc f => match acc, ty_size c (f_ty f) with Some s, Some n => Some (Z.max n s) | _, _ => None end) fs (Some 0) in
   let al := fold_left (fun acc f => Z.max (field_align c f) acc) fs 0 in
   match m with Some s => if aligned then Some (s + pad_to s al) else Some s | None => None end).
Proof. reflexivity. Qed.
