(* LexerProps.v — the expression tokenizer (C10): a list of well-formed tokens (identifiers, decimal numbers, the one-character
   operators and the two shifts), written with one blank after each, is read back as exactly that list. *)
From Coq Require Import Lia.
From VF Require Import Model.Expr.
Open Scope string_scope. Open Scope list_scope. Open Scope Z_scope.

Definition is_ident_char (x : ascii) : bool := is_alnum x || Ascii.eqb x underscore.
Definition is_ident_start (x : ascii) : bool := is_alpha x || Ascii.eqb x underscore.
Definition sp : ascii := " "%char.

(* character classes are disjoint where the tokenizer relies on it (256 cases each, by computation) *)
Ltac by_cases c := destruct c as [[] [] [] [] [] [] [] []]; vm_compute; try discriminate; auto.
Lemma ident_start_facts c : is_ident_start c = true -> is_in c op_chars = false /\ is_digit c = false /\ is_ident_char c = true.
Proof. by_cases c. Qed.
Lemma digit_facts c : is_digit c = true -> is_in c op_chars = false /\ is_in c hexbin = false /\ is_hexdigit c = true.
Proof. by_cases c. Qed.
Lemma op_facts c : is_in c op_chars = true -> True.
Proof. trivial. Qed.

Lemma span_app p : forall t rest, forallb p t = true -> p sp = false -> span p (t ++ sp :: rest) = (t, sp :: rest).
Proof.
  induction t as [|c t IH]; intros rest Ht Hs; cbn [app span]; [now rewrite Hs|].
  cbn [forallb] in Ht. apply andb_prop in Ht as [Hc Ht]. rewrite Hc, (IH rest Ht Hs). reflexivity.
Qed.

(* the blank after a token is skipped *)
Lemma skip_blank f rest acc : tokenize_go (S f) (sp :: rest) acc = tokenize_go f rest acc.
Proof. reflexivity. Qed.

Inductive wf_tok : list ascii -> Prop :=
| WfOp c : is_in c op_chars = true -> wf_tok [c]
| WfShr : wf_tok [">"%char; ">"%char]
| WfShl : wf_tok ["<"%char; "<"%char]
| WfId c t : is_ident_start c = true -> forallb is_ident_char t = true -> wf_tok (c :: t)
| WfNum d t : is_digit d = true -> forallb is_digit t = true -> (t <> [] -> Ascii.eqb d "0"%char = false) -> wf_tok (d :: t).

Lemma forallb_impl {A} (p q : A -> bool) l : (forall x, p x = true -> q x = true) -> forallb p l = true -> forallb q l = true.
Proof. intros H. induction l as [|x l IH]; [reflexivity|]. cbn [forallb]. intros E. apply andb_prop in E as [E1 E2]. now rewrite (H x E1), (IH E2). Qed.

(* one token and its blank cost two iterations *)
Lemma token_step t : wf_tok t -> forall f rest acc,
  tokenize_go (S (S f)) (t ++ sp :: rest) acc = tokenize_go f rest (str_of t :: acc).
Proof.
  intros H f rest acc. destruct H as [c Hc| | |c t Hs Ht|d t Hd Ht Hz].
  - cbn [app]. cbn [tokenize_go]. rewrite Hc. apply skip_blank.
  - reflexivity.
  - reflexivity.
  - destruct (ident_start_facts c Hs) as [H1 [H2 H3]]. cbn [app]. cbn [tokenize_go]. rewrite H1, H2. unfold is_ident_start in Hs. rewrite Hs.
    change (c :: t ++ sp :: rest) with ((c :: t) ++ sp :: rest).
    rewrite (span_app (fun x => is_alnum x || Ascii.eqb x underscore) (c :: t) rest); [apply skip_blank| |reflexivity].
    cbn [forallb]. fold (is_ident_char c). rewrite H3. exact Ht.
  - destruct (digit_facts d Hd) as [H1 [H2 H3]]. cbn [app]. cbn [tokenize_go]. rewrite H1, Hd.
    assert (Hhex : forallb is_hexdigit t = true) by (apply (forallb_impl is_digit); [intros x Hx; apply (digit_facts x Hx)|exact Ht]).
    assert (L : lex_number (d :: t ++ sp :: rest) = Some (str_of (d :: t), sp :: rest)).
    { unfold lex_number. destruct t as [|c t'].
      - cbn [app]. replace (is_in sp hexbin) with false by reflexivity. cbn [span]. replace (is_hexdigit sp) with false by reflexivity. reflexivity.
      - cbn [app forallb] in *. apply andb_prop in Ht as [Hc Ht']. apply andb_prop in Hhex as [Hx Hhex']. destruct (digit_facts c Hc) as [_ [Hc2 _]]. rewrite Hc2.
        change (c :: t' ++ sp :: rest) with ((c :: t') ++ sp :: rest). rewrite (span_app is_hexdigit (c :: t') rest); [| cbn [forallb]; now rewrite Hx|reflexivity].
        replace (starts uU (sp :: rest)) with false by reflexivity. replace (starts lL (sp :: rest)) with false by reflexivity.
        specialize (Hz ltac:(discriminate)). cbn [app]. destruct t' as [|c2 t'']; rewrite ?Hc2, ?Hz; reflexivity. }
    rewrite L. apply skip_blank.
Qed.

Definition render (toks : list (list ascii)) : list ascii := List.concat (map (fun t => t ++ [sp]) toks).

Lemma tokenize_go_render : forall toks, Forall wf_tok toks -> Forall (fun t => t <> []) toks ->
  forall f acc, (length (render toks) <= f)%nat -> tokenize_go f (render toks) acc = Some (rev acc ++ map str_of toks).
Proof.
  induction toks as [|t toks IH]; intros Hw Hn f acc Hf.
  - cbn [render map List.concat]. rewrite app_nil_r. destruct f; reflexivity.
  - inversion Hw as [|? ? Ht Hw']; subst. inversion Hn as [|? ? Hne Hn']; subst.
    unfold render in *. cbn [map List.concat] in *. rewrite <- app_assoc in *. cbn [app] in *.
    rewrite app_length in Hf. cbn [length] in Hf. destruct t as [|c t]; [contradiction|]. cbn [length] in Hf.
    destruct f as [|[|f]]; try lia.
    rewrite (token_step (c :: t) Ht f _ acc). rewrite IH; [|exact Hw'|exact Hn'|lia]. cbn [rev map]. now rewrite <- app_assoc.
Qed.

(* the statement for the entry point *)
Theorem tokenize_render toks : Forall wf_tok toks -> tokenize (str_of (render toks)) = Some (map str_of toks).
Proof.
  intros Hw. unfold tokenize.
  assert (E : forall l, chars_of (str_of l) = l) by (induction l as [|c l IH]; [reflexivity|cbn; now rewrite IH]). rewrite E.
  apply (tokenize_go_render toks Hw); [|lia]. clear -Hw. induction Hw as [|t toks Ht _ IH]; constructor; [|exact IH]. destruct Ht; discriminate.
Qed.

(* ---- literals with a base prefix (0x, 0X, 0b, 0B) and integer suffixes ---- *)
(* integer suffixes the tokenizer swallows: u, l, ll in either order and either case *)
Definition suffixes : list (list ascii) :=
  map chars_of [""; "u"; "l"; "ul"; "ull"; "ll"; "lu"; "llu"; "U"; "L"; "UL"; "ULL"; "LL"; "LU"; "LLU"; "uL"; "Ul"; "uLL"; "lU"; "Lu"].

(* a token as written and as read: the suffix of a hexadecimal / binary literal is dropped *)
Inductive wf_wtok : list ascii -> list ascii -> Prop :=
| WwPlain t : wf_tok t -> wf_wtok t t
| WwPrefixed x h hs sfx : is_in x hexbin = true -> forallb is_hexdigit (h :: hs) = true -> In sfx suffixes ->
    wf_wtok ("0"%char :: x :: h :: hs ++ sfx) ("0"%char :: x :: h :: hs)
| WwDecimalSuffixed d t sfx : is_digit d = true -> forallb is_digit t = true -> Ascii.eqb d "0"%char = false -> In sfx suffixes ->
    wf_wtok (d :: t ++ sfx) (d :: t)
| WwOctal c t sfx : is_digit c = true -> forallb is_digit t = true -> In sfx suffixes ->
    wf_wtok ("0"%char :: c :: t ++ sfx) ("0"%char :: ch "o" :: c :: t).   (* C octal 017 is handed on as 0o17 *)

Lemma hexdigit_not_hexbin_sp : is_hexdigit sp = false. Proof. reflexivity. Qed.

Lemma span_hex_sfx hs sfx rest : forallb is_hexdigit hs = true -> In sfx suffixes ->
  span is_hexdigit (hs ++ sfx ++ sp :: rest) = (hs, sfx ++ sp :: rest).
Proof.
  intros Hh Hs. induction hs as [|c hs IH]; cbn [app].
  - unfold suffixes in Hs. cbn in Hs. repeat (destruct Hs as [<-|Hs]; [reflexivity|]). contradiction.
  - cbn [forallb] in Hh. apply andb_prop in Hh as [Hc Hh]. cbn [span]. rewrite Hc, (IH Hh). reflexivity.
Qed.

Lemma suffix_consumed sfx rest : In sfx suffixes ->
  (if starts uU (sfx ++ sp :: rest) then opt lL (opt lL (opt uU (sfx ++ sp :: rest)))
   else if starts lL (sfx ++ sp :: rest) then opt uU (opt lL (opt lL (sfx ++ sp :: rest)))
   else sfx ++ sp :: rest) = sp :: rest.
Proof.
  intros Hs. unfold suffixes in Hs. cbn in Hs. repeat (destruct Hs as [<-|Hs]; [reflexivity|]). contradiction.
Qed.

Lemma lex_prefixed x h hs sfx rest : is_in x hexbin = true -> forallb is_hexdigit (h :: hs) = true -> In sfx suffixes ->
  lex_number ("0"%char :: x :: (h :: hs) ++ sfx ++ sp :: rest) = Some (str_of ("0"%char :: x :: h :: hs), sp :: rest).
Proof.
  intros Hx Hh Hs. unfold lex_number. rewrite Hx. rewrite (span_hex_sfx (h :: hs) sfx rest Hh Hs).
  rewrite (suffix_consumed sfx rest Hs). cbn [app]. rewrite Hx. cbn [Ascii.eqb Bool.eqb andb negb]. reflexivity.
Qed.

Lemma lex_decimal_suffixed d t sfx rest : is_digit d = true -> forallb is_digit t = true -> Ascii.eqb d "0"%char = false -> In sfx suffixes ->
  lex_number (d :: t ++ sfx ++ sp :: rest) = Some (str_of (d :: t), sp :: rest).
Proof.
  intros Hd Ht Hz Hs.
  assert (Hhex : forallb is_hexdigit t = true) by (apply (forallb_impl is_digit); [intros y Hy; apply (digit_facts y Hy)|exact Ht]).
  unfold lex_number. destruct t as [|c t'].
  - cbn [app].
    assert (E : match sfx ++ sp :: rest with c :: r' => if is_in c hexbin then ([d; c], r') else ([d], sfx ++ sp :: rest) | [] => ([d], []) end = ([d], sfx ++ sp :: rest)).
    { unfold suffixes in Hs. cbn in Hs. repeat (destruct Hs as [<-|Hs]; [reflexivity|]). contradiction. }
    rewrite E. generalize (span_hex_sfx [] sfx rest eq_refl Hs); cbn [app]; intros ->. rewrite (suffix_consumed sfx rest Hs). reflexivity.
  - cbn [app forallb] in *. apply andb_prop in Ht as [Hc Ht']. destruct (digit_facts c Hc) as [_ [Hc2 _]]. rewrite Hc2.
    change (c :: t' ++ sfx ++ sp :: rest) with ((c :: t') ++ sfx ++ sp :: rest).
    rewrite (span_hex_sfx (c :: t') sfx rest Hhex Hs). rewrite (suffix_consumed sfx rest Hs).
    cbn [app]. destruct t' as [|c2 t'']; rewrite ?Hc2, ?Hz; reflexivity.
Qed.

(* C octal: a number written with a leading zero is handed on in Python's spelling, 0o... *)
Lemma lex_c_octal c t sfx rest : is_digit c = true -> forallb is_digit t = true -> In sfx suffixes ->
  lex_number ("0"%char :: c :: t ++ sfx ++ sp :: rest) = Some (str_of ("0"%char :: ch "o" :: c :: t), sp :: rest).
Proof.
  intros Hc Ht Hs.
  assert (Hhex : forallb is_hexdigit (c :: t) = true).
  { apply (forallb_impl is_digit); [intros y Hy; apply (digit_facts y Hy)|cbn [forallb]; now rewrite Hc]. }
  unfold lex_number. destruct (digit_facts c Hc) as [_ [Hc2 _]]. rewrite Hc2.
  change (c :: t ++ sfx ++ sp :: rest) with ((c :: t) ++ sfx ++ sp :: rest).
  rewrite (span_hex_sfx (c :: t) sfx rest Hhex Hs). rewrite (suffix_consumed sfx rest Hs).
  cbn [app]. destruct t as [|c2 t']; rewrite ?Hc2; reflexivity.
Qed.

Lemma octal_step c t sfx : is_digit c = true -> forallb is_digit t = true -> In sfx suffixes -> forall f rest acc,
  tokenize_go (S (S f)) (("0"%char :: c :: t ++ sfx) ++ sp :: rest) acc = tokenize_go f rest (str_of ("0"%char :: ch "o" :: c :: t) :: acc).
Proof.
  intros Hc Ht Hs f rest acc.
  replace (("0"%char :: c :: t ++ sfx) ++ sp :: rest) with ("0"%char :: c :: t ++ sfx ++ sp :: rest) by (cbn [app]; now rewrite <- app_assoc).
  cbn [tokenize_go]. replace (is_in "0"%char op_chars) with false by reflexivity. replace (is_digit "0"%char) with true by reflexivity.
  rewrite (lex_c_octal c t sfx rest Hc Ht Hs). apply skip_blank.
Qed.


Lemma wtoken_step w r : wf_wtok w r -> forall f rest acc,
  tokenize_go (S (S f)) (w ++ sp :: rest) acc = tokenize_go f rest (str_of r :: acc).
Proof.
  intros H f rest acc. destruct H as [t Ht|x h hs sfx Hx Hh Hs|d t sfx Hd Ht Hz Hs|c t sfx Hc Ht Hs]; [| | |apply octal_step; assumption].
  - apply token_step; exact Ht.
  - replace (("0"%char :: x :: h :: hs ++ sfx) ++ sp :: rest) with ("0"%char :: x :: (h :: hs) ++ sfx ++ sp :: rest)
      by (cbn [app]; now rewrite <- app_assoc).
    cbn [tokenize_go]. replace (is_in "0"%char op_chars) with false by reflexivity. replace (is_digit "0"%char) with true by reflexivity.
    rewrite (lex_prefixed x h hs sfx rest Hx Hh Hs). apply skip_blank.
  - replace ((d :: t ++ sfx) ++ sp :: rest) with (d :: t ++ sfx ++ sp :: rest) by (cbn [app]; now rewrite <- app_assoc).
    destruct (digit_facts d Hd) as [H1 _]. cbn [tokenize_go]. rewrite H1, Hd.
    rewrite (lex_decimal_suffixed d t sfx rest Hd Ht Hz Hs). apply skip_blank.
Qed.

Definition render_w (toks : list (list ascii * list ascii)) : list ascii := List.concat (map (fun t => fst t ++ [sp]) toks).

Lemma tokenize_go_render_w : forall toks, Forall (fun t => wf_wtok (fst t) (snd t)) toks ->
  forall f acc, (length (render_w toks) <= f)%nat -> tokenize_go f (render_w toks) acc = Some (rev acc ++ map (fun t => str_of (snd t)) toks).
Proof.
  induction toks as [|[w r] toks IH]; intros Hw f acc Hf.
  - cbn [render_w map List.concat]. rewrite app_nil_r. destruct f; reflexivity.
  - inversion Hw as [|? ? Ht Hw']; subst. cbn [fst snd] in Ht.
    unfold render_w in *. cbn [map List.concat fst snd] in *. rewrite <- app_assoc in *. cbn [app] in *.
    rewrite app_length in Hf. cbn [length] in Hf.
    assert (Hne : w <> []) by (destruct Ht as [t Ht| | |]; [destruct Ht|..]; discriminate).
    destruct w as [|c w]; [contradiction|]. cbn [length] in Hf.
    destruct f as [|[|f]]; try lia.
    rewrite (wtoken_step (c :: w) r Ht f _ acc). rewrite IH; [|exact Hw'|lia]. cbn [rev map snd]. now rewrite <- app_assoc.
Qed.

(* tokens written with literal prefixes and integer suffixes are read back as the tokens without the suffixes *)
Theorem tokenize_render_w toks : Forall (fun t => wf_wtok (fst t) (snd t)) toks ->
  tokenize (str_of (render_w toks)) = Some (map (fun t => str_of (snd t)) toks).
Proof.
  intros Hw. unfold tokenize.
  assert (E : forall l, chars_of (str_of l) = l) by (induction l as [|c l IH]; [reflexivity|cbn; now rewrite IH]). rewrite E.
  apply (tokenize_go_render_w toks Hw); lia.
Qed.

(* ... and int(token, 0) reads that spelling in base 8 *)
Lemma parse_int_octal c t : parse_int (str_of ("0"%char :: ch "o" :: c :: t)) = parse_base 8 (c :: t) 0.
Proof.
  unfold parse_int. assert (E : forall l, chars_of (str_of l) = l) by (induction l as [|x l IH]; [reflexivity|cbn; now rewrite IH]).
  rewrite E. reflexivity.
Qed.
