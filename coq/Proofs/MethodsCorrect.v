(* MethodsCorrect.v — what the generated and patched methods of a structure class compute (C17). *)
From VF Require Import Model.Methods.
From Coq Require Import Lia.
Open Scope string_scope. Open Scope list_scope. Open Scope nat_scope.

Section P.
Variable V : Type.
Variable veqb : V -> V -> bool.
Variable truthy : V -> bool.
Variable vhash : V -> result Z.
Variable thash : list Z -> Z.
Notation code := (code V). Notation inst := (inst V).

Lemma placeholders_length n : length (placeholders n) = n.
Proof. unfold placeholders. now rewrite map_length, seq_length. Qed.

(* reading the names pre ++ fields at the indices |pre| .. |pre|+|fields|-1 reads the fields *)
Lemma attrs_seq (o : inst) : forall fields pre cs vs b,
  attrs_of V (mkCode (pre ++ fields) cs vs b) o (seq (length pre) (length fields)) = mapM (getattr V o) fields.
Proof.
  induction fields as [|f r IH]; intros pre cs vs b; [reflexivity|].
  cbn [length seq]. unfold attrs_of in *. cbn [mapM]. unfold name_at at 1. cbn [co_names].
  rewrite nth_error_app2 by lia. rewrite Nat.sub_diag. cbn [nth_error bind].
  specialize (IH (pre ++ [f]) cs vs b). rewrite app_length in IH. cbn [length] in IH.
  rewrite Nat.add_1_r in IH. rewrite <- app_assoc in IH. cbn [app] in IH. now rewrite IH.
Qed.

Lemma attrs_patched (o : inst) x fields cs vs b :
  attrs_of V (mkCode (x :: fields) cs vs b) o (seq 1 (length fields)) = mapM (getattr V o) fields.
Proof. exact (attrs_seq o fields [x] cs vs b). Qed.

(* patching a template is the template made for the real names: the placeholders never survive *)
Lemma generate_eq_is_make fields : generate_eq V fields = make_eq V fields.
Proof. unfold generate_eq, template, patch_attributes, make_eq. cbn. now rewrite placeholders_length. Qed.
Lemma generate_bool_is_make fields : generate_bool V fields = make_bool V fields.
Proof. unfold generate_bool, template, patch_attributes, make_bool. cbn. now rewrite placeholders_length. Qed.
Lemma generate_hash_is_make fields : generate_hash V fields = make_hash V fields.
Proof. unfold generate_hash, template, patch_attributes, make_hash. cbn. now rewrite placeholders_length. Qed.

(* ---- __eq__ ---- *)
Theorem eq_is_fieldwise fields (a b : inst) :
  run_eq V veqb (generate_eq V fields) a b =
  if Nat.eqb (i_cls a) (i_cls b)
  then do va <- mapM (getattr V a) fields; do vb <- mapM (getattr V b) fields; Ok (list_eqb veqb va vb)
  else Ok false.
Proof.
  rewrite generate_eq_is_make. unfold run_eq, make_eq. cbn [co_body]. unfold name_at at 1. cbn [co_names nth_error bind].
  cbn [String.eqb Ascii.eqb Bool.eqb negb]. cbn.
  destruct (Nat.eqb (i_cls a) (i_cls b)); [|reflexivity].
  now rewrite !attrs_patched.
Qed.

Definition has_fields (o : inst) (fields : list string) : Prop := Forall (fun f => exists v, getattr V o f = Ok v) fields.
Definition field_of (o : inst) (f : string) (d : V) : V := match getattr V o f with Ok v => v | Err _ => d end.

Lemma mapM_has (o : inst) fields : has_fields o fields -> exists vs, mapM (getattr V o) fields = Ok vs /\ length vs = length fields
  /\ forall d i, i < length fields -> nth i vs d = field_of o (nth i fields "") d.
Proof.
  induction 1 as [|f r [v Hv] _ [vs [E [L N]]]]; [exists []; repeat split; cbn; intros; lia|].
  exists (v :: vs). cbn [mapM]. rewrite Hv, E. cbn. repeat split; [now rewrite L|].
  intros d [|i] Hi; cbn; [unfold field_of; now rewrite Hv | apply N; cbn in Hi; lia].
Qed.

Lemma list_eqb_forall (l1 l2 : list V) : length l1 = length l2 ->
  (list_eqb veqb l1 l2 = true <-> forall d i, i < length l1 -> veqb (nth i l1 d) (nth i l2 d) = true).
Proof.
  revert l2. induction l1 as [|x r IH]; intros [|y r2] L; cbn in *; try discriminate.
  - split; [intros _ d i Hi; lia | reflexivity].
  - injection L as L. rewrite Bool.andb_true_iff, (IH r2 L). split.
    + intros [H1 H2] d [|i] Hi; [exact H1 | apply H2; lia].
    + intros H. split; [exact (H x 0 ltac:(lia)) | intros d i Hi; exact (H d (S i) ltac:(lia))].
Qed.

(* two instances that carry the fields are equal exactly when they are of the same class and all fields are equal *)
Theorem eq_true_iff fields (a b : inst) : has_fields a fields -> has_fields b fields ->
  (run_eq V veqb (generate_eq V fields) a b = Ok true <->
   i_cls a = i_cls b /\ forall d f, In f fields -> veqb (field_of a f d) (field_of b f d) = true).
Proof.
  intros Ha Hb. rewrite eq_is_fieldwise.
  destruct (mapM_has a fields Ha) as [va [Ea [La Na]]]. destruct (mapM_has b fields Hb) as [vb [Eb [Lb Nb]]].
  rewrite Ea, Eb. cbn [bind].
  destruct (Nat.eqb_spec (i_cls a) (i_cls b)) as [Hc|Hc].
  - assert (HL : length va = length vb) by congruence.
    split.
    + intros H. injection H as H. rewrite (list_eqb_forall va vb HL) in H. split; [exact Hc|].
      intros d f Hf. destruct (In_nth _ _ "" Hf) as [i [Hi Hn]]. subst f.
      rewrite <- (Na d i Hi), <- (Nb d i Hi). apply H. lia.
    + intros [_ H]. f_equal. apply (list_eqb_forall va vb HL). intros d i Hi.
      rewrite (Na d i ltac:(lia)), (Nb d i ltac:(lia)). apply H. apply nth_In. lia.
  - split; [discriminate | intros [H _]; contradiction].
Qed.

Theorem eq_never_across_classes fields (a b : inst) : i_cls a <> i_cls b -> run_eq V veqb (generate_eq V fields) a b = Ok false.
Proof. intros H. rewrite eq_is_fieldwise. now destruct (Nat.eqb_spec (i_cls a) (i_cls b)). Qed.

(* ---- __hash__ ---- *)
Theorem hash_is_tuple_hash fields (a : inst) :
  run_hash V vhash thash (generate_hash V fields) a =
  do vs <- mapM (getattr V a) fields; do hs <- mapM vhash vs; Ok (if negb (Nat.eqb (length fields) 1) then thash hs else hd 0%Z hs).
Proof.
  rewrite generate_hash_is_make. unfold run_hash, make_hash. cbn [co_body]. unfold name_at at 1. cbn [co_names nth_error bind].
  cbn. now rewrite attrs_patched.
Qed.

Lemma mapM_hash_eq : (forall x y, veqb x y = true -> vhash x = vhash y) ->
  forall l1 l2, list_eqb veqb l1 l2 = true -> mapM vhash l1 = mapM vhash l2.
Proof.
  intros H. induction l1 as [|x r IH]; intros [|y r2] E; cbn in *; try discriminate; [reflexivity|].
  apply Bool.andb_true_iff in E as [E1 E2]. now rewrite (H x y E1), (IH r2 E2).
Qed.

(* equal instances hash equally (and one is unhashable exactly when the other is) *)
Theorem equal_instances_hash_equally fields (a b : inst) : (forall x y, veqb x y = true -> vhash x = vhash y) ->
  run_eq V veqb (generate_eq V fields) a b = Ok true ->
  run_hash V vhash thash (generate_hash V fields) a = run_hash V vhash thash (generate_hash V fields) b.
Proof.
  intros H. rewrite eq_is_fieldwise, !hash_is_tuple_hash.
  destruct (Nat.eqb (i_cls a) (i_cls b)); [|discriminate].
  destruct (mapM (getattr V a) fields) as [va|]; [|discriminate]. destruct (mapM (getattr V b) fields) as [vb|]; [|discriminate].
  cbn [bind]. intros E. injection E as E. now rewrite (mapM_hash_eq H va vb E).
Qed.

(* ---- __bool__ ---- *)
Theorem bool_is_any fields (a : inst) :
  run_bool V truthy (generate_bool V fields) a = do vs <- mapM (getattr V a) fields; Ok (existsb truthy vs).
Proof.
  rewrite generate_bool_is_make. unfold run_bool, make_bool. cbn [co_body]. unfold name_at at 1. cbn [co_names nth_error bind].
  cbn. now rewrite attrs_patched.
Qed.

Theorem falsy_iff_all_fields_falsy fields (a : inst) : has_fields a fields ->
  (run_bool V truthy (generate_bool V fields) a = Ok false <-> forall d f, In f fields -> truthy (field_of a f d) = false).
Proof.
  intros Ha. rewrite bool_is_any. destruct (mapM_has a fields Ha) as [va [Ea [La Na]]]. rewrite Ea. cbn [bind]. split.
  - intros H d f Hf. injection H as H. destruct (In_nth _ _ "" Hf) as [i [Hi Hn]]. subst f. rewrite <- (Na d i Hi).
    destruct (truthy (nth i va d)) eqn:T; [|reflexivity].
    assert (existsb truthy va = true) by (apply existsb_exists; exists (nth i va d); split; [apply nth_In; lia | exact T]). congruence.
  - intros H. f_equal. destruct (existsb truthy va) eqn:E; [|reflexivity]. apply existsb_exists in E as [x [Hx Tx]].
    destruct (In_nth _ _ x Hx) as [i [Hi Hn]]. rewrite <- Hn, (Na x i ltac:(lia)), H in Tx; [discriminate | apply nth_In; lia].
Qed.

(* ---- __init__ ---- *)
(* the stores of the template, patched with names and defaults, assign every field in order: the argument, or the default for None *)
Definition init_spec (fields : list (string * V)) (args : list (option V)) : list (string * V) :=
  fold_left (fun at_ '(i, (nm, d)) => set_attr V at_ nm (match nth i args None with Some v => v | None => d end))
            (combine (seq 0 (length fields)) fields) [].

Lemma init_loop (fields : list (string * V)) args : forall done rest acc, fields = done ++ rest ->
  fold_left (fun acc '(vi, ci, ni) => do at_ <- acc;
      match vi with 0 => Err EUnsupported | S ai =>
      do nm <- name_at V (generate_init V fields) ni;
      match nth ai args None with
      | Some v => Ok (set_attr V at_ nm v)
      | None => match nth_error (co_consts (generate_init V fields)) ci with Some (CVal d) => Ok (set_attr V at_ nm d) | _ => Err EUnsupported end
      end end) (map (fun i => (S i, S i, i)) (seq (length done) (length rest))) (Ok acc)
  = Ok (fold_left (fun at_ '(i, (nm, d)) => set_attr V at_ nm (match nth i args None with Some v => v | None => d end))
            (combine (seq (length done) (length rest)) rest) acc).
Proof.
  intros done rest. revert done. induction rest as [|[nm d] r IH]; intros done acc E; [reflexivity|].
  cbn [length seq map fold_left combine bind].
  assert (N : name_at V (generate_init V fields) (length done) = Ok nm).
  { unfold name_at, generate_init. cbn [co_names]. subst fields. rewrite map_app, nth_error_app2 by (rewrite map_length; lia).
    rewrite map_length, Nat.sub_diag. reflexivity. }
  assert (C : nth_error (co_consts (generate_init V fields)) (S (length done)) = Some (CVal d)).
  { unfold generate_init. cbn [co_consts nth_error]. subst fields. rewrite map_app, nth_error_app2 by (rewrite map_length; lia).
    rewrite map_length, Nat.sub_diag. reflexivity. }
  rewrite N, C. cbn [bind].
  specialize (IH (done ++ [(nm, d)])). rewrite app_length in IH. cbn [length] in IH. rewrite Nat.add_1_r in IH.
  destruct (nth (length done) args None) as [v|]; apply IH; subst fields; now rewrite <- app_assoc.
Qed.

Theorem init_assigns_arguments_or_defaults (fields : list (string * V)) args :
  run_init V (generate_init V fields) args = Ok (init_spec fields args).
Proof.
  unfold run_init. unfold generate_init at 1. cbn [co_body]. unfold template, make_init. cbn [co_body]. rewrite placeholders_length.
  exact (init_loop fields args [] fields [] eq_refl).
Qed.
End P.

(* ---- construction = default construction + assignment (for distinct field names) ---- *)
Section C.
Variable V : Type.

Lemma lookup_set_attr (l : list (string * V)) nm v k :
  lookup k (set_attr V l nm v) = if String.eqb k nm then Some v else lookup k l.
Proof.
  induction l as [|[k' w] r IH]; cbn [set_attr lookup].
  - destruct (String.eqb k nm); reflexivity.
  - destruct (String.eqb_spec nm k') as [E|E]; cbn [lookup].
    + subst k'. destruct (String.eqb k nm); reflexivity.
    + rewrite IH. destruct (String.eqb_spec k k') as [E2|E2]; [|reflexivity].
      subst k'. destruct (String.eqb_spec k nm) as [E3|E3]; [congruence|reflexivity].
Qed.

(* what the construction loop / a sequence of assignments leaves under the name k: the LAST store to k wins *)
Fixpoint last_init (args : list (option V)) (s : nat) (rest : list (string * V)) (k : string) : option V :=
  match rest with
  | [] => None
  | (nm, d) :: r => match last_init args (S s) r k with
                    | Some v => Some v
                    | None => if String.eqb k nm then Some (match nth s args None with Some v => v | None => d end) else None
                    end
  end.
Fixpoint last_assign (args : list (option V)) (s : nat) (rest : list (string * V)) (k : string) : option V :=
  match rest with
  | [] => None
  | (nm, d) :: r => match last_assign args (S s) r k with
                    | Some v => Some v
                    | None => if String.eqb k nm then nth s args None else None
                    end
  end.

Definition step_init (args : list (option V)) (at_ : list (string * V)) (x : nat * (string * V)) : list (string * V) :=
  let '(i, (nm, d)) := x in set_attr V at_ nm (match nth i args None with Some v => v | None => d end).
(* assigning, on an existing instance, the fields an argument was given for *)
Definition step_assign (args : list (option V)) (at_ : list (string * V)) (x : nat * (string * V)) : list (string * V) :=
  let '(i, (nm, d)) := x in match nth i args None with Some v => set_attr V at_ nm v | None => at_ end.

Lemma init_spec_is_fold fields args : init_spec V fields args = fold_left (step_init args) (combine (seq 0 (length fields)) fields) [].
Proof. unfold init_spec. f_equal. Qed.

Lemma lookup_fold_init args k : forall rest s acc,
  lookup k (fold_left (step_init args) (combine (seq s (length rest)) rest) acc)
  = match last_init args s rest k with Some v => Some v | None => lookup k acc end.
Proof.
  induction rest as [|[nm d] r IH]; intros s acc; [reflexivity|].
  cbn [length seq combine fold_left last_init]. rewrite IH. destruct (last_init args (S s) r k); [reflexivity|].
  unfold step_init. rewrite lookup_set_attr. destruct (String.eqb k nm); reflexivity.
Qed.

Lemma lookup_fold_assign args k : forall rest s acc,
  lookup k (fold_left (step_assign args) (combine (seq s (length rest)) rest) acc)
  = match last_assign args s rest k with Some v => Some v | None => lookup k acc end.
Proof.
  induction rest as [|[nm d] r IH]; intros s acc; [reflexivity|].
  cbn [length seq combine fold_left last_assign]. rewrite IH. destruct (last_assign args (S s) r k); [reflexivity|].
  unfold step_assign. destruct (nth s args None) as [v|].
  - rewrite lookup_set_attr. destruct (String.eqb k nm); reflexivity.
  - destruct (String.eqb k nm); reflexivity.
Qed.

Lemma last_init_absent args k : forall rest s, ~ In k (map fst rest) -> last_init args s rest k = None.
Proof.
  induction rest as [|[nm d] r IH]; intros s H; [reflexivity|]. cbn [last_init]. cbn in H.
  rewrite IH by tauto. destruct (String.eqb_spec k nm); [subst; tauto | reflexivity].
Qed.
Lemma last_assign_absent args k : forall rest s, ~ In k (map fst rest) -> last_assign args s rest k = None.
Proof.
  induction rest as [|[nm d] r IH]; intros s H; [reflexivity|]. cbn [last_assign]. cbn in H.
  rewrite IH by tauto. destruct (String.eqb_spec k nm); [subst; tauto | reflexivity].
Qed.

Lemma nth_nil_none (s : nat) : nth s (@nil (option V)) None = None.
Proof. destruct s; reflexivity. Qed.

Lemma init_is_assign_over_default args k : forall rest s, NoDup (map fst rest) ->
  last_init args s rest k = match last_assign args s rest k with Some v => Some v | None => last_init [] s rest k end.
Proof.
  induction rest as [|[nm d] r IH]; intros s ND; [reflexivity|]. cbn [map fst] in ND. inversion ND as [|? ? Hnot ND']; subst.
  cbn [last_init last_assign]. destruct (String.eqb_spec k nm) as [E|E].
  - subst k. rewrite !last_init_absent, last_assign_absent by assumption. rewrite nth_nil_none.
    destruct (nth s args None); reflexivity.
  - rewrite (IH (S s) ND'). destruct (last_assign args (S s) r k); [reflexivity|].
    destruct (last_init [] (S s) r k); reflexivity.
Qed.

(* every field of a constructed instance is the argument given for it, or the type's default *)
Theorem constructed_field_is_argument_or_default fields args : NoDup (map fst fields) ->
  forall i nm d, nth_error fields i = Some (nm, d) ->
  lookup nm (init_spec V fields args) = Some (match nth i args None with Some v => v | None => d end).
Proof.
  intros ND i nm d H. rewrite init_spec_is_fold, lookup_fold_init. cbn [lookup].
  assert (G : forall rest s, NoDup (map fst rest) -> forall i, nth_error rest i = Some (nm, d) ->
            last_init args s rest nm = Some (match nth (s + i) args None with Some v => v | None => d end)).
  { induction rest as [|[n0 d0] r IH]; intros s ND0 [|j] Hj; cbn in Hj; try discriminate.
    - injection Hj as -> ->. cbn [last_init]. inversion ND0; subst. rewrite last_init_absent by assumption.
      rewrite String.eqb_refl, Nat.add_0_r. reflexivity.
    - cbn [last_init]. inversion ND0; subst. rewrite (IH (S s) ltac:(assumption) j Hj). replace (S s + j) with (s + S j) by lia. reflexivity. }
  rewrite (G fields 0 ND i H). reflexivity.
Qed.

(* constructing from arguments = default construction followed by assigning the fields an argument was given for *)
Theorem construction_is_default_then_assignment fields args : NoDup (map fst fields) -> forall k,
  lookup k (init_spec V fields args)
  = lookup k (fold_left (step_assign args) (combine (seq 0 (length fields)) fields) (init_spec V fields [])).
Proof.
  intros ND k. rewrite lookup_fold_assign, !init_spec_is_fold, !lookup_fold_init. cbn [lookup].
  rewrite (init_is_assign_over_default args k fields 0 ND).
  destruct (last_assign args 0 fields k); [reflexivity|]. destruct (last_init [] 0 fields k); reflexivity.
Qed.

(* without distinct names the clause is false of the model: the later default overwrites the earlier argument *)
End C.
Example repeated_names_break_it :
  lookup "x" (init_spec Z [("x", 0%Z); ("x", 0%Z)] [Some 7%Z; None]) = Some 0%Z /\
  lookup "x" (fold_left (step_assign Z [Some 7%Z; None]) (combine (seq 0 2) [("x", 0%Z); ("x", 0%Z)]) (init_spec Z [("x", 0%Z); ("x", 0%Z)] [])) = Some 7%Z.
Proof. vm_compute. split; reflexivity. Qed.

(* ---- unions: __init__ through object.__setattr__, member names among the constants ---- *)
Section U.
Variable V : Type.

Definition ucs (f : string * V) : list (cst V) := [CStr (fst f); CVal (snd f)].

Lemma flat_ucs_length (l : list (string * V)) : length (flat_map ucs l) = 2 * length l.
Proof. induction l as [|f r IH]; cbn [flat_map ucs length app]; [reflexivity|]. cbn [length app] in *. lia. Qed.

Lemma uconsts_at done nm d rest :
  nth_error (CNone :: flat_map ucs (done ++ (nm, d) :: rest)) (S (2 * length done)) = Some (CStr nm) /\
  nth_error (CNone :: flat_map ucs (done ++ (nm, d) :: rest)) (S (S (2 * length done))) = Some (CVal d).
Proof.
  rewrite flat_map_app. cbn [flat_map ucs fst snd app].
  assert (L := flat_ucs_length done).
  split.
  - change (nth_error (flat_map ucs done ++ CStr nm :: CVal d :: flat_map ucs rest) (2 * length done) = Some (CStr nm)).
    rewrite nth_error_app2; rewrite L; [|lia]. rewrite Nat.sub_diag. reflexivity.
  - change (nth_error (flat_map ucs done ++ CStr nm :: CVal d :: flat_map ucs rest) (S (2 * length done)) = Some (CVal d)).
    rewrite nth_error_app2; rewrite L; [|lia].
    replace (S (2 * length done) - 2 * length done) with 1 by lia. reflexivity.
Qed.

Lemma union_init_loop (fields : list (string * V)) args : forall done rest acc, fields = done ++ rest ->
  fold_left (fun acc '(vi, ki, ci) => do at_ <- acc;
      match vi with 0 => Err EUnsupported | S ai =>
      match nth_error (co_consts (generate_union_init V fields)) ki with
      | Some (CStr nm) =>
        match nth ai args None with
        | Some v => Ok (set_attr V at_ nm v)
        | None => match nth_error (co_consts (generate_union_init V fields)) ci with Some (CVal d) => Ok (set_attr V at_ nm d) | _ => Err EUnsupported end
        end
      | _ => Err EUnsupported
      end end) (map (fun i => (S i, S (2 * i), S (S (2 * i)))) (seq (length done) (length rest))) (Ok acc)
  = Ok (fold_left (step_init V args) (combine (seq (length done) (length rest)) rest) acc).
Proof.
  intros done rest. revert done. induction rest as [|[nm d] r IH]; intros done acc E; [reflexivity|].
  cbn [length seq map fold_left combine bind].
  assert (C : co_consts (generate_union_init V fields) = CNone :: flat_map ucs (done ++ (nm, d) :: r)) by (subst fields; reflexivity).
  destruct (uconsts_at done nm d r) as [C1 C2]. rewrite C, C1, C2. rewrite <- C.
  specialize (IH (done ++ [(nm, d)])). rewrite app_length in IH. cbn [length] in IH. rewrite Nat.add_1_r in IH.
  unfold step_init at 2. destruct (nth (length done) args None) as [v|]; apply IH; subst fields; now rewrite <- app_assoc.
Qed.

(* a union's __init__ stores, through object.__setattr__, what a structure's __init__ assigns *)
Theorem union_init_assigns_arguments_or_defaults (fields : list (string * V)) args :
  run_init V (generate_union_init V fields) args = Ok (init_spec V fields args).
Proof.
  rewrite init_spec_is_fold. unfold run_init. unfold generate_union_init at 1. cbn [co_body]. unfold template, make_union_init. cbn [co_body].
  rewrite placeholders_length. unfold name_at. cbn [co_names generate_union_init template make_union_init nth_error bind].
  cbn [String.eqb Ascii.eqb Bool.eqb andb negb]. 
  exact (union_init_loop fields args [] fields [] eq_refl).
Qed.
End U.

(* ---- argument binding of a positional call ---- *)
Section B.
Variable V : Type.

Lemma map_some_unwrap (l : list (option V)) :
  map (fun s : option (option V) => match s with Some a => a | None => None end) (map Some l) = l.
Proof. induction l as [|x r IH]; cbn; [reflexivity|now rewrite IH]. Qed.
Lemma map_none_unwrap n :
  map (fun s : option (option V) => match s with Some a => a | None => None end) (repeat None n) = repeat None n.
Proof. induction n as [|n IH]; cbn; [reflexivity|now rewrite IH]. Qed.

(* a call with positional values only: the values in order, the remaining parameters not given *)
Theorem bind_positional (fields : list (string * V)) pos : length pos <= length fields ->
  bind_args V (generate_init V fields) pos [] = Ok (pos ++ repeat None (length fields - length pos)).
Proof.
  intros H. unfold bind_args, generate_init. cbn [co_varnames tl]. rewrite map_length.
  destruct (Nat.ltb_spec (length fields) (length pos)) as [L|L]; [lia|].
  cbn [fold_left bind]. now rewrite map_app, map_some_unwrap, map_none_unwrap.
Qed.
Theorem too_many_positional_values_are_rejected (fields : list (string * V)) pos kw : length fields < length pos ->
  bind_args V (generate_init V fields) pos kw = Err EType.
Proof.
  intros H. unfold bind_args, generate_init. cbn [co_varnames tl]. rewrite map_length.
  destruct (Nat.ltb_spec (length fields) (length pos)) as [L|L]; [reflexivity|lia].
Qed.

Lemma nth_app_repeat_none (pos : list (option V)) k i : nth i (pos ++ repeat None k) None = nth i pos None.
Proof.
  destruct (Nat.lt_ge_cases i (length pos)) as [L|L].
  - now rewrite app_nth1.
  - rewrite app_nth2 by exact L. rewrite (nth_overflow pos) by exact L.
    destruct (Nat.lt_ge_cases (i - length pos) k) as [L2|L2]; [now rewrite nth_repeat | now rewrite nth_overflow by (rewrite repeat_length; exact L2)].
Qed.

(* T(v1, ..., vk): the first k fields take the values (a None counts as not given), the others their defaults *)
Theorem positional_construction (fields : list (string * V)) pos : length pos <= length fields -> NoDup (map fst fields) ->
  exists args, bind_args V (generate_init V fields) pos [] = Ok args /\
    exists attrs, run_init V (generate_init V fields) args = Ok attrs /\
    forall i nm d, nth_error fields i = Some (nm, d) -> lookup nm attrs = Some (match nth i pos None with Some v => v | None => d end).
Proof.
  intros H ND. eexists. split; [apply bind_positional; exact H|]. eexists. split; [apply init_assigns_arguments_or_defaults|].
  intros i nm d Hn. rewrite (constructed_field_is_argument_or_default V fields _ ND i nm d Hn). now rewrite nth_app_repeat_none.
Qed.
End B.

(* ---- argument binding of a keyword call ---- *)
Section K.
Variable V : Type.
Notation slot := (option (option V)).

Lemma index_of_spec nm : forall l i, index_of nm l = Some i -> nth_error l i = Some nm.
Proof.
  induction l as [|x r IH]; intros i H; cbn in H; [discriminate|].
  destruct (String.eqb_spec nm x) as [E|E]; [injection H as <-; now subst|].
  destruct (index_of nm r) as [j|] eqn:Ej; cbn in H; [|discriminate]. injection H as <-. cbn. now apply IH.
Qed.
Lemma index_of_in nm : forall l, In nm l -> exists i, index_of nm l = Some i.
Proof.
  induction l as [|x r IH]; intros H; [destruct H|]. cbn. destruct (String.eqb_spec nm x) as [E|E]; [now exists 0|].
  destruct H as [H|H]; [congruence|]. destruct (IH H) as [j Hj]. rewrite Hj. now exists (S j).
Qed.
Lemma nth_set_nth_eq {A} (d x : A) : forall l i, i < length l -> nth i (set_nth l i x) d = x.
Proof. induction l as [|y r IH]; intros [|i] H; cbn in *; try lia; [reflexivity|apply IH; lia]. Qed.
Lemma nth_set_nth_neq {A} (d x : A) : forall l i j, i <> j -> nth j (set_nth l i x) d = nth j l d.
Proof. induction l as [|y r IH]; intros [|i] [|j] H; cbn; try reflexivity; try lia. apply IH. lia. Qed.
Lemma set_nth_length {A} (x : A) : forall l i, length (set_nth l i x) = length l.
Proof. induction l as [|y r IH]; intros [|i]; cbn; try reflexivity. now rewrite IH. Qed.
Lemma lookup_app_notin {A} k (l1 l2 : list (string * A)) : ~ In k (map fst l1) -> lookup k (l1 ++ l2) = lookup k l2.
Proof.
  induction l1 as [|[k' v] r IH]; intros H; [reflexivity|]. cbn in *. destruct (String.eqb_spec k k') as [E|E]; [subst; tauto|]. apply IH. tauto.
Qed.
Lemma lookup_app_in {A} k (l1 l2 : list (string * A)) v : lookup k l1 = Some v -> lookup k (l1 ++ l2) = Some v.
Proof.
  induction l1 as [|[k' w] r IH]; intros H; [discriminate|]. cbn in *. destruct (String.eqb k k'); [exact H|now apply IH].
Qed.
Lemma lookup_none_notin {A} k (l : list (string * A)) : ~ In k (map fst l) -> lookup k l = None.
Proof.
  induction l as [|[k' v] r IH]; intros H; [reflexivity|]. cbn in *. destruct (String.eqb_spec k k') as [E|E]; [subst; tauto|]. apply IH. tauto.
Qed.
Lemma nth_error_nodup_inj (l : list string) i j x : NoDup l -> nth_error l i = Some x -> nth_error l j = Some x -> i = j.
Proof.
  intros ND Hi Hj. apply (proj1 (NoDup_nth_error l) ND); [apply nth_error_Some; congruence | congruence].
Qed.

Definition kw_step (params : list string) (acc : result (list slot)) (kv : string * option V) : result (list slot) :=
  let '(k, v) := kv in
  do sl <- acc;
  match index_of k params with
  | None => Err EType
  | Some i => match nth i sl None with Some _ => Err EType | None => Ok (set_nth sl i (Some v)) end
  end.

(* slots agree with the keywords processed so far *)
Definition agrees (params : list string) (sl : list slot) (done : list (string * option V)) : Prop :=
  length sl = length params /\ forall i nm, nth_error params i = Some nm -> nth i sl None = lookup nm done.

Lemma kw_fold params : NoDup params -> forall kw2 done sl, agrees params sl done ->
  NoDup (map fst (done ++ kw2)) -> (forall k, In k (map fst kw2) -> In k params) ->
  exists sl', fold_left (kw_step params) kw2 (Ok sl) = Ok sl' /\ agrees params sl' (done ++ kw2).
Proof.
  intros NDp. induction kw2 as [|[k v] r IH]; intros done sl [L A] ND Hin.
  - exists sl. rewrite app_nil_r. now split.
  - cbn [fold_left kw_step bind].
    destruct (index_of_in k params (Hin k (or_introl eq_refl))) as [i Hi]. rewrite Hi.
    assert (Hk := index_of_spec k params i Hi).
    assert (Hnot : ~ In k (map fst done)).
    { rewrite map_app in ND. cbn in ND. apply NoDup_remove_2 in ND. intros C. apply ND. apply in_or_app. now left. }
    rewrite (A i k Hk), (lookup_none_notin k done Hnot).
    assert (Hlt : i < length sl) by (rewrite L; apply nth_error_Some; congruence).
    destruct (IH (done ++ [(k, v)]) (set_nth sl i (Some v))) as [sl' [F Ag]].
    + split; [now rewrite set_nth_length|]. intros j nm Hj. destruct (Nat.eq_dec i j) as [<-|Ne].
      * assert (nm = k) by congruence. subst nm. rewrite nth_set_nth_eq by exact Hlt.
        rewrite (lookup_app_notin k done [(k, v)] Hnot). cbn. now rewrite String.eqb_refl.
      * rewrite nth_set_nth_neq by exact Ne. rewrite (A j nm Hj).
        assert (nm <> k) by (intros ->; apply Ne; exact (nth_error_nodup_inj params i j k NDp Hk Hj)).
        destruct (lookup nm done) as [w|] eqn:E; [now rewrite (lookup_app_in nm done [(k, v)] w E)|].
        assert (Hn : lookup nm (done ++ [(k, v)]) = lookup nm [(k, v)]).
        { clear -E. induction done as [|[k' w] r0 IH0]; [reflexivity|]. cbn in *. destruct (String.eqb nm k'); [discriminate|now apply IH0]. }
        rewrite Hn. cbn. destruct (String.eqb_spec nm k); [contradiction|reflexivity].
    + now rewrite <- app_assoc.
    + intros k0 H0. apply Hin. now right.
    + exists sl'. split; [exact F|]. now rewrite <- app_assoc in Ag.
Qed.

Lemma nth_repeat_none n i : nth i (repeat (@None (option V)) n) None = None.
Proof. revert i; induction n as [|n IH]; intros [|i]; cbn; auto. Qed.

(* a call with keywords only, distinct and naming fields: every parameter gets the value of its keyword, or is not given *)
Theorem bind_keywords (fields : list (string * V)) kw : NoDup (map fst fields) -> NoDup (map fst kw) ->
  (forall k, In k (map fst kw) -> In k (map fst fields)) ->
  exists args, bind_args V (generate_init V fields) [] kw = Ok args /\ length args = length fields /\
    forall i nm d, nth_error fields i = Some (nm, d) -> nth i args None = match lookup nm kw with Some v => v | None => None end.
Proof.
  intros NDf NDk Hin. unfold bind_args, generate_init. cbn [co_varnames tl length map app]. rewrite map_length, Nat.sub_0_r.
  change (if length fields <? 0 then _ else _) with
    (do slots' <- fold_left (kw_step (map fst fields)) kw (Ok (repeat None (length fields)));
     Ok (map (fun s : slot => match s with Some a => a | None => None end) slots')).
  destruct (kw_fold (map fst fields) NDf kw [] (repeat None (length fields))) as [sl' [F [L A]]].
  - split; [now rewrite repeat_length, map_length|]. intros i nm _. now rewrite nth_repeat_none.
  - exact NDk.
  - exact Hin.
  - rewrite F. cbn [bind app] in *. eexists. split; [reflexivity|]. split; [now rewrite map_length, L, map_length|].
    intros i nm d Hn. assert (Hn' : nth_error (map fst fields) i = Some nm) by (rewrite nth_error_map, Hn; reflexivity).
    specialize (A i nm Hn').
    rewrite <- A. set (f := fun s : slot => match s with Some a => a | None => None end).
    change (nth i (map f sl') (f None) = f (nth i sl' None)). apply map_nth.
Qed.

Theorem keyword_construction (fields : list (string * V)) kw : NoDup (map fst fields) -> NoDup (map fst kw) ->
  (forall k, In k (map fst kw) -> In k (map fst fields)) ->
  exists args, bind_args V (generate_init V fields) [] kw = Ok args /\
    exists attrs, run_init V (generate_init V fields) args = Ok attrs /\
    forall i nm d, nth_error fields i = Some (nm, d) ->
      lookup nm attrs = Some (match lookup nm kw with Some (Some v) => v | _ => d end).
Proof.
  intros NDf NDk Hin. destruct (bind_keywords fields kw NDf NDk Hin) as [args [B [_ N]]].
  exists args. split; [exact B|]. eexists. split; [apply init_assigns_arguments_or_defaults|].
  intros i nm d Hn. rewrite (constructed_field_is_argument_or_default V fields args NDf i nm d Hn), (N i nm d Hn).
  destruct (lookup nm kw) as [[v|]|]; reflexivity.
Qed.
End K.

(* ---- calls that mix positional values and keywords ---- *)
Section M.
Variable V : Type.
Notation slot := (option (option V)).

(* positional values seen as keywords already processed: the first |pos| parameter names with their values *)
Definition as_keywords (names : list string) (pos : list (option V)) : list (string * option V) := combine names pos.

Lemma lookup_combine (names : list string) : NoDup names -> forall (pos : list (option V)) i nm, length pos <= length names ->
  nth_error names i = Some nm ->
  lookup nm (combine names pos) = if i <? length pos then Some (nth i pos None) else None.
Proof.
  induction 1 as [|x r Hx ND IH]; intros pos i nm L Hn; [destruct i; discriminate|].
  destruct pos as [|p ps]; [cbn; reflexivity|]. cbn [combine lookup length]. cbn [length] in L.
  destruct i as [|i]; cbn in Hn.
  - injection Hn as ->. now rewrite String.eqb_refl.
  - assert (nm <> x) by (intros ->; apply Hx; eapply nth_error_In; exact Hn).
    destruct (String.eqb_spec nm x) as [E|_]; [contradiction|]. rewrite (IH ps i nm ltac:(lia) Hn).
    change (S i <? S (length ps)) with (i <? length ps). reflexivity.
Qed.

Lemma agrees_positional (names : list string) (pos : list (option V)) : NoDup names -> length pos <= length names ->
  agrees V names (map Some pos ++ repeat None (length names - length pos)) (as_keywords names pos).
Proof.
  intros ND L. split; [rewrite app_length, map_length, repeat_length; lia|].
  intros i nm Hn. unfold as_keywords. rewrite (lookup_combine names ND pos i nm L Hn).
  destruct (Nat.ltb_spec i (length pos)) as [Hi|Hi].
  - rewrite app_nth1 by (now rewrite map_length). rewrite (nth_indep _ None (Some None)) by (now rewrite map_length).
    now rewrite (map_nth Some).
  - rewrite app_nth2 by (now rewrite map_length). apply nth_repeat_none.
Qed.

(* T(v1..vk, name=v, ...): the keywords may not name a parameter that a positional value already filled (Python's "multiple values") *)
Theorem bind_mixed (fields : list (string * V)) pos kw : NoDup (map fst fields) -> length pos <= length fields ->
  NoDup (map fst (as_keywords (map fst fields) pos ++ kw)) -> (forall k, In k (map fst kw) -> In k (map fst fields)) ->
  exists args, bind_args V (generate_init V fields) pos kw = Ok args /\
    forall i nm d, nth_error fields i = Some (nm, d) ->
      nth i args None = match lookup nm (as_keywords (map fst fields) pos ++ kw) with Some v => v | None => None end.
Proof.
  intros NDf L NDk Hin. unfold bind_args, generate_init. cbn [co_varnames tl]. rewrite map_length.
  destruct (Nat.ltb_spec (length fields) (length pos)) as [C|_]; [lia|].
  change (fold_left _ kw (Ok ?s)) with (fold_left (kw_step V (map fst fields)) kw (Ok s)).
  destruct (kw_fold V (map fst fields) NDf kw (as_keywords (map fst fields) pos) (map Some pos ++ repeat None (length fields - length pos))) as [sl' [F [L' A]]].
  - rewrite <- (map_length fst fields). apply agrees_positional; [exact NDf|now rewrite map_length].
  - exact NDk.
  - exact Hin.
  - rewrite F. cbn [bind]. eexists. split; [reflexivity|].
    intros i nm d Hn. assert (Hn' : nth_error (map fst fields) i = Some nm) by (rewrite nth_error_map, Hn; reflexivity).
    rewrite <- (A i nm Hn'). set (f := fun s : slot => match s with Some a => a | None => None end).
    change (nth i (map f sl') (f None) = f (nth i sl' None)). apply map_nth.
Qed.

Theorem mixed_construction (fields : list (string * V)) pos kw : NoDup (map fst fields) -> length pos <= length fields ->
  NoDup (map fst (as_keywords (map fst fields) pos ++ kw)) -> (forall k, In k (map fst kw) -> In k (map fst fields)) ->
  exists args, bind_args V (generate_init V fields) pos kw = Ok args /\
    exists attrs, run_init V (generate_init V fields) args = Ok attrs /\
    forall i nm d, nth_error fields i = Some (nm, d) ->
      lookup nm attrs = Some (match lookup nm (as_keywords (map fst fields) pos ++ kw) with Some (Some v) => v | _ => d end).
Proof.
  intros NDf L NDk Hin. destruct (bind_mixed fields pos kw NDf L NDk Hin) as [args [B N]].
  exists args. split; [exact B|]. eexists. split; [apply init_assigns_arguments_or_defaults|].
  intros i nm d Hn. rewrite (constructed_field_is_argument_or_default V fields args NDf i nm d Hn), (N i nm d Hn).
  destruct (lookup nm (as_keywords (map fst fields) pos ++ kw)) as [[v|]|]; reflexivity.
Qed.
End M.

(* ---- == as a relation ---- *)
Section E.
Variable V : Type.
Variable veqb : V -> V -> bool.

(* == on instances of structure classes is an equivalence relation whenever the comparison of field values is *)
Theorem eq_reflexive fields (a : inst V) : (forall x, veqb x x = true) -> has_fields V a fields ->
  run_eq V veqb (generate_eq V fields) a a = Ok true.
Proof. intros R Ha. apply (eq_true_iff V veqb fields a a Ha Ha). split; [reflexivity|intros; apply R]. Qed.

Theorem eq_symmetric fields (a b : inst V) : (forall x y, veqb x y = true -> veqb y x = true) ->
  has_fields V a fields -> has_fields V b fields ->
  run_eq V veqb (generate_eq V fields) a b = Ok true -> run_eq V veqb (generate_eq V fields) b a = Ok true.
Proof.
  intros S Ha Hb H. apply (eq_true_iff V veqb fields a b Ha Hb) in H as [C F].
  apply (eq_true_iff V veqb fields b a Hb Ha). split; [now symmetry|intros d f Hf; apply S, F, Hf].
Qed.

Theorem eq_transitive fields (a b c : inst V) : (forall x y z, veqb x y = true -> veqb y z = true -> veqb x z = true) ->
  has_fields V a fields -> has_fields V b fields -> has_fields V c fields ->
  run_eq V veqb (generate_eq V fields) a b = Ok true -> run_eq V veqb (generate_eq V fields) b c = Ok true ->
  run_eq V veqb (generate_eq V fields) a c = Ok true.
Proof.
  intros T Ha Hb Hc H1 H2. apply (eq_true_iff V veqb fields a b Ha Hb) in H1 as [C1 F1]. apply (eq_true_iff V veqb fields b c Hb Hc) in H2 as [C2 F2].
  apply (eq_true_iff V veqb fields a c Ha Hc). split; [congruence|intros d f Hf; exact (T _ _ _ (F1 d f Hf) (F2 d f Hf))].
Qed.

(* one field changed to an unequal value makes the instances unequal *)
Theorem changing_one_field_makes_unequal fields (a b : inst V) f : has_fields V a fields -> has_fields V b fields -> In f fields ->
  (exists d, veqb (field_of V a f d) (field_of V b f d) = false) -> run_eq V veqb (generate_eq V fields) a b <> Ok true.
Proof.
  intros Ha Hb Hf [d Hd] H. apply (eq_true_iff V veqb fields a b Ha Hb) in H as [_ F]. rewrite (F d f Hf) in Hd. discriminate.
Qed.
End E.
