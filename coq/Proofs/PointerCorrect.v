From Coq Require Import Lia.
From VF Require Import Model.Pointer Proofs.CodecCorrect.
Open Scope string_scope. Open Scope list_scope. Open Scope Z_scope.

Lemma deref_null c t s b : deref c t s (mkPtr 0 b) = Err ENullDeref.
Proof. reflexivity. Qed.
Lemma deref_unbound c t s a : deref c t s (mkPtr a false) = Err ENullDeref.
Proof. unfold deref. cbn. now rewrite orb_true_r. Qed.
(* for a bound, non-null pointer to a non-void, non-char target, dereferencing IS parsing the target at the address *)
Lemma deref_reads_target c t s a : a <> 0 ->
  (forall al, t <> TPrim PVoid al) -> (forall al, t <> TPrim PChar al) ->
  deref c t s (mkPtr a true) = do x <- read_top c t s a; Ok (Some (fst x)).
Proof.
  intros Ha Hv Hc. unfold deref. cbn [p_addr p_bound negb]. assert (a =? 0 = false) as -> by lia. cbn [orb].
  destruct t as [p al| | | | |]; try reflexivity. destruct p; try reflexivity; [exfalso; eapply Hc; reflexivity|exfalso; eapply Hv; reflexivity].
Qed.
Lemma deref_char_is_string c al s a : a <> 0 ->
  deref c (TPrim PChar al) s (mkPtr a true) = do x <- read_top c (TArr (TPrim PChar al) LNull) s a; Ok (Some (fst x)).
Proof. intros Ha. unfold deref. cbn [p_addr p_bound negb]. assert (a =? 0 = false) as -> by lia. reflexivity. Qed.
(* arithmetic keeps the binding (same stream) and produces the computed address *)
Lemma arith_add p n : ptr_arith (fun a b => Some (a + b)) p n = Some (mkPtr (p_addr p + n) (p_bound p)).
Proof. reflexivity. Qed.
Lemma split_at_app bs rest : split_at (length bs) (bs ++ rest) = Ok (bs, rest).
Proof.
  unfold split_at. rewrite app_length.
  assert (Nat.leb (length bs) (length bs + length rest) = true) as -> by (apply Nat.leb_le; lia).
  rewrite firstn_app, Nat.sub_diag, firstn_all, skipn_app, Nat.sub_diag, skipn_all. simpl. now rewrite app_nil_r.
Qed.
(* the pointer field itself: reading what was dumped gives the address back, in the configured pointer type *)
Lemma ptr_field_roundtrip e n sg pk a bs : (prim_endian (PInt n sg pk) e = LE \/ prim_endian (PInt n sg pk) e = BE) ->
  prim_write e (PInt n sg pk) (VInt a) = Ok bs -> forall rest, prim_read e (PInt n sg pk) (bs ++ rest) = Ok (VInt a, rest).
Proof.
  intros He H rest. cbn [prim_write] in H. destruct (int_roundtrip _ _ _ _ _ He H) as (Hl & _ & Hv).
  subst n. cbn [prim_read]. rewrite split_at_app. cbn [bind]. now rewrite Hv.
Qed.
