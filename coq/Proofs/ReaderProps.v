(* ReaderProps.v — properties of the model reader proved by induction over the type universe:
     extension stability (C08): a value returned from an input is returned unchanged from every extension of that input;
   for types without unions and to-end-of-stream arrays. *)
From Coq Require Import Lia.
From VF Require Import Model.Reader Proofs.TyInd.
Open Scope string_scope. Open Scope list_scope. Open Scope Z_scope.

(* ---------- streams ---------- *)
Lemma skipn_app_gen {A} n (a b : list A) : skipn n (a ++ b) = skipn n a ++ skipn (n - length a) b.
Proof. apply skipn_app. Qed.

Lemma srest_app s1 s2 pos : exists b, srest (s1 ++ s2) pos = srest s1 pos ++ b.
Proof. unfold srest. rewrite skipn_app. eauto. Qed.

Lemma zlen_app a b : zlen (a ++ b) = zlen a + zlen b.
Proof. unfold zlen. rewrite app_length. lia. Qed.
Lemma zlen_nonneg a : 0 <= zlen a.
Proof. unfold zlen. lia. Qed.

Lemma sread_app_enough s1 s2 pos n : n <= zlen (srest s1 pos) -> sread (s1 ++ s2) pos n = sread s1 pos n.
Proof.
  unfold sread, srest, zlen. intros H. rewrite skipn_app, firstn_app.
  assert (Z.to_nat n - length (skipn (Z.to_nat pos) s1) = 0)%nat as -> by lia. cbn [firstn]. apply app_nil_r.
Qed.

Lemma sread_exact_app s1 s2 pos n bs : sread_exact s1 pos n = Ok bs -> sread_exact (s1 ++ s2) pos n = Ok bs.
Proof.
  unfold sread_exact. destruct (9223372036854775807 <? n); [discriminate|].
  destruct (Z.leb_spec n (zlen (srest s1 pos))) as [L|L]; [|discriminate].
  intros H. destruct (srest_app s1 s2 pos) as [b ->]. rewrite zlen_app. pose proof (zlen_nonneg b).
  assert (n <=? zlen (srest s1 pos) + zlen b = true) as -> by lia.
  now rewrite sread_app_enough.
Qed.

(* ---------- scalars ---------- *)
Lemma split_at_app n a b x r : split_at n a = Ok (x, r) -> split_at n (a ++ b) = Ok (x, r ++ b).
Proof.
  unfold split_at. destruct (Nat.leb_spec n (length a)) as [L|L]; [|discriminate]. intros H. injection H as <- <-.
  rewrite app_length. assert (Nat.leb n (length a + length b) = true) as -> by (apply Nat.leb_le; lia).
  rewrite firstn_app, skipn_app. assert (n - length a = 0)%nat as -> by lia. cbn [firstn skipn]. now rewrite app_nil_r.
Qed.

Lemma leb_read_go_app sg : forall a b acc sh v r, leb_read_go sg a acc sh = Ok (v, r) -> leb_read_go sg (a ++ b) acc sh = Ok (v, r ++ b).
Proof.
  induction a as [|x a IH]; intros b acc sh v r H; cbn [leb_read_go app] in *; [discriminate|].
  destruct (x <? 128); [now injection H as <- <-|]. now apply IH.
Qed.

Lemma prim_read_app e p a b v r : prim_read e p a = Ok (v, r) -> prim_read e p (a ++ b) = Ok (v, r ++ b).
Proof.
  destruct p as [n sg pk|n| | |sg|]; cbn [prim_read]; intros H.
  - destruct (split_at n a) as [[x r0]|] eqn:E; [|discriminate]. rewrite (split_at_app _ _ b _ _ E). cbn [bind] in *. now injection H as <- <-.
  - destruct (split_at n a) as [[x r0]|] eqn:E; [|discriminate]. rewrite (split_at_app _ _ b _ _ E). cbn [bind] in *. now injection H as <- <-.
  - destruct (split_at 1 a) as [[x r0]|] eqn:E; [|discriminate]. rewrite (split_at_app _ _ b _ _ E). cbn [bind] in *. now injection H as <- <-.
  - destruct (split_at 2 a) as [[x r0]|] eqn:E; [|discriminate]. rewrite (split_at_app _ _ b _ _ E). cbn [bind] in *.
    destruct (utf16_decode (prim_endian PWchar e) x); [|discriminate]. cbn [bind] in *. now injection H as <- <-.
  - unfold leb_read in *. destruct (leb_read_go sg a 0 0) as [[v0 r0]|] eqn:E; [|discriminate].
    rewrite (leb_read_go_app _ _ b _ _ _ _ E). cbn [bind] in *. now injection H as <- <-.
  - now injection H as <- <-.
Qed.

Definition ext_stable (rd : rfn) : Prop := forall s1 s2 pos ctx r, rd s1 pos ctx = Ok r -> rd (s1 ++ s2) pos ctx = Ok r.

Lemma prim_read_at_ext e p : ext_stable (fun s pos _ => prim_read_at e p s pos).
Proof.
  intros s1 s2 pos ctx [v p'] H. unfold prim_read_at in *.
  destruct (prim_read e p (srest s1 pos)) as [[v0 r0]|] eqn:E; [|discriminate]. cbn [bind fst snd] in H.
  destruct (srest_app s1 s2 pos) as [b ->]. rewrite (prim_read_app _ _ _ b _ _ E). cbn [bind fst snd].
  rewrite !zlen_app. injection H as <- <-. f_equal. f_equal. lia.
Qed.

Lemma bb_read_ext e s1 s2 pos bb st bits r : bb_read e s1 pos bb st bits = Ok r -> bb_read e (s1 ++ s2) pos bb st bits = Ok r.
Proof.
  unfold bb_read. destruct ((bb_rem bb =? 0) || negb (storage_eqb (bb_type bb) st)); [|auto].
  destruct st as [[p al]|]; [|auto]. destruct (prim_size_z p); [|auto].
  destruct (prim_read_at e p s1 pos) as [[v p']|] eqn:E; [|discriminate].
  rewrite (prim_read_at_ext e p s1 s2 pos [] _ E). auto.
Qed.

(* ---------- loops ---------- *)
Lemma seq_n_ext rd : ext_stable rd -> forall k s1 s2 pos ctx r, seq_n rd k s1 pos ctx = Ok r -> seq_n rd k (s1 ++ s2) pos ctx = Ok r.
Proof.
  intros Hrd. induction k as [|k IH]; intros s1 s2 pos ctx r H; cbn [seq_n] in *; [exact H|].
  destruct (rd s1 pos ctx) as [x|] eqn:E; [|discriminate]. rewrite (Hrd _ s2 _ _ _ E). cbn [bind] in *.
  destruct (seq_n rd k s1 (snd x) ctx) as [y|] eqn:E2; [|discriminate]. now rewrite (IH _ s2 _ _ _ E2).
Qed.
Lemma zero_term_ext isz rd : ext_stable rd -> forall f s1 s2 pos ctx r, zero_term isz rd f s1 pos ctx = Ok r -> zero_term isz rd f (s1 ++ s2) pos ctx = Ok r.
Proof.
  intros Hrd. induction f as [|f IH]; intros s1 s2 pos ctx r H; cbn [zero_term] in *; [discriminate|].
  destruct (rd s1 pos ctx) as [x|] eqn:E; [|discriminate]. rewrite (Hrd _ s2 _ _ _ E). cbn [bind] in *.
  destruct (isz (fst x)); [exact H|].
  destruct (zero_term isz rd f s1 (snd x) ctx) as [y|] eqn:E2; [|discriminate]. now rewrite (IH _ s2 _ _ _ E2).
Qed.
Lemma falsy_term_ext rd : ext_stable rd -> forall f s1 s2 pos ctx r, falsy_term rd f s1 pos ctx = Ok r -> falsy_term rd f (s1 ++ s2) pos ctx = Ok r.
Proof.
  intros Hrd. induction f as [|f IH]; intros s1 s2 pos ctx r H; cbn [falsy_term] in *; [discriminate|].
  destruct (rd s1 pos ctx) as [x|] eqn:E; [|discriminate]. rewrite (Hrd _ s2 _ _ _ E). cbn [bind] in *.
  destruct (truthy_value (fst x)); [|exact H].
  destruct (falsy_term rd f s1 (snd x) ctx) as [y|] eqn:E2; [|discriminate]. now rewrite (IH _ s2 _ _ _ E2).
Qed.

(* a full-length read sees the same bytes in the extension *)
Lemma sread_full_app s1 s2 pos n : zlen (sread s1 pos n) = n -> sread (s1 ++ s2) pos n = sread s1 pos n.
Proof.
  intros H. apply sread_app_enough. unfold sread, srest, zlen in *. rewrite firstn_length in H. lia.
Qed.
Lemma char_term_ext : forall f s1 s2 pos acc r, char_term f s1 pos acc = Ok r -> char_term f (s1 ++ s2) pos acc = Ok r.
Proof.
  induction f as [|f IH]; intros s1 s2 pos acc r H; cbn [char_term] in *; [discriminate|].
  destruct (sread s1 pos 1) as [|b [|b2 t]] eqn:E; try discriminate.
  rewrite sread_full_app by (rewrite E; reflexivity). rewrite E. destruct (b =? 0); [exact H|]. now apply IH.
Qed.
Lemma wchar_term_ext en : forall f s1 s2 pos acc r, wchar_term en f s1 pos acc = Ok r -> wchar_term en f (s1 ++ s2) pos acc = Ok r.
Proof.
  induction f as [|f IH]; intros s1 s2 pos acc r H; cbn [wchar_term] in *; [discriminate|].
  destruct (sread s1 pos 2) as [|a [|b [|c t]]] eqn:E; try discriminate.
  rewrite sread_full_app by (rewrite E; reflexivity). rewrite E. destruct ((a =? 0) && (b =? 0)); [exact H|]. now apply IH.
Qed.

Lemma struct_loop_ext e aligned start : forall items, Forall (fun it => ext_stable (snd it)) items ->
  forall offs s1 s2 pos bb vals sizes lctx r,
  struct_loop e aligned start items offs s1 pos bb vals sizes lctx = Ok r ->
  struct_loop e aligned start items offs (s1 ++ s2) pos bb vals sizes lctx = Ok r.
Proof.
  induction 1 as [|[m rd] items Hrd Hits IH]; intros offs s1 s2 pos bb vals sizes lctx r H; cbn [struct_loop] in *; [exact H|].
  destruct offs as [|o ro]; [exact H|]. cbn [snd] in Hrd.
  set (off2 := if aligned then _ else _) in *.
  assert (Plain : forall res,
    (do x <- rd s1 off2 lctx; struct_loop e aligned start items ro s1 (snd x) bb_empty ((fm_name m, fst x) :: vals) ((fm_name m, snd x - off2) :: sizes) (int_ctx (fm_name m) (fst x) lctx)) = Ok res ->
    (do x <- rd (s1 ++ s2) off2 lctx; struct_loop e aligned start items ro (s1 ++ s2) (snd x) bb_empty ((fm_name m, fst x) :: vals) ((fm_name m, snd x - off2) :: sizes) (int_ctx (fm_name m) (fst x) lctx)) = Ok res).
  { intros res Hp. destruct (rd s1 off2 lctx) as [x|] eqn:E; [|discriminate]. rewrite (Hrd _ s2 _ _ _ E). cbn [bind] in *. now apply IH. }
  destruct (fm_bits m) as [nb|]; [|now apply Plain].
  destruct (nb =? 0); [now apply Plain|].
  destruct (bb_read e s1 off2 bb (fm_storage m) nb) as [[[v bb'] pos']|] eqn:E; [|discriminate].
  rewrite (bb_read_ext _ _ s2 _ _ _ _ _ E). cbn [bind] in *. now apply IH.
Qed.

(* ---------- the type-level statement ---------- *)
(* types without unions and without to-end-of-stream arrays *)
Fixpoint simple (t : ty) : bool :=
  match t with
  | TPrim _ _ | TEnum _ _ _ _ | TPtr _ => true
  | TArr el len => simple el && match len with LExpr _ true => false | _ => true end
  | TStruct _ fs _ => (fix go (fs : list field) : bool := match fs with [] => true | Fld _ _ t _ _ :: r => simple t && go r end) fs
  | TUnion _ _ _ => false
  end.
Lemma simple_struct n fs al : simple (TStruct n fs al) = true -> Forall (fun f => simple (f_ty f) = true) fs.
Proof.
  cbn [simple]. induction fs as [|[nm an t b o] r IH]; intros H; [constructor|].
  apply andb_prop in H as [H1 H2]. constructor; [exact H1|now apply IH].
Qed.

Section Ext.
  Variable c : cfg.

  Lemma read_count_ext fuel el rd : ext_stable rd -> forall n s1 s2 pos ctx r,
    read_count c fuel el rd n s1 pos ctx = Ok r -> read_count c fuel el rd n (s1 ++ s2) pos ctx = Ok r.
  Proof.
    intros Hrd n s1 s2 pos ctx r H.
    assert (Gen : forall r0,
      (do q <- seq_n rd (Z.to_nat (Z.min n (zlen (srest s1 pos) + 65))) s1 pos ctx; if zlen (srest s1 pos) + 65 <? n then Err EOutOfFuel else Ok (VList (fst q), snd q)) = Ok r0 ->
      (do q <- seq_n rd (Z.to_nat (Z.min n (zlen (srest (s1 ++ s2) pos) + 65))) (s1 ++ s2) pos ctx; if zlen (srest (s1 ++ s2) pos) + 65 <? n then Err EOutOfFuel else Ok (VList (fst q), snd q)) = Ok r0).
    { intros r0 Hg. destruct (seq_n rd (Z.to_nat (Z.min n (zlen (srest s1 pos) + 65))) s1 pos ctx) as [q|] eqn:E; [|discriminate]. cbn [bind] in Hg.
      destruct (Z.ltb_spec (zlen (srest s1 pos) + 65) n) as [L|L]; [discriminate|].
      destruct (srest_app s1 s2 pos) as [b ->]. rewrite zlen_app. pose proof (zlen_nonneg b).
      assert (Z.min n (zlen (srest s1 pos) + zlen b + 65) = Z.min n (zlen (srest s1 pos) + 65)) as -> by lia.
      rewrite (seq_n_ext rd Hrd _ _ s2 _ _ _ E). cbn [bind]. assert (zlen (srest s1 pos) + zlen b + 65 <? n = false) as -> by lia. exact Hg. }
    assert (Pk : forall p r0, wrap_list (packed_read_n c p n s1 pos) = Ok r0 -> wrap_list (packed_read_n c p n (s1 ++ s2) pos) = Ok r0).
    { intros p r0 Hp. unfold wrap_list, packed_read_n in *. destruct (prim_size_z p) as [sz|]; [|discriminate].
      destruct (sread_exact s1 pos (sz * n)) as [bs|] eqn:E; [|discriminate]. now rewrite (sread_exact_app _ s2 _ _ _ E). }
    unfold read_count in *.
    destruct el as [p al|b al fl ms|t|el' len'|nm fs al|nm fs al]; try (now apply Gen).
    - destruct p as [sz sg [|]|sz| | |sg|]; try (now apply Gen); try (now apply Pk).
      + destruct (n =? 0); [exact H|]. destruct (sread_exact s1 pos n) as [bs|] eqn:E; [|discriminate]. now rewrite (sread_exact_app _ s2 _ _ _ E).
      + destruct (n =? 0); [exact H|]. destruct (sread_exact s1 pos (2 * n)) as [bs|] eqn:E; [|discriminate]. now rewrite (sread_exact_app _ s2 _ _ _ E).
    - destruct b as [sz sg [|]|sz| | |sg|]; try (now apply Gen); now apply Pk.
  Qed.

  Lemma read_null_ext fuel el rd : ext_stable rd -> forall s1 s2 pos ctx r,
    read_null c fuel el rd s1 pos ctx = Ok r -> read_null c fuel el rd (s1 ++ s2) pos ctx = Ok r.
  Proof.
    intros Hrd s1 s2 pos ctx r H. unfold read_null, wrap_list in *.
    assert (Z0 : forall r0, (do x <- zero_term (is_zero_for el) rd fuel s1 pos ctx; Ok (VList (fst x), snd x)) = Ok r0 ->
                            (do x <- zero_term (is_zero_for el) rd fuel (s1 ++ s2) pos ctx; Ok (VList (fst x), snd x)) = Ok r0).
    { intros r0 Hz. destruct (zero_term (is_zero_for el) rd fuel s1 pos ctx) as [x|] eqn:E; [|discriminate]. now rewrite (zero_term_ext _ _ Hrd _ _ s2 _ _ _ E). }
    assert (F0 : forall r0, (do x <- falsy_term rd fuel s1 pos ctx; Ok (VList (fst x), snd x)) = Ok r0 ->
                            (do x <- falsy_term rd fuel (s1 ++ s2) pos ctx; Ok (VList (fst x), snd x)) = Ok r0).
    { intros r0 Hz. destruct (falsy_term rd fuel s1 pos ctx) as [x|] eqn:E; [|discriminate]. now rewrite (falsy_term_ext _ Hrd _ _ s2 _ _ _ E). }
    destruct el as [p al|b al fl ms|t|el' len'|nm fs al|nm fs al]; try exact H; try (now apply Z0); try (now apply F0).
    destruct p as [sz sg pk|sz| | |sg|]; try (now apply Z0); try exact H.
    - now apply char_term_ext.
    - now apply wchar_term_ext.
  Qed.

  (* A value the reader returns from an input is returned unchanged from every extension of that input. *)
  Theorem read_ty_ext fuel : forall t, simple t = true -> ext_stable (read_ty c fuel t).
  Proof.
    induction t as [p al|b al fl ms|t IH|el len IH|nm fs al IH|nm fs al IH] using ty_ind'; intros Hs; try discriminate.
    - intros s1 s2 pos ctx r H. cbn [read_ty] in *. now apply (prim_read_at_ext (c_endian c) p s1 s2 pos ctx).
    - intros s1 s2 pos ctx r H. cbn [read_ty] in *. now apply (prim_read_at_ext (c_endian c) b s1 s2 pos ctx).
    - intros s1 s2 pos ctx r H. cbn [read_ty] in *. now apply (prim_read_at_ext (c_endian c) (c_ptr c) s1 s2 pos ctx).
    - cbn [simple] in Hs. apply andb_prop in Hs as [Hel Hlen]. specialize (IH Hel).
      intros s1 s2 pos ctx r H. cbn [read_ty] in *. unfold read_array in *.
      destruct len as [n|toks iseof|].
      + now apply read_count_ext.
      + destruct (eval_len c ctx toks); [now apply read_count_ext|]. destruct iseof; [discriminate|exact H].
      + now apply read_null_ext.
    - pose proof (simple_struct _ _ _ Hs) as Hfs.
      intros s1 s2 pos ctx r H. cbn [read_ty] in *. destruct (layout_struct c al fs) as [lay|]; [|exact H].
      set (items := map (fun f => (meta_of c f, read_ty c fuel (f_ty f))) fs) in *.
      assert (Hit : Forall (fun it => ext_stable (snd it)) items).
      { subst items. apply Forall_map. rewrite Forall_forall in *. intros f Hf. cbn [snd]. apply IH; [exact Hf|]. now apply Hfs. }
      destruct (struct_loop (c_endian c) al pos items (l_offs lay) s1 pos bb_empty [] [] []) as [x|] eqn:E; [|discriminate].
      now rewrite (struct_loop_ext _ _ _ _ Hit _ _ s2 _ _ _ _ _ _ E).
  Qed.
End Ext.

(* ---------- more fuel never changes a successful result ---------- *)
Definition fuel_mono_fn (mk : nat -> rfn) : Prop := forall f f' s pos ctx r, (f <= f')%nat -> mk f s pos ctx = Ok r -> mk f' s pos ctx = Ok r.

Lemma seq_n_mono (mk : nat -> rfn) : fuel_mono_fn mk -> forall k f f' s pos ctx r, (f <= f')%nat ->
  seq_n (mk f) k s pos ctx = Ok r -> seq_n (mk f') k s pos ctx = Ok r.
Proof.
  intros Hm. induction k as [|k IH]; intros f f' s pos ctx r Hf H; cbn [seq_n] in *; [exact H|].
  destruct (mk f s pos ctx) as [x|] eqn:E; [|discriminate]. rewrite (Hm _ _ _ _ _ _ Hf E). cbn [bind] in *.
  destruct (seq_n (mk f) k s (snd x) ctx) as [y|] eqn:E2; [|discriminate]. now rewrite (IH _ _ _ _ _ _ Hf E2).
Qed.
Lemma zero_term_mono isz (mk : nat -> rfn) : fuel_mono_fn mk -> forall g g' f f' s pos ctx r, (g <= g')%nat -> (f <= f')%nat ->
  zero_term isz (mk f) g s pos ctx = Ok r -> zero_term isz (mk f') g' s pos ctx = Ok r.
Proof.
  intros Hm. induction g as [|g IH]; intros g' f f' s pos ctx r Hg Hf H; cbn [zero_term] in H; [discriminate|].
  destruct g' as [|g']; [lia|]. cbn [zero_term].
  destruct (mk f s pos ctx) as [x|] eqn:E; [|discriminate]. rewrite (Hm _ _ _ _ _ _ Hf E). cbn [bind] in *.
  destruct (isz (fst x)); [exact H|].
  destruct (zero_term isz (mk f) g s (snd x) ctx) as [y|] eqn:E2; [|discriminate]. now rewrite (IH g' _ _ _ _ _ _ ltac:(lia) Hf E2).
Qed.
Lemma falsy_term_mono (mk : nat -> rfn) : fuel_mono_fn mk -> forall g g' f f' s pos ctx r, (g <= g')%nat -> (f <= f')%nat ->
  falsy_term (mk f) g s pos ctx = Ok r -> falsy_term (mk f') g' s pos ctx = Ok r.
Proof.
  intros Hm. induction g as [|g IH]; intros g' f f' s pos ctx r Hg Hf H; cbn [falsy_term] in H; [discriminate|].
  destruct g' as [|g']; [lia|]. cbn [falsy_term].
  destruct (mk f s pos ctx) as [x|] eqn:E; [|discriminate]. rewrite (Hm _ _ _ _ _ _ Hf E). cbn [bind] in *.
  destruct (truthy_value (fst x)); [|exact H].
  destruct (falsy_term (mk f) g s (snd x) ctx) as [y|] eqn:E2; [|discriminate]. now rewrite (IH g' _ _ _ _ _ _ ltac:(lia) Hf E2).
Qed.
Lemma char_term_mono : forall g g' s pos acc r, (g <= g')%nat -> char_term g s pos acc = Ok r -> char_term g' s pos acc = Ok r.
Proof.
  induction g as [|g IH]; intros g' s pos acc r Hg H; cbn [char_term] in H; [discriminate|]. destruct g' as [|g']; [lia|]. cbn [char_term].
  destruct (sread s pos 1) as [|b [|b2 t]]; try discriminate. destruct (b =? 0); [exact H|]. apply (IH g'); [lia|exact H].
Qed.
Lemma wchar_term_mono en : forall g g' s pos acc r, (g <= g')%nat -> wchar_term en g s pos acc = Ok r -> wchar_term en g' s pos acc = Ok r.
Proof.
  induction g as [|g IH]; intros g' s pos acc r Hg H; cbn [wchar_term] in H; [discriminate|]. destruct g' as [|g']; [lia|]. cbn [wchar_term].
  destruct (sread s pos 2) as [|a [|b [|c0 t]]]; try discriminate. destruct ((a =? 0) && (b =? 0)); [exact H|]. apply (IH g'); [lia|exact H].
Qed.
Lemma struct_loop_mono e aligned start (mks : list (fmeta * (nat -> rfn))) : Forall (fun it => fuel_mono_fn (snd it)) mks ->
  forall f f' offs s pos bb vals sizes lctx r, (f <= f')%nat ->
  struct_loop e aligned start (map (fun it => (fst it, snd it f)) mks) offs s pos bb vals sizes lctx = Ok r ->
  struct_loop e aligned start (map (fun it => (fst it, snd it f')) mks) offs s pos bb vals sizes lctx = Ok r.
Proof.
  induction 1 as [|[m mk] mks Hm Hms IH]; intros f f' offs s pos bb vals sizes lctx r Hf H; cbn [map struct_loop fst snd] in *; [exact H|].
  destruct offs as [|o ro]; [exact H|].
  set (off2 := if aligned then _ else _) in *.
  destruct (fm_bits m) as [nb|].
  - destruct (nb =? 0).
    + destruct (mk f s off2 lctx) as [x|] eqn:E; [|discriminate]. rewrite (Hm _ _ _ _ _ _ Hf E). cbn [bind] in *. now apply (IH f f').
    + destruct (bb_read e s off2 bb (fm_storage m) nb) as [[[v bb'] pos']|]; [|discriminate]. cbn [bind] in *. now apply (IH f f').
  - destruct (mk f s off2 lctx) as [x|] eqn:E; [|discriminate]. rewrite (Hm _ _ _ _ _ _ Hf E). cbn [bind] in *. now apply (IH f f').
Qed.

Section Mono.
  Variable c : cfg.
  Lemma read_ty_mono : forall t, simple t = true -> fuel_mono_fn (fun f => read_ty c f t).
  Proof.
    induction t as [p al|b al fl ms|t IH|el len IH|nm fs al IH|nm fs al IH] using ty_ind'; intros Hs; try discriminate;
      try (intros f f' s pos ctx r Hf H; exact H).
    - cbn [simple] in Hs. apply andb_prop in Hs as [Hel Hlen]. specialize (IH Hel).
      intros f f' s pos ctx r Hf H. cbn [read_ty] in *. unfold read_array in *.
      assert (RC : forall n r0, read_count c f el (read_ty c f el) n s pos ctx = Ok r0 -> read_count c f' el (read_ty c f' el) n s pos ctx = Ok r0).
      { intros n r0 Hc. unfold read_count in *.
        assert (Gen : forall r1,
          (do q <- seq_n (read_ty c f el) (Z.to_nat (Z.min n (zlen (srest s pos) + 65))) s pos ctx; if zlen (srest s pos) + 65 <? n then Err EOutOfFuel else Ok (VList (fst q), snd q)) = Ok r1 ->
          (do q <- seq_n (read_ty c f' el) (Z.to_nat (Z.min n (zlen (srest s pos) + 65))) s pos ctx; if zlen (srest s pos) + 65 <? n then Err EOutOfFuel else Ok (VList (fst q), snd q)) = Ok r1).
        { intros r1 Hg. destruct (seq_n (read_ty c f el) _ s pos ctx) as [q|] eqn:E; [|discriminate].
          now rewrite (seq_n_mono (fun g => read_ty c g el) IH _ _ _ _ _ _ _ Hf E). }
        destruct el as [p al|b al fl ms|t|el' len'|nm fs al|nm fs al]; try (now apply Gen).
        - destruct p as [sz sg [|]|sz| | |sg|]; try (now apply Gen); exact Hc.
        - destruct b as [sz sg [|]|sz| | |sg|]; try (now apply Gen); exact Hc. }
      destruct len as [n|toks iseof|].
      + now apply RC.
      + destruct (eval_len c ctx toks); [now apply RC|]. destruct iseof; [discriminate|exact H].
      + unfold read_null, wrap_list in *.
        assert (Z0 : forall r0, (do x <- zero_term (is_zero_for el) (read_ty c f el) f s pos ctx; Ok (VList (fst x), snd x)) = Ok r0 ->
                                (do x <- zero_term (is_zero_for el) (read_ty c f' el) f' s pos ctx; Ok (VList (fst x), snd x)) = Ok r0).
        { intros r0 Hz. destruct (zero_term (is_zero_for el) (read_ty c f el) f s pos ctx) as [x|] eqn:E; [|discriminate].
          now rewrite (zero_term_mono _ (fun g => read_ty c g el) IH _ _ _ _ _ _ _ _ Hf Hf E). }
        assert (F0 : forall r0, (do x <- falsy_term (read_ty c f el) f s pos ctx; Ok (VList (fst x), snd x)) = Ok r0 ->
                                (do x <- falsy_term (read_ty c f' el) f' s pos ctx; Ok (VList (fst x), snd x)) = Ok r0).
        { intros r0 Hz. destruct (falsy_term (read_ty c f el) f s pos ctx) as [x|] eqn:E; [|discriminate].
          now rewrite (falsy_term_mono (fun g => read_ty c g el) IH _ _ _ _ _ _ _ _ Hf Hf E). }
        destruct el as [p al|b al fl ms|t|el' len'|nm fs al|nm fs al]; try exact H; try (now apply Z0); try (now apply F0).
        destruct p as [sz sg pk|sz| | |sg|]; try (now apply Z0); try exact H.
        * now apply (char_term_mono f f').
        * now apply (wchar_term_mono _ f f').
    - pose proof (simple_struct _ _ _ Hs) as Hfs.
      intros f f' s pos ctx r Hf H. cbn [read_ty] in *. destruct (layout_struct c al fs) as [lay|]; [|exact H].
      set (mks := map (fun fd => (meta_of c fd, fun g => read_ty c g (f_ty fd))) fs).
      assert (E1 : forall g, map (fun fd => (meta_of c fd, read_ty c g (f_ty fd))) fs = map (fun it => (fst it, snd it g)) mks).
      { intros g. subst mks. rewrite map_map. reflexivity. }
      rewrite (E1 f) in H. rewrite (E1 f').
      assert (Hm : Forall (fun it => fuel_mono_fn (snd it)) mks).
      { subst mks. apply Forall_map. rewrite Forall_forall in *. intros fd Hfd. cbn [snd]. apply IH; [exact Hfd|now apply Hfs]. }
      destruct (struct_loop (c_endian c) al pos (map (fun it => (fst it, snd it f)) mks) (l_offs lay) s pos bb_empty [] [] []) as [x|] eqn:E; [|discriminate].
      pose proof (struct_loop_mono _ _ _ _ Hm _ _ _ _ _ _ _ _ _ _ Hf E) as E'. unfold rfn in *. rewrite E'. exact H.
  Qed.

  (* C08, at the level of the public entry point: whatever a parse of a PREFIX of the input returns, the parse of the whole input returns *)
  Theorem read_top_prefix_stable t s k r : simple t = true ->
    read_top c t (firstn k s) 0 = Ok r -> read_top c t s 0 = Ok r.
  Proof.
    intros Hs H. unfold read_top in *.
    rewrite <- (firstn_skipn k s) at 2.
    apply (read_ty_ext c _ t Hs (firstn k s) (skipn k s)).
    apply (read_ty_mono t Hs (S (S (length (firstn k s))))); [|exact H].
    rewrite firstn_length. apply le_n_S, le_n_S, Nat.le_min_r.
  Qed.
End Mono.

Lemma short_read_eof s pos n : 0 <= n <= 9223372036854775807 -> zlen (srest s pos) < n -> sread_exact s pos n = Err EEof.
Proof.
  intros Hn H. unfold sread_exact.
  destruct (Z.ltb_spec 9223372036854775807 n); [lia|]. destruct (Z.leb_spec n (zlen (srest s pos))); [lia|reflexivity].
Qed.
