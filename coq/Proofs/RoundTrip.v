(* RoundTrip.v — byte fidelity (C02): dumping what was parsed gives back exactly the bytes the parse consumed.
   Proved for the sequential fragment of the type universe over every stream of bytes, position and context. *)
From Coq Require Import Lia.
From VF Require Import Model.Writer Proofs.TyInd Proofs.CodecCorrect Proofs.LayoutCorrect Proofs.ReaderProps Proofs.ArrayProps Proofs.SizeProps.
Open Scope string_scope. Open Scope list_scope. Open Scope Z_scope.

(* ---------- streams ---------- *)
Lemma firstn_add_skipn {A} : forall a b (l : list A), firstn a l ++ firstn b (skipn a l) = firstn (a + b) l.
Proof. induction a as [|a IH]; intros b l; [reflexivity|]. destruct l as [|x l]; [now rewrite !firstn_nil|]. cbn [Nat.add firstn skipn app]. f_equal. apply IH. Qed.
Lemma skipn_add' {A} : forall a b (l : list A), skipn (a + b) l = skipn b (skipn a l).
Proof. induction a as [|a IH]; intros b l; [reflexivity|]. destruct l as [|x l]; [now rewrite !skipn_nil|]. cbn [Nat.add skipn]. apply IH. Qed.
Lemma sread_cat s pos p1 p2 : 0 <= pos -> pos <= p1 -> p1 <= p2 -> sread s pos (p1 - pos) ++ sread s p1 (p2 - p1) = sread s pos (p2 - pos).
Proof.
  intros H0 H1 H2. unfold sread. replace (Z.to_nat p1) with (Z.to_nat pos + Z.to_nat (p1 - pos))%nat by lia. rewrite skipn_add'.
  rewrite firstn_add_skipn. f_equal. lia.
Qed.
Lemma sread_nil s pos : sread s pos 0 = [].
Proof. reflexivity. Qed.
Lemma In_firstn' {A} : forall n (l : list A) x, In x (firstn n l) -> In x l.
Proof. induction n as [|n IH]; intros l x H; [destruct H|]. destruct l; [exact H|]. destruct H as [->|H]; [now left|right; now apply IH]. Qed.
Lemma Bytes_firstn n bs : Bytes bs -> Bytes (firstn n bs).
Proof. unfold Bytes. intros H. rewrite Forall_forall in *. intros x Hx. apply H. eapply In_firstn'; eauto. Qed.
Lemma In_skipn {A} : forall n (l : list A) x, In x (skipn n l) -> In x l.
Proof. induction n as [|n IH]; intros l x H; [exact H|]. destruct l; [exact H|]. right. now apply IH. Qed.
Lemma Bytes_skipn n bs : Bytes bs -> Bytes (skipn n bs).
Proof. unfold Bytes. intros H. rewrite Forall_forall in *. intros x Hx. apply H. eapply In_skipn; eauto. Qed.

(* the bytes from pos to p are really there *)
Definition took (s : list Z) (pos p : Z) : Prop := pos <= p /\ zlen (sread s pos (p - pos)) = p - pos.
Lemma took_refl s pos : took s pos pos.
Proof. split; [lia|]. now rewrite Z.sub_diag. Qed.
Lemma took_cat s pos p1 p2 : 0 <= pos -> took s pos p1 -> took s p1 p2 ->
  took s pos p2 /\ sread s pos (p1 - pos) ++ sread s p1 (p2 - p1) = sread s pos (p2 - pos).
Proof.
  intros H0 [L1 T1] [L2 T2]. pose proof (sread_cat s pos p1 p2 H0 L1 L2) as E. split; [|exact E]. split; [lia|].
  rewrite <- E. unfold zlen in *. rewrite app_length. lia.
Qed.
Lemma took_exact s pos n : 0 <= n -> n <= zlen (srest s pos) -> took s pos (pos + n).
Proof.
  intros Hn H. split; [lia|]. replace (pos + n - pos) with n by lia. unfold sread. fold (srest s pos). unfold zlen in *. rewrite firstn_length. lia.
Qed.

(* both byte orders the configuration can select are proper orders *)
Definition endian_ok (e : string) : Prop := forall p, prim_endian p e = LE \/ prim_endian p e = BE.

(* a reader/writer pair is faithful: positions advance, and the writer reproduces the consumed bytes wherever it is asked to write *)
Definition fid (rd : rfn) (wr : wfn) : Prop :=
  forall s pos ctx v p, Bytes s -> 0 <= pos -> rd s pos ctx = Ok (v, p) ->
    took s pos p /\ forall wpos, wr v wpos = Ok (sread s pos (p - pos)).

(* scalars whose encoding is unique *)
Definition fid_prim (p : prim) : bool := match p with PInt _ _ _ | PFloat _ | PChar | PVoid => true | PWchar | PLeb _ => false end.

Lemma split_at_sread k s pos x r : split_at k (srest s pos) = Ok (x, r) ->
  x = sread s pos (Z.of_nat k) /\ length x = k /\ zlen (srest s pos) - zlen r = Z.of_nat k.
Proof.
  unfold split_at. destruct (Nat.leb_spec k (length (srest s pos))) as [L|L]; [|discriminate]. intros H. injection H as <- <-.
  unfold sread. fold (srest s pos). rewrite Nat2Z.id. split; [reflexivity|]. split; [rewrite firstn_length; lia|]. unfold zlen. rewrite skipn_length. lia.
Qed.

Lemma prim_fid e p : endian_ok e -> fid_prim p = true -> fid (fun s pos _ => prim_read_at e p s pos) (fun v _ => prim_write e p v).
Proof.
  intros He Hp s pos ctx v q Hs H0 H. unfold prim_read_at in H.
  destruct (prim_read e p (srest s pos)) as [[v0 r]|] eqn:E; [|discriminate]. cbn [bind fst snd] in H. injection H as <- <-.
  assert (Hb : forall k, Bytes (sread s pos k)) by (intros k; unfold sread; apply Bytes_firstn, Bytes_skipn, Hs).
  assert (Tk : forall k x r0, split_at k (srest s pos) = Ok (x, r0) -> took s pos (pos + Z.of_nat k)).
  { intros k x r0 E1. apply took_exact; [lia|]. unfold split_at in E1. destruct (Nat.leb_spec k (length (srest s pos))); [|discriminate]. unfold zlen. lia. }
  destruct p as [k sg pk|k| | |sg|]; cbn [fid_prim] in Hp; try discriminate; cbn [prim_read] in E.
  - destruct (split_at k (srest s pos)) as [[x r0]|] eqn:E1; [|discriminate]. cbn [bind] in E. injection E as <- <-. pose proof (Tk _ _ _ E1) as T.
    destruct (split_at_sread _ _ _ _ _ E1) as [-> [Hl ->]]. split; [exact T|]. intros _. replace (pos + Z.of_nat k - pos) with (Z.of_nat k) by lia.
    cbn [prim_write]. pose proof (int_bytes_roundtrip (prim_endian (PInt k sg pk) e) sg _ (He _) (Hb (Z.of_nat k))) as R. rewrite Hl in R. exact R.
  - destruct (split_at k (srest s pos)) as [[x r0]|] eqn:E1; [|discriminate]. cbn [bind] in E. injection E as <- <-. pose proof (Tk _ _ _ E1) as T.
    destruct (split_at_sread _ _ _ _ _ E1) as [-> [Hl ->]]. split; [exact T|]. intros _. replace (pos + Z.of_nat k - pos) with (Z.of_nat k) by lia.
    cbn [prim_write]. pose proof (int_bytes_roundtrip (prim_endian (PFloat k) e) false _ (He _) (Hb (Z.of_nat k))) as R. rewrite Hl in R. exact R.
  - destruct (split_at 1 (srest s pos)) as [[x r0]|] eqn:E1; [|discriminate]. cbn [bind] in E. injection E as <- <-. pose proof (Tk _ _ _ E1) as T.
    destruct (split_at_sread _ _ _ _ _ E1) as [-> [Hl ->]]. split; [exact T|]. intros _. replace (pos + Z.of_nat 1 - pos) with (Z.of_nat 1) by lia. reflexivity.
  - injection E as <- <-. replace (pos + (zlen (srest s pos) - zlen (srest s pos))) with pos by lia. split; [apply took_refl|]. intros _. rewrite Z.sub_diag. reflexivity.
Qed.

(* ---------- sequences ---------- *)
Lemma seq_n_fid rd wr : fid rd wr -> forall k s pos ctx l p, Bytes s -> 0 <= pos -> seq_n rd k s pos ctx = Ok (l, p) ->
  took s pos p /\ forall wpos, wseq wr l wpos = Ok (sread s pos (p - pos)).
Proof.
  intros Hf. induction k as [|k IH]; intros s pos ctx l p Hs H0 H; cbn [seq_n] in H.
  - injection H as <- <-. split; [apply took_refl|]. intros wpos. rewrite Z.sub_diag. reflexivity.
  - destruct (rd s pos ctx) as [[x p1]|] eqn:E; [|discriminate]. cbn [bind fst snd] in H.
    destruct (seq_n rd k s p1 ctx) as [[l' p']|] eqn:E2; [|discriminate]. cbn [bind fst snd] in H. injection H as <- <-.
    destruct (Hf _ _ _ _ _ Hs H0 E) as [L1 W1]. assert (H1 : 0 <= p1) by (destruct L1; lia). destruct (IH _ _ _ _ _ Hs H1 E2) as [L2 W2].
    destruct (took_cat _ _ _ _ H0 L1 L2) as [T C]. split; [exact T|]. intros wpos. cbn [wseq]. rewrite W1. cbn [bind]. rewrite W2. cbn [bind]. f_equal. exact C.
Qed.

Lemma wseq_app wr : forall a b pos x y, wseq wr a pos = Ok x -> wseq wr b (pos + zlen x) = Ok y -> wseq wr (a ++ b) pos = Ok (x ++ y).
Proof.
  induction a as [|v a IH]; intros b pos x y Ha Hb; cbn [wseq app] in *.
  - injection Ha as <-. unfold zlen in Hb. cbn in Hb. now rewrite Z.add_0_r in Hb.
  - destruct (wr v pos) as [bs|]; [|discriminate]. cbn [bind] in *. destruct (wseq wr a (pos + zlen bs)) as [bs2|] eqn:E; [|discriminate]. cbn [bind] in Ha. injection Ha as <-.
    rewrite (IH b (pos + zlen bs) bs2 y E); [cbn [bind]; now rewrite app_assoc|].
    rewrite <- Hb. f_equal. unfold zlen. rewrite app_length. lia.
Qed.

Lemma char_term_value : forall f s pos acc v p, char_term f s pos acc = Ok (v, p) -> exists bs, v = VBytes bs.
Proof.
  induction f as [|f IH]; intros s pos acc v p H; cbn [char_term] in H; [discriminate|].
  destruct (sread s pos 1) as [|b [|b2 t]]; try discriminate. destruct (b =? 0); [injection H as <- _; eauto|eauto].
Qed.

Fixpoint nodupb (l : list string) : bool := match l with [] => true | x :: r => negb (existsb (String.eqb x) r) && nodupb r end.
Lemma nodupb_NoDup l : nodupb l = true -> NoDup l.
Proof.
  induction l as [|x r IH]; intros H; [constructor|]. cbn [nodupb] in H. apply andb_prop in H as [H1 H2]. constructor; [|now apply IH].
  intros Hin. apply negb_true_iff in H1. assert (existsb (String.eqb x) r = true) as E; [|congruence].
  apply existsb_exists. exists x. split; [exact Hin|apply String.eqb_refl].
Qed.

Section RT.
  Variable c : cfg.
  Hypothesis He : endian_ok (c_endian c).

  Lemma prim_write_all_wseq p : forall vs pos, prim_write_all c p vs = wseq (fun v _ => prim_write (c_endian c) p v) vs pos.
  Proof. induction vs as [|v vs IH]; intros pos; [reflexivity|]. cbn [prim_write_all wseq]. destruct (prim_write _ p v) as [a|]; cbn [bind]; [|reflexivity]. now rewrite (IH (pos + zlen a)). Qed.
  (* the bulk writer is element-by-element writing *)
  Lemma write_list_is_wseq el vs pos : write_list c el (write_ty c el) vs pos = wseq (write_ty c el) vs pos.
  Proof.
    unfold write_list. destruct el as [p al|b al ms fl|t0|t0 l0|nm fs al|nm fs al]; try reflexivity.
    - destruct p as [sz sg [|]|sz| | |sg|]; try reflexivity; apply prim_write_all_wseq.
    - destruct b as [sz sg [|]|sz| | |sg|]; try reflexivity; apply prim_write_all_wseq.
  Qed.

  Definition not_text (el : ty) : bool := match el with TPrim PChar _ | TPrim PWchar _ => false | _ => true end.

  (* a counted array of non-text elements is n sequential element reads, whichever path the element class takes *)
  Lemma read_count_is_seq fuel el n s pos ctx v p : not_text el = true -> 0 <= pos -> 0 <= n ->
    read_count c fuel el (read_ty c fuel el) n s pos ctx = Ok (v, p) ->
    exists l, v = VList l /\ seq_n (read_ty c fuel el) (Z.to_nat n) s pos ctx = Ok (l, p).
  Proof.
    intros Ht H0 Hn H.
    assert (Gen : generic_elem el = true -> exists l, v = VList l /\ seq_n (read_ty c fuel el) (Z.to_nat n) s pos ctx = Ok (l, p)).
    { intros Hg. assert (exists l, v = VList l) as [l ->].
      { destruct el as [[sz sg [|]|sz| | |sg|] al|[sz sg [|]|sz| | |sg|] al ms fl|t0|t0 l0|nm fs al|nm fs al]; cbn [generic_elem] in Hg; try discriminate; cbn [read_count] in H;
        (destruct (seq_n _ _ s pos ctx) as [[l q]|]; [|discriminate]); cbn [bind fst snd] in H; (destruct (_ <? n); [discriminate|]); injection H as <- _; eauto. }
      exists l. split; [reflexivity|]. exact (proj1 (read_count_generic c fuel el _ n s pos ctx l p Hg Hn H)). }
    assert (Pk : forall p0 sz, fixed_scalar p0 = Some sz -> read_ty c fuel el = (fun s pos _ => prim_read_at (c_endian c) p0 s pos) ->
                 wrap_list (packed_read_n c p0 n s pos) = Ok (v, p) -> exists l, v = VList l /\ seq_n (read_ty c fuel el) (Z.to_nat n) s pos ctx = Ok (l, p)).
    { intros p0 sz Hp0 Erd G. destruct (packed_read_n c p0 n s pos) as [[l q]|] eqn:E; [|discriminate]. cbn [wrap_list bind fst snd] in G. injection G as <- <-.
      exists l. split; [reflexivity|]. rewrite Erd. rewrite <- (bulk_is_sequential c p0 sz Hp0 n s pos ctx H0 Hn); [exact E|].
      unfold packed_read_n, prim_size_z in E. rewrite (fixed_scalar_size _ _ Hp0) in E. cbn [option_map] in E. unfold sread_exact in E.
      destruct (Z.ltb_spec 9223372036854775807 (Z.of_nat sz * n)); [discriminate|lia]. }
    destruct el as [p0 al|b al ms fl|t0|t0 l0|nm fs al|nm fs al]; try (now apply Gen).
    - destruct p0 as [sz sg [|]|sz| | |sg|]; try (now apply Gen); try discriminate.
      + now apply (Pk (PInt sz sg true) sz).
      + now apply (Pk (PFloat sz) sz).
    - destruct b as [sz sg [|]|sz| | |sg|]; try (now apply Gen). now apply (Pk (PInt sz sg true) sz).
  Qed.

  Lemma read_eof_is_seq fuel el s pos ctx v p : not_text el = true -> 0 <= pos ->
    read_eof_mode c fuel el (read_ty c fuel el) s pos ctx = Ok (v, p) ->
    exists l k, v = VList l /\ seq_n (read_ty c fuel el) k s pos ctx = Ok (l, p).
  Proof.
    intros Ht H0 H.
    assert (Gen : wrap_list (seq_eof (read_ty c fuel el) fuel s pos ctx) = Ok (v, p) -> exists l k, v = VList l /\ seq_n (read_ty c fuel el) k s pos ctx = Ok (l, p)).
    { intros G. destruct (seq_eof _ fuel s pos ctx) as [[l q]|] eqn:E; [|discriminate]. cbn [wrap_list bind fst snd] in G. injection G as <- <-.
      exists l, (length l). split; [reflexivity|]. exact (proj1 (seq_eof_spec _ _ _ _ _ _ _ E)). }
    assert (Pk : forall p0 sz, fixed_scalar p0 = Some sz -> read_ty c fuel el = (fun s pos _ => prim_read_at (c_endian c) p0 s pos) ->
                 wrap_list (packed_read_eof c p0 s pos) = Ok (v, p) -> exists l k, v = VList l /\ seq_n (read_ty c fuel el) k s pos ctx = Ok (l, p)).
    { intros p0 sz Hp0 Erd G. unfold packed_read_eof, prim_size_z in G. rewrite (fixed_scalar_size _ _ Hp0) in G. cbn [option_map] in G.
      destruct (Z.eqb_spec (Z.of_nat sz) 0) as [Ez|Ez]; [discriminate|].
      set (n := zlen (srest s pos) / Z.of_nat sz) in *.
      destruct (Z.eqb_spec (zlen (srest s pos)) (n * Z.of_nat sz)) as [Em|Em]; [|discriminate].
      destruct (packed_read_n c p0 n s pos) as [[l q]|] eqn:E; [|discriminate]. cbn [wrap_list bind fst snd] in G. injection G as <- <-.
      assert (Hn : 0 <= n) by (apply Z.div_pos; [apply zlen_nonneg|lia]).
      exists l, (Z.to_nat n). split; [reflexivity|]. rewrite Erd.
      assert (Hq : q = pos + zlen (srest s pos)).
      { unfold packed_read_n, prim_size_z in E. rewrite (fixed_scalar_size _ _ Hp0) in E. cbn [option_map] in E.
        destruct (sread_exact s pos (Z.of_nat sz * n)) as [bs0|]; [|discriminate]. cbn [bind] in E. destruct (unpack_n c p0 (Z.to_nat n) bs0); [|discriminate]. cbn [bind] in E. injection E as _ <-. lia. }
      rewrite <- Hq. rewrite <- (bulk_is_sequential c p0 sz Hp0 n s pos ctx H0 Hn); [exact E|].
      unfold packed_read_n, prim_size_z in E. rewrite (fixed_scalar_size _ _ Hp0) in E. cbn [option_map] in E. unfold sread_exact in E.
      destruct (Z.ltb_spec 9223372036854775807 (Z.of_nat sz * n)); [discriminate|lia]. }
    unfold read_eof_mode in H.
    destruct el as [p0 al|b al ms fl|t0|t0 l0|nm fs al|nm fs al]; try (now apply Gen).
    - destruct p0 as [sz sg [|]|sz| | |sg|]; try (now apply Gen); try discriminate.
      + now apply (Pk (PInt sz sg true) sz).
      + now apply (Pk (PFloat sz) sz).
    - destruct b as [sz sg [|]|sz| | |sg|]; try (now apply Gen). now apply (Pk (PInt sz sg true) sz).
  Qed.

  (* element classes whose null-terminated form round-trips byte for byte: integers, enums over integers, characters *)
  Definition null_ok (el : ty) : bool :=
    match el with TPrim (PInt _ _ _) _ | TPrim PChar _ | TEnum (PInt _ _ _) _ _ _ => true | _ => false end.

  Lemma array_fid fuel el len : fid (read_ty c fuel el) (write_ty c el) ->
    (match el with TPrim PWchar _ => false | _ => true end) = true ->
    (match len with LFixed n => 0 <=? n | LExpr _ _ => true | LNull => null_ok el end) = true ->
    fid (read_array c fuel el (read_ty c fuel el) len) (write_array c el (write_ty c el) len).
  Proof.
    intros Hel Hw Hlen s pos ctx v p Hs H0 H.
    (* text: char arrays *)
    destruct (not_text el) eqn:Ent.
    2:{ destruct el as [[sz sg pk|sz| | |sg|] al|b al ms fl|t0|t0 l0|nm fs al|nm fs al]; try discriminate. clear Hw Hel Ent.
        assert (Cnt : forall n, 0 <= n -> read_count c fuel (TPrim PChar al) (read_ty c fuel (TPrim PChar al)) n s pos ctx = Ok (v, p) ->
                      took s pos p /\ exists bs, v = VBytes bs /\ bs = sread s pos (p - pos)).
        { intros n Hn G. cbn [read_count] in G. destruct (Z.eqb_spec n 0) as [->|Nz].
          - injection G as <- <-. split; [apply took_refl|]. exists []. now rewrite Z.sub_diag.
          - unfold sread_exact in G. destruct (_ <? n); [discriminate|]. destruct (Z.leb_spec n (zlen (srest s pos))); [|discriminate]. cbn [bind] in G. injection G as <- <-.
            split; [apply took_exact; lia|]. eexists; split; [reflexivity|]. f_equal. lia. }
        unfold read_array in H. destruct len as [n|toks ise|].
        - destruct (Cnt (Z.max 0 n) ltac:(lia) H) as [L [bs [-> ->]]]. split; [exact L|]. reflexivity.
        - destruct (eval_len c ctx toks) as [n|].
          + destruct (Cnt (Z.max 0 n) ltac:(lia) H) as [L [bs [-> ->]]]. split; [exact L|]. reflexivity.
          + destruct ise; [|discriminate]. cbn [read_eof_mode] in H. injection H as <- <-. pose proof (zlen_nonneg (srest s pos)). split; [apply took_exact; lia|]. intros wpos. cbn [write_array]. f_equal.
            replace (pos + zlen (srest s pos) - pos) with (zlen (srest s pos)) by lia. unfold sread. fold (srest s pos). unfold zlen. rewrite Nat2Z.id. now rewrite firstn_all.
        - cbn [read_null] in H. destruct (char_term_value _ _ _ _ _ _ H) as [bs ->]. destruct (char_term_spec _ _ _ _ _ _ H0 H) as [body [-> [_ [Hr ->]]]].
          pose proof (zlen_nonneg body). split; [|intros wpos; cbn [write_array rev app]; f_equal; rewrite <- Hr; f_equal; lia].
          split; [lia|]. replace (pos + zlen body + 1 - pos) with (zlen body + 1) by lia. rewrite Hr. unfold zlen. rewrite app_length. cbn [length]. lia. }
    (* everything else is a list of elements *)
    assert (Hty : forall vs wpos, write_array c el (write_ty c el) len (VList vs) wpos =
                  match len with
                  | LNull => write_list c el (write_ty c el) (vs ++ [default_value el]) wpos
                  | LFixed n => match ty_size c el with Some _ => if n =? Z.of_nat (length vs) then write_list c el (write_ty c el) vs wpos else Err EArraySize | None => write_list c el (write_ty c el) vs wpos end
                  | LExpr _ _ => write_list c el (write_ty c el) vs wpos
                  end).
    { intros vs wpos. unfold write_array. destruct el as [[sz sg pk|sz| | |sg|] al|b al ms fl|t0|t0 l0|nm fs al|nm fs al]; try reflexivity; discriminate. }
    assert (Cnt : forall n, 0 <= n -> read_count c fuel el (read_ty c fuel el) n s pos ctx = Ok (v, p) ->
                  took s pos p /\ exists l, v = VList l /\ Z.of_nat (length l) = n /\ forall wpos, write_list c el (write_ty c el) l wpos = Ok (sread s pos (p - pos))).
    { intros n Hn G. destruct (read_count_is_seq fuel el n s pos ctx v p Ent H0 Hn G) as [l [-> Sq]].
      destruct (seq_n_fid _ _ Hel _ _ _ _ _ _ Hs H0 Sq) as [L W]. split; [exact L|]. exists l. split; [reflexivity|]. split; [apply seq_n_length in Sq; lia|].
      intros wpos. rewrite write_list_is_wseq. apply W. }
    unfold read_array in H. destruct len as [n|toks ise|].
    - assert (0 <= n) by lia. replace (Z.max 0 n) with n in H by lia. destruct (Cnt n ltac:(lia) H) as [L [l [-> [Hl W]]]]. split; [exact L|]. intros wpos. rewrite Hty.
      destruct (ty_size c el); [|apply W]. destruct (Z.eqb_spec n (Z.of_nat (length l))); [apply W|lia].
    - destruct (eval_len c ctx toks) as [n|].
      + destruct (Cnt (Z.max 0 n) ltac:(lia) H) as [L [l [-> [Hl W]]]]. split; [exact L|]. intros wpos. rewrite Hty. apply W.
      + destruct ise; [|discriminate]. destruct (read_eof_is_seq fuel el s pos ctx v p Ent H0 H) as [l [k [-> Sq]]].
        destruct (seq_n_fid _ _ Hel _ _ _ _ _ _ Hs H0 Sq) as [L W]. split; [exact L|]. intros wpos. rewrite Hty, write_list_is_wseq. apply W.
    - (* null-terminated numbers *)
      assert (Z0 : wrap_list (zero_term (is_zero_for el) (read_ty c fuel el) fuel s pos ctx) = Ok (v, p) -> default_value el = VInt 0 ->
                   (forall z, is_zero_for el z = true -> z = VInt 0) ->
                   took s pos p /\ forall wpos, write_array c el (write_ty c el) LNull v wpos = Ok (sread s pos (p - pos))).
      { intros G Hd Hz. destruct (zero_term _ _ fuel s pos ctx) as [[l q]|] eqn:E; [|discriminate]. cbn [wrap_list bind fst snd] in G. injection G as <- <-.
        destruct (zero_term_spec _ _ _ _ _ _ _ _ E) as [_ [p0 [z [Sq [Rz Iz]]]]]. apply Hz in Iz. subst z.
        destruct (seq_n_fid _ _ Hel _ _ _ _ _ _ Hs H0 Sq) as [L W]. assert (H1 : 0 <= p0) by (destruct L; lia). destruct (Hel _ _ _ _ _ Hs H1 Rz) as [L2 W2].
        destruct (took_cat _ _ _ _ H0 L L2) as [T C]. split; [exact T|]. intros wpos. rewrite Hty, write_list_is_wseq, Hd.
        rewrite (wseq_app _ l [VInt 0] wpos _ (sread s p0 (q - p0)) (W wpos)); [f_equal; exact C|].
        cbn [wseq]. rewrite W2. cbn [bind]. now rewrite app_nil_r. }
      assert (Hz : forall z, is_zero_for el z = true -> null_ok el = true -> z = VInt 0).
      { intros z Iz Hn. destruct el as [[sz sg pk|sz| | |sg|] al|[sz sg pk|sz| | |sg|] al ms fl|t0|t0 l0|nm fs al|nm fs al]; cbn [null_ok] in Hn; try discriminate;
          (destruct z as [[| |]| | | | | | |]; cbn in Iz; try discriminate; reflexivity). }
      cbn [read_null] in H.
      destruct el as [[sz sg pk|sz| | |sg|] al|[sz sg pk|sz| | |sg|] al ms fl|t0|t0 l0|nm fs al|nm fs al]; cbn [null_ok] in Hlen; try discriminate;
        (apply Z0; [exact H|reflexivity|intros z Iz; now apply Hz]).
  Qed.

  (* ---------- packed structures of plain fields ---------- *)
  (* the offsets a packed layout without bit fields and pre-set offsets assigns: the running sum of the member sizes, while there is one *)
  Fixpoint offs_agree (off : option Z) (fs : list field) (offs : list (option Z)) : Prop :=
    match fs, offs with
    | [], [] => True
    | f :: r, o :: ro => o = off /\ offs_agree (match off, ty_size c (f_ty f) with Some x, Some n => Some (x + n) | _, _ => None end) r ro
    | _, _ => False
    end.
  Lemma layout_go_agree : forall fs, Forall (fun f => f_bits f = None /\ f_off f = None) fs ->
    forall st offs st', layout_go c false fs st = Ok (offs, st') -> offs_agree (ls_off st) fs offs.
  Proof.
    induction 1 as [|f r [Hb Ho] Hr IH]; intros st offs st' H.
    - cbn in H. injection H as <- _. exact I.
    - cbn [layout_go] in H. rewrite Hb, Ho in H. unfold layout_step in H.
      destruct (ls_off st) as [o0|] eqn:E0; [destruct (ty_size c (f_ty f)) as [m|] eqn:Em|]; cbn [bind fst snd] in H;
        (destruct (layout_go c false r _) as [[offs' st'']|] eqn:E; [|discriminate]); cbn [bind fst snd] in H; injection H as <- _; cbn [offs_agree];
        (split; [reflexivity|]); try rewrite Em; exact (IH _ _ _ E).
  Qed.

  Lemma lookup_nodup : forall (l : list (string * value)) n x, NoDup (map fst l) -> In (n, x) l -> lookup_field n l = Some x.
  Proof.
    induction l as [|[k v] l IH]; intros n x Hnd Hin; [destruct Hin|]. cbn [lookup_field]. cbn [map fst] in Hnd. inversion Hnd as [|? ? Hk Hnd']; subst.
    destruct Hin as [Heq|Hin].
    - injection Heq as -> ->. now rewrite String.eqb_refl.
    - destruct (String.eqb_spec n k) as [->|Hne]; [|now apply IH]. exfalso. apply Hk. change k with (fst (k, x)). now apply in_map.
  Qed.

  Lemma struct_fid_loop (R : field -> rfn) (W : field -> wfn) : forall fs,
    Forall (fun f => f_bits f = None /\ fid (R f) (W f) /\ (forall n, ty_size c (f_ty f) = Some n -> consumes (R f) n)) fs ->
    forall off offs, offs_agree off fs offs ->
    forall s start pos bb vals sizes lctx v sz p, Bytes s -> 0 <= pos -> (forall x, off = Some x -> pos = start + x) ->
    struct_loop (c_endian c) false start (map (fun f => (meta_of c f, R f)) fs) offs s pos bb vals sizes lctx = Ok (v, sz, p) ->
    took s pos p /\ exists news, v = rev vals ++ news /\ map fst news = map f_name fs /\
      forall vals_all wstart out, (forall n x, In (n, x) news -> lookup_field n vals_all = Some x) -> (forall x, off = Some x -> zlen out = x) ->
        wstruct_loop c false wstart vals_all (map (fun f => (wmeta_of c f, W f)) fs) offs out wb_empty = Ok (out ++ sread s pos (p - pos), wb_empty).
  Proof.
    induction 1 as [|f r [Hb [Hf Hc]] Hr IH]; intros off offs Ha s start pos bb vals sizes lctx v sz p Hs H0 Hpos H.
    - destruct offs; [|destruct Ha]. cbn [map struct_loop] in H. injection H as <- _ <-. split; [apply took_refl|].
      exists []. rewrite app_nil_r. split; [reflexivity|]. split; [reflexivity|]. intros vals_all wstart out _ _. cbn [map wstruct_loop]. now rewrite Z.sub_diag, app_nil_r.
    - destruct offs as [|o ro]; [destruct Ha|]. destruct Ha as [-> Ha]. cbn [map struct_loop] in H. cbn [meta_of fm_bits fm_name] in H. rewrite Hb in H.
      assert (E1 : match off with Some fo => start + fo | None => pos end = pos) by (destruct off as [x|]; [symmetry; now apply Hpos|reflexivity]).
      rewrite E1 in H. destruct (R f s pos lctx) as [[x p1]|] eqn:Er; [|discriminate]. cbn [bind fst snd] in H.
      destruct (Hf _ _ _ _ _ Hs H0 Er) as [T1 W1]. assert (H1 : 0 <= p1) by (destruct T1; lia).
      assert (Hpos' : forall y, match off, ty_size c (f_ty f) with Some x0, Some n => Some (x0 + n) | _, _ => None end = Some y -> p1 = start + y).
      { intros y Ey. destruct off as [x0|]; [|discriminate]. destruct (ty_size c (f_ty f)) as [n|] eqn:En; [|discriminate]. injection Ey as <-.
        rewrite (Hc n eq_refl _ _ _ _ _ Er). rewrite (Hpos x0 eq_refl). lia. }
      destruct (IH _ _ Ha _ _ _ _ _ _ _ _ _ _ Hs H1 Hpos' H) as [T2 [news [-> [Hn Wl]]]].
      destruct (took_cat _ _ _ _ H0 T1 T2) as [T C]. split; [exact T|].
      exists ((f_name f, x) :: news). cbn [rev]. rewrite <- app_assoc. split; [reflexivity|]. split; [cbn [map fst]; now rewrite Hn|].
      intros vals_all wstart out Hlk Hout. cbn [map wstruct_loop]. cbn [wmeta_of wm_bits wm_name wm_storage wm_align wm_isprim wm_default wb_type wb_empty bind].
      rewrite Hb. rewrite (Hlk (f_name f) x (or_introl eq_refl)).
      assert (P1 : match off with Some fo => if wstart + zlen (out ++ []) <? wstart + fo then zeros (wstart + fo - (wstart + zlen (out ++ []))) else [] | None => [] end = []).
      { destruct off as [x0|]; [|reflexivity]. rewrite app_nil_r, (Hout x0 eq_refl). now rewrite Z.ltb_irrefl. }
      rewrite P1. assert (P2 : match off with None => [] | Some _ => [] end = (@nil Z)) by now destruct off. rewrite P2. cbn [app]. rewrite !app_nil_r.
      rewrite W1. cbn [bind].
      rewrite (Wl vals_all wstart (out ++ sread s pos (p1 - pos))).
      + rewrite <- app_assoc, C. reflexivity.
      + intros n y Hin. apply Hlk. now right.
      + intros y Ey. destruct off as [x0|]; [|discriminate]. destruct (ty_size c (f_ty f)) as [n|] eqn:En; [|discriminate]. injection Ey as <-.
        unfold zlen in *. rewrite app_length. destruct T1 as [_ T1]. unfold zlen in T1. rewrite Nat2Z.inj_add, T1, (Hout x0 eq_refl).
        rewrite (Hc n eq_refl _ _ _ _ _ Er). lia.
  Qed.

  (* the types for which dump∘parse is the identity on the consumed bytes: `flat` types (SizeProps) whose scalars have a unique encoding
     (no wchar: surrogates; no LEB128: non-canonical encodings), whose null-terminated arrays are over integers/characters, and whose
     structures have distinct field names *)
  Fixpoint fid_ty (t : ty) : bool :=
    match t with
    | TPrim p _ => fid_prim p
    | TEnum b _ _ _ => fid_prim b
    | TPtr _ => fid_prim (c_ptr c)
    | TArr el len => fid_ty el && match len with LNull => null_ok el | _ => true end
    | TStruct _ fs _ =>
      (fix go (fs : list field) : bool := match fs with [] => true | Fld _ _ t _ _ :: r => fid_ty t && go r end) fs
      && nodupb (map f_name fs)
    | TUnion _ _ _ => false
    end.
  Lemma fid_go fs : (fix go (fs : list field) : bool := match fs with [] => true | Fld _ _ t _ _ :: r => fid_ty t && go r end) fs = true ->
    Forall (fun f => fid_ty (f_ty f) = true) fs.
  Proof. induction fs as [|[nm an t b o] r IH]; intros H; [constructor|]. apply andb_prop in H as [H1 H2]. constructor; [exact H1|now apply IH]. Qed.

  Theorem dump_parse_identity fuel : forall t, flat t = true -> fid_ty t = true -> fid (read_ty c fuel t) (write_ty c t).
  Proof.
    induction t as [p al|b al fl ms|t IH|el len IH|nm fs al IH|nm fs al IH] using ty_ind'; intros Hfl Hfi; try discriminate.
    - cbn [read_ty write_ty]. exact (prim_fid _ p He Hfi).
    - cbn [read_ty write_ty]. exact (prim_fid _ b He Hfi).
    - cbn [read_ty write_ty]. exact (prim_fid _ (c_ptr c) He Hfi).
    - cbn [flat] in Hfl. apply andb_prop in Hfl as [Hfl Hlen]. cbn [fid_ty] in Hfi. apply andb_prop in Hfi as [Hfi Hnull].
      cbn [read_ty write_ty]. apply array_fid; [now apply IH| |].
      + destruct el as [[| | | | |]| | | | |]; try reflexivity. discriminate.
      + destruct len; [exact Hlen|reflexivity|exact Hnull].
    - apply flat_struct in Hfl as [-> Hfs]. cbn [fid_ty] in Hfi. apply andb_prop in Hfi as [Hgo Hnd]. apply fid_go in Hgo. apply nodupb_NoDup in Hnd.
      intros s pos ctx v p Hs H0 H. cbn [read_ty] in H.
      destruct (layout_struct c false fs) as [lay|] eqn:EL; [|discriminate].
      destruct (struct_loop _ false pos _ _ s pos bb_empty [] [] []) as [[[vals sizes] p']|] eqn:ELoop; [|discriminate]. cbn [bind] in H. injection H as <- <-.
      assert (Hag : offs_agree (Some 0) fs (l_offs lay)).
      { unfold layout_struct in EL. destruct (layout_go c false fs _) as [[offs st']|] eqn:EG; [|discriminate]. cbn [bind fst snd] in EL. injection EL as <-. cbn [l_offs].
        refine (layout_go_agree fs _ _ _ _ EG). rewrite Forall_forall in *. intros f Hin. destruct (Hfs f Hin) as [_ [A B]]. now split. }
      assert (Hitems : Forall (fun f => f_bits f = None /\ fid (read_ty c fuel (f_ty f)) (write_ty c (f_ty f)) /\ (forall n, ty_size c (f_ty f) = Some n -> consumes (read_ty c fuel (f_ty f)) n)) fs).
      { rewrite Forall_forall in *. intros f Hin. destruct (Hfs f Hin) as [Hff [Hb _]]. split; [exact Hb|]. split; [apply IH; [exact Hin|exact Hff|now apply Hgo]|].
        intros n Hn. exact (read_consumes_size c fuel (f_ty f) Hff n Hn). }
      destruct (struct_fid_loop (fun f => read_ty c fuel (f_ty f)) (fun f => write_ty c (f_ty f)) fs Hitems _ _ Hag s pos pos bb_empty [] [] [] _ _ _ Hs H0
                  ltac:(intros x Hx; injection Hx as <-; lia) ELoop) as [T [news [-> [Hnames Wl]]]].
      split; [exact T|]. intros wpos. cbn [write_ty rev app]. rewrite EL.
      assert (Wl' : wstruct_loop c false wpos news (map (fun f => (wmeta_of c f, write_ty c (f_ty f))) fs) (l_offs lay) [] wb_empty = Ok ([] ++ sread s pos (p' - pos), wb_empty)); [apply Wl| ].
      3:{ unfold wfn in *. rewrite Wl'. cbn [bind app wb_flush wb_type wb_empty]. now rewrite app_nil_r. }
      + intros n x Hin. apply lookup_nodup; [now rewrite Hnames|exact Hin].
      + intros x Hx. injection Hx as <-. reflexivity.
  Qed.
End RT.

(* at the public entry points: dumps(T(data)) is the consumed prefix of data *)
Lemma dumps_read_top c : endian_ok (c_endian c) -> forall t, flat t = true -> fid_ty c t = true ->
  forall s v p, Bytes s -> read_top c t s 0 = Ok (v, p) -> dumps c t v = Ok (firstn (Z.to_nat p) s) /\ p <= zlen s.
Proof.
  intros He t Hfl Hfi s v p Hs H. unfold read_top in H. destruct (dump_parse_identity c He _ t Hfl Hfi s 0 [] v p Hs ltac:(lia) H) as [[L T] W].
  unfold dumps. rewrite W. rewrite Z.sub_0_r in *. unfold sread in *. cbn [Z.to_nat skipn] in *. split; [reflexivity|].
  unfold zlen in *. rewrite firstn_length in T. lia.
Qed.

(* sizes agree: for a fixed-size type the parse consumes, and the dump of the parsed value produces, exactly the declared size *)
Lemma sizes_agree c : endian_ok (c_endian c) -> forall fuel t n, flat t = true -> fid_ty c t = true -> ty_size c t = Some n ->
  forall s pos ctx v p, Bytes s -> 0 <= pos -> read_ty c fuel t s pos ctx = Ok (v, p) ->
    p = pos + n /\ forall wpos, exists bs, write_ty c t v wpos = Ok bs /\ zlen bs = n.
Proof.
  intros He fuel t n Hfl Hfi Hn s pos ctx v p Hs H0 H.
  pose proof (read_consumes_size c fuel t Hfl n Hn s pos ctx v p H) as ->. split; [reflexivity|].
  destruct (dump_parse_identity c He fuel t Hfl Hfi s pos ctx v _ Hs H0 H) as [[_ T] W]. intros wpos. eexists. split; [apply W|]. rewrite T. lia.
Qed.
