(* ShiftProps.v — position independence of the model reader (C09): parsing at position p of a stream equals parsing the bytes from p on
   their own, with all positions shifted — it never depends on the bytes before p.  For packed (non-aligned) types. *)
From Coq Require Import Lia.
From VF Require Import Model.Reader Proofs.TyInd Proofs.ReaderProps Proofs.LayoutCorrect.
Open Scope string_scope. Open Scope list_scope. Open Scope Z_scope.

Definition shift {A} (d : Z) (r : result (A * Z)) : result (A * Z) := match r with Ok (v, p) => Ok (v, p + d) | Err e => Err e end.

(* the reader is shift invariant and returns non-negative positions from non-negative positions *)
Section Pre.
Variable pre : list Z.

Definition shift_inv (rd : rfn) : Prop :=
  forall s pos ctx, 0 <= pos ->
    rd (pre ++ s) (zlen pre + pos) ctx = shift (zlen pre) (rd s pos ctx) /\
    (forall v p, rd s pos ctx = Ok (v, p) -> 0 <= p).

Lemma srest_shift s pos : 0 <= pos -> srest (pre ++ s) (zlen pre + pos) = srest s pos.
Proof.
  intros H. unfold srest, zlen. rewrite skipn_app.
  replace (Z.to_nat (Z.of_nat (length pre) + pos)) with (length pre + Z.to_nat pos)%nat by lia.
  rewrite skipn_all2 by lia. cbn [app]. f_equal. lia.
Qed.
Lemma sread_shift s pos n : 0 <= pos -> sread (pre ++ s) (zlen pre + pos) n = sread s pos n.
Proof. intros H. unfold sread. fold (srest (pre ++ s) (zlen pre + pos)). fold (srest s pos). now rewrite srest_shift. Qed.
Lemma sread_exact_shift s pos n : 0 <= pos -> sread_exact (pre ++ s) (zlen pre + pos) n = sread_exact s pos n.
Proof. intros H. unfold sread_exact. now rewrite srest_shift, sread_shift. Qed.

Lemma prim_read_consumes e p a v r : prim_read e p a = Ok (v, r) -> zlen r <= zlen a.
Proof.
  assert (SA : forall n x r0, split_at n a = Ok (x, r0) -> zlen r0 <= zlen a).
  { intros n x r0 H. unfold split_at in H. destruct (Nat.leb n (length a)); [|discriminate]. injection H as _ <-. unfold zlen. rewrite skipn_length. lia. }
  destruct p as [n sg pk|n| | |sg|]; cbn [prim_read]; intros H.
  - destruct (split_at n a) as [[x r0]|] eqn:E; [|discriminate]. cbn [bind] in H. injection H as _ <-. eauto.
  - destruct (split_at n a) as [[x r0]|] eqn:E; [|discriminate]. cbn [bind] in H. injection H as _ <-. eauto.
  - destruct (split_at 1 a) as [[x r0]|] eqn:E; [|discriminate]. cbn [bind] in H. injection H as _ <-. eauto.
  - destruct (split_at 2 a) as [[x r0]|] eqn:E; [|discriminate]. cbn [bind] in H. destruct (utf16_decode _ x); [|discriminate]. cbn [bind] in H. injection H as _ <-. eauto.
  - unfold leb_read in H. destruct (leb_read_go sg a 0 0) as [[v0 r0]|] eqn:E; [|discriminate]. cbn [bind] in H. injection H as _ <-.
    clear -E. revert E. generalize 0 at 1. generalize 0 at 1. revert v0. induction a as [|x a IH]; intros v0 sh acc E; cbn [leb_read_go] in E; [discriminate|].
    destruct (x <? 128); [injection E as _ <-; unfold zlen; simpl; lia|]. specialize (IH _ _ _ E). unfold zlen in *. simpl. lia.
  - injection H as _ <-. lia.
Qed.

Lemma prim_read_at_shift e p : shift_inv (fun s pos _ => prim_read_at e p s pos).
Proof.
  intros s pos ctx Hp. unfold prim_read_at. rewrite srest_shift by exact Hp. split.
  - destruct (prim_read e p (srest s pos)) as [[v r]|]; cbn [bind shift fst snd]; [f_equal; f_equal; lia|reflexivity].
  - intros v p0 H. destruct (prim_read e p (srest s pos)) as [[v0 r]|] eqn:E; [|discriminate]. cbn [bind fst snd] in H. injection H as _ <-.
    pose proof (prim_read_consumes _ _ _ _ _ E). lia.
Qed.

Definition shift3 (d : Z) (r : result (Z * bitbuf * Z)) : result (Z * bitbuf * Z) :=
  match r with Ok (v, b, p) => Ok (v, b, p + d) | Err e => Err e end.
Lemma bb_read_shift e s pos bb st bits : 0 <= pos ->
  bb_read e (pre ++ s) (zlen pre + pos) bb st bits = shift3 (zlen pre) (bb_read e s pos bb st bits) /\
  (forall v b p, bb_read e s pos bb st bits = Ok (v, b, p) -> 0 <= p).
Proof.
  intros Hp. unfold bb_read.
  destruct ((bb_rem bb =? 0) || negb (storage_eqb (bb_type bb) st)).
  - destruct st as [[p al]|]; [|split; [reflexivity|discriminate]]. destruct (prim_size_z p) as [sz|]; [|split; [reflexivity|discriminate]].
    destruct (prim_read_at_shift e p s pos [] Hp) as [S1 S2]. cbn beta in S1, S2. rewrite S1.
    destruct (prim_read_at e p s pos) as [[v p']|] eqn:E; cbn [shift bind fst snd]; [|split; [reflexivity|discriminate]].
    specialize (S2 _ _ eq_refl).
    destruct (value_as_unit (String.eqb e "<") v) as [u|]; cbn [bind]; [|split; [reflexivity|discriminate]].
    cbn [bb_rem bb_buf bb_type]. destruct (sz * 8 <? bits); [split; [reflexivity|discriminate]|].
    destruct (String.eqb e "<"); (split; [reflexivity|intros v0 b0 p0 H; injection H as _ _ <-; exact S2]).
  - cbn [bind]. destruct (bb_rem bb <? bits); [split; [reflexivity|discriminate]|].
    destruct (String.eqb e "<"); (split; [cbn [shift3]; f_equal; f_equal; lia|intros v0 b0 p0 H; injection H as _ _ <-; exact Hp]).
Qed.

Definition shiftl_ {A} (d : Z) (r : result (list A * Z)) := shift d r.

Lemma seq_n_shift rd : shift_inv rd -> forall k s pos ctx, 0 <= pos ->
  seq_n rd k (pre ++ s) (zlen pre + pos) ctx = shift (zlen pre) (seq_n rd k s pos ctx) /\ (forall v p, seq_n rd k s pos ctx = Ok (v, p) -> 0 <= p).
Proof.
  intros Hrd. induction k as [|k IH]; intros s pos ctx Hp; cbn [seq_n].
  - split; [cbn; f_equal; f_equal; lia|]. intros v p H. injection H as _ <-. exact Hp.
  - destruct (Hrd s pos ctx Hp) as [S1 S2]. rewrite S1. destruct (rd s pos ctx) as [[x p1]|] eqn:E; cbn [shift bind fst snd]; [|split; [reflexivity|discriminate]].
    specialize (S2 _ _ eq_refl). rewrite (Z.add_comm p1). destruct (IH s p1 ctx S2) as [T1 T2]. rewrite T1.
    destruct (seq_n rd k s p1 ctx) as [[vs p2]|] eqn:E2; cbn [shift bind fst snd]; [|split; [reflexivity|discriminate]].
    split; [reflexivity|]. intros v p H. injection H as _ <-. exact (T2 _ _ eq_refl).
Qed.
Lemma seq_eof_shift rd : shift_inv rd -> forall f s pos ctx, 0 <= pos ->
  seq_eof rd f (pre ++ s) (zlen pre + pos) ctx = shift (zlen pre) (seq_eof rd f s pos ctx) /\ (forall v p, seq_eof rd f s pos ctx = Ok (v, p) -> 0 <= p).
Proof.
  intros Hrd. induction f as [|f IH]; intros s pos ctx Hp; cbn [seq_eof]; [split; [reflexivity|discriminate]|].
  rewrite zlen_app. assert ((zlen pre + zlen s <=? zlen pre + pos) = (zlen s <=? pos)) as -> by lia.
  destruct (zlen s <=? pos).
  - split; [cbn; f_equal; f_equal; lia|]. intros v p H. injection H as _ <-. exact Hp.
  - destruct (Hrd s pos ctx Hp) as [S1 S2]. rewrite S1. destruct (rd s pos ctx) as [[x p1]|] eqn:E; cbn [shift bind fst snd]; [|split; [reflexivity|discriminate]].
    specialize (S2 _ _ eq_refl). rewrite (Z.add_comm p1). destruct (IH s p1 ctx S2) as [T1 T2]. rewrite T1.
    destruct (seq_eof rd f s p1 ctx) as [[vs p2]|] eqn:E2; cbn [shift bind fst snd]; [|split; [reflexivity|discriminate]].
    split; [reflexivity|]. intros v p H. injection H as _ <-. exact (T2 _ _ eq_refl).
Qed.
Lemma zero_term_shift isz rd : shift_inv rd -> forall f s pos ctx, 0 <= pos ->
  zero_term isz rd f (pre ++ s) (zlen pre + pos) ctx = shift (zlen pre) (zero_term isz rd f s pos ctx) /\ (forall v p, zero_term isz rd f s pos ctx = Ok (v, p) -> 0 <= p).
Proof.
  intros Hrd. induction f as [|f IH]; intros s pos ctx Hp; cbn [zero_term]; [split; [reflexivity|discriminate]|].
  destruct (Hrd s pos ctx Hp) as [S1 S2]. rewrite S1. destruct (rd s pos ctx) as [[x p1]|] eqn:E; cbn [shift bind fst snd]; [|split; [reflexivity|discriminate]].
  specialize (S2 _ _ eq_refl). destruct (isz x).
  - split; [reflexivity|]. intros v p H. injection H as _ <-. exact S2.
  - rewrite (Z.add_comm p1). destruct (IH s p1 ctx S2) as [T1 T2]. rewrite T1.
    destruct (zero_term isz rd f s p1 ctx) as [[vs p2]|] eqn:E2; cbn [shift bind fst snd]; [|split; [reflexivity|discriminate]].
    split; [reflexivity|]. intros v p H. injection H as _ <-. exact (T2 _ _ eq_refl).
Qed.
Lemma falsy_term_shift rd : shift_inv rd -> forall f s pos ctx, 0 <= pos ->
  falsy_term rd f (pre ++ s) (zlen pre + pos) ctx = shift (zlen pre) (falsy_term rd f s pos ctx) /\ (forall v p, falsy_term rd f s pos ctx = Ok (v, p) -> 0 <= p).
Proof.
  intros Hrd. induction f as [|f IH]; intros s pos ctx Hp; cbn [falsy_term]; [split; [reflexivity|discriminate]|].
  destruct (Hrd s pos ctx Hp) as [S1 S2]. rewrite S1. destruct (rd s pos ctx) as [[x p1]|] eqn:E; cbn [shift bind fst snd]; [|split; [reflexivity|discriminate]].
  specialize (S2 _ _ eq_refl). destruct (truthy_value x).
  - rewrite (Z.add_comm p1). destruct (IH s p1 ctx S2) as [T1 T2]. rewrite T1.
    destruct (falsy_term rd f s p1 ctx) as [[vs p2]|] eqn:E2; cbn [shift bind fst snd]; [|split; [reflexivity|discriminate]].
    split; [reflexivity|]. intros v p H. injection H as _ <-. exact (T2 _ _ eq_refl).
  - split; [reflexivity|]. intros v p H. injection H as _ <-. exact S2.
Qed.
Lemma char_term_shift : forall f s pos acc, 0 <= pos ->
  char_term f (pre ++ s) (zlen pre + pos) acc = shift (zlen pre) (char_term f s pos acc) /\ (forall v p, char_term f s pos acc = Ok (v, p) -> 0 <= p).
Proof.
  induction f as [|f IH]; intros s pos acc Hp; cbn [char_term]; [split; [reflexivity|discriminate]|].
  rewrite sread_shift by exact Hp. destruct (sread s pos 1) as [|b [|b2 t]]; try (split; [reflexivity|discriminate]).
  destruct (b =? 0).
  - split; [cbn; f_equal; f_equal; lia|]. intros v p H. injection H as _ <-. lia.
  - replace (zlen pre + pos + 1) with (zlen pre + (pos + 1)) by lia. apply IH. lia.
Qed.
Lemma wchar_term_shift en : forall f s pos acc, 0 <= pos ->
  wchar_term en f (pre ++ s) (zlen pre + pos) acc = shift (zlen pre) (wchar_term en f s pos acc) /\ (forall v p, wchar_term en f s pos acc = Ok (v, p) -> 0 <= p).
Proof.
  induction f as [|f IH]; intros s pos acc Hp; cbn [wchar_term]; [split; [reflexivity|discriminate]|].
  rewrite sread_shift by exact Hp. destruct (sread s pos 2) as [|a [|b [|c0 t]]]; try (split; [reflexivity|discriminate]).
  destruct ((a =? 0) && (b =? 0)).
  - destruct (utf16_decode en (rev acc)); cbn [bind shift]; (split; [try reflexivity; f_equal; f_equal; lia|]); try discriminate. intros v p H. injection H as _ <-. lia.
  - replace (zlen pre + pos + 2) with (zlen pre + (pos + 2)) by lia. apply IH. lia.
Qed.

Definition off_ok (o : option Z) : Prop := match o with Some fo => 0 <= fo | None => True end.

(* alignments the shift respects: a power of two dividing the shift *)
Definition al_ok (a : Z) : Prop := exists k, 0 <= k /\ a = 2 ^ k /\ zlen pre mod a = 0.
Definition al_okb (a : Z) : bool := (0 <? a) && (a =? 2 ^ Z.log2 a) && (zlen pre mod a =? 0).
Lemma al_okb_ok a : al_okb a = true -> al_ok a.
Proof.
  unfold al_okb. intros H. apply andb_prop in H as [H H3]. apply andb_prop in H as [H1 H2].
  exists (Z.log2 a). split; [apply Z.log2_nonneg|]. split; lia.
Qed.
Lemma pad_shift a x : al_ok a -> pad_to (zlen pre + x) a = pad_to x a /\ 0 <= pad_to x a.
Proof.
  intros [k [Hk [-> Hm]]]. rewrite !pad_to_mod by exact Hk. split.
  - assert (0 < 2 ^ k) by (apply Z.pow_pos_nonneg; lia).
    apply Z.mod_divide in Hm; [|lia]. destruct Hm as [q Hq]. rewrite Hq.
    replace (- (q * 2 ^ k + x)) with (- x + (- q) * 2 ^ k) by ring. apply Z_mod_plus_full.
  - apply Z.mod_pos_bound. apply Z.pow_pos_nonneg; lia.
Qed.

Lemma struct_loop_shift e aligned start : forall items, Forall (fun it => shift_inv (snd it)) items ->
  (aligned = true -> Forall (fun it : fmeta * rfn => al_ok (fm_align (fst it))) items) ->
  forall offs, Forall off_ok offs -> forall s pos bb vals sizes lctx, 0 <= pos -> 0 <= start ->
  struct_loop e aligned (zlen pre + start) items offs (pre ++ s) (zlen pre + pos) bb vals sizes lctx
  = match struct_loop e aligned start items offs s pos bb vals sizes lctx with Ok (v, sz, p) => Ok (v, sz, p + zlen pre) | Err er => Err er end
  /\ (forall v sz p, struct_loop e aligned start items offs s pos bb vals sizes lctx = Ok (v, sz, p) -> 0 <= p).
Proof.
  induction 1 as [|[m rd] items Hrd Hits IH]; intros Hal offs Hoffs s pos bb vals sizes lctx Hp Hs; cbn [struct_loop].
  - split; [f_equal; f_equal; lia|]. intros v sz p H. injection H as _ _ <-. exact Hp.
  - destruct Hoffs as [|o ro Ho Hro]; [split; [reflexivity|discriminate]|]. cbn [snd] in Hrd.
    assert (Hal' : aligned = true -> Forall (fun it : fmeta * rfn => al_ok (fm_align (fst it))) items) by (intros Ha; specialize (Hal Ha); now inversion Hal).
    specialize (IH Hal').
    set (off2 := if aligned then match o with None => pos + pad_to pos (fm_align m) | Some fo => start + fo end else match o with Some fo => start + fo | None => pos end).
    assert (E2 : (if aligned then match o with None => match o with Some fo => zlen pre + start + fo | None => zlen pre + pos end + pad_to (match o with Some fo => zlen pre + start + fo | None => zlen pre + pos end) (fm_align m) | Some _ => match o with Some fo => zlen pre + start + fo | None => zlen pre + pos end end else match o with Some fo => zlen pre + start + fo | None => zlen pre + pos end) = zlen pre + off2
                 /\ (if aligned then match o with None => match o with Some fo => start + fo | None => pos end + pad_to (match o with Some fo => start + fo | None => pos end) (fm_align m) | Some _ => match o with Some fo => start + fo | None => pos end end else match o with Some fo => start + fo | None => pos end) = off2
                 /\ 0 <= off2).
    { unfold off2. destruct aligned.
      - assert (A : al_ok (fm_align m)) by (specialize (Hal eq_refl); now inversion Hal).
        destruct o as [fo|]; unfold off_ok in Ho; [repeat split; lia|]. destruct (pad_shift _ pos A) as [P1 P2]. rewrite P1. repeat split; lia.
      - destruct o as [fo|]; unfold off_ok in Ho; repeat split; lia. }
    destruct E2 as [E2 [E3 H2]]. rewrite E2, E3. clearbody off2.
    assert (Plain :
      (do x <- rd (pre ++ s) (zlen pre + off2) lctx; struct_loop e aligned (zlen pre + start) items ro (pre ++ s) (snd x) bb_empty ((fm_name m, fst x) :: vals) ((fm_name m, snd x - (zlen pre + off2)) :: sizes) (int_ctx (fm_name m) (fst x) lctx))
      = match (do x <- rd s off2 lctx; struct_loop e aligned start items ro s (snd x) bb_empty ((fm_name m, fst x) :: vals) ((fm_name m, snd x - off2) :: sizes) (int_ctx (fm_name m) (fst x) lctx)) with Ok (v, sz, p) => Ok (v, sz, p + zlen pre) | Err er => Err er end
      /\ (forall v sz p, (do x <- rd s off2 lctx; struct_loop e aligned start items ro s (snd x) bb_empty ((fm_name m, fst x) :: vals) ((fm_name m, snd x - off2) :: sizes) (int_ctx (fm_name m) (fst x) lctx)) = Ok (v, sz, p) -> 0 <= p)).
    { destruct (Hrd s off2 lctx H2) as [S1 S2]. rewrite S1. destruct (rd s off2 lctx) as [[x p1]|] eqn:E; cbn [shift bind fst snd]; [|split; [reflexivity|discriminate]].
      specialize (S2 _ _ eq_refl). replace (p1 + zlen pre - (zlen pre + off2)) with (p1 - off2) by lia. rewrite (Z.add_comm p1). now apply IH. }
    destruct (fm_bits m) as [nb|]; [|exact Plain]. destruct (nb =? 0); [exact Plain|].
    destruct (bb_read_shift e s off2 bb (fm_storage m) nb H2) as [B1 B2]. rewrite B1.
    destruct (bb_read e s off2 bb (fm_storage m) nb) as [[[v bb'] pos']|] eqn:E; cbn [shift3 bind]; [|split; [reflexivity|discriminate]].
    specialize (B2 _ _ _ eq_refl). rewrite (Z.add_comm pos'). now apply IH.
Qed.

Definition moff_ok (o : option Z) : Prop := match o with Some fo => 0 <= fo | None => True end.
Lemma union_loop_shift : forall items, Forall (fun it => shift_inv (snd it) /\ moff_ok (snd (fst it))) items ->
  forall s base last vals lctx, 0 <= base -> 0 <= last ->
  union_loop items (pre ++ s) (zlen pre + base) (zlen pre + last) vals lctx = shift (zlen pre) (union_loop items s base last vals lctx)
  /\ (forall v p, union_loop items s base last vals lctx = Ok (v, p) -> 0 <= p).
Proof.
  induction 1 as [|[[n fo] rd] items [Hrd Ho] Hits IH]; intros s base last vals lctx Hb Hl; cbn [union_loop].
  - split; [cbn; f_equal; f_equal; lia|]. intros v p H. injection H as _ <-. exact Hl.
  - cbn [fst snd] in Hrd, Ho. set (st := match fo with Some o => o | None => 0 end).
    assert (Hst : 0 <= base + st) by (destruct fo; unfold st, moff_ok in *; lia).
    replace (zlen pre + base + st) with (zlen pre + (base + st)) by lia.
    destruct (Hrd s (base + st) lctx Hst) as [S1 S2]. rewrite S1.
    destruct (rd s (base + st) lctx) as [[x p1]|] eqn:E; cbn [shift bind fst snd]; [|split; [reflexivity|discriminate]].
    specialize (S2 _ _ eq_refl). replace (Z.max (zlen pre + last) (p1 + zlen pre)) with (zlen pre + Z.max last p1) by lia. apply IH; lia.
Qed.

Lemma prim_size_z_nonneg p sz : prim_size_z p = Some sz -> 0 <= sz.
Proof. unfold prim_size_z. destruct (prim_size p); cbn; [|discriminate]. intros H. injection H as <-. lia. Qed.

Section Shift.
  Variable c : cfg.

  Lemma packed_read_n_shift p n s pos : 0 <= pos -> 0 <= n ->
    packed_read_n c p n (pre ++ s) (zlen pre + pos) = shift (zlen pre) (packed_read_n c p n s pos)
    /\ (forall v q, packed_read_n c p n s pos = Ok (v, q) -> 0 <= q).
  Proof.
    intros Hp Hn. unfold packed_read_n. destruct (prim_size_z p) as [sz|] eqn:Es; [|split; [reflexivity|discriminate]].
    pose proof (prim_size_z_nonneg _ _ Es). rewrite sread_exact_shift by exact Hp.
    destruct (sread_exact s pos (sz * n)) as [bs|]; cbn [bind shift]; [|split; [reflexivity|discriminate]].
    destruct (unpack_n c p (Z.to_nat n) bs); cbn [bind shift]; [|split; [reflexivity|discriminate]].
    split; [f_equal; f_equal; lia|]. intros v q H0. injection H0 as _ <-. nia.
  Qed.

  Lemma wrap_list_shift d r : wrap_list (shift d r) = shift d (wrap_list r).
  Proof. destruct r as [[v p]|]; reflexivity. Qed.
  Lemma wrap_list_pos r v p : wrap_list r = Ok (v, p) -> exists l, r = Ok (l, p).
  Proof. destruct r as [[l q]|]; cbn; [|discriminate]. intros H. injection H as _ <-. now exists l. Qed.

  Lemma read_count_shift fuel el rd : shift_inv rd -> forall n, 0 <= n -> shift_inv (read_count c fuel el rd n).
  Proof.
    intros Hrd n Hn s pos ctx Hp.
    assert (Gen : (do r <- seq_n rd (Z.to_nat (Z.min n (zlen (srest (pre ++ s) (zlen pre + pos)) + 65))) (pre ++ s) (zlen pre + pos) ctx;
                   if zlen (srest (pre ++ s) (zlen pre + pos)) + 65 <? n then Err EOutOfFuel else Ok (VList (fst r), snd r))
                  = shift (zlen pre) (do r <- seq_n rd (Z.to_nat (Z.min n (zlen (srest s pos) + 65))) s pos ctx; if zlen (srest s pos) + 65 <? n then Err EOutOfFuel else Ok (VList (fst r), snd r))
                  /\ (forall v p, (do r <- seq_n rd (Z.to_nat (Z.min n (zlen (srest s pos) + 65))) s pos ctx; if zlen (srest s pos) + 65 <? n then Err EOutOfFuel else Ok (VList (fst r), snd r)) = Ok (v, p) -> 0 <= p)).
    { rewrite srest_shift by exact Hp. destruct (seq_n_shift rd Hrd (Z.to_nat (Z.min n (zlen (srest s pos) + 65))) s pos ctx Hp) as [S1 S2]. rewrite S1.
      destruct (seq_n rd _ s pos ctx) as [[l q]|]; cbn [shift bind fst snd]; [|split; [reflexivity|discriminate]].
      destruct (zlen (srest s pos) + 65 <? n); [split; [reflexivity|discriminate]|]. split; [reflexivity|]. intros v p H. injection H as _ <-. exact (S2 _ _ eq_refl). }
    assert (Pk : forall p, wrap_list (packed_read_n c p n (pre ++ s) (zlen pre + pos)) = shift (zlen pre) (wrap_list (packed_read_n c p n s pos))
                 /\ (forall v q, wrap_list (packed_read_n c p n s pos) = Ok (v, q) -> 0 <= q)).
    { intros p. destruct (packed_read_n_shift p n s pos Hp Hn) as [S1 S2]. rewrite S1, wrap_list_shift. split; [reflexivity|].
      intros v q H. apply wrap_list_pos in H as [l H]. exact (S2 _ _ H). }
    unfold read_count.
    destruct el as [p al|b al ms fl|t0|t0 l0|nm fs al|nm fs al]; try exact Gen.
    - destruct p as [sz sg pk|sz| | |sg|]; try exact Gen.
      + destruct pk; [apply Pk|exact Gen].
      + apply Pk.
      + destruct (n =? 0); [split; [cbn; f_equal; f_equal; lia|intros v p H; injection H as _ <-; exact Hp]|].
        rewrite sread_exact_shift by exact Hp. destruct (sread_exact s pos n); cbn [bind shift]; [|split; [reflexivity|discriminate]].
        split; [f_equal; f_equal; lia|]. intros v p H. injection H as _ <-. lia.
      + destruct (n =? 0); [split; [cbn; f_equal; f_equal; lia|intros v p H; injection H as _ <-; exact Hp]|].
        rewrite sread_exact_shift by exact Hp. destruct (sread_exact s pos (2 * n)) as [bs|]; cbn [bind shift]; [|split; [reflexivity|discriminate]].
        destruct (utf16_decode _ bs); cbn [bind shift]; [|split; [reflexivity|discriminate]].
        split; [f_equal; f_equal; lia|]. intros v p H. assert (p = pos + 2 * n) by congruence. lia.
    - destruct b as [sz sg pk|sz| | |sg|]; try exact Gen. destruct pk; [apply Pk|exact Gen].
  Qed.

  Lemma packed_read_eof_shift p s pos : 0 <= pos ->
    packed_read_eof c p (pre ++ s) (zlen pre + pos) = shift (zlen pre) (packed_read_eof c p s pos)
    /\ (forall v q, packed_read_eof c p s pos = Ok (v, q) -> 0 <= q).
  Proof.
    intros Hp. unfold packed_read_eof. destruct (prim_size_z p) as [sz|] eqn:Es; [|split; [reflexivity|discriminate]].
    pose proof (prim_size_z_nonneg _ _ Es) as Hsz. rewrite srest_shift by exact Hp. destruct (sz =? 0) eqn:Ez; [split; [reflexivity|discriminate]|].
    destruct (zlen (srest s pos) =? zlen (srest s pos) / sz * sz); [|split; [reflexivity|discriminate]].
    assert (Hn : 0 <= zlen (srest s pos) / sz) by (apply Z.div_pos; [apply zlen_nonneg|lia]).
    destruct (packed_read_n_shift p _ s pos Hp Hn) as [S1 S2]. rewrite S1.
    destruct (packed_read_n c p _ s pos) as [[l q]|]; cbn [shift bind fst snd]; [|split; [reflexivity|discriminate]].
    split; [f_equal; f_equal; lia|]. intros v q0 H. injection H as _ <-. pose proof (zlen_nonneg (srest s pos)). lia.
  Qed.

  Lemma read_eof_mode_shift fuel el rd : shift_inv rd -> shift_inv (read_eof_mode c fuel el rd).
  Proof.
    intros Hrd s pos ctx Hp.
    assert (Gen : wrap_list (seq_eof rd fuel (pre ++ s) (zlen pre + pos) ctx) = shift (zlen pre) (wrap_list (seq_eof rd fuel s pos ctx))
                  /\ (forall v p, wrap_list (seq_eof rd fuel s pos ctx) = Ok (v, p) -> 0 <= p)).
    { destruct (seq_eof_shift rd Hrd fuel s pos ctx Hp) as [S1 S2]. rewrite S1, wrap_list_shift. split; [reflexivity|].
      intros v q H. apply wrap_list_pos in H as [l H]. exact (S2 _ _ H). }
    assert (Pk : forall p, wrap_list (packed_read_eof c p (pre ++ s) (zlen pre + pos)) = shift (zlen pre) (wrap_list (packed_read_eof c p s pos))
                 /\ (forall v q, wrap_list (packed_read_eof c p s pos) = Ok (v, q) -> 0 <= q)).
    { intros p. destruct (packed_read_eof_shift p s pos Hp) as [S1 S2]. rewrite S1, wrap_list_shift. split; [reflexivity|].
      intros v q H. apply wrap_list_pos in H as [l H]. exact (S2 _ _ H). }
    unfold read_eof_mode. pose proof (zlen_nonneg (srest s pos)) as Hz.
    destruct el as [p al|b al ms fl|t0|t0 l0|nm fs al|nm fs al]; try exact Gen.
    - destruct p as [sz sg pk|sz| | |sg|]; try exact Gen.
      + destruct pk; [apply Pk|exact Gen].
      + apply Pk.
      + rewrite srest_shift by exact Hp. split; [cbn; f_equal; f_equal; lia|]. intros v p H. injection H as _ <-. lia.
      + rewrite srest_shift by exact Hp. destruct (utf16_decode _ (srest s pos)); cbn [bind shift]; [|split; [reflexivity|discriminate]].
        split; [f_equal; f_equal; lia|]. intros v p H. injection H as _ <-. lia.
    - destruct b as [sz sg pk|sz| | |sg|]; try exact Gen. destruct pk; [apply Pk|exact Gen].
  Qed.

  Lemma read_null_shift fuel el rd : shift_inv rd -> shift_inv (read_null c fuel el rd).
  Proof.
    intros Hrd s pos ctx Hp.
    assert (Z0 : forall isz, wrap_list (zero_term isz rd fuel (pre ++ s) (zlen pre + pos) ctx) = shift (zlen pre) (wrap_list (zero_term isz rd fuel s pos ctx))
                  /\ (forall v p, wrap_list (zero_term isz rd fuel s pos ctx) = Ok (v, p) -> 0 <= p)).
    { intros isz. destruct (zero_term_shift isz rd Hrd fuel s pos ctx Hp) as [S1 S2]. rewrite S1, wrap_list_shift. split; [reflexivity|].
      intros v q H. apply wrap_list_pos in H as [l H]. exact (S2 _ _ H). }
    assert (F0 : wrap_list (falsy_term rd fuel (pre ++ s) (zlen pre + pos) ctx) = shift (zlen pre) (wrap_list (falsy_term rd fuel s pos ctx))
                  /\ (forall v p, wrap_list (falsy_term rd fuel s pos ctx) = Ok (v, p) -> 0 <= p)).
    { destruct (falsy_term_shift rd Hrd fuel s pos ctx Hp) as [S1 S2]. rewrite S1, wrap_list_shift. split; [reflexivity|].
      intros v q H. apply wrap_list_pos in H as [l H]. exact (S2 _ _ H). }
    unfold read_null.
    destruct el as [p al|b al ms fl|t0|t0 l0|nm fs al|nm fs al]; try exact F0; try (split; [reflexivity|discriminate]); try apply Z0.
    destruct p as [sz sg pk|sz| | |sg|]; try apply Z0.
    - now apply char_term_shift.
    - now apply wchar_term_shift.
    - split; [cbn; f_equal; f_equal; lia|]. intros v p H. injection H as _ <-. exact Hp.
  Qed.

  Lemma read_array_shift fuel el rd len : shift_inv rd -> shift_inv (read_array c fuel el rd len).
  Proof.
    intros Hrd. unfold read_array. destruct len as [n|toks is_eof|].
    - apply read_count_shift; [exact Hrd|lia].
    - intros s pos ctx Hp. destruct (eval_len c ctx toks) as [v|].
      + apply read_count_shift; [exact Hrd|lia|exact Hp].
      + destruct is_eof; [now apply read_eof_mode_shift|split; [reflexivity|discriminate]].
    - now apply read_null_shift.
  Qed.

  (* well-formedness for shifting by zlen pre: aligned structures only use power-of-two alignments dividing the shift,
     and the offsets the layout computes / the definition gives are not negative *)
  Definition offs_nonneg (offs : list (option Z)) : bool := forallb (fun o => match o with Some fo => 0 <=? fo | None => true end) offs.
  Fixpoint shift_ok (t : ty) : bool :=
    match t with
    | TPrim _ _ | TEnum _ _ _ _ | TPtr _ => true
    | TArr el _ => shift_ok el
    | TStruct _ fs al =>
      (fix go (fs : list field) : bool := match fs with [] => true | Fld _ _ t _ _ :: r => shift_ok t && go r end) fs
      && match layout_struct c al fs with
         | Ok lay => offs_nonneg (l_offs lay) && (if al then al_okb (eff_align (l_align lay)) && forallb (fun f => al_okb (fm_align (meta_of c f))) fs else true)
         | Err _ => true end
    | TUnion _ fs al =>
      (fix go (fs : list field) : bool := match fs with [] => true | Fld _ _ t _ _ :: r => shift_ok t && go r end) fs
      && offs_nonneg (map f_off fs)
    end.
  Lemma packed_go fs : (fix go (fs : list field) : bool := match fs with [] => true | Fld _ _ t _ _ :: r => shift_ok t && go r end) fs = true ->
    Forall (fun f => shift_ok (f_ty f) = true) fs.
  Proof. induction fs as [|[nm an t b o] r IH]; intros H; [constructor|]. apply andb_prop in H as [H1 H2]. constructor; [exact H1|now apply IH]. Qed.
  Lemma offs_nonneg_ok offs : offs_nonneg offs = true -> Forall off_ok offs.
  Proof. unfold offs_nonneg. rewrite forallb_forall, Forall_forall. intros H o Ho. specialize (H o Ho). destruct o; cbn; [lia|exact I]. Qed.

  Theorem read_ty_shift fuel : forall t, shift_ok t = true -> shift_inv (read_ty c fuel t).
  Proof.
    induction t as [p al|b al ms fl|t0 IHt0|el len IHel|nm fs al IHfs|nm fs al IHfs] using ty_ind'; intros Hok.
    - cbn [read_ty]. exact (prim_read_at_shift _ p).
    - cbn [read_ty]. exact (prim_read_at_shift _ b).
    - cbn [read_ty]. exact (prim_read_at_shift _ (c_ptr c)).
    - cbn [read_ty]. apply read_array_shift. apply IHel. exact Hok.
    - cbn [shift_ok] in Hok. apply andb_prop in Hok as [Hgo Hlay].
      apply packed_go in Hgo. intros s pos ctx Hp. cbn [read_ty].
      destruct (layout_struct c al fs) as [lay|]; [|split; [reflexivity|discriminate]].
      apply andb_prop in Hlay as [Hoffs Hal]. apply offs_nonneg_ok in Hoffs.
      assert (Hits : Forall (fun it : fmeta * rfn => shift_inv (snd it)) (map (fun f => (meta_of c f, read_ty c fuel (f_ty f))) fs)).
      { rewrite Forall_map. cbn [snd]. rewrite Forall_forall in *. intros f Hf. apply IHfs; [exact Hf|]. now apply Hgo. }
      assert (Hals : al = true -> Forall (fun it : fmeta * rfn => al_ok (fm_align (fst it))) (map (fun f => (meta_of c f, read_ty c fuel (f_ty f))) fs)).
      { intros ->. apply andb_prop in Hal as [_ Hal]. rewrite Forall_map. cbn [fst]. rewrite forallb_forall in Hal. rewrite Forall_forall. intros f Hf. apply al_okb_ok. now apply Hal. }
      destruct (struct_loop_shift (c_endian c) al pos _ Hits Hals _ Hoffs s pos bb_empty [] [] [] Hp Hp) as [S1 S2]. rewrite S1.
      destruct (struct_loop _ al pos _ _ s pos _ _ _ _) as [[[v sz] p]|]; cbn [bind shift]; [|split; [reflexivity|discriminate]].
      specialize (S2 _ _ _ eq_refl). destruct al.
      + apply andb_prop in Hal as [Hal _]. apply al_okb_ok in Hal. rewrite (Z.add_comm p). destruct (pad_shift _ p Hal) as [P1 P2]. rewrite P1.
        split; [cbn; f_equal; f_equal; lia|]. intros v0 p0 H. injection H as _ <-. lia.
      + split; [reflexivity|]. intros v0 p0 H. injection H as _ <-. exact S2.
    - cbn [shift_ok] in Hok. apply andb_prop in Hok as [Hgo Hoffs].
      apply packed_go in Hgo. apply offs_nonneg_ok in Hoffs. intros s pos ctx Hp. cbn [read_ty].
      destruct (l_size (layout_union c al fs)) as [sz|].
      + rewrite sread_shift by exact Hp. destruct (union_loop _ (sread s pos sz) 0 0 [] []) as [[m l]|]; cbn [bind shift fst snd]; [|split; [reflexivity|discriminate]].
        split; [f_equal; f_equal; lia|]. intros v p H. injection H as _ <-. pose proof (zlen_nonneg (sread s pos sz)). lia.
      + assert (Hits : Forall (fun it : string * option Z * rfn => shift_inv (snd it) /\ moff_ok (snd (fst it))) (map (fun f => (f_name f, f_off f, read_ty c fuel (f_ty f))) fs)).
        { rewrite Forall_map. cbn [fst snd]. rewrite Forall_map in Hoffs. rewrite Forall_forall in *. intros f Hf. split; [apply IHfs; [exact Hf|now apply Hgo]|exact (Hoffs f Hf)]. }
        destruct (union_loop_shift _ Hits s pos pos [] [] Hp Hp) as [S1 S2]. rewrite S1.
        destruct (union_loop _ s pos pos [] []) as [[m l]|]; cbn [bind shift fst snd]; [|split; [reflexivity|discriminate]].
        specialize (S2 _ _ eq_refl). replace (l + zlen pre - (zlen pre + pos)) with (l - pos) by lia. rewrite sread_exact_shift by exact Hp.
        destruct (sread_exact s pos (l - pos)); cbn [bind shift]; [|split; [reflexivity|discriminate]].
        split; [f_equal; f_equal; lia|]. intros v p H. injection H as _ <-. lia.
  Qed.
End Shift.
End Pre.

(* the public entry point: a successful parse of the bytes from p on, taken on their own, is the parse at p of the whole stream (positions shifted by p) *)
Theorem read_top_shift c t pre s pos r : simple t = true -> shift_ok pre c t = true -> 0 <= pos ->
  read_top c t s pos = Ok r -> read_top c t (pre ++ s) (zlen pre + pos) = shift (zlen pre) (Ok r).
Proof.
  intros Hs Hok Hp H. unfold read_top in *.
  apply (read_ty_mono c t Hs (S (S (length s))) (S (S (length (pre ++ s))))) in H; [|rewrite app_length; lia].
  destruct (read_ty_shift pre c (S (S (length (pre ++ s)))) t Hok s pos [] Hp) as [S1 _]. rewrite S1, H. reflexivity.
Qed.

(* the bytes before p never matter: two streams that agree from p on give the same result at p *)
Theorem prefix_irrelevant c fuel t pre1 pre2 s pos ctx : zlen pre1 = zlen pre2 -> shift_ok pre1 c t = true -> shift_ok pre2 c t = true -> 0 <= pos ->
  read_ty c fuel t (pre1 ++ s) (zlen pre1 + pos) ctx = read_ty c fuel t (pre2 ++ s) (zlen pre2 + pos) ctx.
Proof.
  intros E H1 H2 Hp. destruct (read_ty_shift pre1 c fuel t H1 s pos ctx Hp) as [-> _]. destruct (read_ty_shift pre2 c fuel t H2 s pos ctx Hp) as [-> _]. now rewrite E.
Qed.
