(* SizeProps.v — the declared size of a fixed-size type is the number of bytes a successful parse consumes (C04, reader side). *)
From Coq Require Import Lia.
From VF Require Import Model.Reader Proofs.TyInd Proofs.LayoutCorrect Proofs.ReaderProps Proofs.ArrayProps.
Open Scope string_scope. Open Scope list_scope. Open Scope Z_scope.

Section Size.
  Variable c : cfg.

  (* cls.size of a structure is the size its layout computes (the two are written as separate loops in the model) *)
  Lemma ty_size_struct nm fs al :
    ty_size c (TStruct nm fs al) = match layout_struct c al fs with Ok lay => l_size lay | Err _ => None end.
  Proof.
    cbn [ty_size]. unfold layout_struct.
    assert (G : forall fs st,
      (fix go (fs : list field) (st : lstate) : result lstate :=
         match fs with
         | [] => Ok st
         | Fld _ _ ft fb fo :: r =>
           do x <- layout_step al st fo fb (bit_storage ft) (ty_size c ft) (let a := ty_align c ft in if a =? 0 then 1 else a);
           go r (fst x)
         end) fs st = do x <- layout_go c al fs st; Ok (snd x)).
    { induction fs0 as [|[n a ft fb fo] r IH]; intros st; [reflexivity|]. cbn [layout_go f_off f_bits f_ty]. unfold field_align. cbn [f_ty].
      destruct (layout_step al st fo fb (bit_storage ft) (ty_size c ft) _) as [x|]; cbn [bind]; [|reflexivity].
      rewrite IH. destruct (layout_go c al r (fst x)) as [y|]; reflexivity. }
    rewrite G. destruct (layout_go c al fs _) as [x|]; cbn [bind]; [|reflexivity].
    cbn [l_size]. destruct (ls_off (snd x)); [destruct al|]; reflexivity.
  Qed.

  (* sequential types: scalars, arrays of every length form (a fixed count is not negative) and packed structures of plain fields
     (no bit fields, no pre-set offsets); no unions *)
  Fixpoint flat (t : ty) : bool :=
    match t with
    | TPrim _ _ | TEnum _ _ _ _ | TPtr _ => true
    | TArr el len => flat el && match len with LFixed n => 0 <=? n | _ => true end
    | TStruct _ fs al =>
      negb al && (fix go (fs : list field) : bool :=
                    match fs with [] => true | Fld _ _ t b o :: r => flat t && match b, o with None, None => true | _, _ => false end && go r end) fs
    | TUnion _ _ _ => false
    end.
  Lemma flat_struct nm fs al : flat (TStruct nm fs al) = true ->
    al = false /\ Forall (fun f => flat (f_ty f) = true /\ f_bits f = None /\ f_off f = None) fs.
  Proof.
    cbn [flat]. intros H. apply andb_prop in H as [Ha H]. split; [now destruct al|].
    induction fs as [|[n a t b o] r IH]; [constructor|]. apply andb_prop in H as [H Hr]. apply andb_prop in H as [Ht Hb].
    constructor; [|now apply IH]. cbn. destruct b; [discriminate|]. destruct o; [discriminate|]. now split.
  Qed.

  Definition consumes (rd : rfn) (n : Z) : Prop := forall s pos ctx v p, rd s pos ctx = Ok (v, p) -> p = pos + n.

  Lemma prim_consumes p n : prim_size_z p = Some n -> consumes (fun s pos _ => prim_read_at (c_endian c) p s pos) n.
  Proof.
    intros Hn s pos ctx v q H. unfold prim_read_at in H.
    destruct (prim_read (c_endian c) p (srest s pos)) as [[v0 r]|] eqn:E; [|discriminate]. cbn [bind fst snd] in H. injection H as _ <-.
    assert (SA : forall k x r0, split_at k (srest s pos) = Ok (x, r0) -> zlen (srest s pos) - zlen r0 = Z.of_nat k).
    { intros k x r0 H. unfold split_at in H. destruct (Nat.leb_spec k (length (srest s pos))); [|discriminate]. injection H as _ <-. unfold zlen. rewrite skipn_length. lia. }
    unfold prim_size_z in Hn.
    destruct p as [k sg pk|k| | |sg|]; cbn [prim_read prim_size option_map] in *; try discriminate; injection Hn as <-.
    - destruct (split_at k (srest s pos)) as [[x r0]|] eqn:E1; [|discriminate]. cbn [bind] in E. injection E as _ <-. rewrite (SA _ _ _ E1). reflexivity.
    - destruct (split_at k (srest s pos)) as [[x r0]|] eqn:E1; [|discriminate]. cbn [bind] in E. injection E as _ <-. rewrite (SA _ _ _ E1). reflexivity.
    - destruct (split_at 1 (srest s pos)) as [[x r0]|] eqn:E1; [|discriminate]. cbn [bind] in E. injection E as _ <-. rewrite (SA _ _ _ E1). reflexivity.
    - destruct (split_at 2 (srest s pos)) as [[x r0]|] eqn:E1; [|discriminate]. cbn [bind] in E. destruct (utf16_decode _ x); [|discriminate]. cbn [bind] in E. injection E as _ <-. rewrite (SA _ _ _ E1). reflexivity.
    - injection E as _ <-. lia.
  Qed.

  Lemma seq_n_consumes rd n : consumes rd n -> forall k s pos ctx l p, seq_n rd k s pos ctx = Ok (l, p) -> p = pos + Z.of_nat k * n.
  Proof.
    intros Hrd. induction k as [|k IH]; intros s pos ctx l p H; cbn [seq_n] in H; [injection H as _ <-; lia|].
    destruct (rd s pos ctx) as [[x p1]|] eqn:E; [|discriminate]. cbn [bind fst snd] in H.
    destruct (seq_n rd k s p1 ctx) as [[l' p']|] eqn:E2; [|discriminate]. cbn [bind fst snd] in H. injection H as _ <-.
    apply Hrd in E. apply IH in E2. lia.
  Qed.

  Lemma read_count_consumes fuel el rd n k : ty_size c el = Some n -> consumes rd n -> 0 <= k -> consumes (read_count c fuel el rd k) (k * n).
  Proof.
    intros Hs Hrd Hk s pos ctx v p H.
    assert (Gen : (do r <- seq_n rd (Z.to_nat (Z.min k (zlen (srest s pos) + 65))) s pos ctx; if zlen (srest s pos) + 65 <? k then Err EOutOfFuel else Ok (VList (fst r), snd r)) = Ok (v, p) -> p = pos + k * n).
    { intros G. destruct (seq_n rd _ s pos ctx) as [[l q]|] eqn:E; [|discriminate]. cbn [bind fst snd] in G.
      destruct (Z.ltb_spec (zlen (srest s pos) + 65) k); [discriminate|]. injection G as _ <-. apply (seq_n_consumes rd n Hrd) in E. replace (Z.min k (zlen (srest s pos) + 65)) with k in E by lia. rewrite Z2Nat.id in E by lia. exact E. }
    assert (Pk : forall p0, prim_size_z p0 = Some n -> wrap_list (packed_read_n c p0 k s pos) = Ok (v, p) -> p = pos + k * n).
    { intros p0 Hp0 G. unfold packed_read_n in G. rewrite Hp0 in G. destruct (sread_exact s pos (n * k)) as [bs|]; [|discriminate]. cbn [bind] in G.
      destruct (unpack_n c p0 (Z.to_nat k) bs); [|discriminate]. cbn [bind wrap_list fst snd] in G. injection G as _ <-. lia. }
    unfold read_count in H. cbn [ty_size] in Hs.
    destruct el as [p0 al|b al ms fl|t0|t0 l0|nm fs al|nm fs al]; try (now apply Gen).
    - destruct p0 as [sz sg pk|sz| | |sg|]; try (now apply Gen).
      + destruct pk; [now apply (Pk _ Hs)|now apply Gen].
      + now apply (Pk _ Hs).
      + cbn in Hs. injection Hs as <-. destruct (k =? 0) eqn:Ek; [injection H as _ <-; lia|].
        destruct (sread_exact s pos k); [|discriminate]. cbn [bind] in H. injection H as _ <-. lia.
      + cbn in Hs. injection Hs as <-. destruct (k =? 0) eqn:Ek; [injection H as _ <-; lia|].
        destruct (sread_exact s pos (2 * k)) as [bs|]; [|discriminate]. cbn [bind] in H. destruct (utf16_decode _ bs); [|discriminate]. cbn [bind] in H.
        assert (p = pos + 2 * k) by congruence. lia.
    - destruct b as [sz sg pk|sz| | |sg|]; try (now apply Gen). destruct pk; [now apply (Pk _ Hs)|now apply Gen].
  Qed.

  (* a packed field list without bit fields and pre-set offsets has a size only when every member has one *)
  Lemma layout_go_sized : forall fs, Forall (fun f => f_bits f = None /\ f_off f = None) fs ->
    forall st offs st' o, layout_go c false fs st = Ok (offs, st') -> ls_off st' = Some o ->
    forallb (plain_field c) fs = true /\ ls_off st <> None.
  Proof.
    induction 1 as [|f r [Hb Ho] Hr IH]; intros st offs st' o H Hs.
    - cbn in H. injection H as _ <-. split; [reflexivity|congruence].
    - cbn [layout_go] in H. rewrite Hb, Ho in H. unfold layout_step in H.
      destruct (ls_off st) as [o0|] eqn:E0.
      + destruct (ty_size c (f_ty f)) as [m|] eqn:Em; cbn [bind fst snd] in H.
        * destruct (layout_go c false r _) as [[offs' st'']|] eqn:E; [|discriminate]. cbn [bind fst snd] in H. injection H as _ <-.
          destruct (IH _ _ _ _ E Hs) as [P _]. split; [|congruence]. cbn [forallb]. unfold plain_field at 1. now rewrite Hb, Ho, Em.
        * destruct (layout_go c false r _) as [[offs' st'']|] eqn:E; [|discriminate]. cbn [bind fst snd] in H. injection H as _ <-.
          destruct (IH _ _ _ _ E Hs) as [_ P]. now cbn in P.
      + cbn [bind fst snd] in H. destruct (layout_go c false r _) as [[offs' st'']|] eqn:E; [|discriminate]. cbn [bind fst snd] in H. injection H as _ <-.
        destruct (IH _ _ _ _ E Hs) as [_ P]. now cbn in P.
  Qed.

  (* the structure loop over plain fields, against the C rule *)
  Lemma struct_loop_consumes e start : forall fs (rdf : field -> rfn),
    Forall (fun f => f_bits f = None /\ exists n, ty_size c (f_ty f) = Some n /\ consumes (rdf f) n) fs ->
    forall off al offs en al', c_rule false off al (map (member c) fs) = (offs, en, al') ->
    forall s bb vals sizes lctx v sz p,
    struct_loop e false start (map (fun f => (meta_of c f, rdf f)) fs) (map Some offs) s (start + off) bb vals sizes lctx = Ok (v, sz, p) ->
    p = start + en.
  Proof.
    intros fs rdf. induction 1 as [|f r [Hb [n [Hn Hc]]] Hr IH]; intros off al offs en al' HC s bb vals sizes lctx v sz p H.
    - cbn in HC. injection HC as _ <- _. cbn [map struct_loop] in H. injection H as _ _ <-. reflexivity.
    - cbn [map c_rule] in HC. unfold member at 1 in HC. rewrite Hn in HC.
      destruct (c_rule false (off + n) (Z.max al (field_align c f)) (map (member c) r)) as [[offs' e'] al''] eqn:E. injection HC as <- <- <-.
      cbn [map struct_loop] in H. cbn [meta_of fm_bits fm_name] in H. rewrite Hb in H.
      destruct (rdf f s (start + off) lctx) as [[x p1]|] eqn:Er; [|discriminate]. cbn [bind fst snd] in H.
      apply Hc in Er. subst p1. replace (start + off + n) with (start + (off + n)) in H by lia.
      exact (IH _ _ _ _ _ E _ _ _ _ _ _ _ _ H).
  Qed.

  Theorem read_consumes_size fuel : forall t, flat t = true -> forall n, ty_size c t = Some n -> consumes (read_ty c fuel t) n.
  Proof.
    induction t as [p al|b al fl ms|t IH|el len IH|nm fs al IH|nm fs al IH] using ty_ind'; intros Hf n Hn; try discriminate.
    - cbn [read_ty]. cbn [ty_size] in Hn. exact (prim_consumes p n Hn).
    - cbn [read_ty]. cbn [ty_size] in Hn. exact (prim_consumes b n Hn).
    - cbn [read_ty]. cbn [ty_size] in Hn. exact (prim_consumes (c_ptr c) n Hn).
    - cbn [flat] in Hf. cbn [ty_size] in Hn. destruct len as [k|toks ise|]; try discriminate. apply andb_prop in Hf as [Hel Hk]. destruct (ty_size c el) as [m|] eqn:Em; [|discriminate]. injection Hn as <-.
      cbn [read_ty read_array]. replace (Z.max 0 k) with k by lia. apply read_count_consumes; [exact Em| |lia]. now apply IH.
    - apply flat_struct in Hf as [-> Hfs]. rewrite ty_size_struct in Hn.
      assert (Hplain : forallb (plain_field c) fs = true).
      { unfold layout_struct in Hn. destruct (layout_go c false fs _) as [[offs st']|] eqn:E; [|discriminate]. cbn [bind fst snd l_size] in Hn.
        destruct (ls_off st') as [o|] eqn:Eo; [|discriminate].
        refine (proj1 (layout_go_sized fs _ _ _ _ _ E Eo)). rewrite Forall_forall in *. intros f Hin. destruct (Hfs f Hin) as [_ [A B]]. now split. }
      rewrite (layout_is_c_rule c false fs Hplain) in Hn. unfold c_struct in Hn.
      destruct (c_rule false 0 0 (map (member c) fs)) as [[offs e] al] eqn:EC. cbn [l_size] in Hn. injection Hn as <-.
      intros s pos ctx v p H. cbn [read_ty] in H. rewrite (layout_is_c_rule c false fs Hplain) in H. unfold c_struct in H. rewrite EC in H. cbn [l_offs l_align] in H.
      destruct (struct_loop _ false pos _ _ s pos bb_empty [] [] []) as [[[vals sizes] p']|] eqn:EL; [|discriminate]. cbn [bind] in H. injection H as _ <-.
      replace pos with (pos + 0) in EL at 2 by lia.
      refine (struct_loop_consumes _ pos fs (fun f => read_ty c fuel (f_ty f)) _ _ _ _ _ _ EC _ _ _ _ _ _ _ _ EL).
      rewrite Forall_forall in *. intros f Hin. destruct (Hfs f Hin) as [Hfl [Hb _]]. split; [exact Hb|].
      rewrite forallb_forall in Hplain. specialize (Hplain f Hin). unfold plain_field in Hplain. rewrite Hb in Hplain.
      destruct (f_off f); [discriminate|]. destruct (ty_size c (f_ty f)) as [m|] eqn:Em; [|discriminate].
      exists m. split; [reflexivity|]. exact (IH f Hin Hfl m Em).
  Qed.
End Size.
