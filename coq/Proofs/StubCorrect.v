From VF Require Import Model.Stubgen.
Open Scope string_scope. Open Scope list_scope.

(* the stub declares exactly the user-defined names of the typedef table, in order: every one of them and nothing else *)
Lemma stub_go_names builtin : forall tds seen, first_named_by_class builtin seen tds = true ->
  map decl_name (stub_go builtin seen tds) = map td_key tds.
Proof.
  induction tds as [|t r IH]; intros seen H; [reflexivity|].
  cbn [first_named_by_class] in H. apply andb_prop in H as [H1 H2].
  cbn [stub_go map]. f_equal; [|now apply IH].
  destruct (mem_str (td_cls t) builtin); [reflexivity|]. destruct (mem_str (td_cls t) seen); [reflexivity|].
  cbn [orb] in H1. destruct (td_kind t); cbn [decl_name]; try reflexivity; now apply String.eqb_eq.
Qed.
Theorem stub_declares_exactly builtin tds : first_named_by_class builtin [] tds = true ->
  map decl_name (stub_decls builtin tds) = map td_key tds.
Proof. apply stub_go_names. Qed.
(* a class is declared at most once: later typedefs of the same class become aliases *)
Lemma stub_class_once builtin : forall tds seen n k, In (DClass n k) (stub_go builtin seen tds) -> mem_str n seen = false.
Proof.
  induction tds as [|t r IH]; intros seen n k H; [destruct H|].
  cbn [stub_go] in H. destruct H as [H|H].
  - destruct (mem_str (td_cls t) builtin); [discriminate|]. destruct (mem_str (td_cls t) seen) eqn:E; [discriminate|].
    destruct (td_kind t); try discriminate; injection H as <- _; exact E.
  - specialize (IH _ _ _ H). cbn [mem_str existsb] in IH. apply Bool.orb_false_elim in IH as [_ IH]. exact IH.
Qed.
