From Coq Require Import Lia.
From VF Require Import Model.Threads.
Open Scope list_scope.

Section P.
  Variable L : Type.
  Variable step : L -> L.

  Lemma nth_update_same i f : forall (ls : list L) d, (i < length ls)%nat -> nth i (update L i f ls) d = f (nth i ls d).
  Proof. induction i as [|i IH]; intros [|x r] d H; simpl in *; try lia; [reflexivity|]. apply IH. lia. Qed.
  Lemma nth_update_other i j f : forall (ls : list L) d, i <> j -> nth j (update L i f ls) d = nth j ls d.
  Proof.
    revert j. induction i as [|i IH]; intros j [|x r] d H; simpl; try reflexivity.
    - destruct j; [congruence|reflexivity].
    - destruct j; [reflexivity|]. apply IH. congruence.
  Qed.
  Lemma update_length i f : forall ls : list L, length (update L i f ls) = length ls.
  Proof. induction i as [|i IH]; intros [|x r]; simpl; auto. Qed.
  Lemma iter_step n x : iter L step n (step x) = step (iter L step n x).
  Proof. revert x. induction n as [|n IH]; intros x; simpl; [reflexivity|]. now rewrite IH. Qed.

  (* Every interleaving gives thread j exactly what it computes alone: as many of its own steps as the schedule granted it. *)
  Theorem interleaving_is_sequential : forall schedule (ls : list L) j d, (j < length ls)%nat ->
    nth j (run L step schedule ls) d = iter L step (count j schedule) (nth j ls d).
  Proof.
    induction schedule as [|i r IH]; intros ls j d Hj; [reflexivity|].
    cbn [run]. rewrite IH by (now rewrite update_length). unfold count. cbn [filter].
    destruct (Nat.eqb_spec j i) as [->|Hne].
    - cbn [length iter]. now rewrite nth_update_same by exact Hj.
    - now rewrite nth_update_other by congruence.
  Qed.
End P.
