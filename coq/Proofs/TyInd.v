(* TyInd.v — an induction principle for the nested type universe. *)
From VF Require Import Model.Types.
Section TyInd.
  Variable P : ty -> Prop.
  Hypothesis Hprim : forall p al, P (TPrim p al).
  Hypothesis Henum : forall b al fl ms, P (TEnum b al fl ms).
  Hypothesis Hptr : forall t, P t -> P (TPtr t).
  Hypothesis Harr : forall el len, P el -> P (TArr el len).
  Hypothesis Hstruct : forall n fs al, Forall (fun f => P (f_ty f)) fs -> P (TStruct n fs al).
  Hypothesis Hunion : forall n fs al, Forall (fun f => P (f_ty f)) fs -> P (TUnion n fs al).
  Fixpoint ty_ind' (t : ty) : P t :=
    match t with
    | TPrim p al => Hprim p al
    | TEnum b al fl ms => Henum b al fl ms
    | TPtr t => Hptr t (ty_ind' t)
    | TArr el len => Harr el len (ty_ind' el)
    | TStruct n fs al =>
      Hstruct n fs al ((fix go (fs : list field) : Forall (fun f => P (f_ty f)) fs :=
                          match fs with
                          | [] => Forall_nil _
                          | f :: r => Forall_cons f (match f as f0 return P (f_ty f0) with Fld _ _ t _ _ => ty_ind' t end) (go r)
                          end) fs)
    | TUnion n fs al =>
      Hunion n fs al ((fix go (fs : list field) : Forall (fun f => P (f_ty f)) fs :=
                         match fs with
                         | [] => Forall_nil _
                         | f :: r => Forall_cons f (match f as f0 return P (f_ty f0) with Fld _ _ t _ _ => ty_ind' t end) (go r)
                         end) fs)
    end.
End TyInd.
