From Coq Require Import Lia.
From VF Require Import Model.Union.
Open Scope string_scope. Open Scope list_scope. Open Scope Z_scope.

Lemma nth_skipn' {A} (l : list A) n i d : nth i (skipn n l) d = nth (n + i) l d.
Proof. revert l. induction n as [|n IH]; intros l; [reflexivity|]. destruct l; [now destruct i|]. cbn [skipn plus nth]. apply IH. Qed.

(* overwriting inside a buffer: the written range holds the new bytes, everything else keeps the old ones, the length is unchanged *)
Lemma overwrite_length buf off bs : 0 <= off -> (Z.to_nat off + length bs <= length buf)%nat -> length (overwrite buf off bs) = length buf.
Proof.
  intros Ho H. unfold overwrite. rewrite !app_length, firstn_length, repeat_length, skipn_length. lia.
Qed.
Lemma overwrite_nth buf off bs i d : 0 <= off -> (Z.to_nat off + length bs <= length buf)%nat ->
  nth i (overwrite buf off bs) d =
  if (i <? Z.to_nat off)%nat then nth i buf d
  else if (i <? Z.to_nat off + length bs)%nat then nth (i - Z.to_nat off) bs d
  else nth i buf d.
Proof.
  intros Ho H. unfold overwrite. set (o := Z.to_nat off) in *.
  assert (E : (o - length buf = 0)%nat) by lia. rewrite E. cbn [repeat]. rewrite app_nil_r.
  destruct (Nat.ltb_spec i o) as [L|L].
  - rewrite app_nth1 by (rewrite firstn_length; lia).
    rewrite <- (firstn_skipn o buf) at 2. now rewrite app_nth1 by (rewrite firstn_length; lia).
  - rewrite app_nth2 by (rewrite firstn_length; lia). rewrite firstn_length, Nat.min_l by lia.
    destruct (Nat.ltb_spec i (o + length bs)) as [L2|L2].
    + now rewrite app_nth1 by lia.
    + rewrite app_nth2 by lia. rewrite nth_skipn'. f_equal. lia.
Qed.

(* the assignment is exactly: encode the new value, overwrite the member's bytes, re-read all members *)
Lemma union_assign_spec c fs aligned buf ms name v sz f bs ms' :
  l_size (layout_union c aligned fs) = Some sz -> find_field name fs = Some f -> buf <> [] ->
  write_ty c (f_ty f) v (match f_off f with Some o => o | None => 0 end) = Ok bs ->
  union_members c fs (overwrite buf (match f_off f with Some o => o | None => 0 end) bs) = Ok ms' ->
  union_assign c fs aligned (VUnion buf ms) name v = Ok (VUnion (overwrite buf (match f_off f with Some o => o | None => 0 end) bs) ms').
Proof.
  intros Hs Hf Hb Hw Hm. unfold union_assign. rewrite Hs, Hf. destruct buf as [|b0 r]; [congruence|].
  rewrite Hw. cbn [bind]. rewrite Hm. reflexivity.
Qed.

(* ---------- reading a union: every member is a view of the union's bytes ---------- *)
Lemma union_loop_views : forall (items : list (string * option Z * rfn)) buf base last vals lctx ms q,
  union_loop items buf base last vals lctx = Ok (ms, q) ->
  exists news, ms = rev vals ++ news /\
    Forall2 (fun it nv => fst nv = fst (fst it) /\
                          exists lctx' q', snd it buf (base + match snd (fst it) with Some o => o | None => 0 end) lctx' = Ok (snd nv, q')) items news.
Proof.
  induction items as [|[[n fo] rd] r IH]; intros buf base last vals lctx ms q H; cbn [union_loop] in H.
  - injection H as <- _. exists []. split; [now rewrite app_nil_r|constructor].
  - destruct (rd buf (base + match fo with Some o => o | None => 0 end) lctx) as [[v p]|] eqn:E; [|discriminate]. cbn [bind fst snd] in H.
    destruct (IH _ _ _ _ _ _ _ H) as [news [-> F]]. exists ((n, v) :: news). split; [cbn [rev]; now rewrite <- app_assoc|].
    constructor; [|exact F]. cbn [fst snd]. split; [reflexivity|eauto].
Qed.
(* a union of static size: the value holds the bytes read (the union's size of them, fewer only at the end of input), the stream moves by exactly
   those bytes, and every member's value is what its own type parses from those bytes at the member's offset *)
Theorem union_read_views c fuel nm fs al sz s pos ctx v p :
  l_size (layout_union c al fs) = Some sz -> read_ty c fuel (TUnion nm fs al) s pos ctx = Ok (v, p) ->
  exists ms, v = VUnion (sread s pos sz) ms /\ p = pos + zlen (sread s pos sz) /\
    Forall2 (fun f nv => fst nv = f_name f /\
                         exists lctx q, read_ty c fuel (f_ty f) (sread s pos sz) (match f_off f with Some o => o | None => 0 end) lctx = Ok (snd nv, q)) fs ms.
Proof.
  intros Hs H. cbn [read_ty] in H. rewrite Hs in H.
  destruct (union_loop _ (sread s pos sz) 0 0 [] []) as [[ms q]|] eqn:E; [|discriminate]. cbn [bind fst snd] in H. injection H as <- <-.
  destruct (union_loop_views _ _ _ _ _ _ _ _ E) as [news [-> F]]. cbn [rev app]. exists news. split; [reflexivity|]. split; [reflexivity|].
  clear E Hs. revert news F. induction fs as [|f r IH]; intros news F; inversion F as [|it nv its nvs [Hn [lctx [q' Hr]]] Fr]; subst; constructor.
  - cbn [fst snd] in *. split; [exact Hn|]. exists lctx, q'. rewrite Z.add_0_l in Hr. exact Hr.
  - apply IH. exact Fr.
Qed.
(* with the union's bytes all there, parsing consumes exactly the union's size *)
Theorem union_read_consumes c fuel nm fs al sz s pos ctx v p :
  l_size (layout_union c al fs) = Some sz -> 0 <= pos -> 0 <= sz -> sz <= zlen (srest s pos) ->
  read_ty c fuel (TUnion nm fs al) s pos ctx = Ok (v, p) -> p = pos + sz.
Proof.
  intros Hs Hp H0 Hen H. destruct (union_read_views _ _ _ _ _ _ _ _ _ _ _ Hs H) as [ms [_ [-> _]]]. f_equal.
  unfold zlen, sread, srest in *. rewrite firstn_length. lia.
Qed.
