From Coq Require Import Lia.
From VF Require Import Model.Union.
Open Scope string_scope. Open Scope list_scope. Open Scope Z_scope.

Lemma nth_skipn' {A} (l : list A) n i d : nth i (skipn n l) d = nth (n + i) l d.
Proof. revert l. induction n as [|n IH]; intros l; [reflexivity|]. destruct l; [now destruct i|]. cbn [skipn plus nth]. apply IH. Qed.

(* overwriting inside a buffer: the written range holds the new bytes, everything else keeps the old ones, the length is unchanged *)
Lemma overwrite_length buf off bs : 0 <= off -> (Z.to_nat off + length bs <= length buf)%nat -> length (overwrite buf off bs) = length buf.
Proof.
  intros Ho H. unfold overwrite. rewrite !app_length, firstn_length, repeat_length, skipn_length. lia.
Qed.
Lemma overwrite_nth buf off bs i d : 0 <= off -> (Z.to_nat off + length bs <= length buf)%nat ->
  nth i (overwrite buf off bs) d =
  if (i <? Z.to_nat off)%nat then nth i buf d
  else if (i <? Z.to_nat off + length bs)%nat then nth (i - Z.to_nat off) bs d
  else nth i buf d.
Proof.
  intros Ho H. unfold overwrite. set (o := Z.to_nat off) in *.
  assert (E : (o - length buf = 0)%nat) by lia. rewrite E. cbn [repeat]. rewrite app_nil_r.
  destruct (Nat.ltb_spec i o) as [L|L].
  - rewrite app_nth1 by (rewrite firstn_length; lia).
    rewrite <- (firstn_skipn o buf) at 2. now rewrite app_nth1 by (rewrite firstn_length; lia).
  - rewrite app_nth2 by (rewrite firstn_length; lia). rewrite firstn_length, Nat.min_l by lia.
    destruct (Nat.ltb_spec i (o + length bs)) as [L2|L2].
    + now rewrite app_nth1 by lia.
    + rewrite app_nth2 by lia. rewrite nth_skipn'. f_equal. lia.
Qed.

(* the assignment is exactly: encode the new value, overwrite the member's bytes, re-read all members *)
Lemma union_assign_spec c fs aligned buf ms name v sz f bs ms' :
  l_size (layout_union c aligned fs) = Some sz -> find_field name fs = Some f -> buf <> [] ->
  write_ty c (f_ty f) v (match f_off f with Some o => o | None => 0 end) = Ok bs ->
  union_members c fs (overwrite buf (match f_off f with Some o => o | None => 0 end) bs) = Ok ms' ->
  union_assign c fs aligned (VUnion buf ms) name v = Ok (VUnion (overwrite buf (match f_off f with Some o => o | None => 0 end) bs) ms').
Proof.
  intros Hs Hf Hb Hw Hm. unfold union_assign. rewrite Hs, Hf. destruct buf as [|b0 r]; [congruence|].
  rewrite Hw. cbn [bind]. rewrite Hm. reflexivity.
Qed.
