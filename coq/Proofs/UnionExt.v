(* UnionExt.v — extension stability (C08) for the type universe extended by DYNAMICALLY SIZED unions.  Since the union's extent is the furthest end
   any member reached (fix ac0a71b), the buffer it re-reads is exactly what its members consumed, and a value returned from a stream is the value
   returned from every extension of it.  Unions of static size stay outside: at the end of the input their raw buffer may be short. *)
From Coq Require Import Lia.
From VF Require Import Model.Reader Proofs.TyInd Proofs.ReaderProps.
Open Scope string_scope. Open Scope list_scope. Open Scope Z_scope.

Section UnionExt.
  Variable c : cfg.

  Fixpoint simple_u (t : ty) : bool :=
    match t with
    | TPrim _ _ | TEnum _ _ _ _ | TPtr _ => true
    | TArr el len => simple_u el && match len with LExpr _ true => false | _ => true end
    | TStruct _ fs _ => (fix go (fs : list field) : bool := match fs with [] => true | Fld _ _ t _ _ :: r => simple_u t && go r end) fs
    | TUnion _ fs al => match l_size (layout_union c al fs) with None => true | Some _ => false end &&
                        (fix go (fs : list field) : bool := match fs with [] => true | Fld _ _ t _ _ :: r => simple_u t && go r end) fs
    end.
  Lemma simple_u_go fs : (fix go (fs : list field) : bool := match fs with [] => true | Fld _ _ t _ _ :: r => simple_u t && go r end) fs = true ->
    Forall (fun f => simple_u (f_ty f) = true) fs.
  Proof. induction fs as [|[nm an t b o] r IH]; intros H; [constructor|]. apply andb_prop in H as [H1 H2]. constructor; [exact H1|now apply IH]. Qed.
  Lemma simple_simple_u : forall t, simple t = true -> simple_u t = true.
  Proof.
    induction t as [p al|b al fl ms|t IH|el len IH|nm fs al IH|nm fs al IH] using ty_ind'; intros H; try reflexivity; try discriminate.
    - cbn [simple simple_u] in *. apply andb_prop in H as [H1 H2]. now rewrite (IH H1), H2.
    - cbn [simple simple_u] in *. induction fs as [|[n a t b o] r IHr]; [reflexivity|]. apply andb_prop in H as [H1 H2].
      inversion IH as [|? ? Hf Hr]; subst. cbn [f_ty] in Hf. rewrite (Hf H1). cbn [andb]. now apply IHr.
  Qed.

  Lemma union_loop_ext : forall items, Forall (fun it => ext_stable (snd it)) items ->
    forall s1 s2 base last vals lctx r, union_loop items s1 base last vals lctx = Ok r -> union_loop items (s1 ++ s2) base last vals lctx = Ok r.
  Proof.
    induction 1 as [|[[n fo] rd] items Hrd Hits IH]; intros s1 s2 base last vals lctx r H; cbn [union_loop] in *; [exact H|].
    cbn [snd] in Hrd. destruct (rd s1 _ lctx) as [x|] eqn:E; [|discriminate]. rewrite (Hrd _ s2 _ _ _ E). cbn [bind] in *. now apply IH.
  Qed.

  Theorem read_ty_ext_u fuel : forall t, simple_u t = true -> ext_stable (read_ty c fuel t).
  Proof.
    induction t as [p al|b al fl ms|t IH|el len IH|nm fs al IH|nm fs al IH] using ty_ind'; intros Hs.
    - intros s1 s2 pos ctx r H. cbn [read_ty] in *. now apply (prim_read_at_ext (c_endian c) p s1 s2 pos ctx).
    - intros s1 s2 pos ctx r H. cbn [read_ty] in *. now apply (prim_read_at_ext (c_endian c) b s1 s2 pos ctx).
    - intros s1 s2 pos ctx r H. cbn [read_ty] in *. now apply (prim_read_at_ext (c_endian c) (c_ptr c) s1 s2 pos ctx).
    - cbn [simple_u] in Hs. apply andb_prop in Hs as [Hel Hlen]. specialize (IH Hel).
      intros s1 s2 pos ctx r H. cbn [read_ty] in *. unfold read_array in *.
      destruct len as [n|toks iseof|].
      + now apply read_count_ext.
      + destruct (eval_len c ctx toks); [now apply read_count_ext|]. destruct iseof; [discriminate|exact H].
      + now apply read_null_ext.
    - cbn [simple_u] in Hs. pose proof (simple_u_go _ Hs) as Hfs.
      intros s1 s2 pos ctx r H. cbn [read_ty] in *. destruct (layout_struct c al fs) as [lay|]; [|exact H].
      set (items := map (fun f => (meta_of c f, read_ty c fuel (f_ty f))) fs) in *.
      assert (Hit : Forall (fun it => ext_stable (snd it)) items).
      { subst items. apply Forall_map. rewrite Forall_forall in *. intros f Hf. cbn [snd]. apply IH; [exact Hf|]. now apply Hfs. }
      destruct (struct_loop (c_endian c) al pos items (l_offs lay) s1 pos bb_empty [] [] []) as [x|] eqn:E; [|discriminate].
      now rewrite (struct_loop_ext _ _ _ _ Hit _ _ s2 _ _ _ _ _ _ E).
    - cbn [simple_u] in Hs. apply andb_prop in Hs as [Hdyn Hgo]. pose proof (simple_u_go _ Hgo) as Hfs.
      intros s1 s2 pos ctx r H. cbn [read_ty] in *. destruct (l_size (layout_union c al fs)) as [sz|]; [discriminate|].
      set (items := map (fun f => (f_name f, f_off f, read_ty c fuel (f_ty f))) fs) in *.
      assert (Hit : Forall (fun it => ext_stable (snd it)) items).
      { subst items. apply Forall_map. rewrite Forall_forall in *. intros f Hf. cbn [snd]. apply IH; [exact Hf|]. now apply Hfs. }
      destruct (union_loop items s1 pos pos [] []) as [m|] eqn:E; [|discriminate]. rewrite (union_loop_ext _ Hit _ s2 _ _ _ _ _ E). cbn [bind] in *.
      destruct (sread_exact s1 pos (snd m - pos)) as [buf|] eqn:Eb; [|discriminate]. now rewrite (sread_exact_app _ s2 _ _ _ Eb).
  Qed.
End UnionExt.
