(* ValueRoundTrip.v — value round trip (C01): parsing what was dumped gives the value back and consumes exactly the dumped bytes,
   wherever the dump sits in a stream.  Proved for typed values of the sequential fragment with fixed-count arrays. *)
From Coq Require Import Lia.
From VF Require Import Model.Writer Proofs.TyInd Proofs.CodecCorrect Proofs.LayoutCorrect Proofs.ReaderProps Proofs.ArrayProps Proofs.SizeProps Proofs.RoundTrip.
Open Scope string_scope. Open Scope list_scope. Open Scope Z_scope.

(* a parsed structure records field sizes, a constructed one need not: values are compared up to that record *)
Fixpoint strip (v : value) : value :=
  match v with
  | VList vs => VList (map strip vs)
  | VStruct fs _ => VStruct ((fix go (l : list (string * value)) := match l with [] => [] | (n, x) :: r => (n, strip x) :: go r end) fs) []
  | VUnion b fs => VUnion b ((fix go (l : list (string * value)) := match l with [] => [] | (n, x) :: r => (n, strip x) :: go r end) fs)
  | _ => v
  end.
Definition strip_fields (l : list (string * value)) : list (string * value) := map (fun kv => (fst kv, strip (snd kv))) l.
Lemma strip_struct fs sz : strip (VStruct fs sz) = VStruct (strip_fields fs) [].
Proof. cbn [strip]. f_equal. induction fs as [|[n x] r IH]; [reflexivity|]. cbn [strip_fields map fst snd]. f_equal. exact IH. Qed.

(* ---------- streams ---------- *)
Lemma srest_mid pre bs : srest (pre ++ bs) (zlen pre) = bs.
Proof. unfold srest, zlen. rewrite Nat2Z.id, skipn_app, skipn_all, Nat.sub_diag. reflexivity. Qed.
Lemma sread_mid pre bs rest : sread (pre ++ bs ++ rest) (zlen pre) (zlen bs) = bs.
Proof. unfold sread. fold (srest (pre ++ bs ++ rest) (zlen pre)). rewrite srest_mid. unfold zlen. rewrite Nat2Z.id, firstn_app, firstn_all, Nat.sub_diag. cbn [firstn]. now rewrite app_nil_r. Qed.
Lemma split_at_app_exact bs rest : split_at (length bs) (bs ++ rest) = Ok (bs, rest).
Proof.
  unfold split_at. rewrite app_length. assert (Nat.leb (length bs) (length bs + length rest) = true) as -> by (apply Nat.leb_le; lia).
  rewrite firstn_app, firstn_all, Nat.sub_diag, skipn_app, skipn_all, Nat.sub_diag. cbn [firstn skipn]. now rewrite app_nil_r.
Qed.

(* a reader/writer pair round-trips the values satisfying T *)
Definition rt (rd : rfn) (wr : wfn) (T : value -> Prop) : Prop :=
  forall v wpos bs, T v -> wr v wpos = Ok bs ->
    forall pre rest ctx, exists v', rd (pre ++ bs ++ rest) (zlen pre) ctx = Ok (v', zlen pre + zlen bs) /\ strip v' = strip v.

(* scalar values *)
Definition prim_val (p : prim) (v : value) : Prop :=
  match p, v with
  | PInt _ _ _, VInt _ => True
  | PFloat _, VFloat _ => True
  | PChar, VBytes [b] => 0 <= b < 256
  | PLeb _, VInt _ => True
  | PVoid, VVoid => True
  | _, _ => False
  end.

Lemma prim_rt e p : endian_ok e -> rt (fun s pos _ => prim_read_at e p s pos) (fun v _ => prim_write e p v) (prim_val p).
Proof.
  intros He v wpos bs Hv Hw pre rest ctx. unfold prim_read_at. rewrite srest_mid.
  assert (Fin : forall x, prim_read e p (bs ++ rest) = Ok (x, rest) -> strip x = strip v ->
            exists v', (do x0 <- prim_read e p (bs ++ rest); Ok (fst x0, zlen pre + (zlen (bs ++ rest) - zlen (snd x0)))) = Ok (v', zlen pre + zlen bs) /\ strip v' = strip v).
  { intros x E Hx. rewrite E. cbn [bind fst snd]. exists x. split; [|exact Hx]. f_equal. f_equal. unfold zlen. rewrite app_length. lia. }
  destruct p as [k sg pk|k| | |sg|]; destruct v as [z|bits|cs|cps| |vs|fs sz|b fs]; cbn [prim_val] in Hv; try (now destruct Hv); cbn [prim_write] in Hw.
  - destruct (int_roundtrip _ _ _ _ _ (He (PInt k sg pk)) Hw) as [Hl [_ Hd]]. apply (Fin (VInt z)); [|reflexivity].
    subst k. cbn [prim_read]. rewrite split_at_app_exact. cbn [bind]. now rewrite Hd.
  - destruct (int_roundtrip _ _ _ _ _ (He (PFloat k)) Hw) as [Hl [_ Hd]]. apply (Fin (VFloat bits)); [|reflexivity].
    subst k. cbn [prim_read]. rewrite split_at_app_exact. cbn [bind]. now rewrite Hd.
  - destruct cs as [|b [|b2 t]]; try (now destruct Hv). injection Hw as <-. apply (Fin (VBytes [b])); reflexivity.
  - apply (Fin (VInt z)); [|reflexivity]. cbn [prim_read]. destruct sg; [rewrite (ileb_roundtrip _ _ rest Hw)|rewrite (uleb_roundtrip _ _ rest Hw)]; reflexivity.
  - injection Hw as <-. apply (Fin VVoid); reflexivity.
Qed.

(* ---------- sequences ---------- *)
Lemma seq_n_rt rd wr T : rt rd wr T -> forall vs wpos bs, Forall T vs -> wseq wr vs wpos = Ok bs ->
  forall pre rest ctx, exists vs', seq_n rd (length vs) (pre ++ bs ++ rest) (zlen pre) ctx = Ok (vs', zlen pre + zlen bs) /\ map strip vs' = map strip vs.
Proof.
  intros Hrt. induction vs as [|v vs IH]; intros wpos bs HT Hw pre rest ctx; cbn [wseq] in Hw.
  - injection Hw as <-. exists []. cbn [length seq_n]. split; [|reflexivity]. f_equal. f_equal. unfold zlen. cbn [length]. lia.
  - inversion HT as [|? ? Hv HTs]; subst. destruct (wr v wpos) as [a|] eqn:Ea; [|discriminate]. cbn [bind] in Hw.
    destruct (wseq wr vs (wpos + zlen a)) as [b|] eqn:Eb; [|discriminate]. cbn [bind] in Hw. injection Hw as <-.
    destruct (Hrt v wpos a Hv Ea pre (b ++ rest) ctx) as [v' [R1 S1]].
    destruct (IH _ _ HTs Eb (pre ++ a) rest ctx) as [vs' [R2 S2]].
    exists (v' :: vs'). cbn [length seq_n]. rewrite <- app_assoc. rewrite R1. cbn [bind fst snd].
    replace (zlen pre + zlen a) with (zlen (pre ++ a)) by (unfold zlen; rewrite app_length; lia).
    replace (pre ++ a ++ b ++ rest) with ((pre ++ a) ++ b ++ rest) by now rewrite <- app_assoc.
    rewrite R2. cbn [bind fst snd]. split; [|cbn [map]; now rewrite S1, S2]. f_equal. f_equal. unfold zlen. rewrite !app_length. lia.
Qed.

Lemma map_strip_VList a b : map strip a = map strip b -> strip (VList a) = strip (VList b).
Proof. intros H. cbn [strip]. now rewrite H. Qed.

Section VRT.
  Variable c : cfg.
  Hypothesis He : endian_ok (c_endian c).

  Definition max_index : Z := 9223372036854775807.
  (* fixed counts the model reads without its safety bounds (stream.read(n) needs an index-sized n; the element loop is capped at
     len + 65 iterations, which only zero-size elements can exceed) *)
  Definition count_ok (el : ty) (n : Z) : bool :=
    match el with
    | TPrim PChar _ => n <=? max_index
    | _ => match ty_size c el with
           | Some sz => (n * sz <=? max_index) && ((n <=? 65) || (1 <=? sz))
           | None => n <=? 65
           end
    end.
  Fixpoint rt_ty (t : ty) : bool :=
    match t with
    | TPrim p _ => match p with PWchar => false | _ => true end
    | TEnum b _ _ _ => match b with PInt _ _ _ => true | _ => false end
    | TPtr _ => match c_ptr c with PInt _ _ _ => true | _ => false end
    | TArr el (LFixed n) => rt_ty el && count_ok el n && match el with TPrim PWchar _ => false | _ => true end
    | TArr _ _ => false
    | TStruct _ fs _ =>
      (fix go (fs : list field) : bool := match fs with [] => true | Fld _ _ t _ _ :: r => rt_ty t && go r end) fs
      && nodupb (map f_name fs)
    | TUnion _ _ _ => false
    end.
  Lemma rt_go fs : (fix go (fs : list field) : bool := match fs with [] => true | Fld _ _ t _ _ :: r => rt_ty t && go r end) fs = true ->
    Forall (fun f => rt_ty (f_ty f) = true) fs.
  Proof. induction fs as [|[nm an t b o] r IH]; intros H; [constructor|]. apply andb_prop in H as [H1 H2]. constructor; [exact H1|now apply IH]. Qed.

  (* typed values *)
  Fixpoint has_ty (t : ty) (v : value) {struct t} : Prop :=
    match t with
    | TPrim p _ => prim_val p v
    | TEnum b _ _ _ => prim_val b v
    | TPtr _ => prim_val (c_ptr c) v
    | TArr el (LFixed n) =>
      match el with
      | TPrim PChar _ => exists bs, v = VBytes bs /\ zlen bs = n
      | _ => exists vs, v = VList vs /\ Z.of_nat (length vs) = n /\ Forall (has_ty el) vs
      end
    | TArr _ _ => False
    | TStruct _ fs _ =>
      exists vals sizes, v = VStruct vals sizes /\ map fst vals = map f_name fs /\
        (fix go (fs : list field) : Prop :=
           match fs with [] => True | Fld n _ ft _ _ :: r => (exists x, lookup_field n vals = Some x /\ has_ty ft x) /\ go r end) fs
    | TUnion _ _ _ => False
    end.
  Lemma has_go vals fs :
    (fix go (fs : list field) : Prop :=
       match fs with [] => True | Fld n _ ft _ _ :: r => (exists x, lookup_field n vals = Some x /\ has_ty ft x) /\ go r end) fs ->
    Forall (fun f => exists x, lookup_field (f_name f) vals = Some x /\ has_ty (f_ty f) x) fs.
  Proof. induction fs as [|[nm an t b o] r IH]; intros H; [constructor|]. destruct H as [H1 H2]. constructor; [exact H1|now apply IH]. Qed.

  (* n sequential element reads are what a counted array returns, whichever path the element class takes *)
  Lemma read_count_of_seq fuel el n s pos ctx l p : not_text el = true -> 0 <= pos -> 0 <= n ->
    (forall sz, ty_size c el = Some sz -> n * sz <= max_index) -> n <= zlen (srest s pos) + 65 ->
    seq_n (read_ty c fuel el) (Z.to_nat n) s pos ctx = Ok (l, p) ->
    read_count c fuel el (read_ty c fuel el) n s pos ctx = Ok (VList l, p).
  Proof.
    intros Ht H0 Hn Hb Hcap H.
    assert (Gen : (do r <- seq_n (read_ty c fuel el) (Z.to_nat (Z.min n (zlen (srest s pos) + 65))) s pos ctx; if zlen (srest s pos) + 65 <? n then Err EOutOfFuel else Ok (VList (fst r), snd r)) = Ok (VList l, p)).
    { replace (Z.min n (zlen (srest s pos) + 65)) with n by lia. rewrite H. cbn [bind fst snd]. destruct (Z.ltb_spec (zlen (srest s pos) + 65) n); [lia|reflexivity]. }
    assert (Pk : forall p0 sz, fixed_scalar p0 = Some sz -> ty_size c el = Some (Z.of_nat sz) -> read_ty c fuel el = (fun s pos _ => prim_read_at (c_endian c) p0 s pos) ->
                 wrap_list (packed_read_n c p0 n s pos) = Ok (VList l, p)).
    { intros p0 sz Hp0 Hsz Erd. rewrite (bulk_is_sequential c p0 sz Hp0 n s pos ctx H0 Hn); [|specialize (Hb _ Hsz); unfold max_index in Hb; lia].
      rewrite Erd in H. rewrite H. reflexivity. }
    unfold read_count.
    destruct el as [p0 al|b al ms fl|t0|t0 l0|nm fs al|nm fs al]; try exact Gen.
    - destruct p0 as [sz sg [|]|sz| | |sg|]; try exact Gen; try discriminate.
      + now apply (Pk (PInt sz sg true) sz).
      + now apply (Pk (PFloat sz) sz).
    - destruct b as [sz sg [|]|sz| | |sg|]; try exact Gen. now apply (Pk (PInt sz sg true) sz).
  Qed.

  Lemma array_rt_char fuel al n : 0 <= n -> n <= max_index ->
    rt (read_array c fuel (TPrim PChar al) (read_ty c fuel (TPrim PChar al)) (LFixed n)) (write_array c (TPrim PChar al) (write_ty c (TPrim PChar al)) (LFixed n))
       (fun v => exists bs, v = VBytes bs /\ zlen bs = n).
  Proof.
    intros Hn Hc v wpos bs [cs [-> Hl]] Hwr pre rest ctx. unfold read_array. replace (Z.max 0 n) with n by lia.
    unfold write_array in Hwr. injection Hwr as <-.
    exists (VBytes cs). split; [|reflexivity]. unfold read_count. destruct (Z.eqb_spec n 0) as [Ez|Ez].
    - assert (cs = []) as -> by (destruct cs; [reflexivity|unfold zlen in Hl; cbn [length] in Hl; lia]). f_equal. f_equal. unfold zlen. cbn [length]. lia.
    - unfold sread_exact. destruct (Z.ltb_spec 9223372036854775807 n) as [L|L]; [unfold max_index in Hc; lia|]. rewrite srest_mid.
      assert (n <=? zlen (cs ++ rest) = true) as -> by (unfold zlen in *; rewrite app_length; lia). cbn [bind]. rewrite <- Hl, sread_mid. reflexivity.
  Qed.

  Lemma write_array_list el n vs wpos bs : not_text el = true ->
    write_array c el (write_ty c el) (LFixed n) (VList vs) wpos = Ok bs -> wseq (write_ty c el) vs wpos = Ok bs.
  Proof.
    intros Ent Hwr. rewrite <- write_list_is_wseq.
    assert (E : write_array c el (write_ty c el) (LFixed n) (VList vs) wpos =
                match ty_size c el with Some _ => if n =? Z.of_nat (length vs) then write_list c el (write_ty c el) vs wpos else Err EArraySize | None => write_list c el (write_ty c el) vs wpos end).
    { unfold write_array. destruct el as [[sz sg pk|sz| | |sg|] al|b al ms fl|t0|t0 l0|nm fs al|nm fs al]; try reflexivity; discriminate. }
    rewrite E in Hwr. destruct (ty_size c el); [destruct (n =? Z.of_nat (length vs)); [exact Hwr|discriminate]|exact Hwr].
  Qed.

  Lemma count_ok_list el n : not_text el = true -> count_ok el n = true ->
    match ty_size c el with Some sz => n * sz <= max_index /\ (n <= 65 \/ 1 <= sz) | None => n <= 65 end.
  Proof.
    intros Ent Hc.
    assert (E : count_ok el n = match ty_size c el with Some sz => (n * sz <=? max_index) && ((n <=? 65) || (1 <=? sz)) | None => n <=? 65 end).
    { unfold count_ok. destruct el as [[sz sg pk|sz| | |sg|] al|b al ms fl|t0|t0 l0|nm fs al|nm fs al]; try reflexivity; discriminate. }
    rewrite E in Hc. destruct (ty_size c el); [|lia]. apply andb_prop in Hc as [H1 H2]. apply orb_prop in H2. split; [lia|]. destruct H2; [left|right]; lia.
  Qed.

  Lemma array_rt_list fuel el n : rt (read_ty c fuel el) (write_ty c el) (has_ty el) -> flat el = true -> not_text el = true ->
    0 <= n -> count_ok el n = true ->
    rt (read_array c fuel el (read_ty c fuel el) (LFixed n)) (write_array c el (write_ty c el) (LFixed n))
       (fun v => exists vs, v = VList vs /\ Z.of_nat (length vs) = n /\ Forall (has_ty el) vs).
  Proof.
    intros Hel Hfl Ent Hn Hc v wpos bs [vs [-> [Hl HT]]] Hwr pre rest ctx. unfold read_array. replace (Z.max 0 n) with n by lia.
    pose proof (zlen_nonneg pre) as Hpre.
    pose proof (write_array_list el n vs wpos bs Ent Hwr) as Hwl.
    destruct (seq_n_rt _ _ _ Hel vs wpos bs HT Hwl pre rest ctx) as [vs' [Sq St]].
    exists (VList vs'). split; [|now apply map_strip_VList].
    assert (Hk : Z.to_nat n = length vs) by lia.
    pose proof (count_ok_list el n Ent Hc) as Hc'.
    apply read_count_of_seq; [exact Ent|lia|exact Hn| | |now rewrite Hk].
    - intros sz Hsz. rewrite Hsz in Hc'. lia.
    - rewrite srest_mid. unfold zlen at 1. rewrite app_length.
      destruct (ty_size c el) as [sz|] eqn:Esz; [destruct Hc' as [_ [Hc'|Hc']]|]; try lia.
      pose proof (seq_n_consumes _ sz (read_consumes_size c fuel el Hfl sz Esz) _ _ _ _ _ _ Sq) as Hp. rewrite Hl in Hp. assert (Hb : zlen bs = n * sz) by lia. unfold zlen in Hb. rewrite Nat2Z.inj_add, Hb. pose proof (Zle_0_nat (length rest)). nia.
  Qed.

  Lemma has_ty_arr el n v : has_ty (TArr el (LFixed n)) v ->
    match el with
    | TPrim PChar _ => exists bs, v = VBytes bs /\ zlen bs = n
    | _ => exists vs, v = VList vs /\ Z.of_nat (length vs) = n /\ Forall (has_ty el) vs
    end.
  Proof. intros H. exact H. Qed.

  Lemma array_rt fuel el n : rt (read_ty c fuel el) (write_ty c el) (has_ty el) -> flat el = true ->
    0 <= n -> count_ok el n = true -> (match el with TPrim PWchar _ => false | _ => true end) = true ->
    rt (read_array c fuel el (read_ty c fuel el) (LFixed n)) (write_array c el (write_ty c el) (LFixed n)) (has_ty (TArr el (LFixed n))).
  Proof.
    intros Hel Hfl Hn Hc Hw v wpos bs Hv. apply has_ty_arr in Hv.
    destruct (not_text el) eqn:Ent.
    - apply (array_rt_list fuel el n Hel Hfl Ent Hn Hc).
      destruct el as [[sz sg pk|sz| | |sg|] al|b al ms fl|t0|t0 l0|nm fs al|nm fs al]; try exact Hv; discriminate.
    - destruct el as [[sz sg pk|sz| | |sg|] al|b al ms fl|t0|t0 l0|nm fs al|nm fs al]; try discriminate.
      apply (array_rt_char fuel al n Hn); [|exact Hv]. unfold count_ok in Hc. lia.
  Qed.

  (* ---------- packed structures of plain fields ---------- *)
  Definition expect (vals_all : list (string * value)) (f : field) : value :=
    match lookup_field (f_name f) vals_all with Some x => x | None => VVoid end.

  Lemma struct_rt_loop (R : field -> rfn) (W : field -> wfn) (T : field -> value -> Prop) : forall fs,
    Forall (fun f => f_bits f = None /\ rt (R f) (W f) (T f) /\ (forall n, ty_size c (f_ty f) = Some n -> consumes (R f) n)) fs ->
    forall off offs, offs_agree c off fs offs ->
    forall vals_all wstart out out' wb',
      Forall (fun f => exists x, lookup_field (f_name f) vals_all = Some x /\ T f x) fs ->
      (forall x, off = Some x -> zlen out = x) ->
      wstruct_loop c false wstart vals_all (map (fun f => (wmeta_of c f, W f)) fs) offs out wb_empty = Ok (out', wb') ->
      exists chunk, out' = out ++ chunk /\ wb' = wb_empty /\
        forall pre rest start bb vals sizes lctx, (forall x, off = Some x -> zlen pre = start + x) ->
          exists news sz' , struct_loop (c_endian c) false start (map (fun f => (meta_of c f, R f)) fs) offs (pre ++ chunk ++ rest) (zlen pre) bb vals sizes lctx
                            = Ok (rev vals ++ news, sz', zlen pre + zlen chunk)
                          /\ strip_fields news = map (fun f => (f_name f, strip (expect vals_all f))) fs.
  Proof.
    induction 1 as [|f r [Hb [Hrt Hc]] Hr IH]; intros off offs Ha vals_all wstart out out' wb' HT Hout Hw.
    - destruct offs; [|destruct Ha]. cbn [map wstruct_loop] in Hw. injection Hw as <- <-. exists []. rewrite app_nil_r. split; [reflexivity|]. split; [reflexivity|].
      intros pre rest start bb vals sizes lctx _. exists [], (rev sizes). cbn [map struct_loop app]. rewrite app_nil_r. split; [|reflexivity].
      f_equal. f_equal. unfold zlen. cbn [length]. lia.
    - destruct offs as [|o ro]; [destruct Ha|]. destruct Ha as [-> Ha]. inversion HT as [|? ? [x [Hlk Hx]] HTr]; subst.
      cbn [map wstruct_loop] in Hw. cbn [wmeta_of wm_bits wm_name wm_storage wm_align wm_isprim wm_default wb_type wb_empty bind] in Hw.
      rewrite Hb, Hlk in Hw.
      assert (P1 : match off with Some fo => if wstart + zlen (out ++ []) <? wstart + fo then zeros (wstart + fo - (wstart + zlen (out ++ []))) else [] | None => [] end = []).
      { destruct off as [x0|]; [|reflexivity]. rewrite app_nil_r, (Hout x0 eq_refl). now rewrite Z.ltb_irrefl. }
      rewrite P1 in Hw. assert (P2 : match off with None => [] | Some _ => [] end = (@nil Z)) by now destruct off. rewrite P2 in Hw. cbn [app] in Hw. rewrite !app_nil_r in Hw.
      destruct (W f x (wstart + zlen out)) as [bs|] eqn:Ew; [|discriminate]. cbn [bind] in Hw.
      (* size of this field's bytes, when it has a declared size *)
      assert (Hsz : forall n, ty_size c (f_ty f) = Some n -> zlen bs = n).
      { intros n Hn. destruct (Hrt x _ bs Hx Ew [] [] []) as [v' [Rd _]]. apply (Hc n Hn) in Rd. unfold zlen in *. cbn [length] in Rd. lia. }
      destruct (IH _ _ Ha vals_all wstart (out ++ bs) out' wb' HTr) as [chunk [-> [-> Rd]]]; [| exact Hw |].
      { intros y Ey. destruct off as [x0|]; [|discriminate]. destruct (ty_size c (f_ty f)) as [n|] eqn:En; [|discriminate]. injection Ey as <-.
        unfold zlen in *. rewrite app_length, Nat2Z.inj_add, (Hout x0 eq_refl). rewrite <- (Hsz n eq_refl). reflexivity. }
      exists (bs ++ chunk). rewrite app_assoc. split; [reflexivity|]. split; [reflexivity|].
      intros pre rest start bb vals sizes lctx Hpre. cbn [map struct_loop]. cbn [meta_of fm_bits fm_name]. rewrite Hb.
      assert (E1 : match off with Some fo => start + fo | None => zlen pre end = zlen pre) by (destruct off as [x0|]; [symmetry; now apply Hpre|reflexivity]).
      rewrite E1. rewrite <- app_assoc. destruct (Hrt x _ bs Hx Ew pre (chunk ++ rest) lctx) as [v' [Rf Sf]]. rewrite Rf. cbn [bind fst snd].
      replace (zlen pre + zlen bs) with (zlen (pre ++ bs)) by (unfold zlen; rewrite app_length; lia).
      replace (pre ++ bs ++ chunk ++ rest) with ((pre ++ bs) ++ chunk ++ rest) by now rewrite <- app_assoc.
      destruct (Rd (pre ++ bs) rest start bb_empty ((f_name f, v') :: vals) ((f_name f, zlen (pre ++ bs) - zlen pre) :: sizes) (int_ctx (f_name f) v' lctx)) as [news [sz' [Rl Sl]]].
      { intros y Ey. destruct off as [x0|]; [|discriminate]. destruct (ty_size c (f_ty f)) as [n|] eqn:En; [|discriminate]. injection Ey as <-.
        unfold zlen in *. rewrite app_length, Nat2Z.inj_add, (Hpre x0 eq_refl). rewrite <- (Hsz n eq_refl). lia. }
      rewrite Rl. exists ((f_name f, v') :: news), sz'. cbn [rev]. rewrite <- app_assoc. split.
      + f_equal. f_equal. unfold zlen. rewrite !app_length. lia.
      + cbn [strip_fields map fst snd]. fold (strip_fields news). rewrite Sl. unfold expect at 2. rewrite Hlk, Sf. reflexivity.
  Qed.

  Lemma expect_all (g : value -> value) : forall fs vals, map fst vals = map f_name fs -> NoDup (map fst vals) ->
    map (fun f => (f_name f, g (expect vals f))) fs = map (fun kv => (fst kv, g (snd kv))) vals.
  Proof.
    induction fs as [|f r IH]; intros vals Hn Hnd; destruct vals as [|[k x] rv]; try discriminate; [reflexivity|].
    cbn [map fst] in Hn. injection Hn as Hk Hr. cbn [map fst snd]. cbn [map fst] in Hnd. inversion Hnd as [|? ? Hnk Hnd']; subst.
    f_equal.
    - unfold expect. cbn [lookup_field]. now rewrite String.eqb_refl.
    - rewrite <- (IH rv Hr Hnd'). apply map_ext_in. intros f0 Hin. f_equal. f_equal. unfold expect. cbn [lookup_field].
      destruct (String.eqb_spec (f_name f0) (f_name f)) as [E|E]; [|reflexivity]. exfalso. apply Hnk. rewrite Hr, <- E. now apply in_map.
  Qed.

  Theorem parse_dump_identity fuel : forall t, flat t = true -> rt_ty t = true -> rt (read_ty c fuel t) (write_ty c t) (has_ty t).
  Proof.
    induction t as [p al|b al fl ms|t IH|el len IH|nm fs al IH|nm fs al IH] using ty_ind'; intros Hfl Hrt; try discriminate.
    - cbn [read_ty write_ty has_ty]. exact (prim_rt _ p He).
    - cbn [read_ty write_ty has_ty]. exact (prim_rt _ b He).
    - cbn [read_ty write_ty has_ty]. exact (prim_rt _ (c_ptr c) He).
    - cbn [flat] in Hfl. apply andb_prop in Hfl as [Hfl Hlen]. cbn [rt_ty] in Hrt. destruct len as [n|toks ise|]; try discriminate.
      apply andb_prop in Hrt as [Hrt Hw]. apply andb_prop in Hrt as [Hrt Hc].
      cbn [read_ty write_ty]. apply array_rt; [now apply IH|exact Hfl|lia|exact Hc|exact Hw].
    - apply flat_struct in Hfl as [-> Hfs]. cbn [rt_ty] in Hrt. apply andb_prop in Hrt as [Hgo Hnd]. apply rt_go in Hgo. apply nodupb_NoDup in Hnd.
      intros v wpos bs Hv Hw pre rest ctx. cbn [has_ty] in Hv. destruct Hv as [vals [sizes [-> [Hnames Hvals]]]]. apply has_go in Hvals.
      cbn [write_ty] in Hw. cbn [read_ty].
      destruct (layout_struct c false fs) as [lay|] eqn:EL; [|discriminate].
      assert (Hag : offs_agree c (Some 0) fs (l_offs lay)).
      { unfold layout_struct in EL. destruct (layout_go c false fs _) as [[offs st']|] eqn:EG; [|discriminate]. cbn [bind fst snd] in EL. injection EL as <-. cbn [l_offs].
        refine (layout_go_agree c fs _ _ _ _ EG). rewrite Forall_forall in *. intros f Hin. destruct (Hfs f Hin) as [_ [A B]]. now split. }
      assert (Hitems : Forall (fun f => f_bits f = None /\ rt (read_ty c fuel (f_ty f)) (write_ty c (f_ty f)) (has_ty (f_ty f)) /\ (forall n, ty_size c (f_ty f) = Some n -> consumes (read_ty c fuel (f_ty f)) n)) fs).
      { rewrite Forall_forall in *. intros f Hin. destruct (Hfs f Hin) as [Hff [Hb _]]. split; [exact Hb|]. split; [apply IH; [exact Hin|exact Hff|now apply Hgo]|].
        intros n Hn. exact (read_consumes_size c fuel (f_ty f) Hff n Hn). }
      destruct (wstruct_loop c false wpos vals _ (l_offs lay) [] wb_empty) as [[out wb]|] eqn:EW; [|discriminate]. cbn [bind] in Hw.
      destruct (struct_rt_loop (fun f => read_ty c fuel (f_ty f)) (fun f => write_ty c (f_ty f)) (fun f => has_ty (f_ty f)) fs Hitems _ _ Hag vals wpos [] out wb Hvals
                  ltac:(intros x Hx; injection Hx as <-; reflexivity) EW) as [chunk [-> [-> Rd]]].
      cbn [wb_flush wb_type wb_empty bind app] in Hw. rewrite app_nil_r in Hw. injection Hw as <-.
      destruct (Rd pre rest (zlen pre) bb_empty [] [] [] ltac:(intros x Hx; injection Hx as <-; lia)) as [news [sz' [Rl Sl]]].
      unfold rfn in *. rewrite Rl. cbn [bind rev app]. exists (VStruct news sz'). split; [reflexivity|].
      rewrite !strip_struct. f_equal. rewrite Sl. rewrite <- Hnames in Hnd. exact (expect_all strip fs vals Hnames Hnd).
  Qed.
End VRT.

(* at the public entry points: T(dumps(v) + anything) is v, consuming len(dumps(v)) bytes *)
Lemma read_top_dumps c : endian_ok (c_endian c) -> forall t, flat t = true -> rt_ty c t = true ->
  forall v bs rest, has_ty c t v -> dumps c t v = Ok bs ->
    exists v', read_top c t (bs ++ rest) 0 = Ok (v', zlen bs) /\ strip v' = strip v.
Proof.
  intros He t Hfl Hrt v bs rest Hv Hd. unfold read_top, dumps in *.
  destruct (parse_dump_identity c He (S (S (length (bs ++ rest)))) t Hfl Hrt v 0 bs Hv Hd [] rest []) as [v' [R S]]. exists v'. split; [|exact S]. exact R.
Qed.
