(* ValueRoundTripDyn.v — value round trip (C01) for structures whose array counts are EXPRESSIONS over earlier fields
   (length-prefixed data): the typing of a value threads the expression context through the fields, as the reader does. *)
From Coq Require Import Lia.
From VF Require Import Model.Writer Proofs.TyInd Proofs.CodecCorrect Proofs.LayoutCorrect Proofs.ReaderProps Proofs.ArrayProps Proofs.SizeProps Proofs.RoundTrip Proofs.ValueRoundTrip.
Open Scope string_scope. Open Scope list_scope. Open Scope Z_scope.

Definition ctxt := list (string * Z).
(* a reader/writer pair round-trips the values typed under the context the reader runs in *)
Definition rtc (rd : rfn) (wr : wfn) (T : ctxt -> value -> Prop) : Prop :=
  forall ctx v wpos bs, T ctx v -> wr v wpos = Ok bs ->
    forall pre rest, exists v', rd (pre ++ bs ++ rest) (zlen pre) ctx = Ok (v', zlen pre + zlen bs) /\ strip v' = strip v.
Lemma rt_rtc rd wr T : rt rd wr T -> rtc rd wr (fun _ => T).
Proof. intros H ctx v wpos bs Hv Hw pre rest. exact (H v wpos bs Hv Hw pre rest ctx). Qed.

Lemma int_ctx_strip n a b l : strip a = strip b -> int_ctx n a l = int_ctx n b l.
Proof. destruct a, b; cbn [strip]; intros H; try discriminate; try reflexivity; injection H as ->; reflexivity. Qed.

Lemma seq_n_rtc rd wr T ctx : rtc rd wr T -> forall vs wpos bs, Forall (T ctx) vs -> wseq wr vs wpos = Ok bs ->
  forall pre rest, exists vs', seq_n rd (length vs) (pre ++ bs ++ rest) (zlen pre) ctx = Ok (vs', zlen pre + zlen bs) /\ map strip vs' = map strip vs.
Proof.
  intros Hrt. induction vs as [|v vs IH]; intros wpos bs HT Hw pre rest; cbn [wseq] in Hw.
  - injection Hw as <-. exists []. cbn [length seq_n]. split; [|reflexivity]. f_equal. f_equal. unfold zlen. cbn [length]. lia.
  - inversion HT as [|? ? Hv HTs]; subst. destruct (wr v wpos) as [a|] eqn:Ea; [|discriminate]. cbn [bind] in Hw.
    destruct (wseq wr vs (wpos + zlen a)) as [b|] eqn:Eb; [|discriminate]. cbn [bind] in Hw. injection Hw as <-.
    destruct (Hrt ctx v wpos a Hv Ea pre (b ++ rest)) as [v' [R1 S1]].
    destruct (IH _ _ HTs Eb (pre ++ a) rest) as [vs' [R2 S2]].
    exists (v' :: vs'). cbn [length seq_n]. rewrite <- app_assoc. rewrite R1. cbn [bind fst snd].
    replace (zlen pre + zlen a) with (zlen (pre ++ a)) by (unfold zlen; rewrite app_length; lia).
    replace (pre ++ a ++ b ++ rest) with ((pre ++ a) ++ b ++ rest) by now rewrite <- app_assoc.
    rewrite R2. cbn [bind fst snd]. split; [|cbn [map]; now rewrite S1, S2]. f_equal. f_equal. unfold zlen. rewrite !app_length. lia.
Qed.

Section Dyn.
  Variable c : cfg.
  Hypothesis He : endian_ok (c_endian c).

  (* the count an array length form denotes under a context *)
  Definition count_of (len : alen) (ctx : ctxt) : option Z :=
    match len with LFixed n => Some n | LExpr toks false => eval_len c ctx toks | _ => None end.

  Fixpoint dyn_ty (t : ty) : bool :=
    match t with
    | TPrim p _ => match p with PWchar => false | _ => true end
    | TEnum b _ _ _ => match b with PInt _ _ _ => true | _ => false end
    | TPtr _ => match c_ptr c with PInt _ _ _ => true | _ => false end
    | TArr el len => dyn_ty el && match len with LFixed _ | LExpr _ false => true | _ => false end && match el with TPrim PWchar _ => false | _ => true end
    | TStruct _ fs _ =>
      (fix go (fs : list field) : bool := match fs with [] => true | Fld _ _ t _ _ :: r => dyn_ty t && go r end) fs
      && nodupb (map f_name fs)
    | TUnion _ _ _ => false
    end.
  Lemma dyn_go fs : (fix go (fs : list field) : bool := match fs with [] => true | Fld _ _ t _ _ :: r => dyn_ty t && go r end) fs = true ->
    Forall (fun f => dyn_ty (f_ty f) = true) fs.
  Proof. induction fs as [|[nm an t b o] r IH]; intros H; [constructor|]. apply andb_prop in H as [H1 H2]. constructor; [exact H1|now apply IH]. Qed.

  (* typed values, under the context in which the reader will meet them *)
  Fixpoint has_tyc (t : ty) (ctx : ctxt) (v : value) {struct t} : Prop :=
    match t with
    | TPrim p _ => prim_val p v
    | TEnum b _ _ _ => prim_val b v
    | TPtr _ => prim_val (c_ptr c) v
    | TArr el len =>
      match el with
      | TPrim PChar _ => exists bs, v = VBytes bs /\ count_of len ctx = Some (zlen bs) /\ zlen bs <= max_index
      | _ => exists vs, v = VList vs /\ count_of len ctx = Some (Z.of_nat (length vs)) /\ count_ok c el (Z.of_nat (length vs)) = true /\ Forall (has_tyc el ctx) vs
      end
    | TStruct _ fs _ =>
      exists vals sizes, v = VStruct vals sizes /\ map fst vals = map f_name fs /\
        (fix go (fs : list field) (cx : ctxt) : Prop :=
           match fs with
           | [] => True
           | Fld n _ ft _ _ :: r => match lookup_field n vals with Some x => has_tyc ft cx x /\ go r (int_ctx n x cx) | None => False end
           end) fs []
    | TUnion _ _ _ => False
    end.

  Fixpoint typed_fields (T : field -> ctxt -> value -> Prop) (vals : list (string * value)) (fs : list field) (cx : ctxt) : Prop :=
    match fs with
    | [] => True
    | f :: r => match lookup_field (f_name f) vals with Some x => T f cx x /\ typed_fields T vals r (int_ctx (f_name f) x cx) | None => False end
    end.
  Lemma has_go vals : forall fs cx,
    (fix go (fs : list field) (cx : ctxt) : Prop :=
       match fs with
       | [] => True
       | Fld n _ ft _ _ :: r => match lookup_field n vals with Some x => has_tyc ft cx x /\ go r (int_ctx n x cx) | None => False end
       end) fs cx -> typed_fields (fun f => has_tyc (f_ty f)) vals fs cx.
  Proof.
    induction fs as [|[nm an t b o] r IH]; intros cx H; [exact I|]. cbn [typed_fields f_name f_ty].
    destruct (lookup_field nm vals) as [x|]; [|exact H]. destruct H as [H1 H2]. split; [exact H1|now apply IH].
  Qed.

  (* ---------- arrays ---------- *)
  Lemma array_rtc fuel el len : rtc (read_ty c fuel el) (write_ty c el) (has_tyc el) -> flat el = true ->
    (match len with LFixed _ | LExpr _ false => true | _ => false end) = true -> (match el with TPrim PWchar _ => false | _ => true end) = true ->
    rtc (read_array c fuel el (read_ty c fuel el) len) (write_array c el (write_ty c el) len) (has_tyc (TArr el len)).
  Proof.
    intros Hel Hfl Hlen Hw ctx v wpos bs Hv Hwr pre rest.
    pose proof (zlen_nonneg pre) as Hpre.
    (* the reader takes max(0, count) elements; the count is the value's length *)
    assert (RA : forall k, count_of len ctx = Some k -> 0 <= k ->
              read_array c fuel el (read_ty c fuel el) len (pre ++ bs ++ rest) (zlen pre) ctx
              = read_count c fuel el (read_ty c fuel el) k (pre ++ bs ++ rest) (zlen pre) ctx).
    { intros k Hk H0. unfold read_array. destruct len as [n|toks [|]|]; try discriminate; cbn [count_of] in Hk.
      - injection Hk as ->. now replace (Z.max 0 k) with k by lia.
      - rewrite Hk. now replace (Z.max 0 k) with k by lia. }
    assert (WA : forall vs, write_array c el (write_ty c el) len (VList vs) wpos = Ok bs -> not_text el = true ->
              (match len with LFixed n => n = Z.of_nat (length vs) | _ => True end) -> wseq (write_ty c el) vs wpos = Ok bs).
    { intros vs Hwv Ent Hn. destruct len as [n|toks [|]|]; try discriminate.
      - exact (write_array_list c el n vs wpos bs Ent Hwv).
      - rewrite <- write_list_is_wseq. unfold write_array in Hwv.
        destruct el as [[sz sg pk|sz| | |sg|] al|b al ms fl|t0|t0 l0|nm fs al|nm fs al]; try discriminate; exact Hwv. }
    destruct (not_text el) eqn:Ent.
    2:{ destruct el as [[sz sg pk|sz| | |sg|] al|b al ms fl|t0|t0 l0|nm fs al|nm fs al]; try discriminate. clear Hw Hel Ent WA.
        cbn [has_tyc] in Hv. destruct Hv as [cs [-> [Hk Hmax]]]. pose proof (zlen_nonneg cs) as Hcs.
        assert (Hbs : bs = cs) by (unfold write_array in Hwr; destruct len as [n|toks [|]|]; try discriminate; now injection Hwr). subst bs.
        rewrite (RA _ Hk Hcs). exists (VBytes cs). split; [|reflexivity]. cbn [read_count]. destruct (Z.eqb_spec (zlen cs) 0) as [Ez|Ez].
        - assert (cs = []) as -> by (destruct cs; [reflexivity|unfold zlen in Ez; cbn [length] in Ez; lia]). f_equal. f_equal. unfold zlen. cbn [length]. lia.
        - unfold sread_exact. destruct (Z.ltb_spec 9223372036854775807 (zlen cs)) as [L|L]; [unfold max_index in Hmax; lia|]. rewrite srest_mid.
          assert (zlen cs <=? zlen (cs ++ rest) = true) as -> by (unfold zlen in *; rewrite app_length; lia). cbn [bind]. rewrite sread_mid. reflexivity. }
    assert (Hv' : exists vs, v = VList vs /\ count_of len ctx = Some (Z.of_nat (length vs)) /\ count_ok c el (Z.of_nat (length vs)) = true /\ Forall (has_tyc el ctx) vs).
    { cbn [has_tyc] in Hv. destruct el as [[sz sg pk|sz| | |sg|] al|b al ms fl|t0|t0 l0|nm fs al|nm fs al]; try exact Hv; discriminate. }
    destruct Hv' as [vs [-> [Hk [Hc HT]]]].
    assert (Hwl : wseq (write_ty c el) vs wpos = Ok bs).
    { apply WA; [exact Hwr|reflexivity|]. destruct len as [n|toks ise|]; [|exact I|exact I]. cbn [count_of] in Hk. now injection Hk. }
    destruct (seq_n_rtc _ _ _ ctx Hel vs wpos bs HT Hwl pre rest) as [vs' [Sq St]].
    exists (VList vs'). split; [|now apply map_strip_VList].
    set (n := Z.of_nat (length vs)) in *. assert (Hn : 0 <= n) by lia. rewrite (RA n Hk Hn).
    assert (Hk' : Z.to_nat n = length vs) by lia.
    pose proof (count_ok_list c el n Ent Hc) as Hc'.
    apply read_count_of_seq; [exact Ent|lia|exact Hn| | |now rewrite Hk'].
    - intros sz Hsz. rewrite Hsz in Hc'. lia.
    - rewrite srest_mid. unfold zlen at 1. rewrite app_length.
      destruct (ty_size c el) as [sz|] eqn:Esz; [destruct Hc' as [_ [Hc'|Hc']]|]; try lia.
      pose proof (seq_n_consumes _ sz (read_consumes_size c fuel el Hfl sz Esz) _ _ _ _ _ _ Sq) as Hp. fold n in Hp. assert (Hb : zlen bs = n * sz) by lia.
      unfold zlen in Hb. rewrite Nat2Z.inj_add, Hb. pose proof (Zle_0_nat (length rest)). nia.
  Qed.

  (* ---------- packed structures of plain fields, the context threaded through the fields ---------- *)
  Lemma struct_rtc_loop (R : field -> rfn) (W : field -> wfn) (T : field -> ctxt -> value -> Prop) : forall fs,
    Forall (fun f => f_bits f = None /\ rtc (R f) (W f) (T f) /\ (forall n, ty_size c (f_ty f) = Some n -> consumes (R f) n)) fs ->
    forall off offs, offs_agree c off fs offs ->
    forall vals_all wstart out out' wb' cx,
      typed_fields T vals_all fs cx ->
      (forall x, off = Some x -> zlen out = x) ->
      wstruct_loop c false wstart vals_all (map (fun f => (wmeta_of c f, W f)) fs) offs out wb_empty = Ok (out', wb') ->
      exists chunk, out' = out ++ chunk /\ wb' = wb_empty /\
        forall pre rest start bb vals sizes, (forall x, off = Some x -> zlen pre = start + x) ->
          exists news sz' , struct_loop (c_endian c) false start (map (fun f => (meta_of c f, R f)) fs) offs (pre ++ chunk ++ rest) (zlen pre) bb vals sizes cx
                            = Ok (rev vals ++ news, sz', zlen pre + zlen chunk)
                          /\ strip_fields news = map (fun f => (f_name f, strip (expect vals_all f))) fs.
  Proof.
    induction 1 as [|f r [Hb [Hrt Hc]] Hr IH]; intros off offs Ha vals_all wstart out out' wb' cx HT Hout Hw.
    - destruct offs; [|destruct Ha]. cbn [map wstruct_loop] in Hw. injection Hw as <- <-. exists []. rewrite app_nil_r. split; [reflexivity|]. split; [reflexivity|].
      intros pre rest start bb vals sizes _. exists [], (rev sizes). cbn [map struct_loop app]. rewrite app_nil_r. split; [|reflexivity].
      f_equal. f_equal. unfold zlen. cbn [length]. lia.
    - destruct offs as [|o ro]; [destruct Ha|]. destruct Ha as [-> Ha]. cbn [typed_fields] in HT.
      destruct (lookup_field (f_name f) vals_all) as [x|] eqn:Hlk; [|destruct HT]. destruct HT as [Hx HTr].
      cbn [map wstruct_loop] in Hw. cbn [wmeta_of wm_bits wm_name wm_storage wm_align wm_isprim wm_default wb_type wb_empty bind] in Hw.
      rewrite Hb, Hlk in Hw.
      assert (P1 : match off with Some fo => if wstart + zlen (out ++ []) <? wstart + fo then zeros (wstart + fo - (wstart + zlen (out ++ []))) else [] | None => [] end = []).
      { destruct off as [x0|]; [|reflexivity]. rewrite app_nil_r, (Hout x0 eq_refl). now rewrite Z.ltb_irrefl. }
      rewrite P1 in Hw. assert (P2 : match off with None => [] | Some _ => [] end = (@nil Z)) by now destruct off. rewrite P2 in Hw. cbn [app] in Hw. rewrite !app_nil_r in Hw.
      destruct (W f x (wstart + zlen out)) as [bs|] eqn:Ew; [|discriminate]. cbn [bind] in Hw.
      assert (Hsz : forall n, ty_size c (f_ty f) = Some n -> zlen bs = n).
      { intros n Hn. destruct (Hrt cx x _ bs Hx Ew [] []) as [v' [Rd _]]. apply (Hc n Hn) in Rd. unfold zlen in *. cbn [length] in Rd. lia. }
      destruct (IH _ _ Ha vals_all wstart (out ++ bs) out' wb' _ HTr) as [chunk [-> [-> Rd]]]; [| exact Hw |].
      { intros y Ey. destruct off as [x0|]; [|discriminate]. destruct (ty_size c (f_ty f)) as [n|] eqn:En; [|discriminate]. injection Ey as <-.
        unfold zlen in *. rewrite app_length, Nat2Z.inj_add, (Hout x0 eq_refl). rewrite <- (Hsz n eq_refl). reflexivity. }
      exists (bs ++ chunk). rewrite app_assoc. split; [reflexivity|]. split; [reflexivity|].
      intros pre rest start bb vals sizes Hpre. cbn [map struct_loop]. cbn [meta_of fm_bits fm_name]. rewrite Hb.
      assert (E1 : match off with Some fo => start + fo | None => zlen pre end = zlen pre) by (destruct off as [x0|]; [symmetry; now apply Hpre|reflexivity]).
      rewrite E1. rewrite <- app_assoc. destruct (Hrt cx x _ bs Hx Ew pre (chunk ++ rest)) as [v' [Rf Sf]]. rewrite Rf. cbn [bind fst snd].
      rewrite (int_ctx_strip (f_name f) v' x cx Sf).
      replace (zlen pre + zlen bs) with (zlen (pre ++ bs)) by (unfold zlen; rewrite app_length; lia).
      replace (pre ++ bs ++ chunk ++ rest) with ((pre ++ bs) ++ chunk ++ rest) by now rewrite <- app_assoc.
      destruct (Rd (pre ++ bs) rest start bb_empty ((f_name f, v') :: vals) ((f_name f, zlen (pre ++ bs) - zlen pre) :: sizes)) as [news [sz' [Rl Sl]]].
      { intros y Ey. destruct off as [x0|]; [|discriminate]. destruct (ty_size c (f_ty f)) as [n|] eqn:En; [|discriminate]. injection Ey as <-.
        unfold zlen in *. rewrite app_length, Nat2Z.inj_add, (Hpre x0 eq_refl). rewrite <- (Hsz n eq_refl). lia. }
      rewrite Rl. exists ((f_name f, v') :: news), sz'. cbn [rev]. rewrite <- app_assoc. split.
      + f_equal. f_equal. unfold zlen. rewrite !app_length. lia.
      + cbn [strip_fields map fst snd]. fold (strip_fields news). rewrite Sl. unfold expect at 2. rewrite Hlk, Sf. reflexivity.
  Qed.

  Theorem parse_dump_identity_dyn fuel : forall t, flat t = true -> dyn_ty t = true -> rtc (read_ty c fuel t) (write_ty c t) (has_tyc t).
  Proof.
    induction t as [p al|b al fl ms|t IH|el len IH|nm fs al IH|nm fs al IH] using ty_ind'; intros Hfl Hrt; try discriminate.
    - cbn [read_ty write_ty has_tyc]. exact (rt_rtc _ _ _ (prim_rt _ p He)).
    - cbn [read_ty write_ty has_tyc]. exact (rt_rtc _ _ _ (prim_rt _ b He)).
    - cbn [read_ty write_ty has_tyc]. exact (rt_rtc _ _ _ (prim_rt _ (c_ptr c) He)).
    - cbn [flat] in Hfl. apply andb_prop in Hfl as [Hfl _]. cbn [dyn_ty] in Hrt. apply andb_prop in Hrt as [Hrt Hw]. apply andb_prop in Hrt as [Hrt Hlen].
      cbn [read_ty write_ty]. apply array_rtc; [now apply IH|exact Hfl|exact Hlen|exact Hw].
    - apply flat_struct in Hfl as [-> Hfs]. cbn [dyn_ty] in Hrt. apply andb_prop in Hrt as [Hgo Hnd]. apply dyn_go in Hgo. apply nodupb_NoDup in Hnd.
      intros ctx v wpos bs Hv Hw pre rest. cbn [has_tyc] in Hv. destruct Hv as [vals [sizes [-> [Hnames Hvals]]]]. apply has_go in Hvals.
      cbn [write_ty] in Hw. cbn [read_ty].
      destruct (layout_struct c false fs) as [lay|] eqn:EL; [|discriminate].
      assert (Hag : offs_agree c (Some 0) fs (l_offs lay)).
      { unfold layout_struct in EL. destruct (layout_go c false fs _) as [[offs st']|] eqn:EG; [|discriminate]. cbn [bind fst snd] in EL. injection EL as <-. cbn [l_offs].
        refine (layout_go_agree c fs _ _ _ _ EG). rewrite Forall_forall in *. intros f Hin. destruct (Hfs f Hin) as [_ [A B]]. now split. }
      assert (Hitems : Forall (fun f => f_bits f = None /\ rtc (read_ty c fuel (f_ty f)) (write_ty c (f_ty f)) (has_tyc (f_ty f)) /\ (forall n, ty_size c (f_ty f) = Some n -> consumes (read_ty c fuel (f_ty f)) n)) fs).
      { rewrite Forall_forall in *. intros f Hin. destruct (Hfs f Hin) as [Hff [Hb _]]. split; [exact Hb|]. split; [apply IH; [exact Hin|exact Hff|now apply Hgo]|].
        intros n Hn. exact (read_consumes_size c fuel (f_ty f) Hff n Hn). }
      destruct (wstruct_loop c false wpos vals _ (l_offs lay) [] wb_empty) as [[out wb]|] eqn:EW; [|discriminate]. cbn [bind] in Hw.
      destruct (struct_rtc_loop (fun f => read_ty c fuel (f_ty f)) (fun f => write_ty c (f_ty f)) (fun f => has_tyc (f_ty f)) fs Hitems _ _ Hag vals wpos [] out wb [] Hvals
                  ltac:(intros x Hx; injection Hx as <-; reflexivity) EW) as [chunk [-> [-> Rd]]].
      cbn [wb_flush wb_type wb_empty bind app] in Hw. rewrite app_nil_r in Hw. injection Hw as <-.
      destruct (Rd pre rest (zlen pre) bb_empty [] [] ltac:(intros x Hx; injection Hx as <-; lia)) as [news [sz' [Rl Sl]]].
      unfold rfn in *. rewrite Rl. cbn [bind rev app]. exists (VStruct news sz'). split; [reflexivity|].
      rewrite !strip_struct. f_equal. rewrite Sl. rewrite <- Hnames in Hnd. exact (expect_all strip fs vals Hnames Hnd).
  Qed.
End Dyn.
