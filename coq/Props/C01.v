(* C01 — value round-trip. (theorems added by Proofs/RoundTrip.v) *)
From VF Require Import Model.Writer Proofs.CodecCorrect Gen.GeneratedOk.
