(* C01 — value round trip: parsing what was dumped gives the value back. *)
From Coq Require Import Lia.
From VF Require Import Model.Writer Proofs.CodecCorrect Proofs.SizeProps Proofs.RoundTrip Proofs.ValueRoundTrip Proofs.ValueRoundTripDyn Proofs.AlignedSize Proofs.AlignedRoundTrip Proofs.BitsCorrect Proofs.BitRun Proofs.BitStruct Proofs.BitMixed Model.Compiler Gen.GeneratedOk.
From VF Require Proofs.BitLayout.
From VF Require Proofs.CompilerProps Proofs.CompiledRoundTrip Proofs.CompilerGaps Proofs.CompilerStatic Proofs.CompiledAligned.
Open Scope string_scope. Open Scope list_scope. Open Scope Z_scope.

(* For every configuration with a proper byte order, every sequential type with fixed counts (`flat` and `rt_ty`: integers of every width
   and signedness, floats, chars, LEB128, void, enums, pointers, fixed arrays, packed structures of plain fields with distinct names, nested to
   any depth), every typed value v of it (`has_ty`), every output position:  if dumping v succeeds with bytes bs, then parsing bs — wherever
   it sits in a stream, whatever precedes and follows it, in every context and with every fuel — returns v (up to the recorded field sizes)
   and ends exactly |bs| bytes later. *)
Theorem value_round_trip : forall c, endian_ok (c_endian c) -> forall fuel t, flat t = true -> rt_ty c t = true ->
  forall v wpos bs, has_ty c t v -> write_ty c t v wpos = Ok bs ->
    forall pre rest ctx, exists v', read_ty c fuel t (pre ++ bs ++ rest) (zlen pre) ctx = Ok (v', zlen pre + zlen bs) /\ strip v' = strip v.
Proof. exact parse_dump_identity. Qed.
Theorem entry_point_round_trip : forall c, endian_ok (c_endian c) -> forall t, flat t = true -> rt_ty c t = true ->
  forall v bs rest, has_ty c t v -> dumps c t v = Ok bs ->
    exists v', read_top c t (bs ++ rest) 0 = Ok (v', zlen bs) /\ strip v' = strip v.
Proof. exact read_top_dumps. Qed.
(* The same for length-prefixed data: array counts that are EXPRESSIONS over earlier fields (x[n], x[k * 2], x[n - 1], also inside nested
   structures and as inner dimensions).  A value is typed under the expression context the reader will have when it meets it
   (`has_tyc`: for an array, the count expression evaluates - over the values of the fields before it - to the number of elements held). *)
Theorem value_round_trip_dynamic : forall c, endian_ok (c_endian c) -> forall fuel t, flat t = true -> dyn_ty c t = true ->
  forall ctx v wpos bs, has_tyc c t ctx v -> write_ty c t v wpos = Ok bs ->
    forall pre rest, exists v', read_ty c fuel t (pre ++ bs ++ rest) (zlen pre) ctx = Ok (v', zlen pre + zlen bs) /\ strip v' = strip v.
Proof. exact parse_dump_identity_dyn. Qed.
(* ALIGNED mode: for fixed-size types built from scalars, fixed arrays and aligned structures of plain fields with power-of-two alignments and
   at least one member (nested to any depth, arrays of them), dumped at a position that is a multiple of the type's alignment: parsing the dump
   at a position that is a multiple of that alignment gives the value back and consumes exactly the dump.  The padding the writer inserts
   between members and at the tail is exactly what the reader skips. *)
Theorem value_round_trip_aligned : forall c, endian_ok (c_endian c) -> forall fuel t, aflat c t = true -> rt_ty c t = true -> nonempty_structs t = true ->
  forall n, ty_size c t = Some n ->
  forall v wpos bs, has_ty c t v -> (req c t | wpos) -> write_ty c t v wpos = Ok bs ->
    forall pre rest ctx, (req c t | zlen pre) ->
      exists v', read_ty c fuel t (pre ++ bs ++ rest) (zlen pre) ctx = Ok (v', zlen pre + zlen bs) /\ strip v' = strip v.
Proof. exact parse_dump_identity_aligned. Qed.
(* Structures that MIX plain members (of the classes above, including expression-count arrays and nested structures) with runs of bit fields over
   unsigned storage units, in either byte order: the body is given as segments (`SPlain f` / `SRun k pk al run`; `fields_of` is the field list the
   library sees).  Runs start at static offsets, fit their unit and are separated by at least one plain member (`segs_ok`); values are typed
   with the expression context threaded through plain members and bit fields alike (`typed_segs`: bit-field values fit their widths).
   Through the real layout, BitBuffer.write with its flushes at unit ends / before plain members / at the end, and the structure reader:
   parsing the dump - anywhere in a stream - gives the values back and consumes exactly the dump. *)
Theorem mixed_bit_field_structure_round_trip : forall c, endian_ok (c_endian c) -> forall fuel nm segs,
  segs_ok c (Some 0) segs -> NoDup (map f_name (fields_of segs)) ->
  Forall (plain_ok c (fun f => read_ty c fuel (f_ty f)) (fun f => write_ty c (f_ty f)) (fun f => has_tyc c (f_ty f))) segs ->
  forall vals sizes wpos bs,
    typed_segs (fun f => has_tyc c (f_ty f)) vals segs [] -> map fst vals = map f_name (fields_of segs) ->
    write_ty c (TStruct nm (fields_of segs) false) (VStruct vals sizes) wpos = Ok bs ->
    forall pre rest ctx, exists v',
      read_ty c fuel (TStruct nm (fields_of segs) false) (pre ++ bs ++ rest) (zlen pre) ctx = Ok (v', zlen pre + zlen bs) /\ strip v' = strip (VStruct vals sizes).
Proof. exact mixed_struct_round_trip. Qed.
Theorem plain_members_of_the_earlier_classes_qualify : forall c, endian_ok (c_endian c) -> forall fuel f, flat (f_ty f) = true -> dyn_ty c (f_ty f) = true ->
  plain_ok c (fun f => read_ty c fuel (f_ty f)) (fun f => write_ty c (f_ty f)) (fun f => has_tyc c (f_ty f)) (SPlain f).
Proof. exact plain_ok_of_class. Qed.
(* ... and through the COMPILED reader (C03's theorem composed with value_round_trip_dynamic): for the structures the generator's plan is proved
   about (packed, parser-made, members = scalars, fixed arrays of scalars, sub-readers), parsing the dump with the generated statements gives
   the value back and consumes exactly the dump *)
Theorem compiled_value_round_trip : forall c, endian_ok (c_endian c) -> forall fuel nm fs p,
  Forall (fun f => f_off f = None /\ CompilerProps.cls' c fuel f) fs -> NoDup (map f_name fs) -> CompilerProps.bsize c fs <= 9223372036854775807 -> compile_plan c false fs = Ok p ->
  flat (TStruct nm fs false) = true -> dyn_ty c (TStruct nm fs false) = true ->
  forall v wpos bs, has_tyc c (TStruct nm fs false) [] v -> write_ty c (TStruct nm fs false) v wpos = Ok bs ->
    forall pre rest, exists v', read_compiled c fuel false fs (pre ++ bs ++ rest) (zlen pre) = Ok (v', zlen pre + zlen bs) /\ strip v' = strip v.
Proof. exact CompiledRoundTrip.compiled_parse_dump_identity. Qed.
(* ... and structures with bit fields mixed in, through the compiled reader *)
Theorem compiled_mixed_bit_field_structure_round_trip : forall c, endian_ok (c_endian c) -> forall fuel nm segs p,
  segs_ok c (Some 0) segs -> NoDup (map f_name (fields_of segs)) ->
  Forall (plain_ok c (fun f => read_ty c fuel (f_ty f)) (fun f => write_ty c (f_ty f)) (fun f => has_tyc c (f_ty f))) segs ->
  Forall (fun f => f_off f = None /\ CompilerProps.cls' c fuel f) (fields_of segs) -> CompilerProps.bsize c (fields_of segs) <= 9223372036854775807 ->
  compile_plan c false (fields_of segs) = Ok p ->
  forall vals sizes wpos bs,
    typed_segs (fun f => has_tyc c (f_ty f)) vals segs [] -> map fst vals = map f_name (fields_of segs) ->
    write_ty c (TStruct nm (fields_of segs) false) (VStruct vals sizes) wpos = Ok bs ->
    forall pre rest, exists v',
      read_compiled c fuel false (fields_of segs) (pre ++ bs ++ rest) (zlen pre) = Ok (v', zlen pre + zlen bs) /\ strip v' = strip (VStruct vals sizes).
Proof. exact CompiledRoundTrip.compiled_mixed_round_trip. Qed.
(* writing never alters a number: a value that does not fit the width is rejected, a value that fits decodes to itself *)
Theorem out_of_range_is_rejected : forall e n signed v, fits n signed v = false -> int_to_bytes e n signed v = Err ERange.
Proof. exact int_reject. Qed.
(* ... and a bit field: a value that is negative or needs more bits than the field has is never written - BitBuffer.write fails whatever the state
   of the unit, so it cannot change the bits of a neighbouring field *)
Theorem bit_field_value_that_does_not_fit_is_rejected : forall c wb storage data bits,
  (data < 0 \/ 2 ^ bits <= data) -> 0 <= bits -> exists er, wb_write c wb storage data bits = Err er.
Proof. exact BitLayout.bit_field_overflow_rejected. Qed.
Theorem in_range_is_exact : forall e n signed v bs, (e = LE \/ e = BE) ->
  int_to_bytes e n signed v = Ok bs -> length bs = n /\ Bytes bs /\ int_from_bytes e signed bs = v.
Proof. exact int_roundtrip. Qed.
Theorem leb128_round_trip : forall n bs rest, (leb_write false n = Ok bs -> leb_read false (bs ++ rest) = Ok (n, rest)).
Proof. exact uleb_roundtrip. Qed.
Theorem sleb128_round_trip : forall n bs rest, (leb_write true n = Ok bs -> leb_read true (bs ++ rest) = Ok (n, rest)).
Proof. exact ileb_roundtrip. Qed.

(* ... and ALIGNED structures with a static layout (scalars, nested structures and unions, arrays of them) through the compiled reader (one padded block and the seek over the tail padding) *)
Theorem compiled_aligned_value_round_trip : forall c, endian_ok (c_endian c) -> forall fuel nm fs p n,
  Forall (CompilerStatic.stcls c fuel true) fs -> NoDup (map f_name fs) -> CompiledAligned.size_fits c fs -> compile_plan c true fs = Ok p ->
  aflat c (TStruct nm fs true) = true -> rt_ty c (TStruct nm fs true) = true -> nonempty_structs (TStruct nm fs true) = true ->
  ty_size c (TStruct nm fs true) = Some n ->
  forall v wpos bs, has_ty c (TStruct nm fs true) v -> (req c (TStruct nm fs true) | wpos) -> write_ty c (TStruct nm fs true) v wpos = Ok bs ->
    forall pre rest, (req c (TStruct nm fs true) | zlen pre) ->
      exists v', read_compiled c fuel true fs (pre ++ bs ++ rest) (zlen pre) = Ok (v', zlen pre + zlen bs) /\ strip v' = strip v.
Proof. exact CompiledAligned.compiled_aligned_round_trip. Qed.

Print Assumptions compiled_aligned_value_round_trip.
Print Assumptions value_round_trip.
Print Assumptions entry_point_round_trip.
Print Assumptions value_round_trip_dynamic.
Print Assumptions value_round_trip_aligned.
Print Assumptions mixed_bit_field_structure_round_trip.
Print Assumptions compiled_value_round_trip.
Print Assumptions compiled_mixed_bit_field_structure_round_trip.
Print Assumptions out_of_range_is_rejected.
Print Assumptions bit_field_value_that_does_not_fit_is_rejected.

(* non-vacuity *)
Definition ex_cfg := mkCfg ">" (PInt 4 false true) 4 [] [].
Definition u8 := TPrim (PInt 1 false true) 1.
Definition ex_ty := TStruct "m" [Fld "a" false (TPrim (PInt 3 true false) 4) None None; Fld "l" false (TPrim (PLeb true) 1) None None;
                                 Fld "d" false (TArr (TPrim (PInt 2 true true) 2) (LFixed 2)) None None;
                                 Fld "s" false (TArr (TPrim PChar 1) (LFixed 3)) None None;
                                 Fld "in" false (TStruct "i" [Fld "p" false (TPtr u8) None None; Fld "f" false (TPrim (PFloat 4) 4) None None] false) None None;
                                 Fld "g" false (TArr (TArr (TPrim (PLeb false) 1) (LFixed 2)) (LFixed 2)) None None] false.
Definition ex_val := VStruct [("a", VInt (-70000)); ("l", VInt (-300)); ("d", VList [VInt (-2); VInt 515]); ("s", VBytes [104; 105; 0]);
                              ("in", VStruct [("p", VInt 4096); ("f", VFloat 1065353216)] []);
                              ("g", VList [VList [VInt 1; VInt 300]; VList [VInt 0; VInt 70000]])] [].
Example ex_class : flat ex_ty = true /\ rt_ty ex_cfg ex_ty = true.
Proof. vm_compute. split; reflexivity. Qed.
Example ex_typed : has_ty ex_cfg ex_ty ex_val.
Proof.
  cbn. eexists _, _. split; [reflexivity|]. split; [reflexivity|].
  repeat split; try (eexists; split; [reflexivity|]); cbn; try exact I.
  - eexists. split; [reflexivity|]. split; [reflexivity|]. repeat constructor.
  - eexists. split; reflexivity.
  - eexists _, _. split; [reflexivity|]. split; [reflexivity|]. repeat split; eexists; split; reflexivity || exact I.
  - eexists. split; [reflexivity|]. split; [reflexivity|]. repeat constructor; (eexists; split; [reflexivity|]; split; [reflexivity|]; repeat constructor).
Qed.
Example ex_run : exists bs, dumps ex_cfg ex_ty ex_val = Ok bs /\ zlen bs = 27 /\
  rvz_eqb (read_top ex_cfg ex_ty (bs ++ [9; 9]) 0) (Ok (VStruct [("a", VInt (-70000)); ("l", VInt (-300)); ("d", VList [VInt (-2); VInt 515]); ("s", VBytes [104; 105; 0]);
                              ("in", VStruct [("p", VInt 4096); ("f", VFloat 1065353216)] [("p", 4); ("f", 4)]);
                              ("g", VList [VList [VInt 1; VInt 300]; VList [VInt 0; VInt 70000]])] [("a", 3); ("l", 2); ("d", 4); ("s", 3); ("in", 8); ("g", 7)], 27)) = true.
Proof. eexists. split; [vm_compute; reflexivity|]. split; vm_compute; reflexivity. Qed.

(* non-vacuity of the dynamic theorem: counts n, k * 2, n - 1 and an inner count inside an array of structures *)
Definition exd_ty := TStruct "m" [Fld "n" false u8 None None; Fld "d" false (TArr (TPrim (PInt 2 true true) 2) (LExpr ["n"] false)) None None;
                                  Fld "k" false u8 None None; Fld "s" false (TArr (TPrim PChar 1) (LExpr ["k"; "*"; "2"] false)) None None;
                                  Fld "r" false (TArr (TStruct "i" [Fld "c" false u8 None None; Fld "v" false (TArr u8 (LExpr ["c"] false)) None None] false) (LExpr ["n"; "-"; "1"] false)) None None] false.
Definition exd_val := VStruct [("n", VInt 2); ("d", VList [VInt (-2); VInt 515]); ("k", VInt 1); ("s", VBytes [104; 105]);
                               ("r", VList [VStruct [("c", VInt 3); ("v", VList [VInt 7; VInt 8; VInt 9])] []])] [].
Example exd_class : flat exd_ty = true /\ dyn_ty ex_cfg exd_ty = true.
Proof. vm_compute. split; reflexivity. Qed.
Example exd_typed : has_tyc ex_cfg exd_ty [] exd_val.
Proof.
  cbn [has_tyc exd_ty exd_val]. eexists _, _. split; [reflexivity|]. split; [reflexivity|].
  cbn [lookup_field String.eqb Ascii.eqb Bool.eqb int_ctx has_tyc u8 prim_val].
  repeat split.
  - eexists. split; [reflexivity|]. split; [vm_compute; reflexivity|]. split; [vm_compute; reflexivity|]. repeat constructor.
  - eexists. split; [reflexivity|]. split; vm_compute; [reflexivity|discriminate].
  - eexists. split; [reflexivity|]. split; [vm_compute; reflexivity|]. split; [vm_compute; reflexivity|]. constructor; [|constructor].
    cbn [has_tyc]. eexists _, _. split; [reflexivity|]. split; [reflexivity|]. cbn [lookup_field String.eqb Ascii.eqb Bool.eqb int_ctx has_tyc u8 prim_val]. repeat split.
    eexists. split; [reflexivity|]. split; [vm_compute; reflexivity|]. split; [vm_compute; reflexivity|]. repeat constructor.
Qed.
Example exd_run : exists bs, dumps ex_cfg exd_ty exd_val = Ok bs /\ zlen bs = 12 /\
  rvz_eqb (read_top ex_cfg exd_ty (bs ++ [9; 9]) 0)
          (Ok (VStruct [("n", VInt 2); ("d", VList [VInt (-2); VInt 515]); ("k", VInt 1); ("s", VBytes [104; 105]);
                        ("r", VList [VStruct [("c", VInt 3); ("v", VList [VInt 7; VInt 8; VInt 9])] [("c", 1); ("v", 3)]])] [("n", 1); ("d", 4); ("k", 1); ("s", 2); ("r", 4)], 12)) = true.
Proof. eexists. split; [vm_compute; reflexivity|]. split; vm_compute; reflexivity. Qed.

(* non-vacuity of the aligned theorem: struct { uint8 a; uint32 b; struct { uint8 x; uint64 y; } in[2]; uint16 t; } aligned *)
Definition exa_in := TStruct "i" [Fld "x" false u8 None None; Fld "y" false (TPrim (PInt 8 false true) 8) None None] true.
Definition exa_ty := TStruct "m" [Fld "a" false u8 None None; Fld "b" false (TPrim (PInt 4 false true) 4) None None;
                                  Fld "in" false (TArr exa_in (LFixed 2)) None None; Fld "t" false (TPrim (PInt 2 false true) 2) None None] true.
Definition exa_val := VStruct [("a", VInt 1); ("b", VInt 2); ("in", VList [VStruct [("x", VInt 3); ("y", VInt 4)] []; VStruct [("x", VInt 5); ("y", VInt 6)] []]); ("t", VInt 7)] [].
Example exa_class : aflat ex_cfg exa_ty = true /\ rt_ty ex_cfg exa_ty = true /\ nonempty_structs exa_ty = true /\ ty_size ex_cfg exa_ty = Some 48 /\ req ex_cfg exa_ty = 8.
Proof. vm_compute. repeat split. Qed.
Example exa_run : exists bs, dumps ex_cfg exa_ty exa_val = Ok bs /\ zlen bs = 48 /\
  match read_top ex_cfg exa_ty ([9; 9; 9; 9; 9; 9; 9; 9] ++ bs ++ [1]) 8 with Ok (v, p) => p = 56 /\ strip v = strip exa_val | Err _ => False end.
Proof. eexists. split; [vm_compute; reflexivity|]. split; [vm_compute; reflexivity|]. vm_compute. split; reflexivity. Qed.

(* non-vacuity of the mixed theorem: uint8 n; uint16 a:3; uint16 b:9; uint8 t; uint32 c:12; uint32 e:20; uint8 d[n];  (big endian) *)
Definition exm_segs := [SPlain (Fld "n" false u8 None None); SRun 2 true 2 [("a", 3); ("b", 9)];
                        SPlain (Fld "t" false u8 None None); SRun 4 true 4 [("c", 12); ("e", 20)]; SPlain (Fld "d" false (TArr u8 (LExpr ["n"] false)) None None)].
Definition exm_ty := TStruct "m" (fields_of exm_segs) false.
Definition exm_val := VStruct [("n", VInt 2); ("a", VInt 5); ("b", VInt 300); ("t", VInt 9); ("c", VInt 4095); ("e", VInt 70000); ("d", VList [VInt 7; VInt 8])] [].
Example exm_ok : segs_ok ex_cfg (Some 0) exm_segs.
Proof.
  cbn. repeat split; try discriminate; try lia; repeat constructor; try lia.
  eexists. split; [reflexivity|]. cbn. repeat split; try discriminate; try lia; repeat constructor; try lia.
  eexists. split; [reflexivity|]. cbn. repeat split; try discriminate; try lia; repeat constructor; try lia.
Qed.
Example exm_run : exists bs, dumps ex_cfg exm_ty exm_val = Ok bs /\ zlen bs = 10 /\
  match read_top ex_cfg exm_ty ([9] ++ bs ++ [1; 2]) 1 with Ok (v, p) => p = 11 /\ strip v = strip exm_val | Err _ => False end.
Proof. eexists. split; [vm_compute; reflexivity|]. split; [vm_compute; reflexivity|]. vm_compute. split; reflexivity. Qed.
Example exm_compiled : Forall (fun f => f_off f = None /\ CompilerProps.cls' ex_cfg 50 f) (fields_of exm_segs) /\ (exists p, compile_plan ex_cfg false (fields_of exm_segs) = Ok p) /\
  exists bs, dumps ex_cfg exm_ty exm_val = Ok bs /\ match read_compiled ex_cfg 50 false (fields_of exm_segs) ([9] ++ bs ++ [1; 2]) 1 with Ok (v, p) => p = 11 /\ strip v = strip exm_val | Err _ => False end.
Proof.
  split; [|split].
  - repeat (apply Forall_cons; [split; [reflexivity|];
        first [ left; split; [reflexivity|]; left; vm_compute; discriminate
              | left; split; [reflexivity|]; right; split; [reflexivity|]; apply CompilerProps.sub_ok_of_shift; [vm_compute; reflexivity|intros n H; vm_compute in H; try discriminate; injection H as <-; lia]
              | right; do 4 eexists; repeat split; try reflexivity; try discriminate ]|]).
    apply Forall_nil.
  - eexists. vm_compute. reflexivity.
  - eexists. split; [vm_compute; reflexivity|]. vm_compute. split; reflexivity.
Qed.

(* non-vacuity of the compiled aligned theorems: struct N { uint8 x; uint32 y; }; struct { uint8 a; N n; uint16 b; N arr[2]; char d[3]; uint8 m[2][2]; uint64 q; } aligned *)
Definition exca_cfg := mkCfg "<" (PInt 8 false true) 8 [] [].
Definition exca_N := TStruct "N" [Fld "x" false (TPrim (PInt 1 false true) 1) None None; Fld "y" false (TPrim (PInt 4 false true) 4) None None] true.
Definition exca_fs := [Fld "a" false (TPrim (PInt 1 false true) 1) None None; Fld "n" false exca_N None None; Fld "b" false (TPrim (PInt 2 false true) 2) None None;
                      Fld "arr" false (TArr exca_N (LFixed 2)) None None; Fld "d" false (TArr (TPrim PChar 1) (LFixed 3)) None None;
                      Fld "m" false (TArr (TArr (TPrim (PInt 1 false true) 1) (LFixed 2)) (LFixed 2)) None None; Fld "q" false (TPrim (PInt 8 false true) 8) None None].
Example exca_class : Forall (CompilerStatic.stcls exca_cfg 50 true) exca_fs /\ NoDup (map f_name exca_fs) /\ CompiledAligned.size_fits exca_cfg exca_fs /\ (exists p, compile_plan exca_cfg true exca_fs = Ok p) /\ aflat exca_cfg (TStruct "m" exca_fs true) = true /\ rt_ty exca_cfg (TStruct "m" exca_fs true) = true /\ nonempty_structs (TStruct "m" exca_fs true) = true.
Proof.
  split; [|split; [|split; [|split]]].
  - repeat (apply Forall_cons; [split; [reflexivity|]; split; [split; [reflexivity|];
        first [ left; split; [vm_compute; discriminate|vm_compute; split; [reflexivity|discriminate]]
              | right; split; [reflexivity|]; split; [reflexivity|]; split; [apply CompilerProps.sub_ok_of_shift; [vm_compute; reflexivity|intros n H; vm_compute in H; injection H as <-; lia]|eexists; vm_compute; reflexivity] ]
        | intros _; vm_compute; discriminate]|]).
    apply Forall_nil.
  - cbn. repeat constructor; cbn; intuition discriminate.
  - intros lay n H. vm_compute in H. injection H as <-. cbn [l_size]. intros H. injection H as <-. lia.
  - eexists. vm_compute. reflexivity.
  - repeat split; vm_compute; reflexivity.
Qed.
