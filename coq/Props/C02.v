(* C02 — byte fidelity: parse-then-dump reproduces the bytes the parse consumed. *)
From VF Require Import Model.Writer Proofs.CodecCorrect Proofs.SizeProps Proofs.RoundTrip Proofs.BitsCorrect Proofs.BitRun Proofs.BitStruct Proofs.BitFidelity Model.Compiler Proofs.CompilerProps Proofs.CompiledRoundTrip Gen.GeneratedOk.
Open Scope string_scope. Open Scope list_scope. Open Scope Z_scope.

(* For every configuration with a proper byte order, every sequential type (`flat`: scalars, enums, pointers, arrays of all four length
   forms, packed structures of plain fields, nested to any depth) whose encodings are unique (`fid_ty`: no wchar, no LEB128, null-terminated
   arrays over integers/characters, distinct field names), every stream of bytes, every position and context, every fuel:
   if the parse succeeds with value v at end position p then
     - the bytes from pos to p exist (p - pos of them), and
     - dumping v — at whatever output position — yields exactly those bytes.
   So the dump has as many bytes as the parse consumed and equals the input on all of them (these types have no padding and no
   unassigned bits, so nothing is exempt). *)
Theorem parse_then_dump_is_identity : forall c, endian_ok (c_endian c) -> forall fuel t, flat t = true -> fid_ty c t = true ->
  forall s pos ctx v p, Bytes s -> 0 <= pos -> read_ty c fuel t s pos ctx = Ok (v, p) ->
    (pos <= p /\ zlen (sread s pos (p - pos)) = p - pos) /\ forall wpos, write_ty c t v wpos = Ok (sread s pos (p - pos)).
Proof. intros c He fuel t Hfl Hfi s pos ctx v p. exact (dump_parse_identity c He fuel t Hfl Hfi s pos ctx v p). Qed.
(* the same through the COMPILED reader (composed with C03's theorem): what the generated statements parsed dumps to exactly the bytes they consumed *)
Theorem compiled_parse_then_dump_is_identity : forall c, endian_ok (c_endian c) -> forall fuel nm fs p,
  Forall (fun f => f_off f = None /\ cls' c fuel f) fs -> NoDup (map f_name fs) -> bsize c fs <= 9223372036854775807 -> compile_plan c false fs = Ok p ->
  flat (TStruct nm fs false) = true -> fid_ty c (TStruct nm fs false) = true ->
  forall s pos v q, Bytes s -> 0 <= pos -> read_compiled c fuel false fs s pos = Ok (v, q) ->
    (pos <= q /\ zlen (sread s pos (q - pos)) = q - pos) /\ forall wpos, write_ty c (TStruct nm fs false) v wpos = Ok (sread s pos (q - pos)).
Proof. exact compiled_dump_parse_identity. Qed.
(* at the public entry points: dumps(T(data)) is the consumed prefix of data *)
Theorem dumps_of_parsed : forall c, endian_ok (c_endian c) -> forall t, flat t = true -> fid_ty c t = true ->
  forall s v p, Bytes s -> read_top c t s 0 = Ok (v, p) -> dumps c t v = Ok (firstn (Z.to_nat p) s) /\ p <= zlen s.
Proof. exact dumps_read_top. Qed.
(* Bit fields: "only bit-field bits not assigned to any field may differ, and they are written as zero".  For a structure made of one run of
   bit fields over an unsigned unit of k bytes, parsed from ANY stream at any position (u = the unit's integer as the storage type decodes it):
   dumping the parsed value writes, through the storage type, exactly u with the unassigned bits cleared -
   little endian: the bits above the fields (u mod 2^(sum of widths)); big endian: the bits below them. *)
Theorem bit_fields_dump_of_parsed_little : forall c k pk al nm n w run fuel s pos ctx v q wpos,
  String.eqb (c_endian c) "<" = true -> endian_ok (c_endian c) -> (0 < k)%nat -> NoDup (map fst ((n, w) :: run)) ->
  widths_ok (w :: map snd run) -> w + total (map snd run) <= Z.of_nat k * 8 ->
  read_ty c fuel (TStruct nm (run_fields (PInt k false pk) al ((n, w) :: run)) false) s pos ctx = Ok (v, q) ->
  exists u, prim_read_at (c_endian c) (PInt k false pk) s pos = Ok (VInt u, q) /\
    write_ty c (TStruct nm (run_fields (PInt k false pk) al ((n, w) :: run)) false) v wpos
    = int_to_bytes (prim_endian (PInt k false pk) (c_endian c)) k false (u mod 2 ^ (w + total (map snd run))).
Proof. exact bit_struct_fidelity_le. Qed.
Theorem bit_fields_dump_of_parsed_big : forall c k pk al nm n w run fuel s pos ctx v q wpos,
  String.eqb (c_endian c) "<" = false -> endian_ok (c_endian c) -> (0 < k)%nat -> NoDup (map fst ((n, w) :: run)) ->
  widths_ok (w :: map snd run) -> w + total (map snd run) <= Z.of_nat k * 8 ->
  read_ty c fuel (TStruct nm (run_fields (PInt k false pk) al ((n, w) :: run)) false) s pos ctx = Ok (v, q) ->
  exists u, prim_read_at (c_endian c) (PInt k false pk) s pos = Ok (VInt u, q) /\
    write_ty c (TStruct nm (run_fields (PInt k false pk) al ((n, w) :: run)) false) v wpos
    = int_to_bytes (prim_endian (PInt k false pk) (c_endian c)) k false
        (u mod 2 ^ (Z.of_nat k * 8) - u mod 2 ^ (Z.of_nat k * 8 - (w + total (map snd run)))).
Proof. exact bit_struct_fidelity_be. Qed.

(* the scalar codecs underneath *)
Theorem int_decode_then_encode : forall e signed bs, (e = LE \/ e = BE) -> Bytes bs ->
  int_to_bytes e (length bs) signed (int_from_bytes e signed bs) = Ok bs.
Proof. exact int_bytes_roundtrip. Qed.

Print Assumptions parse_then_dump_is_identity.
Print Assumptions compiled_parse_then_dump_is_identity.
Print Assumptions dumps_of_parsed.
Print Assumptions bit_fields_dump_of_parsed_little.
Print Assumptions bit_fields_dump_of_parsed_big.

(* non-vacuity: a length-prefixed record with a nested structure, a null-terminated string and a to-end-of-stream tail *)
Definition ex_cfg := mkCfg "<" (PInt 8 false true) 8 [] [].
Definition u8 := TPrim (PInt 1 false true) 1.
Definition ex_ty := TStruct "m" [Fld "n" false u8 None None; Fld "d" false (TArr (TPrim (PInt 2 true true) 2) (LExpr ["n"] false)) None None;
                                 Fld "s" false (TArr (TPrim PChar 1) LNull) None None;
                                 Fld "in" false (TStruct "i" [Fld "x" false (TPrim (PInt 3 true false) 4) None None; Fld "f" false (TPrim (PFloat 4) 4) None None] false) None None;
                                 Fld "z" false (TArr (TPrim (PInt 2 false false) 2) LNull) None None;
                                 Fld "tail" false (TArr u8 (LExpr ["EOF"] true)) None None] false.
Example ex_endian : endian_ok "<" /\ endian_ok ">".
Proof. split; intros [n sg [|]|n| | |sg|]; vm_compute; auto. Qed.
Example ex_class : flat ex_ty = true /\ fid_ty ex_cfg ex_ty = true.
Proof. vm_compute. split; reflexivity. Qed.
Example ex_run : let s := [2; 1; 0; 254; 255; 104; 105; 0; 1; 2; 3; 0; 0; 128; 63; 7; 0; 0; 0; 9; 8; 7] in
  exists v, read_top ex_cfg ex_ty s 0 = Ok (v, 22) /\ dumps ex_cfg ex_ty v = Ok s.
Proof. eexists. split; [vm_compute; reflexivity|]. vm_compute. reflexivity. Qed.

(* bit fields: uint16 a:3; uint16 b:9 leaves the top four bits of the little-endian unit unassigned: 0xFFFF comes back as 0x0FFF *)
Definition exb_ty := TStruct "m" (run_fields (PInt 2 false true) 2 [("a", 3); ("b", 9)]) false.
Example exb_run : exists v, read_top ex_cfg exb_ty [255; 255; 7] 0 = Ok (v, 2) /\ dumps ex_cfg exb_ty v = Ok [255; 15].
Proof. eexists. split; [vm_compute; reflexivity|]. vm_compute. reflexivity. Qed.
