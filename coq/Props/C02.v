(* C02 — byte fidelity. (theorems added by Proofs/RoundTrip.v) *)
From VF Require Import Model.Writer Proofs.CodecCorrect Gen.GeneratedOk.
