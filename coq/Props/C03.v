(* C03 — the compiled reader is observationally equivalent to the interpreted reader. *)
From Coq Require Import Lia.
From VF Require Import Model.Reader Model.Writer Model.Compiler Proofs.ArrayProps Proofs.BlockProps Proofs.ShiftProps Proofs.CompilerProps Proofs.CompilerGaps Proofs.CompilerStatic Proofs.CompilerAligned Gen.GeneratedOk.
Open Scope string_scope. Open Scope list_scope. Open Scope Z_scope.

(* The source generator of compiler.py is modelled in Model/Compiler.v: a PLAN (seek / align / reset / sub-reader / bit-field / block instructions)
   produced by a transcription of _generate_fields, _generate_struct_info, _optimize_struct_fmt and _generate_packed, and the meaning of a plan
   (run_instrs).  On every run the plan of the model is compared with the instructions parsed out of the source text the real generator emits,
   and read_compiled with the real compiled reader (vf/props/C03.py).  The theorems at the end of this file relate the plan to the interpreted
   structure loop.  First, the soundness of the strategy the generated code uses: a run of fixed-size scalar members is read with one stream read and one struct.unpack of the concatenated
   format, and that gives exactly the values, the end position and the error of reading the members one by one, as the interpreted
   structure loop does — for every run of members, every stream and every position. *)
Theorem block_unpack_is_fieldwise : forall e ps s pos, Forall (fun p => fixed_scalar p <> None) ps -> 0 <= pos ->
  Z.of_nat (fmt_size ps) <= 9223372036854775807 -> block_read e ps s pos = fieldwise e ps s pos.
Proof. exact block_is_fieldwise. Qed.
Theorem fieldwise_is_the_interpreted_loop : forall e start (fs : list (string * prim)) s pos bb vals sizes lctx,
  loop_obs (struct_loop e false start
              (map (fun np => (mkFM (fst np) None (Some (snd np, 1)) 1, (fun s pos _ => prim_read_at e (snd np) s pos) : rfn)) fs)
              (map (fun _ => None) fs) s pos bb vals sizes lctx)
  = do r <- fieldwise e (map snd fs) s pos; Ok (map snd (rev vals) ++ fst r, snd r).
Proof. exact struct_loop_scalars. Qed.
(* HOWEVER the generator groups consecutive scalar members into blocks (the grouping depends on offsets, alignment and neighbouring members),
   reading block after block is reading the members one by one *)
Theorem any_grouping_into_blocks_is_fieldwise : forall e blocks s pos,
  Forall (fun b => Forall (fun p => fixed_scalar p <> None) b /\ Z.of_nat (fmt_size b) <= 9223372036854775807) blocks -> 0 <= pos ->
  blocks_read e blocks s pos = fieldwise e (List.concat blocks) s pos.
Proof. exact any_blocking_is_fieldwise. Qed.
(* the same for arrays of packed scalars (Packed._read_array, also used by the generated code) *)
Theorem array_unpack_is_elementwise : forall c p sz, fixed_scalar p = Some sz -> forall n s pos ctx,
  0 <= pos -> 0 <= n -> Z.of_nat sz * n <= 9223372036854775807 ->
  packed_read_n c p n s pos = seq_n (fun s pos _ => prim_read_at (c_endian c) p s pos) (Z.to_nat n) s pos ctx.
Proof. exact bulk_is_sequential. Qed.

(* ---- the generator itself ---- *)
(* _optimize_struct_fmt only respells the format: the same characters in the same order *)
Theorem format_optimisation_keeps_the_format : forall info, Forall (fun x : Z * fc => 0 <= fst x) info -> expand (optimize_fmt info) = expand info.
Proof. exact expand_optimize. Qed.
(* a generated block over scalar members of ANY kind (packed and byte-sliced integers, floats, char, wchar, enums, pointers) and fixed-size arrays
   of them (`bmem`: char[n], wchar[n], uint32[n], int24[n], enum and pointer arrays): one stream.read of the block size, one struct.unpack of the optimised format, members taken from the tuple by index or sliced out of the buffer and parsed -
   is reading the members one after the other from the stream: same values, recorded sizes, expression context and end position, and it
   fails iff that fails (EOFError for a short block where the member-wise reader fails at the first member that does not fit) *)
Theorem generated_block_reads_memberwise : forall c fuel B i, inclass c B ->
  contig c (match B with f :: _ => f_off f | [] => None end) B -> gen_block c false B = Ok i -> bsize c B <= 9223372036854775807 ->
  forall s o al st, 0 <= p_pos st ->
    req (run_instr c (fun f => read_ty c fuel (f_ty f)) s o al i st) (do r <- seq_block c fuel B s (p_pos st) st; Ok (set_pos (fst r) (snd r))).
Proof. exact block_sound. Qed.
(* THE PROPERTY for packed structures as the parser makes them (no set offsets) whose members are scalars of any kind, bit fields over integer and enum storage types, fixed-size arrays of
   scalars, or have a reader of their own (nested structures and unions, arrays of them, multi-dimensional and dynamically sized arrays - `cls'`; void members and LEB128 members - for which the generator gives up - are outside): whenever the
   generator produces a plan, running the generated statements returns exactly what the interpreted reader returns - the same object
   (values in declaration order, recorded sizes) and the same end position - or both raise.  Block merging, the seeks after sub-readers
   (position_known), the tracked offset, the bit-field bookkeeping (unit switches decided three times: by the layout, by the generator and by the bit buffer; bit_reader.reset() when a run ends) and the fall back to sequential reading after a dynamically sized member are all inside. *)
Theorem compiled_reader_is_interpreted_reader : forall c fuel nm fs p,
  Forall (fun f => f_off f = None /\ cls' c fuel f) fs -> NoDup (map f_name fs) -> bsize c fs <= 9223372036854775807 ->
  compile_plan c false fs = Ok p ->
  forall s pos ctx, 0 <= pos -> req (read_compiled c fuel false fs s pos) (read_ty c fuel (TStruct nm fs false) s pos ctx).
Proof. exact compiled_is_interpreted. Qed.
(* the same for a block WITH PADDING (alignment gaps of an aligned structure, forward set offsets): the members as runs `GB` of adjacent members, each
   run preceded by a gap of pad bytes ("x" in the format, skipped by the buffer offsets of the getters).  One read of the whole extent, one unpack -
   is reading every member at its own place.  A member of size zero must not follow a gap (`gok`): there the block reader asks for the gap's bytes
   where the member-wise reader asks for nothing. *)
Theorem padded_block_reads_memberwise : forall c fuel GB al B i, gok c GB -> gsize c GB <= 9223372036854775807 ->
  struct_info c al B (match B with f :: _ => f_off f | [] => None end) 0 = Ok (info_g c GB) -> gen_block c al B = Ok i ->
  forall s o cal st, 0 <= p_pos st ->
    req (run_instr c (fun f => read_ty c fuel (f_ty f)) s o cal i st) (do r <- seq_g c fuel GB s (p_pos st) st; Ok (set_pos (fst r) (snd r))).
Proof. exact block_sound_g. Qed.
(* THE PROPERTY for ALIGNED structures of scalars (`acls`: no set offsets, no bit fields, members that are scalars of any kind or fixed arrays of
   scalars, of positive size and alignment at least 1): the aligned layout gives every member an offset at or after the end of the one before, the
   generator makes ONE padded block of the whole structure followed by the seek over the tail padding, and running that returns exactly what the
   interpreted reader returns - the same object and the same end position (tail padding included) - or both raise. *)
Theorem compiled_aligned_reader_is_interpreted_reader : forall c fuel nm fs p,
  Forall (acls c) fs -> NoDup (map f_name fs) -> (forall lay n, layout_struct c true fs = Ok lay -> l_size lay = Some n -> n <= 9223372036854775807) ->
  compile_plan c true fs = Ok p ->
  forall s pos ctx, 0 <= pos -> req (read_compiled c fuel true fs s pos) (read_ty c fuel (TStruct nm fs true) s pos ctx).
Proof. exact compiled_aligned_is_interpreted. Qed.
(* THE PROPERTY for structures with a STATIC layout, PACKED or ALIGNED (`stcls`: no set offsets, no bit fields; every member either a scalar / fixed
   array of scalars of positive size, or a member with a reader of its own and a static size - nested structures and unions, arrays of them,
   multi-dimensional arrays; in aligned mode alignments of at least 1): the generator reads the scalars in blocks with pad bytes for the alignment
   gaps, seeks to every member that has its own reader and to the block after it (position_known), and in aligned mode seeks over the tail padding;
   running that returns what the interpreted reader returns - the same object and end position - or both raise. *)
Theorem compiled_static_reader_is_interpreted_reader : forall c fuel al nm fs p,
  Forall (stcls c fuel al) fs -> NoDup (map f_name fs) -> (forall lay n, layout_struct c al fs = Ok lay -> l_size lay = Some n -> n <= 9223372036854775807) ->
  compile_plan c al fs = Ok p ->
  forall s pos ctx, 0 <= pos -> req (read_compiled c fuel al fs s pos) (read_ty c fuel (TStruct nm fs al) s pos ctx).
Proof. exact compiled_static_is_interpreted. Qed.
(* THE PROPERTY for ALIGNED structures with DYNAMICALLY SIZED members, no bit fields (`adcls`: scalars and fixed arrays of scalars of positive size;
   members with a reader of their own of any size - nested structures and unions, arrays of them, expression-counted, null-terminated and to-end
   arrays; alignments of at least 1).  Up to the first dynamically sized member the layout gives offsets and the generator reads padded blocks and
   sub-readers behind seeks; after it no member has an offset, the generator flushes in front of every member, aligns the stream at run time
   (forgetting where it is), reads scalars in blocks of one and calls the readers of the others - exactly what the interpreted reader does.  `agaps`
   states the shape of the layout's offsets (checked by computation in the example) and that the static part ends below 2^63. *)
Theorem compiled_aligned_dynamic_reader_is_interpreted_reader : forall c fuel nm fs p,
  Forall (adcls c fuel) fs -> NoDup (map f_name fs) ->
  (forall lay, layout_struct c true fs = Ok lay -> agaps c 9223372036854775807 0 (set_offsets fs (l_offs lay))) ->
  compile_plan c true fs = Ok p ->
  forall s pos ctx, 0 <= pos -> req (read_compiled c fuel true fs s pos) (read_ty c fuel (TStruct nm fs true) s pos ctx).
Proof. exact compiled_aligned_dynamic_is_interpreted. Qed.
Theorem sub_readers_of_the_position_class_qualify : forall c fuel f, shift_ok [] c (f_ty f) = true -> (forall n, ty_size c (f_ty f) = Some n -> 0 <= n) -> sub_ok c fuel f.
Proof. exact sub_ok_of_shift. Qed.

Print Assumptions format_optimisation_keeps_the_format.
Print Assumptions generated_block_reads_memberwise.
Print Assumptions compiled_reader_is_interpreted_reader.
Print Assumptions padded_block_reads_memberwise.
Print Assumptions compiled_aligned_reader_is_interpreted_reader.
Print Assumptions compiled_static_reader_is_interpreted_reader.
Print Assumptions compiled_aligned_dynamic_reader_is_interpreted_reader.
Print Assumptions block_unpack_is_fieldwise.
Print Assumptions any_grouping_into_blocks_is_fieldwise.
Print Assumptions fieldwise_is_the_interpreted_loop.

Example ex_block : block_read "<" [PInt 2 false true; PInt 1 true true; PFloat 4] [1; 2; 255; 0; 0; 128; 63; 9] 0
  = Ok ([VInt 513; VInt (-1); VFloat 1065353216], 7)
  /\ block_read "<" [PInt 2 false true; PInt 1 true true; PFloat 4] [1; 2; 255; 0; 0; 128] 0 = Err EEof.
Proof. vm_compute. split; reflexivity. Qed.

(* non-vacuity of compiled_reader_is_interpreted_reader:
   struct { uint8 a; uint16 b; N n; int24 c; char d[3]; uint16 h[2]; int24 i[2]; uint16 f1 : 3; uint16 f2 : 9; uint8 f3 : 4; uint8 k; uint8 arr[k]; uint32 g; wchar w; }
   with  struct N { uint8 x; uint32 y; } *)
Definition exc_cfg := mkCfg "<" (PInt 8 false true) 8 [] [].
Definition exc_u8 := TPrim (PInt 1 false true) 1.
Definition exc_u16 := TPrim (PInt 2 false true) 2.
Definition exc_N := TStruct "N" [Fld "x" false exc_u8 None None; Fld "y" false (TPrim (PInt 4 false true) 4) None None] false.
Definition exc_fs := [Fld "a" false exc_u8 None None; Fld "b" false exc_u16 None None; Fld "n" false exc_N None None;
                      Fld "c" false (TPrim (PInt 3 true false) 4) None None; Fld "d" false (TArr (TPrim PChar 1) (LFixed 3)) None None; Fld "h" false (TArr exc_u16 (LFixed 2)) None None;
                      Fld "i" false (TArr (TPrim (PInt 3 true false) 4) (LFixed 2)) None None;
                      Fld "f1" false exc_u16 (Some 3) None; Fld "f2" false exc_u16 (Some 9) None; Fld "f3" false exc_u8 (Some 4) None; Fld "k" false exc_u8 None None;
                      Fld "arr" false (TArr exc_u8 (LExpr ["k"] false)) None None; Fld "g" false (TPrim (PInt 4 false true) 4) None None;
                      Fld "w" false (TPrim PWchar 2) None None].
Example exc_class : Forall (fun f => f_off f = None /\ cls' exc_cfg 50 f) exc_fs /\ NoDup (map f_name exc_fs) /\ bsize exc_cfg exc_fs <= 9223372036854775807
  /\ exists p, compile_plan exc_cfg false exc_fs = Ok p.
Proof.
  split; [|split; [|split]].
  - repeat (apply Forall_cons; [split; [reflexivity|];
        first [ left; split; [reflexivity|]; left; vm_compute; discriminate
              | left; split; [reflexivity|]; right; split; [reflexivity|]; apply sub_ok_of_shift; [vm_compute; reflexivity|intros n H; vm_compute in H; try discriminate; injection H as <-; lia]
              | right; do 4 eexists; repeat split; try reflexivity; try discriminate ]|]).
    apply Forall_nil.
  - cbn. repeat constructor; cbn; intuition discriminate.
  - vm_compute. discriminate.
  - eexists. vm_compute. reflexivity.
Qed.
Example exc_plan : (do p <- compile_plan exc_cfg false exc_fs; Ok (skel p)) =
  Ok [SBlock 3 [(1, "B"); (1, "H")] true [("a", GData 0, 1); ("b", GData 1, 2)]; SSub "n"; SSeek 8;
      SBlock 16 [(6, "x"); (2, "H"); (6, "x")] true [("c", GBuf 0 3, 3); ("d", GBuf 3 6, 3); ("h", GDataN 0 2, 4); ("i", GBuf 10 16, 6)];
      SBits "f1" 3 false false; SBits "f2" 9 false false; SBits "f3" 4 false false; SReset;
      SBlock 1 [(1, "B")] true [("k", GData 0, 1)]; SSub "arr";
      SBlock 6 [(1, "I"); (2, "x")] true [("g", GData 0, 4); ("w", GBuf 4 6, 2)]].
Proof. vm_compute. reflexivity. Qed.
Example exc_run : let s := [1; 2; 3; 4; 5; 6; 7; 8; 9; 10; 11; 65; 66; 67; 1; 2; 3; 4; 5; 6; 7; 8; 9; 10; 173; 222; 91; 2; 13; 14; 15; 16; 17; 18; 66; 0; 99] in
  read_compiled exc_cfg 50 false exc_fs s 0 = read_ty exc_cfg 50 (TStruct "m" exc_fs false) s 0 [] /\
  (exists v, read_compiled exc_cfg 50 false exc_fs s 0 = Ok (v, 36)) /\
  (exists er, read_compiled exc_cfg 50 false exc_fs (firstn 35 s) 0 = Err er) /\ (exists er, read_ty exc_cfg 50 (TStruct "m" exc_fs false) (firstn 35 s) 0 [] = Err er).
Proof. cbv zeta. split; [vm_compute; reflexivity|]. split; [eexists; vm_compute; reflexivity|]. split; eexists; vm_compute; reflexivity. Qed.

(* an aligned structure of the class: gaps before b (3 bytes), e (3 bytes), and 5 bytes of tail padding *)
Definition exa_fs := [Fld "a" false (TPrim (PInt 1 false true) 1) None None; Fld "b" false (TPrim (PInt 4 false true) 4) None None;
                      Fld "c" false (TPrim (PInt 2 true true) 2) None None; Fld "d" false (TArr (TPrim PChar 1) (LFixed 3)) None None;
                      Fld "e" false (TPrim (PInt 8 false true) 8) None None; Fld "f" false (TPrim (PInt 3 false false) 4) None None].
Example exa_class : Forall (acls exc_cfg) exa_fs /\ NoDup (map f_name exa_fs) /\
  (forall lay n, layout_struct exc_cfg true exa_fs = Ok lay -> l_size lay = Some n -> n <= 9223372036854775807) /\ exists p, compile_plan exc_cfg true exa_fs = Ok p.
Proof.
  split; [|split; [|split]].
  - repeat (apply Forall_cons; [split; [reflexivity|]; split; [split; [reflexivity|]; split; [vm_compute; discriminate|vm_compute; split; [reflexivity|discriminate]]|vm_compute; discriminate]|]).
    apply Forall_nil.
  - cbn. repeat constructor; cbn; intuition discriminate.
  - intros lay n H. vm_compute in H. injection H as <-. cbn [l_size]. intros H. injection H as <-. lia.
  - eexists. vm_compute. reflexivity.
Qed.
Example exa_plan : (do p <- compile_plan exc_cfg true exa_fs; Ok (skel p)) =
  Ok [SBlock 27 [(1, "B"); (3, "x"); (1, "I"); (1, "h"); (6, "x"); (1, "Q"); (3, "x")] true
        [("a", GData 0, 1); ("b", GData 1, 4); ("c", GData 2, 2); ("d", GBuf 10 13, 3); ("e", GData 3, 8); ("f", GBuf 24 27, 3)]; SAlignTail].
Proof. vm_compute. reflexivity. Qed.
Example exa_run : let s := [1; 0; 0; 0; 2; 0; 0; 0; 255; 255; 65; 66; 67; 0; 0; 0; 3; 0; 0; 0; 0; 0; 0; 0; 9; 8; 7; 0; 0; 0; 0; 0; 77] in
  read_compiled exc_cfg 50 true exa_fs s 0 = read_ty exc_cfg 50 (TStruct "m" exa_fs true) s 0 [] /\
  (exists v, read_compiled exc_cfg 50 true exa_fs s 0 = Ok (v, 32)) /\
  (exists v, read_compiled exc_cfg 50 true exa_fs (firstn 27 s) 0 = Ok (v, 32)) /\
  (exists er, read_compiled exc_cfg 50 true exa_fs (firstn 26 s) 0 = Err er) /\ (exists er, read_ty exc_cfg 50 (TStruct "m" exa_fs true) (firstn 26 s) 0 [] = Err er).
Proof. cbv zeta. split; [vm_compute; reflexivity|]. split; [eexists; vm_compute; reflexivity|]. split; [eexists; vm_compute; reflexivity|]. split; eexists; vm_compute; reflexivity. Qed.

(* an aligned structure with nested members: a nested aligned structure, an array of it, a two-dimensional array *)
Definition exs_N := TStruct "N" [Fld "x" false (TPrim (PInt 1 false true) 1) None None; Fld "y" false (TPrim (PInt 4 false true) 4) None None] true.
Definition exs_fs := [Fld "a" false (TPrim (PInt 1 false true) 1) None None; Fld "n" false exs_N None None; Fld "b" false (TPrim (PInt 2 false true) 2) None None;
                      Fld "arr" false (TArr exs_N (LFixed 2)) None None; Fld "d" false (TArr (TPrim PChar 1) (LFixed 3)) None None;
                      Fld "m" false (TArr (TArr (TPrim (PInt 1 false true) 1) (LFixed 2)) (LFixed 2)) None None; Fld "q" false (TPrim (PInt 8 false true) 8) None None].
Example exs_class : Forall (stcls exc_cfg 50 true) exs_fs /\ NoDup (map f_name exs_fs) /\
  (forall lay n, layout_struct exc_cfg true exs_fs = Ok lay -> l_size lay = Some n -> n <= 9223372036854775807) /\ exists p, compile_plan exc_cfg true exs_fs = Ok p.
Proof.
  split; [|split; [|split]].
  - repeat (apply Forall_cons; [split; [reflexivity|]; split; [split; [reflexivity|];
        first [ left; split; [vm_compute; discriminate|vm_compute; split; [reflexivity|discriminate]]
              | right; split; [reflexivity|]; split; [reflexivity|]; split; [apply sub_ok_of_shift; [vm_compute; reflexivity|intros n H; vm_compute in H; injection H as <-; lia]|eexists; vm_compute; reflexivity] ]
        | intros _; vm_compute; discriminate]|]).
    apply Forall_nil.
  - cbn. repeat constructor; cbn; intuition discriminate.
  - intros lay n H. vm_compute in H. injection H as <-. cbn [l_size]. intros H. injection H as <-. lia.
  - eexists. vm_compute. reflexivity.
Qed.
Example exs_plan : (do p <- compile_plan exc_cfg true exs_fs; Ok (skel p)) =
  Ok [SBlock 1 [(1, "B")] true [("a", GData 0, 1)]; SSeek 4; SSub "n"; SSeek 12; SBlock 2 [(1, "H")] true [("b", GData 0, 2)]; SSeek 16; SSub "arr"; SSeek 32;
      SBlock 3 [] false [("d", GBuf 0 3, 3)]; SSub "m"; SSeek 40; SBlock 8 [(1, "Q")] true [("q", GData 0, 8)]; SAlignTail].
Proof. vm_compute. reflexivity. Qed.
Example exs_run : let s := map Z.of_nat (seq 1 60) in
  read_compiled exc_cfg 50 true exs_fs s 0 = read_ty exc_cfg 50 (TStruct "m" exs_fs true) s 0 [] /\
  (exists v, read_compiled exc_cfg 50 true exs_fs s 0 = Ok (v, 48)) /\
  (exists er, read_compiled exc_cfg 50 true exs_fs (firstn 47 s) 0 = Err er) /\ (exists er, read_ty exc_cfg 50 (TStruct "m" exs_fs true) (firstn 47 s) 0 [] = Err er).
Proof. cbv zeta. split; [vm_compute; reflexivity|]. split; [eexists; vm_compute; reflexivity|]. split; eexists; vm_compute; reflexivity. Qed.

(* an aligned structure with dynamically sized members: a counted array, then members without offsets (run-time alignment in front of each) *)
Definition exd_fs := [Fld "n" false (TPrim (PInt 1 false true) 1) None None; Fld "w" false (TPrim (PInt 4 false true) 4) None None;
                      Fld "d" false (TArr (TPrim (PInt 2 false true) 2) (LExpr ["n"] false)) None None; Fld "t" false (TPrim (PInt 4 false true) 4) None None;
                      Fld "s" false (TArr (TPrim PChar 1) LNull) None None; Fld "z" false (TPrim (PInt 2 false true) 2) None None; Fld "k" false (TPrim (PInt 1 false true) 1) None None].
Example exd_class : Forall (adcls exc_cfg 50) exd_fs /\ NoDup (map f_name exd_fs) /\
  (forall lay, layout_struct exc_cfg true exd_fs = Ok lay -> agaps exc_cfg 9223372036854775807 0 (set_offsets exd_fs (l_offs lay))) /\ exists p, compile_plan exc_cfg true exd_fs = Ok p.
Proof.
  split; [|split; [|split]].
  - repeat (apply Forall_cons; [split; [reflexivity|]; split; [split; [reflexivity|];
        first [ left; split; [vm_compute; discriminate|vm_compute; split; [reflexivity|discriminate]]
              | right; split; [reflexivity|]; split; [reflexivity|]; apply sub_ok_of_shift; [vm_compute; reflexivity|intros n H; vm_compute in H; try discriminate; injection H as <-; lia] ]
        | vm_compute; discriminate]|]).
    apply Forall_nil.
  - cbn. repeat constructor; cbn; intuition discriminate.
  - intros lay H. vm_compute in H. injection H as <-. cbn [l_offs set_offsets exd_fs agaps f_off f_ty]. vm_compute. repeat split; try discriminate; repeat constructor.
  - eexists. vm_compute. reflexivity.
Qed.
Example exd_plan : (do p <- compile_plan exc_cfg true exd_fs; Ok (skel p)) =
  Ok [SBlock 8 [(1, "B"); (3, "x"); (1, "I")] true [("n", GData 0, 1); ("w", GData 1, 4)]; SSub "d"; SAlignTo 4; SBlock 4 [(1, "I")] true [("t", GData 0, 4)];
      SAlignTo 1; SSub "s"; SAlignTo 2; SBlock 2 [(1, "H")] true [("z", GData 0, 2)]; SAlignTo 1; SBlock 1 [(1, "B")] true [("k", GData 0, 1)]; SAlignTail].
Proof. vm_compute. reflexivity. Qed.
Example exd_run : let s := [2; 0; 0; 0; 1; 0; 0; 0; 5; 0; 6; 0; 9; 0; 0; 0; 97; 98; 0; 0; 7; 0; 3; 0; 0; 0] in
  read_compiled exc_cfg 50 true exd_fs s 0 = read_ty exc_cfg 50 (TStruct "m" exd_fs true) s 0 [] /\
  (exists v, read_compiled exc_cfg 50 true exd_fs s 0 = Ok (v, 24)) /\
  (exists er, read_compiled exc_cfg 50 true exd_fs (firstn 22 s) 0 = Err er) /\ (exists er, read_ty exc_cfg 50 (TStruct "m" exd_fs true) (firstn 22 s) 0 [] = Err er).
Proof. cbv zeta. split; [vm_compute; reflexivity|]. split; [eexists; vm_compute; reflexivity|]. split; eexists; vm_compute; reflexivity. Qed.
