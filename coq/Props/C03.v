(* C03 — the compiled reader is observationally equivalent to the interpreted reader. *)
From VF Require Import Model.Reader Model.Writer Proofs.ArrayProps Proofs.BlockProps Gen.GeneratedOk.
Open Scope string_scope. Open Scope list_scope. Open Scope Z_scope.

(* The source generator of compiler.py is NOT modelled (DESIGN.md 10.1): both readers are compared, on every run, with Model.Reader — the
   reference the reader theorems (Props/C07, C08, C09) are proved about.  What is proved here is the soundness of the strategy the
   generated code uses: a run of fixed-size scalar members is read with one stream read and one struct.unpack of the concatenated
   format, and that gives exactly the values, the end position and the error of reading the members one by one, as the interpreted
   structure loop does — for every run of members, every stream and every position. *)
Theorem block_unpack_is_fieldwise : forall e ps s pos, Forall (fun p => fixed_scalar p <> None) ps -> 0 <= pos ->
  Z.of_nat (fmt_size ps) <= 9223372036854775807 -> block_read e ps s pos = fieldwise e ps s pos.
Proof. exact block_is_fieldwise. Qed.
Theorem fieldwise_is_the_interpreted_loop : forall e start (fs : list (string * prim)) s pos bb vals sizes lctx,
  loop_obs (struct_loop e false start
              (map (fun np => (mkFM (fst np) None (Some (snd np, 1)) 1, (fun s pos _ => prim_read_at e (snd np) s pos) : rfn)) fs)
              (map (fun _ => None) fs) s pos bb vals sizes lctx)
  = do r <- fieldwise e (map snd fs) s pos; Ok (map snd (rev vals) ++ fst r, snd r).
Proof. exact struct_loop_scalars. Qed.
(* HOWEVER the generator groups consecutive scalar members into blocks (the grouping depends on offsets, alignment and neighbouring members),
   reading block after block is reading the members one by one *)
Theorem any_grouping_into_blocks_is_fieldwise : forall e blocks s pos,
  Forall (fun b => Forall (fun p => fixed_scalar p <> None) b /\ Z.of_nat (fmt_size b) <= 9223372036854775807) blocks -> 0 <= pos ->
  blocks_read e blocks s pos = fieldwise e (List.concat blocks) s pos.
Proof. exact any_blocking_is_fieldwise. Qed.
(* the same for arrays of packed scalars (Packed._read_array, also used by the generated code) *)
Theorem array_unpack_is_elementwise : forall c p sz, fixed_scalar p = Some sz -> forall n s pos ctx,
  0 <= pos -> 0 <= n -> Z.of_nat sz * n <= 9223372036854775807 ->
  packed_read_n c p n s pos = seq_n (fun s pos _ => prim_read_at (c_endian c) p s pos) (Z.to_nat n) s pos ctx.
Proof. exact bulk_is_sequential. Qed.

Print Assumptions block_unpack_is_fieldwise.
Print Assumptions any_grouping_into_blocks_is_fieldwise.
Print Assumptions fieldwise_is_the_interpreted_loop.

Example ex_block : block_read "<" [PInt 2 false true; PInt 1 true true; PFloat 4] [1; 2; 255; 0; 0; 128; 63; 9] 0
  = Ok ([VInt 513; VInt (-1); VFloat 1065353216], 7)
  /\ block_read "<" [PInt 2 false true; PInt 1 true true; PFloat 4] [1; 2; 255; 0; 0; 128] 0 = Err EEof.
Proof. vm_compute. split; reflexivity. Qed.
