(* C03 — compiled reader equivalent to the interpreted reader. (see DESIGN.md) *)
From VF Require Import Model.Writer Gen.GeneratedOk.
