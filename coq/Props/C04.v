From Coq Require Import Lia.
(* C04 — Structure layout follows C rules; declared size equals bytes read and written. *)
From VF Require Import Model.Writer Proofs.LayoutCorrect Proofs.CodecCorrect Proofs.SizeProps Proofs.RoundTrip Proofs.AlignedSize Model.Compiler Gen.GeneratedOk.
From VF Require Proofs.CompilerProps Proofs.CompiledRoundTrip Proofs.CompilerGaps Proofs.CompilerStatic Proofs.CompiledAligned.
Open Scope list_scope. Open Scope Z_scope.

(* For every field list without bit fields and pre-set offsets whose members are statically sized, the
   offsets / size / alignment the library computes are exactly the C rule applied to the members' sizes and
   alignments: packed = back to back; aligned = each member at the next multiple of its alignment, the
   whole padded to a multiple of the largest member alignment. *)
Theorem layout_is_c : forall c aligned fs, forallb (plain_field c) fs = true ->
  layout_struct c aligned fs =
  let '(offs, size, al) := c_struct aligned (map (member c) fs) in Ok (mkLay (map Some offs) (Some size) al).
Proof. exact layout_is_c_rule. Qed.

(* what the C rule means: packed *)
Theorem c_packed_back_to_back : forall ms off al,
  let '(offs, e, _) := c_rule false off al ms in
  e = off + fold_right (fun m acc => fst m + acc) 0 ms /\
  forall k o, nth_error offs k = Some o -> o = off + fold_right (fun m acc => fst m + acc) 0 (firstn k ms).
Proof. exact c_rule_packed. Qed.
(* what the C rule means: aligned (alignments are powers of two) *)
Theorem c_aligned_next_multiple : forall ms, Forall (fun m => 0 <= fst m /\ pow2 (snd m)) ms -> forall off al, 0 <= off ->
  let '(offs, e, al') := c_rule true off al ms in
  off <= e /\
  forall k o, nth_error offs k = Some o ->
    exists m prev_end, nth_error ms k = Some m /\ o = roundup prev_end (snd m) /\ o mod snd m = 0 /\ prev_end <= o < prev_end + snd m.
Proof. exact c_rule_aligned. Qed.
(* the bit trick -x & (a-1) is the distance to the next multiple of a power of two, and no smaller padding works *)
Theorem padding_is_roundup : forall x k, 0 <= k -> 0 <= x ->
  x + pad_to x (2 ^ k) = roundup x (2 ^ k) /\ 0 <= pad_to x (2 ^ k) < 2 ^ k /\ (x + pad_to x (2 ^ k)) mod 2 ^ k = 0.
Proof. exact pad_to_roundup. Qed.
Theorem padding_minimal : forall x k p, 0 <= k -> 0 <= x -> 0 <= p -> (x + p) mod 2 ^ k = 0 -> pad_to x (2 ^ k) <= p.
Proof. exact pad_to_minimal. Qed.
Theorem arrays_inherit_element_alignment : forall c el n,
  ty_size c (TArr el (LFixed n)) = option_map (Z.mul n) (ty_size c el) /\ ty_align c (TArr el (LFixed n)) = ty_align c el.
Proof. exact array_size_align. Qed.
Theorem pointers_follow_configuration : forall c t, ty_size c (TPtr t) = prim_size_z (c_ptr c) /\ ty_align c (TPtr t) = c_ptr_al c.
Proof. exact pointer_size_align. Qed.


(* len(T) of a structure is the size its layout computes *)
Theorem struct_size_is_layout_size : forall c nm fs al,
  ty_size c (TStruct nm fs al) = match layout_struct c al fs with Ok lay => l_size lay | Err _ => None end.
Proof. exact ty_size_struct. Qed.
(* the declared size is what a successful parse consumes: every sequential fixed-size type (scalars, enums, pointers, fixed arrays, packed
   structures of plain fields, nested to any depth), every stream, position, context and fuel *)
Theorem parse_consumes_declared_size : forall c fuel t, flat t = true -> forall n, ty_size c t = Some n ->
  forall s pos ctx v p, read_ty c fuel t s pos ctx = Ok (v, p) -> p = pos + n.
Proof. exact read_consumes_size. Qed.
(* ... and what dumping the parsed value produces *)
Theorem sizes_all_agree : forall c, endian_ok (c_endian c) -> forall fuel t n, flat t = true -> fid_ty c t = true -> ty_size c t = Some n ->
  forall s pos ctx v p, Bytes s -> 0 <= pos -> read_ty c fuel t s pos ctx = Ok (v, p) ->
    p = pos + n /\ forall wpos, exists bs, write_ty c t v wpos = Ok bs /\ zlen bs = n.
Proof. exact sizes_agree. Qed.

(* ALIGNED mode: for every fixed-size type built from scalars, fixed arrays and aligned structures of plain fields with power-of-two
   alignments (nested to any depth), the declared size is a multiple of the alignment the start must respect, and a parse that starts at a
   multiple of that alignment consumes exactly the declared size *)
Theorem aligned_parse_consumes_declared_size : forall c fuel t, aflat c t = true -> forall n, ty_size c t = Some n ->
  (req c t | n) /\ forall s pos ctx v p, (req c t | pos) -> read_ty c fuel t s pos ctx = Ok (v, p) -> p = pos + n.
Proof. exact read_consumes_aligned. Qed.
(* cls.alignment of a structure is the largest member alignment, as the C rule computes it *)
Theorem struct_alignment_is_c_rule : forall c nm fs al, ty_align c (TStruct nm fs al) = snd (c_rule true 0 0 (map (member c) fs)).
Proof. exact ty_align_struct. Qed.

(* the COMPILED reader consumes the declared size as well (composed with C03's theorem) *)
Theorem compiled_parse_consumes_declared_size : forall c fuel nm fs p n,
  Forall (fun f => f_off f = None /\ CompilerProps.cls' c fuel f) fs -> NoDup (map f_name fs) -> CompilerProps.bsize c fs <= 9223372036854775807 -> compile_plan c false fs = Ok p ->
  flat (TStruct nm fs false) = true -> ty_size c (TStruct nm fs false) = Some n ->
  forall s pos v q, 0 <= pos -> read_compiled c fuel false fs s pos = Ok (v, q) -> q = pos + n.
Proof. exact CompiledRoundTrip.compiled_consumes_size. Qed.

(* ... and so does the compiled reader of an ALIGNED structure with a static layout (scalars, nested structures and unions, arrays of them), started at a multiple of its alignment (tail padding included) *)
Theorem compiled_aligned_parse_consumes_declared_size : forall c fuel nm fs p n,
  Forall (CompilerStatic.stcls c fuel true) fs -> NoDup (map f_name fs) -> CompiledAligned.size_fits c fs -> compile_plan c true fs = Ok p ->
  aflat c (TStruct nm fs true) = true -> ty_size c (TStruct nm fs true) = Some n ->
  forall s pos v q, 0 <= pos -> (req c (TStruct nm fs true) | pos) -> read_compiled c fuel true fs s pos = Ok (v, q) -> q = pos + n.
Proof. exact CompiledAligned.compiled_aligned_consumes_size. Qed.

Print Assumptions compiled_aligned_parse_consumes_declared_size.
Print Assumptions compiled_parse_consumes_declared_size.
Print Assumptions layout_is_c.
Print Assumptions aligned_parse_consumes_declared_size.
Print Assumptions parse_consumes_declared_size.
Print Assumptions sizes_all_agree.
Print Assumptions c_aligned_next_multiple.
Print Assumptions padding_is_roundup.
Print Assumptions padding_minimal.

(* non-vacuity: struct { uint8 a; uint32 b; int24 c; uint16 d[3]; } aligned *)
Definition ex_cfg := mkCfg "<"%string (PInt 8 false true) 8 [] [].
Definition ex_fs := [Fld "a" false (TPrim (PInt 1 false true) 1) None None; Fld "b" false (TPrim (PInt 4 false true) 4) None None;
                     Fld "c" false (TPrim (PInt 3 true false) 4) None None; Fld "d" false (TArr (TPrim (PInt 2 false true) 2) (LFixed 3)) None None].
Example ex_aflat : aflat ex_cfg (TStruct "s" (ex_fs ++ [Fld "in" false (TArr (TStruct "i" [Fld "x" false (TPrim (PInt 1 false true) 1) None None; Fld "y" false (TPrim (PInt 8 false true) 8) None None] true) (LFixed 2)) None None]) true) = true.
Proof. vm_compute. reflexivity. Qed.
Example ex_plain : forallb (plain_field ex_cfg) ex_fs = true.
Proof. vm_compute. reflexivity. Qed.
Example ex_layout : layout_struct ex_cfg true ex_fs = Ok (mkLay [Some 0; Some 4; Some 8; Some 12] (Some 20) 4)
                 /\ layout_struct ex_cfg false ex_fs = Ok (mkLay [Some 0; Some 1; Some 5; Some 8] (Some 14) 4).
Proof. vm_compute. split; reflexivity. Qed.

(* non-vacuity of the compiled aligned theorems: struct N { uint8 x; uint32 y; }; struct { uint8 a; N n; uint16 b; N arr[2]; char d[3]; uint8 m[2][2]; uint64 q; } aligned *)
Definition exa_cfg := mkCfg "<" (PInt 8 false true) 8 [] [].
Definition exa_N := TStruct "N" [Fld "x" false (TPrim (PInt 1 false true) 1) None None; Fld "y" false (TPrim (PInt 4 false true) 4) None None] true.
Definition exa_fs := [Fld "a" false (TPrim (PInt 1 false true) 1) None None; Fld "n" false exa_N None None; Fld "b" false (TPrim (PInt 2 false true) 2) None None;
                      Fld "arr" false (TArr exa_N (LFixed 2)) None None; Fld "d" false (TArr (TPrim PChar 1) (LFixed 3)) None None;
                      Fld "m" false (TArr (TArr (TPrim (PInt 1 false true) 1) (LFixed 2)) (LFixed 2)) None None; Fld "q" false (TPrim (PInt 8 false true) 8) None None].
Example exa_class : Forall (CompilerStatic.stcls exa_cfg 50 true) exa_fs /\ NoDup (map f_name exa_fs) /\ CompiledAligned.size_fits exa_cfg exa_fs /\ (exists p, compile_plan exa_cfg true exa_fs = Ok p) /\ aflat exa_cfg (TStruct "m" exa_fs true) = true /\ ty_size exa_cfg (TStruct "m" exa_fs true) = Some 48.
Proof.
  split; [|split; [|split; [|split]]].
  - repeat (apply Forall_cons; [split; [reflexivity|]; split; [split; [reflexivity|];
        first [ left; split; [vm_compute; discriminate|vm_compute; split; [reflexivity|discriminate]]
              | right; split; [reflexivity|]; split; [reflexivity|]; split; [apply CompilerProps.sub_ok_of_shift; [vm_compute; reflexivity|intros n H; vm_compute in H; injection H as <-; lia]|eexists; vm_compute; reflexivity] ]
        | intros _; vm_compute; discriminate]|]).
    apply Forall_nil.
  - cbn. repeat constructor; cbn; intuition discriminate.
  - intros lay n H. vm_compute in H. injection H as <-. cbn [l_size]. intros H. injection H as <-. lia.
  - eexists. vm_compute. reflexivity.
  - split; vm_compute; reflexivity.
Qed.
