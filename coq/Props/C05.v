(* C05 — Scalar codecs implement the standard encodings under the current endianness.
   Only property theorems (closed by `exact`), non-vacuity examples and Print Assumptions. *)
From VF Require Import Model.Prim Proofs.CodecCorrect Gen.GeneratedOk.
Open Scope string_scope. Open Scope list_scope. Open Scope Z_scope.

(* Unsigned little-endian decoding is the positional sum of the bytes; big endian is the same on the
   reversed bytes; signed decoding folds at 2^(8n-1) (two's complement). *)
Theorem int_decode_unsigned_le : forall bs, int_from_bytes LE false bs = le_decode bs.
Proof. exact int_decode_le_unsigned. Qed.
Theorem int_decode_be_is_reversed_le : forall signed bs, int_from_bytes BE signed bs = int_from_bytes LE signed (rev bs).
Proof. exact be_is_rev_le. Qed.
Theorem int_decode_twos_complement : forall bs, bs <> [] -> Bytes bs ->
  int_from_bytes LE true bs =
  (if le_decode bs <? 2 ^ (8 * Z.of_nat (length bs) - 1) then le_decode bs else le_decode bs - 2 ^ (8 * Z.of_nat (length bs))).
Proof. exact int_decode_signed_fold. Qed.

(* Encoding is the exact inverse of decoding, for every width n (in bytes), both byte orders, both signednesses *)
Theorem int_encode_then_decode : forall e n signed v bs, (e = LE \/ e = BE) ->
  int_to_bytes e n signed v = Ok bs -> length bs = n /\ Bytes bs /\ int_from_bytes e signed bs = v.
Proof. exact int_roundtrip. Qed.
Theorem int_decode_then_encode : forall e signed bs, (e = LE \/ e = BE) -> Bytes bs ->
  int_to_bytes e (length bs) signed (int_from_bytes e signed bs) = Ok bs.
Proof. exact int_bytes_roundtrip. Qed.
Theorem int_decode_in_range : forall e signed bs, Bytes bs -> fits (length bs) signed (int_from_bytes e signed bs) = true.
Proof. exact int_decode_range. Qed.
(* a number that does not fit is rejected — never truncated or wrapped *)
Theorem int_out_of_range_rejected : forall e n signed v, fits n signed v = false -> int_to_bytes e n signed v = Err ERange.
Proof. exact int_reject. Qed.

(* LEB128: the library's writer loop followed by its reader loop is the identity, for every integer *)
Theorem uleb128_roundtrip : forall n bs rest, leb_write false n = Ok bs -> leb_read false (bs ++ rest) = Ok (n, rest).
Proof. exact uleb_roundtrip. Qed.
Theorem ileb128_roundtrip : forall n bs rest, leb_write true n = Ok bs -> leb_read true (bs ++ rest) = Ok (n, rest).
Proof. exact ileb_roundtrip. Qed.

(* UTF-16 in either byte order: every encodable string decodes to itself (surrogate pairs included) *)
Theorem wchar_roundtrip : forall e cps bs, (e = LE \/ e = BE) -> utf16_encode e cps = Ok bs -> utf16_decode e bs = Ok cps.
Proof. exact utf16_roundtrip. Qed.

Print Assumptions int_encode_then_decode.
Print Assumptions int_decode_then_encode.
Print Assumptions int_decode_in_range.
Print Assumptions uleb128_roundtrip.
Print Assumptions ileb128_roundtrip.
Print Assumptions wchar_roundtrip.

(* non-vacuity *)
Example ex_int24_be : int_to_bytes BE 3 true (-2) = Ok [255; 255; 254] /\ int_from_bytes BE true [255; 255; 254] = -2.
Proof. vm_compute. split; reflexivity. Qed.
Example ex_ileb : leb_write true (-64) = Ok [64] /\ leb_write true (-65) = Ok [191; 127] /\ leb_write false 624485 = Ok [229; 142; 38].
Proof. vm_compute. repeat split. Qed.
Example ex_utf16 : utf16_encode LE [65; 128512] = Ok [65; 0; 61; 216; 0; 222].
Proof. vm_compute. reflexivity. Qed.
Example ex_named : prim_named "DWORD" = Ok (PInt 4 false true) /\ prim_named "int24" = Ok (PInt 3 true false).
Proof. vm_compute. split; reflexivity. Qed.
