(* C06 — Bit-fields partition their storage unit exactly, in endian-defined order. *)
From VF Require Import Model.Writer Proofs.BitsCorrect Proofs.BitRun Proofs.BitStruct Proofs.CodecCorrect Proofs.RoundTrip Proofs.BitLayout Gen.GeneratedOk.
Open Scope list_scope. Open Scope Z_scope.

(* One BitBuffer.read step inside a storage unit (same storage type, enough bits left):
   little endian takes the LOW bits and shifts the rest down; big endian takes the TOP of the remaining bits. *)
Theorem read_step_little : forall e s pos st u R w, String.eqb e "<" = true -> 0 < w <= R ->
  bb_read e s pos (mkBB st u R) st w = Ok (u mod 2 ^ w, mkBB st (u / 2 ^ w) (R - w), pos).
Proof. exact bb_read_step_le. Qed.
Theorem read_step_big : forall e s pos st u R w, String.eqb e "<" = false -> 0 < w <= R ->
  bb_read e s pos (mkBB st u R) st w = Ok ((u mod 2 ^ R) / 2 ^ (R - w), mkBB st u (R - w), pos).
Proof. exact bb_read_step_be. Qed.

(* Little endian: the values read for widths ws from a unit u each lie in [0, 2^w), and placed back at their
   positions (first field lowest) they give exactly the low (sum ws) bits of u: no overlap, nothing lost. *)
Theorem bits_partition_le : forall u ws, widths_ok ws ->
  fits_widths ws (le_read_seq u ws) /\ le_pack ws (le_read_seq u ws) = u mod 2 ^ total ws.
Proof. intros u ws H. split; [now apply le_read_range|now apply le_pack_read]. Qed.
(* Big endian: the values tile the TOP (sum ws) of the R bits of the unit, first field highest. *)
Theorem bits_partition_be : forall u R ws, widths_ok ws -> total ws <= R ->
  fits_widths ws (be_read_seq u R ws) /\ be_pack R ws (be_read_seq u R ws) = u mod 2 ^ R - u mod 2 ^ (R - total ws).
Proof. intros u R ws H Ht. split; [now apply be_read_range|now apply be_pack_read]. Qed.

(* Writing is the exact inverse of reading for every value that fits: a unit assembled from values vs reads back vs
   (whatever the bits above/below the fields are). *)
Theorem bits_write_inverse_le : forall ws vs, widths_ok ws -> fits_widths ws vs ->
  forall hi, le_read_seq (le_pack ws vs + 2 ^ total ws * hi) ws = vs.
Proof. exact le_read_pack. Qed.
Theorem bits_write_inverse_be : forall R ws vs, widths_ok ws -> fits_widths ws vs -> total ws <= R ->
  forall lo, 0 <= lo < 2 ^ (R - total ws) -> be_read_seq (be_pack R ws vs + lo) R ws = vs.
Proof. exact be_read_pack. Qed.
(* BitBuffer.write ORs a value into still-empty bits: that is addition at the field's position *)
Theorem write_or_is_placement : forall a b k, 0 <= k -> 0 <= a < 2 ^ k -> 0 <= b -> Z.lor a (Z.shiftl b k) = a + b * 2 ^ k.
Proof. exact lor_disjoint. Qed.

(* At the level of the structure loop (StructureMetaType._read): a run of bit fields over one storage unit - the first field loads the
   unit with ONE scalar read through the storage type, the others read from the buffer - yields exactly the slices of the unit's integer
   u (little endian: first field lowest; big endian: first field highest), moves the stream past the unit once, and hands the remaining
   bits to whatever follows.  For every run that fits its unit, every storage type of known size, every stream and position. *)
Theorem bit_field_run_little : forall e start p al a rd, String.eqb e "<" = true -> forall run rest ro s pos bb u p' sz vals sizes lctx,
  run <> [] -> widths_ok (map snd run) -> prim_size_z p = Some sz -> total (map snd run) <= sz * 8 -> bb_rem bb = 0 ->
  prim_read_at e p s pos = Ok (VInt u, p') ->
  struct_loop e false start (run_items (Some (p, al)) a rd run ++ rest) (nones run ++ ro) s pos bb vals sizes lctx
  = struct_loop e false start rest ro s p' (mkBB (Some (p, al)) (u / 2 ^ total (map snd run)) (sz * 8 - total (map snd run)))
      (rev (as_values (named run (le_read_seq u (map snd run)))) ++ vals) sizes (rev (named run (le_read_seq u (map snd run))) ++ lctx).
Proof. exact bit_unit_le. Qed.
Theorem bit_field_run_big : forall e start p al a rd, String.eqb e "<" = false -> forall run rest ro s pos bb u p' sz vals sizes lctx,
  run <> [] -> widths_ok (map snd run) -> prim_size_z p = Some sz -> total (map snd run) <= sz * 8 -> bb_rem bb = 0 ->
  prim_read_at e p s pos = Ok (VInt u, p') ->
  struct_loop e false start (run_items (Some (p, al)) a rd run ++ rest) (nones run ++ ro) s pos bb vals sizes lctx
  = struct_loop e false start rest ro s p' (mkBB (Some (p, al)) u (sz * 8 - total (map snd run)))
      (rev (as_values (named run (be_read_seq u (sz * 8) (map snd run)))) ++ vals) sizes (rev (named run (be_read_seq u (sz * 8) (map snd run))) ++ lctx).
Proof. exact bit_unit_be. Qed.

(* A structure whose members are one run of bit fields over an unsigned storage unit of k bytes, through the REAL structure writer and
   reader of the model (layout, BitBuffer.write with its flush, one scalar write; one scalar read, BitBuffer.read): whatever values that fit
   their widths are dumped, parsing the dump - anywhere in a stream - gives exactly those values back and consumes exactly the unit.
   Little endian and big endian; the run may or may not fill the unit. *)
Theorem bit_field_structure_round_trip_little : forall c k pk al nm n w run vals sz vs wpos bs fuel pre rest ctx,
  String.eqb (c_endian c) "<" = true -> endian_ok (c_endian c) -> (0 < k)%nat ->
  looked_up vals ((n, w) :: run) vs -> widths_ok (w :: map snd run) -> fits_widths (w :: map snd run) vs ->
  w + total (map snd run) <= Z.of_nat k * 8 ->
  write_ty c (TStruct nm (run_fields (PInt k false pk) al ((n, w) :: run)) false) (VStruct vals sz) wpos = Ok bs ->
  read_ty c fuel (TStruct nm (run_fields (PInt k false pk) al ((n, w) :: run)) false) (pre ++ bs ++ rest) (zlen pre) ctx
  = Ok (VStruct (as_values (named ((n, w) :: run) vs)) [], zlen pre + zlen bs).
Proof. exact bit_struct_round_trip. Qed.
Theorem bit_field_structure_round_trip_big : forall c k pk al nm n w run vals sz vs wpos bs fuel pre rest ctx,
  String.eqb (c_endian c) "<" = false -> endian_ok (c_endian c) -> (0 < k)%nat ->
  looked_up vals ((n, w) :: run) vs -> widths_ok (w :: map snd run) -> fits_widths (w :: map snd run) vs ->
  w + total (map snd run) <= Z.of_nat k * 8 ->
  write_ty c (TStruct nm (run_fields (PInt k false pk) al ((n, w) :: run)) false) (VStruct vals sz) wpos = Ok bs ->
  read_ty c fuel (TStruct nm (run_fields (PInt k false pk) al ((n, w) :: run)) false) (pre ++ bs ++ rest) (zlen pre) ctx
  = Ok (VStruct (as_values (named ((n, w) :: run) vs)) [], zlen pre + zlen bs).
Proof. exact bit_struct_round_trip_be. Qed.
(* its layout: the first field opens the unit at offset 0, the others carry no offset, the size is the unit *)
Theorem bit_field_structure_layout : forall c p al ssz, prim_size_z p = Some ssz -> forall n w run,
  widths_ok (w :: map snd run) -> w + total (map snd run) <= ssz * 8 ->
  layout_struct c false (run_fields p al ((n, w) :: run))
  = Ok (mkLay (Some 0 :: nones run) (Some ssz) (fold_left (fun acc _ => Z.max acc (if al =? 0 then 1 else al)) ((n, w) :: run) 0)).
Proof. exact layout_run. Qed.
(* its dump: the packed integer (first field lowest in little endian, highest in big endian), written once through the storage type *)
Theorem bit_field_structure_dump_little : forall c p al ssz, prim_size_z p = Some ssz -> String.eqb (c_endian c) "<" = true ->
  forall nm n w run vals sz vs wpos, 0 < ssz -> looked_up vals ((n, w) :: run) vs ->
  widths_ok (w :: map snd run) -> fits_widths (w :: map snd run) vs -> w + total (map snd run) <= ssz * 8 ->
  write_ty c (TStruct nm (run_fields p al ((n, w) :: run)) false) (VStruct vals sz) wpos
  = wb_flush c (mkWB (Some (p, al)) (le_pack (w :: map snd run) vs) 0).
Proof. exact write_bit_struct. Qed.
Theorem bit_field_structure_dump_big : forall c p al ssz, prim_size_z p = Some ssz -> String.eqb (c_endian c) "<" = false ->
  forall nm n w run vals sz vs wpos, 0 < ssz -> looked_up vals ((n, w) :: run) vs ->
  widths_ok (w :: map snd run) -> fits_widths (w :: map snd run) vs -> w + total (map snd run) <= ssz * 8 ->
  write_ty c (TStruct nm (run_fields p al ((n, w) :: run)) false) (VStruct vals sz) wpos
  = wb_flush c (mkWB (Some (p, al)) (be_pack (ssz * 8) (w :: map snd run) vs) 0).
Proof. exact write_bit_struct_be. Qed.

(* WHEN a unit starts (the layout, StructureMetaType._calculate_size_and_offsets): an exhausted unit or another storage type opens a NEW unit at the
   running offset (aligned mode: the next multiple of the field's alignment) and gives the field that offset; otherwise - same storage type, bits
   left, the field not beyond the unit - the field CONTINUES the open unit and gets no offset of its own; a field that needs more bits than the
   unit has left (or than a new unit has at all) WOULD STRADDLE and is rejected; a member that is not a bit field closes the unit *)
Theorem new_unit_on_exhausted_unit_or_other_storage_type : forall (al : bool) (st : lstate) (cur : option Z) (nb : Z) (sp : prim) (sal ssz : Z) (fsize : option Z) (falign : Z),
  nb <> 0 -> prim_size_z sp = Some ssz -> ls_brem st = 0 \/ storage_eqb (Some (sp, sal)) (ls_btype st) = false ->
  let off0 := match cur with Some o => Some o | None => ls_off st end in
  let off1 := match off0 with Some o => if al then Some (o + pad_to o falign) else Some o | None => None end in
  layout_step al st cur (Some nb) (Some (sp, sal)) fsize falign =
    if ssz * 8 - nb <? 0 then Err EValue
    else Ok (mkLS (match off1 with Some o => Some (o + ssz) | None => None end) (Z.max (ls_align st) falign) (Some (sp, sal)) off1 (ssz * 8 - nb), off1).
Proof. exact new_unit_on_exhausted_or_other_type. Qed.
Theorem same_storage_type_continues_the_unit_and_a_straddling_field_is_rejected : forall (al : bool) (st : lstate) (cur : option Z) (nb : Z) (sp : prim) (sal bs bo : Z) (fsize : option Z) (falign : Z),
  nb <> 0 -> ls_brem st <> 0 -> ls_btype st = Some (sp, sal) -> prim_size_z sp = Some bs -> ls_boff st = Some bo ->
  let off0 := match cur with Some o => Some o | None => ls_off st end in
  let off1 := match off0 with Some o => if al then Some (o + pad_to o falign) else Some o | None => None end in
  (forall o, off1 = Some o -> o <= bo + bs) ->
  layout_step al st cur (Some nb) (Some (sp, sal)) fsize falign =
    if ls_brem st - nb <? 0 then Err EValue
    else Ok (mkLS off1 (Z.max (ls_align st) falign) (Some (sp, sal)) (Some bo) (ls_brem st - nb), cur).
Proof. exact same_unit_continues_or_straddle_is_rejected. Qed.
Theorem a_member_that_is_no_bit_field_closes_the_unit : forall (al : bool) (st : lstate) (cur : option Z) (fsize : option Z) (falign : Z) lst' o',
  layout_step al st cur None None fsize falign = Ok (lst', o') -> ls_brem lst' = 0 /\ ls_btype lst' = None.
Proof. exact plain_member_closes_the_unit. Qed.

Print Assumptions new_unit_on_exhausted_unit_or_other_storage_type.
Print Assumptions same_storage_type_continues_the_unit_and_a_straddling_field_is_rejected.
Print Assumptions bit_field_structure_round_trip_little.
Print Assumptions bit_field_structure_round_trip_big.
Print Assumptions bit_field_run_little.
Print Assumptions bit_field_run_big.
Print Assumptions read_step_little.
Print Assumptions read_step_big.
Print Assumptions bits_partition_le.
Print Assumptions bits_partition_be.
Print Assumptions bits_write_inverse_le.
Print Assumptions bits_write_inverse_be.

(* non-vacuity: uint16 a:4; b:7; c:5 on unit 0xBEEF, both orders, through the model's reader *)
Example ex_le : le_read_seq 48879 [4; 7; 5] = [15; 110; 23] /\ le_pack [4; 7; 5] [15; 110; 23] = 48879.
Proof. vm_compute. split; reflexivity. Qed.
Example ex_be : be_read_seq 48879 16 [4; 7; 5] = [11; 119; 15] /\ be_pack 16 [4; 7; 5] [11; 119; 15] = 48879.
Proof. vm_compute. split; reflexivity. Qed.
Definition ex_cfg (e : string) := mkCfg e (PInt 8 false true) 8 [] [].
Definition u16 := TPrim (PInt 2 false true) 2.
Definition ex_struct := TStruct "s" [Fld "a" false u16 (Some 4) None; Fld "b" false u16 (Some 7) None; Fld "c" false u16 (Some 5) None] false.
Example ex_model_le : read_top (ex_cfg "<") ex_struct [239; 190] 0 = Ok (VStruct [("a", VInt 15); ("b", VInt 110); ("c", VInt 23)] [], 2).
Proof. vm_compute. reflexivity. Qed.
Example ex_model_be : read_top (ex_cfg ">") ex_struct [190; 239] 0 = Ok (VStruct [("a", VInt 11); ("b", VInt 119); ("c", VInt 15)] [], 2).
Proof. vm_compute. reflexivity. Qed.
Example ex_model_write : dumps (ex_cfg ">") ex_struct (VStruct [("a", VInt 11); ("b", VInt 119); ("c", VInt 15)] []) = Ok [190; 239].
Proof. vm_compute. reflexivity. Qed.

(* the run theorems on a concrete structure, through the public entry point: uint16 a:3; uint16 b:9; uint16 c:4; uint8 t; *)
Definition exr_cfg (e : string) := mkCfg e (PInt 8 false true) 8 [] [].
Definition exr_ty := TStruct "m" [Fld "a" false u16 (Some 3) None; Fld "b" false u16 (Some 9) None; Fld "c" false u16 (Some 4) None;
                                  Fld "t" false (TPrim (PInt 1 false true) 1) None None] false.
Example exr_le : read_top (exr_cfg "<") exr_ty [0xB5; 0x6A; 7] 0
  = Ok (VStruct [("a", VInt (0x6AB5 mod 8)); ("b", VInt ((0x6AB5 / 8) mod 512)); ("c", VInt (0x6AB5 / 4096)); ("t", VInt 7)] [("t", 1)], 3).
Proof. vm_compute. reflexivity. Qed.
Example exr_be : read_top (exr_cfg ">") exr_ty [0xB5; 0x6A; 7] 0
  = Ok (VStruct [("a", VInt (0xB56A / 8192)); ("b", VInt ((0xB56A / 16) mod 512)); ("c", VInt (0xB56A mod 16)); ("t", VInt 7)] [("t", 1)], 3).
Proof. vm_compute. reflexivity. Qed.

(* the unit rules on a definition: uint16 a:9; uint16 b:7 share a unit, uint8 c:3 opens one (other type), uint16 d:12 opens one, uint16 e:5 would straddle it *)
Example exl_units :
  layout_struct (ex_cfg "<") false [Fld "a" false u16 (Some 9) None; Fld "b" false u16 (Some 7) None; Fld "c" false (TPrim (PInt 1 false true) 1) (Some 3) None; Fld "d" false u16 (Some 12) None]
    = Ok (mkLay [Some 0; None; Some 2; Some 3] (Some 5) 2) /\
  layout_struct (ex_cfg "<") false [Fld "d" false u16 (Some 12) None; Fld "e" false u16 (Some 5) None] = Err EValue /\
  layout_struct (ex_cfg "<") false [Fld "a" false u16 (Some 17) None] = Err EValue.
Proof. repeat split; vm_compute; reflexivity. Qed.
