(* C07 — array length semantics: fixed, expression, null-terminated and to-end-of-stream. *)
From Coq Require Import Lia.
From VF Require Import Model.Reader Model.Writer Proofs.ReaderProps Proofs.ArrayProps Gen.GeneratedOk.
From VF Require Import Model.Compiler.
From VF Require Proofs.CompilerProps Proofs.CompilerStatic.
Open Scope string_scope. Open Scope list_scope. Open Scope Z_scope.

(* x[n] over generic elements (structures, unions, arrays, LEB128, unpacked integers, pointers): exactly n elements, each read where the
   previous one ended — for every element reader, so in particular for arrays of arrays (C order) and variable-size elements *)
Theorem counted_array_is_n_sequential_reads : forall c fuel el rd n s pos ctx l p, generic_elem el = true -> 0 <= n ->
  read_count c fuel el rd n s pos ctx = Ok (VList l, p) -> seq_n rd (Z.to_nat n) s pos ctx = Ok (l, p) /\ Z.of_nat (length l) = n.
Proof. exact read_count_generic. Qed.
(* the bulk path of packed integers and floats (one read of n*size bytes and one struct.unpack) is element-by-element reading:
   the same values, the same end position and the same error *)
Theorem bulk_unpack_is_sequential : forall c p sz, fixed_scalar p = Some sz -> forall n s pos ctx,
  0 <= pos -> 0 <= n -> Z.of_nat sz * n <= 9223372036854775807 ->
  packed_read_n c p n s pos = seq_n (fun s pos _ => prim_read_at (c_endian c) p s pos) (Z.to_nat n) s pos ctx.
Proof. exact bulk_is_sequential. Qed.
(* x[expr]: the count is max(0, expr) over the fields parsed so far, then the constants *)
Theorem expression_count : forall c fuel el rd toks s pos ctx v, eval_len c ctx toks = Some v ->
  read_array c fuel el rd (LExpr toks false) s pos ctx = read_count c fuel el rd (Z.max 0 v) s pos ctx.
Proof. intros c fuel el rd toks s pos ctx v H. cbn [read_array]. now rewrite H. Qed.
(* x[] over numbers: every kept element is non-zero, they are consecutive reads, and the first zero element is read and dropped *)
Theorem null_terminated_stops_at_first_zero : forall isz rd f s pos ctx l p, zero_term isz rd f s pos ctx = Ok (l, p) ->
  Forall (fun v => isz v = false) l /\
  exists p0 z, seq_n rd (length l) s pos ctx = Ok (l, p0) /\ rd s p0 ctx = Ok (z, p) /\ isz z = true.
Proof. exact zero_term_spec. Qed.
Theorem null_terminated_structures : forall rd f s pos ctx l p, falsy_term rd f s pos ctx = Ok (l, p) ->
  Forall (fun v => truthy_value v = true) l /\
  exists p0 z, seq_n rd (length l) s pos ctx = Ok (l, p0) /\ rd s p0 ctx = Ok (z, p) /\ truthy_value z = false.
Proof. exact falsy_term_spec. Qed.
Theorem null_terminated_chars : forall f s pos bs p, 0 <= pos -> char_term f s pos [] = Ok (VBytes bs, p) ->
  exists body, bs = body /\ Forall (fun b => b <> 0) body /\ sread s pos (zlen body + 1) = body ++ [0] /\ p = pos + zlen body + 1.
Proof. intros f s pos bs p Hp H. exact (char_term_spec f s pos [] bs p Hp H). Qed.
(* x[EOF] over generic elements: consecutive whole elements until the position reaches the end of the stream *)
Theorem to_eof_reads_all : forall rd f s pos ctx l p, seq_eof rd f s pos ctx = Ok (l, p) ->
  seq_n rd (length l) s pos ctx = Ok (l, p) /\ zlen s <= p /\ (l <> [] -> pos < zlen s).
Proof. exact seq_eof_spec. Qed.

(* write side: a fixed-size array of non-character elements with a different number of elements is refused; a null-terminated array is
   dumped as its elements followed by the element type's zero value (characters: the bytes followed by NUL) *)
Theorem wrong_element_count_is_refused : forall c el wr n vs pos sz, ty_size c el = Some sz ->
  (match el with TPrim PChar _ | TPrim PWchar _ => false | _ => true end) = true ->
  n <> Z.of_nat (length vs) -> write_array c el wr (LFixed n) (VList vs) pos = Err EArraySize.
Proof. exact fixed_count_enforced. Qed.
Theorem null_terminated_dump_appends_zero : forall c el wr vs pos,
  (match el with TPrim PChar _ | TPrim PWchar _ => false | _ => true end) = true ->
  write_array c el wr LNull (VList vs) pos = write_list c el wr (vs ++ [default_value el]) pos.
Proof. exact null_terminated_dump. Qed.
Theorem null_terminated_chars_dump_appends_nul : forall c al wr bs pos, write_array c (TPrim PChar al) wr LNull (VBytes bs) pos = Ok (bs ++ [0]).
Proof. exact null_terminated_dump_chars. Qed.

(* the COMPILED reader has the same array semantics: for the structures C03's theorems cover - packed ones with counted, expression-counted,
   null-terminated and multi-dimensional array members (read by the arrays' own readers, to which the theorems above apply) and fixed arrays of
   scalars (read in blocks) - the generated statements return what the interpreted structure reader returns, member by member *)
Theorem compiled_reader_has_the_interpreted_array_semantics : forall c fuel nm fs p,
  Forall (fun f => f_off f = None /\ CompilerProps.cls' c fuel f) fs -> NoDup (map f_name fs) -> CompilerProps.bsize c fs <= 9223372036854775807 ->
  compile_plan c false fs = Ok p ->
  forall s pos ctx, 0 <= pos -> CompilerProps.req (read_compiled c fuel false fs s pos) (read_ty c fuel (TStruct nm fs false) s pos ctx).
Proof. exact CompilerProps.compiled_is_interpreted. Qed.
Theorem compiled_static_reader_has_the_interpreted_array_semantics : forall c fuel al nm fs p,
  Forall (CompilerStatic.stcls c fuel al) fs -> NoDup (map f_name fs) -> (forall lay n, layout_struct c al fs = Ok lay -> l_size lay = Some n -> n <= 9223372036854775807) ->
  compile_plan c al fs = Ok p ->
  forall s pos ctx, 0 <= pos -> CompilerProps.req (read_compiled c fuel al fs s pos) (read_ty c fuel (TStruct nm fs al) s pos ctx).
Proof. exact CompilerStatic.compiled_static_is_interpreted. Qed.

Print Assumptions compiled_reader_has_the_interpreted_array_semantics.
Print Assumptions counted_array_is_n_sequential_reads.
Print Assumptions wrong_element_count_is_refused.
Print Assumptions bulk_unpack_is_sequential.
Print Assumptions expression_count.
Print Assumptions null_terminated_stops_at_first_zero.
Print Assumptions null_terminated_structures.
Print Assumptions null_terminated_chars.
Print Assumptions to_eof_reads_all.

(* non-vacuity *)
Definition ex_cfg := mkCfg "<" (PInt 8 false true) 8 [] [].
Definition u16 := TPrim (PInt 2 false true) 2.
Example ex_bulk : packed_read_n ex_cfg (PInt 2 false true) 3 [1; 0; 2; 0; 3; 0; 9] 0 = Ok ([VInt 1; VInt 2; VInt 3], 6).
Proof. vm_compute. reflexivity. Qed.
Example ex_null : read_top ex_cfg (TArr u16 LNull) [1; 0; 2; 0; 0; 0; 9; 9] 0 = Ok (VList [VInt 1; VInt 2], 6).
Proof. vm_compute. reflexivity. Qed.
Example ex_eof : read_top ex_cfg (TArr (TPrim (PInt 3 false false) 4) (LExpr ["EOF"] true)) [1; 0; 0; 2; 0; 0] 0 = Ok (VList [VInt 1; VInt 2], 6).
Proof. vm_compute. reflexivity. Qed.
Example ex_nested : read_top ex_cfg (TArr (TArr (TPrim (PLeb false) 1) (LFixed 2)) (LFixed 2)) [1; 130; 1; 3; 4] 0
  = Ok (VList [VList [VInt 1; VInt 130]; VList [VInt 3; VInt 4]], 5).
Proof. vm_compute. reflexivity. Qed.

(* non-vacuity of the compiled statement: struct { uint8 n; uint16 d[n]; char s[]; uint8 m[2][2]; uint32 f[3]; } is in the class, compiles, and reads *)
Definition exc_fs := [Fld "n" false (TPrim (PInt 1 false true) 1) None None; Fld "d" false (TArr u16 (LExpr ["n"] false)) None None;
                      Fld "s" false (TArr (TPrim PChar 1) LNull) None None; Fld "m" false (TArr (TArr (TPrim (PInt 1 false true) 1) (LFixed 2)) (LFixed 2)) None None;
                      Fld "f" false (TArr (TPrim (PInt 4 false true) 4) (LFixed 3)) None None].
Example exc_class : Forall (fun f => f_off f = None /\ CompilerProps.cls' ex_cfg 50 f) exc_fs /\ (exists p, compile_plan ex_cfg false exc_fs = Ok p) /\
  exists v, read_compiled ex_cfg 50 false exc_fs [2; 1; 0; 2; 0; 97; 98; 0; 1; 2; 3; 4; 5; 0; 0; 0; 6; 0; 0; 0; 7; 0; 0; 0] 0 = Ok (v, 24) /\
            read_ty ex_cfg 50 (TStruct "m" exc_fs false) [2; 1; 0; 2; 0; 97; 98; 0; 1; 2; 3; 4; 5; 0; 0; 0; 6; 0; 0; 0; 7; 0; 0; 0] 0 [] = Ok (v, 24).
Proof.
  split; [|split].
  - repeat (apply Forall_cons; [split; [reflexivity|];
        first [ left; split; [reflexivity|]; left; vm_compute; discriminate
              | left; split; [reflexivity|]; right; split; [reflexivity|]; apply CompilerProps.sub_ok_of_shift; [vm_compute; reflexivity|intros k H; vm_compute in H; try discriminate; injection H as <-; lia] ]|]).
    apply Forall_nil.
  - eexists. vm_compute. reflexivity.
  - eexists. split; vm_compute; reflexivity.
Qed.
