(* C07 — Array length semantics. (theorems are added by Proofs/ArrayCorrect.v) *)
From VF Require Import Model.Writer Gen.GeneratedOk.
