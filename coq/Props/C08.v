(* C08 — truncated input never fabricates data. (theorems added by Proofs/ReaderProps.v) *)
From VF Require Import Model.Writer Gen.GeneratedOk.
