From Coq Require Import Lia.
(* C08 — Truncated or failing input never fabricates data. *)
From VF Require Import Model.Reader Model.Compiler Proofs.ReaderProps Proofs.UnionExt Gen.GeneratedOk.
From VF Require Proofs.CompilerProps Proofs.CompiledRoundTrip Proofs.CompilerGaps Proofs.CompilerStatic Proofs.CompilerAligned Proofs.CompiledAligned.
Open Scope string_scope. Open Scope list_scope. Open Scope Z_scope.

(* For every type without unions and to-end-of-stream arrays (`simple`), every configuration, every input and every cut point k:
   whatever parsing the shortened input returns, parsing the complete input returns — the same value and the same end position.
   So a cut can only produce an error or exactly the value of the complete input: nothing is fabricated. *)
Theorem prefix_stable : forall c t s k r, simple t = true ->
  read_top c t (firstn k s) 0 = Ok r -> read_top c t s 0 = Ok r.
Proof. exact read_top_prefix_stable. Qed.
(* the same at every position, context and fuel, for every extension of the stream *)
Theorem extension_stable : forall c fuel t, simple t = true ->
  forall s1 s2 pos ctx r, read_ty c fuel t s1 pos ctx = Ok r -> read_ty c fuel t (s1 ++ s2) pos ctx = Ok r.
Proof. exact read_ty_ext. Qed.
(* ... and for the universe extended by DYNAMICALLY SIZED unions (`simple_u`: a union none of whose sizes is static, over members of the class): since
   the union's extent is the furthest end any member reached, the buffer it re-reads is what its members consumed, and cutting the input can only
   make it fail.  (A union of static size reads its declared size in one go and, at the end of the input, keeps a short raw buffer: its members
   are stable, the buffer is not - those stay with the oracle.) *)
Theorem extension_stable_with_dynamic_unions : forall c fuel t, simple_u c t = true ->
  forall s1 s2 pos ctx r, read_ty c fuel t s1 pos ctx = Ok r -> read_ty c fuel t (s1 ++ s2) pos ctx = Ok r.
Proof. exact read_ty_ext_u. Qed.
Theorem simple_types_are_in_the_extended_class : forall c t, simple t = true -> simple_u c t = true.
Proof. exact simple_simple_u. Qed.
(* more loop fuel never changes a result (the fuel is a proof device, not a behaviour) *)
Theorem fuel_irrelevant : forall c t, simple t = true ->
  forall f f' s pos ctx r, (f <= f')%nat -> read_ty c f t s pos ctx = Ok r -> read_ty c f' t s pos ctx = Ok r.
Proof. exact read_ty_mono. Qed.
(* a scalar whose bytes are not all there is an EOF error: reading exactly n bytes either succeeds with n bytes or fails with EEof *)
Theorem short_read_is_eof : forall s pos n, 0 <= n <= 9223372036854775807 -> zlen (srest s pos) < n -> sread_exact s pos n = Err EEof.
Proof. exact short_read_eof. Qed.

(* the COMPILED reader (C03's theorem composed with extension_stable): a value the generated statements return from a stream is the value they
   return from every extension of it - cutting the input can make the compiled reader fail, never return something else *)
Theorem compiled_reader_extension_stable : forall c fuel nm fs p,
  Forall (fun f => f_off f = None /\ CompilerProps.cls' c fuel f) fs -> NoDup (map f_name fs) -> CompilerProps.bsize c fs <= 9223372036854775807 -> compile_plan c false fs = Ok p ->
  simple (TStruct nm fs false) = true ->
  forall s1 s2 pos r, 0 <= pos -> read_compiled c fuel false fs s1 pos = Ok r -> read_compiled c fuel false fs (s1 ++ s2) pos = Ok r.
Proof. exact CompiledRoundTrip.compiled_extension_stable. Qed.

(* ... and the compiled reader of an ALIGNED structure with a static layout (scalars, nested structures and unions, arrays of them) *)
Theorem compiled_aligned_reader_extension_stable : forall c fuel nm fs p,
  Forall (CompilerStatic.stcls c fuel true) fs -> NoDup (map f_name fs) -> CompiledAligned.size_fits c fs -> compile_plan c true fs = Ok p -> simple (TStruct nm fs true) = true ->
  forall s1 s2 pos r, 0 <= pos -> read_compiled c fuel true fs s1 pos = Ok r -> read_compiled c fuel true fs (s1 ++ s2) pos = Ok r.
Proof. exact CompiledAligned.compiled_aligned_extension_stable. Qed.

(* ... and the generated reader of an ALIGNED structure with dynamically sized members (counted, null-terminated arrays, ... - no bit fields) *)
Theorem compiled_aligned_dynamic_reader_extension_stable : forall c fuel nm fs p,
  Forall (CompilerAligned.adcls c fuel) fs -> NoDup (map f_name fs) -> CompiledAligned.layout_fits c fs -> compile_plan c true fs = Ok p -> simple (TStruct nm fs true) = true ->
  forall s1 s2 pos r, 0 <= pos -> read_compiled c fuel true fs s1 pos = Ok r -> read_compiled c fuel true fs (s1 ++ s2) pos = Ok r.
Proof. exact CompiledAligned.compiled_aligned_dynamic_extension_stable. Qed.

Print Assumptions compiled_aligned_dynamic_reader_extension_stable.
Print Assumptions extension_stable_with_dynamic_unions.
Print Assumptions compiled_aligned_reader_extension_stable.
Print Assumptions compiled_reader_extension_stable.
Print Assumptions prefix_stable.
Print Assumptions extension_stable.
Print Assumptions fuel_irrelevant.

(* non-vacuity: a structure with a counted array, a null-terminated string, bit fields and a nested structure is `simple`; every cut of an accepted input fails *)
Definition ex_cfg := mkCfg "<" (PInt 8 false true) 8 [] [].
Definition u8 := TPrim (PInt 1 false true) 1.
Definition ex_ty := TStruct "m" [Fld "n" false u8 None None; Fld "d" false (TArr (TPrim (PInt 2 false true) 2) (LExpr ["n"] false)) None None;
                                 Fld "s" false (TArr (TPrim PChar 1) LNull) None None; Fld "a" false u8 (Some 3) None; Fld "b" false u8 (Some 5) None;
                                 Fld "in" false (TStruct "i" [Fld "x" false (TPrim (PInt 3 true false) 4) None None] false) None None] false.
Example ex_simple : simple ex_ty = true.
Proof. reflexivity. Qed.
Example ex_cuts : let s := [2; 1; 0; 2; 0; 104; 105; 0; 171; 1; 2; 3] in
  (exists v, read_top ex_cfg ex_ty s 0 = Ok (v, 12)) /\
  forallb (fun k => match read_top ex_cfg ex_ty (firstn k s) 0 with Err EEof => true | _ => false end) (seq 0 12) = true.
Proof. vm_compute. split; [eexists; reflexivity|reflexivity]. Qed.

(* non-vacuity of the compiled aligned theorems: struct N { uint8 x; uint32 y; }; struct { uint8 a; N n; uint16 b; N arr[2]; char d[3]; uint8 m[2][2]; uint64 q; } aligned *)
Definition exa_cfg := mkCfg "<" (PInt 8 false true) 8 [] [].
Definition exa_N := TStruct "N" [Fld "x" false (TPrim (PInt 1 false true) 1) None None; Fld "y" false (TPrim (PInt 4 false true) 4) None None] true.
Definition exa_fs := [Fld "a" false (TPrim (PInt 1 false true) 1) None None; Fld "n" false exa_N None None; Fld "b" false (TPrim (PInt 2 false true) 2) None None;
                      Fld "arr" false (TArr exa_N (LFixed 2)) None None; Fld "d" false (TArr (TPrim PChar 1) (LFixed 3)) None None;
                      Fld "m" false (TArr (TArr (TPrim (PInt 1 false true) 1) (LFixed 2)) (LFixed 2)) None None; Fld "q" false (TPrim (PInt 8 false true) 8) None None].
Example exa_class : Forall (CompilerStatic.stcls exa_cfg 50 true) exa_fs /\ NoDup (map f_name exa_fs) /\ CompiledAligned.size_fits exa_cfg exa_fs /\ (exists p, compile_plan exa_cfg true exa_fs = Ok p) /\ simple (TStruct "m" exa_fs true) = true.
Proof.
  split; [|split; [|split; [|split]]].
  - repeat (apply Forall_cons; [split; [reflexivity|]; split; [split; [reflexivity|];
        first [ left; split; [vm_compute; discriminate|vm_compute; split; [reflexivity|discriminate]]
              | right; split; [reflexivity|]; split; [reflexivity|]; split; [apply CompilerProps.sub_ok_of_shift; [vm_compute; reflexivity|intros n H; vm_compute in H; injection H as <-; lia]|eexists; vm_compute; reflexivity] ]
        | intros _; vm_compute; discriminate]|]).
    apply Forall_nil.
  - cbn. repeat constructor; cbn; intuition discriminate.
  - intros lay n H. vm_compute in H. injection H as <-. cbn [l_size]. intros H. injection H as <-. lia.
  - eexists. vm_compute. reflexivity.
  - vm_compute; reflexivity.
Qed.

(* non-vacuity: struct { uint8 k; union { char s[]; uint8 n; } u; uint16 t; } - the union spans the NUL-terminated string, t follows it *)
Definition exu_ty := TStruct "m" [Fld "k" false (TPrim (PInt 1 false true) 1) None None;
                                  Fld "u" false (TUnion "u" [Fld "s" false (TArr (TPrim PChar 1) LNull) None None; Fld "n" false (TPrim (PInt 1 false true) 1) None None] false) None None;
                                  Fld "t" false (TPrim (PInt 2 false true) 2) None None] false.
Example exu_class : simple_u ex_cfg exu_ty = true /\ simple exu_ty = false.
Proof. split; vm_compute; reflexivity. Qed.
Example exu_run : (exists v, read_top ex_cfg exu_ty [1; 97; 98; 0; 5; 6] 0 = Ok (v, 6) /\ read_top ex_cfg exu_ty [1; 97; 98; 0; 5; 6; 255; 255] 0 = Ok (v, 6)) /\
  (exists er, read_top ex_cfg exu_ty [1; 97; 98; 0; 5] 0 = Err er).
Proof. split; [eexists; split; vm_compute; reflexivity|eexists; vm_compute; reflexivity]. Qed.
