From Coq Require Import Lia.
(* C09 — stream discipline: position independence. *)
From VF Require Import Model.Compiler.
From VF Require Import Model.Reader Model.Writer Proofs.ReaderProps Proofs.ShiftProps Proofs.UnionExt Gen.GeneratedOk.
From VF Require Proofs.CompilerProps Proofs.CompiledRoundTrip Proofs.CompilerGaps Proofs.CompilerStatic Proofs.CompilerAligned Proofs.CompiledAligned.
Open Scope string_scope. Open Scope list_scope. Open Scope Z_scope.

(* For every type (structures, unions, all four array forms, bit fields, pointers; aligned structures when the start offset is a multiple of
   their power-of-two alignments — `shift_ok pre c t`), every configuration, input, context, fuel and start position:
   parsing at position p = |pre| + pos of pre ++ s returns exactly what parsing s at pos returns — the same value or the same error —
   with the end position moved by |pre|.  The value never depends on the bytes before p, and the stream is left at p plus the encoded size. *)
Theorem position_independent : forall pre c fuel t, shift_ok pre c t = true ->
  forall s pos ctx, 0 <= pos ->
    read_ty c fuel t (pre ++ s) (zlen pre + pos) ctx = shift (zlen pre) (read_ty c fuel t s pos ctx).
Proof. intros pre c fuel t H s pos ctx Hp. exact (proj1 (read_ty_shift pre c fuel t H s pos ctx Hp)). Qed.
(* two streams that agree from p on *)
Theorem bytes_before_p_irrelevant : forall c fuel t pre1 pre2 s pos ctx, zlen pre1 = zlen pre2 ->
  shift_ok pre1 c t = true -> shift_ok pre2 c t = true -> 0 <= pos ->
  read_ty c fuel t (pre1 ++ s) (zlen pre1 + pos) ctx = read_ty c fuel t (pre2 ++ s) (zlen pre2 + pos) ctx.
Proof. exact prefix_irrelevant. Qed.
(* at the public entry point (fuel chosen from the stream length) *)
Theorem entry_point_position_independent : forall c t pre s pos r, simple t = true -> shift_ok pre c t = true -> 0 <= pos ->
  read_top c t s pos = Ok r -> read_top c t (pre ++ s) (zlen pre + pos) = shift (zlen pre) (Ok r).
Proof. exact read_top_shift. Qed.
(* bytes after the parsed extent never matter (C08's extension stability, restated for C09) *)
Theorem bytes_after_irrelevant : forall c fuel t, simple t = true ->
  forall s1 s2 pos ctx r, read_ty c fuel t s1 pos ctx = Ok r -> read_ty c fuel t (s1 ++ s2) pos ctx = Ok r.
Proof. exact read_ty_ext. Qed.

(* ... also for dynamically sized unions, whose extent is the furthest end any member reached: no member reads behind the union's extent any more *)
Theorem bytes_after_irrelevant_with_dynamic_unions : forall c fuel t, simple_u c t = true ->
  forall s1 s2 pos ctx r, read_ty c fuel t s1 pos ctx = Ok r -> read_ty c fuel t (s1 ++ s2) pos ctx = Ok r.
Proof. exact read_ty_ext_u. Qed.

(* the COMPILED reader (C03's theorem composed with position_independent): the generated statements give at position |pre| + pos of pre ++ s what
   they give at pos of s, shifted by |pre| - the same value or both fail *)
Theorem compiled_reader_position_independent : forall pre c fuel nm fs p,
  Forall (fun f => f_off f = None /\ CompilerProps.cls' c fuel f) fs -> NoDup (map f_name fs) -> CompilerProps.bsize c fs <= 9223372036854775807 -> compile_plan c false fs = Ok p ->
  shift_ok pre c (TStruct nm fs false) = true ->
  forall s pos, 0 <= pos -> CompilerProps.req (read_compiled c fuel false fs (pre ++ s) (zlen pre + pos)) (shift (zlen pre) (read_compiled c fuel false fs s pos)).
Proof. exact CompiledRoundTrip.compiled_position_independent. Qed.

(* ... and the compiled reader of an ALIGNED structure with a static layout (scalars, nested structures and unions, arrays of them), for prefixes whose length is a multiple of the alignments (`shift_ok`) *)
Theorem compiled_aligned_reader_position_independent : forall pre c fuel nm fs p,
  Forall (CompilerStatic.stcls c fuel true) fs -> NoDup (map f_name fs) -> CompiledAligned.size_fits c fs -> compile_plan c true fs = Ok p -> shift_ok pre c (TStruct nm fs true) = true ->
  forall s pos, 0 <= pos -> CompilerProps.req (read_compiled c fuel true fs (pre ++ s) (zlen pre + pos)) (shift (zlen pre) (read_compiled c fuel true fs s pos)).
Proof. exact CompiledAligned.compiled_aligned_position_independent. Qed.

(* ... and the generated reader of an ALIGNED structure with dynamically sized members *)
Theorem compiled_aligned_dynamic_reader_position_independent : forall pre c fuel nm fs p,
  Forall (CompilerAligned.adcls c fuel) fs -> NoDup (map f_name fs) -> CompiledAligned.layout_fits c fs -> compile_plan c true fs = Ok p -> shift_ok pre c (TStruct nm fs true) = true ->
  forall s pos, 0 <= pos -> CompilerProps.req (read_compiled c fuel true fs (pre ++ s) (zlen pre + pos)) (shift (zlen pre) (read_compiled c fuel true fs s pos)).
Proof. exact CompiledAligned.compiled_aligned_dynamic_position_independent. Qed.

Print Assumptions compiled_aligned_dynamic_reader_position_independent.
Print Assumptions bytes_after_irrelevant_with_dynamic_unions.
Print Assumptions compiled_aligned_reader_position_independent.
Print Assumptions compiled_reader_position_independent.
Print Assumptions position_independent.
Print Assumptions bytes_before_p_irrelevant.
Print Assumptions entry_point_position_independent.
Print Assumptions bytes_after_irrelevant.

(* non-vacuity: an aligned structure with a nested union, a counted array and bit fields satisfies shift_ok for an 8-byte prefix, and parsing at 8 equals parsing alone *)
Definition ex_cfg := mkCfg "<" (PInt 8 false true) 8 [] [].
Definition u8 := TPrim (PInt 1 false true) 1.
Definition u32 := TPrim (PInt 4 false true) 4.
Definition ex_ty := TStruct "m" [Fld "n" false u8 None None; Fld "w" false u32 None None;
                                 Fld "u" false (TUnion "u" [Fld "a" false u32 None None; Fld "b" false (TArr u8 (LFixed 4)) None None] true) None None;
                                 Fld "d" false (TArr (TPrim (PInt 2 false true) 2) (LExpr ["n"] false)) None None;
                                 Fld "x" false u8 (Some 3) None; Fld "y" false u8 (Some 5) None] true.
Definition ex_pre := [9; 9; 9; 9; 9; 9; 9; 9].
Example ex_ok : shift_ok ex_pre ex_cfg ex_ty = true.
Proof. vm_compute. reflexivity. Qed.
Example ex_unaligned_prefix_rejected : shift_ok [9; 9; 9] ex_cfg ex_ty = false.
Proof. vm_compute. reflexivity. Qed.
Example ex_shift : let s := [2; 0; 0; 0; 1; 2; 3; 4; 5; 6; 7; 8; 1; 0; 2; 0; 171; 0; 0; 0] in
  (exists v, read_top ex_cfg ex_ty s 0 = Ok (v, 20)) /\
  rvz_eqb (read_top ex_cfg ex_ty (ex_pre ++ s) 8) (shift 8 (read_top ex_cfg ex_ty s 0)) = true.
Proof. vm_compute. split; [eexists; reflexivity|reflexivity]. Qed.

(* non-vacuity of the compiled aligned theorems: struct N { uint8 x; uint32 y; }; struct { uint8 a; N n; uint16 b; N arr[2]; char d[3]; uint8 m[2][2]; uint64 q; } aligned *)
Definition exa_cfg := mkCfg "<" (PInt 8 false true) 8 [] [].
Definition exa_N := TStruct "N" [Fld "x" false (TPrim (PInt 1 false true) 1) None None; Fld "y" false (TPrim (PInt 4 false true) 4) None None] true.
Definition exa_fs := [Fld "a" false (TPrim (PInt 1 false true) 1) None None; Fld "n" false exa_N None None; Fld "b" false (TPrim (PInt 2 false true) 2) None None;
                      Fld "arr" false (TArr exa_N (LFixed 2)) None None; Fld "d" false (TArr (TPrim PChar 1) (LFixed 3)) None None;
                      Fld "m" false (TArr (TArr (TPrim (PInt 1 false true) 1) (LFixed 2)) (LFixed 2)) None None; Fld "q" false (TPrim (PInt 8 false true) 8) None None].
Example exa_class : Forall (CompilerStatic.stcls exa_cfg 50 true) exa_fs /\ NoDup (map f_name exa_fs) /\ CompiledAligned.size_fits exa_cfg exa_fs /\ (exists p, compile_plan exa_cfg true exa_fs = Ok p) /\ shift_ok [1; 2; 3; 4; 5; 6; 7; 8] exa_cfg (TStruct "m" exa_fs true) = true.
Proof.
  split; [|split; [|split; [|split]]].
  - repeat (apply Forall_cons; [split; [reflexivity|]; split; [split; [reflexivity|];
        first [ left; split; [vm_compute; discriminate|vm_compute; split; [reflexivity|discriminate]]
              | right; split; [reflexivity|]; split; [reflexivity|]; split; [apply CompilerProps.sub_ok_of_shift; [vm_compute; reflexivity|intros n H; vm_compute in H; injection H as <-; lia]|eexists; vm_compute; reflexivity] ]
        | intros _; vm_compute; discriminate]|]).
    apply Forall_nil.
  - cbn. repeat constructor; cbn; intuition discriminate.
  - intros lay n H. vm_compute in H. injection H as <-. cbn [l_size]. intros H. injection H as <-. lia.
  - eexists. vm_compute. reflexivity.
  - vm_compute; reflexivity.
Qed.
