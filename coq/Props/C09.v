(* C09 — stream discipline. (theorems added by Proofs/ReaderProps.v) *)
From VF Require Import Model.Writer Gen.GeneratedOk.
