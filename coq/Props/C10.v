(* C10 — Expressions evaluate with C precedence and associativity, repeatably.
   This file holds only the property theorems (closed by `exact`), their non-vacuity examples and
   Print Assumptions.  Model: Model/Expr.v (the code), Model/ExprSpec.v (the C grammar and its meaning). *)
From VF Require Import Model.ExprSpec Proofs.ExprCorrect Proofs.LexerProps.
Open Scope string_scope. Open Scope list_scope. Open Scope Z_scope.

(* Every parse tree of the stratified C grammar (binary * / % + - << >> & ^ |, unary - ~, parentheses,
   sizeof, literals in four bases, identifiers) evaluates — through the unary-minus rewriting pass and the
   shunting-yard loop of Expression.evaluate, on the token sequence the tokenizer delivers for it — to its
   denotation over unbounded integers, identifiers resolved in the context first and then in the constants;
   `None` on both sides exactly when the C value is undefined (division by zero, negative shift, unbound name).
   Hypotheses: field and constant names are identifiers other than `sizeof`. *)
Theorem eval_correct :
  forall (ctx consts : list (string * Z)) (sizeof_of : string -> option Z),
    names_ok ctx = true -> names_ok consts = true -> forall e : expr, wf 0 e = true ->
    evaluate ctx consts sizeof_of (flat e) = denote ctx consts sizeof_of e.
Proof. exact evaluate_flat. Qed.
Print Assumptions eval_correct.

(* Evaluating the same Expression object again, with the same or different contexts, gives what a fresh
   object gives — for EVERY token list (well-formed or not) and every sequence of contexts. *)
Theorem eval_repeatable :
  forall consts sizeof_of (tokens : list string) (ctxs : list (list (string * Z))),
    eval_history consts sizeof_of tokens ctxs = map (fun c => evaluate c consts sizeof_of tokens) ctxs.
Proof. exact history_is_fresh. Qed.
Print Assumptions eval_repeatable.

(* the rewriting pass marks exactly the unary minuses of a well-formed expression *)
Theorem minus_classified : forall e, wf 0 e = true -> rewrite_minus (flat e) = flatm e.
Proof. exact rewrite_minus_flat. Qed.
Print Assumptions minus_classified.

(* the tokenizer: well-formed tokens (identifiers, decimal numbers, the one-character operators, << and >>) written with one blank after
   each are read back as exactly that token list, for every such list *)
Theorem tokenizer_reads_back : forall toks, Forall wf_tok toks -> tokenize (str_of (render toks)) = Some (map str_of toks).
Proof. exact tokenize_render. Qed.
Print Assumptions tokenizer_reads_back.
(* ... and with the other literal forms: hexadecimal / binary literals (0x, 0X, 0b, 0B + hex digits) and decimal numbers, each followed by any
   of the integer suffixes u, l, ll, ul, lu, ull, llu (either case), are read back as the literal WITHOUT its suffix *)
Theorem tokenizer_reads_back_prefixed_and_suffixed_literals : forall toks, Forall (fun t => wf_wtok (fst t) (snd t)) toks ->
  tokenize (str_of (render_w toks)) = Some (map (fun t => str_of (snd t)) toks).
Proof. exact tokenize_render_w. Qed.
Print Assumptions tokenizer_reads_back_prefixed_and_suffixed_literals.
(* C octal: `017` is one of the written forms of the theorem above (WwOctal), read back as the token 0o17, which int(token, 0) reads in base 8 *)
Theorem c_octal_token_is_read_in_base_8 : forall c t, parse_int (str_of ("0"%char :: ch "o" :: c :: t)) = parse_base 8 (c :: t) 0.
Proof. exact parse_int_octal. Qed.
Example ex_octal : tokenize "017 + 0x1F" = Some ["0o17"; "+"; "0x1F"] /\ parse_int "0o17" = Some 15%Z
  /\ wf_wtok (chars_of "017") (chars_of "0o17").
Proof. split; [vm_compute; reflexivity|]. split; [vm_compute; reflexivity|].
  apply (WwOctal "1"%char ["7"%char] []); [reflexivity|reflexivity|vm_compute; tauto]. Qed.

Example ex_tokens_literals : tokenize "0x1FuL + 12ull * 0b101 - n" = Some ["0x1F"; "+"; "12"; "*"; "0b101"; "-"; "n"]
  /\ wf_wtok (chars_of "0x1FuL") (chars_of "0x1F") /\ wf_wtok (chars_of "12ull") (chars_of "12").
Proof.
  split; [vm_compute; reflexivity|]. split.
  - apply (WwPrefixed "x"%char "1"%char ["F"%char] (chars_of "uL")); [reflexivity|reflexivity|vm_compute; tauto].
  - apply (WwDecimalSuffixed "1"%char ["2"%char] (chars_of "ull")); [reflexivity|reflexivity|reflexivity|vm_compute; tauto].
Qed.

Example ex_tokens : tokenize "n * 2 + ( m >> 1 ) - 10" = Some ["n"; "*"; "2"; "+"; "("; "m"; ">>"; "1"; ")"; "-"; "10"].
Proof. vm_compute. reflexivity. Qed.

(* non-vacuity: a concrete tree with every construct meets the hypotheses, and the theorem's two sides compute *)
Definition ex_tree : expr :=
  EBin BSub (EBin BSub (EId "u") (ELit "0x10"))
            (EBin BMul (EUn UNeg (EPar (EBin BAdd (ESizeof "uint32") (ELit "0o7")))) (EUn UInv (EId "n"))).
Example ex_wf : wf 0 ex_tree = true /\ names_ok [("u", 100); ("n", 2)] = true /\ names_ok [("n", 9)] = true.
Proof. vm_compute. repeat split. Qed.
Example ex_value :
  evaluate [("u", 100); ("n", 2)] [("n", 9)] (fun _ => Some 4) (flat ex_tree) = Some (100 - 16 - (-(4 + 7)) * Z.lnot 2).
Proof. vm_compute. reflexivity. Qed.
Example ex_left_assoc : evaluate [] [] (fun _ => None) ["7"; "-"; "2"; "-"; "1"] = Some 4.
Proof. vm_compute. reflexivity. Qed.
