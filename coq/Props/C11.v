(* C11 — Union members are coherent views of one byte buffer. *)
From VF Require Import Model.Union Proofs.UnionCorrect Proofs.LayoutCorrect Gen.GeneratedOk.
Open Scope string_scope. Open Scope list_scope. Open Scope Z_scope.

(* size: largest member, rounded up to the union's alignment in aligned mode *)
Theorem union_size : forall c aligned fs,
  l_size (layout_union c aligned fs) =
  (let m := fold_left (fun acc f => match acc, ty_size c (f_ty f) with Some s, Some n => Some (Z.max n s) | _, _ => None end) fs (Some 0) in
   let al := fold_left (fun acc f => Z.max (field_align c f) acc) fs 0 in
   match m with Some s => if aligned then Some (s + pad_to s al) else Some s | None => None end).
Proof. exact union_layout. Qed.
(* assigning member `name`: the buffer is overwritten with the member's new bytes at its offset, every member is re-read from the buffer *)
Theorem union_assign_is_overwrite : forall c fs aligned buf ms name v sz f bs ms',
  l_size (layout_union c aligned fs) = Some sz -> find_field name fs = Some f -> buf <> [] ->
  write_ty c (f_ty f) v (match f_off f with Some o => o | None => 0 end) = Ok bs ->
  union_members c fs (overwrite buf (match f_off f with Some o => o | None => 0 end) bs) = Ok ms' ->
  union_assign c fs aligned (VUnion buf ms) name v = Ok (VUnion (overwrite buf (match f_off f with Some o => o | None => 0 end) bs) ms').
Proof. exact union_assign_spec. Qed.
(* ... and overwriting changes exactly the written range: new bytes there, the old bytes everywhere else, same length *)
Theorem overwrite_is_local : forall buf off bs i d, 0 <= off -> (Z.to_nat off + length bs <= length buf)%nat ->
  nth i (overwrite buf off bs) d =
  if (i <? Z.to_nat off)%nat then nth i buf d
  else if (i <? Z.to_nat off + length bs)%nat then nth (i - Z.to_nat off) bs d
  else nth i buf d.
Proof. exact overwrite_nth. Qed.
Theorem overwrite_keeps_length : forall buf off bs, 0 <= off -> (Z.to_nat off + length bs <= length buf)%nat -> length (overwrite buf off bs) = length buf.
Proof. exact overwrite_length. Qed.

(* parsing: the union's value holds the bytes read (the union's size of them; fewer only at the end of input), the stream moves by exactly those
   bytes, and EVERY member's value is what the member's own type parses from the union's bytes at the member's offset *)
Theorem members_are_views_of_the_unions_bytes : forall c fuel nm fs al sz s pos ctx v p,
  l_size (layout_union c al fs) = Some sz -> read_ty c fuel (TUnion nm fs al) s pos ctx = Ok (v, p) ->
  exists ms, v = VUnion (sread s pos sz) ms /\ p = pos + zlen (sread s pos sz) /\
    Forall2 (fun f nv => fst nv = f_name f /\
                         exists lctx q, read_ty c fuel (f_ty f) (sread s pos sz) (match f_off f with Some o => o | None => 0 end) lctx = Ok (snd nv, q)) fs ms.
Proof. exact union_read_views. Qed.
Theorem union_parse_consumes_its_size : forall c fuel nm fs al sz s pos ctx v p,
  l_size (layout_union c al fs) = Some sz -> 0 <= pos -> 0 <= sz -> sz <= zlen (srest s pos) ->
  read_ty c fuel (TUnion nm fs al) s pos ctx = Ok (v, p) -> p = pos + sz.
Proof. exact union_read_consumes. Qed.

Print Assumptions members_are_views_of_the_unions_bytes.
Print Assumptions union_parse_consumes_its_size.
Print Assumptions union_assign_is_overwrite.
Print Assumptions overwrite_is_local.

Definition ex_cfg := mkCfg "<" (PInt 8 false true) 8 [] [].
Definition ex_fs := [Fld "a" false (TPrim (PInt 4 false true) 4) None None; Fld "b" false (TArr (TPrim (PInt 1 false true) 1) (LFixed 4)) None None].
Example ex_assign : union_assign ex_cfg ex_fs false (VUnion [1; 2; 3; 4] []) "b" (VList [VInt 9; VInt 8; VInt 7; VInt 6])
  = Ok (VUnion [9; 8; 7; 6] [("a", VInt 101124105); ("b", VList [VInt 9; VInt 8; VInt 7; VInt 6])]).
Proof. vm_compute. reflexivity. Qed.
Example ex_read : read_ty ex_cfg 10 (TUnion "u" ex_fs false) [9; 1; 2; 3; 4; 7] 1 [] = Ok (VUnion [1; 2; 3; 4] [("a", VInt 67305985); ("b", VList [VInt 1; VInt 2; VInt 3; VInt 4])], 5)
  /\ l_size (layout_union ex_cfg false ex_fs) = Some 4.
Proof. vm_compute. split; reflexivity. Qed.
