(* C11 — Union members are coherent views of one byte buffer. *)
From VF Require Import Model.Union Proofs.UnionCorrect Proofs.LayoutCorrect Gen.GeneratedOk.
Open Scope string_scope. Open Scope list_scope. Open Scope Z_scope.

(* size: largest member, rounded up to the union's alignment in aligned mode *)
Theorem union_size : forall c aligned fs,
  l_size (layout_union c aligned fs) =
  (let m := fold_left (fun acc f => match acc, ty_size c (f_ty f) with Some s, Some n => Some (Z.max n s) | _, _ => None end) fs (Some 0) in
   let al := fold_left (fun acc f => Z.max (field_align c f) acc) fs 0 in
   match m with Some s => if aligned then Some (s + pad_to s al) else Some s | None => None end).
Proof. exact union_layout. Qed.
(* assigning member `name`: the buffer is overwritten with the member's new bytes at its offset, every member is re-read from the buffer *)
Theorem union_assign_is_overwrite : forall c fs aligned buf ms name v sz f bs ms',
  l_size (layout_union c aligned fs) = Some sz -> find_field name fs = Some f -> buf <> [] ->
  write_ty c (f_ty f) v (match f_off f with Some o => o | None => 0 end) = Ok bs ->
  union_members c fs (overwrite buf (match f_off f with Some o => o | None => 0 end) bs) = Ok ms' ->
  union_assign c fs aligned (VUnion buf ms) name v = Ok (VUnion (overwrite buf (match f_off f with Some o => o | None => 0 end) bs) ms').
Proof. exact union_assign_spec. Qed.
(* ... and overwriting changes exactly the written range: new bytes there, the old bytes everywhere else, same length *)
Theorem overwrite_is_local : forall buf off bs i d, 0 <= off -> (Z.to_nat off + length bs <= length buf)%nat ->
  nth i (overwrite buf off bs) d =
  if (i <? Z.to_nat off)%nat then nth i buf d
  else if (i <? Z.to_nat off + length bs)%nat then nth (i - Z.to_nat off) bs d
  else nth i buf d.
Proof. exact overwrite_nth. Qed.
Theorem overwrite_keeps_length : forall buf off bs, 0 <= off -> (Z.to_nat off + length bs <= length buf)%nat -> length (overwrite buf off bs) = length buf.
Proof. exact overwrite_length. Qed.

Print Assumptions union_assign_is_overwrite.
Print Assumptions overwrite_is_local.

Definition ex_cfg := mkCfg "<" (PInt 8 false true) 8 [] [].
Definition ex_fs := [Fld "a" false (TPrim (PInt 4 false true) 4) None None; Fld "b" false (TArr (TPrim (PInt 1 false true) 1) (LFixed 4)) None None].
Example ex_assign : union_assign ex_cfg ex_fs false (VUnion [1; 2; 3; 4] []) "b" (VList [VInt 9; VInt 8; VInt 7; VInt 6])
  = Ok (VUnion [9; 8; 7; 6] [("a", VInt 101124105); ("b", VList [VInt 9; VInt 8; VInt 7; VInt 6])]).
Proof. vm_compute. reflexivity. Qed.
