(* C12 — Enums and flags preserve every underlying value and number members like C. *)
From VF Require Import Model.Enum Model.Writer Proofs.EnumCorrect Gen.GeneratedOk.
Open Scope string_scope. Open Scope list_scope. Open Scope Z_scope.

(* the integer read for an enum/flag field is exactly what the underlying type reads — members, gaps, unknown bits alike *)
Theorem enum_value_preserved : forall c fuel b al fl ms s pos ctx,
  read_ty c fuel (TEnum b al fl ms) s pos ctx = read_ty c fuel (TPrim b al) s pos ctx.
Proof. exact enum_reads_base. Qed.
(* ... and dumping writes that integer back through the underlying type *)
Theorem enum_write_base : forall c b al fl ms v pos, write_ty c (TEnum b al fl ms) v pos = write_ty c (TPrim b al) v pos.
Proof. reflexivity. Qed.

(* numbering: a member without a value takes the running next value; enum: previous + 1, first 0 *)
Theorem auto_enum : forall consts names values start,
  number_go false consts (map (fun n => (n, None)) names) values start =
  Some (rev values ++ combine names (map (fun i => start + Z.of_nat i) (seq 0 (length names)))).
Proof. exact auto_enum_run. Qed.
(* flag: the next higher power of two (first member 1) *)
Theorem auto_flag : forall v, 0 < v ->
  v < next_value true v /\ next_value true v <= 2 * v /\ exists k, 0 <= k /\ next_value true v = 2 ^ k.
Proof. exact next_flag_pow2. Qed.
Theorem auto_step : forall flag consts name r values nextval,
  number_go flag consts ((name, None) :: r) values nextval = number_go flag consts r ((name, nextval) :: values) (next_value flag nextval).
Proof. exact number_go_auto. Qed.
(* explicit values are expressions over the members declared so far *)
Theorem explicit_over_earlier : forall flag consts name toks r values nextval z,
  evaluate values consts (fun _ => None) toks = Some z ->
  number_go flag consts ((name, Some toks) :: r) values nextval = number_go flag consts r ((name, z) :: values) (next_value flag z).
Proof. exact number_go_explicit. Qed.

(* equality and hashing of parsed values *)
Theorem parse_hash_stable : forall cls members v,
  enum_eq (parse_enum cls members v) (parse_enum cls members v) = true /\
  enum_hash_key (parse_enum cls members v) = enum_hash_key (parse_enum cls members v).
Proof. exact parse_twice_equal. Qed.
Theorem enum_equals_its_integer : forall cls members v z, enum_eq_int (parse_enum cls members v) z = true <-> v = z.
Proof. exact eq_int_iff. Qed.
Theorem enum_eq_same_class : forall cls m1 m2 v w, enum_eq (parse_enum cls m1 v) (parse_enum cls m2 w) = true <-> v = w.
Proof. exact eq_same_class_iff. Qed.
Theorem enum_never_equal_across_classes : forall c1 c2 m1 m2 v w, c1 <> c2 -> enum_eq (parse_enum c1 m1 v) (parse_enum c2 m2 w) = false.
Proof. exact never_equal_across_classes. Qed.

Print Assumptions auto_enum.
Print Assumptions auto_flag.
Print Assumptions explicit_over_earlier.
Print Assumptions enum_value_preserved.

Example ex_numbering :
  number_members false [] [("A", None); ("B", Some ["5"]); ("C", None); ("D", Some ["B"; "+"; "C"]); ("E", None)] =
  Some [("A", 0); ("B", 5); ("C", 6); ("D", 11); ("E", 12)]
  /\ number_members true [] [("R", None); ("W", None); ("RW", Some ["R"; "|"; "W"]); ("X", None); ("S", Some ["0x30"]); ("T", None)] =
  Some [("R", 1); ("W", 2); ("RW", 3); ("X", 4); ("S", 48); ("T", 64)].
Proof. vm_compute. split; reflexivity. Qed.
