(* C13 — Definition parsing ignores comments, spacing and order of unrelated definitions (partial: see the manifest). *)
From VF Require Import Model.Comments Model.TypeSpec Proofs.AliasCorrect Gen.Generated Gen.GeneratedOk.
Open Scope string_scope. Open Scope list_scope. Open Scope Z_scope.

(* Every alias (typedef, built-in synonym) resolves to the very entry its target resolves to ... *)
Theorem resolve_alias_same : forall f tbl a x t, find_entry a tbl = Some x -> te_kind x = KAlias t ->
  resolve_go (S f) tbl a = resolve_go f tbl t.
Proof. exact resolve_alias_step. Qed.
(* ... a successful resolution yields a non-alias entry of the table ... *)
Theorem resolve_yields_type : forall f tbl n e, resolve_go f tbl n = Ok e -> In e tbl /\ is_alias e = false.
Proof. exact resolve_ok_entry. Qed.
(* ... an unknown name and a cyclic alias are resolve errors, for every bound: never a loop, never a foreign binding *)
Theorem resolve_unknown_err : forall f tbl n, find_entry n tbl = None -> resolve_go (S f) tbl n = Err EResolve.
Proof. exact resolve_unknown. Qed.
Theorem resolve_cycle_err : forall tbl a b xa xb, find_entry a tbl = Some xa -> te_kind xa = KAlias b -> find_entry b tbl = Some xb -> te_kind xb = KAlias a ->
  forall f, resolve_go f tbl a = Err EResolve /\ resolve_go f tbl b = Err EResolve.
Proof. exact resolve_cycle2. Qed.
Theorem resolve_only_fails_with_resolve_error : forall f tbl n x, resolve_go f tbl n = Err x -> x = EResolve.
Proof. exact resolve_err_is_resolve. Qed.
(* all built-in aliases of the live table resolve (within the live bound) to their conventional base type *)
Theorem builtin_aliases_resolve : check_type_table (Z.to_nat resolve_bound) type_table = true.
Proof. exact type_table_ok. Qed.

(* the comment stripper copies text without quotes and slashes unchanged and replaces a block comment by the newlines it contains (by one blank when it contains none: the tokens around a comment stay apart), and a line comment - which ends in front of the first carriage return or line feed - by one blank *)
Theorem strip_keeps_plain_text : forall l, forallb plain l = true -> forall f r, strip_go (length l + f) (l ++ r) = l ++ strip_go f r.
Proof. exact strip_go_plain. Qed.
Theorem strip_block_comment_to_newlines : forall body rest f, no_close (body ++ [cST]) = true ->
  strip_go (S f) (cSL :: cST :: body ++ cST :: cSL :: rest) = comment_repl body ++ strip_go f rest.
Proof. exact strip_block_comment. Qed.
Theorem strip_line_comment_to_blank : forall body rest f, no_eol body = true -> (match rest with [] => True | e :: _ => (e =? cNL) || (e =? cCR) = true end) ->
  strip_go (S f) (cSL :: cSL :: body ++ rest) = 32 :: strip_go f rest.
Proof. exact strip_line_comment. Qed.

Print Assumptions resolve_alias_same.
Print Assumptions resolve_cycle_err.
Print Assumptions strip_keeps_plain_text.
Print Assumptions strip_block_comment_to_newlines.
Print Assumptions strip_line_comment_to_blank.

Example ex_strip : strip_comments [97; 47; 42; 120; 10; 121; 42; 47; 98; 47; 47; 99] = [97; 10; 98; 32] /\
  strip_comments [97; 47; 42; 120; 42; 47; 98; 47; 47; 99; 13; 10; 100] = [97; 32; 98; 32; 13; 10; 100].
Proof. vm_compute. split; reflexivity. Qed.
